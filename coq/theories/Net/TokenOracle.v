(** C20: run of the model and the property as an executable oracle over observed results. The
    oracle keeps its own tracker (who waits on which descriptor, as the history and the observed
    results tell it) and never looks at the model. *)
From OCV Require Import Base.Prelude Net.Selector Net.Token.
Open Scope Z_scope.

Definition run_C20 (nfd : Z) (ops : list op) : list obs := fst (run_from (loop_init nfd) ops).
Definition tags_C20 (nfd : Z) (ops : list op) : list ctag * list tag :=
  let l := snd (run_from (loop_init nfd) ops) in (l_ctags l, s_tags (l_sel l)).

Definition opt_eqb (a b : option Z) : bool := option_eqb Z.eqb a b.

Definition obs_eqb (a b : obs) : bool :=
  match a, b with
  | OReg o1 d1, OReg o2 d2 => Bool.eqb o1 o2 && opt_eqb d1 d2
  | ORegT o1 d1 t1, ORegT o2 d2 t2 => Bool.eqb o1 o2 && opt_eqb d1 d2 && Bool.eqb t1 t2
  | OBusy, OBusy => true
  | OEvent t1 h1 w1, OEvent t2 h2 w2 => (t1 =? t2) && Bool.eqb h1 h2 && list_eqb Z.eqb w1 w2
  | ONoEvent, ONoEvent => true
  | ODel o1, ODel o2 => Bool.eqb o1 o2
  | OOther, OOther => true
  | _, _ => false
  end.

(** one step of the property. Tracker [t]: (coroutine, descriptor) for every wait that began and has
    not been ended by a wake-up; a wait whose descriptor was deleted is kept with [VOID].
    - readiness of [fd] must resume, on that event, exactly the coroutines waiting on [fd];
    - a coroutine that the specification says is free must not be found still suspended. *)
Definition ok_step (t : list (Z * Z)) (o : op) (r : obs) : bool * list (Z * Z) :=
  match o, r with
  | Wait c fd, OReg true _ => (true, aset c fd t)
  | Wait c fd, OReg false _ => (true, t)
  | WaitT c fd, ORegT _ _ _ => (true, t)
  | Ready fd, OEvent _ _ woken =>
      (same_set (waiters_on fd t) woken, fold_left (fun t c => arem c t) woken t)
  | Ready fd, ONoEvent => (match waiters_on fd t with [] => true | _ => false end, t)
  | Del fd, ODel _ => (true, void_fd fd t)
  | _, _ => (false, t)
  end.

Fixpoint ok_from (t : list (Z * Z)) (ops : list op) (rs : list obs) : bool :=
  match ops, rs with
  | [], [] => true
  | o :: ops', r :: rs' => let '(b, t1) := ok_step t o r in b && ok_from t1 ops' rs'
  | _, _ => false
  end.

Definition ok_C20 (ops : list op) (rs : list obs) : bool := ok_from [] ops rs.

(** well-formed histories: ids are 64-bit, descriptors are among the [nfd] open ones, and a
    coroutine starts a wait only when, by the specification, it is not already waiting
    (it is after [Wait c fd] until [Ready fd]; for ever if the descriptor's interest is deleted
    under it). This is a function of the history alone. *)
Definition spec_step (t : list (Z * Z)) (o : op) : list (Z * Z) :=
  match o with
  | Wait c fd => aset c fd t
  | WaitT _ _ => t
  | Ready fd => fold_left (fun t c => arem c t) (waiters_on fd t) t
  | Del fd => void_fd fd t
  end.

Definition wf_op (nfd : Z) (t : list (Z * Z)) (o : op) : bool :=
  match o with
  | Wait c fd | WaitT c fd =>
      in_u64 c && (0 <=? fd) && (fd <? nfd) && match aget c t with None => true | Some _ => false end
  | Ready fd | Del fd => (0 <=? fd) && (fd <? nfd)
  end.

Fixpoint wf_from (nfd : Z) (t : list (Z * Z)) (ops : list op) : bool :=
  match ops with
  | [] => true
  | o :: ops' => wf_op nfd t o && wf_from nfd (spec_step t o) ops'
  end.

Definition wf_C20 (nfd : Z) (ops : list op) : bool := (0 <=? nfd) && wf_from nfd [] ops.

(** Histories outside the recorded finding [registration_outlives_wait]: between two deletions a
    descriptor is used by one coroutine identity and a coroutine identity uses one descriptor. *)
Definition bound_ok (b : list (Z * Z)) (c fd : Z) : bool :=
  match aget c b with
  | Some f => f =? fd
  | None => negb (existsb (fun p => snd p =? fd) b)
  end.

Definition pair_step (b : list (Z * Z)) (o : op) : bool * list (Z * Z) :=
  match o with
  | Wait c fd | WaitT c fd => (bound_ok b c fd, aset c fd b)
  | Ready _ => (true, b)
  | Del fd => (true, filter (fun p => negb (snd p =? fd)) b)
  end.

Fixpoint paired_from (b : list (Z * Z)) (ops : list op) : bool :=
  match ops with
  | [] => true
  | o :: ops' => let '(ok, b1) := pair_step b o in ok && paired_from b1 ops'
  end.

Definition paired (ops : list op) : bool := paired_from [] ops.
