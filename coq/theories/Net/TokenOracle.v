(** C20: run of the model and the property as an executable oracle over observed results. The
    oracle keeps its own tracker (who waits for which direction of which descriptor, as the history
    and the observed results tell it) and never looks at the model. *)
From OCV Require Import Base.Prelude Net.Selector Net.Token.
Open Scope Z_scope.

Definition run_C20 (nfd : Z) (ops : list op) : list obs := fst (run_from (loop_init nfd) ops).
Definition tags_C20 (nfd : Z) (ops : list op) : list ctag * list tag :=
  let l := snd (run_from (loop_init nfd) ops) in (l_ctags l, s_tags (l_sel l)).

Definition k_eqb (a b : bool * bool * Z) : bool :=
  let '(r1, w1, t1) := a in let '(r2, w2, t2) := b in Bool.eqb r1 r2 && Bool.eqb w1 w2 && (t1 =? t2).
Definition kview_eqb (a b : kview) : bool := option_eqb k_eqb a b.

Definition obs_eqb (a b : obs) : bool :=
  match a, b with
  | OReg o1 d1, OReg o2 d2 => Bool.eqb o1 o2 && kview_eqb d1 d2
  | ORegT o1 d1 t1, ORegT o2 d2 t2 => Bool.eqb o1 o2 && kview_eqb d1 d2 && Bool.eqb t1 t2
  | OBusy, OBusy => true
  | OEvent t1 h1 w1, OEvent t2 h2 w2 => (t1 =? t2) && Bool.eqb h1 h2 && list_eqb Z.eqb w1 w2
  | ONoEvent, ONoEvent => true
  | ODel o1 d1, ODel o2 d2 => Bool.eqb o1 o2 && kview_eqb d1 d2
  | OClose o1, OClose o2 => Bool.eqb o1 o2
  | OReopen, OReopen => true
  | OOther, OOther => true
  | _, _ => false
  end.

(** one step of the property. Tracker [t]: (coroutine, (descriptor, direction)) for every wait that
    began and has not been ended by a wake-up; a wait whose interest was deleted, or whose descriptor
    was closed, is kept with [VOID].
    - readiness of [fd] in direction [d] must resume, on that event, exactly the coroutines waiting
      for direction [d] of [fd]: nobody waiting for another descriptor, nobody waiting for the other
      direction;
    - when the OS has nothing to deliver for ([fd], [d]), nobody may be waiting for it (such a
      waiter would be resumed by its wait timeout only);
    - a coroutine that the specification says is free must not be found still suspended. *)
Definition ok_step (t : list (Z * want)) (o : op) (r : obs) : bool * list (Z * want) :=
  match o, r with
  | Wait d c fd, OReg true _ => (true, aset c (fd, d) t)
  | Wait d c fd, OReg false _ => (true, t)
  | WaitT d c fd, ORegT _ _ _ => (true, t)
  | Wait _ c _, OBusy | WaitT _ c _, OBusy => (match aget c t with Some _ => true | None => false end, t)
  | Ready d fd, OEvent _ _ woken =>
      (same_set (waiters_on fd d t) woken, fold_left (fun t c => arem c t) woken t)
  | Ready d fd, ONoEvent => (is_nil (waiters_on fd d t), t)
  | Del fd, ODel _ _ => (true, void_fd fd t)
  | DelDir d fd, ODel _ _ => (true, void_dir fd d t)
  | Close fd, OClose _ => (true, void_fd fd t)
  | Reopen fd, OReopen => (true, t)
  | _, _ => (false, t)
  end.

Fixpoint ok_from (t : list (Z * want)) (ops : list op) (rs : list obs) : bool :=
  match ops, rs with
  | [], [] => true
  | o :: ops', r :: rs' => let '(b, t1) := ok_step t o r in b && ok_from t1 ops' rs'
  | _, _ => false
  end.

Definition ok_C20 (ops : list op) (rs : list obs) : bool := ok_from [] ops rs.

(** the specification's view of who waits, a function of the history alone: a coroutine waits after
    [Wait d c fd] until [Ready d fd]; for ever if the interest is deleted or the descriptor closed
    under it *)
Definition spec_step (t : list (Z * want)) (o : op) : list (Z * want) :=
  match o with
  | Wait d c fd => aset c (fd, d) t
  | WaitT _ _ _ => t
  | Ready d fd => fold_left (fun t c => arem c t) (waiters_on fd d t) t
  | Del fd | Close fd => void_fd fd t
  | DelDir d fd => void_dir fd d t
  | Reopen _ => t
  end.

(** well-formed histories: ids are 64-bit, descriptors are among the slots [1 .. nfd-1], and a
    coroutine starts a wait only when, by the specification, it is not already waiting. Descriptor 0
    exists (it is open) but is never a slot: it is the descriptor the runtime falls back to when an
    event's token is unknown to [TOKEN_FD]. *)
Definition wf_op (nfd : Z) (t : list (Z * want)) (o : op) : bool :=
  match o with
  | Wait _ c fd | WaitT _ c fd =>
      in_u64 c && (1 <=? fd) && (fd <? nfd) && match aget c t with None => true | Some _ => false end
  | Ready _ fd | Del fd | DelDir _ fd | Close fd | Reopen fd => (1 <=? fd) && (fd <? nfd)
  end.

Fixpoint wf_from (nfd : Z) (t : list (Z * want)) (ops : list op) : bool :=
  match ops with
  | [] => true
  | o :: ops' => wf_op nfd t o && wf_from nfd (spec_step t o) ops'
  end.

Definition wf_C20 (nfd : Z) (ops : list op) : bool := (0 <=? nfd) && wf_from nfd [] ops.

(** Histories outside the recorded findings [registration_outlives_wait] and
    [one_token_per_descriptor], again a function of the history alone. Between two deletions of a
    descriptor's whole registration (by [Del], [Close], or [DelDir] of its only registered direction)
    - the descriptor is used by one coroutine identity and that coroutine uses only this descriptor
      ([n_bind], both directions together);
    - readiness of one direction does not arrive while a coroutine waits for the other direction;
    - one direction is deleted on its own only when the other one is not registered
      ([n_r] / [n_w]: descriptors with a wait for readability / writability since the last deletion);
    - waits name open descriptors ([n_closed]). *)
Record nd := { n_bind : list (Z * Z); n_r : list Z; n_w : list Z; n_closed : list Z }.

Definition nd_init : nd := {| n_bind := []; n_r := []; n_w := []; n_closed := [] |}.

Definition bound_ok (b : list (Z * Z)) (c fd : Z) : bool :=
  match aget c b with
  | Some f => f =? fd
  | None => negb (existsb (fun p => snd p =? fd) b)
  end.

Definition unbind (fd : Z) (b : list (Z * Z)) : list (Z * Z) := filter (fun p => negb (snd p =? fd)) b.

Definition nd_forget (n : nd) (fd : Z) (closed : list Z) : nd :=
  {| n_bind := unbind fd (n_bind n); n_r := zrem fd (n_r n); n_w := zrem fd (n_w n); n_closed := closed |}.

Definition nd_step (t : list (Z * want)) (n : nd) (o : op) : bool * nd :=
  match o with
  | Wait d c fd | WaitT d c fd =>
      (bound_ok (n_bind n) c fd && negb (zmem fd (n_closed n)),
       {| n_bind := aset c fd (n_bind n);
          n_r := if d then n_r n else zadd fd (n_r n);
          n_w := if d then zadd fd (n_w n) else n_w n;
          n_closed := n_closed n |})
  | Ready d fd => (is_nil (waiters_on fd (negb d) t), n)
  | Del fd => (true, nd_forget n fd (n_closed n))
  | DelDir d fd => (negb (zmem fd (if d then n_r n else n_w n)), nd_forget n fd (n_closed n))
  | Close fd => (true, nd_forget n fd (zadd fd (n_closed n)))
  | Reopen fd =>
      (true, {| n_bind := n_bind n; n_r := n_r n; n_w := n_w n; n_closed := zrem fd (n_closed n) |})
  end.

Fixpoint nd_from (t : list (Z * want)) (n : nd) (ops : list op) : bool :=
  match ops with
  | [] => true
  | o :: ops' => let '(ok, n1) := nd_step t n o in ok && nd_from (spec_step t o) n1 ops'
  end.

Definition no_defect (ops : list op) : bool := nd_from [] nd_init ops.

(** the coroutine identity [c] does not occur in the history *)
Definition fresh (c : Z) (ops : list op) : bool :=
  forallb (fun o => match o with Wait _ c' _ | WaitT _ c' _ => negb (c' =? c) | _ => true end) ops.
