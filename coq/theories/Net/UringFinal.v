(** From the boolean hypotheses of the theorem to the invariant at the start, and from the invariant
    at the end to the oracle. *)
From OCV Require Import Base.Prelude Net.Uring Net.UringOracle Net.UringLemmas Net.UringInv Net.UringSteps.
From Coq Require Import ZifyBool ZifyNat.
Open Scope Z_scope.

(** ** the boolean well-formedness conditions as propositions *)
Lemma nodupb_spec : forall l, nodupb l = true -> NoDup l.
Proof.
  induction l as [|x l IH]; intros H; [constructor|]. simpl in H. apply andb_true_iff in H as [H1 H2].
  constructor; auto. intro Hin. apply negb_true_iff in H1.
  assert (existsb (Z.eqb x) l = true) by (apply existsb_exists; exists x; split; auto; apply Z.eqb_refl).
  congruence.
Qed.

Lemma seq_nat_in : forall len start i, (start <= i < start + len)%nat -> In i (seq_nat start len).
Proof.
  induction len as [|len IH]; intros start i H; [lia|]. simpl.
  destruct (Nat.eq_dec start i); auto. right. apply IH. lia.
Qed.

Section Final.
Variable rs : list rspec.
Variable cs : list cspec.
Variable script : list ev.
Hypothesis Hwf : wf_C27 rs cs script = true.
Hypothesis Hnd0 : no_defect rs cs = true.

Definition total (r : nat) : Z := feeds_of rs script r.

Lemma wf_parts :
  NoDup (map cs_tok cs) /\ private cs = true
  /\ (forall c cl, In c cs -> In cl (cs_prog c) -> (c_res cl < length rs)%nat /\ 1 <= c_len cl)
  /\ (forall sp, In sp rs -> 0 <= rs_pre sp)
  /\ no_join script = true
  /\ (forall i, (i < length cs)%nat -> started script i = true)
  /\ (forall r sp, nth_error rs r = Some sp -> rs_eof sp = false -> readable (rs_kind sp) = true ->
        (rs_timed sp && co_only cs r = true) \/ demand rs cs r <= rs_pre sp + feeds_of rs script r).
Proof.
  unfold wf_C27 in Hwf. repeat (apply andb_true_iff in Hwf as [Hwf ?]).
  split; [apply nodupb_spec; auto|]. split; auto.
  split.
  { intros c cl Hc Hcl. rewrite forallb_forall in H3. specialize (H3 c Hc). rewrite forallb_forall in H3.
    specialize (H3 cl Hcl). unfold call_ok in H3. apply andb_true_iff in H3 as [A B]. split; lia. }
  split.
  { intros sp Hsp. rewrite forallb_forall in H2. specialize (H2 sp Hsp). apply andb_true_iff in H2 as [H2 _]. lia. }
  split; auto. split.
  { intros i Hi. rewrite forallb_forall in H0. apply H0. apply seq_nat_in. lia. }
  intros r sp Hsp He Hrd. rewrite forallb_forall in H.
  assert (Hin : In r (seq_nat O (length rs))) by (apply seq_nat_in; pose proof (nth_error_some_lt _ _ _ Hsp); lia).
  specialize (H r Hin). cbn beta zeta in H. rewrite (nth_error_nth _ _ _ rsdummy Hsp) in H.
  rewrite He, Hrd in H. cbn [negb orb] in H. apply orb_true_iff in H as [H|H]; [left; auto|right; lia].
Qed.

Lemma nodef_spec : forall c cl, In c cs -> In cl (cs_prog c) -> cs_co c = true ->
  classify (rs_kind (nth (c_res cl) rs rsdummy)) (c_op cl) = CRead -> rs_timed (nth (c_res cl) rs rsdummy) = false.
Proof.
  intros c cl Hc Hcl Hco. unfold no_defect in Hnd0. rewrite forallb_forall in Hnd0. specialize (Hnd0 c Hc).
  rewrite Hco in Hnd0. cbn [negb orb] in Hnd0. rewrite forallb_forall in Hnd0. specialize (Hnd0 cl Hcl).
  cbn beta zeta in Hnd0. intro E. rewrite E in Hnd0. apply negb_true_iff in Hnd0. auto.
Qed.

Lemma total_spec : forall r, feedable (rs_kind (nth r rs rsdummy)) (rs_eof (nth r rs rsdummy)) = false -> total r = 0.
Proof. intros r H. unfold total, feeds_of. rewrite H. auto. Qed.


Lemma rdemand_init : forall l r, rdemand rs (map k_init l) r = demand rs l r.
Proof.
  intros l r. unfold rdemand, demand. induction l as [|c l IH]; [reflexivity|].
  cbn [map flat_map]. rewrite sumZ_cons, map_app, sumZ_app, IH. f_equal.
Qed.

Lemma demand_zero_if_timed_co : forall r sp, nth_error rs r = Some sp ->
  rs_timed sp && co_only cs r = true -> demand rs cs r = 0.
Proof.
  intros r sp Hsp H. apply andb_true_iff in H as [Ht Hco]. unfold demand.
  apply sumZ_none. intros cl Hin. apply in_flat_map in Hin as [c [Hc Hcl]]. unfold calls_of in Hcl.
  destruct (Nat.eqb (c_res cl) r) eqn:E; auto. apply Nat.eqb_eq in E.
  destruct (classify (rs_kind (nth r rs rsdummy)) (c_op cl)) eqn:Ecl; auto.
  exfalso. unfold co_only in Hco. rewrite forallb_forall in Hco. specialize (Hco c Hc).
  assert (Hu : uses c r = true) by (rewrite <- E; apply uses_in; auto).
  rewrite Hu in Hco. cbn [negb orb] in Hco.
  pose proof (nodef_spec c cl Hc Hcl Hco) as Hn. rewrite E in Hn. specialize (Hn Ecl).
  rewrite (nth_error_nth _ _ _ rsdummy Hsp) in Hn. congruence.
Qed.

Lemma init_inv : Inv rs cs None script total (init rs cs).
Proof.
  destruct wf_parts as [W1 [W2 [W3 [W4 [W5 [W6 W7]]]]]].
  constructor; cbn [init s_dead s_div s_callers s_res s_table s_inflight]; auto.
  - apply map_length.
  - rewrite map_map. apply map_ext. reflexivity.
  - intros i c k Hc Hk. rewrite nth_error_map, Hc in Hk. inversion Hk; subst k; clear Hk.
    constructor; cbn; auto; try discriminate.
    exists [], (zero_track rs). split; [reflexivity|]. split; [reflexivity|].
    assert (Hz : forall r, tr_get (zero_track rs) r = (0, 0)).
    { intro r. unfold tr_get, zero_track. destruct (nth_error rs r) eqn:E.
      - erewrite nth_error_nth; eauto. rewrite nth_error_map, E. reflexivity.
      - rewrite nth_overflow; auto. rewrite map_length. apply nth_error_None; auto. }
    split; intros r _; rewrite Hz; auto.
    destruct (nth_error rs r) eqn:E.
    + erewrite (nth_error_nth (map r_init rs)); [|rewrite nth_error_map, E; reflexivity]. reflexivity.
    + rewrite nth_overflow; auto. rewrite map_length. apply nth_error_None; auto.
  - apply map_length.
  - intros r sp x Hsp Hx. rewrite nth_error_map, Hsp in Hx. inversion Hx; subst x; clear Hx. cbn.
    repeat split; auto; try (apply W4; eapply nth_error_In; eauto); try (unfold total; lia).
  - intros i k Hk. rewrite nth_error_map in Hk. destruct (nth_error cs i); inversion Hk; subst. reflexivity.
  - intros q [].
  - intros i k cl Hk Hst. rewrite nth_error_map in Hk. destruct (nth_error cs i); inversion Hk; subst. discriminate.
  - constructor.
  - intros r sp x Hsp Hx Hrd He. rewrite nth_error_map, Hsp in Hx. inversion Hx; subst x; clear Hx. cbn.
    rewrite rdemand_init. destruct (W7 r sp Hsp He Hrd) as [H|H]; auto.
    rewrite (demand_zero_if_timed_co r sp Hsp H).
    pose proof (W4 sp (nth_error_In _ _ Hsp)). pose proof (feeds_of_nonneg rs script r). lia.
  - intros i k Hk _. apply W6. rewrite <- (map_length k_init). eapply nth_error_some_lt; eauto.
Qed.

Lemma mu_bound : forall rest st, Inv rs cs None rest total st -> (mu st < fuel_of cs)%nat.
Proof.
  intros rest st HI. unfold mu, fuel_of.
  assert (Hgen : forall callers l, length callers = length l ->
            (forall i c k, nth_error l i = Some c -> nth_error callers i = Some k ->
                           (length (todo k) <= length (cs_prog c))%nat) ->
            (list_sum (map weight callers) <= 3 * work l)%nat).
  { induction callers as [|k callers IH]; intros [|c l] Hlen Hp; cbn [length] in Hlen; try lia.
    - cbn. lia.
    - cbn [map list_sum fold_right work]. fold (list_sum (map weight callers)). fold (work l).
      pose proof (Hp O c k eq_refl eq_refl).
      assert (list_sum (map weight callers) <= 3 * work l)%nat.
      { apply IH; [lia|]. intros i c' k' H1 H2. apply (Hp (S i) c' k'); auto. }
      assert (weight k <= 3 * length (todo k))%nat.
      { unfold weight, is_held, todo, pending. destruct (k_stat k); cbn [app length]; lia. }
      lia. }
  assert (list_sum (map weight (s_callers st)) <= 3 * work cs)%nat.
  { apply Hgen; [apply (i_len _ _ _ _ _ _ HI)|]. intros i c k Hc Hk.
    destruct (i_callers _ _ _ _ _ _ HI i c k Hc Hk) as [_ _ _ _ _ _ [done [T [G1 _]]]].
    rewrite G1, app_length. lia. }
  lia.
Qed.


(** ** from the invariant at the end to the oracle *)

Definition tr_of (res : list rstate) (c : cspec) (r : nat) : Z * Z :=
  if uses c r then (r_pos (nth r res rdummy), r_wrote (nth r res rdummy)) else (0, 0).

Lemma chk_callers_ok : forall res l callers n,
  length callers = length l ->
  (forall i c k, nth_error l i = Some c -> nth_error callers i = Some k ->
      started script (n + i) = true
      /\ exists T, chk_calls rs (cs_co c) (zero_track rs) (cs_prog c) (rev (k_out k)) = Some T
                   /\ forall r, tr_get T r = tr_of res c r) ->
  exists ts, chk_callers rs script n l (map (fun k => rev (k_out k)) callers) = Some ts
             /\ Forall2 (fun c T => forall r, tr_get T r = tr_of res c r) l ts.
Proof.
  intros res. induction l as [|c l IH]; intros [|k callers] n Hlen Hp; cbn [length] in Hlen; try lia.
  - exists []. split; [reflexivity|constructor].
  - cbn [map chk_callers].
    destruct (Hp O c k eq_refl eq_refl) as [Hs [T [HT HTr]]]. rewrite Nat.add_0_r in Hs. rewrite Hs.
    unfold calls_of. rewrite HT.
    destruct (IH callers (S n)) as [ts [Hts Hf]]; [lia| |].
    { intros i c' k' H1 H2. replace (S n + i)%nat with (n + S i)%nat by lia. apply (Hp (S i) c' k'); auto. }
    rewrite Hts. exists (T :: ts). split; auto.
Qed.

Lemma sum_forall2 : forall res l ts r, Forall2 (fun c T => forall r, tr_get T r = tr_of res c r) l ts ->
  sum_cons ts r = sumZ (map (fun c => fst (tr_of res c r)) l)
  /\ sum_wrote ts r = sumZ (map (fun c => snd (tr_of res c r)) l).
Proof.
  intros res l ts r H. unfold sum_cons, sum_wrote. induction H as [|c T l ts Hc Hf IH]; [split; reflexivity|].
  cbn [map]. rewrite !sumZ_cons. destruct IH as [I1 I2]. rewrite I1, I2, Hc. auto.
Qed.

Lemma private_sums : forall res r x, private cs = true -> nth r res rdummy = x ->
  ((forall c, In c cs -> uses c r = false) -> r_pos x = 0 /\ r_wrote x = 0) ->
  sumZ (map (fun c => fst (tr_of res c r)) cs) = r_pos x
  /\ sumZ (map (fun c => snd (tr_of res c r)) cs) = r_wrote x.
Proof.
  intros res r x Hp Hx Hun.
  destruct (existsb (fun c => uses c r) cs) eqn:E.
  - apply existsb_exists in E as [c [Hc Hu]]. apply In_nth_error in Hc as [i Hi].
    split.
    + rewrite (sumZ_single (fun c => fst (tr_of res c r)) cs i c Hi).
      * unfold tr_of. rewrite Hu, Hx. reflexivity.
      * intros j y Hj Hne. unfold tr_of. rewrite (private_spec cs i j c y r Hp Hi Hj); auto.
    + rewrite (sumZ_single (fun c => snd (tr_of res c r)) cs i c Hi).
      * unfold tr_of. rewrite Hu, Hx. reflexivity.
      * intros j y Hj Hne. unfold tr_of. rewrite (private_spec cs i j c y r Hp Hi Hj); auto.
  - assert (Hall : forall c, In c cs -> uses c r = false).
    { intros c Hc. destruct (uses c r) eqn:Eu; auto.
      assert (existsb (fun c => uses c r) cs = true) by (apply existsb_exists; eauto). congruence. }
    destruct (Hun Hall) as [H1 H2]. rewrite H1, H2.
    split; apply sumZ_none; intros c Hc; unfold tr_of; rewrite (Hall c Hc); reflexivity.
Qed.

Lemma chk_end_ok : forall ts specs ress n,
  length ress = length specs ->
  (forall k sp x, nth_error specs k = Some sp -> nth_error ress k = Some x ->
     r_kind x = rs_kind sp /\ r_eof x = rs_eof sp
     /\ sum_cons ts (n + k) + r_avail x = rs_pre sp + feeds_of rs script (n + k)
     /\ sum_wrote ts (n + k) = r_wrote x) ->
  chk_end rs script ts n specs (map left_of ress) (sinks n ress) = true.
Proof.
  intros ts. induction specs as [|sp specs IH]; intros [|x ress] n Hlen Hp; cbn [length] in Hlen; try lia.
  - reflexivity.
  - cbn [map sinks chk_end].
    destruct (Hp O sp x eq_refl eq_refl) as [A [B [C D]]]. rewrite Nat.add_0_r in C, D.
    rewrite IH; [| lia |].
    2:{ intros k sp' x' H1 H2. replace (S n + k)%nat with (n + S k)%nat by lia. apply (Hp (S k)); auto. }
    rewrite andb_true_r. unfold left_of, has_sink. rewrite A, B, D.
    apply andb_true_iff. split.
    + destruct (readable (rs_kind sp)) eqn:Er; [lia|reflexivity].
    + destruct (rs_kind sp), (rs_eof sp); cbn; auto; apply zlist_eqb_refl.
Qed.

Lemma final_ok : forall st, Inv rs cs None [] total st -> all_finished st = true ->
  ok_C27 rs cs script (obs_of st) = true.
Proof.
  intros st HI Haf. destruct wf_parts as [W1 [W2 [W3 [W4 [W5 [W6 W7]]]]]].
  unfold ok_C27, obs_of. cbn [o_end o_calls]. rewrite (i_alive _ _ _ _ _ _ HI), (i_nodiv _ _ _ _ _ _ HI).
  destruct (chk_callers_ok (s_res st) cs (s_callers st) O) as [ts [Hts Hf]].
  { apply (i_len _ _ _ _ _ _ HI). }
  { intros i c k Hc Hk. split; [apply W6; eapply nth_error_some_lt; eauto|].
    unfold all_finished in Haf. rewrite forallb_forall in Haf.
    pose proof (Haf k (nth_error_In _ _ Hk)) as Hfin. unfold finished in Hfin.
    destruct (i_callers _ _ _ _ _ _ HI i c k Hc Hk) as [A B C D E F [done [T [G1 [G2 [G3 G4]]]]]].
    destruct (k_stat k) eqn:Hst; try discriminate.
    - pose proof (i_start _ _ _ _ _ _ HI i k Hk Hst) as Hs. cbn in Hs. discriminate.
    - exists T. assert (Hp : k_prog k = []) by (apply E; auto; discriminate).
      assert (Hd : done = cs_prog c).
      { rewrite G1. unfold todo, pending. rewrite Hst, Hp. cbn. rewrite app_nil_r. reflexivity. }
      rewrite <- Hd. split; auto. intro r. unfold tr_of. destruct (uses c r) eqn:Eu; auto. }
  rewrite Hts.
  apply chk_end_ok.
  - apply (i_rlen _ _ _ _ _ _ HI).
  - intros r sp x Hsp Hx. cbn [Nat.add].
    destruct (i_res _ _ _ _ _ _ HI r sp x Hsp Hx) as [R1 [R2 [R3 [R4 [R5 R6]]]]].
    destruct (sum_forall2 (s_res st) cs ts r Hf) as [S1 S2].
    destruct (private_sums (s_res st) r x W2 (nth_error_nth _ _ _ rdummy Hx) R6) as [P1 P2].
    rewrite S1, S2, P1, P2. repeat split; auto.
    assert (feeds_of rs [] r = 0) by (unfold feeds_of; destruct (feedable _ _); auto).
    unfold total in R5. lia.
Qed.

End Final.
