(** From the boolean hypotheses of the theorem to the invariant at the start, and from the invariant
    at the end to the oracle. *)
From OCV Require Import Base.Prelude Net.Uring Net.UringOracle Net.UringLemmas Net.UringInv Net.UringSteps.
From Coq Require Import ZifyBool ZifyNat.
Open Scope Z_scope.

(** ** the boolean well-formedness conditions as propositions *)
Lemma nodupb_spec : forall l, nodupb l = true -> NoDup l.
Proof.
  induction l as [|x l IH]; intros H; [constructor|]. simpl in H. apply andb_true_iff in H as [H1 H2].
  constructor; auto. intro Hin. apply negb_true_iff in H1.
  assert (existsb (Z.eqb x) l = true) by (apply existsb_exists; exists x; split; auto; apply Z.eqb_refl).
  congruence.
Qed.

Lemma seq_nat_in : forall len start i, (start <= i < start + len)%nat -> In i (seq_nat start len).
Proof.
  induction len as [|len IH]; intros start i H; [lia|]. simpl.
  destruct (Nat.eq_dec start i); auto. right. apply IH. lia.
Qed.

Section Final.
Variable rs : list rspec.
Variable cs : list cspec.
Variable script : list ev.
Hypothesis Hwf : wf_C27 rs cs script = true.
Hypothesis Hnd0 : no_defect rs cs = true.

Definition total (r : nat) : Z := feeds_of rs script r.

Lemma wf_parts :
  NoDup (map cs_tok cs) /\ private cs = true
  /\ (forall c cl, In c cs -> In cl (cs_prog c) -> (c_res cl < length rs)%nat /\ 1 <= c_len cl)
  /\ (forall sp, In sp rs -> 0 <= rs_pre sp)
  /\ no_join script = true
  /\ (forall i, (i < length cs)%nat -> started script i = true)
  /\ (forall r sp, nth_error rs r = Some sp -> rs_eof sp = false -> readable (rs_kind sp) = true ->
        (rs_timed sp && co_only cs r = true) \/ demand rs cs r <= rs_pre sp + feeds_of rs script r).
Proof.
  unfold wf_C27 in Hwf. repeat (apply andb_true_iff in Hwf as [Hwf ?]).
  split; [apply nodupb_spec; auto|]. split; auto.
  split.
  { intros c cl Hc Hcl. rewrite forallb_forall in H3. specialize (H3 c Hc). rewrite forallb_forall in H3.
    specialize (H3 cl Hcl). unfold call_ok in H3. apply andb_true_iff in H3 as [A B]. split; lia. }
  split.
  { intros sp Hsp. rewrite forallb_forall in H2. specialize (H2 sp Hsp). lia. }
  split; auto. split.
  { intros i Hi. rewrite forallb_forall in H0. apply H0. apply seq_nat_in. lia. }
  intros r sp Hsp He Hrd. rewrite forallb_forall in H.
  assert (Hin : In r (seq_nat O (length rs))) by (apply seq_nat_in; pose proof (nth_error_some_lt _ _ _ Hsp); lia).
  specialize (H r Hin). cbn beta zeta in H. rewrite (nth_error_nth _ _ _ rsdummy Hsp) in H.
  rewrite He, Hrd in H. cbn [negb orb] in H. apply orb_true_iff in H as [H|H]; [left; auto|right; lia].
Qed.

Lemma nodef_spec : forall c cl, In c cs -> In cl (cs_prog c) -> cs_co c = true ->
  rs_kind (nth (c_res cl) rs rsdummy) <> KClosed
  /\ (classify (rs_kind (nth (c_res cl) rs rsdummy)) (c_op cl) = CRead -> rs_timed (nth (c_res cl) rs rsdummy) = false).
Proof.
  intros c cl Hc Hcl Hco. unfold no_defect in Hnd0. rewrite forallb_forall in Hnd0. specialize (Hnd0 c Hc).
  rewrite Hco in Hnd0. cbn [negb orb] in Hnd0. rewrite forallb_forall in Hnd0. specialize (Hnd0 cl Hcl).
  cbn beta zeta in Hnd0. apply andb_true_iff in Hnd0 as [A B]. split.
  - intro E. rewrite E in A. discriminate.
  - intro E. rewrite E in B. apply negb_true_iff in B. auto.
Qed.

Lemma total_spec : forall r, feedable (rs_kind (nth r rs rsdummy)) (rs_eof (nth r rs rsdummy)) = false -> total r = 0.
Proof. intros r H. unfold total, feeds_of. rewrite H. auto. Qed.


Lemma rdemand_init : forall l r, rdemand rs (map k_init l) r = demand rs l r.
Proof.
  intros l r. unfold rdemand, demand. induction l as [|c l IH]; [reflexivity|].
  cbn [map flat_map]. rewrite sumZ_cons, map_app, sumZ_app, IH. f_equal.
Qed.

Lemma demand_zero_if_timed_co : forall r sp, nth_error rs r = Some sp ->
  rs_timed sp && co_only cs r = true -> demand rs cs r = 0.
Proof.
  intros r sp Hsp H. apply andb_true_iff in H as [Ht Hco]. unfold demand.
  apply sumZ_none. intros cl Hin. apply in_flat_map in Hin as [c [Hc Hcl]]. unfold calls_of in Hcl.
  destruct (Nat.eqb (c_res cl) r) eqn:E; auto. apply Nat.eqb_eq in E.
  destruct (classify (rs_kind (nth r rs rsdummy)) (c_op cl)) eqn:Ecl; auto.
  exfalso. unfold co_only in Hco. rewrite forallb_forall in Hco. specialize (Hco c Hc).
  assert (Hu : uses c r = true) by (rewrite <- E; apply uses_in; auto).
  rewrite Hu in Hco. cbn [negb orb] in Hco.
  destruct (nodef_spec c cl Hc Hcl Hco) as [_ Hn]. rewrite E in Hn. specialize (Hn Ecl).
  rewrite (nth_error_nth _ _ _ rsdummy Hsp) in Hn. congruence.
Qed.

Lemma init_inv : Inv rs cs None script total (init rs cs).
Proof.
  destruct wf_parts as [W1 [W2 [W3 [W4 [W5 [W6 W7]]]]]].
  constructor; cbn [init s_dead s_div s_callers s_res s_table s_inflight]; auto.
  - apply map_length.
  - rewrite map_map. apply map_ext. reflexivity.
  - intros i c k Hc Hk. rewrite nth_error_map, Hc in Hk. inversion Hk; subst k; clear Hk.
    constructor; cbn; auto; try discriminate.
    exists [], (zero_track rs). split; [reflexivity|]. split; [reflexivity|].
    assert (Hz : forall r, tr_get (zero_track rs) r = (0, 0)).
    { intro r. unfold tr_get, zero_track. destruct (nth_error rs r) eqn:E.
      - erewrite nth_error_nth; eauto. rewrite nth_error_map, E. reflexivity.
      - rewrite nth_overflow; auto. rewrite map_length. apply nth_error_None; auto. }
    split; intros r _; rewrite Hz; auto.
    destruct (nth_error rs r) eqn:E.
    + erewrite (nth_error_nth (map r_init rs)); [|rewrite nth_error_map, E; reflexivity]. reflexivity.
    + rewrite nth_overflow; auto. rewrite map_length. apply nth_error_None; auto.
  - apply map_length.
  - intros r sp x Hsp Hx. rewrite nth_error_map, Hsp in Hx. inversion Hx; subst x; clear Hx. cbn.
    repeat split; auto; try (apply W4; eapply nth_error_In; eauto); try (unfold total; lia).
  - intros i k Hk. rewrite nth_error_map in Hk. destruct (nth_error cs i); inversion Hk; subst. reflexivity.
  - intros q [].
  - intros i k cl Hk Hst. rewrite nth_error_map in Hk. destruct (nth_error cs i); inversion Hk; subst. discriminate.
  - constructor.
  - intros r sp x Hsp Hx Hrd He. rewrite nth_error_map, Hsp in Hx. inversion Hx; subst x; clear Hx. cbn.
    rewrite rdemand_init. destruct (W7 r sp Hsp He Hrd) as [H|H]; auto.
    rewrite (demand_zero_if_timed_co r sp Hsp H).
    pose proof (W4 sp (nth_error_In _ _ Hsp)). pose proof (feeds_of_nonneg rs script r). lia.
  - intros i k Hk _. apply W6. rewrite <- (map_length k_init). eapply nth_error_some_lt; eauto.
Qed.

Lemma mu_bound : forall rest st, Inv rs cs None rest total st -> (mu st < fuel_of cs)%nat.
Proof.
  intros rest st HI. unfold mu, fuel_of.
  assert (Hgen : forall callers l, length callers = length l ->
            (forall i c k, nth_error l i = Some c -> nth_error callers i = Some k ->
                           (length (todo k) <= length (cs_prog c))%nat) ->
            (list_sum (map weight callers) <= 3 * work l)%nat).
  { induction callers as [|k callers IH]; intros [|c l] Hlen Hp; cbn [length] in Hlen; try lia.
    - cbn. lia.
    - cbn [map list_sum fold_right work]. fold (list_sum (map weight callers)). fold (work l).
      pose proof (Hp O c k eq_refl eq_refl).
      assert (list_sum (map weight callers) <= 3 * work l)%nat.
      { apply IH; [lia|]. intros i c' k' H1 H2. apply (Hp (S i) c' k'); auto. }
      assert (weight k <= 3 * length (todo k))%nat.
      { unfold weight, is_held, todo, pending. destruct (k_stat k); cbn [app length]; lia. }
      lia. }
  assert (list_sum (map weight (s_callers st)) <= 3 * work cs)%nat.
  { apply Hgen; [apply (i_len _ _ _ _ _ _ HI)|]. intros i c k Hc Hk.
    destruct (i_callers _ _ _ _ _ _ HI i c k Hc Hk) as [_ _ _ _ _ _ [done [T [G1 _]]]].
    rewrite G1, app_length. lia. }
  lia.
Qed.

End Final.
