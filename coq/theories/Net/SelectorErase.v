(** C21 support: the observations of a history do not depend on the token maps, hence not on when
    (or whether) the pollers' own threads process readiness events ([Deliver] steps). *)
From OCV Require Import Base.Prelude Net.Selector Net.SelectorLemmas Net.SelectorOracle.
From Coq Require Import ZifyBool ZifyNat.
Open Scope Z_scope.

Definition bits (e : kent) : bool * bool := (k_r e, k_w e).
Definition ertbl (t : ktable) : list (Z * (bool * bool)) := map (fun p => (fst p, bits (snd p))) t.

Definition eqv (a b : sel) : Prop :=
  s_open a = s_open b /\ map ertbl (s_kern a) = map ertbl (s_kern b)
  /\ s_rrec a = s_rrec b /\ s_wrec a = s_wrec b /\ s_tags a = s_tags b.

Lemma aget_ertbl : forall t fd, aget fd (ertbl t) = option_map bits (aget fd t).
Proof.
  intros t fd. induction t as [|[a e] t IH]; [reflexivity|]. cbn [ertbl map fst snd aget].
  destruct (fd =? a); [reflexivity|exact IH].
Qed.

Lemma ertbl_aset : forall t fd e, ertbl (aset fd e t) = aset fd (bits e) (ertbl t).
Proof.
  intros t fd e. unfold aset. cbn [ertbl map fst snd]. f_equal.
  induction t as [|[a x] t IH]; [reflexivity|]. cbn [arem ertbl map fst snd].
  destruct (fd =? a); [exact IH|]. cbn [map fst snd]. f_equal. exact IH.
Qed.

Lemma ertbl_arem : forall t fd, ertbl (arem fd t) = arem fd (ertbl t).
Proof.
  intros t fd. induction t as [|[a x] t IH]; [reflexivity|]. cbn [arem ertbl map fst snd].
  destruct (fd =? a); [exact IH|]. cbn [map fst snd]. f_equal. exact IH.
Qed.

Lemma map_lset : forall {A B} (f : A -> B) l i v, map f (lset l i v) = lset (map f l) i (f v).
Proof.
  intros A B f l. induction l as [|a l IH]; intros i v; [reflexivity|].
  destruct i; cbn [lset map]; [reflexivity|]. now rewrite IH.
Qed.

Lemma ertbl_tbl : forall a b i, map ertbl (s_kern a) = map ertbl (s_kern b) -> ertbl (tbl a i) = ertbl (tbl b i).
Proof.
  intros a b i H. unfold tbl.
  rewrite <- (map_nth ertbl (s_kern a) [] i), <- (map_nth ertbl (s_kern b) [] i). now rewrite H.
Qed.

Lemma same_entry : forall t1 t2 fd, ertbl t1 = ertbl t2 ->
  option_map bits (aget fd t1) = option_map bits (aget fd t2).
Proof. intros t1 t2 fd H. rewrite <- !aget_ertbl. now rewrite H. Qed.

Lemma kr_er : forall t1 t2 fd, ertbl t1 = ertbl t2 -> kr t1 fd = kr t2 fd.
Proof.
  intros t1 t2 fd H. pose proof (same_entry t1 t2 fd H) as E. unfold kr.
  destruct (aget fd t1), (aget fd t2); cbn in E; try discriminate; [|reflexivity]. now inversion E.
Qed.
Lemma kw_er : forall t1 t2 fd, ertbl t1 = ertbl t2 -> kw t1 fd = kw t2 fd.
Proof.
  intros t1 t2 fd H. pose proof (same_entry t1 t2 fd H) as E. unfold kw.
  destruct (aget fd t1), (aget fd t2); cbn in E; try discriminate; [|reflexivity]. now inversion E.
Qed.

(** results of two computations agree and the states stay equivalent *)
Definition agree (p q : bool * sel) : Prop := fst p = fst q /\ eqv (snd p) (snd q).

Lemma eqv_refl : forall a, eqv a a.
Proof. intros a. repeat split. Qed.

Lemma eqv_mark : forall a b i fd, eqv a b -> eqv (mark a i fd) (mark b i fd).
Proof.
  intros a b i fd [O [K [R [W T]]]]. unfold mark, coherent.
  rewrite (kr_er _ _ fd (ertbl_tbl a b i K)), (kw_er _ _ fd (ertbl_tbl a b i K)), R, W.
  destruct (_ && _); repeat split; cbn [s_open s_kern s_rrec s_wrec s_tags add_tag]; auto. now rewrite T.
Qed.

Lemma eqv_kern_upd : forall a b i t1 t2 m1 m2, eqv a b -> ertbl t1 = ertbl t2 ->
  eqv (with_tokfd (with_tbl a i t1) m1) (with_tokfd (with_tbl b i t2) m2).
Proof.
  intros a b i t1 t2 m1 m2 [O [K [R [W T]]]] E. repeat split; cbn [s_open s_kern s_rrec s_wrec s_tags with_tokfd with_tbl]; auto.
  now rewrite !map_lset, K, E.
Qed.

Lemma agree_register : forall a b i fd t1 t2 r w, eqv a b -> agree (register a i fd t1 r w) (register b i fd t2 r w).
Proof.
  intros a b i fd t1 t2 r w H. pose proof H as [O [K _]]. unfold register, k_add. rewrite O.
  pose proof (same_entry _ _ fd (ertbl_tbl a b i K)) as E.
  destruct (negb (zmem fd (s_open b))); [split; [reflexivity|exact H]|].
  destruct (aget fd (tbl a i)), (aget fd (tbl b i)); cbn in E; try discriminate; (split; [reflexivity|]); cbn [snd]; [exact H|].
  apply eqv_kern_upd; [exact H|]. rewrite !ertbl_aset. now rewrite (ertbl_tbl a b i K).
Qed.

Lemma agree_reregister : forall a b i fd t1 t2 r w, eqv a b -> agree (reregister a i fd t1 r w) (reregister b i fd t2 r w).
Proof.
  intros a b i fd t1 t2 r w H. pose proof H as [O [K _]]. unfold reregister, k_mod. rewrite O.
  pose proof (same_entry _ _ fd (ertbl_tbl a b i K)) as E.
  destruct (negb (zmem fd (s_open b))); [split; [reflexivity|exact H]|].
  destruct (aget fd (tbl a i)), (aget fd (tbl b i)); cbn in E; try discriminate; (split; [reflexivity|]); cbn [snd]; [|exact H].
  apply eqv_kern_upd; [exact H|]. rewrite !ertbl_aset. now rewrite (ertbl_tbl a b i K).
Qed.

Lemma agree_deregister : forall a b i fd t1 t2, eqv a b -> agree (deregister a i fd t1) (deregister b i fd t2).
Proof.
  intros a b i fd t1 t2 H. pose proof H as [O [K _]]. unfold deregister, k_del. rewrite O.
  pose proof (same_entry _ _ fd (ertbl_tbl a b i K)) as E.
  destruct (negb (zmem fd (s_open b))); [split; [reflexivity|exact H]|].
  destruct (aget fd (tbl a i)), (aget fd (tbl b i)); cbn in E; try discriminate; (split; [reflexivity|]); cbn [snd]; [|exact H].
  apply eqv_kern_upd; [exact H|]. rewrite !ertbl_arem. now rewrite (ertbl_tbl a b i K).
Qed.

Lemma agree_rereg_or_reg : forall a b i fd t1 t2 r w, eqv a b ->
  agree (rereg_or_reg a i fd t1 r w) (rereg_or_reg b i fd t2 r w).
Proof.
  intros a b i fd t1 t2 r w H. unfold rereg_or_reg.
  pose proof (agree_reregister a b i fd t1 t2 r w H) as [E1 E2].
  destruct (reregister a i fd t1 r w) as [o1 s1], (reregister b i fd t2 r w) as [o2 s2]. cbn [fst snd] in *. subst o2.
  destruct o1; [split; [reflexivity|exact E2]|]. now apply agree_register.
Qed.

Lemma eqv_with_r : forall a b l m1 m2, eqv a b -> eqv (with_r a l m1) (with_r b l m2).
Proof. intros a b l m1 m2 [O [K [R [W T]]]]. repeat split; auto. Qed.
Lemma eqv_with_w : forall a b l m1 m2, eqv a b -> eqv (with_w a l m1) (with_w b l m2).
Proof. intros a b l m1 m2 [O [K [R [W T]]]]. repeat split; auto. Qed.

Lemma agree_add_read : forall a b i fd t1 t2, eqv a b -> agree (add_read_event a i fd t1) (add_read_event b i fd t2).
Proof.
  intros a0 b0 i fd t1 t2 H0. unfold add_read_event.
  pose proof (eqv_mark a0 b0 i fd H0) as H. set (a := mark a0 i fd) in *. set (b := mark b0 i fd) in *. clearbody a b.
  pose proof H as [O [K [R [W T]]]]. rewrite R, W.
  destruct (zmem fd (s_rrec b)); [split; [reflexivity|exact H]|].
  assert (A : agree (if zmem fd (s_wrec b) then rereg_or_reg a i fd t1 true true else register a i fd t1 true false)
                    (if zmem fd (s_wrec b) then rereg_or_reg b i fd t2 true true else register b i fd t2 true false)).
  { destruct (zmem fd (s_wrec b)); [now apply agree_rereg_or_reg|now apply agree_register]. }
  destruct A as [E1 E2].
  destruct (if zmem fd (s_wrec b) then rereg_or_reg a i fd t1 true true else register a i fd t1 true false) as [o1 s1].
  destruct (if zmem fd (s_wrec b) then rereg_or_reg b i fd t2 true true else register b i fd t2 true false) as [o2 s2].
  cbn [fst snd] in *. subst o2. destruct o1; split; cbn [fst snd]; auto.
  destruct E2 as [O2 [K2 [R2 [W2 T2]]]]. rewrite R2. apply eqv_with_r. repeat split; auto.
Qed.

Lemma agree_add_write : forall a b i fd t1 t2, eqv a b -> agree (add_write_event a i fd t1) (add_write_event b i fd t2).
Proof.
  intros a0 b0 i fd t1 t2 H0. unfold add_write_event.
  pose proof (eqv_mark a0 b0 i fd H0) as H. set (a := mark a0 i fd) in *. set (b := mark b0 i fd) in *. clearbody a b.
  pose proof H as [O [K [R [W T]]]]. rewrite R, W.
  destruct (zmem fd (s_wrec b)); [split; [reflexivity|exact H]|].
  assert (A : agree (if zmem fd (s_rrec b) then rereg_or_reg a i fd t1 true true else register a i fd t1 false true)
                    (if zmem fd (s_rrec b) then rereg_or_reg b i fd t2 true true else register b i fd t2 false true)).
  { destruct (zmem fd (s_rrec b)); [now apply agree_rereg_or_reg|now apply agree_register]. }
  destruct A as [E1 E2].
  destruct (if zmem fd (s_rrec b) then rereg_or_reg a i fd t1 true true else register a i fd t1 false true) as [o1 s1].
  destruct (if zmem fd (s_rrec b) then rereg_or_reg b i fd t2 true true else register b i fd t2 false true) as [o2 s2].
  cbn [fst snd] in *. subst o2. destruct o1; split; cbn [fst snd]; auto.
  destruct E2 as [O2 [K2 [R2 [W2 T2]]]]. rewrite W2. apply eqv_with_w. repeat split; auto.
Qed.

Lemma agree_del_core : forall a b i fd, eqv a b -> agree (del_event_core a i fd) (del_event_core b i fd).
Proof.
  intros a b i fd H. unfold del_event_core. pose proof H as [O [K [R [W T]]]]. rewrite R, W.
  destruct (zmem fd (s_rrec b) || zmem fd (s_wrec b)); [|split; [reflexivity|exact H]].
  assert (FIN : forall a1 b1 t1 t2, eqv a1 b1 ->
            agree (let '(ok, s2) := deregister a1 i fd t1 in
                   if ok then (true, with_w (with_r s2 (zrem fd (s_rrec s2)) (s_rtok s2)) (zrem fd (s_wrec s2)) (s_wtok s2))
                   else (false, s2))
                  (let '(ok, s2) := deregister b1 i fd t2 in
                   if ok then (true, with_w (with_r s2 (zrem fd (s_rrec s2)) (s_rtok s2)) (zrem fd (s_wrec s2)) (s_wtok s2))
                   else (false, s2))).
  { intros a1 b1 t1 t2 H1. pose proof (agree_deregister a1 b1 i fd t1 t2 H1) as [E1 E2].
    destruct (deregister a1 i fd t1) as [o1 s1], (deregister b1 i fd t2) as [o2 s2]. cbn [fst snd] in *. subst o2.
    destruct o1; split; cbn [fst snd]; auto.
    pose proof E2 as [O2 [K2 [R2 [W2 T2]]]].
    cbn [s_wrec with_r]. rewrite R2, W2. apply eqv_with_w. apply eqv_with_r. exact E2. }
  cbv zeta. apply FIN. apply eqv_with_w. apply eqv_with_r. exact H.
Qed.

Lemma agree_del_event : forall a b i fd, eqv a b -> agree (del_event a i fd) (del_event b i fd).
Proof. intros a b i fd H. unfold del_event. apply agree_del_core. now apply eqv_mark. Qed.

Lemma agree_del_read : forall a b i fd, eqv a b -> agree (del_read_event a i fd) (del_read_event b i fd).
Proof.
  intros a0 b0 i fd H0. unfold del_read_event.
  pose proof (eqv_mark a0 b0 i fd H0) as H. set (a := mark a0 i fd) in *. set (b := mark b0 i fd) in *. clearbody a b.
  pose proof H as [O [K [R [W T]]]]. rewrite R, W.
  destruct (zmem fd (s_rrec b)); [|split; [reflexivity|exact H]].
  destruct (zmem fd (s_wrec b)); [|now apply agree_del_core].
  cbv zeta.
  pose proof (agree_reregister a b i fd (match aget fd (s_wtok a) with Some t => t | None => 0 end)
                (match aget fd (s_wtok b) with Some t => t | None => 0 end) false true H) as [E1 E2].
  destruct (reregister a i fd _ false true) as [o1 s1], (reregister b i fd _ false true) as [o2 s2].
  cbn [fst snd] in *. subst o2. destruct o1; split; cbn [fst snd]; auto.
  pose proof E2 as [O2 [K2 [R2 [W2 T2]]]]. rewrite R2. now apply eqv_with_r.
Qed.

Lemma agree_del_write : forall a b i fd, eqv a b -> agree (del_write_event a i fd) (del_write_event b i fd).
Proof.
  intros a0 b0 i fd H0. unfold del_write_event.
  pose proof (eqv_mark a0 b0 i fd H0) as H. set (a := mark a0 i fd) in *. set (b := mark b0 i fd) in *. clearbody a b.
  pose proof H as [O [K [R [W T]]]]. rewrite R, W.
  destruct (zmem fd (s_wrec b)); [|split; [reflexivity|exact H]].
  destruct (zmem fd (s_rrec b)); [|now apply agree_del_core].
  cbv zeta.
  pose proof (agree_reregister a b i fd (match aget fd (s_rtok a) with Some t => t | None => 0 end)
                (match aget fd (s_rtok b) with Some t => t | None => 0 end) true false H) as [E1 E2].
  destruct (reregister a i fd _ true false) as [o1 s1], (reregister b i fd _ true false) as [o2 s2].
  cbn [fst snd] in *. subst o2. destruct o1; split; cbn [fst snd]; auto.
  pose proof E2 as [O2 [K2 [R2 [W2 T2]]]]. rewrite W2. now apply eqv_with_w.
Qed.

Lemma agree_all_loops : forall (f : sel -> nat -> bool * sel),
  (forall a b i, eqv a b -> agree (f a i) (f b i)) ->
  forall n i a b, eqv a b -> agree (all_loops f a i n) (all_loops f b i n).
Proof.
  intros f Hf n. induction n as [|n IH]; intros i a b H; cbn [all_loops]; [split; [reflexivity|exact H]|].
  pose proof (Hf a b i H) as [E1 E2]. destruct (f a i) as [o1 s1], (f b i) as [o2 s2]. cbn [fst snd] in *. subst o2.
  destruct o1; [now apply IH|split; [reflexivity|exact E2]].
Qed.

Lemma loops_eqv : forall a b, eqv a b -> loops a = loops b.
Proof.
  intros a b [_ [K _]]. unfold loops. rewrite <- (map_length ertbl (s_kern a)), <- (map_length ertbl (s_kern b)).
  now rewrite K.
Qed.

Lemma agree_el_del_event : forall a b fd, eqv a b -> agree (el_del_event a fd) (el_del_event b fd).
Proof.
  intros a b fd H. unfold el_del_event. rewrite (loops_eqv a b H).
  apply agree_all_loops; [|exact H]. intros; now apply agree_del_event.
Qed.
Lemma agree_el_del_read : forall a b fd, eqv a b -> agree (el_del_read_event a fd) (el_del_read_event b fd).
Proof.
  intros a b fd H. unfold el_del_read_event. rewrite (loops_eqv a b H).
  apply agree_all_loops; [|exact H]. intros; now apply agree_del_read.
Qed.
Lemma agree_el_del_write : forall a b fd, eqv a b -> agree (el_del_write_event a fd) (el_del_write_event b fd).
Proof.
  intros a b fd H. unfold el_del_write_event. rewrite (loops_eqv a b H).
  apply agree_all_loops; [|exact H]. intros; now apply agree_del_write.
Qed.

Lemma eqv_os_close : forall a b fd, eqv a b -> eqv (os_close a fd) (os_close b fd).
Proof.
  intros a b fd [O [K [R [W T]]]]. repeat split; cbn [os_close s_open s_kern s_rrec s_wrec s_tags with_open]; auto.
  - now rewrite O.
  - rewrite !map_map.
    assert (E : forall l, map (fun x => ertbl (arem fd x)) l = map (arem fd) (map ertbl l)).
    { intros l. rewrite map_map. apply map_ext. intros x. apply ertbl_arem. }
    now rewrite !E, K.
Qed.

Lemma eqv_os_open : forall a b fd, eqv a b -> eqv (os_open a fd) (os_open b fd).
Proof.
  intros a b fd [O [K [R [W T]]]]. repeat split; cbn [os_open s_open s_kern s_rrec s_wrec s_tags with_open]; auto.
  now rewrite O.
Qed.

Lemma eqv_deliver : forall a tok r w, eqv (deliver a tok r w) a.
Proof. intros a tok r w. unfold deliver. destruct r, w; repeat split. Qed.

Lemma eqv_sym : forall a b, eqv a b -> eqv b a.
Proof. intros a b [O [K [R [W T]]]]. repeat split; auto. Qed.
Lemma eqv_trans : forall a b c, eqv a b -> eqv b c -> eqv a c.
Proof. intros a b c [O [K [R [W T]]]] [O2 [K2 [R2 [W2 T2]]]]. repeat split; congruence. Qed.

Lemma snapshot_eqv : forall nfd a b, eqv a b -> snapshot nfd a = snapshot nfd b.
Proof.
  intros nfd a b [_ [K _]]. unfold snapshot.
  assert (S : forall t, snap_tbl nfd t =
             flat_map (fun fd => match aget fd (ertbl t) with Some x => [(fd, fst x, snd x)] | None => [] end) (fds nfd)).
  { intros t. unfold snap_tbl. apply flat_map_ext. intros fd. rewrite aget_ertbl. now destruct (aget fd t). }
  assert (E : forall l, map (snap_tbl nfd) l =
             map (fun et => flat_map (fun fd => match aget fd et with Some x => [(fd, fst x, snd x)] | None => [] end) (fds nfd))
                 (map ertbl l)).
  { intros l. rewrite map_map. apply map_ext. exact S. }
  now rewrite !E, K.
Qed.

Definition is_deliver (o : op) : bool := match o with Deliver _ _ _ => true | _ => false end.
Definition strip (ops : list op) : list op := filter (fun o => negb (is_deliver o)) ops.
Fixpoint strip_obs (ops : list op) (rs : list obs) : list obs :=
  match ops, rs with
  | o :: ops', r :: rs' => if is_deliver o then strip_obs ops' rs' else r :: strip_obs ops' rs'
  | _, _ => []
  end.

Definition yeqv (y1 y2 : sys) : Prop := eqv (y_sel y1) (y_sel y2) /\ y_idx y1 = y_idx y2.

Lemma step_eqv : forall y1 y2 o, yeqv y1 y2 -> is_deliver o = false ->
  snd (step y1 o) = snd (step y2 o) /\ yeqv (fst (step y1 o)) (fst (step y2 o)).
Proof.
  intros y1 y2 o [H I] Hd.
  assert (P : forall (p q : bool * sel), agree p q ->
            snd ({| y_sel := snd p; y_idx := y_idx y1 |}, fst p) = snd ({| y_sel := snd q; y_idx := y_idx y2 |}, fst q)
            /\ yeqv (fst ({| y_sel := snd p; y_idx := y_idx y1 |}, fst p)) (fst ({| y_sel := snd q; y_idx := y_idx y2 |}, fst q))).
  { intros p q [A B]. cbn [fst snd]. split; [exact A|]. split; [exact B|exact I]. }
  destruct o as [fd|fd|fd|fd|fd|fd|fd|fd|fd|fd|fd|tok r w]; cbn [step]; try discriminate.
  - rewrite (loops_eqv _ _ H), I.
    pose proof (agree_add_read (y_sel y1) (y_sel y2) (y_idx y2 mod loops (y_sel y2)) fd thread_token thread_token H) as [A B].
    destruct (add_read_event (y_sel y1) _ fd thread_token) as [o1 s1], (add_read_event (y_sel y2) _ fd thread_token) as [o2 s2].
    cbn [fst snd] in *. split; [exact A|]. split; [exact B|reflexivity].
  - rewrite (loops_eqv _ _ H), I.
    pose proof (agree_add_write (y_sel y1) (y_sel y2) (y_idx y2 mod loops (y_sel y2)) fd thread_token thread_token H) as [A B].
    destruct (add_write_event (y_sel y1) _ fd thread_token) as [o1 s1], (add_write_event (y_sel y2) _ fd thread_token) as [o2 s2].
    cbn [fst snd] in *. split; [exact A|]. split; [exact B|reflexivity].
  - apply P. now apply agree_el_del_read.
  - apply P. now apply agree_el_del_write.
  - apply P. now apply agree_el_del_event.
  - pose proof (agree_el_del_event _ _ fd H) as [A B].
    destruct (el_del_event (y_sel y1) fd) as [o1 s1], (el_del_event (y_sel y2) fd) as [o2 s2]. cbn [fst snd] in *.
    split; [unfold os_ret; destruct B as [O _]; now rewrite O|]. split; [now apply eqv_os_close|exact I].
  - pose proof (agree_el_del_read _ _ fd H) as [A B].
    destruct (el_del_read_event (y_sel y1) fd) as [o1 s1], (el_del_read_event (y_sel y2) fd) as [o2 s2]. cbn [fst snd] in *.
    split; [unfold os_ret; destruct B as [O _]; now rewrite O|]. split; [exact B|exact I].
  - pose proof (agree_el_del_write _ _ fd H) as [A B].
    destruct (el_del_write_event (y_sel y1) fd) as [o1 s1], (el_del_write_event (y_sel y2) fd) as [o2 s2]. cbn [fst snd] in *.
    split; [unfold os_ret; destruct B as [O _]; now rewrite O|]. split; [exact B|exact I].
  - pose proof (agree_el_del_event _ _ fd H) as [A B].
    destruct (el_del_event (y_sel y1) fd) as [o1 s1], (el_del_event (y_sel y2) fd) as [o2 s2]. cbn [fst snd] in *.
    split; [unfold os_ret; destruct B as [O _]; now rewrite O|]. split; [exact B|exact I].
  - cbn [fst snd]. split; [reflexivity|]. split; [exact H|exact I].
  - cbn [fst snd y_sel y_idx]. split; [reflexivity|]. split; [now apply eqv_os_open|exact I].
Qed.

Lemma run_strip : forall nfd ops y1 y2, yeqv y1 y2 ->
  strip_obs ops (fst (run_from nfd y1 ops)) = fst (run_from nfd y2 (strip ops)).
Proof.
  intros nfd ops. induction ops as [|o ops IH]; intros y1 y2 H; [reflexivity|].
  cbn [run_from strip filter]. destruct (is_deliver o) eqn:Ed.
  - destruct o; try discriminate. cbn [negb step].
    destruct (run_from nfd {| y_sel := deliver (y_sel y1) tok r w; y_idx := y_idx y1 |} ops) as [rs yf] eqn:Er.
    cbn [fst strip_obs is_deliver].
    specialize (IH {| y_sel := deliver (y_sel y1) tok r w; y_idx := y_idx y1 |} y2).
    rewrite Er in IH. cbn [fst] in IH. apply IH. destruct H as [A B]. split; cbn [y_sel y_idx]; [|exact B].
    eapply eqv_trans; [apply eqv_deliver|exact A].
  - cbn [negb run_from]. pose proof (step_eqv y1 y2 o H Ed) as [A B].
    destruct (step y1 o) as [y1' r1], (step y2 o) as [y2' r2]. cbn [fst snd] in A, B. subst r2.
    specialize (IH y1' y2' B). unfold strip in IH.
    destruct (run_from nfd y1' ops) as [rs1 yf1].
    destruct (run_from nfd y2' (filter (fun o0 : op => negb (is_deliver o0)) ops)) as [rs2 yf2].
    cbn [fst strip_obs] in *. rewrite Ed, IH, (snapshot_eqv nfd _ _ (proj1 B)). reflexivity.
Qed.

Lemma events_do_not_matter : forall pollers nfd ops,
  strip_obs ops (run_C21 pollers nfd ops) = run_C21 pollers nfd (strip ops).
Proof.
  intros pollers nfd ops. unfold run_C21. apply run_strip. split; [apply eqv_refl|reflexivity].
Qed.
