(** Script steps preserve the invariant; waits end with every caller done. *)
From OCV Require Import Base.Prelude Net.Uring Net.UringOracle Net.UringLemmas Net.UringInv.
From Coq Require Import ZifyBool ZifyNat.
Open Scope Z_scope.

Section Script.
Variable rs : list rspec.
Variable cs : list cspec.
Hypothesis Hnd : NoDup (map cs_tok cs).
Hypothesis Hpriv : private cs = true.
Hypothesis Hcalls : forall c cl, In c cs -> In cl (cs_prog c) -> (c_res cl < length rs)%nat /\ 1 <= c_len cl.
Hypothesis Hnodef : forall c cl, In c cs -> In cl (cs_prog c) -> cs_co c = true ->
  rs_kind (nth (c_res cl) rs rsdummy) <> KClosed
  /\ (classify (rs_kind (nth (c_res cl) rs rsdummy)) (c_op cl) = CRead -> rs_timed (nth (c_res cl) rs rsdummy) = false).
Variable total : nat -> Z.
Hypothesis Htotal : forall r, feedable (rs_kind (nth r rs rsdummy)) (rs_eof (nth r rs rsdummy)) = false -> total r = 0.

Notation Inv := (Inv rs cs).
Notation cinv := (cinv rs).

(** the part of the script still to come matters only through the feeds and starts it holds *)
Lemma inv_rest : forall run rest rest' st, Inv run rest total st ->
  (forall r, feeds_of rs rest' r = feeds_of rs rest r) ->
  (forall i k, nth_error (s_callers st) i = Some k -> k_stat k = SNew -> started rest' i = true) ->
  Inv run rest' total st.
Proof.
  intros run rest rest' st HI Hf Hs. constructor; try apply HI; auto.
  - intros r sp x Hsp Hx. rewrite Hf. eapply (i_res _ _ _ _ _ _ HI); eauto.
  - intros r sp x Hsp Hx Hrd He. rewrite Hf. eapply (i_suff _ _ _ _ _ _ HI); eauto.
Qed.

Lemma feeds_of_cons_other : forall e rest r,
  (forall r' n w, e <> EFeed r' n w) -> feeds_of rs (e :: rest) r = feeds_of rs rest r.
Proof.
  intros e rest r H. unfold feeds_of. destruct (feedable _ _); auto. cbn [fold_right].
  destruct e; auto. exfalso. eapply H; eauto.
Qed.

Lemma started_cons_other : forall e rest i,
  (forall c, e <> EStart c) -> started (e :: rest) i = started rest i.
Proof.
  intros e rest i H. unfold started. cbn [existsb]. destruct e; auto. exfalso. eapply H; eauto.
Qed.

Lemma feed_inv : forall rest st r n w, Inv None (EFeed r n w :: rest) total st -> Inv None rest total (feed st r n).
Proof.
  intros rest st r n w HI. unfold feed.
  assert (Hstart : forall i k, nth_error (s_callers st) i = Some k -> k_stat k = SNew -> started rest i = true).
  { intros i k Hk Hs. rewrite <- (started_cons_other (EFeed r n w)) by (intros; discriminate).
    eapply (i_start _ _ _ _ _ _ HI); eauto. }
  assert (Hfo : forall r', r' <> r -> feeds_of rs (EFeed r n w :: rest) r' = feeds_of rs rest r').
  { intros r' Hne. unfold feeds_of. destruct (feedable _ _); auto. cbn [fold_right].
    assert (Nat.eqb r' r = false) by (apply Nat.eqb_neq; auto). rewrite H. auto. }
  destruct (nth_error (s_res st) r) as [x|] eqn:Hx.
  2:{ (* no such descriptor: the feed does not count *)
    apply inv_rest with (rest := EFeed r n w :: rest); auto.
    intros r'. destruct (Nat.eq_dec r' r); [subst r'|symmetry; auto].
    unfold feeds_of. rewrite (nth_overflow rs rsdummy).
    - cbn. auto.
    - rewrite <- (i_rlen _ _ _ _ _ _ HI). apply nth_error_None; auto. }
  assert (Hrlt : (r < length rs)%nat) by (rewrite <- (i_rlen _ _ _ _ _ _ HI); eapply nth_error_some_lt; eauto).
  destruct (nth_error_lt_some rs r Hrlt) as [sp Hsp].
  destruct (i_res _ _ _ _ _ _ HI r sp x Hsp Hx) as [R1 [R2 [R3 [R4 [R5 R6]]]]].
  assert (Hsp' : nth r rs rsdummy = sp) by (apply nth_error_nth; auto).
  destruct (feedable (r_kind x) (r_eof x) && (0 <=? n)) eqn:Ef.
  - (* the bytes arrive *)
    apply andb_true_iff in Ef as [Ef1 Ef2].
    assert (Hfr : feeds_of rs (EFeed r n w :: rest) r = n + feeds_of rs rest r).
    { unfold feeds_of. rewrite Hsp', <- R1, <- R2, Ef1. cbn [fold_right]. rewrite Nat.eqb_refl, Ef2. reflexivity. }
    assert (Hlt : (r < length (s_res st))%nat) by (eapply nth_error_some_lt; eauto).
    constructor; cbn [set_res s_dead s_div s_callers s_res s_table s_inflight]; try apply HI; auto.
    + intros i c k Hc Hk. apply cinv_res_ext with (res := s_res st).
      * intros r' _. destruct (Nat.eq_dec r' r).
        -- subst r'. rewrite nth_upd_same by auto. rewrite (nth_error_nth _ _ _ rdummy Hx). cbn. auto.
        -- rewrite nth_upd_other by auto. auto.
      * eapply (i_callers _ _ _ _ _ _ HI); eauto.
    + rewrite upd_length. apply (i_rlen _ _ _ _ _ _ HI).
    + intros r' sp' y Hsp'' Hy. rewrite nth_error_upd in Hy by auto. destruct (Nat.eq_dec r' r).
      * subst r'. inversion Hy; subst y; clear Hy. assert (sp' = sp) by congruence; subst sp'.
        cbn. repeat split; auto; try lia. all: intro Hun; destruct (R6 Hun); auto.
      * rewrite <- Hfo by auto. eapply (i_res _ _ _ _ _ _ HI); eauto.
    + intros r' sp' y Hsp'' Hy Hrd He. rewrite nth_error_upd in Hy by auto. destruct (Nat.eq_dec r' r).
      * subst r'. inversion Hy; subst y; clear Hy. assert (sp' = sp) by congruence; subst sp'.
        pose proof (i_suff _ _ _ _ _ _ HI r sp x Hsp Hx Hrd He). cbn. lia.
      * rewrite <- Hfo by auto. eapply (i_suff _ _ _ _ _ _ HI); eauto.
  - (* nothing arrives: the other end is closed, or the count is negative *)
    apply inv_rest with (rest := EFeed r n w :: rest); auto.
    intros r'. destruct (Nat.eq_dec r' r); [subst r'|symmetry; auto].
    unfold feeds_of. rewrite Hsp', <- R1, <- R2. destruct (feedable (r_kind x) (r_eof x)); auto.
    cbn [fold_right]. rewrite Nat.eqb_refl. cbn [andb] in *. rewrite Ef. reflexivity.
Qed.

Lemma start_inv : forall rest st c, Inv None (EStart c :: rest) total st ->
  Inv None rest total
    match nth_error (s_callers st) c with
    | Some k => match k_stat k with SNew => advance st c k | _ => st end
    | None => st
    end.
Proof.
  intros rest st c HI.
  assert (Hf : forall r, feeds_of rs rest r = feeds_of rs (EStart c :: rest) r).
  { intro r. symmetry. apply feeds_of_cons_other. intros; discriminate. }
  assert (Hst_other : forall i k, i <> c -> nth_error (s_callers st) i = Some k -> k_stat k = SNew -> started rest i = true).
  { intros i k Hne Hk Hs. pose proof (i_start _ _ _ _ _ _ HI i k Hk Hs) as H. unfold started in *. cbn [existsb] in H.
    assert (Nat.eqb i c = false) by (apply Nat.eqb_neq; auto). rewrite H0 in H. auto. }
  destruct (nth_error (s_callers st) c) as [k|] eqn:Hk.
  2:{ apply inv_rest with (rest := EStart c :: rest); auto.
      intros i k Hk' Hs. apply (Hst_other i k); auto. intro; subst. congruence. }
  destruct (k_stat k) eqn:Hs.
  2,3,4: (apply inv_rest with (rest := EStart c :: rest); auto;
          intros i k' Hk' Hs'; apply (Hst_other i k'); auto; intro; subst; congruence).
  (* the caller starts: it becomes the running one *)
  assert (Hlt : (c < length (s_callers st))%nat) by (eapply nth_error_some_lt; eauto).
  assert (Hlc : (c < length cs)%nat) by (rewrite <- (i_len _ _ _ _ _ _ HI); auto).
  destruct (nth_error_lt_some cs c Hlc) as [sc Hsc].
  pose proof (i_table _ _ _ _ _ _ HI c k Hk) as Htab. unfold waiting in Htab. rewrite Hs in Htab.
  set (krun := with_stat k SDone).
  replace (advance st c k) with (advance (set_caller st c krun) c krun).
  2:{ rewrite advance_irrel. apply advance_stat_irrel; auto. }
  eapply (advance_inv rs cs Hnd Hpriv Hcalls Hnodef); eauto.
  2:{ cbn [set_caller set_callers s_callers]. apply nth_error_upd_same; auto. }
  assert (Htodo : todo krun = todo k) by (unfold todo, pending; cbn; rewrite Hs; auto).
  constructor; cbn [set_caller set_callers s_dead s_div s_callers s_res s_table s_inflight].
  - apply (i_alive _ _ _ _ _ _ HI).
  - apply (i_nodiv _ _ _ _ _ _ HI).
  - rewrite upd_length. apply (i_len _ _ _ _ _ _ HI).
  - rewrite (map_upd k_tok _ c _ cdummy); [apply (i_toks _ _ _ _ _ _ HI)|].
    rewrite (nth_error_nth _ _ _ cdummy Hk). reflexivity.
  - intros j cj kj Hcj Hkj. rewrite nth_error_upd in Hkj by auto. destruct (Nat.eq_dec j c).
    + subst j. inversion Hkj; subst kj; clear Hkj.
      destruct (i_callers _ _ _ _ _ _ HI c cj k Hcj Hk) as [A B C D E F [done [T [G1 [G2 [G3 G4]]]]]].
      constructor; cbn; auto; try congruence.
      exists done, T. repeat split; auto. rewrite G1. f_equal. symmetry. exact Htodo.
    + apply cinv_other with (run := None); try congruence. eapply (i_callers _ _ _ _ _ _ HI); eauto.
  - apply (i_rlen _ _ _ _ _ _ HI).
  - intros r sp x Hsp Hx. rewrite Hf. apply (i_res _ _ _ _ _ _ HI); auto.
  - intros j kj Hkj. rewrite nth_error_upd in Hkj by auto. destruct (Nat.eq_dec j c).
    + inversion Hkj; subst kj. cbn. exact Htab.
    + apply (i_table _ _ _ _ _ _ HI); auto.
  - intros q Hq. destruct (i_fl_a _ _ _ _ _ _ HI q Hq) as [kq [cl [H1 [H2 H3]]]].
    exists kq, cl. rewrite nth_error_upd_other; auto. intro E. rewrite <- E in H1. congruence.
  - intros j kj cl Hkj Hst. rewrite nth_error_upd in Hkj by auto. destruct (Nat.eq_dec j c).
    + inversion Hkj; subst kj; cbn in Hst; discriminate.
    + eapply (i_fl_b _ _ _ _ _ _ HI); eauto.
  - apply (i_fl_c _ _ _ _ _ _ HI).
  - intros r sp x Hsp Hx Hrd He. rewrite (rdemand_upd rs _ c _ cdummy r Hlt).
    rewrite (nth_error_nth _ _ _ cdummy Hk), Htodo, Hf.
    pose proof (i_suff _ _ _ _ _ _ HI r sp x Hsp Hx Hrd He). lia.
  - intros j kj Hkj Hst. rewrite nth_error_upd in Hkj by auto. destruct (Nat.eq_dec j c).
    + inversion Hkj; subst kj; cbn in Hst; discriminate.
    + apply (Hst_other j kj); auto.
Qed.


Lemma inv_shift : forall run e rest st, Inv run (e :: rest) total st ->
  (forall r n w, e <> EFeed r n w) -> (forall c, e <> EStart c) -> Inv run rest total st.
Proof.
  intros run e rest st HI H1 H2. apply inv_rest with (rest := e :: rest); auto.
  - intro r. symmetry. apply feeds_of_cons_other; auto.
  - intros i k Hk Hs. rewrite <- (started_cons_other e) by auto. eapply (i_start _ _ _ _ _ _ HI); eauto.
Qed.

Lemma step_inv : forall fuel rest st e, (forall c, e <> EJoin c) ->
  Inv None (e :: rest) total st -> Inv None rest total (step fuel st e).
Proof.
  intros fuel rest st e Hnj HI. unfold step.
  rewrite (i_alive _ _ _ _ _ _ HI), (i_nodiv _ _ _ _ _ _ HI).
  destruct e.
  - apply start_inv; auto.
  - pose proof (feed_inv _ _ _ _ _ HI) as HI'. destruct w; auto.
    destruct (first_idx _ _ _); auto. eapply (complete_inv rs cs); eauto.
  - eapply (reg_inv rs cs); eauto. eapply inv_shift; eauto; intros; discriminate.
  - exfalso. eapply Hnj; eauto.
  - eapply (complete_inv rs cs); eauto. eapply inv_shift; eauto; intros; discriminate.
  - assert (HI' : Inv None rest total st) by (eapply inv_shift; eauto; intros; discriminate).
    erewrite (timeout_inv rs cs); eauto.
  - eapply inv_shift; eauto; intros; discriminate.
Qed.

Lemma script_inv : forall fuel script st, no_join script = true ->
  Inv None script total st -> Inv None [] total (fold_left (step fuel) script st).
Proof.
  intros fuel script. induction script as [|e rest IH]; intros st Hnj HI; simpl; auto.
  simpl in Hnj. apply andb_true_iff in Hnj as [H1 H2].
  apply IH; auto. apply step_inv; auto. intros c E. subst e. discriminate.
Qed.

End Script.
