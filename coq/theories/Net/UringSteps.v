(** Script steps preserve the invariant; waits end with every caller done. *)
From OCV Require Import Base.Prelude Net.Uring Net.UringOracle Net.UringLemmas Net.UringInv.
From Coq Require Import ZifyBool ZifyNat.
Open Scope Z_scope.

Section Script.
Variable rs : list rspec.
Variable cs : list cspec.
Hypothesis Hnd : NoDup (map cs_tok cs).
Hypothesis Hpriv : private cs = true.
Hypothesis Hcalls : forall c cl, In c cs -> In cl (cs_prog c) -> (c_res cl < length rs)%nat /\ 1 <= c_len cl.
Hypothesis Hnodef : forall c cl, In c cs -> In cl (cs_prog c) -> cs_co c = true ->
  classify (rs_kind (nth (c_res cl) rs rsdummy)) (c_op cl) = CRead -> rs_timed (nth (c_res cl) rs rsdummy) = false.
Variable total : nat -> Z.
Hypothesis Htotal : forall r, feedable (rs_kind (nth r rs rsdummy)) (rs_eof (nth r rs rsdummy)) = false -> total r = 0.

Notation Inv := (Inv rs cs).
Notation cinv := (cinv rs).

(** the part of the script still to come matters only through the feeds and starts it holds *)
Lemma inv_rest : forall run rest rest' st, Inv run rest total st ->
  (forall r, feeds_of rs rest' r = feeds_of rs rest r) ->
  (forall i k, nth_error (s_callers st) i = Some k -> k_stat k = SNew -> started rest' i = true) ->
  Inv run rest' total st.
Proof.
  intros run rest rest' st HI Hf Hs. constructor; try apply HI; auto.
  - intros r sp x Hsp Hx. rewrite Hf. eapply (i_res _ _ _ _ _ _ HI); eauto.
  - intros r sp x Hsp Hx Hrd He. rewrite Hf. eapply (i_suff _ _ _ _ _ _ HI); eauto.
Qed.

Lemma feeds_of_cons_other : forall e rest r,
  (forall r' n w, e <> EFeed r' n w) -> feeds_of rs (e :: rest) r = feeds_of rs rest r.
Proof.
  intros e rest r H. unfold feeds_of. destruct (feedable _ _); auto. cbn [fold_right].
  destruct e; auto. exfalso. eapply H; eauto.
Qed.

Lemma started_cons_other : forall e rest i,
  (forall c, e <> EStart c) -> started (e :: rest) i = started rest i.
Proof.
  intros e rest i H. unfold started. cbn [existsb]. destruct e; auto. exfalso. eapply H; eauto.
Qed.

Lemma feed_inv : forall rest st r n w, Inv None (EFeed r n w :: rest) total st -> Inv None rest total (feed st r n).
Proof.
  intros rest st r n w HI. unfold feed.
  assert (Hstart : forall i k, nth_error (s_callers st) i = Some k -> k_stat k = SNew -> started rest i = true).
  { intros i k Hk Hs. rewrite <- (started_cons_other (EFeed r n w)) by (intros; discriminate).
    eapply (i_start _ _ _ _ _ _ HI); eauto. }
  assert (Hfo : forall r', r' <> r -> feeds_of rs (EFeed r n w :: rest) r' = feeds_of rs rest r').
  { intros r' Hne. unfold feeds_of. destruct (feedable _ _); auto. cbn [fold_right].
    assert (Nat.eqb r' r = false) by (apply Nat.eqb_neq; auto). rewrite H. auto. }
  destruct (nth_error (s_res st) r) as [x|] eqn:Hx.
  2:{ (* no such descriptor: the feed does not count *)
    apply inv_rest with (rest := EFeed r n w :: rest); auto.
    intros r'. destruct (Nat.eq_dec r' r); [subst r'|symmetry; auto].
    unfold feeds_of. rewrite (nth_overflow rs rsdummy).
    - cbn. auto.
    - rewrite <- (i_rlen _ _ _ _ _ _ HI). apply nth_error_None; auto. }
  assert (Hrlt : (r < length rs)%nat) by (rewrite <- (i_rlen _ _ _ _ _ _ HI); eapply nth_error_some_lt; eauto).
  destruct (nth_error_lt_some rs r Hrlt) as [sp Hsp].
  destruct (i_res _ _ _ _ _ _ HI r sp x Hsp Hx) as [R1 [R2 [R3 [R4 [R5 R6]]]]].
  assert (Hsp' : nth r rs rsdummy = sp) by (apply nth_error_nth; auto).
  destruct (feedable (r_kind x) (r_eof x) && (0 <=? n)) eqn:Ef.
  - (* the bytes arrive *)
    apply andb_true_iff in Ef as [Ef1 Ef2].
    assert (Hfr : feeds_of rs (EFeed r n w :: rest) r = n + feeds_of rs rest r).
    { unfold feeds_of. rewrite Hsp', <- R1, <- R2, Ef1. cbn [fold_right]. rewrite Nat.eqb_refl, Ef2. reflexivity. }
    assert (Hlt : (r < length (s_res st))%nat) by (eapply nth_error_some_lt; eauto).
    constructor; cbn [set_res s_dead s_div s_callers s_res s_table s_inflight]; try apply HI; auto.
    + intros i c k Hc Hk. apply cinv_res_ext with (res := s_res st).
      * intros r' _. destruct (Nat.eq_dec r' r).
        -- subst r'. rewrite nth_upd_same by auto. rewrite (nth_error_nth _ _ _ rdummy Hx). cbn. auto.
        -- rewrite nth_upd_other by auto. auto.
      * eapply (i_callers _ _ _ _ _ _ HI); eauto.
    + rewrite upd_length. apply (i_rlen _ _ _ _ _ _ HI).
    + intros r' sp' y Hsp'' Hy. rewrite nth_error_upd in Hy by auto. destruct (Nat.eq_dec r' r).
      * subst r'. inversion Hy; subst y; clear Hy. assert (sp' = sp) by congruence; subst sp'.
        cbn. repeat split; auto; try lia. all: intro Hun; destruct (R6 Hun); auto.
      * rewrite <- Hfo by auto. eapply (i_res _ _ _ _ _ _ HI); eauto.
    + intros r' sp' y Hsp'' Hy Hrd He. rewrite nth_error_upd in Hy by auto. destruct (Nat.eq_dec r' r).
      * subst r'. inversion Hy; subst y; clear Hy. assert (sp' = sp) by congruence; subst sp'.
        pose proof (i_suff _ _ _ _ _ _ HI r sp x Hsp Hx Hrd He). cbn. lia.
      * rewrite <- Hfo by auto. eapply (i_suff _ _ _ _ _ _ HI); eauto.
  - (* nothing arrives: the other end is closed, or the count is negative *)
    apply inv_rest with (rest := EFeed r n w :: rest); auto.
    intros r'. destruct (Nat.eq_dec r' r); [subst r'|symmetry; auto].
    unfold feeds_of. rewrite Hsp', <- R1, <- R2. destruct (feedable (r_kind x) (r_eof x)); auto.
    cbn [fold_right]. rewrite Nat.eqb_refl. cbn [andb] in *. rewrite Ef. reflexivity.
Qed.

Lemma start_inv : forall rest st c, Inv None (EStart c :: rest) total st ->
  Inv None rest total
    match nth_error (s_callers st) c with
    | Some k => match k_stat k with SNew => advance st c k | _ => st end
    | None => st
    end.
Proof.
  intros rest st c HI.
  assert (Hf : forall r, feeds_of rs rest r = feeds_of rs (EStart c :: rest) r).
  { intro r. symmetry. apply feeds_of_cons_other. intros; discriminate. }
  assert (Hst_other : forall i k, i <> c -> nth_error (s_callers st) i = Some k -> k_stat k = SNew -> started rest i = true).
  { intros i k Hne Hk Hs. pose proof (i_start _ _ _ _ _ _ HI i k Hk Hs) as H. unfold started in *. cbn [existsb] in H.
    assert (Nat.eqb i c = false) by (apply Nat.eqb_neq; auto). rewrite H0 in H. auto. }
  destruct (nth_error (s_callers st) c) as [k|] eqn:Hk.
  2:{ apply inv_rest with (rest := EStart c :: rest); auto.
      intros i k Hk' Hs. apply (Hst_other i k); auto. intro; subst. congruence. }
  destruct (k_stat k) eqn:Hs.
  2,3,4: (apply inv_rest with (rest := EStart c :: rest); auto;
          intros i k' Hk' Hs'; apply (Hst_other i k'); auto; intro; subst; congruence).
  (* the caller starts: it becomes the running one *)
  assert (Hlt : (c < length (s_callers st))%nat) by (eapply nth_error_some_lt; eauto).
  assert (Hlc : (c < length cs)%nat) by (rewrite <- (i_len _ _ _ _ _ _ HI); auto).
  destruct (nth_error_lt_some cs c Hlc) as [sc Hsc].
  pose proof (i_table _ _ _ _ _ _ HI c k Hk) as Htab. unfold waiting in Htab. rewrite Hs in Htab.
  set (krun := with_stat k SDone).
  replace (advance st c k) with (advance (set_caller st c krun) c krun).
  2:{ rewrite advance_irrel. apply advance_stat_irrel; auto. }
  eapply (advance_inv rs cs Hnd Hpriv Hcalls Hnodef); eauto.
  2:{ cbn [set_caller set_callers s_callers]. apply nth_error_upd_same; auto. }
  assert (Htodo : todo krun = todo k) by (unfold todo, pending; cbn; rewrite Hs; auto).
  constructor; cbn [set_caller set_callers s_dead s_div s_callers s_res s_table s_inflight].
  - apply (i_alive _ _ _ _ _ _ HI).
  - apply (i_nodiv _ _ _ _ _ _ HI).
  - rewrite upd_length. apply (i_len _ _ _ _ _ _ HI).
  - rewrite (map_upd k_tok _ c _ cdummy); [apply (i_toks _ _ _ _ _ _ HI)|].
    rewrite (nth_error_nth _ _ _ cdummy Hk). reflexivity.
  - intros j cj kj Hcj Hkj. rewrite nth_error_upd in Hkj by auto. destruct (Nat.eq_dec j c).
    + subst j. inversion Hkj; subst kj; clear Hkj.
      destruct (i_callers _ _ _ _ _ _ HI c cj k Hcj Hk) as [A B C D E F [done [T [G1 [G2 [G3 G4]]]]]].
      constructor; cbn; auto; try congruence.
      exists done, T. repeat split; auto. rewrite G1. f_equal. symmetry. exact Htodo.
    + apply cinv_other with (run := None); try congruence. eapply (i_callers _ _ _ _ _ _ HI); eauto.
  - apply (i_rlen _ _ _ _ _ _ HI).
  - intros r sp x Hsp Hx. rewrite Hf. apply (i_res _ _ _ _ _ _ HI); auto.
  - intros j kj Hkj. rewrite nth_error_upd in Hkj by auto. destruct (Nat.eq_dec j c).
    + inversion Hkj; subst kj. cbn. exact Htab.
    + apply (i_table _ _ _ _ _ _ HI); auto.
  - intros q Hq. destruct (i_fl_a _ _ _ _ _ _ HI q Hq) as [kq [cl [H1 [H2 H3]]]].
    exists kq, cl. rewrite nth_error_upd_other; auto. intro E. rewrite <- E in H1. congruence.
  - intros j kj cl Hkj Hst. rewrite nth_error_upd in Hkj by auto. destruct (Nat.eq_dec j c).
    + inversion Hkj; subst kj; cbn in Hst; discriminate.
    + eapply (i_fl_b _ _ _ _ _ _ HI); eauto.
  - apply (i_fl_c _ _ _ _ _ _ HI).
  - intros r sp x Hsp Hx Hrd He. rewrite (rdemand_upd rs _ c _ cdummy r Hlt).
    rewrite (nth_error_nth _ _ _ cdummy Hk), Htodo, Hf.
    pose proof (i_suff _ _ _ _ _ _ HI r sp x Hsp Hx Hrd He). lia.
  - intros j kj Hkj Hst. rewrite nth_error_upd in Hkj by auto. destruct (Nat.eq_dec j c).
    + inversion Hkj; subst kj; cbn in Hst; discriminate.
    + apply (Hst_other j kj); auto.
Qed.


Lemma inv_shift : forall run e rest st, Inv run (e :: rest) total st ->
  (forall r n w, e <> EFeed r n w) -> (forall c, e <> EStart c) -> Inv run rest total st.
Proof.
  intros run e rest st HI H1 H2. apply inv_rest with (rest := e :: rest); auto.
  - intro r. symmetry. apply feeds_of_cons_other; auto.
  - intros i k Hk Hs. rewrite <- (started_cons_other e) by auto. eapply (i_start _ _ _ _ _ _ HI); eauto.
Qed.

Lemma step_inv : forall fuel rest st e, (forall c, e <> EJoin c) ->
  Inv None (e :: rest) total st -> Inv None rest total (step fuel st e).
Proof.
  intros fuel rest st e Hnj HI. unfold step.
  rewrite (i_alive _ _ _ _ _ _ HI), (i_nodiv _ _ _ _ _ _ HI).
  destruct e.
  - apply start_inv; auto.
  - pose proof (feed_inv _ _ _ _ _ HI) as HI'. destruct w; auto.
    destruct (first_idx _ _ _); auto. eapply (complete_inv rs cs); eauto.
  - eapply (reg_inv rs cs); eauto. eapply inv_shift; eauto; intros; discriminate.
  - exfalso. eapply Hnj; eauto.
  - eapply (complete_inv rs cs); eauto. eapply inv_shift; eauto; intros; discriminate.
  - assert (HI' : Inv None rest total st) by (eapply inv_shift; eauto; intros; discriminate).
    erewrite (timeout_inv rs cs); eauto.
  - eapply inv_shift; eauto; intros; discriminate.
Qed.

Lemma script_inv : forall fuel script st, no_join script = true ->
  Inv None script total st -> Inv None [] total (fold_left (step fuel) script st).
Proof.
  intros fuel script. induction script as [|e rest IH]; intros st Hnj HI; simpl; auto.
  simpl in Hnj. apply andb_true_iff in Hnj as [H1 H2].
  apply IH; auto. apply step_inv; auto. intros c E. subst e. discriminate.
Qed.


(** ** waits end *)

Definition weight (k : caller) : nat := (2 * length (todo k) + (if is_held k then 1 else 0))%nat.
Definition mu (st : state) : nat := list_sum (map weight (s_callers st)).

Lemma list_sum_upd : forall (f : caller -> nat) l i x d, (i < length l)%nat ->
  (list_sum (map f (upd i x l)) + f (nth i l d) = list_sum (map f l) + f x)%nat.
Proof.
  induction l as [|h t IH]; intros [|i] x d H; cbn [length] in H; try lia; cbn [upd map nth list_sum fold_right].
  - lia.
  - specialize (IH i x d). unfold list_sum in IH. lia.
Qed.

Lemma advance_callers : forall st i k, tget (k_tok k) (s_table st) = None ->
  exists k', s_callers (advance st i k) = upd i k' (s_callers st)
             /\ (weight k' <= 2 * length (k_prog k) + 1)%nat.
Proof.
  intros st i k Ht. unfold advance. destruct (k_prog k) as [|cl rest'] eqn:Ep.
  - eexists. split; [reflexivity|]. unfold weight, todo, pending, is_held; cbn. lia.
  - unfold submit. rewrite Ht. destruct (c_hold cl && negb (k_co k)).
    + eexists. split; [reflexivity|]. unfold weight, todo, pending, is_held; cbn. lia.
    + eexists; split; [reflexivity|]. unfold weight, todo, pending, is_held; cbn; lia.
Qed.

Lemma complete_mu : forall rest st j q, Inv None rest total st ->
  nth_error (s_inflight st) j = Some q -> completable st q = true -> (mu (complete st j) < mu st)%nat.
Proof.
  intros rest st j q HI Hq Hc.
  destruct (i_fl_a _ _ _ _ _ _ HI q (nth_error_In _ _ Hq)) as [kq [cl [Hk [Hst Hqeq]]]].
  assert (Hcl : q_call q = cl) by (rewrite Hqeq; auto).
  unfold completable in Hc. rewrite Hcl in Hc.
  destruct (kernel (c_res cl) (nth (c_res cl) (s_res st) rdummy) (c_op cl) (c_len cl)) as [|v bytes x'] eqn:Hker;
    try discriminate.
  erewrite (complete_eq rs cs); eauto.
  match goal with |- (mu (advance ?S ?i ?K) < _)%nat =>
    destruct (advance_callers S i K) as [k' [Hcs Hw]] end.
  { cbn [s_table k_tok]. apply tget_tdel_same. }
  unfold mu. rewrite Hcs. cbn [s_callers]. rewrite upd_upd.
  assert (Hlt : (q_own q < length (s_callers st))%nat) by (eapply nth_error_some_lt; eauto).
  pose proof (list_sum_upd weight (s_callers st) (q_own q) k' cdummy Hlt) as Hs.
  rewrite (nth_error_nth _ _ _ cdummy Hk) in Hs.
  assert (weight kq = 2 * S (length (k_prog kq)))%nat.
  { unfold weight, todo, pending, is_held. rewrite Hst. cbn. lia. }
  cbn [k_prog] in Hw. lia.
Qed.

Lemma reg_mu : forall st c k, nth_error (s_callers st) c = Some k -> is_held k = true -> (mu (reg st c) < mu st)%nat.
Proof.
  intros st c k Hk Hh. unfold reg. rewrite (nth_error_nth _ _ _ cdummy Hk).
  unfold is_held in Hh. destruct (k_stat k) as [|cl|cl|] eqn:Hst; try discriminate.
  unfold mu, push. cbn [set_inflight set_caller set_callers s_callers].
  assert (Hlt : (c < length (s_callers st))%nat) by (eapply nth_error_some_lt; eauto).
  pose proof (list_sum_upd weight (s_callers st) c (with_stat k (SWait cl)) cdummy Hlt) as Hs.
  rewrite (nth_error_nth _ _ _ cdummy Hk) in Hs.
  assert (weight k = S (weight (with_stat k (SWait cl)))).
  { unfold weight, todo, pending, is_held. cbn [with_stat k_stat k_prog]. rewrite Hst. cbn [app length]. lia. }
  lia.
Qed.

Lemma demand_of_nonneg : forall r l, (forall cl, In cl l -> 0 <= c_len cl) -> 0 <= demand_of rs r l.
Proof.
  intros r l H. unfold demand_of. induction l as [|h t IH]; cbn [map]; [cbn; lia|].
  rewrite sumZ_cons. pose proof (rd_len_nonneg rs r h (H h (or_introl eq_refl))).
  assert (0 <= sumZ (map (rd_len rs r) t)) by (apply IH; intros; apply H; simpl; auto). lia.
Qed.

Lemma rdemand_ge : forall l r i k, (forall k', In k' l -> 0 <= demand_of rs r (todo k')) ->
  nth_error l i = Some k -> demand_of rs r (todo k) <= rdemand rs l r.
Proof.
  unfold rdemand. induction l as [|h t IH]; intros r [|i] k Hn Hk; cbn [nth_error] in Hk; try discriminate;
    cbn [map]; rewrite sumZ_cons.
  - inversion Hk; subst.
    assert (0 <= sumZ (map (fun k0 => demand_of rs r (todo k0)) t)).
    { clear IH Hk. induction t as [|a t IHt]; [cbn; lia|]. cbn [map]. rewrite sumZ_cons.
      pose proof (Hn a (or_intror (or_introl eq_refl))).
      assert (0 <= sumZ (map (fun k0 => demand_of rs r (todo k0)) t)).
      { apply IHt. intros k' [E|Hin]; apply Hn; simpl; auto. }
      lia. }
    lia.
  - pose proof (Hn h (or_introl eq_refl)).
    pose proof (IH r i k (fun k' Hin => Hn k' (or_intror Hin)) Hk). lia.
Qed.

(** every call a caller still has to make is one of its program's *)
Lemma todo_in_prog : forall rest st i c k cl, Inv None rest total st ->
  nth_error cs i = Some c -> nth_error (s_callers st) i = Some k -> In cl (todo k) -> In cl (cs_prog c).
Proof.
  intros rest st i c k cl HI Hc Hk Hin.
  destruct (i_callers _ _ _ _ _ _ HI i c k Hc Hk) as [_ _ _ _ _ _ [done [T [G1 _]]]].
  rewrite G1. apply in_or_app; auto.
Qed.

Lemma stuck_finished : forall st, Inv None [] total st ->
  first_idx (completable st) (s_inflight st) O = None ->
  first_idx is_held (s_callers st) O = None ->
  all_finished st = true.
Proof.
  intros st HI Hc Hh. unfold all_finished. apply forallb_forall. intros k Hin.
  unfold finished. destruct (k_stat k) as [|cl|cl|] eqn:Hst; auto.
  - pose proof (first_idx_none _ _ _ Hh k Hin) as H. unfold is_held in H. rewrite Hst in H. discriminate.
  - exfalso. apply In_nth_error in Hin as [i Hk].
    destruct (i_fl_b _ _ _ _ _ _ HI i k cl Hk Hst) as [q [Hq Hown]].
    destruct (i_fl_a _ _ _ _ _ _ HI q Hq) as [kq [cl' [Hkq [Hstq Hqeq]]]].
    rewrite Hown in Hkq. assert (kq = k) by congruence; subst kq. assert (cl' = cl) by congruence; subst cl'.
    pose proof (first_idx_none _ _ _ Hc q Hq) as Hnc. unfold completable in Hnc.
    assert (Hcl : q_call q = cl) by (rewrite Hqeq; auto). rewrite Hcl in Hnc.
    assert (Hlc : (i < length cs)%nat) by (rewrite <- (i_len _ _ _ _ _ _ HI); eapply nth_error_some_lt; eauto).
    destruct (nth_error_lt_some cs i Hlc) as [c Hcc].
    assert (Hcin : In c cs) by (eapply nth_error_In; eauto).
    assert (Hinp : In cl (cs_prog c)).
    { eapply todo_in_prog; eauto. unfold todo, pending. rewrite Hst. simpl; auto. }
    destruct (Hcalls c cl Hcin Hinp) as [Hrlt Hlen].
    destruct (nth_error_lt_some rs _ Hrlt) as [sp Hsp].
    assert (Hrlt' : (c_res cl < length (s_res st))%nat) by (rewrite (i_rlen _ _ _ _ _ _ HI); auto).
    destruct (nth_error_lt_some (s_res st) _ Hrlt') as [x Hx].
    destruct (i_res _ _ _ _ _ _ HI _ _ _ Hsp Hx) as [R1 [R2 [R3 [R4 [R5 R6]]]]].
    rewrite (nth_error_nth _ _ _ rdummy Hx) in Hnc. unfold kernel in Hnc.
    destruct (classify (r_kind x) (c_op cl)) eqn:Ecl; try discriminate.
    2:{ destruct (r_eof x); discriminate. }
    destruct (0 <? r_avail x) eqn:Eav; try discriminate.
    destruct (r_eof x) eqn:Eeof; try discriminate.
    assert (Hrd : readable (rs_kind sp) = true).
    { rewrite <- R1. destruct (r_kind x), (c_op cl); simpl in Ecl; try discriminate; auto. }
    assert (Heof : rs_eof sp = false) by congruence.
    pose proof (i_suff _ _ _ _ _ _ HI _ sp x Hsp Hx Hrd Heof) as Hsuff.
    assert (Hf0 : feeds_of rs [] (c_res cl) = 0).
    { unfold feeds_of. destruct (feedable _ _); auto. }
    assert (Hge : demand_of rs (c_res cl) (todo k) <= rdemand rs (s_callers st) (c_res cl)).
    { apply rdemand_ge with (i := i); auto. intros k' Hin'. apply demand_of_nonneg.
      intros cl0 Hcl0. apply In_nth_error in Hin' as [i' Hk'].
      assert (Hlc' : (i' < length cs)%nat) by (rewrite <- (i_len _ _ _ _ _ _ HI); eapply nth_error_some_lt; eauto).
      destruct (nth_error_lt_some cs i' Hlc') as [c' Hc'].
      assert (In cl0 (cs_prog c')) by (eapply todo_in_prog; eauto).
      destruct (Hcalls c' cl0 (nth_error_In _ _ Hc') H); lia. }
    assert (Hd : c_len cl <= demand_of rs (c_res cl) (todo k)).
    { unfold todo, pending. rewrite Hst. change ([cl] ++ k_prog k) with (cl :: k_prog k).
      unfold demand_of. cbn [map]. rewrite sumZ_cons.
      assert (rd_len rs (c_res cl) cl = c_len cl).
      { unfold rd_len. rewrite Nat.eqb_refl, (nth_error_nth _ _ _ rsdummy Hsp), <- R1, Ecl. auto. }
      assert (0 <= sumZ (map (rd_len rs (c_res cl)) (k_prog k))).
      { apply (demand_of_nonneg (c_res cl) (k_prog k)). intros cl0 Hcl0.
        assert (In cl0 (cs_prog c)) by (eapply todo_in_prog; eauto; unfold todo; apply in_or_app; auto).
        destruct (Hcalls c cl0 Hcin H0); lia. }
      lia. }
    lia.
Qed.

Lemma move_progress : forall st, Inv None [] total st -> all_finished st = false ->
  exists st', move st = Some st' /\ Inv None [] total st' /\ (mu st' < mu st)%nat.
Proof.
  intros st HI Hnf. unfold move.
  destruct (first_idx (completable st) (s_inflight st) O) as [j|] eqn:Hc.
  - destruct (first_idx_some _ _ _ _ Hc) as [q [_ [Hq Hcq]]]. rewrite Nat.sub_0_r in Hq.
    eexists. split; [reflexivity|]. split.
    + eapply (complete_inv rs cs); eauto.
    + eapply complete_mu; eauto.
  - destruct (first_idx is_held (s_callers st) O) as [c|] eqn:Hh.
    + destruct (first_idx_some _ _ _ _ Hh) as [k [_ [Hk Hhk]]]. rewrite Nat.sub_0_r in Hk.
      eexists. split; [reflexivity|]. split.
      * eapply (reg_inv rs cs); eauto.
      * eapply reg_mu; eauto.
    + rewrite (stuck_finished st HI Hc Hh) in Hnf. discriminate.
Qed.

Lemma settle_ok : forall fuel st, Inv None [] total st -> (mu st < fuel)%nat ->
  Inv None [] total (settle fuel all_finished st) /\ all_finished (settle fuel all_finished st) = true.
Proof.
  induction fuel as [|f IH]; intros st HI Hmu; [lia|].
  cbn [settle]. rewrite (i_alive _ _ _ _ _ _ HI).
  destruct (all_finished st) eqn:Haf; auto.
  destruct (move_progress st HI Haf) as [st' [Hm [HI' Hlt]]]. rewrite Hm. apply IH; auto. lia.
Qed.

End Script.
