(** C21: histories of interest operations made through the runtime's public entry points
    ([EventLoops::wait_read_event / wait_write_event / del_*], hooked [close] and [shutdown]) from a
    thread that is not an event loop; model run and the property as an executable oracle over the
    observed OS-side interest tables. *)
From OCV Require Import Base.Prelude Net.Selector.
Open Scope Z_scope.

Inductive op :=
| WaitR (fd : Z) | WaitW (fd : Z)             (* wait_read_event / wait_write_event (fd, 0) *)
| DelR (fd : Z) | DelW (fd : Z) | DelE (fd : Z) (* del_read_event / del_write_event / del_event *)
| Close (fd : Z)                              (* hooked close *)
| ShutRd (fd : Z) | ShutWr (fd : Z) | ShutRdWr (fd : Z) | ShutBad (fd : Z)   (* hooked shutdown *)
| Reopen (fd : Z)                             (* the OS hands the descriptor number out again *)
| Deliver (tok : Z) (r w : bool).             (* a poller thread processes a readiness event *)

(** one row of an interest table as read from /proc: descriptor, read interest, write interest *)
Definition row := (Z * bool * bool)%type.
Inductive obs := O21 (res : bool) (tables : list (list row)).

Definition row_eqb (a b : row) : bool :=
  let '(f1, r1, w1) := a in let '(f2, r2, w2) := b in (f1 =? f2) && Bool.eqb r1 r2 && Bool.eqb w1 w2.
Definition obs_eqb (a b : obs) : bool :=
  match a, b with O21 r1 t1, O21 r2 t2 => Bool.eqb r1 r2 && list_eqb (list_eqb row_eqb) t1 t2 end.

(** * Model run *)

Record sys := { y_sel : sel; y_idx : nat }.   (* selector state, round-robin counter *)

Definition thread_token : Z := 1.  (* the calling thread's token; its value is not observable here *)

Definition fds (nfd : Z) : list Z := map Z.of_nat (seq 0 (Z.to_nat nfd)).

Definition sys_init (pollers : nat) (nfd : Z) : sys :=
  {| y_sel := sel_init pollers (fds nfd); y_idx := 0 |}.

(** canonical snapshot: per poller, the rows of the descriptors 0..nfd-1 that are in the table *)
Definition snap_tbl (nfd : Z) (t : ktable) : list row :=
  flat_map (fun fd => match aget fd t with Some e => [(fd, k_r e, k_w e)] | None => [] end) (fds nfd).
Definition snapshot (nfd : Z) (s : sel) : list (list row) := map (snap_tbl nfd) (s_kern s).

Definition os_ret (s : sel) (fd : Z) : bool := zmem fd (s_open s).  (* close/shutdown succeed on an open descriptor *)

Definition step (y : sys) (o : op) : sys * bool :=
  let s := y_sel y in
  let keep (p : bool * sel) := ({| y_sel := snd p; y_idx := y_idx y |}, fst p) in
  match o with
  | WaitR fd =>
      let i := (y_idx y mod loops s)%nat in
      let '(ok, s1) := add_read_event s i fd thread_token in
      ({| y_sel := s1; y_idx := S (y_idx y) |}, ok)
  | WaitW fd =>
      let i := (y_idx y mod loops s)%nat in
      let '(ok, s1) := add_write_event s i fd thread_token in
      ({| y_sel := s1; y_idx := S (y_idx y) |}, ok)
  | DelR fd => keep (el_del_read_event s fd)
  | DelW fd => keep (el_del_write_event s fd)
  | DelE fd => keep (el_del_event s fd)
  | Close fd =>
      let '(_, s1) := el_del_event s fd in
      ({| y_sel := os_close s1 fd; y_idx := y_idx y |}, os_ret s1 fd)
  | ShutRd fd => let '(_, s1) := el_del_read_event s fd in ({| y_sel := s1; y_idx := y_idx y |}, os_ret s1 fd)
  | ShutWr fd => let '(_, s1) := el_del_write_event s fd in ({| y_sel := s1; y_idx := y_idx y |}, os_ret s1 fd)
  | ShutRdWr fd => let '(_, s1) := el_del_event s fd in ({| y_sel := s1; y_idx := y_idx y |}, os_ret s1 fd)
  | ShutBad fd => (y, false)
  | Reopen fd => ({| y_sel := os_open s fd; y_idx := y_idx y |}, true)
  | Deliver tok r w => ({| y_sel := deliver s tok r w; y_idx := y_idx y |}, true)
  end.

Fixpoint run_from (nfd : Z) (y : sys) (ops : list op) : list obs * sys :=
  match ops with
  | [] => ([], y)
  | o :: ops' =>
      let '(y1, res) := step y o in
      let '(rs, yf) := run_from nfd y1 ops' in
      (O21 res (snapshot nfd (y_sel y1)) :: rs, yf)
  end.

Definition run_C21 (pollers : nat) (nfd : Z) (ops : list op) : list obs :=
  fst (run_from nfd (sys_init pollers nfd) ops).
Definition tags_C21 (pollers : nat) (nfd : Z) (ops : list op) : list tag :=
  s_tags (y_sel (snd (run_from nfd (sys_init pollers nfd) ops))).

(** * The property. Tracker: per poller, the descriptors with an outstanding read interest and with
    an outstanding write interest, as the history and the observed results tell. A wait is served by
    the next poller in round-robin order and its interest is outstanding there once the call
    succeeded; a deletion, a shutdown of that direction or a close ends it on every poller. *)
Record trk := { t_r : list (list Z); t_w : list (list Z); t_idx : nat }.

Definition trk_init (pollers : nat) : trk :=
  {| t_r := repeat [] pollers; t_w := repeat [] pollers; t_idx := 0 |}.

Definition upd (l : list (list Z)) (i : nat) (f : list Z -> list Z) : list (list Z) :=
  lset l i (f (nth i l [])).

Definition trk_step (t : trk) (o : op) (res : bool) : trk :=
  let n := List.length (t_r t) in
  match o with
  | WaitR fd =>
      {| t_r := if res then upd (t_r t) (t_idx t mod n) (zadd fd) else t_r t; t_w := t_w t; t_idx := S (t_idx t) |}
  | WaitW fd =>
      {| t_r := t_r t; t_w := if res then upd (t_w t) (t_idx t mod n) (zadd fd) else t_w t; t_idx := S (t_idx t) |}
  | DelR fd | ShutRd fd => {| t_r := map (zrem fd) (t_r t); t_w := t_w t; t_idx := t_idx t |}
  | DelW fd | ShutWr fd => {| t_r := t_r t; t_w := map (zrem fd) (t_w t); t_idx := t_idx t |}
  | DelE fd | ShutRdWr fd | Close fd =>
      {| t_r := map (zrem fd) (t_r t); t_w := map (zrem fd) (t_w t); t_idx := t_idx t |}
  | ShutBad _ | Reopen _ | Deliver _ _ _ => t
  end.

Definition row_r (rows : list row) (fd : Z) : bool :=
  existsb (fun x : row => let '(f, r, _) := x in (f =? fd) && r) rows.
Definition row_w (rows : list row) (fd : Z) : bool :=
  existsb (fun x : row => let '(f, _, w) := x in (f =? fd) && w) rows.

(** the interest the OS holds on one poller equals the outstanding interests there *)
Definition table_ok (nfd : Z) (rows : list row) (wr ww : list Z) : bool :=
  forallb (fun fd => Bool.eqb (row_r rows fd) (zmem fd wr) && Bool.eqb (row_w rows fd) (zmem fd ww)) (fds nfd).

Fixpoint tables_ok (nfd : Z) (tabs : list (list row)) (wr ww : list (list Z)) : bool :=
  match tabs, wr, ww with
  | [], [], [] => true
  | tb :: tabs', r :: wr', w :: ww' => table_ok nfd tb r w && tables_ok nfd tabs' wr' ww'
  | _, _, _ => false
  end.

Fixpoint ok_from (nfd : Z) (t : trk) (ops : list op) (rs : list obs) : bool :=
  match ops, rs with
  | [], [] => true
  | o :: ops', O21 res tabs :: rs' =>
      let t1 := trk_step t o res in
      tables_ok nfd tabs (t_r t1) (t_w t1) && ok_from nfd t1 ops' rs'
  | _, _ => false
  end.

Definition ok_C21 (pollers : nat) (nfd : Z) (ops : list op) (rs : list obs) : bool :=
  ok_from nfd (trk_init pollers) ops rs.

Definition op_fd (o : op) : option Z :=
  match o with
  | WaitR fd | WaitW fd | DelR fd | DelW fd | DelE fd | Close fd
  | ShutRd fd | ShutWr fd | ShutRdWr fd | ShutBad fd | Reopen fd => Some fd
  | Deliver _ _ _ => None
  end.

Definition wf_op (nfd : Z) (o : op) : bool :=
  match op_fd o with Some fd => (0 <=? fd) && (fd <? nfd) | None => true end.

Definition wf_C21 (pollers : nat) (nfd : Z) (ops : list op) : bool :=
  (1 <=? pollers)%nat && (0 <=? nfd) && forallb (wf_op nfd) ops.

(** outside the recorded finding: the process has one poller *)
Definition no_defect (pollers : nat) : bool := (pollers =? 1)%nat.
