(** Model of the plain-thread path of [EventLoops::wait_event] = [EventLoop::timed_wait_just] and
    [EventLoop::wait_just] (core/src/net/mod.rs, core/src/net/event_loop.rs) against a clock oracle.

    A [world] is the clock (ns, u64, saturating as the virtual clock hook does), the remaining
    behaviour of the primitive waits and the log of what was requested. A primitive wait of length
    [w] lets [max 0 (w + d)] nanoseconds pass, where [d] is the next deviation of the behaviour
    list (negative = the primitive wait came back early, positive = scheduling slack); when the list
    is used up waits are exact, which is what hook H2 does on a harness thread. *)
From OCV Require Import Base.Prelude Misc.Time.
Open Scope Z_scope.

Definition SLICE_NS : Z := 10000000.     (* the 10 ms cap inside timed_wait_just *)

Inductive ev :=
| EW (ns : Z)        (* wait_just(Some(ns)) reached the selector *)
| EP                 (* zero-timeout probe of the inner poll / select *)
| EI (abs : Z).      (* inner pthread_cond_timedwait until the absolute time abs *)

Record world := { clk : Z; beh : list Z; log : list ev; nwe : nat }.
(* log: newest first; nwe: number of wait_event calls so far (ghost, for the slack bound) *)

Definition emit (e : ev) (s : world) : world :=
  {| clk := clk s; beh := beh s; log := e :: log s; nwe := nwe s |}.

Definition elapse (w : Z) (s : world) : world :=
  match beh s with
  | d :: b => {| clk := sat_add64 (clk s) (Z.max 0 (w + d)); beh := b; log := log s; nwe := nwe s |}
  | [] => {| clk := sat_add64 (clk s) w; beh := []; log := log s; nwe := nwe s |}
  end.

(** [wait_just(Some(w))] on a thread that is not a coroutine: one primitive wait. *)
Definition wait_just (w : Z) (s : world) : world := elapse w (emit (EW w) s).

(** [timed_wait_just]: the deadline loop. [None] = fuel exhausted. *)
Fixpoint twj_loop (fuel : nat) (deadline : Z) (s : world) : option world :=
  match fuel with
  | O => None
  | S f =>
      let left := Z.min (sat_sub deadline (clk s)) SLICE_NS in
      if left =? 0 then Some (wait_just 0 s)          (* timeout: one last zero wait *)
      else twj_loop f deadline (wait_just left s)
  end.

(** Fuel shown sufficient for every behaviour: each iteration either uses up one deviation or moves
    the clock a full slice towards the deadline. *)
Definition twj_fuel (deadline : Z) (s : world) : nat :=
  length (beh s) + Z.to_nat (sat_sub deadline (clk s) / SLICE_NS) + 2.

(** [EventLoops::wait_event(Some(d))], [d] in nanoseconds (a [Duration], possibly beyond u64). *)
Definition wait_event (d : Z) (s : world) : option world :=
  let deadline := get_timeout_time (clk s) d in
  let s0 := {| clk := clk s; beh := beh s; log := log s; nwe := S (nwe s) |} in
  twj_loop (twj_fuel deadline s0) deadline s0.
