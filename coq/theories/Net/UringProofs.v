(** Theorems about the io_uring call-path model. *)
From OCV Require Import Base.Prelude Net.Uring Net.UringOracle Net.UringLemmas Net.UringInv Net.UringSteps
  Net.UringFinal.
From Coq Require Import ZifyBool ZifyNat.
Open Scope Z_scope.

(** ** the mapping of a raw completion value *)
Lemma errno_mapping : forall v buf,
  (v < 0 -> map_result v buf = RErr (- v))
  /\ (0 <= v -> map_result v buf = RRet v (firstn (Z.to_nat v) buf))
  /\ map_result (-1) buf = RErr EPERM.
Proof.
  intros v buf; unfold map_result; split; [|split]; try intro H.
  - destruct (v <? 0) eqn:E; [reflexivity | lia].
  - destruct (v <? 0) eqn:E; [lia | reflexivity].
  - reflexivity.
Qed.

(** ** every interleaving, every completion order *)
Theorem holds_outside : forall rs cs script,
  wf_C27 rs cs script = true -> no_defect rs cs = true ->
  ok_C27 rs cs script (run_C27 rs cs script) = true.
Proof.
  intros rs cs script Hwf Hnd.
  destruct (wf_parts rs cs script Hwf Hnd) as [W1 [W2 [W3 [W4 [W5 [W6 W7]]]]]].
  pose proof (nodef_spec rs cs Hnd) as Hnodef.
  pose proof (total_spec rs script) as Htot.
  pose proof (init_inv rs cs script Hwf Hnd) as HI0.
  assert (HI1 : Inv rs cs None [] (total rs script) (fold_left (step (fuel_of cs)) script (init rs cs))).
  { eapply script_inv; eauto. }
  unfold run_C27, run_state.
  rewrite (i_alive _ _ _ _ _ _ HI1), (i_nodiv _ _ _ _ _ _ HI1).
  assert (Hmu : (mu (fold_left (step (fuel_of cs)) script (init rs cs)) < fuel_of cs)%nat).
  { eapply mu_bound; eauto. }
  destruct (settle_ok rs cs W1 W2 W3 Hnodef (total rs script) Htot (fuel_of cs) _ HI1 Hmu) as [HI2 Haf].
  eapply final_ok; eauto.
Qed.

(** ** what the oracle accepts for one call is the answer of that call's own request *)
Lemma chk_call_sound : forall rs co t c x t',
  chk_call rs co t c x = Some t' ->
  let r := c_res c in
  let sp := nth r rs rsdummy in
  match classify (rs_kind sp) (c_op c) with
  | CErr e => x = RErr e
  | CRead =>
      (exists n, x = RRet n (stream r (fst (tr_get t r)) n) /\ 0 <= n <= c_len c
                 /\ (n = 0 -> rs_eof sp = true /\ fst (tr_get t r) = rs_pre sp))
      \/ (x = RErr ETIMEDOUT /\ co = true /\ rs_timed sp = true)
  | CWrite => (rs_eof sp = false /\ x = RRet (c_len c) []) \/ (rs_eof sp = true /\ x = RErr EPIPE)
  end.
Proof.
  intros rs co t c x t' H r sp. unfold chk_call in H. fold r in H. fold sp in H.
  destruct (tr_get t r) as [taken wrote] eqn:Et. cbn [fst].
  destruct (classify (rs_kind sp) (c_op c)) as [e| |]; destruct x as [n bytes|e']; try discriminate.
  - destruct (e =? e') eqn:E; try discriminate. f_equal. lia.
  - destruct ((0 <=? n) && (n <=? c_len c) && list_eqb Z.eqb bytes (stream r taken n)
              && ((0 <? n) || (rs_eof sp && (taken =? rs_pre sp)))) eqn:E; try discriminate.
    repeat (apply andb_true_iff in E as [E ?]).
    left. exists n. split; [|split; [lia|]].
    + f_equal. apply (proj1 (list_eqb_eq Z.eqb Z.eqb_eq _ _)). auto.
    + intro Hn. subst n. cbn in H0. apply andb_true_iff in H0 as [A B]. split; auto. lia.
  - destruct ((e' =? ETIMEDOUT) && co && rs_timed sp) eqn:E; try discriminate.
    repeat (apply andb_true_iff in E as [E ?]). right. repeat split; auto. f_equal. lia.
  - destruct (negb (rs_eof sp) && (n =? c_len c) && list_eqb Z.eqb bytes []) eqn:E; try discriminate.
    repeat (apply andb_true_iff in E as [E ?]). left. split; [apply negb_true_iff; auto|].
    assert (bytes = []) by (apply (proj1 (list_eqb_eq Z.eqb Z.eqb_eq _ _)); auto). subst. f_equal. lia.
  - destruct (rs_eof sp && (e' =? EPIPE)) eqn:E; try discriminate.
    apply andb_true_iff in E as [A B]. right. split; auto. f_equal. lia.
Qed.

(** ** the recorded findings *)

(** a coroutine's read on a socket with a receive time limit times out; its next call aborts the
    process on the "previous token" assertion *)
Definition w_rs : list rspec :=
  [{| rs_kind := KSock; rs_pre := 0; rs_eof := false; rs_timed := true |};
   {| rs_kind := KPipeR; rs_pre := 4; rs_eof := false; rs_timed := false |}].
Definition w_cs : list cspec :=
  [{| cs_co := true; cs_tok := 1000;
      cs_prog := [{| c_op := ORecv; c_res := 0%nat; c_len := 3; c_hold := false |};
                  {| c_op := ORead; c_res := 1%nat; c_len := 3; c_hold := false |}] |}].
Definition w_script : list ev := [EStart 0%nat].

Lemma refuted_timed_out : exists rs cs script,
  wf_C27 rs cs script = true /\ ok_C27 rs cs script (run_C27 rs cs script) = false
  /\ existsb (tag_eqb TTimeout) (tags_C27 rs cs script) = true.
Proof. exists w_rs, w_cs, w_script. repeat split; vm_compute; reflexivity. Qed.

(** a call on a descriptor number that is not open is answered with -1/EBADF, from a coroutine as
    from a plain thread (the coroutine used to abort the process: repaired) *)
Definition b_rs : list rspec := [{| rs_kind := KClosed; rs_pre := 0; rs_eof := false; rs_timed := false |}].

Lemma bad_fd_ok : forall co,
  let cs := [{| cs_co := co; cs_tok := 1000;
                cs_prog := [{| c_op := ORead; c_res := 0%nat; c_len := 3; c_hold := false |}] |}] in
  run_C27 b_rs cs w_script = {| o_calls := [[RErr EBADF]]; o_end := EndOk [0] [[]] |}
  /\ ok_C27 b_rs cs w_script (run_C27 b_rs cs w_script) = true.
Proof. intros [|]; split; vm_compute; reflexivity. Qed.

(** the oracle spelled out: the run ends normally, every caller has one accepted result per call of
    its program, nothing the descriptors delivered is missing *)
Lemma own_completion : forall rs cs script,
  wf_C27 rs cs script = true -> no_defect rs cs = true ->
  exists lefts sinks ts,
    o_end (run_C27 rs cs script) = EndOk lefts sinks
    /\ chk_callers rs script O cs (o_calls (run_C27 rs cs script)) = Some ts
    /\ chk_end rs script ts O rs lefts sinks = true.
Proof.
  intros rs cs script Hwf Hnd. pose proof (holds_outside rs cs script Hwf Hnd) as H.
  unfold ok_C27 in H. destruct (o_end (run_C27 rs cs script)) as [lefts sinks| |]; try discriminate.
  destruct (chk_callers rs script O cs (o_calls (run_C27 rs cs script))) as [ts|]; try discriminate.
  exists lefts, sinks, ts. auto.
Qed.
