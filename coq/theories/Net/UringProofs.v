(** Proofs about the io_uring call-path model. *)
From OCV Require Import Base.Prelude Net.Uring Net.UringOracle.
From Coq Require Import ZifyBool ZifyNat.
Open Scope Z_scope.

(** ** the mapping of a raw completion value *)
Lemma errno_mapping : forall v buf,
  (v < 0 -> map_result v buf = RErr (- v))
  /\ (0 <= v -> map_result v buf = RRet v (firstn (Z.to_nat v) buf)).
Proof.
  intros v buf; unfold map_result; split; intro H.
  - destruct (v <? 0) eqn:E; [reflexivity | lia].
  - destruct (v <? 0) eqn:E; [lia | reflexivity].
Qed.
