(** Proofs for C20. *)
From OCV Require Import Base.Prelude Net.Selector Net.SelectorLemmas Net.Token Net.TokenOracle.
From Coq Require Import ZifyBool ZifyNat.
Open Scope Z_scope.

Lemma roundtrip : forall t, 0 <= t < 2 ^ 64 -> decode (encode t) = t.
Proof.
  intros t H. unfold decode, encode, W64.
  change (2 ^ 64) with 18446744073709551616 in H.
  rewrite Z.mod_mod by lia. apply Z.mod_small. lia.
Qed.

(** the oracle's readiness clause in words *)
Lemma same_set_spec : forall a b, same_set a b = true -> forall x, In x a <-> In x b.
Proof.
  assert (M : forall x l, zmem x l = true <-> In x l).
  { intros x l. induction l as [|y l IH]; cbn [zmem]; [split; [discriminate|intros []]|].
    rewrite orb_true_iff, IH, Z.eqb_eq. split; intros [H|H]; [left|right|left|right]; auto. }
  assert (S : forall a b, subset a b = true -> forall x, In x a -> In x b).
  { intros a b H x Hx. unfold subset in H. rewrite forallb_forall in H. apply M. now apply H. }
  intros a b H x. unfold same_set in H. apply andb_true_iff in H as [H1 H2].
  split; [apply (S a b H1)|apply (S b a H2)].
Qed.

Lemma ready_clause : forall t d fd tok hit woken t',
  ok_step t (Ready d fd) (OEvent tok hit woken) = (true, t') ->
  forall c, In c woken <-> In c (waiters_on fd d t).
Proof.
  intros t d fd tok hit woken t' H c. cbn [ok_step] in H. inversion H as [[H1 H2]].
  symmetry. now apply same_set_spec.
Qed.

Lemma ready_clause_noevent : forall t d fd t',
  ok_step t (Ready d fd) ONoEvent = (true, t') -> waiters_on fd d t = [].
Proof.
  intros t d fd t' H. cbn [ok_step] in H. destruct (waiters_on fd d t); [reflexivity|]. inversion H.
Qed.

Lemma wake_hits : forall t d fd tok hit woken t' c,
  ok_step t (Ready d fd) (OEvent tok hit woken) = (true, t') -> In c (waiters_on fd d t) -> In c woken.
Proof. intros t d fd tok hit woken t' c H. now apply (ready_clause t d fd tok hit woken t' H c). Qed.

Lemma no_cross_wake : forall t d fd tok hit woken t' c,
  ok_step t (Ready d fd) (OEvent tok hit woken) = (true, t') -> In c woken -> In c (waiters_on fd d t).
Proof. intros t d fd tok hit woken t' c H. now apply (ready_clause t d fd tok hit woken t' H c). Qed.

(** who is in [waiters_on] *)
Lemma waiters_on_spec : forall fd d t c,
  In c (waiters_on fd d t) <-> exists f w, In (c, (f, w)) t /\ f = fd /\ w = d.
Proof.
  intros fd d t c. unfold waiters_on. rewrite in_map_iff. split.
  - intros [[c' [f w]] [E H]]. cbn [fst] in E. subst c'. apply filter_In in H as [H1 H2].
    unfold waits_for in H2. cbn [fst snd] in H2. apply andb_true_iff in H2 as [H2 H3].
    apply Z.eqb_eq in H2. apply eqb_prop in H3. now exists f, w.
  - intros [f [w [H [E1 E2]]]]. subst f w. exists (c, (fd, d)). split; [reflexivity|].
    apply filter_In. split; [exact H|]. unfold waits_for. cbn [fst snd]. now rewrite Z.eqb_refl, eqb_reflx.
Qed.

(** the recorded findings *)
Definition witness_missed : list op :=
  [WaitT false 13712591878437130464 1; Wait false 440535360 1; Ready false 1].
Definition witness_cross : list op :=
  [WaitT false 6297203254532200539 0; Wait false 6297203254532200539 1; Ready false 0].
Definition witness_one_token : list op :=
  [Wait true 13712591878437130464 0; Wait false 440535360 0; Ready true 0].

Lemma refuted_missed : exists nfd ops, wf_C20 nfd ops = true /\ ok_C20 ops (run_C20 nfd ops) = false.
Proof. exists 2, witness_missed. split; vm_compute; reflexivity. Qed.

Lemma refuted_cross : exists nfd ops, wf_C20 nfd ops = true /\ ok_C20 ops (run_C20 nfd ops) = false
  /\ run_C20 nfd ops = [ORegT true (Some (true, false, 6297203254532200539)) true;
                        OReg true (Some (true, false, 6297203254532200539));
                        OEvent 6297203254532200539 true [6297203254532200539]].
Proof. exists 2, witness_cross. repeat split; vm_compute; reflexivity. Qed.

Lemma refuted_one_token : exists nfd ops, wf_C20 nfd ops = true /\ ok_C20 ops (run_C20 nfd ops) = false
  /\ run_C20 nfd ops = [OReg true (Some (false, true, 13712591878437130464));
                        OReg true (Some (true, true, 440535360));
                        OEvent 440535360 true [440535360]]
  /\ fst (tags_C20 nfd ops) = [TagOneToken].
Proof. exists 1, witness_one_token. repeat split; vm_compute; reflexivity. Qed.
