(** Proofs for C20. *)
From OCV Require Import Base.Prelude Net.Selector Net.Token Net.TokenOracle.
From Coq Require Import ZifyBool ZifyNat.
Open Scope Z_scope.

Lemma roundtrip : forall t, 0 <= t < 2 ^ 64 -> decode (encode t) = t.
Proof.
  intros t H. unfold decode, encode, W64.
  change (2 ^ 64) with 18446744073709551616 in H.
  rewrite Z.mod_mod by lia. apply Z.mod_small. lia.
Qed.
