(** Proofs for C20. The selector invariant [sinv] and the per-call specifications are the ones
    proved for C21 ([SelectorProofs.v]); here the tokens are added. *)
From OCV Require Import Base.Prelude Net.Selector Net.SelectorLemmas Net.SelectorProofs Net.Token Net.TokenOracle.
From Coq Require Import ZifyBool ZifyNat.
Open Scope Z_scope.

Lemma roundtrip : forall t, 0 <= t < 2 ^ 64 -> decode (encode t) = t.
Proof.
  intros t H. unfold decode, encode, W64.
  change (2 ^ 64) with 18446744073709551616 in H.
  rewrite Z.mod_mod by lia. apply Z.mod_small. lia.
Qed.

(** * What the selector calls do to the OS table (one poller) *)

(** every entry of [tb'] is an entry of [tb] ... *)
Definition tle (tb tb' : ktable) : Prop := forall x e, aget x tb' = Some e -> aget x tb = Some e.
(** ... or the entry of [fd], carrying the token of [c] *)
Definition tstep (fd c : Z) (tb tb' : ktable) : Prop :=
  forall x e, aget x tb' = Some e -> aget x tb = Some e \/ (x = fd /\ k_tok e = encode c).

Lemma tle_refl : forall tb, tle tb tb.
Proof. intros tb x e H. exact H. Qed.

Lemma tle_arem : forall tb fd, tle tb (arem fd tb).
Proof. intros tb fd x e H. rewrite aget_arem in H. destruct (x =? fd); [discriminate|exact H]. Qed.

Lemma tstep_refl : forall fd c tb, tstep fd c tb tb.
Proof. intros fd c tb x e H. now left. Qed.

Lemma tstep_aset : forall fd c tb r w, tstep fd c tb (aset fd {| k_r := r; k_w := w; k_tok := encode c |} tb).
Proof.
  intros fd c tb r w x e H. rewrite aget_aset in H. destruct (x =? fd) eqn:E.
  - right. apply Z.eqb_eq in E. inversion H; subst. split; reflexivity.
  - now left.
Qed.

Lemma tbl_one : forall s tb, s_kern s = [tb] -> tbl s 0 = tb.
Proof. intros s tb H. unfold tbl. now rewrite H. Qed.

Lemma entry_of_rec : forall s tb fd, sinv s -> s_kern s = [tb] ->
  zmem fd (s_rrec s) || zmem fd (s_wrec s) = true -> exists e, aget fd tb = Some e.
Proof.
  intros s tb fd Hs K H. destruct (aget fd tb) as [e|] eqn:G; [now exists e|].
  rewrite <- (tbl_one s tb K) in G. apply (absent_iff s fd Hs) in G. destruct G as [G1 G2].
  rewrite G1, G2 in H. discriminate.
Qed.

Lemma add_read_full : forall s tb fd c, sinv s -> s_kern s = [tb] -> zmem fd (s_open s) = true ->
  exists s', add_read_event s 0 fd c = (true, s') /\ tstep fd c tb (tbl s' 0).
Proof.
  intros s tb fd c Hs K Op. unfold add_read_event. rewrite (mark_id s fd Hs).
  destruct (zmem fd (s_rrec s)) eqn:Er.
  - exists s. split; [reflexivity|]. rewrite (tbl_one s tb K). apply tstep_refl.
  - destruct (zmem fd (s_wrec s)) eqn:Ew.
    + destruct (entry_of_rec s tb fd Hs K) as [e G]; [now rewrite Ew, orb_true_r|].
      unfold rereg_or_reg, reregister, k_mod. rewrite (tbl_one s tb K), Op, G. cbn [negb].
      eexists. split; [reflexivity|].
      unfold tbl. cbn [s_kern with_r with_tokfd with_tbl]. rewrite K. cbn [lset nth]. apply tstep_aset.
    + assert (G : aget fd tb = None).
      { rewrite <- (tbl_one s tb K). apply (absent_iff s fd Hs). now split. }
      unfold register, k_add. rewrite (tbl_one s tb K), Op, G. cbn [negb].
      eexists. split; [reflexivity|].
      unfold tbl. cbn [s_kern with_r with_tokfd with_tbl]. rewrite K. cbn [lset nth]. apply tstep_aset.
Qed.

Lemma add_write_full : forall s tb fd c, sinv s -> s_kern s = [tb] -> zmem fd (s_open s) = true ->
  exists s', add_write_event s 0 fd c = (true, s') /\ tstep fd c tb (tbl s' 0).
Proof.
  intros s tb fd c Hs K Op. unfold add_write_event. rewrite (mark_id s fd Hs).
  destruct (zmem fd (s_wrec s)) eqn:Ew.
  - exists s. split; [reflexivity|]. rewrite (tbl_one s tb K). apply tstep_refl.
  - destruct (zmem fd (s_rrec s)) eqn:Er.
    + destruct (entry_of_rec s tb fd Hs K) as [e G]; [now rewrite Er|].
      unfold rereg_or_reg, reregister, k_mod. rewrite (tbl_one s tb K), Op, G. cbn [negb].
      eexists. split; [reflexivity|].
      unfold tbl. cbn [s_kern with_w with_tokfd with_tbl]. rewrite K. cbn [lset nth]. apply tstep_aset.
    + assert (G : aget fd tb = None).
      { rewrite <- (tbl_one s tb K). apply (absent_iff s fd Hs). now split. }
      unfold register, k_add. rewrite (tbl_one s tb K), Op, G. cbn [negb].
      eexists. split; [reflexivity|].
      unfold tbl. cbn [s_kern with_w with_tokfd with_tbl]. rewrite K. cbn [lset nth]. apply tstep_aset.
Qed.

Lemma del_core_tbl : forall s tb fd s', s_kern s = [tb] -> del_event_core s 0 fd = (true, s') -> tle tb (tbl s' 0).
Proof.
  intros s tb fd s' K E. unfold del_event_core in E.
  destruct (zmem fd (s_rrec s) || zmem fd (s_wrec s)).
  - cbv zeta in E. unfold deregister, k_del in E.
    unfold tbl in E at 1. cbn [s_kern s_open with_w with_r] in E. rewrite K in E. cbn [nth] in E.
    destruct (negb (zmem fd (s_open s))); [discriminate|].
    destruct (aget fd tb); [|discriminate].
    inversion E; subst s'. clear E.
    unfold tbl. cbn [s_kern with_w with_r with_tokfd with_tbl]. rewrite K. cbn [lset nth]. apply tle_arem.
  - inversion E; subst s'. rewrite (tbl_one s tb K). apply tle_refl.
Qed.

Lemma el_del_event_tbl : forall s tb fd s', sinv s -> s_kern s = [tb] ->
  el_del_event s fd = (true, s') -> tle tb (tbl s' 0).
Proof.
  intros s tb fd s' Hs K E. unfold el_del_event in E. rewrite (all_loops_one _ s (loops_one s tb K)) in E.
  unfold del_event in E. rewrite (mark_id s fd Hs) in E.
  destruct (del_event_core s 0 fd) as [[|] s1] eqn:Ec; [|discriminate].
  inversion E; subst s'. exact (del_core_tbl s tb fd s1 K Ec).
Qed.

Lemma el_del_read_tbl : forall s tb fd s', sinv s -> s_kern s = [tb] -> zmem fd (s_wrec s) = false ->
  el_del_read_event s fd = (true, s') -> tle tb (tbl s' 0).
Proof.
  intros s tb fd s' Hs K W E. unfold el_del_read_event in E. rewrite (all_loops_one _ s (loops_one s tb K)) in E.
  unfold del_read_event in E. rewrite (mark_id s fd Hs), W in E.
  destruct (zmem fd (s_rrec s)).
  - destruct (del_event_core s 0 fd) as [[|] s1] eqn:Ec; [|discriminate].
    inversion E; subst s'. exact (del_core_tbl s tb fd s1 K Ec).
  - inversion E; subst s'. rewrite (tbl_one s tb K). apply tle_refl.
Qed.

Lemma el_del_write_tbl : forall s tb fd s', sinv s -> s_kern s = [tb] -> zmem fd (s_rrec s) = false ->
  el_del_write_event s fd = (true, s') -> tle tb (tbl s' 0).
Proof.
  intros s tb fd s' Hs K R E. unfold el_del_write_event in E. rewrite (all_loops_one _ s (loops_one s tb K)) in E.
  unfold del_write_event in E. rewrite (mark_id s fd Hs), R in E.
  destruct (zmem fd (s_wrec s)).
  - destruct (del_event_core s 0 fd) as [[|] s1] eqn:Ec; [|discriminate].
    inversion E; subst s'. exact (del_core_tbl s tb fd s1 K Ec).
  - inversion E; subst s'. rewrite (tbl_one s tb K). apply tle_refl.
Qed.

Lemma deliver_proj : forall s tok r w,
  s_open (deliver s tok r w) = s_open s /\ s_kern (deliver s tok r w) = s_kern s
  /\ s_rrec (deliver s tok r w) = s_rrec s /\ s_wrec (deliver s tok r w) = s_wrec s.
Proof. intros s tok r w. unfold deliver. destruct r, w; repeat split. Qed.

(** * Tracker lemmas *)

Lemma arem_none : forall {V} k (l : list (Z * V)), aget k l = None -> arem k l = l.
Proof.
  intros V k l. induction l as [|[a b] l IH]; cbn [aget arem]; [reflexivity|].
  destruct (k =? a); [discriminate|]. intros H. now rewrite IH.
Qed.

Lemma aget_void_fd : forall fd c t,
  aget c (void_fd fd t) =
  match aget c t with Some (f, w) => Some (if f =? fd then VOID else f, w) | None => None end.
Proof.
  intros fd c t. unfold void_fd. induction t as [|[a [f w]] t IH]; cbn [map aget]; [reflexivity|].
  destruct (c =? a); [reflexivity|exact IH].
Qed.

Lemma aget_void_dir : forall fd d c t,
  aget c (void_dir fd d t) =
  match aget c t with
  | Some (f, w) => Some (if (f =? fd) && Bool.eqb w d then VOID else f, w)
  | None => None
  end.
Proof.
  intros fd d c t. unfold void_dir. induction t as [|[a [f w]] t IH]; cbn [map aget]; [reflexivity|].
  destruct (c =? a); [reflexivity|exact IH].
Qed.

Lemma keys_void_fd : forall fd t, map fst (void_fd fd t) = map fst t.
Proof.
  intros fd t. unfold void_fd. induction t as [|[a [f w]] t IH]; cbn [map fst]; [reflexivity|]. now rewrite IH.
Qed.

Lemma keys_void_dir : forall fd d t, map fst (void_dir fd d t) = map fst t.
Proof.
  intros fd d t. unfold void_dir. induction t as [|[a [f w]] t IH]; cbn [map fst]; [reflexivity|]. now rewrite IH.
Qed.

Lemma ukeys_void_fd : forall fd t, ukeys t -> ukeys (void_fd fd t).
Proof. intros fd t U. unfold ukeys. now rewrite keys_void_fd. Qed.

Lemma ukeys_void_dir : forall fd d t, ukeys t -> ukeys (void_dir fd d t).
Proof. intros fd d t U. unfold ukeys. now rewrite keys_void_dir. Qed.

(** who is in [waiters_on] *)
Lemma waiters_on_spec : forall fd d t c,
  In c (waiters_on fd d t) <-> exists f w, In (c, (f, w)) t /\ f = fd /\ w = d.
Proof.
  intros fd d t c. unfold waiters_on. rewrite in_map_iff. split.
  - intros [[c' [f w]] [E H]]. cbn [fst] in E. subst c'. apply filter_In in H as [H1 H2].
    unfold waits_for in H2. cbn [fst snd] in H2. apply andb_true_iff in H2 as [H2 H3].
    apply Z.eqb_eq in H2. apply eqb_prop in H3. now exists f, w.
  - intros [f [w [H [E1 E2]]]]. subst f w. exists (c, (fd, d)). split; [reflexivity|].
    apply filter_In. split; [exact H|]. unfold waits_for. cbn [fst snd]. now rewrite Z.eqb_refl, eqb_reflx.
Qed.

Lemma waiters_in : forall fd d t c, aget c t = Some (fd, d) -> In c (waiters_on fd d t).
Proof.
  intros fd d t c H. apply waiters_on_spec. exists fd, d. split; [|split; reflexivity]. now apply aget_In.
Qed.

Lemma waiters_none : forall fd d t, ukeys t -> (forall c, aget c t <> Some (fd, d)) -> waiters_on fd d t = [].
Proof.
  intros fd d t U H. destruct (waiters_on fd d t) as [|c r] eqn:E; [reflexivity|]. exfalso.
  assert (I : In c (waiters_on fd d t)) by (rewrite E; now left).
  apply waiters_on_spec in I. destruct I as [f [w [I [E1 E2]]]]. subst f w.
  apply (H c). now apply In_aget.
Qed.

Lemma aget_head_notin : forall {V} a (l : list (Z * V)), ~ In a (map fst l) -> aget a l = None.
Proof.
  intros V a l H. destruct (aget a l) eqn:G; [|reflexivity].
  exfalso. apply H. apply aget_In in G. apply (in_map fst) in G. exact G.
Qed.

Lemma waiters_one : forall fd d t c, ukeys t -> aget c t = Some (fd, d) ->
  (forall c', aget c' t = Some (fd, d) -> c' = c) -> waiters_on fd d t = [c].
Proof.
  intros fd d t c. unfold waiters_on. induction t as [|[a [f w]] t IH]; intros U G H; [discriminate|].
  unfold ukeys in U. cbn [map fst] in U. inversion U as [|x xs Hn Hd]; subst.
  cbn [filter]. unfold waits_for at 1. cbn [fst snd]. cbn [aget] in G.
  destruct ((f =? fd) && Bool.eqb w d) eqn:E.
  - apply andb_true_iff in E as [E1 E2]. apply Z.eqb_eq in E1. apply eqb_prop in E2. subst f w.
    assert (a = c). { apply H. cbn [aget]. now rewrite Z.eqb_refl. } subst a.
    cbn [map fst]. f_equal. apply (waiters_none fd d t Hd).
    intros c' Hc'. assert (c' = c).
    { apply H. cbn [aget]. destruct (c' =? c) eqn:E'; [|exact Hc'].
      apply Z.eqb_eq in E'; subst c'. rewrite (aget_head_notin c t Hn) in Hc'. discriminate. }
    subst c'. rewrite (aget_head_notin c t Hn) in Hc'. discriminate.
  - destruct (c =? a) eqn:Eca.
    + inversion G; subst f w. now rewrite Z.eqb_refl, eqb_reflx in E.
    + apply IH; [exact Hd|exact G|]. intros c' Hc'. apply H. cbn [aget].
      destruct (c' =? a) eqn:E'; [|exact Hc'].
      apply Z.eqb_eq in E'; subst c'. rewrite (aget_head_notin a t Hn) in Hc'. discriminate.
Qed.

Lemma in_u64_range : forall c, in_u64 c = true -> 0 <= c < 2 ^ 64.
Proof.
  intros c H. unfold in_u64, U64MAX in H. change (2 ^ 64) with 18446744073709551616. lia.
Qed.

Lemma same_set_refl1 : forall c, same_set [c] [c] = true.
Proof. intros c. unfold same_set, subset. cbn. now rewrite Z.eqb_refl. Qed.

Lemma aget_unbind : forall (b : list (Z * Z)) fd k, ukeys b ->
  aget k (unbind fd b) = match aget k b with Some f => if f =? fd then None else Some f | None => None end.
Proof. intros b fd k U. unfold unbind. now apply aget_filter_snd. Qed.

(** * The invariant for histories outside the recorded findings *)

Definition binj (b : list (Z * Z)) : Prop :=
  forall c1 c2 f, aget c1 b = Some f -> aget c2 b = Some f -> c1 = c2.
Definition brng (nfd : Z) (b : list (Z * Z)) : Prop :=
  forall c f, aget c b = Some f -> 0 <= c < 2 ^ 64 /\ 0 <= f < nfd.
Definition nreg (n : nd) (d : bool) : list Z := if d then n_w n else n_r n.

Record Inv (nfd : Z) (l : loop) (t : list (Z * want)) (n : nd) : Prop := {
  i_sinv : sinv (l_sel l);
  i_sys : l_sys l = t;
  i_ut : ukeys t;
  i_ub : ukeys (n_bind n);
  i_inj : binj (n_bind n);
  i_rng : brng nfd (n_bind n);
  i_open : forall fd, 0 <= fd < nfd -> zmem fd (s_open (l_sel l)) = negb (zmem fd (n_closed n));
  i_rrec : forall fd, zmem fd (s_rrec (l_sel l)) = zmem fd (n_r n);
  i_wrec : forall fd, zmem fd (s_wrec (l_sel l)) = zmem fd (n_w n);
  i_tok : forall fd e, aget fd (tbl (l_sel l) 0) = Some e ->
          exists c, aget c (n_bind n) = Some fd /\ k_tok e = encode c;
  i_live : forall c f w, aget c t = Some (f, w) -> f <> VOID ->
           aget c (n_bind n) = Some f /\ zmem c (l_cotok l) = true /\ zmem f (nreg n w) = true;
  i_void : forall c w, aget c t = Some (VOID, w) -> aget c (n_bind n) = None
}.

Lemma bound_owner : forall b c fd c', binj b -> bound_ok b c fd = true -> aget c' b = Some fd -> c' = c.
Proof.
  intros b c fd c' J Hb G. unfold bound_ok in Hb. destruct (aget c b) as [f|] eqn:Gc.
  - apply Z.eqb_eq in Hb; subst f. exact (J c' c fd G Gc).
  - apply negb_true_iff in Hb. exfalso. exact (existsb_snd_false b fd Hb c' G).
Qed.

Lemma bound_self : forall b c fd x, bound_ok b c fd = true -> aget c b = Some x -> x = fd.
Proof. intros b c fd x Hb G. unfold bound_ok in Hb. rewrite G in Hb. now apply Z.eqb_eq in Hb. Qed.

Lemma bind_wait : forall nfd b c fd,
  ukeys b -> binj b -> brng nfd b -> in_u64 c = true -> 0 <= fd < nfd -> bound_ok b c fd = true ->
  ukeys (aset c fd b) /\ binj (aset c fd b) /\ brng nfd (aset c fd b).
Proof.
  intros nfd b c fd Ub J R Hc Hfd Hb.
  assert (Hfree : forall c', c' <> c -> aget c' b <> Some fd).
  { intros c' Hne G. apply Hne. exact (bound_owner b c fd c' J Hb G). }
  split; [now apply ukeys_aset|]. split.
  - intros c1 c2 f H1 H2. rewrite aget_aset in H1, H2.
    destruct (c1 =? c) eqn:E1, (c2 =? c) eqn:E2.
    + apply Z.eqb_eq in E1, E2. congruence.
    + apply Z.eqb_eq in E1. apply Z.eqb_neq in E2. inversion H1; subst f. exfalso. exact (Hfree c2 E2 H2).
    + apply Z.eqb_eq in E2. apply Z.eqb_neq in E1. inversion H2; subst f. exfalso. exact (Hfree c1 E1 H1).
    + exact (J c1 c2 f H1 H2).
  - intros c' f H. rewrite aget_aset in H. destruct (c' =? c) eqn:E.
    + apply Z.eqb_eq in E; subst c'. inversion H; subst f. split; [now apply in_u64_range|exact Hfd].
    + exact (R c' f H).
Qed.

(** [EventLoop::token] + [add_read_event] / [add_write_event] of a wait inside the premises *)
Lemma begin_wait_inv : forall nfd l t n d c fd,
  Inv nfd l t n -> in_u64 c = true -> 0 <= fd < nfd -> aget c t = None ->
  bound_ok (n_bind n) c fd = true -> zmem fd (n_closed n) = false ->
  exists l1, begin_wait l d c fd = (true, l1) /\ l_sys l1 = t /\ zmem c (l_cotok l1) = true
             /\ l_ctags l1 = l_ctags l
             /\ Inv nfd l1 t (snd (nd_step t n (Wait d c fd))).
Proof.
  intros nfd l t n d c fd I Hc Hfd Hn Hb Hcl.
  destruct (bind_wait nfd (n_bind n) c fd (i_ub _ _ _ _ I) (i_inj _ _ _ _ I) (i_rng _ _ _ _ I) Hc Hfd Hb)
    as [Ub' [J' R']].
  destruct I as [S Y Ut Ub J R O RR WR T L V].
  destruct (v_kern _ S) as [tb K].
  assert (Op : zmem fd (s_open (l_sel l)) = true) by (rewrite (O fd Hfd), Hcl; reflexivity).
  assert (TOK : forall s', tstep fd c tb (tbl s' 0) -> forall x e, aget x (tbl s' 0) = Some e ->
            exists c0, aget c0 (aset c fd (n_bind n)) = Some x /\ k_tok e = encode c0).
  { intros s' TS x e H. destruct (TS x e H) as [Ho|[Ex Et]].
    - rewrite <- (tbl_one _ tb K) in Ho. destruct (T x e Ho) as [c' [B Tk]]. exists c'. split; [|exact Tk].
      rewrite aget_aset. destruct (c' =? c) eqn:Ec; [|exact B].
      apply Z.eqb_eq in Ec; subst c'. f_equal. symmetry. exact (bound_self _ c fd x Hb B).
    - subst x. exists c. split; [|exact Et]. now rewrite aget_aset, Z.eqb_refl. }
  assert (LIVE : forall (nr nw : list Z),
            (forall x, zmem x (n_r n) = true -> zmem x nr = true) ->
            (forall x, zmem x (n_w n) = true -> zmem x nw = true) ->
            forall c' f w, aget c' t = Some (f, w) -> f <> VOID ->
            aget c' (aset c fd (n_bind n)) = Some f /\ zmem c' (zadd c (l_cotok l)) = true
            /\ zmem f (if w then nw else nr) = true).
  { intros nr nw Mr Mw c' f w H Hv. destruct (L c' f w H Hv) as [L1 [L2 L3]]. split; [|split].
    - rewrite aget_aset. destruct (c' =? c) eqn:Ec; [|exact L1]. apply Z.eqb_eq in Ec; subst c'. congruence.
    - rewrite zmem_zadd, L2. apply orb_true_r.
    - unfold nreg in L3. destruct w; [now apply Mw|now apply Mr]. }
  assert (VD : forall c' w, aget c' t = Some (VOID, w) -> aget c' (aset c fd (n_bind n)) = None).
  { intros c' w H. rewrite aget_aset. destruct (c' =? c) eqn:Ec; [|exact (V c' w H)].
    apply Z.eqb_eq in Ec; subst c'. congruence. }
  unfold begin_wait. destruct d.
  - destruct (add_write_full _ tb fd c S K Op) as [s' [E TS]].
    destruct (add_write_spec _ tb S K fd c) as [ok [s'' [E2 [Hs' Rc]]]]. rewrite E in E2.
    inversion E2; subst ok s''. clear E2. destruct Rc as [Ro [Rr [Rw _]]]. rewrite E. cbv beta iota.
    eexists. split; [reflexivity|]. cbn [l_sys l_cotok l_ctags]. split; [exact Y|]. split; [now rewrite zmem_zadd, Z.eqb_refl|].
    split; [reflexivity|].
    cbn [nd_step snd]. constructor; cbn [l_sel l_sys l_cotok n_bind n_r n_w n_closed]; auto.
    + intros x Hx. rewrite Ro. now apply O.
    + intros x. rewrite Rr. unfold keepm. apply RR.
    + intros x. rewrite Rw, zmem_zadd. unfold addm. now rewrite WR.
    + now apply TOK.
    + unfold nreg. cbn [n_r n_w]. apply LIVE; auto. intros x Hx. rewrite zmem_zadd, Hx. apply orb_true_r.
  - destruct (add_read_full _ tb fd c S K Op) as [s' [E TS]].
    destruct (add_read_spec _ tb S K fd c) as [ok [s'' [E2 [Hs' Rc]]]]. rewrite E in E2.
    inversion E2; subst ok s''. clear E2. destruct Rc as [Ro [Rr [Rw _]]]. rewrite E. cbv beta iota.
    eexists. split; [reflexivity|]. cbn [l_sys l_cotok l_ctags]. split; [exact Y|]. split; [now rewrite zmem_zadd, Z.eqb_refl|].
    split; [reflexivity|].
    cbn [nd_step snd]. constructor; cbn [l_sel l_sys l_cotok n_bind n_r n_w n_closed]; auto.
    + intros x Hx. rewrite Ro. now apply O.
    + intros x. rewrite Rr, zmem_zadd. unfold addm. now rewrite RR.
    + intros x. rewrite Rw. unfold keepm. apply WR.
    + now apply TOK.
    + unfold nreg. cbn [n_r n_w]. apply LIVE; auto. intros x Hx. rewrite zmem_zadd, Hx. apply orb_true_r.
Qed.

Definition step_ok (nfd : Z) (l : loop) (t : list (Z * want)) (n : nd) (o : op) : Prop :=
  fst (ok_step t o (snd (step l o))) = true
  /\ snd (ok_step t o (snd (step l o))) = spec_step t o
  /\ Inv nfd (fst (step l o)) (spec_step t o) (snd (nd_step t n o))
  /\ l_ctags (fst (step l o)) = l_ctags l.

Lemma wf_wait_bits : forall nfd (t : list (Z * want)) c fd,
  in_u64 c && (1 <=? fd) && (fd <? nfd) && match aget c t with None => true | Some _ => false end = true ->
  in_u64 c = true /\ 0 <= fd < nfd /\ aget c t = None.
Proof.
  intros nfd t c fd H. apply andb_true_iff in H as [H Hn]. apply andb_true_iff in H as [H H3].
  apply andb_true_iff in H as [Hc H2]. destruct (aget c t); [discriminate|]. repeat split; auto; lia.
Qed.

Lemma step_wait : forall nfd l t n d c fd,
  Inv nfd l t n -> wf_op nfd t (Wait d c fd) = true -> fst (nd_step t n (Wait d c fd)) = true ->
  step_ok nfd l t n (Wait d c fd).
Proof.
  intros nfd l t n d c fd I Hwf Hp. cbn [wf_op] in Hwf. destruct (wf_wait_bits nfd t c fd Hwf) as [Hc [Hfd Hn]].
  cbn [nd_step fst] in Hp. apply andb_true_iff in Hp as [Hb Hcl]. apply negb_true_iff in Hcl.
  destruct (begin_wait_inv nfd l t n d c fd I Hc Hfd Hn Hb Hcl) as [l1 [E [Y1 [C1 [G1 I1]]]]].
  unfold step_ok. cbn [step]. rewrite (i_sys _ _ _ _ I), Hn, E. cbn [fst snd ok_step spec_step].
  split; [reflexivity|]. split; [reflexivity|]. split; [|exact G1].
  destruct I1 as [S Y Ut Ub J R O RR WR T L V].
  constructor; cbn [with_sys l_sel l_sys l_cotok]; auto.
  - now rewrite Y1.
  - now apply ukeys_aset.
  - intros c' f w H Hv. rewrite aget_aset in H. destruct (c' =? c) eqn:Ec; [|exact (L c' f w H Hv)].
    apply Z.eqb_eq in Ec; subst c'. inversion H; subst f w. split; [|split].
    + cbn [nd_step snd n_bind]. now rewrite aget_aset, Z.eqb_refl.
    + exact C1.
    + unfold nreg. cbn [nd_step snd n_r n_w]. destruct d; now rewrite zmem_zadd, Z.eqb_refl.
  - intros c' w H. rewrite aget_aset in H. destruct (c' =? c) eqn:Ec; [|exact (V c' w H)].
    inversion H. unfold VOID in *. lia.
Qed.

Lemma step_waitt : forall nfd l t n d c fd,
  Inv nfd l t n -> wf_op nfd t (WaitT d c fd) = true -> fst (nd_step t n (WaitT d c fd)) = true ->
  step_ok nfd l t n (WaitT d c fd).
Proof.
  intros nfd l t n d c fd I Hwf Hp. cbn [wf_op] in Hwf. destruct (wf_wait_bits nfd t c fd Hwf) as [Hc [Hfd Hn]].
  cbn [nd_step fst] in Hp. apply andb_true_iff in Hp as [Hb Hcl]. apply negb_true_iff in Hcl.
  destruct (begin_wait_inv nfd l t n d c fd I Hc Hfd Hn Hb Hcl) as [l1 [E [Y1 [C1 [G1 I1]]]]].
  unfold step_ok. cbn [step]. rewrite (i_sys _ _ _ _ I), Hn, E. cbn [fst snd ok_step spec_step].
  split; [reflexivity|]. split; [reflexivity|]. split; [exact I1|exact G1].
Qed.

Lemma step_ready : forall nfd l t n d fd,
  Inv nfd l t n -> 0 <= fd < nfd -> waiters_on fd (negb d) t = [] -> step_ok nfd l t n (Ready d fd).
Proof.
  intros nfd l t n d fd I Hfd Hp. pose proof I as I0. destruct I as [S Y Ut Ub J R O RR WR T L V].
  assert (Hnv : fd <> VOID) by (unfold VOID; lia).
  assert (REG : forall c', aget c' t = Some (fd, d) ->
            exists e, aget fd (tbl (l_sel l) 0) = Some e /\ (if d then k_w e else k_r e) = true).
  { intros c' H. destruct (L c' fd d H Hnv) as [_ [_ L3]]. pose proof (v_coh _ S fd) as [C1 C2].
    unfold kr, kw in C1, C2. unfold nreg in L3. destruct d.
    - rewrite <- WR in L3. rewrite L3 in C2. destruct (aget fd (tbl (l_sel l) 0)) as [e|]; [|discriminate].
      exists e. now split.
    - rewrite <- RR in L3. rewrite L3 in C1. destruct (aget fd (tbl (l_sel l) 0)) as [e|]; [|discriminate].
      exists e. now split. }
  unfold step_ok. cbn [step nd_step snd]. destruct (aget fd (tbl (l_sel l) 0)) as [e|] eqn:G.
  2: { cbn [fst snd ok_step spec_step].
       assert (Hw : waiters_on fd d t = []).
       { apply waiters_none; [exact Ut|]. intros c' H. destruct (REG c' H) as [e [G2 _]]. discriminate. }
       rewrite Hw. cbn [is_nil fold_left]. split; [reflexivity|]. split; [reflexivity|]. split; [exact I0|reflexivity]. }
  destruct (if d then k_w e else k_r e) eqn:F.
  2: { cbn [fst snd ok_step spec_step].
       assert (Hw : waiters_on fd d t = []).
       { apply waiters_none; [exact Ut|]. intros c' H. destruct (REG c' H) as [e' [G2 F2]].
         inversion G2; subst e'. congruence. }
       rewrite Hw. cbn [is_nil fold_left]. split; [reflexivity|]. split; [reflexivity|]. split; [exact I0|reflexivity]. }
  destruct (T fd e G) as [c [B Tk]]. rewrite Tk. destruct (R c fd B) as [Rc _]. rewrite (roundtrip c Rc). rewrite Y.
  assert (Huniq : forall c' w, aget c' t = Some (fd, w) -> c' = c).
  { intros c' w H. destruct (L c' fd w H Hnv) as [L1 _]. exact (J c' c fd L1 B). }
  destruct (deliver_proj (l_sel l) c (negb d) d) as [P1 [P2 [P3 P4]]].
  assert (TB : tbl (deliver (l_sel l) c (negb d) d) 0 = tbl (l_sel l) 0) by (unfold tbl; now rewrite P2).
  destruct (aget c t) as [[f w]|] eqn:Gc.
  - assert (f = fd).
    { destruct (Z.eq_dec f VOID) as [Ev|Ev].
      - subst f. rewrite (V c w Gc) in B. discriminate.
      - destruct (L c f w Gc Ev) as [L1 _]. congruence. }
    subst f.
    assert (w = d).
    { destruct (Bool.bool_dec w d) as [|Ne]; [assumption|]. exfalso.
      assert (w = negb d) by (destruct w, d; try reflexivity; exfalso; apply Ne; reflexivity). subst w.
      pose proof (waiters_in fd (negb d) t c Gc) as X. rewrite Hp in X. destruct X. }
    subst w. destruct (L c fd d Gc Hnv) as [_ [Lc _]]. rewrite Lc.
    cbn [fst snd ok_step spec_step].
    rewrite (waiters_one fd d t c Ut Gc (fun c' H => Huniq c' d H)).
    split; [apply same_set_refl1|]. split; [reflexivity|]. cbn [fold_left].
    split; [|cbn [l_ctags]; now rewrite same_set_refl1].
    constructor; cbn [l_sel l_sys l_cotok]; auto.
    + now apply sinv_deliver.
    + now apply ukeys_arem.
    + intros x Hx. rewrite P1. now apply O.
    + intros x. rewrite P3. apply RR.
    + intros x. rewrite P4. apply WR.
    + intros x e0. rewrite TB. apply T.
    + intros c' f w H Hv. rewrite aget_arem in H. destruct (c' =? c) eqn:Ec; [discriminate|].
      destruct (L c' f w H Hv) as [L1 [L2 L3]]. split; [exact L1|]. split; [|exact L3].
      rewrite zmem_zrem, Ec. exact L2.
    + intros c' w H. rewrite aget_arem in H. destruct (c' =? c); [discriminate|]. exact (V c' w H).
  - assert (Hw : waiters_on fd d t = []).
    { apply waiters_none; [exact Ut|]. intros c' H. pose proof (Huniq c' d H) as X. subst c'. pose proof (eq_trans (eq_sym Gc) H) as X2. discriminate X2. }
    assert (Hwk : (if zmem c (l_cotok l) then match @None want with Some _ => [c] | None => [] end else []) = []).
    { destruct (zmem c (l_cotok l)); reflexivity. }
    cbn [fst snd ok_step spec_step]. rewrite Hw, Hwk. cbn [fold_left].
    split; [reflexivity|]. split; [reflexivity|].
    split; [|reflexivity].
    constructor; cbn [l_sel l_sys l_cotok]; auto.
    + now apply sinv_deliver.
    + destruct (zmem c (l_cotok l)); [|reflexivity]. now apply arem_none.
    + intros x Hx. rewrite P1. now apply O.
    + intros x. rewrite P3. apply RR.
    + intros x. rewrite P4. apply WR.
    + intros x e0. rewrite TB. apply T.
    + intros c' f w H Hv. destruct (L c' f w H Hv) as [L1 [L2 L3]]. split; [exact L1|]. split; [|exact L3].
      rewrite zmem_zrem, L2. destruct (c' =? c) eqn:Ec; [|reflexivity].
      apply Z.eqb_eq in Ec; subst c'. congruence.
Qed.

Lemma tle_trans : forall a b c, tle a b -> tle b c -> tle a c.
Proof. intros a b c H1 H2 x e H. apply H1. now apply H2. Qed.

(** a deletion that removes the whole registration of [fd]: [Del], [Close], [DelDir] of the only
    registered direction *)
Lemma forget_inv : forall nfd l t n fd s' t' closed' (kill : Z -> bool -> bool),
  Inv nfd l t n -> 0 <= fd < nfd ->
  sinv s' ->
  (forall x, 0 <= x < nfd -> zmem x (s_open s') = negb (zmem x closed')) ->
  (forall x, zmem x (s_rrec s') = negb (x =? fd) && zmem x (s_rrec (l_sel l))) ->
  (forall x, zmem x (s_wrec s') = negb (x =? fd) && zmem x (s_wrec (l_sel l))) ->
  tle (tbl (l_sel l) 0) (tbl s' 0) ->
  ukeys t' ->
  (forall c, aget c t' =
             match aget c t with Some (f, w) => Some (if kill f w then VOID else f, w) | None => None end) ->
  (forall f w, kill f w = true -> f = fd) ->
  (forall w, kill fd w = false -> zmem fd (nreg n w) = false) ->
  Inv nfd (with_sys (with_sel l s') t') t' (nd_forget n fd closed').
Proof.
  intros nfd l t n fd s' t' closed' kill I Hfd S' O' RR' WR' TL Ut' AG K1 K2.
  destruct I as [S Y Ut Ub J R O RR WR T L V].
  assert (Hnv : fd <> VOID) by (unfold VOID; lia).
  assert (NR : forall w x, zmem x (nreg (nd_forget n fd closed') w) = negb (x =? fd) && zmem x (nreg n w)).
  { intros w x. unfold nreg, nd_forget. cbn [n_r n_w]. destruct w; apply zmem_zrem. }
  constructor; cbn [with_sys with_sel l_sel l_sys l_cotok nd_forget n_bind n_r n_w n_closed]; auto.
  - now apply ukeys_filter.
  - intros c1 c2 f H1 H2. rewrite (aget_unbind _ fd c1 Ub) in H1. rewrite (aget_unbind _ fd c2 Ub) in H2.
    destruct (aget c1 (n_bind n)) as [f1|] eqn:G1; [|discriminate].
    destruct (aget c2 (n_bind n)) as [f2|] eqn:G2; [|discriminate].
    destruct (f1 =? fd); [discriminate|]. destruct (f2 =? fd); [discriminate|].
    inversion H1; inversion H2; subst. exact (J c1 c2 f G1 G2).
  - intros c f H. rewrite (aget_unbind _ fd c Ub) in H.
    destruct (aget c (n_bind n)) as [f1|] eqn:G1; [|discriminate]. destruct (f1 =? fd); [discriminate|].
    inversion H; subst. exact (R c f G1).
  - intros x. rewrite RR', zmem_zrem, RR. reflexivity.
  - intros x. rewrite WR', zmem_zrem, WR. reflexivity.
  - intros x e H.
    assert (Hx : (x =? fd) = false).
    { destruct (x =? fd) eqn:E; [|reflexivity]. apply Z.eqb_eq in E; subst x. exfalso.
      assert (N : aget fd (tbl s' 0) = None).
      { apply (absent_iff s' fd S'). rewrite RR', WR', Z.eqb_refl. split; reflexivity. }
      rewrite N in H. discriminate. }
    destruct (T x e (TL x e H)) as [c [B Tk]]. exists c. split; [|exact Tk].
    rewrite (aget_unbind _ fd c Ub), B, Hx. reflexivity.
  - intros c f' w H Hv. rewrite AG in H. destruct (aget c t) as [[f w0]|] eqn:G; [|discriminate].
    inversion H; subst w0. clear H. destruct (kill f w) eqn:Ek; [congruence|]. subst f'.
    destruct (L c f w G Hv) as [L1 [L2 L3]].
    assert (Hf : (f =? fd) = false).
    { destruct (f =? fd) eqn:E; [|reflexivity]. apply Z.eqb_eq in E; subst f.
      rewrite (K2 w Ek) in L3. discriminate. }
    split; [|split].
    + rewrite (aget_unbind _ fd c Ub), L1, Hf. reflexivity.
    + exact L2.
    + rewrite NR, Hf, L3. reflexivity.
  - intros c w H. rewrite AG in H. destruct (aget c t) as [[f w0]|] eqn:G; [|discriminate].
    inversion H; subst w0. rewrite (aget_unbind _ fd c Ub). destruct (kill f w) eqn:Ek.
    + pose proof (K1 f w Ek). subst f. destruct (L c fd w G Hnv) as [L1 _]. rewrite L1, Z.eqb_refl. reflexivity.
    + match goal with X : _ = VOID |- _ => rewrite X in G end. now rewrite (V c w G).
Qed.

Lemma remm_eq : forall fd x b, remm fd x b = negb (x =? fd) && b.
Proof. reflexivity. Qed.

Lemma step_del : forall nfd l t n fd, Inv nfd l t n -> 0 <= fd < nfd -> step_ok nfd l t n (Del fd).
Proof.
  intros nfd l t n fd I Hfd. pose proof I as I0. destruct I as [S Y Ut Ub J R O RR WR T L V].
  destruct (v_kern _ S) as [tb K].
  destruct (el_del_event_spec _ tb fd S K) as [s' [E [S' [Ro [Rr [Rw _]]]]]].
  unfold step_ok. cbn [step nd_step snd]. rewrite E. cbn [fst snd ok_step spec_step].
  split; [reflexivity|]. split; [reflexivity|]. split; [|reflexivity]. rewrite Y.
  apply (forget_inv nfd l t n fd s' (void_fd fd t) (n_closed n) (fun f _ => f =? fd) I0 Hfd S'); auto.
  - intros x Hx. rewrite Ro. now apply O.
  - rewrite (tbl_one _ tb K). exact (el_del_event_tbl _ tb fd s' S K E).
  - now apply ukeys_void_fd.
  - intros c. apply aget_void_fd.
  - intros f w H. now apply Z.eqb_eq.
  - intros w H. cbv beta in H. rewrite Z.eqb_refl in H. discriminate.
Qed.

Lemma step_close : forall nfd l t n fd, Inv nfd l t n -> 0 <= fd < nfd -> step_ok nfd l t n (Close fd).
Proof.
  intros nfd l t n fd I Hfd. pose proof I as I0. destruct I as [S Y Ut Ub J R O RR WR T L V].
  destruct (v_kern _ S) as [tb K].
  destruct (el_del_event_spec _ tb fd S K) as [s1 [E [S1 [Ro [Rr [Rw _]]]]]].
  assert (N1 : zmem fd (s_rrec s1) = false) by (rewrite Rr, remm_eq, Z.eqb_refl; reflexivity).
  assert (N2 : zmem fd (s_wrec s1) = false) by (rewrite Rw, remm_eq, Z.eqb_refl; reflexivity).
  unfold step_ok. cbn [step nd_step snd]. rewrite E. cbn [fst snd ok_step spec_step].
  split; [reflexivity|]. split; [reflexivity|]. split; [|reflexivity]. rewrite Y.
  destruct (v_kern _ S1) as [tb1 K1].
  apply (forget_inv nfd l t n fd (os_close s1 fd) (void_fd fd t) (zadd fd (n_closed n)) (fun f _ => f =? fd)
           I0 Hfd (sinv_os_close s1 fd S1 N1 N2)); auto.
  - intros x Hx. cbn [os_close s_open with_open]. rewrite zmem_zrem, zmem_zadd, Ro, (O x Hx).
    destruct (x =? fd); reflexivity.
  - apply (tle_trans _ (tbl s1 0)).
    + rewrite (tbl_one _ tb K). exact (el_del_event_tbl _ tb fd s1 S K E).
    + unfold tbl, os_close. cbn [s_kern with_open]. rewrite K1. cbn [map nth]. apply tle_arem.
  - now apply ukeys_void_fd.
  - intros c. apply aget_void_fd.
  - intros f w H. now apply Z.eqb_eq.
  - intros w H. cbv beta in H. rewrite Z.eqb_refl in H. discriminate.
Qed.

Lemma step_deldir : forall nfd l t n d fd,
  Inv nfd l t n -> 0 <= fd < nfd -> zmem fd (nreg n (negb d)) = false -> step_ok nfd l t n (DelDir d fd).
Proof.
  intros nfd l t n d fd I Hfd Hp. pose proof I as I0. destruct I as [S Y Ut Ub J R O RR WR T L V].
  destruct (v_kern _ S) as [tb K].
  assert (KILL : forall w, (fd =? fd) && Bool.eqb w d = false -> zmem fd (nreg n w) = false).
  { intros w H. rewrite Z.eqb_refl in H. cbn [andb] in H.
    assert (w = negb d) by (destruct w, d; try reflexivity; discriminate). now subst w. }
  unfold step_ok. cbn [step nd_step snd]. destruct d; cbn [negb nreg] in Hp.
  - rewrite <- RR in Hp.
    destruct (el_del_write_spec _ tb fd S K) as [s' [E [S' [Ro [Rr [Rw _]]]]]].
    rewrite E. cbn [fst snd ok_step spec_step]. split; [reflexivity|]. split; [reflexivity|]. split; [|reflexivity]. rewrite Y.
    apply (forget_inv nfd l t n fd s' (void_dir fd true t) (n_closed n) (fun f w => (f =? fd) && Bool.eqb w true)
             I0 Hfd S'); auto.
    + intros x Hx. rewrite Ro. now apply O.
    + intros x. rewrite Rr. unfold keepm. destruct (x =? fd) eqn:Ex; [|reflexivity].
      apply Z.eqb_eq in Ex; subst x. now rewrite Hp.
    + rewrite (tbl_one _ tb K). exact (el_del_write_tbl _ tb fd s' S K Hp E).
    + now apply ukeys_void_dir.
    + intros c. apply aget_void_dir.
    + intros f w H. apply andb_true_iff in H as [H _]. now apply Z.eqb_eq.
  - rewrite <- WR in Hp.
    destruct (el_del_read_spec _ tb fd S K) as [s' [E [S' [Ro [Rr [Rw _]]]]]].
    rewrite E. cbn [fst snd ok_step spec_step]. split; [reflexivity|]. split; [reflexivity|]. split; [|reflexivity]. rewrite Y.
    apply (forget_inv nfd l t n fd s' (void_dir fd false t) (n_closed n) (fun f w => (f =? fd) && Bool.eqb w false)
             I0 Hfd S'); auto.
    + intros x Hx. rewrite Ro. now apply O.
    + intros x. rewrite Rw. unfold keepm. destruct (x =? fd) eqn:Ex; [|reflexivity].
      apply Z.eqb_eq in Ex; subst x. now rewrite Hp.
    + rewrite (tbl_one _ tb K). exact (el_del_read_tbl _ tb fd s' S K Hp E).
    + now apply ukeys_void_dir.
    + intros c. apply aget_void_dir.
    + intros f w H. apply andb_true_iff in H as [H _]. now apply Z.eqb_eq.
Qed.

Lemma step_reopen : forall nfd l t n fd, Inv nfd l t n -> step_ok nfd l t n (Reopen fd).
Proof.
  intros nfd l t n fd I. destruct I as [S Y Ut Ub J R O RR WR T L V].
  unfold step_ok. cbn [step nd_step fst snd ok_step spec_step].
  split; [reflexivity|]. split; [reflexivity|]. split; [|reflexivity].
  constructor; cbn [with_sel l_sel l_sys l_cotok n_bind n_r n_w n_closed]; auto.
  - now apply sinv_os_open.
  - intros x Hx. cbn [os_open s_open with_open]. rewrite zmem_zadd, zmem_zrem, (O x Hx).
    destruct (x =? fd); reflexivity.
Qed.

Lemma step_inv : forall nfd l t n o,
  Inv nfd l t n -> wf_op nfd t o = true -> fst (nd_step t n o) = true -> step_ok nfd l t n o.
Proof.
  intros nfd l t n o I Hwf Hp. destruct o as [d c fd|d c fd|d fd|fd|d fd|fd|fd].
  - now apply step_wait.
  - now apply step_waitt.
  - cbn [wf_op] in Hwf. cbn [nd_step fst] in Hp. apply step_ready; [exact I|lia|].
    destruct (waiters_on fd (negb d) t); [reflexivity|discriminate].
  - cbn [wf_op] in Hwf. apply step_del; [exact I|lia].
  - cbn [wf_op] in Hwf. cbn [nd_step fst] in Hp. apply negb_true_iff in Hp.
    apply step_deldir; [exact I|lia|]. unfold nreg. now destruct d.
  - cbn [wf_op] in Hwf. apply step_close; [exact I|lia].
  - now apply step_reopen.
Qed.

Lemma run_inv : forall nfd ops l t n,
  Inv nfd l t n -> wf_from nfd t ops = true -> nd_from t n ops = true ->
  ok_from t ops (fst (run_from l ops)) = true /\ l_ctags (snd (run_from l ops)) = l_ctags l.
Proof.
  intros nfd ops. induction ops as [|o ops IH]; intros l t n I Hwf Hp; [split; reflexivity|].
  cbn [wf_from] in Hwf. apply andb_true_iff in Hwf as [Hw1 Hw2].
  cbn [nd_from] in Hp. destruct (nd_step t n o) as [pk n1] eqn:Ep.
  apply andb_true_iff in Hp as [Hp1 Hp2].
  assert (Hp1' : fst (nd_step t n o) = true) by now rewrite Ep.
  destruct (step_inv nfd l t n o I Hw1 Hp1') as [A [B [C D]]].
  cbn [run_from]. destruct (step l o) as [l1 r] eqn:Es. cbn [fst snd] in *.
  destruct (run_from l1 ops) as [rs lf] eqn:Er. cbn [fst snd ok_from].
  destruct (ok_step t o r) as [k t1] eqn:Eo. cbn [fst snd] in *. subst k t1. cbn [andb].
  rewrite Ep in C. cbn [snd] in C.
  specialize (IH l1 (spec_step t o) n1 C Hw2 Hp2). rewrite Er in IH. cbn [fst snd] in IH.
  destruct IH as [IH1 IH2]. split; [exact IH1|]. now rewrite IH2.
Qed.

Lemma inv_init : forall nfd, 0 <= nfd -> Inv nfd (loop_init nfd) [] nd_init.
Proof.
  intros nfd Hn. constructor; cbn [loop_init l_sel l_sys l_cotok nd_init n_bind n_r n_w n_closed];
    try (intros; discriminate); try apply ukeys_nil; auto.
  - exact (proj1 (yinv_init nfd)).
  - intros fd Hfd. cbn [sel_init s_open zmem negb]. exact (zmem_fds nfd fd Hfd).
Qed.

Lemma holds_outside : forall nfd ops,
  wf_C20 nfd ops = true -> no_defect ops = true -> ok_C20 ops (run_C20 nfd ops) = true.
Proof.
  intros nfd ops Hwf Hp. unfold wf_C20 in Hwf. apply andb_true_iff in Hwf as [Hn Hwf].
  unfold ok_C20, run_C20. apply (run_inv nfd ops (loop_init nfd) [] nd_init); auto.
  apply inv_init. lia.
Qed.

(** the ghost tags of the two findings are raised on no history inside the premises *)
Lemma no_tag_outside : forall nfd ops,
  wf_C20 nfd ops = true -> no_defect ops = true -> fst (tags_C20 nfd ops) = [].
Proof.
  intros nfd ops Hwf Hp. unfold wf_C20 in Hwf. apply andb_true_iff in Hwf as [Hn Hwf].
  unfold tags_C20. cbn [fst].
  assert (I : Inv nfd (loop_init nfd) [] nd_init) by (apply inv_init; lia).
  destruct (run_inv nfd ops (loop_init nfd) [] nd_init I Hwf Hp) as [_ T]. exact T.
Qed.

(** * The oracle's readiness clause in words *)
Lemma same_set_spec : forall a b, same_set a b = true -> forall x, In x a <-> In x b.
Proof.
  assert (M : forall x l, zmem x l = true <-> In x l).
  { intros x l. induction l as [|y l IH]; cbn [zmem]; [split; [discriminate|intros []]|].
    rewrite orb_true_iff, IH, Z.eqb_eq. split; intros [H|H]; [left|right|left|right]; auto. }
  assert (S : forall a b, subset a b = true -> forall x, In x a -> In x b).
  { intros a b H x Hx. unfold subset in H. rewrite forallb_forall in H. apply M. now apply H. }
  intros a b H x. unfold same_set in H. apply andb_true_iff in H as [H1 H2].
  split; [apply (S a b H1)|apply (S b a H2)].
Qed.

Lemma ready_clause : forall t d fd tok hit woken t',
  ok_step t (Ready d fd) (OEvent tok hit woken) = (true, t') ->
  forall c, In c woken <-> In c (waiters_on fd d t).
Proof.
  intros t d fd tok hit woken t' H c. cbn [ok_step] in H. inversion H as [[H1 H2]].
  symmetry. now apply same_set_spec.
Qed.

Lemma ready_clause_noevent : forall t d fd t',
  ok_step t (Ready d fd) ONoEvent = (true, t') -> waiters_on fd d t = [].
Proof.
  intros t d fd t' H. cbn [ok_step] in H. destruct (waiters_on fd d t); [reflexivity|]. inversion H.
Qed.

Lemma wake_hits : forall t d fd tok hit woken t' c,
  ok_step t (Ready d fd) (OEvent tok hit woken) = (true, t') -> In (c, (fd, d)) t -> In c woken.
Proof.
  intros t d fd tok hit woken t' c H I. apply (ready_clause t d fd tok hit woken t' H c).
  apply waiters_on_spec. now exists fd, d.
Qed.

Lemma no_cross_wake : forall t d fd tok hit woken t' c,
  ok_step t (Ready d fd) (OEvent tok hit woken) = (true, t') -> In c woken ->
  exists f w, In (c, (f, w)) t /\ f = fd /\ w = d.
Proof.
  intros t d fd tok hit woken t' c H I. apply waiters_on_spec.
  now apply (ready_clause t d fd tok hit woken t' H c).
Qed.

Lemma no_event_no_waiter : forall t d fd t' c,
  ok_step t (Ready d fd) ONoEvent = (true, t') -> ~ In (c, (fd, d)) t.
Proof.
  intros t d fd t' c H I. pose proof (ready_clause_noevent t d fd t' H) as E.
  assert (X : In c (waiters_on fd d t)) by (apply waiters_on_spec; now exists fd, d).
  rewrite E in X. destruct X.
Qed.

(** * The recorded findings *)
Definition witness_missed : list op :=
  [WaitT false 13712591878437130464 2; Wait false 440535360 2; Ready false 2].
Definition witness_cross : list op :=
  [WaitT false 6297203254532200539 1; Wait false 6297203254532200539 2; Ready false 1].
Definition witness_one_token : list op :=
  [Wait true 13712591878437130464 1; Wait false 440535360 1; Ready true 1].

Lemma refuted_missed : exists nfd ops, wf_C20 nfd ops = true /\ ok_C20 ops (run_C20 nfd ops) = false.
Proof. exists 3, witness_missed. split; vm_compute; reflexivity. Qed.

Lemma refuted_cross : exists nfd ops, wf_C20 nfd ops = true /\ ok_C20 ops (run_C20 nfd ops) = false
  /\ run_C20 nfd ops = [ORegT true (Some (true, false, 6297203254532200539)) true;
                        OReg true (Some (true, false, 6297203254532200539));
                        OEvent 6297203254532200539 true [6297203254532200539]].
Proof. exists 3, witness_cross. repeat split; vm_compute; reflexivity. Qed.

Lemma refuted_one_token : exists nfd ops, wf_C20 nfd ops = true /\ ok_C20 ops (run_C20 nfd ops) = false
  /\ run_C20 nfd ops = [OReg true (Some (false, true, 13712591878437130464));
                        OReg true (Some (true, true, 440535360));
                        OEvent 440535360 true [440535360]]
  /\ fst (tags_C20 nfd ops) = [TagOneToken].
Proof. exists 2, witness_one_token. repeat split; vm_compute; reflexivity. Qed.

(** * Close and reuse of a descriptor number, after ANY history *)

Lemma run_from_app : forall ops1 ops2 l,
  fst (run_from l (ops1 ++ ops2)) = fst (run_from l ops1) ++ fst (run_from (snd (run_from l ops1)) ops2).
Proof.
  intros ops1. induction ops1 as [|o ops1 IH]; intros ops2 l; cbn [app run_from].
  - reflexivity.
  - destruct (step l o) as [l1 r]. specialize (IH ops2 l1).
    destruct (run_from l1 (ops1 ++ ops2)) as [rs lf]. destruct (run_from l1 ops1) as [rs1 lf1].
    cbn [fst snd] in *. now rewrite IH.
Qed.

(** what holds after every history, well-formed or not: the selector invariant, and a coroutine
    identity that was never used is not suspended *)
Definition rinv (c : Z) (l : loop) : Prop := sinv (l_sel l) /\ aget c (l_sys l) = None.

Lemma step_rinv : forall c l o, rinv c l ->
  match o with Wait _ c' _ | WaitT _ c' _ => negb (c' =? c) | _ => true end = true ->
  rinv c (fst (step l o)).
Proof.
  intros c l o [S N] F. unfold rinv. destruct (v_kern _ S) as [tb K]. destruct o as [d c' fd|d c' fd|d fd|fd|d fd|fd|fd]; cbn [step].
  - destruct (aget c' (l_sys l)); [now split|]. unfold begin_wait. apply negb_true_iff in F. rewrite Z.eqb_sym in F.
    destruct d.
    + destruct (add_write_spec _ tb S K fd c') as [ok [s' [E [S' _]]]]. rewrite E.
      destruct ok; cbn [fst with_sys l_sel l_sys]; split; auto. now rewrite aget_aset, F.
    + destruct (add_read_spec _ tb S K fd c') as [ok [s' [E [S' _]]]]. rewrite E.
      destruct ok; cbn [fst with_sys l_sel l_sys]; split; auto. now rewrite aget_aset, F.
  - destruct (aget c' (l_sys l)); [now split|]. unfold begin_wait.
    destruct d.
    + destruct (add_write_spec _ tb S K fd c') as [ok [s' [E [S' _]]]]. rewrite E. now split.
    + destruct (add_read_spec _ tb S K fd c') as [ok [s' [E [S' _]]]]. rewrite E. now split.
  - destruct (aget fd (tbl (l_sel l) 0)) as [e|]; [|now split].
    destruct (if d then k_w e else k_r e); [|now split].
    cbn [fst l_sel l_sys]. split; [now apply sinv_deliver|].
    destruct (zmem (decode (k_tok e)) (l_cotok l)); [|exact N].
    rewrite aget_arem, N. now destruct (c =? decode (k_tok e)).
  - destruct (el_del_event_spec _ tb fd S K) as [s' [E [S' _]]]. rewrite E.
    cbn [fst with_sys with_sel l_sel l_sys]. split; [exact S'|]. now rewrite aget_void_fd, N.
  - destruct d.
    + destruct (el_del_write_spec _ tb fd S K) as [s' [E [S' _]]]. rewrite E.
      cbn [fst with_sys with_sel l_sel l_sys]. split; [exact S'|]. now rewrite aget_void_dir, N.
    + destruct (el_del_read_spec _ tb fd S K) as [s' [E [S' _]]]. rewrite E.
      cbn [fst with_sys with_sel l_sel l_sys]. split; [exact S'|]. now rewrite aget_void_dir, N.
  - destruct (el_del_event_spec _ tb fd S K) as [s' [E [S' [_ [Rr [Rw _]]]]]]. rewrite E.
    cbn [fst with_sys with_sel l_sel l_sys]. split; [|now rewrite aget_void_fd, N].
    apply sinv_os_close; [exact S'| |].
    + rewrite Rr, remm_eq, Z.eqb_refl. reflexivity.
    + rewrite Rw, remm_eq, Z.eqb_refl. reflexivity.
  - cbn [fst with_sel l_sel l_sys]. split; [now apply sinv_os_open|exact N].
Qed.

Lemma run_rinv : forall c ops l, rinv c l -> fresh c ops = true -> rinv c (snd (run_from l ops)).
Proof.
  intros c ops. induction ops as [|o ops IH]; intros l I F; [exact I|].
  unfold fresh in F. cbn [forallb] in F. apply andb_true_iff in F as [F1 F2].
  cbn [run_from]. pose proof (step_rinv c l o I F1) as I1. destruct (step l o) as [l1 r]. cbn [fst] in I1.
  specialize (IH l1 I1 F2). destruct (run_from l1 ops) as [rs lf]. exact IH.
Qed.

Lemma add_fresh : forall s tb fd c (d : bool), sinv s -> s_kern s = [tb] -> zmem fd (s_open s) = true ->
  zmem fd (s_rrec s) = false -> zmem fd (s_wrec s) = false ->
  exists s', (if d then add_write_event s 0 fd c else add_read_event s 0 fd c) = (true, s')
             /\ aget fd (tbl s' 0) = Some {| k_r := negb d; k_w := d; k_tok := encode c |}.
Proof.
  intros s tb fd c d S K Op Er Ew.
  assert (G : aget fd tb = None).
  { rewrite <- (tbl_one s tb K). apply (absent_iff s fd S). now split. }
  destruct d; [unfold add_write_event|unfold add_read_event];
    rewrite (mark_id s fd S), Er, Ew; unfold register, k_add; rewrite (tbl_one s tb K), Op, G; cbn [negb];
    (eexists; split; [reflexivity|]);
    unfold tbl; cbn [s_kern with_r with_w with_tokfd with_tbl]; rewrite K; cbn [lset nth];
    now rewrite aget_aset, Z.eqb_refl.
Qed.

Lemma reuse_tail : forall l fd d c, sinv (l_sel l) -> aget c (l_sys l) = None -> 0 <= c < 2 ^ 64 ->
  exists b, fst (run_from l [Close fd; Reopen fd; Wait d c fd; Ready d fd])
            = [OClose b; OReopen; OReg true (Some (negb d, d, c)); OEvent c true [c]].
Proof.
  intros l fd d c S N Hc. destruct (v_kern _ S) as [tb K].
  destruct (el_del_event_spec _ tb fd S K) as [s1 [E [S1 [Ro [Rr [Rw _]]]]]].
  assert (N1 : zmem fd (s_rrec s1) = false) by (rewrite Rr, remm_eq, Z.eqb_refl; reflexivity).
  assert (N2 : zmem fd (s_wrec s1) = false) by (rewrite Rw, remm_eq, Z.eqb_refl; reflexivity).
  pose proof (sinv_os_open _ fd (sinv_os_close s1 fd S1 N1 N2)) as S3.
  set (s3 := os_open (os_close s1 fd) fd) in *.
  destruct (v_kern _ S3) as [tb3 K3].
  assert (Op : zmem fd (s_open s3) = true).
  { subst s3. cbn [os_open s_open with_open]. now rewrite zmem_zadd, Z.eqb_refl. }
  destruct (add_fresh s3 tb3 fd c d S3 K3 Op N1 N2) as [s4 [E4 G4]].
  assert (Enc : encode c = c).
  { unfold encode, W64. change (2 ^ 64) with 18446744073709551616 in Hc. apply Z.mod_small. lia. }
  exists (zmem fd (s_open s1)).
  cbn [run_from step]. rewrite E. cbn [with_sys with_sel l_sel l_sys l_cotok l_ctags].
  rewrite aget_void_fd, N. unfold begin_wait. cbn [with_sys with_sel l_sel l_sys l_cotok l_ctags]. fold s3.
  destruct d; rewrite E4; unfold kdata; cbn [with_sys l_sel l_sys l_cotok l_ctags]; rewrite !G4; cbn [k_r k_w k_tok negb];
    rewrite Enc; unfold decode, W64; change (2 ^ 64) with 18446744073709551616 in Hc;
    rewrite (Z.mod_small c) by lia; rewrite zmem_zadd, Z.eqb_refl; cbn [orb];
    rewrite aget_aset, Z.eqb_refl; reflexivity.
Qed.

Lemma reuse_wakes : forall nfd ops fd d c,
  0 <= c < 2 ^ 64 -> fresh c ops = true ->
  exists b, run_C20 nfd (ops ++ [Close fd; Reopen fd; Wait d c fd; Ready d fd])
            = run_C20 nfd ops ++ [OClose b; OReopen; OReg true (Some (negb d, d, c)); OEvent c true [c]].
Proof.
  intros nfd ops fd d c Hc F. unfold run_C20. rewrite run_from_app.
  assert (I0 : rinv c (loop_init nfd)).
  { split; [exact (proj1 (yinv_init nfd))|reflexivity]. }
  destruct (run_rinv c ops (loop_init nfd) I0 F) as [S N].
  destruct (reuse_tail _ fd d c S N Hc) as [b E]. exists b. now rewrite E.
Qed.
