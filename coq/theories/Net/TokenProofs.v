(** Proofs for C20. *)
From OCV Require Import Base.Prelude Net.Selector Net.SelectorLemmas Net.Token Net.TokenOracle.
From Coq Require Import ZifyBool ZifyNat.
Open Scope Z_scope.

Lemma roundtrip : forall t, 0 <= t < 2 ^ 64 -> decode (encode t) = t.
Proof.
  intros t H. unfold decode, encode, W64.
  change (2 ^ 64) with 18446744073709551616 in H.
  rewrite Z.mod_mod by lia. apply Z.mod_small. lia.
Qed.

(** * The selector with one poller and read interest only, against a binding coroutine <-> descriptor *)

Definition ent (c : Z) : kent := {| k_r := true; k_w := false; k_tok := encode c |}.

Record sel_ok (nfd : Z) (s : sel) (b : list (Z * Z)) : Prop := {
  so_kern : exists tb, s_kern s = [tb];
  so_wrec : s_wrec s = [];
  so_open : forall fd, 0 <= fd < nfd -> zmem fd (s_open s) = true;
  so_fwd : forall c fd, aget c b = Some fd -> aget fd (tbl s 0) = Some (ent c);
  so_bwd : forall fd e, aget fd (tbl s 0) = Some e -> exists c, aget c b = Some fd;
  so_rrec : forall fd, zmem fd (s_rrec s) = match aget fd (tbl s 0) with Some _ => true | None => false end
}.

Lemma sel_ok_ext : forall nfd s b b', (forall k, aget k b' = aget k b) -> sel_ok nfd s b -> sel_ok nfd s b'.
Proof.
  intros nfd s b b' E [K W O F B R]. constructor; auto.
  - intros c fd H. rewrite E in H. auto.
  - intros fd e H. destruct (B fd e H) as [c Hc]. exists c. now rewrite E.
Qed.

Lemma sel_ok_mark : forall nfd s b i fd, sel_ok nfd s b -> sel_ok nfd (mark s i fd) b.
Proof.
  intros nfd s b i fd H. unfold mark. destruct (coherent s i fd); [exact H|].
  destruct H as [K W O F B R]. constructor; auto.
Qed.

Lemma tbl0_with : forall s tb t, s_kern s = [tb] -> nth 0%nat (lset (s_kern s) 0 t) [] = t.
Proof. intros s tb t H. rewrite H. reflexivity. Qed.

Lemma add_read_ok : forall nfd s b c fd,
  sel_ok nfd s b -> 0 <= fd < nfd -> bound_ok b c fd = true ->
  exists s', add_read_event s 0 fd c = (true, s') /\ sel_ok nfd s' (aset c fd b)
             /\ aget fd (tbl s' 0) = Some (ent c).
Proof.
  intros nfd s0 b c fd H0 Hfd Hb. unfold add_read_event.
  pose proof (sel_ok_mark nfd s0 b 0%nat fd H0) as H. set (s := mark s0 0 fd) in *. clearbody s. clear H0 s0.
  destruct H as [K W O F B R].
  destruct (zmem fd (s_rrec s)) eqn:Er.
  - exists s. split; [reflexivity|]. rewrite R in Er.
    destruct (aget fd (tbl s 0)) as [k|] eqn:G; [|discriminate].
    destruct (B fd k G) as [c' Hc']. unfold bound_ok in Hb.
    destruct (aget c b) eqn:Gc.
    + apply Z.eqb_eq in Hb; subst z. split.
      * apply sel_ok_ext with (b := b); [|constructor; auto].
        intros k0. rewrite aget_aset. destruct (k0 =? c) eqn:E; [|reflexivity].
        apply Z.eqb_eq in E; subst. now rewrite Gc.
      * rewrite <- G. exact (F c fd Gc).
    + apply negb_true_iff in Hb. exfalso. exact (existsb_snd_false b fd Hb c' Hc').
  - rewrite W. cbn [zmem]. unfold register, k_add. rewrite (O fd Hfd). cbn [negb].
    rewrite R in Er. destruct (aget fd (tbl s 0)) eqn:G; [discriminate|].
    assert (Hc : aget c b = None /\ forall c', aget c' b <> Some fd).
    { unfold bound_ok in Hb. destruct (aget c b) eqn:Gc.
      - apply Z.eqb_eq in Hb; subst z. rewrite (F c fd Gc) in G. discriminate.
      - apply negb_true_iff in Hb. split; [reflexivity|]. exact (existsb_snd_false b fd Hb). }
    destruct Hc as [Hc1 Hc2].
    destruct K as [tb K].
    eexists. split; [reflexivity|].
    assert (T : forall x, aget x (tbl (with_r
                  (with_tokfd (with_tbl s 0 (aset fd (ent c) (tbl s 0))) (aset c fd (s_tokfd s)))
                  (zadd fd (s_rrec s)) (aset fd c (s_rtok s))) 0)
                = if x =? fd then Some (ent c) else aget x (tbl s 0)).
    { intros x. unfold tbl at 1. cbn [s_kern with_r with_tokfd with_tbl].
      rewrite (tbl0_with s tb _ K). apply aget_aset. }
    split; [constructor|].
    + exists (aset fd (ent c) (tbl s 0)). cbn [s_kern with_r with_tokfd with_tbl]. rewrite K. reflexivity.
    + exact W.
    + exact O.
    + intros c' fd' H'. rewrite T. rewrite aget_aset in H'.
      destruct (c' =? c) eqn:E.
      * apply Z.eqb_eq in E; subst c'. inversion H'; subst fd'. now rewrite Z.eqb_refl.
      * destruct (fd' =? fd) eqn:E2.
        -- apply Z.eqb_eq in E2; subst fd'. exfalso. exact (Hc2 c' H').
        -- exact (F c' fd' H').
    + intros fd' e H'. rewrite T in H'. destruct (fd' =? fd) eqn:E2.
      * apply Z.eqb_eq in E2; subst fd'. exists c. rewrite aget_aset. now rewrite Z.eqb_refl.
      * destruct (B fd' e H') as [c' Hc']. exists c'. rewrite aget_aset.
        destruct (c' =? c) eqn:E; [|exact Hc'].
        apply Z.eqb_eq in E; subst c'. congruence.
    + intros fd'. rewrite T. cbn [s_rrec with_r]. rewrite zmem_zadd, R.
      destruct (fd' =? fd); reflexivity.
    + rewrite T. now rewrite Z.eqb_refl.
Qed.

Lemma deliver_ok : forall nfd s b tok r w, sel_ok nfd s b -> sel_ok nfd (deliver s tok r w) b.
Proof.
  intros nfd s b tok r w [K W O F B R]. unfold deliver.
  destruct r, w; constructor; auto.
Qed.

Lemma deliver_tbl : forall s tok r w i, tbl (deliver s tok r w) i = tbl s i.
Proof. intros s tok r w i. unfold deliver. destruct r, w; reflexivity. Qed.

Lemma sel_ok_after_del : forall nfd s b fd sf tb,
  sel_ok nfd s b -> ukeys b -> s_kern s = [tb] ->
  s_kern sf = [arem fd tb] -> s_rrec sf = zrem fd (s_rrec s) -> s_wrec sf = [] -> s_open sf = s_open s ->
  sel_ok nfd sf (filter (fun p => negb (snd p =? fd)) b).
Proof.
  intros nfd s b fd sf tb [K W O F B R] Ub Ks E1 E3 E4 E2.
  assert (Tb : tbl s 0 = tb) by (unfold tbl; now rewrite Ks).
  assert (T : forall x, aget x (tbl sf 0) = if x =? fd then None else aget x (tbl s 0)).
  { intros x. unfold tbl at 1. rewrite E1. cbn [nth]. rewrite Tb. apply aget_arem. }
  constructor.
  - now exists (arem fd tb).
  - exact E4.
  - rewrite E2. exact O.
  - intros c fd' H'. rewrite T. rewrite (aget_filter_snd b fd c Ub) in H'.
    destruct (aget c b) as [f|] eqn:Gc; [|discriminate].
    destruct (f =? fd) eqn:Ef; [discriminate|]. inversion H'; subst fd'. rewrite Ef. exact (F c f Gc).
  - intros fd' e' H'. rewrite T in H'. destruct (fd' =? fd) eqn:Ef; [discriminate|].
    destruct (B fd' e' H') as [c Hc]. exists c. rewrite (aget_filter_snd b fd c Ub), Hc, Ef. reflexivity.
  - intros fd'. rewrite T, E3, zmem_zrem, R. destruct (fd' =? fd); reflexivity.
Qed.

Lemma del_ok : forall nfd s b fd,
  sel_ok nfd s b -> ukeys b -> 0 <= fd < nfd ->
  exists s', el_del_event s fd = (true, s') /\ sel_ok nfd s' (filter (fun p => negb (snd p =? fd)) b).
Proof.
  intros nfd s0 b fd H0 Ub Hfd. unfold el_del_event, loops.
  destruct (so_kern _ _ _ H0) as [tb0 K0]. rewrite K0. cbn [List.length all_loops].
  unfold del_event.
  pose proof (sel_ok_mark nfd s0 b 0%nat fd H0) as H. set (s := mark s0 0 fd) in *. clearbody s. clear H0 K0 tb0 s0.
  pose proof H as Hs. destruct H as [K W O F B R]. destruct K as [tb K].
  assert (Tb : tbl s 0 = tb) by (unfold tbl; now rewrite K).
  unfold del_event_core. rewrite W. cbn [zmem]. rewrite orb_false_r.
  destruct (zmem fd (s_rrec s)) eqn:Er.
  - rewrite R in Er. destruct (aget fd (tbl s 0)) as [e|] eqn:G; [|discriminate].
    assert (FIN : forall s1 tok, s_kern s1 = s_kern s -> s_open s1 = s_open s -> s_rrec s1 = s_rrec s ->
              s_wrec s1 = s_wrec s ->
              exists s', (let '(ok, s2) := deregister s1 0 fd tok in
                          if ok then (true, with_w (with_r s2 (zrem fd (s_rrec s2)) (s_rtok s2)) (zrem fd (s_wrec s2)) (s_wtok s2))
                          else (false, s2)) = (true, s')
                         /\ sel_ok nfd s' (filter (fun p => negb (snd p =? fd)) b)).
    { intros s1 tok E1 E2 E3 E4. unfold deregister, k_del. unfold tbl at 1. rewrite E1, E2.
      fold (tbl s 0). rewrite (O fd Hfd). cbn [negb]. rewrite G.
      eexists. split; [reflexivity|].
      apply (sel_ok_after_del nfd s b fd _ tb Hs Ub K).
      - cbn [s_kern with_w with_r with_tokfd with_tbl]. unfold tbl. rewrite E1, ?K. reflexivity.
      - cbn [s_rrec with_w with_r with_tokfd with_tbl]. now rewrite E3.
      - cbn [s_wrec with_w with_r with_tokfd with_tbl]. now rewrite E4, W.
      - cbn [s_open with_w with_r with_tokfd with_tbl]. exact E2. }
    destruct (aget fd (s_rtok s)) as [t1|]; [|destruct (aget fd (s_wtok s)) as [t2|]].
    + destruct (FIN (with_r s (s_rrec s) (arem fd (s_rtok s))) t1) as [s' [E S]]; try reflexivity.
      exists s'. rewrite E. split; [reflexivity|exact S].
    + destruct (FIN (with_w s [] (arem fd (s_wtok s))) t2) as [s' [E S]]; try reflexivity;
        try (cbn [s_wrec with_w]; now rewrite W).
      exists s'. rewrite E. split; [reflexivity|exact S].
    + destruct (FIN s 0) as [s' [E S]]; try reflexivity.
      exists s'. rewrite E. split; [reflexivity|exact S].
  - exists s. split; [reflexivity|].
    rewrite R in Er. destruct (aget fd (tbl s 0)) as [e|] eqn:G; [discriminate|].
    apply sel_ok_ext with (b := b); [|exact Hs].
    intros k. rewrite (aget_filter_snd b fd k Ub). destruct (aget k b) as [f|] eqn:Gk; [|reflexivity].
    destruct (f =? fd) eqn:Ef; [|reflexivity]. apply Z.eqb_eq in Ef; subst f.
    rewrite (F k fd Gk) in G. discriminate.
Qed.

(** * Tracker lemmas *)

Lemma arem_none : forall {V} k (l : list (Z * V)), aget k l = None -> arem k l = l.
Proof.
  intros V k l. induction l as [|[a b] l IH]; cbn [aget arem]; [reflexivity|].
  destruct (k =? a); [discriminate|]. intros H. now rewrite IH.
Qed.

Lemma aget_void_fd : forall fd c t,
  aget c (void_fd fd t) = match aget c t with Some f => Some (if f =? fd then VOID else f) | None => None end.
Proof.
  intros fd c t. induction t as [|[a f] t IH]; cbn [void_fd aget]; [reflexivity|].
  destruct (c =? a); [reflexivity|exact IH].
Qed.

Lemma keys_void_fd : forall fd t, map fst (void_fd fd t) = map fst t.
Proof. intros fd t. induction t as [|[a f] t IH]; cbn [void_fd map fst]; [reflexivity|]. now rewrite IH. Qed.

Lemma ukeys_void_fd : forall fd t, ukeys t -> ukeys (void_fd fd t).
Proof. intros fd t U. unfold ukeys. now rewrite keys_void_fd. Qed.

Lemma aget_head_notin : forall {V} a (l : list (Z * V)), ~ In a (map fst l) -> aget a l = None.
Proof.
  intros V a l H. destruct (aget a l) eqn:G; [|reflexivity].
  exfalso. apply H. apply aget_In in G. apply (in_map fst) in G. exact G.
Qed.

Lemma waiters_none : forall fd t, ukeys t -> (forall c, aget c t <> Some fd) -> waiters_on fd t = [].
Proof.
  intros fd t. unfold waiters_on. induction t as [|[a f] t IH]; intros U H; [reflexivity|].
  unfold ukeys in U. cbn [map fst] in U. inversion U as [|x xs Hn Hd]; subst.
  cbn [filter snd]. destruct (f =? fd) eqn:E.
  - exfalso. apply (H a). cbn [aget]. rewrite Z.eqb_refl. apply Z.eqb_eq in E. now subst.
  - apply IH; [exact Hd|]. intros c Hc. apply (H c). cbn [aget].
    destruct (c =? a) eqn:Eca; [|exact Hc].
    apply Z.eqb_eq in Eca; subst c. rewrite (aget_head_notin a t Hn) in Hc. discriminate.
Qed.

Lemma waiters_one : forall fd t c, ukeys t -> aget c t = Some fd ->
  (forall c', aget c' t = Some fd -> c' = c) -> waiters_on fd t = [c].
Proof.
  intros fd t c. unfold waiters_on. induction t as [|[a f] t IH]; intros U G H; [discriminate|].
  unfold ukeys in U. cbn [map fst] in U. inversion U as [|x xs Hn Hd]; subst.
  cbn [filter snd]. cbn [aget] in G. destruct (f =? fd) eqn:E.
  - apply Z.eqb_eq in E; subst f.
    assert (a = c). { apply H. cbn [aget]. now rewrite Z.eqb_refl. } subst a.
    cbn [map fst]. f_equal. apply (waiters_none fd t Hd).
    intros c' Hc'. assert (c' = c).
    { apply H. cbn [aget]. destruct (c' =? c) eqn:E'; [|exact Hc'].
      apply Z.eqb_eq in E'; subst c'. rewrite (aget_head_notin c t Hn) in Hc'. discriminate. }
    subst c'. rewrite (aget_head_notin c t Hn) in Hc'. discriminate.
  - destruct (c =? a) eqn:Eca.
    + inversion G; subst f. now rewrite Z.eqb_refl in E.
    + apply IH; [exact Hd|exact G|]. intros c' Hc'. apply H. cbn [aget].
      destruct (c' =? a) eqn:E'; [|exact Hc'].
      apply Z.eqb_eq in E'; subst c'. rewrite (aget_head_notin a t Hn) in Hc'. discriminate.
Qed.

(** * The invariant for paired histories *)

Record Inv (nfd : Z) (l : loop) (t b : list (Z * Z)) : Prop := {
  i_sel : sel_ok nfd (l_sel l) b;
  i_sys : l_sys l = t;
  i_ub : ukeys b;
  i_ut : ukeys t;
  i_inj : forall c1 c2 f, aget c1 b = Some f -> aget c2 b = Some f -> c1 = c2;
  i_live : forall c f, aget c t = Some f -> f <> VOID -> aget c b = Some f /\ zmem c (l_cotok l) = true;
  i_void : forall c, aget c t = Some VOID -> aget c b = None;
  i_rng : forall c f, aget c b = Some f -> 0 <= c < 2 ^ 64 /\ 0 <= f < nfd
}.

Lemma in_u64_range : forall c, in_u64 c = true -> 0 <= c < 2 ^ 64.
Proof.
  intros c H. unfold in_u64, U64MAX in H. change (2 ^ 64) with 18446744073709551616. lia.
Qed.

Lemma same_set_refl1 : forall c, same_set [c] [c] = true.
Proof. intros c. unfold same_set, subset. cbn. now rewrite Z.eqb_refl. Qed.

(** what the binding looks like after a wait *)
Lemma bind_wait : forall nfd l t b c fd,
  Inv nfd l t b -> in_u64 c = true -> 0 <= fd < nfd -> bound_ok b c fd = true ->
  ukeys (aset c fd b)
  /\ (forall c1 c2 f, aget c1 (aset c fd b) = Some f -> aget c2 (aset c fd b) = Some f -> c1 = c2)
  /\ (forall c' f, aget c' (aset c fd b) = Some f -> 0 <= c' < 2 ^ 64 /\ 0 <= f < nfd).
Proof.
  intros nfd l t b c fd I Hc Hfd Hb. destruct I as [S Y Ub Ut J L V R].
  assert (Hfree : forall c', c' <> c -> aget c' b <> Some fd).
  { intros c' Hne G. unfold bound_ok in Hb. destruct (aget c b) as [f0|] eqn:Gc.
    - apply Z.eqb_eq in Hb; subst f0. apply Hne. exact (J c' c fd G Gc).
    - apply negb_true_iff in Hb. exact (existsb_snd_false b fd Hb c' G). }
  split; [now apply ukeys_aset|]. split.
  - intros c1 c2 f H1 H2. rewrite aget_aset in H1, H2.
    destruct (c1 =? c) eqn:E1, (c2 =? c) eqn:E2.
    + apply Z.eqb_eq in E1, E2. congruence.
    + apply Z.eqb_eq in E1. apply Z.eqb_neq in E2. inversion H1; subst f. exfalso. exact (Hfree c2 E2 H2).
    + apply Z.eqb_eq in E2. apply Z.eqb_neq in E1. inversion H2; subst f. exfalso. exact (Hfree c1 E1 H1).
    + exact (J c1 c2 f H1 H2).
  - intros c' f H. rewrite aget_aset in H. destruct (c' =? c) eqn:E.
    + apply Z.eqb_eq in E; subst c'. inversion H; subst f. split; [now apply in_u64_range|exact Hfd].
    + exact (R c' f H).
Qed.

Lemma step_inv : forall nfd l t b o,
  Inv nfd l t b -> wf_op nfd t o = true -> fst (pair_step b o) = true ->
  fst (ok_step t o (snd (step l o))) = true
  /\ snd (ok_step t o (snd (step l o))) = spec_step t o
  /\ Inv nfd (fst (step l o)) (spec_step t o) (snd (pair_step b o)).
Proof.
  intros nfd l t b o I Hwf Hp. destruct o as [c fd|c fd|fd|fd]; cbn [wf_op pair_step fst snd spec_step] in *.
  - (* Wait *)
    apply andb_true_iff in Hwf as [Hwf Hn]. apply andb_true_iff in Hwf as [Hwf H3].
    apply andb_true_iff in Hwf as [Hc H2].
    assert (Hfd : 0 <= fd < nfd) by lia.
    destruct (aget c t) eqn:Gt; [discriminate|].
    destruct (bind_wait nfd l t b c fd I Hc Hfd Hp) as [Ub' [J' R']].
    destruct I as [S Y Ub Ut J L V R].
    destruct (add_read_ok nfd (l_sel l) b c fd S Hfd Hp) as [s' [E [S' G']]].
    cbn [step]. rewrite Y, Gt. unfold begin_wait. rewrite E. cbn [fst snd ok_step].
    split; [reflexivity|]. split; [reflexivity|].
    constructor; cbn [l_sel l_sys l_cotok]; auto.
    + now rewrite Y.
    + now apply ukeys_aset.
    + intros c' f H Hv. rewrite aget_aset in H. rewrite aget_aset, zmem_zadd.
      destruct (c' =? c) eqn:Ec.
      * inversion H; subst f. split; reflexivity.
      * destruct (L c' f H Hv) as [L1 L2]. split; [exact L1|]. rewrite L2. apply orb_true_r.
    + intros c' H. rewrite aget_aset in H. rewrite aget_aset. destruct (c' =? c) eqn:Ec.
      * inversion H. unfold VOID in *. lia.
      * exact (V c' H).
  - (* WaitT *)
    apply andb_true_iff in Hwf as [Hwf Hn]. apply andb_true_iff in Hwf as [Hwf H3].
    apply andb_true_iff in Hwf as [Hc H2].
    assert (Hfd : 0 <= fd < nfd) by lia.
    destruct (aget c t) eqn:Gt; [discriminate|].
    destruct (bind_wait nfd l t b c fd I Hc Hfd Hp) as [Ub' [J' R']].
    destruct I as [S Y Ub Ut J L V R].
    destruct (add_read_ok nfd (l_sel l) b c fd S Hfd Hp) as [s' [E [S' G']]].
    cbn [step]. rewrite Y, Gt. unfold begin_wait. rewrite E. cbn [fst snd ok_step].
    split; [reflexivity|]. split; [reflexivity|].
    constructor; cbn [l_sel l_sys l_cotok]; auto.
    + intros c' f H Hv. rewrite aget_aset, zmem_zadd.
      destruct (c' =? c) eqn:Ec.
      * apply Z.eqb_eq in Ec; subst c'. congruence.
      * destruct (L c' f H Hv) as [L1 L2]. split; [exact L1|]. rewrite L2. apply orb_true_r.
    + intros c' H. rewrite aget_aset. destruct (c' =? c) eqn:Ec.
      * apply Z.eqb_eq in Ec; subst c'. congruence.
      * exact (V c' H).
  - (* Ready *)
    assert (Hfd : 0 <= fd < nfd) by lia. clear Hwf Hp.
    destruct I as [S Y Ub Ut J L V R].
    assert (Hnv : fd <> VOID) by (unfold VOID; lia).
    cbn [step]. destruct (aget fd (tbl (l_sel l) 0)) as [e|] eqn:G.
    + destruct (so_bwd _ _ _ S fd e G) as [c Hc].
      pose proof (so_fwd _ _ _ S c fd Hc) as G2. rewrite G in G2. inversion G2; subst e. clear G2.
      cbn [k_r k_w k_tok ent]. destruct (R c fd Hc) as [Rc _].
      rewrite (roundtrip c Rc). rewrite Y.
      assert (Huniq : forall c', aget c' t = Some fd -> c' = c).
      { intros c' H. destruct (L c' fd H Hnv) as [L1 _]. exact (J c' c fd L1 Hc). }
      destruct (aget c t) as [f|] eqn:Gc.
      * (* c is suspended *)
        assert (f = fd).
        { destruct (Z.eq_dec f VOID) as [Ev|Ev].
          - subst f. rewrite (V c Gc) in Hc. discriminate.
          - destruct (L c f Gc Ev) as [L1 _]. congruence. }
        subst f. destruct (L c fd Gc Hnv) as [_ Lc]. rewrite Lc.
        cbn [fst snd ok_step]. rewrite (waiters_one fd t c Ut Gc Huniq).
        split; [apply same_set_refl1|]. split; [reflexivity|]. cbn [fold_left].
        constructor; cbn [l_sel l_sys l_cotok]; auto.
        -- now apply deliver_ok.
        -- now apply ukeys_arem.
        -- intros c' f H Hv. rewrite aget_arem in H. rewrite zmem_zrem.
           destruct (c' =? c) eqn:Ec; [discriminate|]. destruct (L c' f H Hv) as [L1 L2].
           split; [exact L1|]. now rewrite L2.
        -- intros c' H. rewrite aget_arem in H. destruct (c' =? c); [discriminate|]. exact (V c' H).
      * (* nobody waits on fd *)
        assert (Hw : waiters_on fd t = []).
        { apply (waiters_none fd t Ut). intros c' H. rewrite (Huniq c' H) in H. congruence. }
        assert (Hwk : (if zmem c (l_cotok l) then match @None Z with Some _ => [c] | None => [] end else []) = []).
        { destruct (zmem c (l_cotok l)); reflexivity. }
        cbn [fst snd ok_step]. rewrite Hw, Hwk. cbn [fold_left].
        split; [reflexivity|]. split; [reflexivity|].
        constructor; cbn [l_sel l_sys l_cotok]; auto.
        -- now apply deliver_ok.
        -- destruct (zmem c (l_cotok l)); [|reflexivity]. now apply arem_none.
        -- intros c' f H Hv. rewrite zmem_zrem. destruct (L c' f H Hv) as [L1 L2].
           split; [exact L1|]. rewrite L2. destruct (c' =? c) eqn:Ec; [|reflexivity].
           apply Z.eqb_eq in Ec; subst c'. congruence.
    + cbn [fst snd ok_step].
      assert (Hw : waiters_on fd t = []).
      { apply (waiters_none fd t Ut). intros c' H. destruct (L c' fd H Hnv) as [L1 _].
        rewrite (so_fwd _ _ _ S c' fd L1) in G. discriminate. }
      rewrite Hw. cbn [fold_left]. split; [reflexivity|]. split; [reflexivity|].
      constructor; auto.
  - (* Del *)
    assert (Hfd : 0 <= fd < nfd) by lia. clear Hwf Hp.
    destruct I as [S Y Ub Ut J L V R].
    assert (Hnv : fd <> VOID) by (unfold VOID; lia).
    destruct (del_ok nfd (l_sel l) b fd S Ub Hfd) as [s' [E S']].
    cbn [step]. rewrite E. cbn [fst snd ok_step]. split; [reflexivity|]. split; [reflexivity|].
    constructor; cbn [l_sel l_sys l_cotok]; auto.
    + now rewrite Y.
    + now apply ukeys_filter.
    + now apply ukeys_void_fd.
    + intros c1 c2 f H1 H2. rewrite (aget_filter_snd b fd c1 Ub) in H1. rewrite (aget_filter_snd b fd c2 Ub) in H2.
      destruct (aget c1 b) as [f1|] eqn:G1; [|discriminate]. destruct (aget c2 b) as [f2|] eqn:G2; [|discriminate].
      destruct (f1 =? fd); [discriminate|]. destruct (f2 =? fd); [discriminate|].
      inversion H1; inversion H2; subst. exact (J c1 c2 f G1 G2).
    + intros c f H Hv. rewrite aget_void_fd in H. destruct (aget c t) as [f0|] eqn:G0; [|discriminate].
      destruct (f0 =? fd) eqn:E0; inversion H; subst f; [congruence|].
      destruct (L c f0 G0 Hv) as [L1 L2]. split; [|exact L2].
      rewrite (aget_filter_snd b fd _ Ub), L1, E0. reflexivity.
    + intros c H. rewrite aget_void_fd in H. destruct (aget c t) as [f0|] eqn:G0; [|discriminate].
      rewrite (aget_filter_snd b fd _ Ub).
      destruct (f0 =? fd) eqn:E0.
      * apply Z.eqb_eq in E0; subst f0. destruct (L c fd G0 Hnv) as [L1 _]. rewrite L1, Z.eqb_refl. reflexivity.
      * inversion H; subst f0. now rewrite (V c G0).
    + intros c f H. rewrite (aget_filter_snd b fd _ Ub) in H.
      destruct (aget c b) as [f1|] eqn:G1; [|discriminate]. destruct (f1 =? fd); [discriminate|].
      inversion H; subst. exact (R c f G1).
Qed.

Lemma run_inv : forall nfd ops l t b,
  Inv nfd l t b -> wf_from nfd t ops = true -> paired_from b ops = true ->
  ok_from t ops (fst (run_from l ops)) = true.
Proof.
  intros nfd ops. induction ops as [|o ops IH]; intros l t b I Hwf Hp; [reflexivity|].
  cbn [wf_from] in Hwf. apply andb_true_iff in Hwf as [Hw1 Hw2].
  cbn [paired_from] in Hp. destruct (pair_step b o) as [pk b1] eqn:Ep.
  apply andb_true_iff in Hp as [Hp1 Hp2].
  assert (Hp1' : fst (pair_step b o) = true) by now rewrite Ep.
  destruct (step_inv nfd l t b o I Hw1 Hp1') as [A [B C]].
  cbn [run_from]. destruct (step l o) as [l1 r] eqn:Es. cbn [fst snd] in *.
  destruct (run_from l1 ops) as [rs lf] eqn:Er. cbn [fst ok_from].
  destruct (ok_step t o r) as [k t1] eqn:Eo. cbn [fst snd] in *. subst k t1. cbn [andb].
  rewrite Ep in C. cbn [snd] in C.
  specialize (IH l1 (spec_step t o) b1 C Hw2 Hp2). now rewrite Er in IH.
Qed.

Lemma inv_init : forall nfd, 0 <= nfd -> Inv nfd (loop_init nfd) [] [].
Proof.
  intros nfd Hn. constructor; cbn [loop_init l_sel l_sys l_cotok]; try (intros; discriminate); try apply ukeys_nil; auto.
  constructor; cbn [sel_init s_kern s_wrec s_open s_rrec repeat]; try (intros; discriminate); auto.
  - now exists [].
  - intros fd Hfd.
    assert (G : forall n k, (Z.to_nat fd < k + n)%nat -> (k <= Z.to_nat fd)%nat ->
              zmem fd (map Z.of_nat (seq k n)) = true).
    { intros n. induction n as [|n IHn]; intros k H1 H2; [lia|].
      cbn [seq map zmem]. destruct (fd =? Z.of_nat k) eqn:E; [reflexivity|]. cbn [orb].
      apply IHn; lia. }
    apply G; lia.
Qed.

Lemma holds_outside : forall nfd ops,
  wf_C20 nfd ops = true -> paired ops = true -> ok_C20 ops (run_C20 nfd ops) = true.
Proof.
  intros nfd ops Hwf Hp. unfold wf_C20 in Hwf. apply andb_true_iff in Hwf as [Hn Hwf].
  unfold ok_C20, run_C20. apply (run_inv nfd ops (loop_init nfd) [] []); auto.
  apply inv_init. lia.
Qed.

(** the oracle's readiness clause in words *)
Lemma same_set_spec : forall a b, same_set a b = true -> forall x, In x a <-> In x b.
Proof.
  assert (M : forall x l, zmem x l = true <-> In x l).
  { intros x l. induction l as [|y l IH]; cbn [zmem]; [split; [discriminate|intros []]|].
    rewrite orb_true_iff, IH, Z.eqb_eq. split; intros [H|H]; [left|right|left|right]; auto. }
  assert (S : forall a b, subset a b = true -> forall x, In x a -> In x b).
  { intros a b H x Hx. unfold subset in H. rewrite forallb_forall in H. apply M. now apply H. }
  intros a b H x. unfold same_set in H. apply andb_true_iff in H as [H1 H2].
  split; [apply (S a b H1)|apply (S b a H2)].
Qed.

Lemma ready_clause : forall t fd tok hit woken t',
  ok_step t (Ready fd) (OEvent tok hit woken) = (true, t') ->
  forall c, In c woken <-> In c (waiters_on fd t).
Proof.
  intros t fd tok hit woken t' H c. cbn [ok_step] in H. inversion H as [[H1 H2]].
  symmetry. now apply same_set_spec.
Qed.

Lemma ready_clause_noevent : forall t fd t',
  ok_step t (Ready fd) ONoEvent = (true, t') -> waiters_on fd t = [].
Proof.
  intros t fd t' H. cbn [ok_step] in H. destruct (waiters_on fd t); [reflexivity|]. inversion H.
Qed.

(** the recorded finding: a registration outlives the wait that made it *)
Definition witness_missed : list op := [WaitT 13712591878437130464 1; Wait 440535360 1; Ready 1].
Definition witness_cross : list op :=
  [WaitT 6297203254532200539 0; Wait 6297203254532200539 1; Ready 0].

Lemma refuted_missed : exists nfd ops, wf_C20 nfd ops = true /\ ok_C20 ops (run_C20 nfd ops) = false.
Proof. exists 2, witness_missed. split; vm_compute; reflexivity. Qed.

Lemma refuted_cross : exists nfd ops, wf_C20 nfd ops = true /\ ok_C20 ops (run_C20 nfd ops) = false
  /\ run_C20 nfd ops = [ORegT true (Some 6297203254532200539) true; OReg true (Some 6297203254532200539);
                        OEvent 6297203254532200539 true [6297203254532200539]].
Proof. exists 2, witness_cross. repeat split; vm_compute; reflexivity. Qed.

Lemma wake_hits : forall t fd tok hit woken t' c,
  ok_step t (Ready fd) (OEvent tok hit woken) = (true, t') -> In c (waiters_on fd t) -> In c woken.
Proof. intros t fd tok hit woken t' c H. now apply (ready_clause t fd tok hit woken t' H c). Qed.

Lemma no_cross_wake : forall t fd tok hit woken t' c,
  ok_step t (Ready fd) (OEvent tok hit woken) = (true, t') -> In c woken -> In c (waiters_on fd t).
Proof. intros t fd tok hit woken t' c H. now apply (ready_clause t fd tok hit woken t' H c). Qed.
