(** Proofs for C20. *)
From OCV Require Import Base.Prelude Net.Selector Net.SelectorLemmas Net.Token Net.TokenOracle.
From Coq Require Import ZifyBool ZifyNat.
Open Scope Z_scope.

Lemma roundtrip : forall t, 0 <= t < 2 ^ 64 -> decode (encode t) = t.
Proof.
  intros t H. unfold decode, encode, W64.
  change (2 ^ 64) with 18446744073709551616 in H.
  rewrite Z.mod_mod by lia. apply Z.mod_small. lia.
Qed.

(** * The selector with one poller and read interest only, against a binding coroutine <-> descriptor *)

Definition ent (c : Z) : kent := {| k_r := true; k_w := false; k_tok := encode c |}.

Record sel_ok (nfd : Z) (s : sel) (b : list (Z * Z)) : Prop := {
  so_kern : exists tb, s_kern s = [tb];
  so_wrec : s_wrec s = [];
  so_open : forall fd, 0 <= fd < nfd -> zmem fd (s_open s) = true;
  so_fwd : forall c fd, aget c b = Some fd -> aget fd (tbl s 0) = Some (ent c);
  so_bwd : forall fd e, aget fd (tbl s 0) = Some e -> exists c, aget c b = Some fd;
  so_rrec : forall fd, zmem fd (s_rrec s) = match aget fd (tbl s 0) with Some _ => true | None => false end
}.

Lemma sel_ok_ext : forall nfd s b b', (forall k, aget k b' = aget k b) -> sel_ok nfd s b -> sel_ok nfd s b'.
Proof.
  intros nfd s b b' E [K W O F B R]. constructor; auto.
  - intros c fd H. rewrite E in H. auto.
  - intros fd e H. destruct (B fd e H) as [c Hc]. exists c. now rewrite E.
Qed.

Lemma sel_ok_mark : forall nfd s b i fd, sel_ok nfd s b -> sel_ok nfd (mark s i fd) b.
Proof.
  intros nfd s b i fd H. unfold mark. destruct (coherent s i fd); [exact H|].
  destruct H as [K W O F B R]. constructor; auto.
Qed.

Lemma tbl0_with : forall s tb t, s_kern s = [tb] -> nth 0%nat (lset (s_kern s) 0 t) [] = t.
Proof. intros s tb t H. rewrite H. reflexivity. Qed.

Lemma add_read_ok : forall nfd s b c fd,
  sel_ok nfd s b -> 0 <= fd < nfd -> bound_ok b c fd = true ->
  exists s', add_read_event s 0 fd c = (true, s') /\ sel_ok nfd s' (aset c fd b)
             /\ aget fd (tbl s' 0) = Some (ent c).
Proof.
  intros nfd s0 b c fd H0 Hfd Hb. unfold add_read_event.
  pose proof (sel_ok_mark nfd s0 b 0%nat fd H0) as H. set (s := mark s0 0 fd) in *. clearbody s. clear H0 s0.
  destruct H as [K W O F B R].
  destruct (zmem fd (s_rrec s)) eqn:Er.
  - exists s. split; [reflexivity|]. rewrite R in Er.
    destruct (aget fd (tbl s 0)) as [k|] eqn:G; [|discriminate].
    destruct (B fd k G) as [c' Hc']. unfold bound_ok in Hb.
    destruct (aget c b) eqn:Gc.
    + apply Z.eqb_eq in Hb; subst z. split.
      * apply sel_ok_ext with (b := b); [|constructor; auto].
        intros k0. rewrite aget_aset. destruct (k0 =? c) eqn:E; [|reflexivity].
        apply Z.eqb_eq in E; subst. now rewrite Gc.
      * rewrite <- G. exact (F c fd Gc).
    + apply negb_true_iff in Hb. exfalso. exact (existsb_snd_false b fd Hb c' Hc').
  - rewrite W. cbn [zmem]. unfold register, k_add. rewrite (O fd Hfd). cbn [negb].
    rewrite R in Er. destruct (aget fd (tbl s 0)) eqn:G; [discriminate|].
    assert (Hc : aget c b = None /\ forall c', aget c' b <> Some fd).
    { unfold bound_ok in Hb. destruct (aget c b) eqn:Gc.
      - apply Z.eqb_eq in Hb; subst z. rewrite (F c fd Gc) in G. discriminate.
      - apply negb_true_iff in Hb. split; [reflexivity|]. exact (existsb_snd_false b fd Hb). }
    destruct Hc as [Hc1 Hc2].
    destruct K as [tb K].
    eexists. split; [reflexivity|].
    assert (T : forall x, aget x (tbl (with_r
                  (with_tokfd (with_tbl s 0 (aset fd (ent c) (tbl s 0))) (aset c fd (s_tokfd s)))
                  (zadd fd (s_rrec s)) (aset fd c (s_rtok s))) 0)
                = if x =? fd then Some (ent c) else aget x (tbl s 0)).
    { intros x. unfold tbl at 1. cbn [s_kern with_r with_tokfd with_tbl].
      rewrite (tbl0_with s tb _ K). apply aget_aset. }
    split; [constructor|].
    + exists (aset fd (ent c) (tbl s 0)). cbn [s_kern with_r with_tokfd with_tbl]. rewrite K. reflexivity.
    + exact W.
    + exact O.
    + intros c' fd' H'. rewrite T. rewrite aget_aset in H'.
      destruct (c' =? c) eqn:E.
      * apply Z.eqb_eq in E; subst c'. inversion H'; subst fd'. now rewrite Z.eqb_refl.
      * destruct (fd' =? fd) eqn:E2.
        -- apply Z.eqb_eq in E2; subst fd'. exfalso. exact (Hc2 c' H').
        -- exact (F c' fd' H').
    + intros fd' e H'. rewrite T in H'. destruct (fd' =? fd) eqn:E2.
      * apply Z.eqb_eq in E2; subst fd'. exists c. rewrite aget_aset. now rewrite Z.eqb_refl.
      * destruct (B fd' e H') as [c' Hc']. exists c'. rewrite aget_aset.
        destruct (c' =? c) eqn:E; [|exact Hc'].
        apply Z.eqb_eq in E; subst c'. congruence.
    + intros fd'. rewrite T. cbn [s_rrec with_r]. rewrite zmem_zadd, R.
      destruct (fd' =? fd); reflexivity.
    + rewrite T. now rewrite Z.eqb_refl.
Qed.

Lemma deliver_ok : forall nfd s b tok r w, sel_ok nfd s b -> sel_ok nfd (deliver s tok r w) b.
Proof.
  intros nfd s b tok r w [K W O F B R]. unfold deliver.
  destruct r, w; constructor; auto.
Qed.

Lemma deliver_tbl : forall s tok r w i, tbl (deliver s tok r w) i = tbl s i.
Proof. intros s tok r w i. unfold deliver. destruct r, w; reflexivity. Qed.

Lemma sel_ok_after_del : forall nfd s b fd sf tb,
  sel_ok nfd s b -> ukeys b -> s_kern s = [tb] ->
  s_kern sf = [arem fd tb] -> s_rrec sf = zrem fd (s_rrec s) -> s_wrec sf = [] -> s_open sf = s_open s ->
  sel_ok nfd sf (filter (fun p => negb (snd p =? fd)) b).
Proof.
  intros nfd s b fd sf tb [K W O F B R] Ub Ks E1 E3 E4 E2.
  assert (Tb : tbl s 0 = tb) by (unfold tbl; now rewrite Ks).
  assert (T : forall x, aget x (tbl sf 0) = if x =? fd then None else aget x (tbl s 0)).
  { intros x. unfold tbl at 1. rewrite E1. cbn [nth]. rewrite Tb. apply aget_arem. }
  constructor.
  - now exists (arem fd tb).
  - exact E4.
  - rewrite E2. exact O.
  - intros c fd' H'. rewrite T. rewrite (aget_filter_snd b fd c Ub) in H'.
    destruct (aget c b) as [f|] eqn:Gc; [|discriminate].
    destruct (f =? fd) eqn:Ef; [discriminate|]. inversion H'; subst fd'. rewrite Ef. exact (F c f Gc).
  - intros fd' e' H'. rewrite T in H'. destruct (fd' =? fd) eqn:Ef; [discriminate|].
    destruct (B fd' e' H') as [c Hc]. exists c. rewrite (aget_filter_snd b fd c Ub), Hc, Ef. reflexivity.
  - intros fd'. rewrite T, E3, zmem_zrem, R. destruct (fd' =? fd); reflexivity.
Qed.

Lemma del_ok : forall nfd s b fd,
  sel_ok nfd s b -> ukeys b -> 0 <= fd < nfd ->
  exists s', el_del_event s fd = (true, s') /\ sel_ok nfd s' (filter (fun p => negb (snd p =? fd)) b).
Proof.
  intros nfd s0 b fd H0 Ub Hfd. unfold el_del_event, loops.
  destruct (so_kern _ _ _ H0) as [tb0 K0]. rewrite K0. cbn [List.length all_loops].
  unfold del_event.
  pose proof (sel_ok_mark nfd s0 b 0%nat fd H0) as H. set (s := mark s0 0 fd) in *. clearbody s. clear H0 K0 tb0 s0.
  pose proof H as Hs. destruct H as [K W O F B R]. destruct K as [tb K].
  assert (Tb : tbl s 0 = tb) by (unfold tbl; now rewrite K).
  unfold del_event_core. rewrite W. cbn [zmem]. rewrite orb_false_r.
  destruct (zmem fd (s_rrec s)) eqn:Er.
  - rewrite R in Er. destruct (aget fd (tbl s 0)) as [e|] eqn:G; [|discriminate].
    assert (FIN : forall s1 tok, s_kern s1 = s_kern s -> s_open s1 = s_open s -> s_rrec s1 = s_rrec s ->
              s_wrec s1 = s_wrec s ->
              exists s', (let '(ok, s2) := deregister s1 0 fd tok in
                          if ok then (true, with_w (with_r s2 (zrem fd (s_rrec s2)) (s_rtok s2)) (zrem fd (s_wrec s2)) (s_wtok s2))
                          else (false, s2)) = (true, s')
                         /\ sel_ok nfd s' (filter (fun p => negb (snd p =? fd)) b)).
    { intros s1 tok E1 E2 E3 E4. unfold deregister, k_del. unfold tbl at 1. rewrite E1, E2.
      fold (tbl s 0). rewrite (O fd Hfd). cbn [negb]. rewrite G.
      eexists. split; [reflexivity|].
      apply (sel_ok_after_del nfd s b fd _ tb Hs Ub K).
      - cbn [s_kern with_w with_r with_tokfd with_tbl]. unfold tbl. rewrite E1, ?K. reflexivity.
      - cbn [s_rrec with_w with_r with_tokfd with_tbl]. now rewrite E3.
      - cbn [s_wrec with_w with_r with_tokfd with_tbl]. now rewrite E4, W.
      - cbn [s_open with_w with_r with_tokfd with_tbl]. exact E2. }
    destruct (aget fd (s_rtok s)) as [t1|]; [|destruct (aget fd (s_wtok s)) as [t2|]].
    + destruct (FIN (with_r s (s_rrec s) (arem fd (s_rtok s))) t1) as [s' [E S]]; try reflexivity.
      exists s'. rewrite E. split; [reflexivity|exact S].
    + destruct (FIN (with_w s [] (arem fd (s_wtok s))) t2) as [s' [E S]]; try reflexivity;
        try (cbn [s_wrec with_w]; now rewrite W).
      exists s'. rewrite E. split; [reflexivity|exact S].
    + destruct (FIN s 0) as [s' [E S]]; try reflexivity.
      exists s'. rewrite E. split; [reflexivity|exact S].
  - exists s. split; [reflexivity|].
    rewrite R in Er. destruct (aget fd (tbl s 0)) as [e|] eqn:G; [discriminate|].
    apply sel_ok_ext with (b := b); [|exact Hs].
    intros k. rewrite (aget_filter_snd b fd k Ub). destruct (aget k b) as [f|] eqn:Gk; [|reflexivity].
    destruct (f =? fd) eqn:Ef; [|reflexivity]. apply Z.eqb_eq in Ef; subst f.
    rewrite (F k fd Gk) in G. discriminate.
Qed.

(** * Tracker lemmas *)

Lemma arem_none : forall {V} k (l : list (Z * V)), aget k l = None -> arem k l = l.
Proof.
  intros V k l. induction l as [|[a b] l IH]; cbn [aget arem]; [reflexivity|].
  destruct (k =? a); [discriminate|]. intros H. now rewrite IH.
Qed.

Lemma aget_void_fd : forall fd c t,
  aget c (void_fd fd t) = match aget c t with Some f => Some (if f =? fd then VOID else f) | None => None end.
Proof.
  intros fd c t. induction t as [|[a f] t IH]; cbn [void_fd aget]; [reflexivity|].
  destruct (c =? a); [reflexivity|exact IH].
Qed.

Lemma keys_void_fd : forall fd t, map fst (void_fd fd t) = map fst t.
Proof. intros fd t. induction t as [|[a f] t IH]; cbn [void_fd map fst]; [reflexivity|]. now rewrite IH. Qed.

Lemma ukeys_void_fd : forall fd t, ukeys t -> ukeys (void_fd fd t).
Proof. intros fd t U. unfold ukeys. now rewrite keys_void_fd. Qed.

Lemma aget_head_notin : forall {V} a (l : list (Z * V)), ~ In a (map fst l) -> aget a l = None.
Proof.
  intros V a l H. destruct (aget a l) eqn:G; [|reflexivity].
  exfalso. apply H. apply aget_In in G. apply (in_map fst) in G. exact G.
Qed.

Lemma waiters_none : forall fd t, ukeys t -> (forall c, aget c t <> Some fd) -> waiters_on fd t = [].
Proof.
  intros fd t. unfold waiters_on. induction t as [|[a f] t IH]; intros U H; [reflexivity|].
  unfold ukeys in U. cbn [map fst] in U. inversion U as [|x xs Hn Hd]; subst.
  cbn [filter snd]. destruct (f =? fd) eqn:E.
  - exfalso. apply (H a). cbn [aget]. rewrite Z.eqb_refl. apply Z.eqb_eq in E. now subst.
  - apply IH; [exact Hd|]. intros c Hc. apply (H c). cbn [aget].
    destruct (c =? a) eqn:Eca; [|exact Hc].
    apply Z.eqb_eq in Eca; subst c. rewrite (aget_head_notin a t Hn) in Hc. discriminate.
Qed.

Lemma waiters_one : forall fd t c, ukeys t -> aget c t = Some fd ->
  (forall c', aget c' t = Some fd -> c' = c) -> waiters_on fd t = [c].
Proof.
  intros fd t c. unfold waiters_on. induction t as [|[a f] t IH]; intros U G H; [discriminate|].
  unfold ukeys in U. cbn [map fst] in U. inversion U as [|x xs Hn Hd]; subst.
  cbn [filter snd]. cbn [aget] in G. destruct (f =? fd) eqn:E.
  - apply Z.eqb_eq in E; subst f.
    assert (a = c). { apply H. cbn [aget]. now rewrite Z.eqb_refl. } subst a.
    cbn [map fst]. f_equal. apply (waiters_none fd t Hd).
    intros c' Hc'. assert (c' = c).
    { apply H. cbn [aget]. destruct (c' =? c) eqn:E'; [|exact Hc'].
      apply Z.eqb_eq in E'; subst c'. rewrite (aget_head_notin c t Hn) in Hc'. discriminate. }
    subst c'. rewrite (aget_head_notin c t Hn) in Hc'. discriminate.
  - destruct (c =? a) eqn:Eca.
    + inversion G; subst f. now rewrite Z.eqb_refl in E.
    + apply IH; [exact Hd|exact G|]. intros c' Hc'. apply H. cbn [aget].
      destruct (c' =? a) eqn:E'; [|exact Hc'].
      apply Z.eqb_eq in E'; subst c'. rewrite (aget_head_notin a t Hn) in Hc'. discriminate.
Qed.
