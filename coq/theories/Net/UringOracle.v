(** Observations of a C27 case, the model run producing them, and the property as an executable
    oracle over observed results. The oracle knows the case (descriptors, programs, script) and the
    kernel specification ([classify], the byte streams); it never runs the runtime model. *)
From OCV Require Import Base.Prelude Net.Uring.
Open Scope Z_scope.

Inductive oend :=
| EndOk (lefts : list Z) (sink : list (list Z))   (* unread bytes per descriptor; bytes that reached the peers *)
| EndAborted                                      (* the process died *)
| EndStuck.                                       (* some caller never came back *)

Record obs := { o_calls : list (list result); o_end : oend }.

(** ** equality of observations *)
Definition result_eqb (a b : result) : bool :=
  match a, b with
  | RRet n x, RRet m y => (n =? m) && list_eqb Z.eqb x y
  | RErr e, RErr f => e =? f
  | _, _ => false
  end.
Definition oend_eqb (a b : oend) : bool :=
  match a, b with
  | EndOk l s, EndOk l' s' => list_eqb Z.eqb l l' && list_eqb (list_eqb Z.eqb) s s'
  | EndAborted, EndAborted => true
  | EndStuck, EndStuck => true
  | _, _ => false
  end.
Definition obs_eqb (a b : obs) : bool :=
  list_eqb (list_eqb result_eqb) (o_calls a) (o_calls b) && oend_eqb (o_end a) (o_end b).

(** ** the model run *)
Definition left_of (rs : rstate) : Z := if readable (r_kind rs) then r_avail rs else 0.
Definition has_sink (rs : rstate) : bool :=
  match r_kind rs with KPipeW | KSock => negb (r_eof rs) | _ => false end.
Fixpoint sinks (i : nat) (l : list rstate) : list (list Z) :=
  match l with
  | [] => []
  | rs :: l' => (if has_sink rs then stream i 0 (r_wrote rs) else []) :: sinks (S i) l'
  end.

Definition obs_of (st : state) : obs :=
  {| o_calls := map (fun k => rev (k_out k)) (s_callers st);
     o_end := match s_dead st with
              | Some DAbort => EndAborted
              | Some DWedge => EndStuck
              | None => if s_div st then EndStuck else EndOk (map left_of (s_res st)) (sinks O (s_res st))
              end |}.

Definition run_C27 (rs : list rspec) (cs : list cspec) (script : list ev) : obs :=
  obs_of (run_state rs cs script).

Definition tag_eqb (a b : tag) : bool :=
  match a, b with TTimeout, TTimeout => true end.
Definition tags_C27 (rs : list rspec) (cs : list cspec) (script : list ev) : list tag :=
  s_tags (run_state rs cs script).

(** ** the oracle *)

Definition calls_of (p : list call) : list call := p.

Definition rsdummy : rspec := {| rs_kind := KClosed; rs_pre := 0; rs_eof := false; rs_timed := false |}.

(** per descriptor: bytes taken from its stream by the calls checked so far, bytes written *)
Definition track := list (Z * Z).
Definition tr_get (t : track) (r : nat) : Z * Z := nth r t (0, 0).

(** one call against what it handed back: the answer of its own request, nothing else.
    [pre]: bytes the descriptor can ever deliver when its peer is closed. *)
Definition chk_call (rs : list rspec) (co : bool) (t : track) (c : call) (x : result) : option track :=
  let r := c_res c in
  let sp := nth r rs rsdummy in
  let '(taken, wrote) := tr_get t r in
  match classify (rs_kind sp) (c_op c), x with
  | CErr e, RErr e' => if e =? e' then Some t else None
  | CRead, RRet n bytes =>
      if (0 <=? n) && (n <=? c_len c) && list_eqb Z.eqb bytes (stream r taken n)
         && ((0 <? n) || (rs_eof sp && (taken =? rs_pre sp)))
      then Some (upd r (taken + n, wrote) t) else None
  | CRead, RErr e =>
      (* a coroutine on a socket with a receive time limit may report that the limit passed *)
      if (e =? ETIMEDOUT) && co && rs_timed sp then Some t else None
  | CWrite, RRet n bytes =>
      if negb (rs_eof sp) && (n =? c_len c) && list_eqb Z.eqb bytes [] then Some (upd r (taken, wrote + n) t) else None
  | CWrite, RErr e => if rs_eof sp && (e =? EPIPE) then Some t else None
  | _, _ => None
  end.

Fixpoint chk_calls (rs : list rspec) (co : bool) (t : track) (cs : list call) (xs : list result) : option track :=
  match cs, xs with
  | [], [] => Some t
  | c :: cs', x :: xs' =>
      match chk_call rs co t c x with
      | Some t' => chk_calls rs co t' cs' xs'
      | None => None
      end
  | _, _ => None          (* a call without a result, or a result without a call *)
  end.

Definition started (script : list ev) (c : nat) : bool :=
  existsb (fun e => match e with EStart c' => Nat.eqb c c' | _ => false end) script.

Definition feeds_of (rs : list rspec) (script : list ev) (r : nat) : Z :=
  let sp := nth r rs rsdummy in
  if feedable (rs_kind sp) (rs_eof sp) then
    fold_right (fun e a => match e with EFeed r' n _ => if Nat.eqb r r' && (0 <=? n) then n + a else a | _ => a end) 0 script
  else 0.

Definition zero_track (rs : list rspec) : track := map (fun _ => (0, 0)) rs.

(** every caller against its results; gives each caller's tracker *)
Fixpoint chk_callers (rs : list rspec) (script : list ev) (i : nat) (cs : list cspec) (outs : list (list result))
  : option (list track) :=
  match cs, outs with
  | [], [] => Some []
  | c :: cs', o :: outs' =>
      let expected := if started script i then calls_of (cs_prog c) else [] in
      match chk_calls rs (cs_co c) (zero_track rs) expected o with
      | Some t => match chk_callers rs script (S i) cs' outs' with Some ts => Some (t :: ts) | None => None end
      | None => None
      end
  | _, _ => None
  end.

Definition sum_cons (ts : list track) (r : nat) : Z := sumZ (map (fun t => fst (tr_get t r)) ts).
Definition sum_wrote (ts : list track) (r : nat) : Z := sumZ (map (fun t => snd (tr_get t r)) ts).

(** at the end: nothing the descriptors delivered is missing (taken by the calls + still unread =
    preloaded + fed), and the peers of the written descriptors hold exactly what the calls wrote *)
Fixpoint chk_end (rs : list rspec) (script : list ev) (ts : list track) (r : nat) (specs : list rspec)
  (lefts : list Z) (sink : list (list Z)) : bool :=
  match specs, lefts, sink with
  | [], [], [] => true
  | sp :: specs', l :: left', s :: sink' =>
      (if readable (rs_kind sp) then sum_cons ts r + l =? rs_pre sp + feeds_of rs script r else l =? 0)
      && list_eqb Z.eqb s
           (match rs_kind sp with
            | KPipeW | KSock => if rs_eof sp then [] else stream r 0 (sum_wrote ts r)
            | _ => []
            end)
      && chk_end rs script ts (S r) specs' left' sink'
  | _, _, _ => false
  end.

Definition ok_C27 (rs : list rspec) (cs : list cspec) (script : list ev) (o : obs) : bool :=
  match o_end o with
  | EndOk lefts sink =>
      match chk_callers rs script O cs (o_calls o) with
      | Some ts => chk_end rs script ts O rs lefts sink
      | None => false
      end
  | EndAborted => false
  | EndStuck => false
  end.

(** ** well-formed cases *)

Fixpoint nodupb (l : list Z) : bool :=
  match l with [] => true | x :: l' => negb (existsb (Z.eqb x) l') && nodupb l' end.

Definition uses (c : cspec) (r : nat) : bool := existsb (fun cl => Nat.eqb (c_res cl) r) (calls_of (cs_prog c)).

(** descriptors are private: no descriptor is used by two callers *)
Fixpoint private (cs : list cspec) : bool :=
  match cs with
  | [] => true
  | c :: cs' =>
      forallb (fun cl => negb (existsb (fun c' => uses c' (c_res cl)) cs')) (calls_of (cs_prog c)) && private cs'
  end.

Definition call_ok (rs : list rspec) (cl : call) : bool := (c_res cl <? length rs)%nat && (1 <=? c_len cl).

(** bytes the data reads of all callers may ask of descriptor [r] *)
Definition demand (rs : list rspec) (cs : list cspec) (r : nat) : Z :=
  sumZ (map (fun cl => if Nat.eqb (c_res cl) r
                       then match classify (rs_kind (nth r rs rsdummy)) (c_op cl) with CRead => c_len cl | _ => 0 end
                       else 0)
            (flat_map (fun c => calls_of (cs_prog c)) cs)).

(** only coroutines use descriptor [r] (their reads on a socket with a time limit end by themselves) *)
Definition co_only (cs : list cspec) (r : nat) : bool := forallb (fun c => negb (uses c r) || cs_co c) cs.

Definition no_join (script : list ev) : bool :=
  forallb (fun e => match e with EJoin _ => false | _ => true end) script.

Fixpoint seq_nat (start len : nat) : list nat :=
  match len with O => [] | S l => start :: seq_nat (S start) l end.

Definition wf_C27 (rs : list rspec) (cs : list cspec) (script : list ev) : bool :=
  nodupb (map cs_tok cs)
  && private cs
  && forallb (fun c => forallb (call_ok rs) (calls_of (cs_prog c))) cs
  (* nothing negative is preloaded; a sealed memfd is empty and has no other end *)
  && forallb (fun sp => (0 <=? rs_pre sp)
                        && match rs_kind sp with KSealed => (rs_pre sp =? 0) && rs_eof sp | _ => true end) rs
  && no_join script
  (* every caller is started *)
  && forallb (started script) (seq_nat O (length cs))
  (* a descriptor whose peer stays open gets, over the whole script, what the reads may ask of it
     (unless it is a socket with a receive time limit that only coroutines read) *)
  && forallb (fun r => let sp := nth r rs rsdummy in
                       rs_eof sp || negb (readable (rs_kind sp))
                       || (rs_timed sp && co_only cs r)
                       || (demand rs cs r <=? rs_pre sp + feeds_of rs script r))
             (seq_nat O (length rs)).

(** the recorded finding concerns coroutines only: a read-type call on a socket with a receive time
    limit (finding timed_out_call_keeps_slot) *)
Definition no_defect (rs : list rspec) (cs : list cspec) : bool :=
  forallb (fun c => negb (cs_co c)
                    || forallb (fun cl => let sp := nth (c_res cl) rs rsdummy in
                                          negb (match classify (rs_kind sp) (c_op cl) with CRead => rs_timed sp | _ => false end))
                               (calls_of (cs_prog c)))
          cs.
