(** List and table lemmas used by the proofs about the io_uring model. *)
From OCV Require Import Base.Prelude Net.Uring Net.UringOracle.
From Coq Require Import ZifyBool ZifyNat.
Open Scope Z_scope.

(** ** [upd] *)
Lemma upd_length {A} : forall (l : list A) i x, length (upd i x l) = length l.
Proof. induction l as [|h t IH]; intros [|i] x; simpl; auto. Qed.

Lemma nth_error_upd_same {A} : forall (l : list A) i x, (i < length l)%nat -> nth_error (upd i x l) i = Some x.
Proof.
  induction l as [|h t IH]; intros [|i] x H; simpl in *; try lia; auto.
  all: try (apply IH; lia).
Qed.

Lemma nth_error_upd_other {A} : forall (l : list A) i j x, i <> j -> nth_error (upd i x l) j = nth_error l j.
Proof.
  induction l as [|h t IH]; intros [|i] [|j] x H; simpl; auto; try congruence.
  all: try (apply IH; congruence).
Qed.

Lemma nth_upd_same {A} : forall (l : list A) i x d, (i < length l)%nat -> nth i (upd i x l) d = x.
Proof.
  induction l as [|h t IH]; intros [|i] x d H; simpl in *; try lia; auto.
  all: try (apply IH; lia).
Qed.

Lemma nth_upd_other {A} : forall (l : list A) i j x d, i <> j -> nth j (upd i x l) d = nth j l d.
Proof.
  induction l as [|h t IH]; intros [|i] [|j] x d H; simpl; auto; try congruence.
  all: try (apply IH; congruence).
Qed.

Lemma upd_upd {A} : forall (l : list A) i x y, upd i x (upd i y l) = upd i x l.
Proof. induction l as [|h t IH]; intros [|i] x y; simpl; auto. f_equal; apply IH. Qed.

Lemma upd_out {A} : forall (l : list A) i x, (length l <= i)%nat -> upd i x l = l.
Proof. induction l as [|h t IH]; intros [|i] x H; simpl in *; auto; try lia. f_equal; apply IH; lia. Qed.

Lemma map_upd {A B} (f : A -> B) : forall (l : list A) i x d,
  f x = f (nth i l d) -> map f (upd i x l) = map f l.
Proof.
  induction l as [|h t IH]; intros [|i] x d H; simpl in *; auto.
  - congruence.
  - f_equal. eapply IH; eauto.
Qed.

Lemma nth_error_nth {A} : forall (l : list A) i x d, nth_error l i = Some x -> nth i l d = x.
Proof. induction l as [|h t IH]; intros [|i] x d H; simpl in *; try discriminate; auto. congruence. Qed.

Lemma nth_error_some_lt {A} : forall (l : list A) i x, nth_error l i = Some x -> (i < length l)%nat.
Proof. intros l i x H. apply nth_error_Some. congruence. Qed.

Lemma nth_error_lt_some {A} : forall (l : list A) i, (i < length l)%nat -> exists x, nth_error l i = Some x.
Proof. intros l i H. destruct (nth_error l i) eqn:E; eauto. apply nth_error_None in E. lia. Qed.

(** ** [del_nth] *)
Lemma in_del_nth {A} : forall (l : list A) j x, In x (del_nth j l) -> In x l.
Proof.
  induction l as [|h t IH]; intros [|j] x H; simpl in *; auto.
  destruct H; auto. right; eapply IH; eauto.
Qed.

Lemma del_nth_map {A B} (f : A -> B) : forall (l : list A) j, map f (del_nth j l) = del_nth j (map f l).
Proof. induction l as [|h t IH]; intros [|j]; simpl; auto. f_equal; apply IH. Qed.

Lemma nodup_del_nth {A} : forall (l : list A) j, NoDup l -> NoDup (del_nth j l).
Proof.
  induction l as [|h t IH]; intros [|j] H; simpl; auto.
  - inversion H; auto.
  - inversion H; subst. constructor; auto. intro Hin. apply in_del_nth in Hin. auto.
Qed.

(** after deleting position [j] of a duplicate-free list, the deleted element is gone *)
Lemma not_in_del_nth {A} : forall (l : list A) j x, NoDup l -> nth_error l j = Some x -> ~ In x (del_nth j l).
Proof.
  induction l as [|h t IH]; intros [|j] x ND H; simpl in *; try discriminate.
  - inversion H; subst. inversion ND; auto.
  - inversion ND; subst. intros [E|Hin].
    + subst. apply H2. eapply nth_error_In; eauto.
    + eapply IH; eauto.
Qed.

Lemma in_del_nth_other {A} : forall (l : list A) j x y, nth_error l j = Some y -> In x l -> x <> y -> In x (del_nth j l).
Proof.
  induction l as [|h t IH]; intros [|j] x y H Hin Hne; simpl in *; try discriminate.
  - inversion H; subst. destruct Hin; [congruence | auto].
  - destruct Hin; auto. right. eapply IH; eauto.
Qed.

Lemma length_del_nth {A} : forall (l : list A) j x, nth_error l j = Some x -> S (length (del_nth j l)) = length l.
Proof.
  induction l as [|h t IH]; intros [|j] x H; simpl in *; try discriminate; auto.
  f_equal. eapply IH; eauto.
Qed.

Lemma NoDup_app_one {A} : forall (l : list A) x, NoDup l -> ~ In x l -> NoDup (l ++ [x]).
Proof.
  induction l as [|h t IH]; intros x ND Hn; simpl.
  - constructor; auto.
  - inversion ND; subst. constructor.
    + intro Hin. apply in_app_or in Hin as [Hin|[Hin|[]]]; auto. subst. apply Hn. simpl; auto.
    + apply IH; auto. intro. apply Hn. simpl; auto.
Qed.

(** ** the table *)
Lemma tget_tdel_same : forall l t, tget t (tdel t l) = None.
Proof.
  induction l as [|[t' v] l IH]; intros t; simpl; auto.
  destruct (t =? t') eqn:E; simpl; auto. rewrite E. apply IH.
Qed.

Lemma tget_tdel_other : forall l t t', t <> t' -> tget t' (tdel t l) = tget t' l.
Proof.
  induction l as [|[t0 v] l IH]; intros t t' H; simpl; auto.
  destruct (t =? t0) eqn:E; simpl.
  - assert (t' =? t0 = false) by lia. rewrite H0. apply IH; auto.
  - destruct (t' =? t0); auto.
Qed.

Lemma tget_cons_same : forall l t v, tget t ((t, v) :: l) = Some v.
Proof. intros; simpl. rewrite Z.eqb_refl; auto. Qed.

Lemma tget_cons_other : forall l t t' v, t <> t' -> tget t' ((t, v) :: l) = tget t' l.
Proof. intros; simpl. assert (t' =? t = false) by lia. rewrite H0; auto. Qed.

(** ** [first_idx] *)
Lemma first_idx_some {A} (p : A -> bool) : forall l n j, first_idx p l n = Some j ->
  exists x, (n <= j)%nat /\ nth_error l (j - n) = Some x /\ p x = true.
Proof.
  induction l as [|h t IH]; intros n j H; simpl in *; try discriminate.
  destruct (p h) eqn:E.
  - inversion H; subst. exists h. replace (j - j)%nat with O by lia. auto.
  - apply IH in H as [x [H1 [H2 H3]]]. exists x. split; [lia|]. split; auto.
    replace (j - n)%nat with (S (j - S n)) by lia. auto.
Qed.

Lemma first_idx_none {A} (p : A -> bool) : forall l n, first_idx p l n = None -> forall x, In x l -> p x = false.
Proof.
  induction l as [|h t IH]; intros n H x Hin; simpl in *; [contradiction|].
  destruct (p h) eqn:E; try discriminate.
  destruct Hin; subst; eauto.
Qed.

(** ** sums *)
Lemma sumZ_cons : forall a l, sumZ (a :: l) = a + sumZ l.
Proof. reflexivity. Qed.

Lemma sumZ_app : forall a b, sumZ (a ++ b) = sumZ a + sumZ b.
Proof. induction a; intros; simpl; auto. unfold sumZ in *. simpl. rewrite IHa. lia. Qed.

Lemma sumZ_all_zero : forall l, (forall x, In x l -> x = 0) -> sumZ l = 0.
Proof.
  induction l as [|h t IH]; intros H; auto. unfold sumZ in *; simpl.
  rewrite IH by (intros; apply H; simpl; auto). rewrite (H h) by (simpl; auto). lia.
Qed.

(** a sum whose terms are all zero but the one at position [i] *)
Lemma sumZ_single {A} (f : A -> Z) : forall l i x,
  nth_error l i = Some x -> (forall j y, nth_error l j = Some y -> j <> i -> f y = 0) ->
  sumZ (map f l) = f x.
Proof.
  induction l as [|h t IH]; intros [|i] x H Hz; simpl in *; try discriminate.
  - inversion H; subst. unfold sumZ; simpl. fold (sumZ (map f t)).
    rewrite sumZ_all_zero; [lia|].
    intros y Hin. apply in_map_iff in Hin as [a [Ha Hin]]. subst.
    apply In_nth_error in Hin as [n Hn]. apply (Hz (S n) a); simpl; auto.
  - unfold sumZ; simpl. fold (sumZ (map f t)).
    assert (Hh : f h = 0) by (apply (Hz O h); simpl; auto).
    rewrite Hh. rewrite (IH i x); auto; try lia.
    intros j y Hj Hne. apply (Hz (S j) y); simpl; auto.
Qed.

Lemma sumZ_none {A} (f : A -> Z) : forall l, (forall y, In y l -> f y = 0) -> sumZ (map f l) = 0.
Proof.
  intros l H. apply sumZ_all_zero. intros x Hin. apply in_map_iff in Hin as [a [Ha Hin]]. subst. auto.
Qed.

(** ** streams *)
Lemma sbytes_length : forall n r from, length (sbytes r from n) = n.
Proof. induction n; intros; simpl; auto. Qed.

Lemma stream_length : forall r from n, 0 <= n -> Z.of_nat (length (stream r from n)) = n.
Proof. intros. unfold stream. rewrite sbytes_length. lia. Qed.

Lemma firstn_all' {A} : forall (l : list A) n, n = length l -> firstn n l = l.
Proof. intros; subst. apply firstn_all. Qed.

Lemma zlist_eqb_refl : forall l, list_eqb Z.eqb l l = true.
Proof. induction l; simpl; auto. rewrite Z.eqb_refl; auto. Qed.

(** ** [find_co] *)
Lemma find_co_none : forall l t n, (forall k, In k l -> k_tok k <> t) -> find_co t l n = None.
Proof.
  induction l as [|h l IH]; intros t n H; simpl; auto.
  assert (k_tok h =? t = false) by (specialize (H h (or_introl eq_refl)); lia).
  rewrite H0, andb_false_r. apply IH. intros; apply H; simpl; auto.
Qed.

Lemma find_co_spec : forall l i k n,
  NoDup (map k_tok l) -> nth_error l i = Some k ->
  find_co (k_tok k) l n = if k_co k then Some (n + i)%nat else None.
Proof.
  induction l as [|h l IH]; intros [|i] k n ND H; simpl in *; try discriminate.
  - inversion H; subst. rewrite Z.eqb_refl, andb_true_r. destruct (k_co k).
    + f_equal; lia.
    + apply find_co_none. inversion ND; subst. intros k' Hin E. apply H2. rewrite <- E. apply in_map; auto.
  - inversion ND; subst.
    assert (k_tok h =? k_tok k = false).
    { apply Z.eqb_neq. intro E. apply H2. rewrite E. apply in_map. eapply nth_error_In; eauto. }
    rewrite H0, andb_false_r. rewrite (IH i k (S n)); auto. destruct (k_co k); auto. f_equal; lia.
Qed.

(** ** the per-call check *)
Lemma chk_calls_len : forall rs co cs xs t T, chk_calls rs co t cs xs = Some T -> length cs = length xs.
Proof.
  induction cs as [|c cs IH]; intros [|x xs] t T H; simpl in *; try discriminate; auto.
  destruct (chk_call rs co t c x); try discriminate. f_equal. eapply IH; eauto.
Qed.

Lemma chk_calls_snoc : forall rs co cs xs t c x, length cs = length xs ->
  chk_calls rs co t (cs ++ [c]) (xs ++ [x]) =
  match chk_calls rs co t cs xs with
  | Some t' => chk_call rs co t' c x
  | None => None
  end.
Proof.
  induction cs as [|c0 cs IH]; intros [|x0 xs] t c x H; simpl in *; try discriminate.
  - destruct (chk_call rs co t c x); auto.
  - destruct (chk_call rs co t c0 x0); auto.
Qed.

Lemma tr_get_upd_same : forall (t : track) r v, (r < length t)%nat -> tr_get (upd r v t) r = v.
Proof. intros. unfold tr_get. apply nth_upd_same; auto. Qed.

Lemma tr_get_upd_other : forall (t : track) r r' v, r <> r' -> tr_get (upd r v t) r' = tr_get t r'.
Proof. intros. unfold tr_get. apply nth_upd_other; auto. Qed.

Lemma chk_call_length : forall rs co t c x T, chk_call rs co t c x = Some T -> length T = length t.
Proof.
  intros rs co t c x T H. unfold chk_call in H.
  destruct (tr_get t (c_res c)) as [taken wrote].
  destruct (classify _ _); destruct x; try discriminate;
    match type of H with (if ?b then _ else _) = _ => destruct b; try discriminate end;
    inversion H; subst; auto; apply upd_length.
Qed.

Lemma chk_calls_length : forall rs co cs xs t T, chk_calls rs co t cs xs = Some T -> length T = length t.
Proof.
  induction cs as [|c cs IH]; intros [|x xs] t T H; simpl in *; try discriminate.
  - inversion H; auto.
  - destruct (chk_call rs co t c x) eqn:E; try discriminate.
    rewrite (IH _ _ _ H). eapply chk_call_length; eauto.
Qed.

Lemma zero_track_length : forall rs, length (zero_track rs) = length rs.
Proof. intros. unfold zero_track. apply map_length. Qed.
