(** Proofs about the deadline loop of [timed_wait_just] against the clock oracle. *)
From OCV Require Import Base.Prelude Misc.Time Net.Wait.
From Coq Require Import ZifyBool ZifyNat.
Open Scope Z_scope.

Definition wf_world (s : world) : Prop := 0 <= clk s <= U64MAX.

(** deviations allowed for the upper bound: scheduling slack between 0 and [eps] *)
Definition slack_ok (eps : Z) (s : world) : Prop := Forall (fun d => 0 <= d <= eps) (beh s).

Lemma gtt_min now d : 0 <= now <= U64MAX -> 0 <= d ->
  get_timeout_time now d = Z.min (now + d) U64MAX.
Proof.
  intros Hn Hd. unfold get_timeout_time, sat_add64.
  destruct (d <=? U64MAX) eqn:E; lia.
Qed.

(** * One primitive wait *)

Lemma elapse_facts w s : 0 <= w -> wf_world s ->
  wf_world (elapse w s) /\ clk s <= clk (elapse w s) /\
  (length (beh (elapse w s)) <= length (beh s))%nat /\
  nwe (elapse w s) = nwe s /\ log (elapse w s) = log s /\
  (beh s = [] -> clk (elapse w s) = Z.min (clk s + w) U64MAX /\ beh (elapse w s) = []) /\
  (beh s <> [] -> S (length (beh (elapse w s))) = length (beh s)).
Proof.
  intros Hw [H0 H1]. unfold elapse, wf_world.
  destruct (beh s) as [|d b] eqn:Eb; cbn [clk beh nwe log length]; unfold sat_add64.
  - repeat split; try lia; try reflexivity. congruence.
  - repeat split; try lia; try reflexivity; try congruence.
Qed.

Lemma elapse_upper eps w s : 0 <= w -> 0 <= eps -> wf_world s -> slack_ok eps s ->
  clk (elapse w s) <= clk s + w + eps /\ slack_ok eps (elapse w s).
Proof.
  intros Hw He [H0 H1] Hs. unfold elapse, slack_ok in *.
  destruct (beh s) as [|d b] eqn:Eb; cbn [clk beh]; unfold sat_add64.
  - split; [lia|constructor].
  - inversion Hs as [|? ? Hd Hb]; subst. split; [lia|exact Hb].
Qed.

Lemma wait_just_facts w s : 0 <= w -> wf_world s ->
  wf_world (wait_just w s) /\ clk s <= clk (wait_just w s) /\
  (length (beh (wait_just w s)) <= length (beh s))%nat /\
  nwe (wait_just w s) = nwe s /\
  (beh s = [] -> clk (wait_just w s) = Z.min (clk s + w) U64MAX /\ beh (wait_just w s) = []) /\
  (beh s <> [] -> S (length (beh (wait_just w s))) = length (beh s)).
Proof.
  intros Hw Hwf. unfold wait_just.
  assert (Hwf' : wf_world (emit (EW w) s)) by exact Hwf.
  destruct (elapse_facts w (emit (EW w) s) Hw Hwf') as (A & B & C & D & _ & E & F).
  cbn [emit clk beh nwe] in *.
  split; [exact A|]. split; [exact B|]. split; [exact C|]. split; [exact D|]. split; [exact E|exact F].
Qed.

Lemma wait_just_upper eps w s : 0 <= w -> 0 <= eps -> wf_world s -> slack_ok eps s ->
  clk (wait_just w s) <= clk s + w + eps /\ slack_ok eps (wait_just w s).
Proof.
  intros Hw He Hwf Hs. unfold wait_just.
  exact (elapse_upper eps w (emit (EW w) s) Hw He Hwf Hs).
Qed.

(** * The deadline loop *)

Lemma left_zero D c : Z.min (sat_sub D c) SLICE_NS = 0 <-> D <= c.
Proof. unfold sat_sub, SLICE_NS. lia. Qed.

(** Whatever the primitive waits do, the loop ends only at or after the deadline. *)
Lemma twj_lower fuel : forall D s s',
  wf_world s -> twj_loop fuel D s = Some s' ->
  wf_world s' /\ D <= clk s' /\ clk s <= clk s' /\ nwe s' = nwe s /\
  (length (beh s') <= length (beh s))%nat.
Proof.
  induction fuel as [|f IH]; intros D s s' Hwf H; [discriminate|].
  cbn [twj_loop] in H.
  destruct (Z.min (sat_sub D (clk s)) SLICE_NS =? 0) eqn:E.
  - inversion H; subst s'. apply Z.eqb_eq, left_zero in E.
    destruct (wait_just_facts 0 s (Z.le_refl 0) Hwf) as (A & B & C & N & _).
    repeat split; try apply A; try lia.
  - apply Z.eqb_neq in E.
    assert (Hl : 0 <= Z.min (sat_sub D (clk s)) SLICE_NS) by (unfold sat_sub, SLICE_NS; lia).
    destruct (wait_just_facts _ s Hl Hwf) as (A & B & C & N & _).
    destruct (IH D _ s' A H) as (A' & B' & C' & N' & L').
    repeat split; try apply A'; try lia.
Qed.

(** Termination: the fuel computed from the behaviour and the distance always suffices. *)
Definition twj_measure (D : Z) (s : world) : nat :=
  length (beh s) + (if sat_sub D (clk s) =? 0 then 0 else S (Z.to_nat (sat_sub D (clk s) / SLICE_NS))).

Lemma twj_terminates fuel : forall D s,
  wf_world s -> 0 <= D <= U64MAX -> (twj_measure D s < fuel)%nat -> twj_loop fuel D s <> None.
Proof.
  induction fuel as [|f IH]; intros D s Hwf HD Hm; [lia|].
  cbn [twj_loop].
  destruct (Z.min (sat_sub D (clk s)) SLICE_NS =? 0) eqn:E; [discriminate|].
  apply Z.eqb_neq in E.
  assert (Hl : 0 <= Z.min (sat_sub D (clk s)) SLICE_NS) by (unfold sat_sub, SLICE_NS; lia).
  destruct (wait_just_facts _ s Hl Hwf) as (A & B & C & N & Ex & Dv).
  apply IH; [exact A|exact HD|].
  unfold twj_measure in *.
  destruct (beh s) as [|d b] eqn:Eb.
  - destruct (Ex eq_refl) as [Hc Hb]. rewrite Hb, Hc. cbn [length] in *.
    destruct Hwf as [H0 H1]. unfold sat_sub, SLICE_NS in *.
    destruct (Z.max (D - clk s) 0 =? 0) eqn:E0; [lia|].
    destruct (Z.max (D - Z.min (clk s + Z.min (Z.max (D - clk s) 0) 10000000) U64MAX) 0 =? 0) eqn:E1; [lia|].
    assert (Hge : 10000000 <= D - clk s) by lia.
    replace (Z.min (clk s + Z.min (Z.max (D - clk s) 0) 10000000) U64MAX) with (clk s + 10000000) in * by lia.
    replace (Z.max (D - (clk s + 10000000)) 0) with (D - clk s - 10000000) in * by lia.
    replace (Z.max (D - clk s) 0) with (D - clk s) in * by lia.
    assert (Hd : (D - clk s - 10000000) / 10000000 = (D - clk s) / 10000000 - 1).
    { replace (D - clk s - 10000000) with ((D - clk s) + (-1) * 10000000) by lia.
      rewrite Z.div_add by lia. lia. }
    rewrite Hd.
    assert (1 <= (D - clk s) / 10000000) by (apply Z.div_le_lower_bound; lia).
    lia.
  - assert (Hne : d :: b <> []) by discriminate. specialize (Dv Hne). cbn [length] in *.
    set (s1 := wait_just (Z.min (sat_sub D (clk s)) SLICE_NS) s) in *.
    assert (Hmono : sat_sub D (clk s1) <= sat_sub D (clk s)) by (unfold sat_sub; lia).
    assert (Hnn : 0 <= sat_sub D (clk s1)) by (unfold sat_sub; lia).
    set (a := sat_sub D (clk s1)) in *.
    set (a0 := sat_sub D (clk s)) in *.
    destruct (a =? 0) eqn:Ea.
    + destruct (a0 =? 0); lia.
    + destruct (a0 =? 0) eqn:Ea0; [lia|].
      assert (a / SLICE_NS <= a0 / SLICE_NS) by (apply Z.div_le_mono; unfold SLICE_NS; lia).
      assert (0 <= a / SLICE_NS) by (apply Z.div_pos; unfold SLICE_NS; lia).
      lia.
Qed.

(** With slack in [0, eps] the loop overshoots its deadline by at most two slacks. *)
Lemma twj_upper eps fuel : forall D s s',
  0 <= eps -> wf_world s -> slack_ok eps s -> twj_loop fuel D s = Some s' ->
  clk s' <= Z.max (clk s) (D + eps) + eps /\ slack_ok eps s'.
Proof.
  intros D s s' He. revert D s s'.
  induction fuel as [|f IH]; intros D s s' Hwf Hs H; [discriminate|].
  cbn [twj_loop] in H.
  destruct (Z.min (sat_sub D (clk s)) SLICE_NS =? 0) eqn:E.
  - inversion H; subst s'.
    destruct (wait_just_upper eps 0 s (Z.le_refl 0) He Hwf Hs) as [A B]. split; [lia|exact B].
  - apply Z.eqb_neq in E.
    assert (Hl : 0 <= Z.min (sat_sub D (clk s)) SLICE_NS) by (unfold sat_sub, SLICE_NS; lia).
    destruct (wait_just_upper eps _ s Hl He Hwf Hs) as [A B].
    destruct (wait_just_facts _ s Hl Hwf) as (A' & _).
    destruct (IH D _ s' A' B H) as [C Dk]. split; [|exact Dk].
    assert (Z.min (sat_sub D (clk s)) SLICE_NS <= D - clk s) by (unfold sat_sub, SLICE_NS in *; lia).
    lia.
Qed.

Lemma twj_beh_nil fuel : forall D s s',
  twj_loop fuel D s = Some s' -> beh s = [] -> beh s' = [].
Proof.
  induction fuel as [|f IH]; intros D s s' H Hb; [discriminate|].
  cbn [twj_loop] in H.
  assert (Hn : forall w, beh (wait_just w s) = []).
  { intros w. unfold wait_just, elapse. cbn [emit beh]. rewrite Hb. reflexivity. }
  destruct (_ =? 0).
  - inversion H; subst. apply Hn.
  - eapply IH; [exact H|apply Hn].
Qed.

(** * wait_event *)

Lemma wait_event_some d s : wf_world s -> 0 <= d -> exists s', wait_event d s = Some s'.
Proof.
  intros Hwf Hd. unfold wait_event.
  set (s0 := {| clk := clk s; beh := beh s; log := log s; nwe := S (nwe s) |}).
  set (D := get_timeout_time (clk s) d).
  assert (HD : 0 <= D <= U64MAX).
  { unfold D. rewrite gtt_min by (try apply Hwf; lia). destruct Hwf. lia. }
  assert (Hwf0 : wf_world s0) by exact Hwf.
  destruct (twj_loop (twj_fuel D s0) D s0) as [s'|] eqn:E; [eauto|].
  exfalso. revert E. apply twj_terminates; try assumption.
  unfold twj_measure, twj_fuel. destruct (sat_sub D (clk s0) =? 0); lia.
Qed.

Lemma wait_event_lower d s s' : wf_world s -> 0 <= d -> wait_event d s = Some s' ->
  wf_world s' /\ Z.min (clk s + d) U64MAX <= clk s' /\ clk s <= clk s' /\ nwe s' = S (nwe s) /\
  (length (beh s') <= length (beh s))%nat.
Proof.
  intros Hwf Hd H. unfold wait_event in H.
  rewrite gtt_min in H by (try apply Hwf; lia).
  set (s0 := {| clk := clk s; beh := beh s; log := log s; nwe := S (nwe s) |}) in *.
  assert (Hwf0 : wf_world s0) by exact Hwf.
  destruct (twj_lower _ _ _ _ Hwf0 H) as (A & B & C & N & L).
  cbn [s0 clk nwe beh] in *. repeat split; try apply A; assumption.
Qed.

Lemma wait_event_upper eps d s s' : 0 <= eps -> wf_world s -> 0 <= d -> slack_ok eps s ->
  wait_event d s = Some s' -> clk s' <= clk s + d + 2 * eps /\ slack_ok eps s'.
Proof.
  intros He Hwf Hd Hs H. unfold wait_event in H.
  rewrite gtt_min in H by (try apply Hwf; lia).
  set (s0 := {| clk := clk s; beh := beh s; log := log s; nwe := S (nwe s) |}) in *.
  assert (Hwf0 : wf_world s0) by exact Hwf.
  destruct (twj_upper eps _ _ _ _ He Hwf0 Hs H) as [A B].
  cbn [s0 clk] in A. split; [lia|exact B].
Qed.

Lemma wait_event_beh_nil d s s' : wait_event d s = Some s' -> beh s = [] -> beh s' = [].
Proof. unfold wait_event. intros H Hb. eapply twj_beh_nil; [exact H|exact Hb]. Qed.
