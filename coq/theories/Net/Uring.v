(** Model of the io_uring call path of the runtime (feature [io_uring]):
    [EventLoop::token], [syscall_wait_table] (token -> result slot), the submission macro
    [impl_io_uring!] of [net/event_loop.rs] (after the fix: slot registered first, request handed to
    the kernel second), the completion dispatch of [adapt_io_uring], the waiting side of
    [impl_io_uring_read!/impl_io_uring_write!] of [syscall/unix/mod.rs] (thread: condition variable
    on its own slot; coroutine: resumed by token, then reads its own slot; coroutine with a finite
    socket time limit: may time out and return -1/ETIMEDOUT leaving slot and request behind), and the
    mapping of a raw completion to (return value, errno).

    The kernel is a small executable specification of what a request on a pipe end, a socketpair end or
    a closed descriptor number completes with. Which in-flight request completes next is an input
    ([EComplete j]); so is when a coroutine's time limit expires ([ETimeout c]).

    Executable Gallina, no proofs here. *)
From OCV Require Import Base.Prelude.
Open Scope Z_scope.

(** * Kernel side *)

Inductive opk := ORead | ORecv | OWrite | OSend.
(** [KSealed]: an empty memfd sealed against writing (F_SEAL_WRITE) *)
Inductive rkind := KPipeR | KPipeW | KSock | KClosed | KSealed.

(** what the case says about a descriptor: kind, bytes preloaded, peer closed, SO_RCVTIMEO set *)
Record rspec := { rs_kind : rkind; rs_pre : Z; rs_eof : bool; rs_timed : bool }.

Record rstate := { r_kind : rkind; r_avail : Z; r_pos : Z; r_eof : bool; r_timed : bool; r_wrote : Z }.

Definition r_init (s : rspec) : rstate :=
  {| r_kind := rs_kind s; r_avail := rs_pre s; r_pos := 0; r_eof := rs_eof s; r_timed := rs_timed s;
     r_wrote := 0 |}.

(** byte [i] of the stream of descriptor [r] (never 0, differs between descriptors) *)
Definition sbyte (r : nat) (i : Z) : Z := (Z.of_nat r * 53 + i * 7 + 1) mod 250 + 1.
Fixpoint sbytes (r : nat) (from : Z) (n : nat) : list Z :=
  match n with O => [] | S n' => sbyte r from :: sbytes r (from + 1) n' end.
Definition stream (r : nat) (from n : Z) : list Z := sbytes r from (Z.to_nat n).

Inductive cls := CErr (e : Z) | CRead | CWrite.

Definition EPERM := 1.
Definition EBADF := 9.
Definition EPIPE := 32.
Definition ENOTSOCK := 88.
Definition ETIMEDOUT := 110.

Definition classify (k : rkind) (o : opk) : cls :=
  match k, o with
  | KClosed, _ => CErr EBADF
  | KPipeR, ORead => CRead
  | KPipeR, OWrite => CErr EBADF
  | KPipeR, _ => CErr ENOTSOCK
  | KPipeW, OWrite => CWrite
  | KPipeW, ORead => CErr EBADF
  | KPipeW, _ => CErr ENOTSOCK
  | KSock, ORead => CRead
  | KSock, ORecv => CRead
  | KSock, _ => CWrite
  | KSealed, ORead => CRead          (* nothing in it: end of stream at once *)
  | KSealed, OWrite => CErr EPERM    (* the completion value is exactly -1 *)
  | KSealed, _ => CErr ENOTSOCK
  end.

Definition readable (k : rkind) : bool := match k with KPipeR | KSock | KSealed => true | _ => false end.

Inductive kres := KPend | KDone (v : Z) (bytes : list Z) (r' : rstate).

Definition r_take (rs : rstate) (n : Z) : rstate :=
  {| r_kind := r_kind rs; r_avail := r_avail rs - n; r_pos := r_pos rs + n; r_eof := r_eof rs;
     r_timed := r_timed rs; r_wrote := r_wrote rs |}.
Definition r_put (rs : rstate) (n : Z) : rstate :=
  {| r_kind := r_kind rs; r_avail := r_avail rs; r_pos := r_pos rs; r_eof := r_eof rs;
     r_timed := r_timed rs; r_wrote := r_wrote rs + n |}.
Definition r_feed (rs : rstate) (n : Z) : rstate :=
  {| r_kind := r_kind rs; r_avail := r_avail rs + n; r_pos := r_pos rs; r_eof := r_eof rs;
     r_timed := r_timed rs; r_wrote := r_wrote rs |}.

(** what a request completes with, given the descriptor's state now; [KPend] = nothing to report yet *)
Definition kernel (ri : nat) (rs : rstate) (o : opk) (len : Z) : kres :=
  match classify (r_kind rs) o with
  | CErr e => KDone (- e) [] rs
  | CRead =>
      if 0 <? r_avail rs then
        let n := Z.min len (r_avail rs) in KDone n (stream ri (r_pos rs) n) (r_take rs n)
      else if r_eof rs then KDone 0 [] rs
      else KPend
  | CWrite => if r_eof rs then KDone (- EPIPE) [] rs else KDone len [] (r_put rs len)
  end.

(** a feed reaches the descriptor only when the harness still holds the other end *)
Definition feedable (k : rkind) (eof : bool) : bool := readable k && negb eof.

(** * Runtime side *)

Record call := { c_op : opk; c_res : nat; c_len : Z; c_hold : bool }.

(** what a hooked call hands back: return value with the bytes its own buffer holds, or -1 with errno *)
Inductive result := RRet (n : Z) (bytes : list Z) | RErr (e : Z).

Record cspec := { cs_co : bool; cs_tok : Z; cs_prog : list call }.

Inductive cstat := SNew | SHeld (c : call) | SWait (c : call) | SDone.

Record caller := {
  k_co : bool;            (* coroutine of the event loop (true) or plain thread *)
  k_tok : Z;              (* EventLoop::token of this caller *)
  k_prog : list call;     (* what is left of its program *)
  k_stat : cstat;
  k_out : list result;    (* results so far, newest first *)
  k_seq : nat;            (* calls issued so far: names the slot (Arc) of the current call *)
  k_slot : option Z;      (* content of the slot the caller holds *)
  k_buf : list Z;         (* what the kernel wrote into the current call's buffer *)
}.

Definition k_init (s : cspec) : caller :=
  {| k_co := cs_co s; k_tok := cs_tok s; k_prog := cs_prog s; k_stat := SNew; k_out := []; k_seq := O;
     k_slot := None; k_buf := [] |}.

Record sqe := { q_tok : Z; q_own : nat; q_seq : nat; q_call : call }.

Inductive death := DAbort | DWedge.
Inductive tag := TTimeout.

Record state := {
  s_res : list rstate;
  s_callers : list caller;
  s_inflight : list sqe;                 (* requests the kernel holds, oldest first *)
  s_table : list (Z * (nat * nat));      (* syscall_wait_table: token -> slot (owner, call number) *)
  s_dead : option death;                 (* process aborted / event-loop thread blocked for ever *)
  s_div : bool;                          (* a wait of the harness could not end *)
  s_tags : list tag;
}.

Fixpoint upd {A} (i : nat) (x : A) (l : list A) : list A :=
  match l, i with
  | [], _ => []
  | _ :: t, O => x :: t
  | h :: t, S i' => h :: upd i' x t
  end.

Fixpoint del_nth {A} (i : nat) (l : list A) : list A :=
  match l, i with
  | [], _ => []
  | _ :: t, O => t
  | h :: t, S i' => h :: del_nth i' t
  end.

Fixpoint tget (t : Z) (l : list (Z * (nat * nat))) : option (nat * nat) :=
  match l with
  | [] => None
  | (t', v) :: l' => if t =? t' then Some v else tget t l'
  end.
Definition tdel (t : Z) (l : list (Z * (nat * nat))) : list (Z * (nat * nat)) :=
  filter (fun e => negb (t =? fst e)) l.

Definition set_callers (st : state) (cs : list caller) : state :=
  {| s_res := s_res st; s_callers := cs; s_inflight := s_inflight st; s_table := s_table st;
     s_dead := s_dead st; s_div := s_div st; s_tags := s_tags st |}.
Definition set_res (st : state) (rs : list rstate) : state :=
  {| s_res := rs; s_callers := s_callers st; s_inflight := s_inflight st; s_table := s_table st;
     s_dead := s_dead st; s_div := s_div st; s_tags := s_tags st |}.
Definition set_inflight (st : state) (q : list sqe) : state :=
  {| s_res := s_res st; s_callers := s_callers st; s_inflight := q; s_table := s_table st;
     s_dead := s_dead st; s_div := s_div st; s_tags := s_tags st |}.
Definition set_table (st : state) (t : list (Z * (nat * nat))) : state :=
  {| s_res := s_res st; s_callers := s_callers st; s_inflight := s_inflight st; s_table := t;
     s_dead := s_dead st; s_div := s_div st; s_tags := s_tags st |}.
Definition die (st : state) (d : death) : state :=
  {| s_res := s_res st; s_callers := s_callers st; s_inflight := s_inflight st; s_table := s_table st;
     s_dead := Some d; s_div := s_div st; s_tags := s_tags st |}.
Definition diverge (st : state) : state :=
  {| s_res := s_res st; s_callers := s_callers st; s_inflight := s_inflight st; s_table := s_table st;
     s_dead := s_dead st; s_div := true; s_tags := s_tags st |}.
Definition add_tag (st : state) (t : tag) : state :=
  {| s_res := s_res st; s_callers := s_callers st; s_inflight := s_inflight st; s_table := s_table st;
     s_dead := s_dead st; s_div := s_div st; s_tags := t :: s_tags st |}.

Definition set_caller (st : state) (i : nat) (k : caller) : state :=
  set_callers st (upd i k (s_callers st)).

Definition rdummy : rstate :=
  {| r_kind := KClosed; r_avail := 0; r_pos := 0; r_eof := false; r_timed := false; r_wrote := 0 |}.

(** the raw completion value becomes (return value, errno): negative -> -1 with errno = -value *)
Definition map_result (v : Z) (buf : list Z) : result :=
  if v <? 0 then RErr (- v) else RRet v (firstn (Z.to_nat v) buf).

(** the request of caller [i] (token [tok], call number [seq]) goes to the kernel *)
Definition push (st : state) (i : nat) (tok : Z) (seq : nat) (cl : call) : state :=
  set_inflight st (s_inflight st ++ [{| q_tok := tok; q_own := i; q_seq := seq; q_call := cl |}]).

(** [EventLoop::$syscall] + the first half of the hooked call, for caller [i] whose record is [k]
    (results up to date) and whose next call is [cl]. Slot first (assertion "previous token" when the
    token is still registered), then the request. *)
Definition submit (st : state) (i : nat) (k : caller) (cl : call) (rest : list call) : state :=
  match tget (k_tok k) (s_table st) with
  | Some _ =>   (* assert!(insert(..).is_none()) inside an extern "C" function *)
      die (set_caller st i k) DAbort
  | None =>
      let seq := S (k_seq k) in
      let st1 := set_table st ((k_tok k, (i, seq)) :: s_table st) in
      if c_hold cl && negb (k_co k) then
        (* parked at the pause point between the two steps *)
        set_caller st1 i {| k_co := k_co k; k_tok := k_tok k; k_prog := rest; k_stat := SHeld cl; k_out := k_out k;
                            k_seq := seq; k_slot := None; k_buf := [] |}
      else
        (* (a coroutine next asks for the descriptor's time limit; when the option cannot be read, as
           for a descriptor number that is not open, the answer is "no limit") *)
        push (set_caller st1 i {| k_co := k_co k; k_tok := k_tok k; k_prog := rest; k_stat := SWait cl;
                                  k_out := k_out k; k_seq := seq; k_slot := None; k_buf := [] |})
             i (k_tok k) seq cl
  end.

(** caller [i] goes on with what is left of its program: the next call, or the end *)
Definition advance (st : state) (i : nat) (k : caller) : state :=
  match k_prog k with
  | [] => set_caller st i {| k_co := k_co k; k_tok := k_tok k; k_prog := []; k_stat := SDone; k_out := k_out k;
                             k_seq := k_seq k; k_slot := None; k_buf := [] |}
  | cl :: rest => submit st i k cl rest
  end.

(** caller [i] leaves its call with result [r] and goes on *)
Definition finish_call (st : state) (i : nat) (k : caller) (r : result) : state :=
  advance st i {| k_co := k_co k; k_tok := k_tok k; k_prog := k_prog k; k_stat := k_stat k; k_out := r :: k_out k;
                  k_seq := k_seq k; k_slot := None; k_buf := [] |}.

Definition cdummy : caller :=
  {| k_co := false; k_tok := -1; k_prog := []; k_stat := SDone; k_out := []; k_seq := O; k_slot := None;
     k_buf := [] |}.

Definition is_wait (s : cstat) : bool := match s with SWait _ => true | _ => false end.

(** index of the coroutine that owns token [t], if any *)
Fixpoint find_co (t : Z) (cs : list caller) (i : nat) : option nat :=
  match cs with
  | [] => None
  | k :: cs' => if k_co k && (k_tok k =? t) then Some i else find_co t cs' (S i)
  end.

Definition with_slot (k : caller) (v : option Z) : caller :=
  {| k_co := k_co k; k_tok := k_tok k; k_prog := k_prog k; k_stat := k_stat k; k_out := k_out k;
     k_seq := k_seq k; k_slot := v; k_buf := k_buf k |}.
Definition with_buf (k : caller) (b : list Z) : caller :=
  {| k_co := k_co k; k_tok := k_tok k; k_prog := k_prog k; k_stat := k_stat k; k_out := k_out k;
     k_seq := k_seq k; k_slot := k_slot k; k_buf := b |}.
Definition with_stat (k : caller) (s : cstat) : caller :=
  {| k_co := k_co k; k_tok := k_tok k; k_prog := k_prog k; k_stat := s; k_out := k_out k;
     k_seq := k_seq k; k_slot := k_slot k; k_buf := k_buf k |}.

(** [adapt_io_uring], first half, for one completion [(token, value)]: fill and unregister the slot
    the table holds for the token; gives the owner of that slot *)
Definition fill (st : state) (t : Z) (v : Z) : state * option nat :=
  match tget t (s_table st) with
  | None => (st, None)                            (* nobody registered: the completion is dropped *)
  | Some (o, q) =>
      let st' := set_table st (tdel t (s_table st)) in
      let k := nth o (s_callers st') cdummy in
      if is_wait (k_stat k) && Nat.eqb (k_seq k) q then (set_caller st' o (with_slot k (Some v)), Some o)
      else (st', Some o)                          (* slot of a call that has already returned *)
  end.

(** second half: wake. A thread waits on its slot; a coroutine is resumed by token and then reads its
    own slot (waiting on it with the event-loop thread if it is still empty) *)
Definition wake (st : state) (t : Z) (owner : option nat) : state :=
  let woken := match find_co t (s_callers st) O with Some c => Some c | None => owner end in
  match woken with
  | None => st
  | Some c =>
      let k := nth c (s_callers st) cdummy in
      if is_wait (k_stat k) then
        match k_slot k with
        | Some v => finish_call st c k (map_result v (k_buf k))
        | None => if k_co k then die st DWedge else st
        end
      else st
  end.

Definition dispatch (st : state) (t : Z) (v : Z) : state :=
  let '(st1, owner) := fill st t v in wake st1 t owner.

(** the data of a completed request lands in the buffer the request names: the submitting call's *)
Definition land (st : state) (q : sqe) (bytes : list Z) : state :=
  let k := nth (q_own q) (s_callers st) cdummy in
  if is_wait (k_stat k) && Nat.eqb (k_seq k) (q_seq q) then set_caller st (q_own q) (with_buf k bytes) else st.

(** the kernel completes the [j]-th request it holds, if it can *)
Definition complete (st : state) (j : nat) : state :=
  match nth_error (s_inflight st) j with
  | None => st
  | Some q =>
      let cl := q_call q in
      let ri := c_res cl in
      match kernel ri (nth ri (s_res st) rdummy) (c_op cl) (c_len cl) with
      | KPend => st
      | KDone v bytes r' =>
          let st1 := set_inflight (set_res st (upd ri r' (s_res st))) (del_nth j (s_inflight st)) in
          dispatch (land st1 q bytes) (q_tok q) v
      end
  end.

Definition completable (st : state) (q : sqe) : bool :=
  match kernel (c_res (q_call q)) (nth (c_res (q_call q)) (s_res st) rdummy) (c_op (q_call q)) (c_len (q_call q)) with
  | KPend => false
  | KDone _ _ _ => true
  end.

Fixpoint first_idx {A} (p : A -> bool) (l : list A) (i : nat) : option nat :=
  match l with
  | [] => None
  | x :: l' => if p x then Some i else first_idx p l' (S i)
  end.

(** a read-type call of a coroutine on a socket with a receive time limit can time out *)
Definition timed_call (st : state) (cl : call) : bool :=
  let rs := nth (c_res cl) (s_res st) rdummy in
  match classify (r_kind rs) (c_op cl) with CRead => r_timed rs | _ => false end.

Definition can_timeout (st : state) (k : caller) : bool :=
  k_co k && match k_stat k with SWait cl => timed_call st cl | _ => false end.

(** the time limit of coroutine [c]'s pending call expires: -1/ETIMEDOUT; slot and request stay *)
Definition timeout (st : state) (c : nat) : state :=
  let k := nth c (s_callers st) cdummy in
  if can_timeout st k then finish_call (add_tag st TTimeout) c k (RErr ETIMEDOUT) else st.

Definition is_held (k : caller) : bool := match k_stat k with SHeld _ => true | _ => false end.

(** the parked thread [c] goes on: hands its request to the kernel *)
Definition reg (st : state) (c : nat) : state :=
  let k := nth c (s_callers st) cdummy in
  match k_stat k with
  | SHeld cl => push (set_caller st c (with_stat k (SWait cl))) c (k_tok k) (k_seq k) cl
  | _ => st
  end.

Definition finished (k : caller) : bool :=
  match k_stat k with SDone | SNew => true | _ => false end.

(** one thing that can happen by itself: a completable request completes, else a parked thread is
    released, else a time limit expires; [None] when nothing can move *)
Definition move (st : state) : option state :=
  match first_idx (completable st) (s_inflight st) O with
  | Some j => Some (complete st j)
  | None =>
      match first_idx is_held (s_callers st) O with
      | Some c => Some (reg st c)
      | None =>
          match first_idx (can_timeout st) (s_callers st) O with
          | Some c => Some (timeout st c)
          | None => None
          end
      end
  end.

(** wait until [goal] holds: things move one at a time; the run is marked stuck when nothing can move *)
Fixpoint settle (fuel : nat) (goal : state -> bool) (st : state) : state :=
  match fuel with
  | O => diverge st
  | S f =>
      match s_dead st with
      | Some _ => st
      | None =>
          if goal st then st
          else match move st with Some st' => settle f goal st' | None => diverge st end
      end
  end.

Definition all_finished (st : state) : bool := forallb finished (s_callers st).
Definition one_finished (c : nat) (st : state) : bool := finished (nth c (s_callers st) cdummy).

(** * Scripts *)

Inductive ev :=
| EStart (c : nat)                 (* the caller starts running its program *)
| EFeed (r : nat) (n : Z) (w : bool) (* n more bytes for descriptor r; w: and wait for a completion *)
| EReg (c : nat)                   (* release the thread parked between registration and submission *)
| EJoin (c : nat)                  (* wait until the caller has finished *)
| EComplete (j : nat)              (* the kernel completes the j-th request it holds *)
| ETimeout (c : nat)               (* the time limit of the coroutine's pending call expires *)
| ESleep.                          (* time passes (nothing to do in the model) *)

Definition work (cs : list cspec) : nat := fold_right (fun c n => (length (cs_prog c) + n)%nat) O cs.

Definition feed (st : state) (r : nat) (n : Z) : state :=
  match nth_error (s_res st) r with
  | Some rs => if feedable (r_kind rs) (r_eof rs) && (0 <=? n) then set_res st (upd r (r_feed rs n) (s_res st)) else st
  | None => st
  end.

Definition step (fuel : nat) (st : state) (e : ev) : state :=
  match s_dead st with
  | Some _ => st
  | None =>
      if s_div st then st else
      match e with
      | EStart c =>
          match nth_error (s_callers st) c with
          | Some k => match k_stat k with SNew => advance st c k | _ => st end
          | None => st
          end
      | EFeed r n w =>
          let st1 := feed st r n in
          if w then
            match first_idx (fun q => Nat.eqb (c_res (q_call q)) r) (s_inflight st1) O with
            | Some j => complete st1 j
            | None => st1
            end
          else st1
      | EReg c => reg st c
      | EJoin c => settle fuel (one_finished c) st
      | EComplete j => complete st j
      | ETimeout c => timeout st c
      | ESleep => st
      end
  end.

Definition init (rs : list rspec) (cs : list cspec) : state :=
  {| s_res := map r_init rs; s_callers := map k_init cs; s_inflight := []; s_table := []; s_dead := None;
     s_div := false; s_tags := [] |}.

(** rounds a wait may need: every round completes a call, releases a thread or fires a time limit *)
Definition fuel_of (cs : list cspec) : nat := (3 * work cs + 3)%nat.

Definition run_state (rs : list rspec) (cs : list cspec) (script : list ev) : state :=
  let fuel := fuel_of cs in
  let st := fold_left (step fuel) script (init rs cs) in
  match s_dead st with
  | Some _ => st
  | None => if s_div st then st else settle fuel all_finished st
  end.
