(** Proofs for C21. *)
From OCV Require Import Base.Prelude Net.Selector Net.SelectorLemmas Net.SelectorOracle.
From Coq Require Import ZifyBool ZifyNat.
Open Scope Z_scope.

Lemma refuted_shared : exists pollers nfd ops,
  wf_C21 pollers nfd ops = true /\ ok_C21 pollers nfd ops (run_C21 pollers nfd ops) = false.
Proof. exists 2%nat, 1, [WaitR 0; WaitR 0]. split; vm_compute; reflexivity. Qed.

(** * One poller: the selector invariant *)

Record sinv (s : sel) : Prop := {
  v_kern : exists tb, s_kern s = [tb];
  v_coh : forall fd, kr (tbl s 0) fd = zmem fd (s_rrec s) /\ kw (tbl s 0) fd = zmem fd (s_wrec s);
  v_int : forall fd e, aget fd (tbl s 0) = Some e -> k_r e || k_w e = true;
  v_open : forall fd e, aget fd (tbl s 0) = Some e -> zmem fd (s_open s) = true
}.

(** [s'] has the records of [s] with read membership [fr] and write membership [fw] applied *)
Definition recs (s s' : sel) (fr fw : Z -> bool -> bool) : Prop :=
  s_open s' = s_open s
  /\ (forall x, zmem x (s_rrec s') = fr x (zmem x (s_rrec s)))
  /\ (forall x, zmem x (s_wrec s') = fw x (zmem x (s_wrec s))).

Definition keepm (_ : Z) (b : bool) : bool := b.
Definition addm (fd x : Z) (b : bool) : bool := (x =? fd) || b.
Definition remm (fd x : Z) (b : bool) : bool := negb (x =? fd) && b.

Lemma sinv_mark : forall s i fd, sinv s -> sinv (mark s i fd).
Proof.
  intros s i fd H. unfold mark. destruct (coherent s i fd); [exact H|].
  destruct H as [K C I O]. constructor; auto.
Qed.

Lemma recs_mark : forall s i fd, recs s (mark s i fd) keepm keepm.
Proof.
  intros s i fd. unfold mark. destruct (coherent s i fd); repeat split.
Qed.

Lemma recs_trans : forall s1 s2 s3 f1 g1 f2 g2,
  recs s1 s2 f1 g1 -> recs s2 s3 f2 g2 ->
  recs s1 s3 (fun x b => f2 x (f1 x b)) (fun x b => g2 x (g1 x b)).
Proof.
  intros s1 s2 s3 f1 g1 f2 g2 [A1 [B1 C1]] [A2 [B2 C2]]. repeat split.
  - congruence.
  - intros x. now rewrite B2, B1.
  - intros x. now rewrite C2, C1.
Qed.

Lemma absent_iff : forall s fd, sinv s ->
  (aget fd (tbl s 0) = None <-> zmem fd (s_rrec s) = false /\ zmem fd (s_wrec s) = false).
Proof.
  intros s fd [K C I O]. destruct (C fd) as [C1 C2]. unfold kr, kw in *.
  destruct (aget fd (tbl s 0)) as [e|] eqn:G.
  - specialize (I fd e G). split; [discriminate|]. intros [H1 H2].
    rewrite <- C1 in H1. rewrite <- C2 in H2. rewrite H1, H2 in I. discriminate.
  - split; [|reflexivity]. intros _. now rewrite <- C1, <- C2.
Qed.

Lemma kr_aset : forall t fd e x, kr (aset fd e t) x = if x =? fd then k_r e else kr t x.
Proof. intros. unfold kr. rewrite aget_aset. now destruct (x =? fd). Qed.
Lemma kw_aset : forall t fd e x, kw (aset fd e t) x = if x =? fd then k_w e else kw t x.
Proof. intros. unfold kw. rewrite aget_aset. now destruct (x =? fd). Qed.
Lemma kr_arem : forall t fd x, kr (arem fd t) x = if x =? fd then false else kr t x.
Proof. intros. unfold kr. rewrite aget_arem. now destruct (x =? fd). Qed.
Lemma kw_arem : forall t fd x, kw (arem fd t) x = if x =? fd then false else kw t x.
Proof. intros. unfold kw. rewrite aget_arem. now destruct (x =? fd). Qed.

(** a state whose table is [tb'] and whose records have the given membership is again coherent *)
Lemma sinv_build : forall s s' tb' fr fw,
  s_kern s' = [tb'] -> recs s s' fr fw ->
  (forall x, kr tb' x = fr x (zmem x (s_rrec s)) /\ kw tb' x = fw x (zmem x (s_wrec s))) ->
  (forall x e, aget x tb' = Some e -> k_r e || k_w e = true) ->
  (forall x e, aget x tb' = Some e -> zmem x (s_open s) = true) ->
  sinv s'.
Proof.
  intros s s' tb' fr fw K [A [B C]] H1 H2 H3.
  assert (T : tbl s' 0 = tb') by (unfold tbl; now rewrite K).
  constructor.
  - now exists tb'.
  - intros x. rewrite T, B, C. apply H1.
  - intros x e. rewrite T. apply H2.
  - intros x e. rewrite T, A. apply H3.
Qed.

Section OnePoller.
Variable s : sel.
Variable tb : ktable.
Hypothesis Hs : sinv s.
Hypothesis Hk : s_kern s = [tb].

Lemma tbl_is : tbl s 0 = tb.
Proof. unfold tbl. now rewrite Hk. Qed.

Lemma add_read_spec : forall fd tok,
  exists ok s', add_read_event s 0 fd tok = (ok, s') /\ sinv s'
    /\ recs s s' (fun x b => if ok then addm fd x b else b) keepm.
Proof.
  intros fd tok. unfold add_read_event.
  pose proof (sinv_mark s 0%nat fd Hs) as Hm. pose proof (recs_mark s 0%nat fd) as Rm.
  assert (Km : s_kern (mark s 0 fd) = [tb]) by (unfold mark; destruct (coherent s 0 fd); exact Hk).
  set (m := mark s 0 fd) in *. clearbody m.
  assert (Tm : tbl m 0 = tb) by (unfold tbl; now rewrite Km).
  destruct Rm as [Ro [Rr Rw]]. unfold keepm in Rr, Rw.
  destruct (zmem fd (s_rrec m)) eqn:Er.
  - exists true, m. split; [reflexivity|]. split; [exact Hm|]. repeat split; auto.
    intros x. rewrite Rr. unfold addm. destruct (x =? fd) eqn:E; [|reflexivity].
    apply Z.eqb_eq in E; subst x. now rewrite <- Rr, Er.
  - pose proof (v_coh m Hm fd) as [C1 C2]. rewrite Tm in C1, C2.
    destruct (zmem fd (s_wrec m)) eqn:Ew.
    + (* write interest already there: modify *)
      unfold rereg_or_reg, reregister, k_mod. rewrite Tm.
      assert (G : exists e, aget fd tb = Some e).
      { unfold kw in C2. destruct (aget fd tb) as [e|]; [now exists e|discriminate]. }
      destruct G as [e G]. rewrite <- Tm in G. rewrite (v_open m Hm fd e G). cbn [negb]. rewrite Tm in G. rewrite G.
      eexists true, _. split; [reflexivity|]. split.
      * eapply (sinv_build m _ (aset fd {| k_r := true; k_w := true; k_tok := encode tok |} tb)
                  (fun x b => addm fd x b) keepm).
        -- cbn [s_kern with_r with_tokfd with_tbl]. now rewrite Km.
        -- repeat split; cbn [s_open s_rrec s_wrec with_r with_tokfd with_tbl]; auto.
           intros x. apply zmem_zadd.
        -- intros x. rewrite kr_aset, kw_aset. cbn [k_r k_w]. unfold addm, keepm.
           pose proof (v_coh m Hm x) as [D1 D2]. rewrite Tm in D1, D2.
           destruct (x =? fd) eqn:E; [|now rewrite D1, D2].
           apply Z.eqb_eq in E; subst x. now rewrite Ew.
        -- intros x e0. rewrite aget_aset. destruct (x =? fd); [intros H; inversion H; reflexivity|].
           rewrite <- Tm. apply (v_int m Hm).
        -- intros x e0. rewrite aget_aset. destruct (x =? fd) eqn:E.
           ++ intros _. apply Z.eqb_eq in E; subst x. rewrite <- Tm in G. exact (v_open m Hm fd e G).
           ++ rewrite <- Tm. apply (v_open m Hm).
      * repeat split; cbn [s_open s_rrec s_wrec with_r with_tokfd with_tbl]; auto.
        -- intros x. rewrite zmem_zadd, Rr. reflexivity.
    + (* nothing registered yet *)
      assert (Gn : aget fd tb = None).
      { rewrite <- Tm. apply (absent_iff m fd Hm). now split. }
      unfold register, k_add. rewrite Tm, Gn.
      destruct (zmem fd (s_open m)) eqn:Eo; cbn [negb].
      * eexists true, _. split; [reflexivity|]. split.
        -- eapply (sinv_build m _ (aset fd {| k_r := true; k_w := false; k_tok := encode tok |} tb)
                    (fun x b => addm fd x b) keepm).
           ++ cbn [s_kern with_r with_tokfd with_tbl]. now rewrite Km.
           ++ repeat split; cbn [s_open s_rrec s_wrec with_r with_tokfd with_tbl]; auto.
              intros x. apply zmem_zadd.
           ++ intros x. rewrite kr_aset, kw_aset. cbn [k_r k_w]. unfold addm, keepm.
              pose proof (v_coh m Hm x) as [D1 D2]. rewrite Tm in D1, D2.
              destruct (x =? fd) eqn:E; [|now rewrite D1, D2].
              apply Z.eqb_eq in E; subst x. now rewrite Ew.
           ++ intros x e0. rewrite aget_aset. destruct (x =? fd); [intros H; inversion H; reflexivity|].
              rewrite <- Tm. apply (v_int m Hm).
           ++ intros x e0. rewrite aget_aset. destruct (x =? fd) eqn:E.
              ** intros _. apply Z.eqb_eq in E; subst x. exact Eo.
              ** rewrite <- Tm. apply (v_open m Hm).
        -- repeat split; cbn [s_open s_rrec s_wrec with_r with_tokfd with_tbl]; auto.
           intros x. rewrite zmem_zadd, Rr. reflexivity.
      * exists false, m. split; [reflexivity|]. split; [exact Hm|]. repeat split; auto.
Qed.

Lemma add_write_spec : forall fd tok,
  exists ok s', add_write_event s 0 fd tok = (ok, s') /\ sinv s'
    /\ recs s s' keepm (fun x b => if ok then addm fd x b else b).
Proof.
  intros fd tok. unfold add_write_event.
  pose proof (sinv_mark s 0%nat fd Hs) as Hm. pose proof (recs_mark s 0%nat fd) as Rm.
  assert (Km : s_kern (mark s 0 fd) = [tb]) by (unfold mark; destruct (coherent s 0 fd); exact Hk).
  set (m := mark s 0 fd) in *. clearbody m.
  assert (Tm : tbl m 0 = tb) by (unfold tbl; now rewrite Km).
  destruct Rm as [Ro [Rr Rw]]. unfold keepm in Rw, Rr.
  destruct (zmem fd (s_wrec m)) eqn:Ew.
  - exists true, m. split; [reflexivity|]. split; [exact Hm|]. repeat split; auto.
    intros x. rewrite Rw. unfold addm. destruct (x =? fd) eqn:E; [|reflexivity].
    apply Z.eqb_eq in E; subst x. now rewrite <- Rw, Ew.
  - pose proof (v_coh m Hm fd) as [C1 C2]. rewrite Tm in C2, C1.
    destruct (zmem fd (s_rrec m)) eqn:Er.
    + (* write interest already there: modify *)
      unfold rereg_or_reg, reregister, k_mod. rewrite Tm.
      assert (G : exists e, aget fd tb = Some e).
      { unfold kr in C1. destruct (aget fd tb) as [e|]; [now exists e|discriminate]. }
      destruct G as [e G]. rewrite <- Tm in G. rewrite (v_open m Hm fd e G). cbn [negb]. rewrite Tm in G. rewrite G.
      eexists true, _. split; [reflexivity|]. split.
      * eapply (sinv_build m _ (aset fd {| k_r := true; k_w := true; k_tok := encode tok |} tb)
                  keepm (fun x b => addm fd x b)).
        -- cbn [s_kern with_w with_tokfd with_tbl]. now rewrite Km.
        -- repeat split; cbn [s_open s_wrec s_rrec with_w with_tokfd with_tbl]; auto.
           intros x. apply zmem_zadd.
        -- intros x. rewrite kr_aset, kw_aset. cbn [k_r k_w]. unfold addm, keepm.
           pose proof (v_coh m Hm x) as [D1 D2]. rewrite Tm in D2, D1.
           destruct (x =? fd) eqn:E; [|now rewrite D2, D1].
           apply Z.eqb_eq in E; subst x. now rewrite Er.
        -- intros x e0. rewrite aget_aset. destruct (x =? fd); [intros H; inversion H; reflexivity|].
           rewrite <- Tm. apply (v_int m Hm).
        -- intros x e0. rewrite aget_aset. destruct (x =? fd) eqn:E.
           ++ intros _. apply Z.eqb_eq in E; subst x. rewrite <- Tm in G. exact (v_open m Hm fd e G).
           ++ rewrite <- Tm. apply (v_open m Hm).
      * repeat split; cbn [s_open s_wrec s_rrec with_w with_tokfd with_tbl]; auto.
        -- intros x. rewrite zmem_zadd, Rw. reflexivity.
    + (* nothing registered yet *)
      assert (Gn : aget fd tb = None).
      { rewrite <- Tm. apply (absent_iff m fd Hm). now split. }
      unfold register, k_add. rewrite Tm, Gn.
      destruct (zmem fd (s_open m)) eqn:Eo; cbn [negb].
      * eexists true, _. split; [reflexivity|]. split.
        -- eapply (sinv_build m _ (aset fd {| k_r := false; k_w := true; k_tok := encode tok |} tb)
                    keepm (fun x b => addm fd x b)).
           ++ cbn [s_kern with_w with_tokfd with_tbl]. now rewrite Km.
           ++ repeat split; cbn [s_open s_wrec s_rrec with_w with_tokfd with_tbl]; auto.
              intros x. apply zmem_zadd.
           ++ intros x. rewrite kr_aset, kw_aset. cbn [k_r k_w]. unfold addm, keepm.
              pose proof (v_coh m Hm x) as [D1 D2]. rewrite Tm in D2, D1.
              destruct (x =? fd) eqn:E; [|now rewrite D2, D1].
              apply Z.eqb_eq in E; subst x. now rewrite Er.
           ++ intros x e0. rewrite aget_aset. destruct (x =? fd); [intros H; inversion H; reflexivity|].
              rewrite <- Tm. apply (v_int m Hm).
           ++ intros x e0. rewrite aget_aset. destruct (x =? fd) eqn:E.
              ** intros _. apply Z.eqb_eq in E; subst x. exact Eo.
              ** rewrite <- Tm. apply (v_open m Hm).
        -- repeat split; cbn [s_open s_wrec s_rrec with_w with_tokfd with_tbl]; auto.
           intros x. rewrite zmem_zadd, Rw. reflexivity.
      * exists false, m. split; [reflexivity|]. split; [exact Hm|]. repeat split; auto.
Qed.


End OnePoller.

Section OnePollerDel.
Variable m : sel.
Variable tb : ktable.
Hypothesis Hm : sinv m.
Hypothesis Km : s_kern m = [tb].

Lemma tbl_m : tbl m 0 = tb.
Proof. unfold tbl. now rewrite Km. Qed.

Lemma present_open : forall fd, zmem fd (s_rrec m) || zmem fd (s_wrec m) = true ->
  exists e, aget fd tb = Some e /\ zmem fd (s_open m) = true.
Proof.
  intros fd H. destruct (aget fd tb) as [e|] eqn:G.
  - exists e. split; [reflexivity|]. rewrite <- tbl_m in G. exact (v_open m Hm fd e G).
  - rewrite <- tbl_m in G. apply (absent_iff m fd Hm) in G. destruct G as [G1 G2].
    rewrite G1, G2 in H. discriminate.
Qed.

Lemma after_del_entry : forall fd s',
  s_kern s' = [arem fd tb] -> recs m s' (remm fd) (remm fd) -> sinv s'.
Proof.
  intros fd s' K R. apply (sinv_build m s' (arem fd tb) (remm fd) (remm fd) K R).
  - intros x. rewrite kr_arem, kw_arem. unfold remm.
    pose proof (v_coh m Hm x) as [D1 D2]. rewrite tbl_m in D1, D2.
    destruct (x =? fd); [split; reflexivity|]. now rewrite D1, D2.
  - intros x e. rewrite aget_arem. destruct (x =? fd); [discriminate|]. rewrite <- tbl_m. apply (v_int m Hm).
  - intros x e. rewrite aget_arem. destruct (x =? fd); [discriminate|]. rewrite <- tbl_m. apply (v_open m Hm).
Qed.

Lemma del_core_spec : forall fd,
  exists s', del_event_core m 0 fd = (true, s') /\ sinv s' /\ recs m s' (remm fd) (remm fd).
Proof.
  intros fd. unfold del_event_core.
  destruct (zmem fd (s_rrec m) || zmem fd (s_wrec m)) eqn:Ec.
  - destruct (present_open fd Ec) as [e [G Op]].
    assert (FIN : forall s1 tok, s_kern s1 = s_kern m -> s_open s1 = s_open m -> s_rrec s1 = s_rrec m ->
              s_wrec s1 = s_wrec m ->
              exists s', (let '(ok, s2) := deregister s1 0 fd tok in
                          if ok then (true, with_w (with_r s2 (zrem fd (s_rrec s2)) (s_rtok s2)) (zrem fd (s_wrec s2)) (s_wtok s2))
                          else (false, s2)) = (true, s')
                         /\ sinv s' /\ recs m s' (remm fd) (remm fd)).
    { intros s1 tok E1 E2 E3 E4. unfold deregister, k_del. unfold tbl at 1. rewrite E1, E2, Km. cbn [nth].
      rewrite Op. cbn [negb]. rewrite G.
      eexists. split; [reflexivity|].
      match goal with |- sinv ?x /\ _ => set (sf := x) end.
      assert (K' : s_kern sf = [arem fd tb]).
      { subst sf. cbn [s_kern with_w with_r with_tokfd with_tbl]. unfold tbl. rewrite E1, Km. reflexivity. }
      assert (R : recs m sf (remm fd) (remm fd)).
      { subst sf. repeat split; cbn [s_open s_rrec s_wrec with_w with_r with_tokfd with_tbl].
        - exact E2.
        - intros x. rewrite E3. apply zmem_zrem.
        - intros x. rewrite E4. apply zmem_zrem. }
      clearbody sf. split; [|exact R]. exact (after_del_entry fd sf K' R). }
    destruct (aget fd (s_rtok m)) as [t1|]; [|destruct (aget fd (s_wtok m)) as [t2|]].
    + apply FIN; reflexivity.
    + apply FIN; reflexivity.
    + apply FIN; reflexivity.
  - exists m. split; [reflexivity|]. split; [exact Hm|].
    apply orb_false_iff in Ec as [E1 E2]. repeat split; intros x; unfold remm;
      (destruct (x =? fd) eqn:E; [apply Z.eqb_eq in E; subst x; cbn; assumption|reflexivity]).
Qed.

End OnePollerDel.

Lemma kern_mark : forall s i fd, s_kern (mark s i fd) = s_kern s.
Proof. intros s i fd. unfold mark. now destruct (coherent s i fd). Qed.

Lemma del_event_spec : forall s tb fd, sinv s -> s_kern s = [tb] ->
  exists s', del_event s 0 fd = (true, s') /\ sinv s' /\ recs s s' (remm fd) (remm fd).
Proof.
  intros s tb fd Hs Hk. unfold del_event.
  assert (Km : s_kern (mark s 0 fd) = [tb]) by now rewrite kern_mark.
  destruct (del_core_spec (mark s 0 fd) tb (sinv_mark s 0%nat fd Hs) Km fd) as [s' [E [I R]]].
  exists s'. split; [exact E|]. split; [exact I|].
  exact (recs_trans _ _ _ _ _ _ _ (recs_mark s 0%nat fd) R).
Qed.

Lemma del_read_spec : forall s tb fd, sinv s -> s_kern s = [tb] ->
  exists s', del_read_event s 0 fd = (true, s') /\ sinv s' /\ recs s s' (remm fd) keepm.
Proof.
  intros s tb fd Hs Hk. unfold del_read_event.
  assert (Km : s_kern (mark s 0 fd) = [tb]) by now rewrite kern_mark.
  pose proof (sinv_mark s 0%nat fd Hs) as Hm. pose proof (recs_mark s 0%nat fd) as Rm.
  set (m := mark s 0 fd) in *. clearbody m.
  assert (Tm : tbl m 0 = tb) by (unfold tbl; now rewrite Km).
  assert (GOAL : exists s', (if zmem fd (s_rrec m)
      then if zmem fd (s_wrec m)
           then let tok := match aget fd (s_wtok m) with Some t => t | None => 0 end in
                let '(ok, s1) := reregister m 0 fd tok false true in
                if ok then (true, with_r s1 (zrem fd (s_rrec s1)) (arem fd (s_rtok s1))) else (false, s1)
           else del_event_core m 0 fd
      else (true, m)) = (true, s') /\ sinv s' /\ recs m s' (remm fd) keepm).
  { destruct (zmem fd (s_rrec m)) eqn:Er.
    - destruct (zmem fd (s_wrec m)) eqn:Ew.
      + destruct (present_open m tb Hm Km fd) as [e [G Op]]; [now rewrite Er|].
        cbv zeta. unfold reregister, k_mod. rewrite Tm, Op, G. cbn [negb].
        eexists. split; [reflexivity|].
        match goal with |- sinv ?x /\ _ => set (sf := x) end.
        assert (R : recs m sf (remm fd) keepm).
        { subst sf. repeat split; cbn [s_open s_rrec s_wrec with_w with_r with_tokfd with_tbl].
          intros x. apply zmem_zrem. }
        split; [|exact R].
        eapply (sinv_build m sf _ (remm fd) keepm); [|exact R| | |].
        * subst sf. cbn [s_kern with_w with_r with_tokfd with_tbl]. rewrite Km. reflexivity.
        * intros x. rewrite kr_aset, kw_aset. cbn [k_r k_w]. unfold remm, keepm.
          pose proof (v_coh m Hm x) as [D1 D2]. rewrite Tm in D1, D2.
          destruct (x =? fd) eqn:E; [|now rewrite D1, D2].
          apply Z.eqb_eq in E; subst x. now rewrite Ew.
        * intros x e0. rewrite aget_aset. destruct (x =? fd); [intros H; inversion H; reflexivity|].
          rewrite <- Tm. apply (v_int m Hm).
        * intros x e0. rewrite aget_aset. destruct (x =? fd) eqn:E.
          -- intros _. apply Z.eqb_eq in E; subst x. exact Op.
          -- rewrite <- Tm. apply (v_open m Hm).
      + destruct (del_core_spec m tb Hm Km fd) as [s' [E [I [R1 [R2 R3]]]]].
        exists s'. split; [exact E|]. split; [exact I|]. repeat split; auto.
        intros x. rewrite R3. unfold remm, keepm. destruct (x =? fd) eqn:Ex; [|reflexivity].
        apply Z.eqb_eq in Ex; subst x. now rewrite Ew.
    - exists m. split; [reflexivity|]. split; [exact Hm|]. repeat split; auto.
      intros x. unfold remm. destruct (x =? fd) eqn:Ex; [|reflexivity].
      apply Z.eqb_eq in Ex; subst x. now rewrite Er. }
  destruct GOAL as [s' [E [I R]]]. exists s'. split; [exact E|]. split; [exact I|].
  exact (recs_trans _ _ _ _ _ _ _ Rm R).
Qed.

Lemma del_write_spec : forall s tb fd, sinv s -> s_kern s = [tb] ->
  exists s', del_write_event s 0 fd = (true, s') /\ sinv s' /\ recs s s' keepm (remm fd).
Proof.
  intros s tb fd Hs Hk. unfold del_write_event.
  assert (Km : s_kern (mark s 0 fd) = [tb]) by now rewrite kern_mark.
  pose proof (sinv_mark s 0%nat fd Hs) as Hm. pose proof (recs_mark s 0%nat fd) as Rm.
  set (m := mark s 0 fd) in *. clearbody m.
  assert (Tm : tbl m 0 = tb) by (unfold tbl; now rewrite Km).
  assert (GOAL : exists s', (if zmem fd (s_wrec m)
      then if zmem fd (s_rrec m)
           then let tok := match aget fd (s_rtok m) with Some t => t | None => 0 end in
                let '(ok, s1) := reregister m 0 fd tok true false in
                if ok then (true, with_w s1 (zrem fd (s_wrec s1)) (arem fd (s_wtok s1))) else (false, s1)
           else del_event_core m 0 fd
      else (true, m)) = (true, s') /\ sinv s' /\ recs m s' keepm (remm fd)).
  { destruct (zmem fd (s_wrec m)) eqn:Ew.
    - destruct (zmem fd (s_rrec m)) eqn:Er.
      + destruct (present_open m tb Hm Km fd) as [e [G Op]]; [now rewrite Er|].
        cbv zeta. unfold reregister, k_mod. rewrite Tm, Op, G. cbn [negb].
        eexists. split; [reflexivity|].
        match goal with |- sinv ?x /\ _ => set (sf := x) end.
        assert (R : recs m sf keepm (remm fd)).
        { subst sf. repeat split; cbn [s_open s_rrec s_wrec with_w with_r with_tokfd with_tbl].
          intros x. apply zmem_zrem. }
        split; [|exact R].
        eapply (sinv_build m sf _ keepm (remm fd)); [|exact R| | |].
        * subst sf. cbn [s_kern with_w with_r with_tokfd with_tbl]. rewrite Km. reflexivity.
        * intros x. rewrite kr_aset, kw_aset. cbn [k_r k_w]. unfold remm, keepm.
          pose proof (v_coh m Hm x) as [D1 D2]. rewrite Tm in D1, D2.
          destruct (x =? fd) eqn:E; [|now rewrite D1, D2].
          apply Z.eqb_eq in E; subst x. now rewrite Er.
        * intros x e0. rewrite aget_aset. destruct (x =? fd); [intros H; inversion H; reflexivity|].
          rewrite <- Tm. apply (v_int m Hm).
        * intros x e0. rewrite aget_aset. destruct (x =? fd) eqn:E.
          -- intros _. apply Z.eqb_eq in E; subst x. exact Op.
          -- rewrite <- Tm. apply (v_open m Hm).
      + destruct (del_core_spec m tb Hm Km fd) as [s' [E [I [R1 [R2 R3]]]]].
        exists s'. split; [exact E|]. split; [exact I|]. repeat split; auto.
        intros x. rewrite R2. unfold remm, keepm. destruct (x =? fd) eqn:Ex; [|reflexivity].
        apply Z.eqb_eq in Ex; subst x. now rewrite Er.
    - exists m. split; [reflexivity|]. split; [exact Hm|]. repeat split; auto.
      intros x. unfold remm. destruct (x =? fd) eqn:Ex; [|reflexivity].
      apply Z.eqb_eq in Ex; subst x. now rewrite Ew. }
  destruct GOAL as [s' [E [I R]]]. exists s'. split; [exact E|]. split; [exact I|].
  exact (recs_trans _ _ _ _ _ _ _ Rm R).
Qed.
