(** Proofs for C21. *)
From OCV Require Import Base.Prelude Net.Selector Net.SelectorLemmas Net.SelectorOracle.
From Coq Require Import ZifyBool ZifyNat.
Open Scope Z_scope.

Lemma refuted_shared : exists pollers nfd ops,
  wf_C21 pollers nfd ops = true /\ ok_C21 pollers nfd ops (run_C21 pollers nfd ops) = false.
Proof. exists 2%nat, 1, [WaitR 0; WaitR 0]. split; vm_compute; reflexivity. Qed.

(** * One poller: the selector invariant *)

Record sinv (s : sel) : Prop := {
  v_kern : exists tb, s_kern s = [tb];
  v_coh : forall fd, kr (tbl s 0) fd = zmem fd (s_rrec s) /\ kw (tbl s 0) fd = zmem fd (s_wrec s);
  v_int : forall fd e, aget fd (tbl s 0) = Some e -> k_r e || k_w e = true;
  v_open : forall fd e, aget fd (tbl s 0) = Some e -> zmem fd (s_open s) = true
}.

(** [s'] has the records of [s] with read membership [fr] and write membership [fw] applied *)
Definition recs (s s' : sel) (fr fw : Z -> bool -> bool) : Prop :=
  s_open s' = s_open s
  /\ (forall x, zmem x (s_rrec s') = fr x (zmem x (s_rrec s)))
  /\ (forall x, zmem x (s_wrec s') = fw x (zmem x (s_wrec s)))
  /\ s_tags s' = s_tags s.

Definition keepm (_ : Z) (b : bool) : bool := b.
Definition addm (fd x : Z) (b : bool) : bool := (x =? fd) || b.
Definition remm (fd x : Z) (b : bool) : bool := negb (x =? fd) && b.

Lemma sinv_mark : forall s i fd, sinv s -> sinv (mark s i fd).
Proof.
  intros s i fd H. unfold mark. destruct (coherent s i fd); [exact H|].
  destruct H as [K C I O]. constructor; auto.
Qed.

Lemma coherent_of_sinv : forall s fd, sinv s -> coherent s 0 fd = true.
Proof.
  intros s fd Hs. unfold coherent. destruct (v_coh s Hs fd) as [C1 C2]. rewrite C1, C2.
  now rewrite !eqb_reflx.
Qed.

Lemma mark_id : forall s fd, sinv s -> mark s 0 fd = s.
Proof. intros s fd Hs. unfold mark. now rewrite (coherent_of_sinv s fd Hs). Qed.

Lemma recs_mark : forall s fd, sinv s -> recs s (mark s 0 fd) keepm keepm.
Proof. intros s fd Hs. rewrite (mark_id s fd Hs). repeat split. Qed.

Lemma recs_trans : forall s1 s2 s3 f1 g1 f2 g2,
  recs s1 s2 f1 g1 -> recs s2 s3 f2 g2 ->
  recs s1 s3 (fun x b => f2 x (f1 x b)) (fun x b => g2 x (g1 x b)).
Proof.
  intros s1 s2 s3 f1 g1 f2 g2 [A1 [B1 [C1 D1]]] [A2 [B2 [C2 D2]]]. repeat split.
  - congruence.
  - intros x. now rewrite B2, B1.
  - intros x. now rewrite C2, C1.
  - congruence.
Qed.

Lemma absent_iff : forall s fd, sinv s ->
  (aget fd (tbl s 0) = None <-> zmem fd (s_rrec s) = false /\ zmem fd (s_wrec s) = false).
Proof.
  intros s fd [K C I O]. destruct (C fd) as [C1 C2]. unfold kr, kw in *.
  destruct (aget fd (tbl s 0)) as [e|] eqn:G.
  - specialize (I fd e G). split; [discriminate|]. intros [H1 H2].
    rewrite <- C1 in H1. rewrite <- C2 in H2. rewrite H1, H2 in I. discriminate.
  - split; [|reflexivity]. intros _. now rewrite <- C1, <- C2.
Qed.

Lemma kr_aset : forall t fd e x, kr (aset fd e t) x = if x =? fd then k_r e else kr t x.
Proof. intros. unfold kr. rewrite aget_aset. now destruct (x =? fd). Qed.
Lemma kw_aset : forall t fd e x, kw (aset fd e t) x = if x =? fd then k_w e else kw t x.
Proof. intros. unfold kw. rewrite aget_aset. now destruct (x =? fd). Qed.
Lemma kr_arem : forall t fd x, kr (arem fd t) x = if x =? fd then false else kr t x.
Proof. intros. unfold kr. rewrite aget_arem. now destruct (x =? fd). Qed.
Lemma kw_arem : forall t fd x, kw (arem fd t) x = if x =? fd then false else kw t x.
Proof. intros. unfold kw. rewrite aget_arem. now destruct (x =? fd). Qed.

(** a state whose table is [tb'] and whose records have the given membership is again coherent *)
Lemma sinv_build : forall s s' tb' fr fw,
  s_kern s' = [tb'] -> recs s s' fr fw ->
  (forall x, kr tb' x = fr x (zmem x (s_rrec s)) /\ kw tb' x = fw x (zmem x (s_wrec s))) ->
  (forall x e, aget x tb' = Some e -> k_r e || k_w e = true) ->
  (forall x e, aget x tb' = Some e -> zmem x (s_open s) = true) ->
  sinv s'.
Proof.
  intros s s' tb' fr fw K [A [B [C D]]] H1 H2 H3.
  assert (T : tbl s' 0 = tb') by (unfold tbl; now rewrite K).
  constructor.
  - now exists tb'.
  - intros x. rewrite T, B, C. apply H1.
  - intros x e. rewrite T. apply H2.
  - intros x e. rewrite T, A. apply H3.
Qed.

Section OnePoller.
Variable s : sel.
Variable tb : ktable.
Hypothesis Hs : sinv s.
Hypothesis Hk : s_kern s = [tb].

Lemma tbl_is : tbl s 0 = tb.
Proof. unfold tbl. now rewrite Hk. Qed.

Lemma add_read_spec : forall fd tok,
  exists ok s', add_read_event s 0 fd tok = (ok, s') /\ sinv s'
    /\ recs s s' (fun x b => if ok then addm fd x b else b) keepm.
Proof.
  intros fd tok. unfold add_read_event.
  pose proof (sinv_mark s 0%nat fd Hs) as Hm. pose proof (recs_mark s fd Hs) as Rm.
  assert (Km : s_kern (mark s 0 fd) = [tb]) by (unfold mark; destruct (coherent s 0 fd); exact Hk).
  set (m := mark s 0 fd) in *. clearbody m.
  assert (Tm : tbl m 0 = tb) by (unfold tbl; now rewrite Km).
  destruct Rm as [Ro [Rr [Rw Rt]]]. unfold keepm in Rr, Rw.
  destruct (zmem fd (s_rrec m)) eqn:Er.
  - exists true, m. split; [reflexivity|]. split; [exact Hm|]. repeat split; auto.
    intros x. rewrite Rr. unfold addm. destruct (x =? fd) eqn:E; [|reflexivity].
    apply Z.eqb_eq in E; subst x. now rewrite <- Rr, Er.
  - pose proof (v_coh m Hm fd) as [C1 C2]. rewrite Tm in C1, C2.
    destruct (zmem fd (s_wrec m)) eqn:Ew.
    + (* write interest already there: modify *)
      unfold rereg_or_reg, reregister, k_mod. rewrite Tm.
      assert (G : exists e, aget fd tb = Some e).
      { unfold kw in C2. destruct (aget fd tb) as [e|]; [now exists e|discriminate]. }
      destruct G as [e G]. rewrite <- Tm in G. rewrite (v_open m Hm fd e G). cbn [negb]. rewrite Tm in G. rewrite G.
      eexists true, _. split; [reflexivity|]. split.
      * eapply (sinv_build m _ (aset fd {| k_r := true; k_w := true; k_tok := encode tok |} tb)
                  (fun x b => addm fd x b) keepm).
        -- cbn [s_kern with_r with_tokfd with_tbl]. now rewrite Km.
        -- repeat split; cbn [s_open s_rrec s_wrec with_r with_tokfd with_tbl]; auto.
           intros x. apply zmem_zadd.
        -- intros x. rewrite kr_aset, kw_aset. cbn [k_r k_w]. unfold addm, keepm.
           pose proof (v_coh m Hm x) as [D1 D2]. rewrite Tm in D1, D2.
           destruct (x =? fd) eqn:E; [|now rewrite D1, D2].
           apply Z.eqb_eq in E; subst x. now rewrite Ew.
        -- intros x e0. rewrite aget_aset. destruct (x =? fd); [intros H; inversion H; reflexivity|].
           rewrite <- Tm. apply (v_int m Hm).
        -- intros x e0. rewrite aget_aset. destruct (x =? fd) eqn:E.
           ++ intros _. apply Z.eqb_eq in E; subst x. rewrite <- Tm in G. exact (v_open m Hm fd e G).
           ++ rewrite <- Tm. apply (v_open m Hm).
      * repeat split; cbn [s_open s_rrec s_wrec with_r with_tokfd with_tbl]; auto.
        -- intros x. rewrite zmem_zadd, Rr. reflexivity.
    + (* nothing registered yet *)
      assert (Gn : aget fd tb = None).
      { rewrite <- Tm. apply (absent_iff m fd Hm). now split. }
      unfold register, k_add. rewrite Tm, Gn.
      destruct (zmem fd (s_open m)) eqn:Eo; cbn [negb].
      * eexists true, _. split; [reflexivity|]. split.
        -- eapply (sinv_build m _ (aset fd {| k_r := true; k_w := false; k_tok := encode tok |} tb)
                    (fun x b => addm fd x b) keepm).
           ++ cbn [s_kern with_r with_tokfd with_tbl]. now rewrite Km.
           ++ repeat split; cbn [s_open s_rrec s_wrec with_r with_tokfd with_tbl]; auto.
              intros x. apply zmem_zadd.
           ++ intros x. rewrite kr_aset, kw_aset. cbn [k_r k_w]. unfold addm, keepm.
              pose proof (v_coh m Hm x) as [D1 D2]. rewrite Tm in D1, D2.
              destruct (x =? fd) eqn:E; [|now rewrite D1, D2].
              apply Z.eqb_eq in E; subst x. now rewrite Ew.
           ++ intros x e0. rewrite aget_aset. destruct (x =? fd); [intros H; inversion H; reflexivity|].
              rewrite <- Tm. apply (v_int m Hm).
           ++ intros x e0. rewrite aget_aset. destruct (x =? fd) eqn:E.
              ** intros _. apply Z.eqb_eq in E; subst x. exact Eo.
              ** rewrite <- Tm. apply (v_open m Hm).
        -- repeat split; cbn [s_open s_rrec s_wrec with_r with_tokfd with_tbl]; auto.
           intros x. rewrite zmem_zadd, Rr. reflexivity.
      * exists false, m. split; [reflexivity|]. split; [exact Hm|]. repeat split; auto.
Qed.

Lemma add_write_spec : forall fd tok,
  exists ok s', add_write_event s 0 fd tok = (ok, s') /\ sinv s'
    /\ recs s s' keepm (fun x b => if ok then addm fd x b else b).
Proof.
  intros fd tok. unfold add_write_event.
  pose proof (sinv_mark s 0%nat fd Hs) as Hm. pose proof (recs_mark s fd Hs) as Rm.
  assert (Km : s_kern (mark s 0 fd) = [tb]) by (unfold mark; destruct (coherent s 0 fd); exact Hk).
  set (m := mark s 0 fd) in *. clearbody m.
  assert (Tm : tbl m 0 = tb) by (unfold tbl; now rewrite Km).
  destruct Rm as [Ro [Rr [Rw Rt]]]. unfold keepm in Rw, Rr.
  destruct (zmem fd (s_wrec m)) eqn:Ew.
  - exists true, m. split; [reflexivity|]. split; [exact Hm|]. repeat split; auto.
    intros x. rewrite Rw. unfold addm. destruct (x =? fd) eqn:E; [|reflexivity].
    apply Z.eqb_eq in E; subst x. now rewrite <- Rw, Ew.
  - pose proof (v_coh m Hm fd) as [C1 C2]. rewrite Tm in C2, C1.
    destruct (zmem fd (s_rrec m)) eqn:Er.
    + (* write interest already there: modify *)
      unfold rereg_or_reg, reregister, k_mod. rewrite Tm.
      assert (G : exists e, aget fd tb = Some e).
      { unfold kr in C1. destruct (aget fd tb) as [e|]; [now exists e|discriminate]. }
      destruct G as [e G]. rewrite <- Tm in G. rewrite (v_open m Hm fd e G). cbn [negb]. rewrite Tm in G. rewrite G.
      eexists true, _. split; [reflexivity|]. split.
      * eapply (sinv_build m _ (aset fd {| k_r := true; k_w := true; k_tok := encode tok |} tb)
                  keepm (fun x b => addm fd x b)).
        -- cbn [s_kern with_w with_tokfd with_tbl]. now rewrite Km.
        -- repeat split; cbn [s_open s_wrec s_rrec with_w with_tokfd with_tbl]; auto.
           intros x. apply zmem_zadd.
        -- intros x. rewrite kr_aset, kw_aset. cbn [k_r k_w]. unfold addm, keepm.
           pose proof (v_coh m Hm x) as [D1 D2]. rewrite Tm in D2, D1.
           destruct (x =? fd) eqn:E; [|now rewrite D2, D1].
           apply Z.eqb_eq in E; subst x. now rewrite Er.
        -- intros x e0. rewrite aget_aset. destruct (x =? fd); [intros H; inversion H; reflexivity|].
           rewrite <- Tm. apply (v_int m Hm).
        -- intros x e0. rewrite aget_aset. destruct (x =? fd) eqn:E.
           ++ intros _. apply Z.eqb_eq in E; subst x. rewrite <- Tm in G. exact (v_open m Hm fd e G).
           ++ rewrite <- Tm. apply (v_open m Hm).
      * repeat split; cbn [s_open s_wrec s_rrec with_w with_tokfd with_tbl]; auto.
        -- intros x. rewrite zmem_zadd, Rw. reflexivity.
    + (* nothing registered yet *)
      assert (Gn : aget fd tb = None).
      { rewrite <- Tm. apply (absent_iff m fd Hm). now split. }
      unfold register, k_add. rewrite Tm, Gn.
      destruct (zmem fd (s_open m)) eqn:Eo; cbn [negb].
      * eexists true, _. split; [reflexivity|]. split.
        -- eapply (sinv_build m _ (aset fd {| k_r := false; k_w := true; k_tok := encode tok |} tb)
                    keepm (fun x b => addm fd x b)).
           ++ cbn [s_kern with_w with_tokfd with_tbl]. now rewrite Km.
           ++ repeat split; cbn [s_open s_wrec s_rrec with_w with_tokfd with_tbl]; auto.
              intros x. apply zmem_zadd.
           ++ intros x. rewrite kr_aset, kw_aset. cbn [k_r k_w]. unfold addm, keepm.
              pose proof (v_coh m Hm x) as [D1 D2]. rewrite Tm in D2, D1.
              destruct (x =? fd) eqn:E; [|now rewrite D2, D1].
              apply Z.eqb_eq in E; subst x. now rewrite Er.
           ++ intros x e0. rewrite aget_aset. destruct (x =? fd); [intros H; inversion H; reflexivity|].
              rewrite <- Tm. apply (v_int m Hm).
           ++ intros x e0. rewrite aget_aset. destruct (x =? fd) eqn:E.
              ** intros _. apply Z.eqb_eq in E; subst x. exact Eo.
              ** rewrite <- Tm. apply (v_open m Hm).
        -- repeat split; cbn [s_open s_wrec s_rrec with_w with_tokfd with_tbl]; auto.
           intros x. rewrite zmem_zadd, Rw. reflexivity.
      * exists false, m. split; [reflexivity|]. split; [exact Hm|]. repeat split; auto.
Qed.


End OnePoller.

Section OnePollerDel.
Variable m : sel.
Variable tb : ktable.
Hypothesis Hm : sinv m.
Hypothesis Km : s_kern m = [tb].

Lemma tbl_m : tbl m 0 = tb.
Proof. unfold tbl. now rewrite Km. Qed.

Lemma present_open : forall fd, zmem fd (s_rrec m) || zmem fd (s_wrec m) = true ->
  exists e, aget fd tb = Some e /\ zmem fd (s_open m) = true.
Proof.
  intros fd H. destruct (aget fd tb) as [e|] eqn:G.
  - exists e. split; [reflexivity|]. rewrite <- tbl_m in G. exact (v_open m Hm fd e G).
  - rewrite <- tbl_m in G. apply (absent_iff m fd Hm) in G. destruct G as [G1 G2].
    rewrite G1, G2 in H. discriminate.
Qed.

Lemma after_del_entry : forall fd s',
  s_kern s' = [arem fd tb] -> recs m s' (remm fd) (remm fd) -> sinv s'.
Proof.
  intros fd s' K R. apply (sinv_build m s' (arem fd tb) (remm fd) (remm fd) K R).
  - intros x. rewrite kr_arem, kw_arem. unfold remm.
    pose proof (v_coh m Hm x) as [D1 D2]. rewrite tbl_m in D1, D2.
    destruct (x =? fd); [split; reflexivity|]. now rewrite D1, D2.
  - intros x e. rewrite aget_arem. destruct (x =? fd); [discriminate|]. rewrite <- tbl_m. apply (v_int m Hm).
  - intros x e. rewrite aget_arem. destruct (x =? fd); [discriminate|]. rewrite <- tbl_m. apply (v_open m Hm).
Qed.

Lemma del_core_spec : forall fd,
  exists s', del_event_core m 0 fd = (true, s') /\ sinv s' /\ recs m s' (remm fd) (remm fd).
Proof.
  intros fd. unfold del_event_core.
  destruct (zmem fd (s_rrec m) || zmem fd (s_wrec m)) eqn:Ec.
  - destruct (present_open fd Ec) as [e [G Op]].
    assert (FIN : forall s1 tok, s_kern s1 = s_kern m -> s_open s1 = s_open m -> s_rrec s1 = s_rrec m ->
              s_wrec s1 = s_wrec m -> s_tags s1 = s_tags m ->
              exists s', (let '(ok, s2) := deregister s1 0 fd tok in
                          if ok then (true, with_w (with_r s2 (zrem fd (s_rrec s2)) (s_rtok s2)) (zrem fd (s_wrec s2)) (s_wtok s2))
                          else (false, s2)) = (true, s')
                         /\ sinv s' /\ recs m s' (remm fd) (remm fd)).
    { intros s1 tok E1 E2 E3 E4 E5. unfold deregister, k_del. unfold tbl at 1. rewrite E1, E2, Km. cbn [nth].
      rewrite Op. cbn [negb]. rewrite G.
      eexists. split; [reflexivity|].
      match goal with |- sinv ?x /\ _ => set (sf := x) end.
      assert (K' : s_kern sf = [arem fd tb]).
      { subst sf. cbn [s_kern with_w with_r with_tokfd with_tbl]. unfold tbl. rewrite E1, Km. reflexivity. }
      assert (R : recs m sf (remm fd) (remm fd)).
      { subst sf. repeat split; cbn [s_open s_rrec s_wrec s_tags with_w with_r with_tokfd with_tbl].
        - exact E2.
        - intros x. rewrite E3. apply zmem_zrem.
        - intros x. rewrite E4. apply zmem_zrem.
        - exact E5. }
      clearbody sf. split; [|exact R]. exact (after_del_entry fd sf K' R). }
    cbv zeta. apply FIN; reflexivity.
  - exists m. split; [reflexivity|]. split; [exact Hm|].
    apply orb_false_iff in Ec as [E1 E2]. repeat split; try (intros x; unfold remm;
      (destruct (x =? fd) eqn:E; [apply Z.eqb_eq in E; subst x; cbn; assumption|reflexivity])).
Qed.

End OnePollerDel.

Lemma kern_mark : forall s i fd, s_kern (mark s i fd) = s_kern s.
Proof. intros s i fd. unfold mark. now destruct (coherent s i fd). Qed.

Lemma del_event_spec : forall s tb fd, sinv s -> s_kern s = [tb] ->
  exists s', del_event s 0 fd = (true, s') /\ sinv s' /\ recs s s' (remm fd) (remm fd).
Proof.
  intros s tb fd Hs Hk. unfold del_event.
  assert (Km : s_kern (mark s 0 fd) = [tb]) by now rewrite kern_mark.
  destruct (del_core_spec (mark s 0 fd) tb (sinv_mark s 0%nat fd Hs) Km fd) as [s' [E [I R]]].
  exists s'. split; [exact E|]. split; [exact I|].
  exact (recs_trans _ _ _ _ _ _ _ (recs_mark s fd Hs) R).
Qed.

Lemma del_read_spec : forall s tb fd, sinv s -> s_kern s = [tb] ->
  exists s', del_read_event s 0 fd = (true, s') /\ sinv s' /\ recs s s' (remm fd) keepm.
Proof.
  intros s tb fd Hs Hk. unfold del_read_event.
  assert (Km : s_kern (mark s 0 fd) = [tb]) by now rewrite kern_mark.
  pose proof (sinv_mark s 0%nat fd Hs) as Hm. pose proof (recs_mark s fd Hs) as Rm.
  set (m := mark s 0 fd) in *. clearbody m.
  assert (Tm : tbl m 0 = tb) by (unfold tbl; now rewrite Km).
  assert (GOAL : exists s', (if zmem fd (s_rrec m)
      then if zmem fd (s_wrec m)
           then let tok := match aget fd (s_wtok m) with Some t => t | None => 0 end in
                let '(ok, s1) := reregister m 0 fd tok false true in
                if ok then (true, with_r s1 (zrem fd (s_rrec s1)) (arem fd (s_rtok s1))) else (false, s1)
           else del_event_core m 0 fd
      else (true, m)) = (true, s') /\ sinv s' /\ recs m s' (remm fd) keepm).
  { destruct (zmem fd (s_rrec m)) eqn:Er.
    - destruct (zmem fd (s_wrec m)) eqn:Ew.
      + destruct (present_open m tb Hm Km fd) as [e [G Op]]; [now rewrite Er|].
        cbv zeta. unfold reregister, k_mod. rewrite Tm, Op, G. cbn [negb].
        eexists. split; [reflexivity|].
        match goal with |- sinv ?x /\ _ => set (sf := x) end.
        assert (R : recs m sf (remm fd) keepm).
        { subst sf. repeat split; cbn [s_open s_rrec s_wrec with_w with_r with_tokfd with_tbl].
          intros x. apply zmem_zrem. }
        split; [|exact R].
        eapply (sinv_build m sf _ (remm fd) keepm); [|exact R| | |].
        * subst sf. cbn [s_kern with_w with_r with_tokfd with_tbl]. rewrite Km. reflexivity.
        * intros x. rewrite kr_aset, kw_aset. cbn [k_r k_w]. unfold remm, keepm.
          pose proof (v_coh m Hm x) as [D1 D2]. rewrite Tm in D1, D2.
          destruct (x =? fd) eqn:E; [|now rewrite D1, D2].
          apply Z.eqb_eq in E; subst x. now rewrite Ew.
        * intros x e0. rewrite aget_aset. destruct (x =? fd); [intros H; inversion H; reflexivity|].
          rewrite <- Tm. apply (v_int m Hm).
        * intros x e0. rewrite aget_aset. destruct (x =? fd) eqn:E.
          -- intros _. apply Z.eqb_eq in E; subst x. exact Op.
          -- rewrite <- Tm. apply (v_open m Hm).
      + destruct (del_core_spec m tb Hm Km fd) as [s' [E [I [R1 [R2 [R3 R4]]]]]].
        exists s'. split; [exact E|]. split; [exact I|]. repeat split; auto.
        intros x. rewrite R3. unfold remm, keepm. destruct (x =? fd) eqn:Ex; [|reflexivity].
        apply Z.eqb_eq in Ex; subst x. now rewrite Ew.
    - exists m. split; [reflexivity|]. split; [exact Hm|]. repeat split; auto.
      intros x. unfold remm. destruct (x =? fd) eqn:Ex; [|reflexivity].
      apply Z.eqb_eq in Ex; subst x. now rewrite Er. }
  destruct GOAL as [s' [E [I R]]]. exists s'. split; [exact E|]. split; [exact I|].
  exact (recs_trans _ _ _ _ _ _ _ Rm R).
Qed.

Lemma del_write_spec : forall s tb fd, sinv s -> s_kern s = [tb] ->
  exists s', del_write_event s 0 fd = (true, s') /\ sinv s' /\ recs s s' keepm (remm fd).
Proof.
  intros s tb fd Hs Hk. unfold del_write_event.
  assert (Km : s_kern (mark s 0 fd) = [tb]) by now rewrite kern_mark.
  pose proof (sinv_mark s 0%nat fd Hs) as Hm. pose proof (recs_mark s fd Hs) as Rm.
  set (m := mark s 0 fd) in *. clearbody m.
  assert (Tm : tbl m 0 = tb) by (unfold tbl; now rewrite Km).
  assert (GOAL : exists s', (if zmem fd (s_wrec m)
      then if zmem fd (s_rrec m)
           then let tok := match aget fd (s_rtok m) with Some t => t | None => 0 end in
                let '(ok, s1) := reregister m 0 fd tok true false in
                if ok then (true, with_w s1 (zrem fd (s_wrec s1)) (arem fd (s_wtok s1))) else (false, s1)
           else del_event_core m 0 fd
      else (true, m)) = (true, s') /\ sinv s' /\ recs m s' keepm (remm fd)).
  { destruct (zmem fd (s_wrec m)) eqn:Ew.
    - destruct (zmem fd (s_rrec m)) eqn:Er.
      + destruct (present_open m tb Hm Km fd) as [e [G Op]]; [now rewrite Er|].
        cbv zeta. unfold reregister, k_mod. rewrite Tm, Op, G. cbn [negb].
        eexists. split; [reflexivity|].
        match goal with |- sinv ?x /\ _ => set (sf := x) end.
        assert (R : recs m sf keepm (remm fd)).
        { subst sf. repeat split; cbn [s_open s_rrec s_wrec with_w with_r with_tokfd with_tbl].
          intros x. apply zmem_zrem. }
        split; [|exact R].
        eapply (sinv_build m sf _ keepm (remm fd)); [|exact R| | |].
        * subst sf. cbn [s_kern with_w with_r with_tokfd with_tbl]. rewrite Km. reflexivity.
        * intros x. rewrite kr_aset, kw_aset. cbn [k_r k_w]. unfold remm, keepm.
          pose proof (v_coh m Hm x) as [D1 D2]. rewrite Tm in D1, D2.
          destruct (x =? fd) eqn:E; [|now rewrite D1, D2].
          apply Z.eqb_eq in E; subst x. now rewrite Er.
        * intros x e0. rewrite aget_aset. destruct (x =? fd); [intros H; inversion H; reflexivity|].
          rewrite <- Tm. apply (v_int m Hm).
        * intros x e0. rewrite aget_aset. destruct (x =? fd) eqn:E.
          -- intros _. apply Z.eqb_eq in E; subst x. exact Op.
          -- rewrite <- Tm. apply (v_open m Hm).
      + destruct (del_core_spec m tb Hm Km fd) as [s' [E [I [R1 [R2 [R3 R4]]]]]].
        exists s'. split; [exact E|]. split; [exact I|]. repeat split; auto.
        intros x. rewrite R2. unfold remm, keepm. destruct (x =? fd) eqn:Ex; [|reflexivity].
        apply Z.eqb_eq in Ex; subst x. now rewrite Er.
    - exists m. split; [reflexivity|]. split; [exact Hm|]. repeat split; auto.
      intros x. unfold remm. destruct (x =? fd) eqn:Ex; [|reflexivity].
      apply Z.eqb_eq in Ex; subst x. now rewrite Ew. }
  destruct GOAL as [s' [E [I R]]]. exists s'. split; [exact E|]. split; [exact I|].
  exact (recs_trans _ _ _ _ _ _ _ Rm R).
Qed.

(** * The [EventLoops] entry points with one poller *)

Lemma all_loops_one : forall f s, loops s = 1%nat ->
  all_loops f s 0 (loops s) = (let '(ok, s1) := f s 0%nat in if ok then (true, s1) else (false, s1)).
Proof. intros f s H. rewrite H. cbn [all_loops]. destruct (f s 0%nat) as [[|] s1]; reflexivity. Qed.

Lemma loops_one : forall s tb, s_kern s = [tb] -> loops s = 1%nat.
Proof. intros s tb H. unfold loops. now rewrite H. Qed.

Lemma el_del_event_spec : forall s tb fd, sinv s -> s_kern s = [tb] ->
  exists s', el_del_event s fd = (true, s') /\ sinv s' /\ recs s s' (remm fd) (remm fd).
Proof.
  intros s tb fd Hs Hk. unfold el_del_event. rewrite (all_loops_one _ s (loops_one s tb Hk)).
  destruct (del_event_spec s tb fd Hs Hk) as [s' [E R]]. rewrite E. now exists s'.
Qed.

Lemma el_del_read_spec : forall s tb fd, sinv s -> s_kern s = [tb] ->
  exists s', el_del_read_event s fd = (true, s') /\ sinv s' /\ recs s s' (remm fd) keepm.
Proof.
  intros s tb fd Hs Hk. unfold el_del_read_event. rewrite (all_loops_one _ s (loops_one s tb Hk)).
  destruct (del_read_spec s tb fd Hs Hk) as [s' [E R]]. rewrite E. now exists s'.
Qed.

Lemma el_del_write_spec : forall s tb fd, sinv s -> s_kern s = [tb] ->
  exists s', el_del_write_event s fd = (true, s') /\ sinv s' /\ recs s s' keepm (remm fd).
Proof.
  intros s tb fd Hs Hk. unfold el_del_write_event. rewrite (all_loops_one _ s (loops_one s tb Hk)).
  destruct (del_write_spec s tb fd Hs Hk) as [s' [E R]]. rewrite E. now exists s'.
Qed.

(** * Snapshot vs table *)

Lemma zmem_fds : forall nfd fd, 0 <= fd < nfd -> zmem fd (fds nfd) = true.
Proof.
  intros nfd fd Hfd. unfold fds.
  assert (G : forall n k, (Z.to_nat fd < k + n)%nat -> (k <= Z.to_nat fd)%nat ->
            zmem fd (map Z.of_nat (seq k n)) = true).
  { intros n. induction n as [|n IHn]; intros k H1 H2; [lia|].
    cbn [seq map zmem]. destruct (fd =? Z.of_nat k) eqn:E; [reflexivity|]. cbn [orb].
    apply IHn; lia. }
  apply G; lia.
Qed.

Lemma fds_range : forall nfd fd, In fd (fds nfd) -> 0 <= fd < nfd.
Proof.
  intros nfd fd H. unfold fds in H. apply in_map_iff in H. destruct H as [k [H1 H2]].
  apply in_seq in H2. lia.
Qed.

Lemma existsb_pick : forall (h : Z -> bool) fd l,
  existsb (fun x => (x =? fd) && h x) l = zmem fd l && h fd.
Proof.
  intros h fd l. induction l as [|a l IH]; cbn [existsb zmem]; [reflexivity|].
  rewrite IH. rewrite (Z.eqb_sym fd a). destruct (a =? fd) eqn:E; cbn [andb orb].
  - apply Z.eqb_eq in E; subst a. destruct (h fd); [reflexivity|]. cbn. now rewrite andb_false_r.
  - reflexivity.
Qed.

Lemma row_r_flat : forall t fd l,
  existsb (fun x : row => let '(f, r, _) := x in (f =? fd) && r)
    (flat_map (fun fd' => match aget fd' t with Some e => [(fd', k_r e, k_w e)] | None => [] end) l)
  = existsb (fun x => (x =? fd) && kr t x) l.
Proof.
  intros t fd l. unfold row. induction l as [|a l IH]; [reflexivity|].
  cbn [flat_map]. rewrite existsb_app, IH. cbn [existsb]. f_equal. unfold kr.
  destruct (aget a t) as [e|]; cbn [existsb]; [now rewrite orb_false_r|now rewrite andb_false_r].
Qed.

Lemma row_w_flat : forall t fd l,
  existsb (fun x : row => let '(f, _, w) := x in (f =? fd) && w)
    (flat_map (fun fd' => match aget fd' t with Some e => [(fd', k_r e, k_w e)] | None => [] end) l)
  = existsb (fun x => (x =? fd) && kw t x) l.
Proof.
  intros t fd l. unfold row. induction l as [|a l IH]; [reflexivity|].
  cbn [flat_map]. rewrite existsb_app, IH. cbn [existsb]. f_equal. unfold kw.
  destruct (aget a t) as [e|]; cbn [existsb]; [now rewrite orb_false_r|now rewrite andb_false_r].
Qed.

Lemma row_r_snap : forall nfd t fd, row_r (snap_tbl nfd t) fd = zmem fd (fds nfd) && kr t fd.
Proof. intros nfd t fd. unfold row_r, snap_tbl. rewrite row_r_flat. apply existsb_pick. Qed.

Lemma row_w_snap : forall nfd t fd, row_w (snap_tbl nfd t) fd = zmem fd (fds nfd) && kw t fd.
Proof. intros nfd t fd. unfold row_w, snap_tbl. rewrite row_w_flat. apply existsb_pick. Qed.

(** tracker related to the records *)
Definition rel (s : sel) (t : trk) : Prop :=
  exists R W, t_r t = [R] /\ t_w t = [W]
    /\ (forall x, zmem x R = zmem x (s_rrec s)) /\ (forall x, zmem x W = zmem x (s_wrec s)).

Lemma tables_ok_of : forall nfd s t, sinv s -> rel s t ->
  tables_ok nfd (snapshot nfd s) (t_r t) (t_w t) = true.
Proof.
  intros nfd s t Hs [R [W [E1 [E2 [M1 M2]]]]]. destruct (v_kern s Hs) as [tb K].
  unfold snapshot. rewrite K, E1, E2. cbn [map tables_ok]. rewrite andb_true_r.
  unfold table_ok. apply forallb_forall. intros fd Hin.
  pose proof (fds_range nfd fd Hin) as Hfd.
  rewrite row_r_snap, row_w_snap, (zmem_fds nfd fd Hfd). cbn [andb].
  pose proof (v_coh s Hs fd) as [C1 C2]. unfold tbl in C1, C2. rewrite K in C1, C2. cbn [nth] in C1, C2.
  rewrite C1, C2, M1, M2. now rewrite !eqb_reflx.
Qed.

(** * One step and the whole run, one poller *)

Definition yinv (y : sys) (t : trk) : Prop := sinv (y_sel y) /\ rel (y_sel y) t.

Lemma rel_apply : forall s s' t fr fw R W,
  t_r t = [R] -> t_w t = [W] ->
  (forall x, zmem x R = zmem x (s_rrec s)) -> (forall x, zmem x W = zmem x (s_wrec s)) ->
  recs s s' fr fw ->
  forall R' W', (forall x, zmem x R' = fr x (zmem x R)) -> (forall x, zmem x W' = fw x (zmem x W)) ->
  forall t', t_r t' = [R'] -> t_w t' = [W'] -> rel s' t'.
Proof.
  intros s s' t fr fw R W E1 E2 M1 M2 [A [B [C D]]] R' W' N1 N2 t' F1 F2.
  exists R', W'. repeat split; auto.
  - intros x. now rewrite N1, B, M1.
  - intros x. now rewrite N2, C, M2.
Qed.

Lemma sinv_os_close : forall s fd, sinv s -> zmem fd (s_rrec s) = false -> zmem fd (s_wrec s) = false ->
  sinv (os_close s fd).
Proof.
  intros s fd Hs E1 E2. destruct (v_kern s Hs) as [tb K].
  assert (T : tbl s 0 = tb) by (unfold tbl; now rewrite K).
  assert (T' : tbl (os_close s fd) 0 = arem fd tb).
  { unfold tbl, os_close. cbn [s_kern with_open]. now rewrite K. }
  constructor.
  - exists (arem fd tb). unfold os_close. cbn [s_kern with_open]. now rewrite K.
  - intros x. rewrite T', kr_arem, kw_arem. cbn [os_close s_rrec s_wrec with_open].
    pose proof (v_coh s Hs x) as [D1 D2]. rewrite T in D1, D2.
    destruct (x =? fd) eqn:E; [|now split].
    apply Z.eqb_eq in E; subst x. now rewrite E1, E2.
  - intros x e. rewrite T', aget_arem. destruct (x =? fd); [discriminate|]. rewrite <- T. apply (v_int s Hs).
  - intros x e. rewrite T', aget_arem. destruct (x =? fd) eqn:E; [discriminate|]. rewrite <- T. intros H.
    cbn [os_close s_open with_open]. rewrite zmem_zrem, E. cbn. exact (v_open s Hs x e H).
Qed.

Lemma sinv_os_open : forall s fd, sinv s -> sinv (os_open s fd).
Proof.
  intros s fd [K C I O]. constructor; auto.
  intros x e H. cbn [os_open s_open with_open]. rewrite zmem_zadd. rewrite (O x e H). apply orb_true_r.
Qed.

Lemma sinv_deliver : forall s tok r w, sinv s -> sinv (deliver s tok r w).
Proof. intros s tok r w [K C I O]. unfold deliver. destruct r, w; constructor; auto. Qed.

Lemma rel_same_recs : forall s s' t, s_rrec s' = s_rrec s -> s_wrec s' = s_wrec s -> rel s t -> rel s' t.
Proof.
  intros s s' t E1 E2 [R [W [A [B [M1 M2]]]]]. exists R, W. rewrite E1, E2. repeat split; auto.
Qed.

Lemma step_inv1 : forall y t o, yinv y t -> yinv (fst (step y o)) (trk_step t o (snd (step y o))).
Proof.
  intros y t o [Hs Hr]. destruct (v_kern _ Hs) as [tb Hk].
  pose proof (loops_one _ tb Hk) as L1.
  destruct Hr as [R [W [E1 [E2 [M1 M2]]]]].
  assert (Len : List.length (t_r t) = 1%nat) by now rewrite E1.
  assert (Len2 : List.length (t_w t) = 1%nat) by now rewrite E2.
  destruct o as [fd|fd|fd|fd|fd|fd|fd|fd|fd|fd|fd|tok r w]; cbn [step].
  - (* WaitR *)
    rewrite L1, Nat.mod_1_r.
    destruct (add_read_spec _ tb Hs Hk fd thread_token) as [ok [s' [E [I Rc]]]]. rewrite E. cbn [fst snd y_sel].
    split; [exact I|]. cbn [trk_step]. rewrite Len, Nat.mod_1_r.
    destruct ok.
    + eapply (rel_apply _ s' t _ _ R W E1 E2 M1 M2 Rc (zadd fd R) W).
      * intros x. apply zmem_zadd.
      * intros x. reflexivity.
      * cbn [t_r]. unfold upd. rewrite E1. reflexivity.
      * cbn [t_w]. exact E2.
    + eapply (rel_apply _ s' t _ _ R W E1 E2 M1 M2 Rc R W); try reflexivity; cbn; auto.
  - (* WaitW *)
    rewrite L1, Nat.mod_1_r.
    destruct (add_write_spec _ tb Hs Hk fd thread_token) as [ok [s' [E [I Rc]]]]. rewrite E. cbn [fst snd y_sel].
    split; [exact I|]. cbn [trk_step]. rewrite Len, Nat.mod_1_r.
    destruct ok.
    + eapply (rel_apply _ s' t _ _ R W E1 E2 M1 M2 Rc R (zadd fd W)).
      * intros x. reflexivity.
      * intros x. apply zmem_zadd.
      * cbn [t_r]. exact E1.
      * cbn [t_w]. unfold upd. rewrite E2. reflexivity.
    + eapply (rel_apply _ s' t _ _ R W E1 E2 M1 M2 Rc R W); try reflexivity; cbn; auto.
  - (* DelR *)
    destruct (el_del_read_spec _ tb fd Hs Hk) as [s' [E [I Rc]]]. rewrite E. cbn [fst snd y_sel].
    split; [exact I|]. cbn [trk_step].
    eapply (rel_apply _ s' t _ _ R W E1 E2 M1 M2 Rc (zrem fd R) W).
    + intros x. apply zmem_zrem.
    + intros x. reflexivity.
    + cbn [t_r]. now rewrite E1.
    + cbn [t_w]. exact E2.
  - (* DelW *)
    destruct (el_del_write_spec _ tb fd Hs Hk) as [s' [E [I Rc]]]. rewrite E. cbn [fst snd y_sel].
    split; [exact I|]. cbn [trk_step].
    eapply (rel_apply _ s' t _ _ R W E1 E2 M1 M2 Rc R (zrem fd W)).
    + intros x. reflexivity.
    + intros x. apply zmem_zrem.
    + cbn [t_r]. exact E1.
    + cbn [t_w]. now rewrite E2.
  - (* DelE *)
    destruct (el_del_event_spec _ tb fd Hs Hk) as [s' [E [I Rc]]]. rewrite E. cbn [fst snd y_sel].
    split; [exact I|]. cbn [trk_step].
    eapply (rel_apply _ s' t _ _ R W E1 E2 M1 M2 Rc (zrem fd R) (zrem fd W)).
    + intros x. apply zmem_zrem.
    + intros x. apply zmem_zrem.
    + cbn [t_r]. now rewrite E1.
    + cbn [t_w]. now rewrite E2.
  - (* Close *)
    destruct (el_del_event_spec _ tb fd Hs Hk) as [s' [E [I Rc]]]. rewrite E. cbn [fst snd y_sel].
    pose proof Rc as [_ [B [C _]]].
    assert (F1 : zmem fd (s_rrec s') = false) by (rewrite B; unfold remm; now rewrite Z.eqb_refl).
    assert (F2 : zmem fd (s_wrec s') = false) by (rewrite C; unfold remm; now rewrite Z.eqb_refl).
    split; [now apply sinv_os_close|]. cbn [trk_step].
    apply (rel_same_recs s' (os_close s' fd)); [reflexivity|reflexivity|].
    eapply (rel_apply _ s' t _ _ R W E1 E2 M1 M2 Rc (zrem fd R) (zrem fd W)).
    + intros x. apply zmem_zrem.
    + intros x. apply zmem_zrem.
    + cbn [t_r]. now rewrite E1.
    + cbn [t_w]. now rewrite E2.
  - (* ShutRd *)
    destruct (el_del_read_spec _ tb fd Hs Hk) as [s' [E [I Rc]]]. rewrite E. cbn [fst snd y_sel].
    split; [exact I|]. cbn [trk_step].
    eapply (rel_apply _ s' t _ _ R W E1 E2 M1 M2 Rc (zrem fd R) W).
    + intros x. apply zmem_zrem.
    + intros x. reflexivity.
    + cbn [t_r]. now rewrite E1.
    + cbn [t_w]. exact E2.
  - (* ShutWr *)
    destruct (el_del_write_spec _ tb fd Hs Hk) as [s' [E [I Rc]]]. rewrite E. cbn [fst snd y_sel].
    split; [exact I|]. cbn [trk_step].
    eapply (rel_apply _ s' t _ _ R W E1 E2 M1 M2 Rc R (zrem fd W)).
    + intros x. reflexivity.
    + intros x. apply zmem_zrem.
    + cbn [t_r]. exact E1.
    + cbn [t_w]. now rewrite E2.
  - (* ShutRdWr *)
    destruct (el_del_event_spec _ tb fd Hs Hk) as [s' [E [I Rc]]]. rewrite E. cbn [fst snd y_sel].
    split; [exact I|]. cbn [trk_step].
    eapply (rel_apply _ s' t _ _ R W E1 E2 M1 M2 Rc (zrem fd R) (zrem fd W)).
    + intros x. apply zmem_zrem.
    + intros x. apply zmem_zrem.
    + cbn [t_r]. now rewrite E1.
    + cbn [t_w]. now rewrite E2.
  - (* ShutBad *)
    cbn [fst snd trk_step]. split; [exact Hs|]. exists R, W. repeat split; auto.
  - (* Reopen *)
    cbn [fst snd y_sel trk_step]. split; [now apply sinv_os_open|].
    apply (rel_same_recs (y_sel y)); [reflexivity|reflexivity|]. exists R, W. repeat split; auto.
  - (* Deliver *)
    cbn [fst snd y_sel trk_step]. split; [now apply sinv_deliver|].
    apply (rel_same_recs (y_sel y)); [destruct r, w; reflexivity|destruct r, w; reflexivity|].
    exists R, W. repeat split; auto.
Qed.

Lemma run_inv1 : forall nfd ops y t, yinv y t -> ok_from nfd t ops (fst (run_from nfd y ops)) = true.
Proof.
  intros nfd ops. induction ops as [|o ops IH]; intros y t Hy; [reflexivity|].
  pose proof (step_inv1 y t o Hy) as Hy1.
  cbn [run_from]. destruct (step y o) as [y1 res] eqn:Es. cbn [fst snd] in Hy1.
  destruct (run_from nfd y1 ops) as [rs yf] eqn:Er. cbn [fst ok_from].
  apply andb_true_iff. split.
  - destruct Hy1 as [A B]. now apply tables_ok_of.
  - specialize (IH y1 _ Hy1). now rewrite Er in IH.
Qed.

Lemma yinv_init : forall nfd, yinv (sys_init 1 nfd) (trk_init 1).
Proof.
  intros nfd. split.
  - constructor; cbn [sys_init y_sel sel_init s_kern repeat].
    + now exists [].
    + intros fd. split; reflexivity.
    + intros fd e H. discriminate.
    + intros fd e H. discriminate.
  - exists [], []. repeat split.
Qed.

Lemma holds_outside : forall pollers nfd ops,
  wf_C21 pollers nfd ops = true -> no_defect pollers = true ->
  ok_C21 pollers nfd ops (run_C21 pollers nfd ops) = true.
Proof.
  intros pollers nfd ops _ Hp. unfold no_defect in Hp. apply Nat.eqb_eq in Hp. subst pollers.
  unfold ok_C21, run_C21. apply run_inv1. apply yinv_init.
Qed.

(** the oracle's clause in words *)
Lemma table_ok_sound : forall nfd rows wr ww, table_ok nfd rows wr ww = true ->
  forall fd, 0 <= fd < nfd -> row_r rows fd = zmem fd wr /\ row_w rows fd = zmem fd ww.
Proof.
  intros nfd rows wr ww H fd Hfd. unfold table_ok in H. rewrite forallb_forall in H.
  assert (Hin : In fd (fds nfd)).
  { unfold fds. apply in_map_iff. exists (Z.to_nat fd). split; [lia|]. apply in_seq. lia. }
  specialize (H fd Hin). apply andb_true_iff in H as [H1 H2].
  apply eqb_prop in H1. apply eqb_prop in H2. now split.
Qed.

(** reachable states of a one-poller run satisfy the invariant *)
Lemma reach_inv1 : forall nfd ops y t, yinv y t ->
  exists t', yinv (snd (run_from nfd y ops)) t'.
Proof.
  intros nfd ops. induction ops as [|o ops IH]; intros y t Hy; [now exists t|].
  pose proof (step_inv1 y t o Hy) as Hy1. cbn [run_from].
  destruct (step y o) as [y1 res] eqn:Es. cbn [fst snd] in Hy1.
  destruct (IH y1 _ Hy1) as [t' Ht']. destruct (run_from nfd y1 ops) as [rs yf]. now exists t'.
Qed.

(** a descriptor number closed through the runtime and handed out again starts clean: no record, no
    interest in the OS table *)
Lemma reuse_clean : forall nfd ops fd,
  let y := snd (run_from nfd (sys_init 1 nfd) (ops ++ [Close fd; Reopen fd])) in
  zmem fd (s_rrec (y_sel y)) = false /\ zmem fd (s_wrec (y_sel y)) = false
  /\ aget fd (tbl (y_sel y) 0) = None /\ zmem fd (s_open (y_sel y)) = true.
Proof.
  intros nfd ops fd.
  assert (SPLIT : forall l1 l2 y, snd (run_from nfd y (l1 ++ l2)) = snd (run_from nfd (snd (run_from nfd y l1)) l2)).
  { induction l1 as [|o l1 IH]; intros l2 y; [reflexivity|].
    cbn [app run_from]. destruct (step y o) as [y1 res]. specialize (IH l2 y1).
    destruct (run_from nfd y1 (l1 ++ l2)) as [rs yf]. destruct (run_from nfd y1 l1) as [rs1 yf1].
    cbn [snd] in *. exact IH. }
  cbv zeta. rewrite SPLIT.
  destruct (reach_inv1 nfd ops _ _ (yinv_init nfd)) as [t [Hs Hr]].
  set (y0 := snd (run_from nfd (sys_init 1 nfd) ops)) in *. clearbody y0.
  destruct (v_kern _ Hs) as [tb Hk].
  cbn [run_from step].
  destruct (el_del_event_spec _ tb fd Hs Hk) as [s' [E [I Rc]]]. rewrite E. cbn [snd y_sel].
  pose proof Rc as [_ [B [C _]]].
  assert (F1 : zmem fd (s_rrec s') = false) by (rewrite B; unfold remm; now rewrite Z.eqb_refl).
  assert (F2 : zmem fd (s_wrec s') = false) by (rewrite C; unfold remm; now rewrite Z.eqb_refl).
  pose proof (sinv_os_open _ fd (sinv_os_close s' fd I F1 F2)) as If.
  split; [exact F1|]. split; [exact F2|]. split.
  - apply (absent_iff _ fd If). split; [exact F1|exact F2].
  - cbn [os_open s_open with_open]. rewrite zmem_zadd, Z.eqb_refl. reflexivity.
Qed.

(** * With one poller the defect tag is never raised *)
Lemma step_tags1 : forall y t o, yinv y t -> s_tags (y_sel (fst (step y o))) = s_tags (y_sel y).
Proof.
  intros y t o [Hs Hr]. destruct (v_kern _ Hs) as [tb Hk].
  pose proof (loops_one _ tb Hk) as L1.
  destruct o as [fd|fd|fd|fd|fd|fd|fd|fd|fd|fd|fd|tok r w]; cbn [step].
  - rewrite L1, Nat.mod_1_r.
    destruct (add_read_spec _ tb Hs Hk fd thread_token) as [ok [s' [E [I [_ [_ [_ T]]]]]]]. now rewrite E.
  - rewrite L1, Nat.mod_1_r.
    destruct (add_write_spec _ tb Hs Hk fd thread_token) as [ok [s' [E [I [_ [_ [_ T]]]]]]]. now rewrite E.
  - destruct (el_del_read_spec _ tb fd Hs Hk) as [s' [E [I [_ [_ [_ T]]]]]]. now rewrite E.
  - destruct (el_del_write_spec _ tb fd Hs Hk) as [s' [E [I [_ [_ [_ T]]]]]]. now rewrite E.
  - destruct (el_del_event_spec _ tb fd Hs Hk) as [s' [E [I [_ [_ [_ T]]]]]]. now rewrite E.
  - destruct (el_del_event_spec _ tb fd Hs Hk) as [s' [E [I [_ [_ [_ T]]]]]]. now rewrite E.
  - destruct (el_del_read_spec _ tb fd Hs Hk) as [s' [E [I [_ [_ [_ T]]]]]]. now rewrite E.
  - destruct (el_del_write_spec _ tb fd Hs Hk) as [s' [E [I [_ [_ [_ T]]]]]]. now rewrite E.
  - destruct (el_del_event_spec _ tb fd Hs Hk) as [s' [E [I [_ [_ [_ T]]]]]]. now rewrite E.
  - reflexivity.
  - reflexivity.
  - cbn [fst y_sel]. unfold deliver. destruct r, w; reflexivity.
Qed.

Lemma run_tags1 : forall nfd ops y t, yinv y t ->
  s_tags (y_sel (snd (run_from nfd y ops))) = s_tags (y_sel y).
Proof.
  intros nfd ops. induction ops as [|o ops IH]; intros y t Hy; [reflexivity|].
  pose proof (step_inv1 y t o Hy) as Hy1. pose proof (step_tags1 y t o Hy) as T1.
  cbn [run_from]. destruct (step y o) as [y1 res]. cbn [fst snd] in *.
  specialize (IH y1 _ Hy1). destruct (run_from nfd y1 ops) as [rs yf]. cbn [snd] in *. congruence.
Qed.

Lemma one_poller_never_tagged : forall nfd ops, tags_C21 1 nfd ops = [].
Proof. intros nfd ops. unfold tags_C21. now rewrite (run_tags1 nfd ops _ _ (yinv_init nfd)). Qed.
