(** Proofs for C21. *)
From OCV Require Import Base.Prelude Net.Selector Net.SelectorLemmas Net.SelectorOracle.
From Coq Require Import ZifyBool ZifyNat.
Open Scope Z_scope.

Lemma refuted_shared : exists pollers nfd ops,
  wf_C21 pollers nfd ops = true /\ ok_C21 pollers nfd ops (run_C21 pollers nfd ops) = false.
Proof. exists 2%nat, 1, [WaitR 0; WaitR 0]. split; vm_compute; reflexivity. Qed.
