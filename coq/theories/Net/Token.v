(** C20 model: one event loop. On top of [Selector.v] (poller 0 of one; the selector bookkeeping is
    the one C21 uses: [add_read_event], [add_write_event], [del_event], [del_read_event],
    [del_write_event], [deliver], [os_close], [os_open]) it adds what [net/event_loop.rs] and
    [scheduler.rs] contribute to the wake-up path: [COROUTINE_TOKENS], the scheduler's table of
    coroutines suspended in a wait, [EventLoop::token], [EventLoop::resume] and
    [Scheduler::try_resume]. Waits exist for both directions (read / write readiness), descriptors
    can be closed through the hooked [close] and their numbers handed out again. No proofs here. *)
From OCV Require Import Base.Prelude Net.Selector.
Open Scope Z_scope.

(** descriptor value used (by the model's ghost and by the oracle's tracker alike) for a wait whose
    descriptor had its interest deleted (or was closed) while the coroutine was suspended *)
Definition VOID : Z := -1.

(** what a suspended coroutine waits for: descriptor and direction ([false] = readable,
    [true] = writable) *)
Definition want := (Z * bool)%type.

Definition void_fd (fd : Z) (l : list (Z * want)) : list (Z * want) :=
  map (fun p : Z * want => let '(c, (f, w)) := p in (c, (if f =? fd then VOID else f, w))) l.

Definition void_dir (fd : Z) (d : bool) (l : list (Z * want)) : list (Z * want) :=
  map (fun p : Z * want =>
         let '(c, (f, w)) := p in (c, (if (f =? fd) && Bool.eqb w d then VOID else f, w))) l.

Definition waits_for (fd : Z) (d : bool) (p : Z * want) : bool :=
  (fst (snd p) =? fd) && Bool.eqb (snd (snd p)) d.

Definition waiters_on (fd : Z) (d : bool) (l : list (Z * want)) : list Z :=
  map fst (filter (waits_for fd d) l).

Definition subset (a b : list Z) : bool := forallb (fun x => zmem x b) a.
Definition same_set (a b : list Z) : bool := subset a b && subset b a.
Definition is_nil {A} (l : list A) : bool := match l with [] => true | _ => false end.

Inductive ctag :=
| TagOutlives    (* registration_outlives_wait *)
| TagOneToken.   (* one_token_per_descriptor *)

Record loop := {
  l_sel : sel;
  l_cotok : list Z;            (* COROUTINE_TOKENS *)
  l_sys : list (Z * want);     (* scheduler.syscall: suspended coroutine id -> (ghost) what it waits for *)
  l_ctags : list ctag
}.

Definition loop_init (nfd : Z) : loop :=
  {| l_sel := sel_init 1 (map Z.of_nat (seq 0 (Z.to_nat nfd))); l_cotok := []; l_sys := []; l_ctags := [] |}.

Inductive op :=
| Wait (d : bool) (c fd : Z)   (* coroutine [c] waits for [fd] to become readable ([d = false]) or writable
                                  ([d = true]), with a timeout far in the future *)
| WaitT (d : bool) (c fd : Z)  (* the same with a short timeout that passes with no readiness *)
| Ready (d : bool) (fd : Z)    (* [d = false]: new data arrives on [fd]; [d = true]: the full send buffer
                                  of [fd] drains, [fd] becomes writable *)
| Del (fd : Z)                 (* [EventLoops::del_event(fd)] *)
| DelDir (d : bool) (fd : Z)   (* [EventLoops::del_read_event(fd)] / [del_write_event(fd)] *)
| Close (fd : Z)               (* the hooked [close(fd)]: [EventLoops::del_event(fd)], then the OS call *)
| Reopen (fd : Z).             (* the OS hands the descriptor number out again (a new socket) *)

(** what the OS holds for a descriptor: read interest, write interest, token ([/proc] [events:], [data:]) *)
Definition kview := option (bool * bool * Z).

Inductive obs :=
| OReg (ok : bool) (k : kview)            (* the wait began; what the OS now holds for the descriptor *)
| ORegT (ok : bool) (k : kview) (by_timeout : bool)
| OBusy                                   (* a coroutine with this id is still suspended: nothing done *)
| OEvent (tok : Z) (hit : bool) (woken : list Z)  (* event seen by the loop: token read back,
                                             found in COROUTINE_TOKENS, coroutines resumed by it *)
| ONoEvent                                (* the OS holds no interest of that direction for the descriptor *)
| ODel (ok : bool) (k : kview)
| OClose (ok : bool)
| OReopen
| OOther.

Definition kdata (l : loop) (fd : Z) : kview :=
  match aget fd (tbl (l_sel l) 0) with Some e => Some (k_r e, k_w e, k_tok e) | None => None end.

Definition with_sel (l : loop) (s : sel) : loop :=
  {| l_sel := s; l_cotok := l_cotok l; l_sys := l_sys l; l_ctags := l_ctags l |}.
Definition with_sys (l : loop) (y : list (Z * want)) : loop :=
  {| l_sel := l_sel l; l_cotok := l_cotok l; l_sys := y; l_ctags := l_ctags l |}.

(** [EventLoop::token] on the coroutine path followed by [Selector::add_read_event] /
    [add_write_event] *)
Definition begin_wait (l : loop) (d : bool) (c fd : Z) : bool * loop :=
  let '(ok, s) := if d then add_write_event (l_sel l) 0 fd c else add_read_event (l_sel l) 0 fd c in
  (ok, {| l_sel := s; l_cotok := zadd c (l_cotok l); l_sys := l_sys l; l_ctags := l_ctags l |}).

(** ghost: which recorded finding a mis-delivered event belongs to. The event for ([fd], [d]) came
    with token [tok]: when somebody waits for ([fd], [d]) and the coroutine named by the token is
    itself suspended on the other direction of [fd], both waits are outstanding and the OS holds one
    token for the two of them; otherwise a registration (or its token) has outlived its wait. *)
Definition classify (y : list (Z * want)) (fd : Z) (d : bool) (tok : Z) : ctag :=
  match aget tok y with
  | Some (f, w) =>
      if (f =? fd) && negb (Bool.eqb w d) && negb (is_nil (waiters_on fd d y)) then TagOneToken else TagOutlives
  | None => TagOutlives
  end.

Definition step (l : loop) (o : op) : loop * obs :=
  match o with
  | Wait d c fd =>
      match aget c (l_sys l) with
      | Some _ => (l, OBusy)
      | None =>
          let '(ok, l1) := begin_wait l d c fd in
          if ok then (with_sys l1 (aset c (fd, d) (l_sys l1)), OReg true (kdata l1 fd))
          else (l1, OReg false (kdata l1 fd))
      end
  | WaitT d c fd =>
      match aget c (l_sys l) with
      | Some _ => (l, OBusy)
      | None =>
          let '(ok, l1) := begin_wait l d c fd in
          (l1, ORegT ok (kdata l1 fd) ok)
      end
  | Ready d fd =>
      match aget fd (tbl (l_sel l) 0) with
      | Some e =>
          if (if d then k_w e else k_r e) then
            (* one event, carrying the stored token and the flag of the direction that became ready
               (the other direction is not ready at that moment: see the harness) *)
            let tok := decode (k_tok e) in
            let s := deliver (l_sel l) tok (negb d) d in
            let hit := zmem tok (l_cotok l) in
            let woken := if hit then match aget tok (l_sys l) with Some _ => [tok] | None => [] end else [] in
            let sys := if hit then arem tok (l_sys l) else l_sys l in
            let bad := negb (same_set (waiters_on fd d (l_sys l)) woken) in
            ({| l_sel := s; l_cotok := zrem tok (l_cotok l); l_sys := sys;
                l_ctags := if bad then classify (l_sys l) fd d tok :: l_ctags l else l_ctags l |},
             OEvent tok hit woken)
          else (l, ONoEvent)
      | None => (l, ONoEvent)
      end
  | Del fd =>
      let '(ok, s) := el_del_event (l_sel l) fd in
      let l1 := with_sys (with_sel l s) (void_fd fd (l_sys l)) in
      (l1, ODel ok (kdata l1 fd))
  | DelDir d fd =>
      let '(ok, s) := if d then el_del_write_event (l_sel l) fd else el_del_read_event (l_sel l) fd in
      let l1 := with_sys (with_sel l s) (void_dir fd d (l_sys l)) in
      (l1, ODel ok (kdata l1 fd))
  | Close fd =>
      let '(_, s) := el_del_event (l_sel l) fd in
      (with_sys (with_sel l (os_close s fd)) (void_fd fd (l_sys l)), OClose (zmem fd (s_open s)))
  | Reopen fd =>
      (with_sel l (os_open (l_sel l) fd), OReopen)
  end.

Fixpoint run_from (l : loop) (ops : list op) : list obs * loop :=
  match ops with
  | [] => ([], l)
  | o :: ops' => let '(l1, r) := step l o in let '(rs, lf) := run_from l1 ops' in (r :: rs, lf)
  end.
