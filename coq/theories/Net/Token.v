(** C20 model: one event loop. On top of [Selector.v] (poller 0 of one) it adds what
    [net/event_loop.rs] and [scheduler.rs] contribute to the wake-up path:
    [COROUTINE_TOKENS], the scheduler's table of coroutines suspended in a wait, [EventLoop::token],
    [EventLoop::resume] and [Scheduler::try_resume]. No proofs here. *)
From OCV Require Import Base.Prelude Net.Selector.
Open Scope Z_scope.

(** descriptor value used (by the model's ghost and by the oracle's tracker alike) for a wait whose
    descriptor had its interest deleted while the coroutine was suspended *)
Definition VOID : Z := -1.

Fixpoint void_fd (fd : Z) (l : list (Z * Z)) : list (Z * Z) :=
  match l with
  | [] => []
  | (c, f) :: l' => (c, if f =? fd then VOID else f) :: void_fd fd l'
  end.

Definition waiters_on (fd : Z) (l : list (Z * Z)) : list Z :=
  map fst (filter (fun p => snd p =? fd) l).

Definition subset (a b : list Z) : bool := forallb (fun x => zmem x b) a.
Definition same_set (a b : list Z) : bool := subset a b && subset b a.

Inductive ctag := TagOutlives.  (* registration_outlives_wait *)

Record loop := {
  l_sel : sel;
  l_cotok : list Z;          (* COROUTINE_TOKENS *)
  l_sys : list (Z * Z);      (* scheduler.syscall: suspended coroutine id -> (ghost) descriptor it waits on *)
  l_ctags : list ctag
}.

Definition loop_init (nfd : Z) : loop :=
  {| l_sel := sel_init 1 (map Z.of_nat (seq 0 (Z.to_nat nfd))); l_cotok := []; l_sys := []; l_ctags := [] |}.

Inductive op :=
| Wait (c fd : Z)      (* coroutine [c] waits for [fd] to become readable, with a timeout far in the future *)
| WaitT (c fd : Z)     (* the same with a short timeout that passes with no readiness: woken by the timeout *)
| Ready (fd : Z)       (* new data arrives on [fd] *)
| Del (fd : Z).        (* [EventLoops::del_event(fd)], what the hooked [close] does first *)

Inductive obs :=
| OReg (ok : bool) (data : option Z)      (* the wait began; token the OS now holds for the descriptor *)
| ORegT (ok : bool) (data : option Z) (by_timeout : bool)
| OBusy                                   (* a coroutine with this id is still suspended: nothing done *)
| OEvent (tok : Z) (hit : bool) (woken : list Z)  (* event seen by the loop: token read back,
                                             found in COROUTINE_TOKENS, coroutines resumed by it *)
| ONoEvent                                (* the OS holds no read interest for the descriptor *)
| ODel (ok : bool)
| OOther.

Definition kdata (l : loop) (fd : Z) : option Z :=
  match aget fd (tbl (l_sel l) 0) with Some e => Some (k_tok e) | None => None end.

(** [EventLoop::token] on the coroutine path followed by [Selector::add_read_event] *)
Definition begin_wait (l : loop) (c fd : Z) : bool * loop :=
  let '(ok, s) := add_read_event (l_sel l) 0 fd c in
  (ok, {| l_sel := s; l_cotok := zadd c (l_cotok l); l_sys := l_sys l; l_ctags := l_ctags l |}).

Definition step (l : loop) (o : op) : loop * obs :=
  match o with
  | Wait c fd =>
      match aget c (l_sys l) with
      | Some _ => (l, OBusy)
      | None =>
          let '(ok, l1) := begin_wait l c fd in
          if ok then
            ({| l_sel := l_sel l1; l_cotok := l_cotok l1; l_sys := aset c fd (l_sys l1); l_ctags := l_ctags l1 |},
             OReg true (kdata l1 fd))
          else (l1, OReg false (kdata l1 fd))
      end
  | WaitT c fd =>
      match aget c (l_sys l) with
      | Some _ => (l, OBusy)
      | None =>
          let '(ok, l1) := begin_wait l c fd in
          (l1, ORegT ok (kdata l1 fd) ok)
      end
  | Ready fd =>
      match aget fd (tbl (l_sel l) 0) with
      | Some e =>
          if k_r e then
            let tok := decode (k_tok e) in
            let s := deliver (l_sel l) tok true (k_w e) in
            let hit := zmem tok (l_cotok l) in
            let woken := if hit then match aget tok (l_sys l) with Some _ => [tok] | None => [] end else [] in
            let sys := if hit then arem tok (l_sys l) else l_sys l in
            let bad := negb (same_set (waiters_on fd (l_sys l)) woken) in
            ({| l_sel := s; l_cotok := zrem tok (l_cotok l); l_sys := sys;
                l_ctags := if bad then TagOutlives :: l_ctags l else l_ctags l |},
             OEvent tok hit woken)
          else (l, ONoEvent)
      | None => (l, ONoEvent)
      end
  | Del fd =>
      let '(ok, s) := el_del_event (l_sel l) fd in
      ({| l_sel := s; l_cotok := l_cotok l; l_sys := void_fd fd (l_sys l); l_ctags := l_ctags l |}, ODel ok)
  end.

Fixpoint run_from (l : loop) (ops : list op) : list obs * loop :=
  match ops with
  | [] => ([], l)
  | o :: ops' => let '(l1, r) := step l o in let '(rs, lf) := run_from l1 ops' in (r :: rs, lf)
  end.
