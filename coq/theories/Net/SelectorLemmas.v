(** Lemmas about the finite sets / maps of [Selector.v] and about the kernel table. *)
From OCV Require Import Base.Prelude Net.Selector.
From Coq Require Import ZifyBool ZifyNat.
Open Scope Z_scope.

Lemma zmem_zadd : forall x y l, zmem x (zadd y l) = (x =? y) || zmem x l.
Proof.
  intros x y l. unfold zadd. destruct (zmem y l) eqn:E; cbn [zmem]; [|reflexivity].
  destruct (x =? y) eqn:Exy; [|reflexivity]. apply Z.eqb_eq in Exy; subst. now rewrite E.
Qed.

Lemma zmem_zrem : forall x y l, zmem x (zrem y l) = negb (x =? y) && zmem x l.
Proof.
  intros x y l. induction l as [|a l IH]; cbn [zrem zmem].
  - now rewrite andb_false_r.
  - destruct (y =? a) eqn:Eya.
    + apply Z.eqb_eq in Eya; subst a. rewrite IH. destruct (x =? y) eqn:E; cbn; reflexivity.
    + cbn [zmem]. rewrite IH. destruct (x =? a) eqn:Exa; cbn.
      * apply Z.eqb_eq in Exa; subst a. rewrite Z.eqb_sym, Eya. reflexivity.
      * reflexivity.
Qed.

Lemma zmem_nil : forall x, zmem x [] = false.
Proof. reflexivity. Qed.

Lemma aget_aset : forall {V} k k' (v : V) l, aget k (aset k' v l) = if k =? k' then Some v else aget k l.
Proof.
  intros V k k' v l. unfold aset. cbn [aget]. destruct (k =? k') eqn:E; [reflexivity|].
  induction l as [|[a b] l IH]; cbn [arem aget]; [reflexivity|].
  destruct (k' =? a) eqn:Ea.
  - apply Z.eqb_eq in Ea; subst a. rewrite E. exact IH.
  - cbn [aget]. destruct (k =? a); [reflexivity|exact IH].
Qed.

Lemma aget_arem : forall {V} k k' (l : list (Z * V)), aget k (arem k' l) = if k =? k' then None else aget k l.
Proof.
  intros V k k' l. induction l as [|[a b] l IH]; cbn [arem aget].
  - now destruct (k =? k').
  - destruct (k' =? a) eqn:Ea.
    + apply Z.eqb_eq in Ea; subst a. rewrite IH. destruct (k =? k'); reflexivity.
    + cbn [aget]. rewrite IH. destruct (k =? a) eqn:Eka; [|reflexivity].
      apply Z.eqb_eq in Eka; subst a. rewrite Z.eqb_sym, Ea. reflexivity.
Qed.

Lemma aget_In : forall {V} k (v : V) l, aget k l = Some v -> In (k, v) l.
Proof.
  intros V k v l. induction l as [|[a b] l IH]; cbn [aget]; [discriminate|].
  destruct (k =? a) eqn:E.
  - intros H; inversion H; subst. apply Z.eqb_eq in E; subst. now left.
  - intros H. right. now apply IH.
Qed.

(** unique keys *)
Definition ukeys {V} (l : list (Z * V)) : Prop := NoDup (map fst l).

Lemma In_aget : forall {V} k (v : V) l, ukeys l -> In (k, v) l -> aget k l = Some v.
Proof.
  intros V k v l. induction l as [|[a b] l IH]; intros U H; [destruct H|].
  unfold ukeys in *. cbn [map fst] in U. inversion U as [|x xs Hn Hd]; subst.
  cbn [aget]. destruct H as [H|H].
  - inversion H; subst. now rewrite Z.eqb_refl.
  - destruct (k =? a) eqn:E.
    + apply Z.eqb_eq in E; subst a. exfalso. apply Hn. apply (in_map fst) in H. exact H.
    + now apply IH.
Qed.

Lemma keys_arem : forall {V} k (l : list (Z * V)) x, In x (map fst (arem k l)) -> In x (map fst l) /\ x <> k.
Proof.
  intros V k l x. induction l as [|[a b] l IH]; cbn [arem map fst]; [intros []|].
  destruct (k =? a) eqn:E.
  - intros H. destruct (IH H) as [H1 H2]. split; [now right|exact H2].
  - cbn [map fst]. intros [H|H].
    + subst. split; [now left|]. intro; subst. now rewrite Z.eqb_refl in E.
    + destruct (IH H) as [H1 H2]. split; [now right|exact H2].
Qed.

Lemma ukeys_arem : forall {V} k (l : list (Z * V)), ukeys l -> ukeys (arem k l).
Proof.
  intros V k l. unfold ukeys. induction l as [|[a b] l IH]; cbn [arem map fst]; intros U; [constructor|].
  inversion U as [|x xs Hn Hd]; subst. destruct (k =? a).
  - now apply IH.
  - cbn [map fst]. constructor; [|now apply IH].
    intro H. apply keys_arem in H. now destruct H.
Qed.

Lemma ukeys_aset : forall {V} k (v : V) l, ukeys l -> ukeys (aset k v l).
Proof.
  intros V k v l U. unfold aset, ukeys. cbn [map fst]. constructor.
  - intro H. apply keys_arem in H. now destruct H.
  - now apply ukeys_arem.
Qed.

Lemma ukeys_nil : forall {V}, ukeys (@nil (Z * V)).
Proof. intros; constructor. Qed.

Lemma ukeys_filter : forall {V} (f : Z * V -> bool) l, ukeys l -> ukeys (filter f l).
Proof.
  intros V f l. unfold ukeys. induction l as [|p l IH]; cbn [filter map]; intros U; [constructor|].
  inversion U as [|x xs Hn Hd]; subst. destruct (f p).
  - cbn [map]. constructor; [|now apply IH].
    intro H. apply Hn. apply in_map_iff in H. destruct H as [q [Hq1 Hq2]].
    apply filter_In in Hq2. destruct Hq2 as [Hq2 _]. apply in_map_iff. now exists q.
  - now apply IH.
Qed.

Lemma aget_filter_snd : forall (l : list (Z * Z)) fd k, ukeys l ->
  aget k (filter (fun p => negb (snd p =? fd)) l) =
  match aget k l with Some f => if f =? fd then None else Some f | None => None end.
Proof.
  intros l fd k. induction l as [|[a b] l IH]; intros U; [reflexivity|].
  unfold ukeys in U. cbn [map fst] in U. inversion U as [|x xs Hn Hd]; subst.
  cbn [filter snd aget]. destruct (b =? fd) eqn:Eb; cbn [negb].
  - rewrite (IH Hd). destruct (k =? a) eqn:Eka; [|reflexivity].
    apply Z.eqb_eq in Eka; subst a. rewrite Eb.
    destruct (aget k l) eqn:G; [|reflexivity].
    exfalso. apply Hn. apply aget_In in G. apply (in_map fst) in G. exact G.
  - cbn [aget]. destruct (k =? a) eqn:Eka; [now rewrite Eb|]. apply (IH Hd).
Qed.

Lemma existsb_snd_false : forall (l : list (Z * Z)) fd,
  existsb (fun p => snd p =? fd) l = false -> forall c, aget c l <> Some fd.
Proof.
  intros l fd H c G. apply aget_In in G.
  assert (E : existsb (fun p => snd p =? fd) l = true).
  { apply existsb_exists. exists (c, fd). split; [exact G|]. cbn. apply Z.eqb_refl. }
  congruence.
Qed.

(** [lset] / [nth] on the poller list *)
Lemma nth_lset_same : forall {A} (l : list A) i v d, (i < List.length l)%nat -> nth i (lset l i v) d = v.
Proof.
  intros A l. induction l as [|a l IH]; intros i v d H; cbn in H; [lia|].
  destruct i; cbn [lset nth]; [reflexivity|]. apply IH. lia.
Qed.

Lemma nth_lset_other : forall {A} (l : list A) i j v d, i <> j -> nth j (lset l i v) d = nth j l d.
Proof.
  intros A l. induction l as [|a l IH]; intros i j v d H; cbn [lset]; [reflexivity|].
  destruct i, j; cbn [lset nth]; try reflexivity; [congruence|]. apply IH. congruence.
Qed.

Lemma length_lset : forall {A} (l : list A) i v, List.length (lset l i v) = List.length l.
Proof.
  intros A l. induction l as [|a l IH]; intros i v; cbn [lset]; [reflexivity|].
  destruct i; cbn [List.length]; [reflexivity|]. now rewrite IH.
Qed.
