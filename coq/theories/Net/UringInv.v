(** The invariant of the io_uring call-path model under the hypotheses of [C27_holds_outside]
    (well-formed case, none of the recorded defects reachable) and its preservation by every step. *)
From OCV Require Import Base.Prelude Net.Uring Net.UringOracle Net.UringLemmas.
From Coq Require Import ZifyBool ZifyNat.
Open Scope Z_scope.

Definition pending (k : caller) : list call :=
  match k_stat k with SHeld c => [c] | SWait c => [c] | _ => [] end.
Definition waiting (k : caller) : bool :=
  match k_stat k with SHeld _ => true | SWait _ => true | _ => false end.
(** the calls a caller still has to get through, the pending one included *)
Definition todo (k : caller) : list call := pending k ++ k_prog k.

Section WithCase.
Variable rs : list rspec.
Variable cs : list cspec.

Definition rd_len (r : nat) (cl : call) : Z :=
  if Nat.eqb (c_res cl) r
  then match classify (rs_kind (nth r rs rsdummy)) (c_op cl) with CRead => c_len cl | _ => 0 end
  else 0.
Definition demand_of (r : nat) (l : list call) : Z := sumZ (map (rd_len r) l).
Definition rdemand (callers : list caller) (r : nat) : Z := sumZ (map (fun k => demand_of r (todo k)) callers).

Record cinv (run : option nat) (res : list rstate) (i : nat) (c : cspec) (k : caller) : Prop := {
  ci_co : k_co k = cs_co c;
  ci_tok : k_tok k = cs_tok c;
  ci_slot : k_slot k = None;
  ci_buf : k_buf k = [];
  ci_done : k_stat k = SDone -> run <> Some i -> k_prog k = [];
  ci_run : run = Some i -> k_stat k = SDone;
  ci_chk : exists done T,
      cs_prog c = done ++ todo k
      /\ chk_calls rs (cs_co c) (zero_track rs) done (rev (k_out k)) = Some T
      /\ (forall r, uses c r = true -> tr_get T r = (r_pos (nth r res rdummy), r_wrote (nth r res rdummy)))
      /\ (forall r, uses c r = false -> tr_get T r = (0, 0));
}.

Record Inv (run : option nat) (rest : list ev) (total : nat -> Z) (st : state) : Prop := {
  i_alive : s_dead st = None;
  i_nodiv : s_div st = false;
  i_len : length (s_callers st) = length cs;
  i_toks : map k_tok (s_callers st) = map cs_tok cs;
  i_callers : forall i c k, nth_error cs i = Some c -> nth_error (s_callers st) i = Some k ->
      cinv run (s_res st) i c k;
  i_rlen : length (s_res st) = length rs;
  i_res : forall r sp x, nth_error rs r = Some sp -> nth_error (s_res st) r = Some x ->
      r_kind x = rs_kind sp /\ r_eof x = rs_eof sp /\ r_timed x = rs_timed sp /\ 0 <= r_avail x
      /\ r_pos x + r_avail x + feeds_of rs rest r = rs_pre sp + total r
      /\ ((forall c, In c cs -> uses c r = false) -> r_pos x = 0 /\ r_wrote x = 0);
  i_table : forall i k, nth_error (s_callers st) i = Some k ->
      tget (k_tok k) (s_table st) = if waiting k then Some (i, k_seq k) else None;
  i_fl_a : forall q, In q (s_inflight st) ->
      exists k cl, nth_error (s_callers st) (q_own q) = Some k /\ k_stat k = SWait cl
                   /\ q = {| q_tok := k_tok k; q_own := q_own q; q_seq := k_seq k; q_call := cl |};
  i_fl_b : forall i k cl, nth_error (s_callers st) i = Some k -> k_stat k = SWait cl ->
      exists q, In q (s_inflight st) /\ q_own q = i;
  i_fl_c : NoDup (map q_own (s_inflight st));
  i_suff : forall r sp x, nth_error rs r = Some sp -> nth_error (s_res st) r = Some x ->
      readable (rs_kind sp) = true -> rs_eof sp = false ->
      rdemand (s_callers st) r <= r_avail x + feeds_of rs rest r;
  i_start : forall i k, nth_error (s_callers st) i = Some k -> k_stat k = SNew -> started rest i = true;
}.

(** ** static facts about the case *)

Lemma uses_in : forall c cl, In cl (cs_prog c) -> uses c (c_res cl) = true.
Proof.
  intros c cl H. unfold uses, calls_of. apply existsb_exists. exists cl. split; auto. apply Nat.eqb_refl.
Qed.

Lemma private_spec : forall l i j ci cj r, private l = true ->
  nth_error l i = Some ci -> nth_error l j = Some cj -> i <> j -> uses ci r = true -> uses cj r = false.
Proof.
  induction l as [|h t IH]; intros i j ci cj r P Hi Hj Hne Hu.
  - destruct i; discriminate.
  - simpl in P. apply andb_true_iff in P as [P1 P2].
    assert (Key : forall a b, In b t -> uses a r = true -> a = h -> uses b r = false).
    { intros a b Hb Ha E. subst a. unfold uses in Ha. apply existsb_exists in Ha as [cl [Hcl Hr]].
      apply Nat.eqb_eq in Hr. rewrite forallb_forall in P1. specialize (P1 cl Hcl).
      apply negb_true_iff in P1. destruct (uses b r) eqn:Eb; auto.
      assert (existsb (fun c' => uses c' (c_res cl)) t = true).
      { apply existsb_exists. exists b. rewrite Hr. auto. }
      congruence. }
    destruct i as [|i], j as [|j]; simpl in *.
    + congruence.
    + inversion Hi; subst. eapply Key; eauto. eapply nth_error_In; eauto.
    + inversion Hj; subst. destruct (uses cj r) eqn:E; auto.
      assert (uses ci r = false) by (eapply Key; eauto; eapply nth_error_In; eauto). congruence.
    + eapply (IH i j ci cj r); eauto.
Qed.

Lemma feeds_of_nonneg : forall script r, 0 <= feeds_of rs script r.
Proof.
  intros script r. unfold feeds_of. destruct (feedable _ _); [|lia].
  induction script as [|e l IH]; simpl; [lia|].
  destruct e; auto. destruct (Nat.eqb r r0 && (0 <=? n)) eqn:E; lia.
Qed.

Lemma demand_of_app : forall r a b, demand_of r (a ++ b) = demand_of r a + demand_of r b.
Proof. intros. unfold demand_of. rewrite map_app, sumZ_app. auto. Qed.

Lemma rd_len_nonneg : forall r cl, 0 <= c_len cl -> 0 <= rd_len r cl.
Proof. intros. unfold rd_len. destruct (Nat.eqb _ _); [|lia]. destruct (classify _ _); lia. Qed.

Lemma rdemand_upd : forall l i k' d r, (i < length l)%nat ->
  rdemand (upd i k' l) r = rdemand l r - demand_of r (todo (nth i l d)) + demand_of r (todo k').
Proof.
  unfold rdemand. induction l as [|h t IH]; intros [|i] k' d r H; cbn [length] in H; try lia.
  - cbn [upd map nth]. rewrite !sumZ_cons. lia.
  - cbn [upd map nth]. rewrite !sumZ_cons. rewrite (IH i k' d r) by lia. lia.
Qed.

End WithCase.

(** ** preservation *)

Lemma tok_inj : forall l i j a b, NoDup (map k_tok l) ->
  nth_error l i = Some a -> nth_error l j = Some b -> k_tok a = k_tok b -> i = j.
Proof.
  intros l i j a b ND Ha Hb E.
  apply (proj1 (NoDup_nth_error (map k_tok l)) ND i j).
  - rewrite map_length. eapply nth_error_some_lt; eauto.
  - rewrite !nth_error_map, Ha, Hb. simpl. congruence.
Qed.

Lemma nth_error_upd {A} : forall (l : list A) i j x, (i < length l)%nat ->
  nth_error (upd i x l) j = if Nat.eq_dec j i then Some x else nth_error l j.
Proof.
  intros. destruct (Nat.eq_dec j i).
  - subst. apply nth_error_upd_same; auto.
  - apply nth_error_upd_other; auto.
Qed.

Section Steps.
Variable rs : list rspec.
Variable cs : list cspec.
Hypothesis Hnd : NoDup (map cs_tok cs).
Hypothesis Hpriv : private cs = true.
Hypothesis Hcalls : forall c cl, In c cs -> In cl (cs_prog c) -> (c_res cl < length rs)%nat /\ 1 <= c_len cl.
Hypothesis Hnodef : forall c cl, In c cs -> In cl (cs_prog c) -> cs_co c = true ->
  classify (rs_kind (nth (c_res cl) rs rsdummy)) (c_op cl) = CRead -> rs_timed (nth (c_res cl) rs rsdummy) = false.

Notation Inv := (Inv rs cs).
Notation cinv := (cinv rs).

Lemma inv_nodup : forall run rest total st, Inv run rest total st -> NoDup (map k_tok (s_callers st)).
Proof. intros. rewrite (i_toks _ _ _ _ _ _ H). exact Hnd. Qed.

Lemma cinv_other : forall run run' res j c k, run <> Some j -> run' <> Some j ->
  cinv run res j c k -> cinv run' res j c k.
Proof.
  intros run run' res j c k H1 H2 [A B C D E F G]. constructor; auto. congruence.
Qed.

Lemma cinv_res_ext : forall run res res' j c k,
  (forall r, uses c r = true -> r_pos (nth r res' rdummy) = r_pos (nth r res rdummy)
                                /\ r_wrote (nth r res' rdummy) = r_wrote (nth r res rdummy)) ->
  cinv run res j c k -> cinv run res' j c k.
Proof.
  intros run res res' j c k Hext [A B C D E F [done [T [G1 [G2 [G3 G4]]]]]]. constructor; auto.
  exists done, T. repeat split; auto. intros r Hr. destruct (Hext r Hr) as [H1 H2]. rewrite H1, H2. auto.
Qed.

(** the running caller has neither a table entry nor a request in flight *)
Lemma running_clean : forall i rest total st k, Inv (Some i) rest total st ->
  nth_error (s_callers st) i = Some k ->
  k_stat k = SDone /\ tget (k_tok k) (s_table st) = None /\ (forall q, In q (s_inflight st) -> q_own q <> i).
Proof.
  intros i rest total st k HI Hk.
  assert (Hlt : (i < length cs)%nat) by (rewrite <- (i_len _ _ _ _ _ _ HI); eapply nth_error_some_lt; eauto).
  destruct (nth_error_lt_some cs i Hlt) as [c Hc].
  pose proof (i_callers _ _ _ _ _ _ HI i c k Hc Hk) as CI.
  assert (Hs : k_stat k = SDone) by (apply (ci_run _ _ _ _ _ _ CI); auto).
  split; auto. split.
  - rewrite (i_table _ _ _ _ _ _ HI i k Hk). unfold waiting. rewrite Hs. auto.
  - intros q Hq E. destruct (i_fl_a _ _ _ _ _ _ HI q Hq) as [kq [cl [H1 [H2 _]]]].
    rewrite E in H1. congruence.
Qed.

Lemma advance_inv : forall rest total st i c k,
  Inv (Some i) rest total st -> nth_error cs i = Some c -> nth_error (s_callers st) i = Some k ->
  Inv None rest total (advance st i k).
Proof.
  intros rest total st i c k HI Hc Hk.
  destruct (running_clean _ _ _ _ _ HI Hk) as [Hs [Htab Hfl]].
  pose proof (i_callers _ _ _ _ _ _ HI i c k Hc Hk) as CI.
  pose proof (inv_nodup _ _ _ _ HI) as ND.
  assert (Hlt : (i < length (s_callers st))%nat) by (eapply nth_error_some_lt; eauto).
  assert (Hpend : pending k = []) by (unfold pending; rewrite Hs; auto).
  assert (Hothers : forall j cj kj, j <> i -> nth_error cs j = Some cj -> nth_error (s_callers st) j = Some kj ->
                    cinv None (s_res st) j cj kj).
  { intros j cj kj Hne Hcj Hkj. eapply cinv_other; [| |eapply (i_callers _ _ _ _ _ _ HI); eauto]; congruence. }
  assert (Htoko : forall j kj, j <> i -> nth_error (s_callers st) j = Some kj -> k_tok kj <> k_tok k).
  { intros j kj Hne Hkj E. apply Hne. eapply tok_inj; eauto. }
  unfold advance. destruct (k_prog k) as [|cl rest'] eqn:Eprog.
  - (* the program is over *)
    constructor; cbn [set_caller set_callers s_dead s_div s_callers s_res s_table s_inflight].
    + apply (i_alive _ _ _ _ _ _ HI).
    + apply (i_nodiv _ _ _ _ _ _ HI).
    + rewrite upd_length. apply (i_len _ _ _ _ _ _ HI).
    + rewrite (map_upd k_tok _ i _ cdummy); [apply (i_toks _ _ _ _ _ _ HI)|].
      rewrite (nth_error_nth _ _ _ cdummy Hk). reflexivity.
    + intros j cj kj Hcj Hkj. rewrite nth_error_upd in Hkj by auto. destruct (Nat.eq_dec j i).
      * subst j. inversion Hkj; subst kj; clear Hkj. assert (cj = c) by congruence; subst cj.
        destruct CI as [A B C D E F [done [T [G1 [G2 [G3 G4]]]]]].
        constructor; cbn; auto; try congruence.
        exists done, T. repeat split; auto. rewrite G1. unfold todo. rewrite Hpend, Eprog. reflexivity.
      * eauto.
    + apply (i_rlen _ _ _ _ _ _ HI).
    + apply (i_res _ _ _ _ _ _ HI).
    + intros j kj Hkj. rewrite nth_error_upd in Hkj by auto. destruct (Nat.eq_dec j i).
      * inversion Hkj; subst; cbn. exact Htab.
      * apply (i_table _ _ _ _ _ _ HI); auto.
    + intros q Hq. destruct (i_fl_a _ _ _ _ _ _ HI q Hq) as [kq [cl [H1 [H2 H3]]]].
      exists kq, cl. rewrite nth_error_upd_other by (intro E; apply (Hfl q Hq); auto). auto.
    + intros j kj cl Hkj Hst. rewrite nth_error_upd in Hkj by auto. destruct (Nat.eq_dec j i).
      * inversion Hkj; subst; cbn in Hst; discriminate.
      * eapply (i_fl_b _ _ _ _ _ _ HI); eauto.
    + apply (i_fl_c _ _ _ _ _ _ HI).
    + intros r sp x Hsp Hx Hrd Heof. rewrite (rdemand_upd rs _ i _ cdummy r Hlt).
      rewrite (nth_error_nth _ _ _ cdummy Hk). unfold todo at 1 2. cbn [pending k_stat k_prog].
      rewrite Hpend, Eprog. cbn [app]. pose proof (i_suff _ _ _ _ _ _ HI r sp x Hsp Hx Hrd Heof). lia.
    + intros j kj Hkj Hst. rewrite nth_error_upd in Hkj by auto. destruct (Nat.eq_dec j i).
      * inversion Hkj; subst; cbn in Hst; discriminate.
      * eapply (i_start _ _ _ _ _ _ HI); eauto.
  - (* the next call is submitted *)
    assert (Hin : In cl (cs_prog c)).
    { destruct CI as [_ _ _ _ _ _ [done [T [G1 _]]]]. rewrite G1. unfold todo. rewrite Hpend, Eprog.
      apply in_or_app. right. simpl; auto. }
    assert (Hcin : In c cs) by (eapply nth_error_In; eauto).
    destruct (Hcalls c cl Hcin Hin) as [Hrlt Hlen].
    unfold submit. rewrite Htab.
    set (seq := S (k_seq k)).
    assert (Hco : k_co k = cs_co c) by apply (ci_co _ _ _ _ _ _ CI).
    (* facts shared by both branches, about the new record [kn] with status [stn] *)
    assert (Common : forall stn, (stn = SHeld cl \/ stn = SWait cl) ->
      let kn := {| k_co := k_co k; k_tok := k_tok k; k_prog := rest'; k_stat := stn; k_out := k_out k;
                   k_seq := seq; k_slot := None; k_buf := [] |} in
      let callers' := upd i kn (s_callers st) in
      let table' := (k_tok k, (i, seq)) :: s_table st in
      length callers' = length cs
      /\ map k_tok callers' = map cs_tok cs
      /\ (forall j cj kj, nth_error cs j = Some cj -> nth_error callers' j = Some kj -> cinv None (s_res st) j cj kj)
      /\ (forall j kj, nth_error callers' j = Some kj ->
            tget (k_tok kj) table' = if waiting kj then Some (j, k_seq kj) else None)
      /\ (forall r, rdemand rs callers' r = rdemand rs (s_callers st) r)
      /\ (forall j kj, nth_error callers' j = Some kj -> k_stat kj = SNew -> started rest j = true)).
    { intros stn Hstn kn callers' table'. subst callers'.
      assert (Hwn : waiting kn = true) by (unfold waiting; destruct Hstn; subst stn; cbn; auto).
      assert (Htodo : todo kn = todo k).
      { unfold todo. rewrite Hpend, Eprog. unfold pending. destruct Hstn; subst stn; cbn; auto. }
      split; [rewrite upd_length; apply (i_len _ _ _ _ _ _ HI)|].
      split; [rewrite (map_upd k_tok _ i _ cdummy); [apply (i_toks _ _ _ _ _ _ HI)|];
              rewrite (nth_error_nth _ _ _ cdummy Hk); reflexivity|].
      split.
      { intros j cj kj Hcj Hkj. rewrite nth_error_upd in Hkj by auto. destruct (Nat.eq_dec j i); [|eauto].
        subst j. inversion Hkj; subst kj; clear Hkj. assert (cj = c) by congruence; subst cj.
        destruct CI as [A B C D E F [done [T [G1 [G2 [G3 G4]]]]]].
        constructor; cbn; auto; try congruence.
        - destruct Hstn; subst stn; discriminate.
        - exists done, T. repeat split; auto. rewrite G1. f_equal. symmetry. exact Htodo. }
      split.
      { intros j kj Hkj. rewrite nth_error_upd in Hkj by auto. destruct (Nat.eq_dec j i).
        - inversion Hkj; subst kj. rewrite Hwn. subst table'. cbn [k_tok k_seq]. subst j. apply tget_cons_same.
        - subst table'. rewrite tget_cons_other by (apply not_eq_sym; eauto).
          apply (i_table _ _ _ _ _ _ HI); auto. }
      split.
      { intro r. rewrite (rdemand_upd rs _ i _ cdummy r Hlt). rewrite (nth_error_nth _ _ _ cdummy Hk).
        rewrite Htodo. lia. }
      { intros j kj Hkj Hst. rewrite nth_error_upd in Hkj by auto. destruct (Nat.eq_dec j i).
        - inversion Hkj; subst kj. cbn in Hst. destruct Hstn; subst stn; discriminate.
        - eapply (i_start _ _ _ _ _ _ HI); eauto. } }
    destruct (c_hold cl && negb (k_co k)) eqn:Ehold.
    + (* parked between the two steps *)
      destruct (Common (SHeld cl) (or_introl eq_refl)) as [C1 [C2 [C3 [C4 [C5 C6]]]]].
      constructor; cbn [set_caller set_callers set_table s_dead s_div s_callers s_res s_table s_inflight]; auto.
      * apply (i_alive _ _ _ _ _ _ HI).
      * apply (i_nodiv _ _ _ _ _ _ HI).
      * apply (i_rlen _ _ _ _ _ _ HI).
      * apply (i_res _ _ _ _ _ _ HI).
      * intros q Hq. destruct (i_fl_a _ _ _ _ _ _ HI q Hq) as [kq [cl' [H1 [H2 H3]]]].
        exists kq, cl'. rewrite nth_error_upd_other by (intro E; apply (Hfl q Hq); auto). auto.
      * intros j kj cl' Hkj Hst. rewrite nth_error_upd in Hkj by auto. destruct (Nat.eq_dec j i).
        -- inversion Hkj; subst; cbn in Hst; discriminate.
        -- eapply (i_fl_b _ _ _ _ _ _ HI); eauto.
      * apply (i_fl_c _ _ _ _ _ _ HI).
      * intros r sp x Hsp Hx Hrd Heof. rewrite C5. apply (i_suff _ _ _ _ _ _ HI r sp x); auto.
    + (* handed to the kernel *)
      destruct (Common (SWait cl) (or_intror eq_refl)) as [C1 [C2 [C3 [C4 [C5 C6]]]]].
      unfold push.
      constructor; cbn [set_caller set_callers set_table set_inflight s_dead s_div s_callers s_res s_table s_inflight]; auto.
      * apply (i_alive _ _ _ _ _ _ HI).
      * apply (i_nodiv _ _ _ _ _ _ HI).
      * apply (i_rlen _ _ _ _ _ _ HI).
      * apply (i_res _ _ _ _ _ _ HI).
      * intros q Hq. apply in_app_or in Hq as [Hq|Hq].
        -- destruct (i_fl_a _ _ _ _ _ _ HI q Hq) as [kq [cl' [H1 [H2 H3]]]].
           exists kq, cl'. rewrite nth_error_upd_other by (intro E; apply (Hfl q Hq); auto). auto.
        -- destruct Hq as [Hq|[]]. subst q. cbn [q_own].
           eexists; exists cl. rewrite nth_error_upd_same by auto. split; [reflexivity|]. cbn. auto.
      * intros j kj cl' Hkj Hst. rewrite nth_error_upd in Hkj by auto. destruct (Nat.eq_dec j i).
        -- subst j. eexists. split; [apply in_or_app; right; simpl; left; reflexivity|]. reflexivity.
        -- destruct (i_fl_b _ _ _ _ _ _ HI j kj cl' Hkj Hst) as [q [Hq1 Hq2]].
           exists q. split; auto. apply in_or_app; auto.
      * rewrite map_app. cbn [map q_own].
        apply NoDup_app_one; [apply (i_fl_c _ _ _ _ _ _ HI)|].
        intro Hin'. apply in_map_iff in Hin' as [q [Hq1 Hq2]]. apply (Hfl q Hq2); auto.
      * intros r sp x Hsp Hx Hrd Heof. rewrite C5. apply (i_suff _ _ _ _ _ _ HI r sp x); auto.
Qed.

End Steps.

(** ** what the kernel answers is what the oracle accepts for that call *)

Lemma classify_err_pos : forall k o e, classify k o = CErr e -> 0 < e.
Proof. intros k o e H. destruct k, o; simpl in H; inversion H; unfold EPERM, EBADF, ENOTSOCK; lia. Qed.

Lemma firstn_nil {A} : forall n, firstn n (@nil A) = [].
Proof. destruct n; auto. Qed.

Lemma kernel_chk : forall rs co T cl x v bytes x',
  let ri := c_res cl in
  let sp := nth ri rs rsdummy in
  r_kind x = rs_kind sp -> r_eof x = rs_eof sp -> 0 <= r_avail x -> 1 <= c_len cl ->
  (ri < length T)%nat -> tr_get T ri = (r_pos x, r_wrote x) ->
  (rs_eof sp = true -> r_avail x = 0 -> r_pos x = rs_pre sp) ->
  kernel ri x (c_op cl) (c_len cl) = KDone v bytes x' ->
  exists T', chk_call rs co T cl (map_result v bytes) = Some T'
    /\ tr_get T' ri = (r_pos x', r_wrote x') /\ (forall r, r <> ri -> tr_get T' r = tr_get T r)
    /\ r_kind x' = r_kind x /\ r_eof x' = r_eof x /\ r_timed x' = r_timed x /\ 0 <= r_avail x'
    /\ r_pos x' + r_avail x' = r_pos x + r_avail x
    /\ r_avail x - rd_len rs ri cl <= r_avail x'.
Proof.
  intros rs co T cl x v bytes x' ri sp Hk He Hav Hlen Hlt Htr Heofpos Hker.
  unfold kernel in Hker. unfold chk_call. fold ri. fold sp. rewrite Htr.
  unfold rd_len. fold ri. rewrite Nat.eqb_refl. fold sp.
  rewrite Hk in Hker. destruct (classify (rs_kind sp) (c_op cl)) as [e| |] eqn:Ecl.
  - (* an error completion *)
    inversion Hker; subst v bytes x'; clear Hker.
    pose proof (classify_err_pos _ _ _ Ecl) as Hpos.
    unfold map_result. replace (- e <? 0) with true by lia. rewrite Z.opp_involutive, Z.eqb_refl.
    exists T. repeat split; auto; lia.
  - (* a read with data, at end of stream, or nothing yet *)
    destruct (0 <? r_avail x) eqn:Eav.
    + inversion Hker; subst v bytes x'; clear Hker.
      set (n := Z.min (c_len cl) (r_avail x)).
      assert (Hn : 1 <= n) by (unfold n; lia).
      unfold map_result. replace (n <? 0) with false by lia.
      rewrite firstn_all' by (unfold stream; rewrite sbytes_length; auto).
      replace (0 <=? n) with true by lia. replace (n <=? c_len cl) with true by (unfold n; lia).
      rewrite zlist_eqb_refl. replace (0 <? n) with true by lia. cbn [andb orb].
      exists (upd ri (r_pos x + n, r_wrote x) T). split; auto.
      split; [apply tr_get_upd_same; auto|]. split; [intros; apply tr_get_upd_other; auto|].
      cbn. repeat split; auto; unfold n; lia.
    + destruct (r_eof x) eqn:Eeof; try discriminate.
      inversion Hker; subst v bytes x'; clear Hker.
      assert (Hav0 : r_avail x = 0) by lia.
      unfold map_result. cbn [Z.ltb Z.compare Z.to_nat firstn].
      assert (Hp : r_pos x = rs_pre sp) by (apply Heofpos; congruence).
      cbn [Z.leb Z.compare]. replace (0 <=? c_len cl) with true by lia.
      unfold stream. cbn [Z.to_nat sbytes list_eqb]. rewrite <- He, Eeof, Hp, Z.eqb_refl. cbn [andb orb Z.ltb Z.compare].
      exists (upd ri (rs_pre sp + 0, r_wrote x) T). split; auto.
      split; [rewrite tr_get_upd_same by auto; rewrite Z.add_0_r, <- Hp; auto|].
      split; [intros; apply tr_get_upd_other; auto|]. repeat split; auto; lia.
  - (* a write *)
    rewrite <- He. destruct (r_eof x) eqn:Eeof.
    + inversion Hker; subst v bytes x'; clear Hker.
      unfold map_result, EPIPE. cbn [Z.opp Z.ltb Z.compare]. cbn [andb Z.eqb Pos.eqb].
      exists T. repeat split; auto; lia.
    + inversion Hker; subst v bytes x'; clear Hker.
      unfold map_result. replace (c_len cl <? 0) with false by lia. rewrite firstn_nil.
      rewrite Z.eqb_refl. cbn [negb andb list_eqb].
      exists (upd ri (r_pos x, r_wrote x + c_len cl) T). split; auto.
      split; [apply tr_get_upd_same; auto|]. split; [intros; apply tr_get_upd_other; auto|].
      cbn. repeat split; auto; lia.
Qed.

(** ** a completion *)

Lemma advance_irrel : forall st i x k, advance (set_caller st i x) i k = advance st i k.
Proof.
  intros. unfold advance. destruct (k_prog k) as [|cl rest].
  - unfold set_caller, set_callers; cbn. rewrite upd_upd. reflexivity.
  - unfold submit. cbn [set_caller set_callers s_table].
    destruct (tget (k_tok k) (s_table st)).
    + unfold die, set_caller, set_callers; cbn. rewrite upd_upd. reflexivity.
    + destruct (c_hold cl && negb (k_co k)).
      * unfold set_caller, set_callers, set_table; cbn. rewrite upd_upd. reflexivity.
      * unfold push, set_inflight, set_caller, set_callers, set_table; cbn.
        rewrite upd_upd. reflexivity.
Qed.

Lemma advance_stat_irrel : forall st i k k',
  k_co k = k_co k' -> k_tok k = k_tok k' -> k_prog k = k_prog k' -> k_out k = k_out k' -> k_seq k = k_seq k' ->
  tget (k_tok k) (s_table st) = None -> advance st i k = advance st i k'.
Proof.
  intros st i k k' H1 H2 H3 H4 H5 H6. unfold advance, submit.
  rewrite <- H1, <- H2, <- H3, <- H4, <- H5, H6. reflexivity.
Qed.

Section Complete.
Variable rs : list rspec.
Variable cs : list cspec.
Hypothesis Hnd : NoDup (map cs_tok cs).
Hypothesis Hpriv : private cs = true.
Hypothesis Hcalls : forall c cl, In c cs -> In cl (cs_prog c) -> (c_res cl < length rs)%nat /\ 1 <= c_len cl.
Hypothesis Hnodef : forall c cl, In c cs -> In cl (cs_prog c) -> cs_co c = true ->
  classify (rs_kind (nth (c_res cl) rs rsdummy)) (c_op cl) = CRead -> rs_timed (nth (c_res cl) rs rsdummy) = false.

Variable total : nat -> Z.
Hypothesis Htotal : forall r, feedable (rs_kind (nth r rs rsdummy)) (rs_eof (nth r rs rsdummy)) = false -> total r = 0.

Notation Inv := (Inv rs cs).
Notation cinv := (cinv rs).

(** the state in which caller [i], whose pending call [cl] has just been answered, is about to go on *)
Lemma retire_inv : forall rest st j q i kq cl c v bytes x',
  Inv None rest total st ->
  nth_error (s_inflight st) j = Some q -> q_own q = i ->
  nth_error (s_callers st) i = Some kq -> k_stat kq = SWait cl -> q_call q = cl ->
  nth_error cs i = Some c ->
  kernel (c_res cl) (nth (c_res cl) (s_res st) rdummy) (c_op cl) (c_len cl) = KDone v bytes x' ->
  Inv (Some i) rest total
    {| s_res := upd (c_res cl) x' (s_res st);
       s_callers := upd i {| k_co := k_co kq; k_tok := k_tok kq; k_prog := k_prog kq; k_stat := SDone;
                             k_out := map_result v bytes :: k_out kq; k_seq := k_seq kq; k_slot := None;
                             k_buf := [] |} (s_callers st);
       s_inflight := del_nth j (s_inflight st);
       s_table := tdel (k_tok kq) (s_table st);
       s_dead := None; s_div := false; s_tags := s_tags st |}.
Proof.
  intros rest st j q i kq cl c v bytes x' HI Hq Hown Hk Hst Hcl Hc Hker.
  set (ri := c_res cl) in *.
  pose proof (i_callers _ _ _ _ _ _ HI i c kq Hc Hk) as CI.
  pose proof (inv_nodup rs cs Hnd _ _ _ _ HI) as ND.
  assert (Hlt : (i < length (s_callers st))%nat) by (eapply nth_error_some_lt; eauto).
  assert (Hcin : In c cs) by (eapply nth_error_In; eauto).
  destruct CI as [A B C D E F [done [T [G1 [G2 [G3 G4]]]]]].
  assert (Htodo : todo kq = cl :: k_prog kq) by (unfold todo, pending; rewrite Hst; auto).
  assert (Hin : In cl (cs_prog c)) by (rewrite G1, Htodo; apply in_or_app; right; simpl; auto).
  destruct (Hcalls c cl Hcin Hin) as [Hrlt Hlen]. fold ri in Hrlt.
  assert (Huse : uses c ri = true) by (apply uses_in; auto).
  destruct (nth_error_lt_some rs ri Hrlt) as [sp Hsp].
  assert (Hrlt' : (ri < length (s_res st))%nat) by (rewrite (i_rlen _ _ _ _ _ _ HI); auto).
  destruct (nth_error_lt_some (s_res st) ri Hrlt') as [x Hx].
  destruct (i_res _ _ _ _ _ _ HI ri sp x Hsp Hx) as [R1 [R2 [R3 [R4 [R5 R6]]]]].
  rewrite (nth_error_nth _ _ _ rdummy Hx) in Hker.
  assert (HTlen : length T = length rs).
  { rewrite (chk_calls_length _ _ _ _ _ _ G2). apply zero_track_length. }
  assert (Hsp' : nth ri rs rsdummy = sp) by (apply nth_error_nth; auto).
  destruct (kernel_chk rs (cs_co c) T cl x v bytes x') as [T' [K1 [K2 [K3 [K4 [K5 [K6 [K7 [K8 K9]]]]]]]]]; auto.
  { fold ri. rewrite Hsp'. auto. }
  { fold ri. rewrite Hsp'. auto. }
  { fold ri. lia. }
  { fold ri. rewrite (G3 ri Huse). rewrite (nth_error_nth _ _ _ rdummy Hx). auto. }
  { fold ri. rewrite Hsp'. intros He Ha.
    (* a descriptor whose peer is closed is never fed *)
    assert (Hf : forall scr, feeds_of rs scr ri = 0).
    { intro scr. unfold feeds_of. rewrite Hsp'. unfold feedable. rewrite He, andb_false_r. auto. }
    pose proof (Hf rest). assert (total ri = 0) by (apply Htotal; rewrite Hsp'; unfold feedable; rewrite He, andb_false_r; auto). lia. }
  fold ri in K2, K3, K9.
  assert (Hownj : forall q', In q' (del_nth j (s_inflight st)) -> q_own q' <> i).
  { intros q' Hq' Eo.
    assert (In (q_own q') (map q_own (del_nth j (s_inflight st)))) by (apply in_map; auto).
    rewrite del_nth_map in H. revert H. rewrite Eo. rewrite <- Hown.
    apply not_in_del_nth; [apply (i_fl_c _ _ _ _ _ _ HI)|]. rewrite nth_error_map, Hq. auto. }
  assert (Htoko : forall j' kj, j' <> i -> nth_error (s_callers st) j' = Some kj -> k_tok kj <> k_tok kq).
  { intros j' kj Hne Hkj E'. apply Hne. eapply tok_inj; eauto. }
  constructor; cbn [s_dead s_div s_callers s_res s_table s_inflight]; auto.
  - rewrite upd_length. apply (i_len _ _ _ _ _ _ HI).
  - rewrite (map_upd k_tok _ i _ cdummy); [apply (i_toks _ _ _ _ _ _ HI)|].
    rewrite (nth_error_nth _ _ _ cdummy Hk). reflexivity.
  - intros j' cj kj Hcj Hkj. rewrite nth_error_upd in Hkj by auto. destruct (Nat.eq_dec j' i).
    + subst j'. inversion Hkj; subst kj; clear Hkj. assert (cj = c) by congruence; subst cj.
      constructor; cbn; auto; try congruence.
      exists (done ++ [cl]), T'. split; [|split; [|split]].
      * rewrite G1, Htodo, <- app_assoc. unfold todo, pending; cbn. reflexivity.
      * rewrite chk_calls_snoc by (rewrite rev_length; rewrite <- (rev_length (k_out kq)); eapply chk_calls_len; eauto).
        rewrite G2. exact K1.
      * intros r Hr. destruct (Nat.eq_dec r ri).
        -- subst r. rewrite K2. rewrite nth_upd_same by auto. reflexivity.
        -- rewrite K3 by auto. rewrite nth_upd_other by auto. apply G3; auto.
      * intros r Hr. assert (r <> ri) by (intro; subst; congruence). rewrite K3 by auto. apply G4; auto.
    + apply cinv_other with (run := None); try congruence.
      apply cinv_res_ext with (res := s_res st).
      * intros r Hr. rewrite nth_upd_other; auto. intro; subst r.
        assert (uses cj ri = false) by (eapply (private_spec cs i j'); eauto). congruence.
      * eapply (i_callers _ _ _ _ _ _ HI); eauto.
  - rewrite upd_length. apply (i_rlen _ _ _ _ _ _ HI).
  - intros r sp' y Hsp'' Hy. rewrite nth_error_upd in Hy by auto. destruct (Nat.eq_dec r ri).
    + subst r. inversion Hy; subst y; clear Hy. assert (sp' = sp) by congruence; subst sp'.
      repeat split; try congruence; try lia.
      all: intros Hun; specialize (Hun c Hcin); congruence.
    + apply (i_res _ _ _ _ _ _ HI); auto.
  - intros j' kj Hkj. rewrite nth_error_upd in Hkj by auto. destruct (Nat.eq_dec j' i).
    + inversion Hkj; subst kj; cbn. apply tget_tdel_same.
    + rewrite tget_tdel_other by (apply not_eq_sym; eauto). apply (i_table _ _ _ _ _ _ HI); auto.
  - intros q' Hq'. pose proof (Hownj q' Hq') as Hne. apply in_del_nth in Hq'.
    destruct (i_fl_a _ _ _ _ _ _ HI q' Hq') as [kq' [cl' [H1 [H2 H3]]]].
    exists kq', cl'. rewrite nth_error_upd_other by auto. auto.
  - intros j' kj cl' Hkj Hst'. rewrite nth_error_upd in Hkj by auto. destruct (Nat.eq_dec j' i).
    + inversion Hkj; subst kj; cbn in Hst'; discriminate.
    + destruct (i_fl_b _ _ _ _ _ _ HI j' kj cl' Hkj Hst') as [q' [Hq1 Hq2]].
      exists q'. split; auto. eapply in_del_nth_other; eauto. intro; subst q'. congruence.
  - rewrite del_nth_map. apply nodup_del_nth. apply (i_fl_c _ _ _ _ _ _ HI).
  - intros r sp' y Hsp'' Hy Hrd Heof. rewrite (rdemand_upd rs _ i _ cdummy r Hlt).
    rewrite (nth_error_nth _ _ _ cdummy Hk). rewrite Htodo.
    unfold todo. unfold pending at 1. cbn [k_stat k_prog app].
    change (cl :: k_prog kq) with ([cl] ++ k_prog kq). rewrite demand_of_app.
    assert (Hone : demand_of rs r [cl] = rd_len rs r cl).
    { unfold demand_of. cbn [map]. rewrite sumZ_cons. change (sumZ []) with 0. lia. }
    rewrite Hone.
    rewrite nth_error_upd in Hy by auto. destruct (Nat.eq_dec r ri).
    + subst r. inversion Hy; subst y; clear Hy. assert (sp' = sp) by congruence; subst sp'.
      pose proof (i_suff _ _ _ _ _ _ HI ri sp x Hsp Hx Hrd Heof). lia.
    + pose proof (i_suff _ _ _ _ _ _ HI r sp' y Hsp'' Hy Hrd Heof).
      assert (rd_len rs r cl = 0).
      { unfold rd_len. fold ri. destruct (Nat.eqb ri r) eqn:E'; auto. apply Nat.eqb_eq in E'. congruence. }
      lia.
  - intros j' kj Hkj Hst'. rewrite nth_error_upd in Hkj by auto. destruct (Nat.eq_dec j' i).
    + inversion Hkj; subst kj; cbn in Hst'; discriminate.
    + eapply (i_start _ _ _ _ _ _ HI); eauto.
Qed.

End Complete.

(** ** the moves *)
Ltac norm_st := cbn [set_table set_caller set_callers set_inflight set_res s_callers s_table s_res s_inflight
                     s_dead s_div s_tags].

Section Moves.
Variable rs : list rspec.
Variable cs : list cspec.
Hypothesis Hnd : NoDup (map cs_tok cs).
Hypothesis Hpriv : private cs = true.
Hypothesis Hcalls : forall c cl, In c cs -> In cl (cs_prog c) -> (c_res cl < length rs)%nat /\ 1 <= c_len cl.
Hypothesis Hnodef : forall c cl, In c cs -> In cl (cs_prog c) -> cs_co c = true ->
  classify (rs_kind (nth (c_res cl) rs rsdummy)) (c_op cl) = CRead -> rs_timed (nth (c_res cl) rs rsdummy) = false.
Variable total : nat -> Z.
Hypothesis Htotal : forall r, feedable (rs_kind (nth r rs rsdummy)) (rs_eof (nth r rs rsdummy)) = false -> total r = 0.

Notation Inv := (Inv rs cs).
Notation cinv := (cinv rs).

(** a completable request: the whole of [complete] is "retire the call, then go on" *)
Lemma complete_eq : forall rest st j q kq cl v bytes x',
  Inv None rest total st ->
  nth_error (s_inflight st) j = Some q ->
  nth_error (s_callers st) (q_own q) = Some kq -> k_stat kq = SWait cl ->
  q = {| q_tok := k_tok kq; q_own := q_own q; q_seq := k_seq kq; q_call := cl |} ->
  kernel (c_res cl) (nth (c_res cl) (s_res st) rdummy) (c_op cl) (c_len cl) = KDone v bytes x' ->
  complete st j =
  advance {| s_res := upd (c_res cl) x' (s_res st);
             s_callers := upd (q_own q) {| k_co := k_co kq; k_tok := k_tok kq; k_prog := k_prog kq; k_stat := SDone;
                                           k_out := map_result v bytes :: k_out kq; k_seq := k_seq kq;
                                           k_slot := None; k_buf := [] |} (s_callers st);
             s_inflight := del_nth j (s_inflight st);
             s_table := tdel (k_tok kq) (s_table st);
             s_dead := None; s_div := false; s_tags := s_tags st |}
          (q_own q)
          {| k_co := k_co kq; k_tok := k_tok kq; k_prog := k_prog kq; k_stat := SDone;
             k_out := map_result v bytes :: k_out kq; k_seq := k_seq kq; k_slot := None; k_buf := [] |}.
Proof.
  intros rest st j q kq cl v bytes x' HI Hq Hk Hst Hqeq Hker. unfold complete. rewrite Hq.
  set (i := q_own q) in *.
  assert (Hcl : q_call q = cl) by (rewrite Hqeq; auto).
  assert (Htok : q_tok q = k_tok kq) by (rewrite Hqeq; auto).
  assert (Hseq : q_seq q = k_seq kq) by (rewrite Hqeq; auto).
  rewrite Hcl, Hker.
  assert (Hlt : (i < length (s_callers st))%nat) by (eapply nth_error_some_lt; eauto).
  pose proof (i_table _ _ _ _ _ _ HI i kq Hk) as Htab. unfold waiting in Htab. rewrite Hst in Htab.
  pose proof (inv_nodup rs cs Hnd _ _ _ _ HI) as ND.
  set (krun := {| k_co := k_co kq; k_tok := k_tok kq; k_prog := k_prog kq; k_stat := SDone;
                  k_out := map_result v bytes :: k_out kq; k_seq := k_seq kq; k_slot := None; k_buf := [] |}).
  match goal with |- _ = advance ?S _ _ => set (SR := S) end.
  (* the data lands in the call's buffer *)
  unfold land. norm_st. fold i.
  rewrite (nth_error_nth _ _ _ cdummy Hk). rewrite Hst. cbn [is_wait andb]. rewrite Hseq, Nat.eqb_refl.
  (* the slot is filled and unregistered *)
  unfold dispatch, fill. norm_st. rewrite Htok, Htab. norm_st. rewrite nth_upd_same by auto.
  cbn [with_buf k_stat k_seq]. rewrite Hst. cbn [is_wait andb]. rewrite Nat.eqb_refl.
  (* the caller is woken *)
  unfold wake. norm_st. rewrite upd_upd.
  set (kslot := with_slot (with_buf kq bytes) (Some v)).
  assert (Hks : nth_error (upd i kslot (s_callers st)) i = Some kslot) by (apply nth_error_upd_same; auto).
  assert (ND' : NoDup (map k_tok (upd i kslot (s_callers st)))).
  { rewrite (map_upd k_tok _ i _ cdummy); auto. rewrite (nth_error_nth _ _ _ cdummy Hk). reflexivity. }
  pose proof (find_co_spec _ _ _ O ND' Hks) as Hfind. change (k_tok kslot) with (k_tok kq) in Hfind.
  rewrite Hfind.
  assert (Hwoken : match (if k_co kslot then Some (0 + i)%nat else None) with Some c0 => Some c0 | None => Some i end = Some i).
  { destruct (k_co kslot); auto. }
  rewrite Hwoken. rewrite nth_upd_same by auto.
  change (k_stat kslot) with (k_stat kq). rewrite Hst. cbn [is_wait].
  change (k_slot kslot) with (Some v). change (k_buf kslot) with bytes.
  unfold finish_call. symmetry.
  match goal with |- _ = advance ?S0 i ?K0 =>
    transitivity (advance (set_caller S0 i krun) i K0); [|apply advance_irrel] end.
  replace (set_caller _ i krun) with SR.
  - apply advance_stat_irrel; try reflexivity. unfold SR, krun; cbn [s_table k_tok]. apply tget_tdel_same.
  - unfold SR, set_caller, set_callers, set_table, set_inflight, set_res. cbn.
    rewrite !upd_upd, (i_alive _ _ _ _ _ _ HI), (i_nodiv _ _ _ _ _ _ HI). reflexivity.
Qed.

Lemma complete_inv : forall rest st j, Inv None rest total st -> Inv None rest total (complete st j).
Proof.
  intros rest st j HI.
  destruct (nth_error (s_inflight st) j) as [q|] eqn:Hq.
  2:{ unfold complete. rewrite Hq. auto. }
  destruct (i_fl_a _ _ _ _ _ _ HI q (nth_error_In _ _ Hq)) as [kq [cl [Hk [Hst Hqeq]]]].
  assert (Hcl : q_call q = cl) by (rewrite Hqeq; auto).
  destruct (kernel (c_res cl) (nth (c_res cl) (s_res st) rdummy) (c_op cl) (c_len cl)) as [|v bytes x'] eqn:Hker.
  { unfold complete. rewrite Hq, Hcl, Hker. auto. }
  rewrite (complete_eq rest st j q kq cl v bytes x' HI Hq Hk Hst Hqeq Hker).
  assert (Hlt : (q_own q < length (s_callers st))%nat) by (eapply nth_error_some_lt; eauto).
  assert (Hlc : (q_own q < length cs)%nat) by (rewrite <- (i_len _ _ _ _ _ _ HI); auto).
  destruct (nth_error_lt_some cs _ Hlc) as [c Hc].
  eapply (advance_inv rs cs Hnd Hpriv Hcalls Hnodef); eauto.
  - eapply (retire_inv rs cs Hnd Hpriv Hcalls Hnodef total Htotal); eauto.
  - cbn [s_callers]. apply nth_error_upd_same; auto.
Qed.

Lemma reg_inv : forall rest st c, Inv None rest total st -> Inv None rest total (reg st c).
Proof.
  intros rest st i HI. unfold reg.
  destruct (nth_error (s_callers st) i) as [k|] eqn:Hk.
  2:{ rewrite (nth_overflow _ cdummy) by (apply nth_error_None; auto). cbn. auto. }
  rewrite (nth_error_nth _ _ _ cdummy Hk).
  destruct (k_stat k) as [|cl|cl|] eqn:Hst; auto.
  assert (Hlt : (i < length (s_callers st))%nat) by (eapply nth_error_some_lt; eauto).
  pose proof (inv_nodup rs cs Hnd _ _ _ _ HI) as ND.
  assert (Hfl : forall q, In q (s_inflight st) -> q_own q <> i).
  { intros q Hq E. destruct (i_fl_a _ _ _ _ _ _ HI q Hq) as [kq [cl' [H1 [H2 _]]]]. rewrite E in H1. congruence. }
  assert (Htodo : todo (with_stat k (SWait cl)) = todo k) by (unfold todo, pending; cbn; rewrite Hst; auto).
  unfold push.
  constructor; cbn [set_caller set_callers set_inflight s_dead s_div s_callers s_res s_table s_inflight].
  - apply (i_alive _ _ _ _ _ _ HI).
  - apply (i_nodiv _ _ _ _ _ _ HI).
  - rewrite upd_length. apply (i_len _ _ _ _ _ _ HI).
  - rewrite (map_upd k_tok _ i _ cdummy); [apply (i_toks _ _ _ _ _ _ HI)|].
    rewrite (nth_error_nth _ _ _ cdummy Hk). reflexivity.
  - intros j cj kj Hcj Hkj. rewrite nth_error_upd in Hkj by auto. destruct (Nat.eq_dec j i).
    + subst j. inversion Hkj; subst kj; clear Hkj.
      destruct (i_callers _ _ _ _ _ _ HI i cj k Hcj Hk) as [A B C D E F [done [T [G1 [G2 [G3 G4]]]]]].
      constructor; cbn; auto; try congruence; try discriminate.
      exists done, T. repeat split; auto. rewrite G1. f_equal. symmetry. exact Htodo.
    + eapply (i_callers _ _ _ _ _ _ HI); eauto.
  - apply (i_rlen _ _ _ _ _ _ HI).
  - apply (i_res _ _ _ _ _ _ HI).
  - intros j kj Hkj. rewrite nth_error_upd in Hkj by auto. destruct (Nat.eq_dec j i).
    + subst j. inversion Hkj; subst kj. cbn. pose proof (i_table _ _ _ _ _ _ HI i k Hk) as Ht.
      unfold waiting in Ht. rewrite Hst in Ht. exact Ht.
    + apply (i_table _ _ _ _ _ _ HI); auto.
  - intros q Hq. apply in_app_or in Hq as [Hq|Hq].
    + destruct (i_fl_a _ _ _ _ _ _ HI q Hq) as [kq [cl' [H1 [H2 H3]]]].
      exists kq, cl'. rewrite nth_error_upd_other by (intro E; apply (Hfl q Hq); auto). auto.
    + destruct Hq as [Hq|[]]. subst q. cbn [q_own].
      eexists; exists cl. rewrite nth_error_upd_same by auto. split; [reflexivity|]. cbn. auto.
  - intros j kj cl' Hkj Hst'. rewrite nth_error_upd in Hkj by auto. destruct (Nat.eq_dec j i).
    + subst j. eexists. split; [apply in_or_app; right; simpl; left; reflexivity|]. reflexivity.
    + destruct (i_fl_b _ _ _ _ _ _ HI j kj cl' Hkj Hst') as [q [Hq1 Hq2]].
      exists q. split; auto. apply in_or_app; auto.
  - rewrite map_app. cbn [map q_own]. apply NoDup_app_one; [apply (i_fl_c _ _ _ _ _ _ HI)|].
    intro Hin'. apply in_map_iff in Hin' as [q [Hq1 Hq2]]. apply (Hfl q Hq2); auto.
  - intros r sp x Hsp Hx Hrd Heof. rewrite (rdemand_upd rs _ i _ cdummy r Hlt).
    rewrite (nth_error_nth _ _ _ cdummy Hk), Htodo.
    pose proof (i_suff _ _ _ _ _ _ HI r sp x Hsp Hx Hrd Heof). lia.
  - intros j kj Hkj Hst'. rewrite nth_error_upd in Hkj by auto. destruct (Nat.eq_dec j i).
    + inversion Hkj; subst kj; cbn in Hst'; discriminate.
    + eapply (i_start _ _ _ _ _ _ HI); eauto.
Qed.

(** no time limit can expire: coroutines have no read-type call on a socket with a time limit *)
Lemma no_timeout : forall rest st k, Inv None rest total st -> In k (s_callers st) -> can_timeout st k = false.
Proof.
  intros rest st k HI Hin. apply In_nth_error in Hin as [i Hk].
  unfold can_timeout. destruct (k_co k) eqn:Eco; auto. cbn [andb].
  destruct (k_stat k) as [|cl|cl|] eqn:Hst; auto.
  assert (Hlc : (i < length cs)%nat) by (rewrite <- (i_len _ _ _ _ _ _ HI); eapply nth_error_some_lt; eauto).
  destruct (nth_error_lt_some cs i Hlc) as [c Hc].
  destruct (i_callers _ _ _ _ _ _ HI i c k Hc Hk) as [A B C D E F [done [T [G1 _]]]].
  assert (Hcin : In c cs) by (eapply nth_error_In; eauto).
  assert (Hin : In cl (cs_prog c)).
  { rewrite G1. unfold todo, pending. rewrite Hst. apply in_or_app; right; simpl; auto. }
  destruct (Hcalls c cl Hcin Hin) as [Hrlt _].
  assert (Hn := Hnodef c cl Hcin Hin ltac:(congruence)).
  destruct (nth_error_lt_some rs (c_res cl) Hrlt) as [sp Hsp].
  assert (Hrlt' : (c_res cl < length (s_res st))%nat) by (rewrite (i_rlen _ _ _ _ _ _ HI); auto).
  destruct (nth_error_lt_some (s_res st) _ Hrlt') as [x Hx].
  destruct (i_res _ _ _ _ _ _ HI _ _ _ Hsp Hx) as [R1 [_ [R3 _]]].
  unfold timed_call. rewrite (nth_error_nth _ _ _ rdummy Hx), R1, R3.
  rewrite (nth_error_nth _ _ _ rsdummy Hsp) in Hn.
  destruct (classify (rs_kind sp) (c_op cl)); auto.
Qed.

Lemma timeout_inv : forall rest st c, Inv None rest total st -> timeout st c = st.
Proof.
  intros rest st c HI. unfold timeout.
  destruct (nth_error (s_callers st) c) as [k|] eqn:Hk.
  - rewrite (nth_error_nth _ _ _ cdummy Hk). rewrite (no_timeout rest st k HI); auto. eapply nth_error_In; eauto.
  - rewrite (nth_overflow _ cdummy) by (apply nth_error_None; auto). cbn. auto.
Qed.

End Moves.
