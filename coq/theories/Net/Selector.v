(** Model of [core/src/net/selector/mod.rs] (trait [Selector]) on top of [mio_adapter.rs]:
    the five process-global record maps, shared by every poller of the process, and one abstract
    kernel interest table per poller that behaves like epoll (an add of a descriptor already in the
    table fails, a modify or delete of one that is not there fails, any call on a descriptor that
    is not open fails, closing a descriptor removes it from every table).

    Executable, stdlib only, no proofs here. Used by C20 ([Net/Token.v]) and C21
    ([Net/SelectorOracle.v]). Descriptors and tokens are [Z]; pollers are list positions. *)
From OCV Require Import Base.Prelude.
Open Scope Z_scope.

(** * Small finite sets and maps keyed by [Z] *)

Fixpoint zmem (x : Z) (l : list Z) : bool :=
  match l with [] => false | y :: l' => (x =? y) || zmem x l' end.

Fixpoint zrem (x : Z) (l : list Z) : list Z :=
  match l with [] => [] | y :: l' => if x =? y then zrem x l' else y :: zrem x l' end.

Definition zadd (x : Z) (l : list Z) : list Z := if zmem x l then l else x :: l.

Fixpoint aget {V} (k : Z) (l : list (Z * V)) : option V :=
  match l with [] => None | (k', v) :: l' => if k =? k' then Some v else aget k l' end.

Fixpoint arem {V} (k : Z) (l : list (Z * V)) : list (Z * V) :=
  match l with [] => [] | (k', v) :: l' => if k =? k' then arem k l' else (k', v) :: arem k l' end.

Definition aset {V} (k : Z) (v : V) (l : list (Z * V)) : list (Z * V) := (k, v) :: arem k l.

(** * The token as registered with the OS ([mio_adapter.rs] [do_register]/[do_reregister]) and as
    read back from an event ([Event::get_token]). After the repair of finding #23 the full 64-bit
    token is handed to mio ([usize::try_from(token)], infallible on the 64-bit targets modelled)
    and comes back through [as u64]; both are reductions to the machine width. *)
Definition W64 : Z := 18446744073709551616.
Definition encode (t : Z) : Z := t mod W64.
Definition decode (k : Z) : Z := k mod W64.

(** * Kernel side: one interest table per poller *)

Record kent := { k_r : bool; k_w : bool; k_tok : Z }.
Definition ktable := list (Z * kent).

Definition k_add (opn : list Z) (t : ktable) (fd : Z) (e : kent) : option ktable :=
  if negb (zmem fd opn) then None
  else match aget fd t with Some _ => None | None => Some (aset fd e t) end.

Definition k_mod (opn : list Z) (t : ktable) (fd : Z) (e : kent) : option ktable :=
  if negb (zmem fd opn) then None
  else match aget fd t with Some _ => Some (aset fd e t) | None => None end.

Definition k_del (opn : list Z) (t : ktable) (fd : Z) : option ktable :=
  if negb (zmem fd opn) then None
  else match aget fd t with Some _ => Some (arem fd t) | None => None end.

(** read / write interest the table holds for a descriptor (absent = none) *)
Definition kr (t : ktable) (fd : Z) : bool := match aget fd t with Some e => k_r e | None => false end.
Definition kw (t : ktable) (fd : Z) : bool := match aget fd t with Some e => k_w e | None => false end.

(** * Runtime side *)

Inductive tag := TagShared.  (* records_shared_across_pollers *)

Record sel := {
  s_open : list Z;            (* descriptors that are open *)
  s_kern : list ktable;       (* per poller *)
  s_rrec : list Z;            (* READABLE_RECORDS *)
  s_wrec : list Z;            (* WRITABLE_RECORDS *)
  s_rtok : list (Z * Z);      (* READABLE_TOKEN_RECORDS  fd -> token *)
  s_wtok : list (Z * Z);      (* WRITABLE_TOKEN_RECORDS  fd -> token *)
  s_tokfd : list (Z * Z);     (* TOKEN_FD  token -> fd *)
  s_tags : list tag           (* ghost: defect tags raised so far *)
}.

Definition sel_init (pollers : nat) (opn : list Z) : sel :=
  {| s_open := opn; s_kern := repeat [] pollers; s_rrec := []; s_wrec := [];
     s_rtok := []; s_wtok := []; s_tokfd := []; s_tags := [] |}.

Definition tbl (s : sel) (i : nat) : ktable := nth i (s_kern s) [].

Fixpoint lset {A} (l : list A) (i : nat) (v : A) : list A :=
  match l, i with
  | [], _ => []
  | _ :: l', O => v :: l'
  | a :: l', S i' => a :: lset l' i' v
  end.

Definition with_tbl (s : sel) (i : nat) (t : ktable) : sel :=
  {| s_open := s_open s; s_kern := lset (s_kern s) i t; s_rrec := s_rrec s; s_wrec := s_wrec s;
     s_rtok := s_rtok s; s_wtok := s_wtok s; s_tokfd := s_tokfd s; s_tags := s_tags s |}.
Definition with_tokfd (s : sel) (m : list (Z * Z)) : sel :=
  {| s_open := s_open s; s_kern := s_kern s; s_rrec := s_rrec s; s_wrec := s_wrec s;
     s_rtok := s_rtok s; s_wtok := s_wtok s; s_tokfd := m; s_tags := s_tags s |}.
Definition with_r (s : sel) (rrec : list Z) (rtok : list (Z * Z)) : sel :=
  {| s_open := s_open s; s_kern := s_kern s; s_rrec := rrec; s_wrec := s_wrec s;
     s_rtok := rtok; s_wtok := s_wtok s; s_tokfd := s_tokfd s; s_tags := s_tags s |}.
Definition with_w (s : sel) (wrec : list Z) (wtok : list (Z * Z)) : sel :=
  {| s_open := s_open s; s_kern := s_kern s; s_rrec := s_rrec s; s_wrec := wrec;
     s_rtok := s_rtok s; s_wtok := wtok; s_tokfd := s_tokfd s; s_tags := s_tags s |}.
Definition with_open (s : sel) (opn : list Z) (k : list ktable) : sel :=
  {| s_open := opn; s_kern := k; s_rrec := s_rrec s; s_wrec := s_wrec s;
     s_rtok := s_rtok s; s_wtok := s_wtok s; s_tokfd := s_tokfd s; s_tags := s_tags s |}.
Definition add_tag (s : sel) (t : tag) : sel :=
  {| s_open := s_open s; s_kern := s_kern s; s_rrec := s_rrec s; s_wrec := s_wrec s;
     s_rtok := s_rtok s; s_wtok := s_wtok s; s_tokfd := s_tokfd s; s_tags := t :: s_tags s |}.

(** Ghost: poller [i]'s table agrees with the (process-global) records about [fd]. Every entry
    point of the selector marks the run when it is called on a poller for which this is false:
    that is the branch on which the records were written by another poller. *)
Definition coherent (s : sel) (i : nat) (fd : Z) : bool :=
  Bool.eqb (kr (tbl s i) fd) (zmem fd (s_rrec s)) && Bool.eqb (kw (tbl s i) fd) (zmem fd (s_wrec s)).

Definition mark (s : sel) (i : nat) (fd : Z) : sel :=
  if coherent s i fd then s else add_tag s TagShared.

(** [register] / [reregister] / [deregister] (the trait's "inner use" wrappers: the OS call and, on
    success, the [TOKEN_FD] update) *)
Definition register (s : sel) (i : nat) (fd tok : Z) (r w : bool) : bool * sel :=
  match k_add (s_open s) (tbl s i) fd {| k_r := r; k_w := w; k_tok := encode tok |} with
  | Some t => (true, with_tokfd (with_tbl s i t) (aset tok fd (s_tokfd s)))
  | None => (false, s)
  end.

Definition reregister (s : sel) (i : nat) (fd tok : Z) (r w : bool) : bool * sel :=
  match k_mod (s_open s) (tbl s i) fd {| k_r := r; k_w := w; k_tok := encode tok |} with
  | Some t => (true, with_tokfd (with_tbl s i t) (aset tok fd (s_tokfd s)))
  | None => (false, s)
  end.

Definition deregister (s : sel) (i : nat) (fd tok : Z) : bool * sel :=
  match k_del (s_open s) (tbl s i) fd with
  | Some t => (true, with_tokfd (with_tbl s i t) (arem tok (s_tokfd s)))
  | None => (false, s)
  end.

(** [reregister(..).or_else(|_| register(..))] *)
Definition rereg_or_reg (s : sel) (i : nat) (fd tok : Z) (r w : bool) : bool * sel :=
  let '(ok, s1) := reregister s i fd tok r w in
  if ok then (true, s1) else register s i fd tok r w.

Definition add_read_event (s0 : sel) (i : nat) (fd tok : Z) : bool * sel :=
  let s := mark s0 i fd in
  if zmem fd (s_rrec s) then (true, s)
  else
    let '(ok, s1) :=
      if zmem fd (s_wrec s) then rereg_or_reg s i fd tok true true
      else register s i fd tok true false in
    if ok then (true, with_r s1 (zadd fd (s_rrec s1)) (aset fd tok (s_rtok s1)))
    else (false, s1).

Definition add_write_event (s0 : sel) (i : nat) (fd tok : Z) : bool * sel :=
  let s := mark s0 i fd in
  if zmem fd (s_wrec s) then (true, s)
  else
    let '(ok, s1) :=
      if zmem fd (s_rrec s) then rereg_or_reg s i fd tok true true
      else register s i fd tok false true in
    if ok then (true, with_w s1 (zadd fd (s_wrec s1)) (aset fd tok (s_wtok s1)))
    else (false, s1).

(** [del_event]: the token handed to [deregister] is the readable token record if there is one,
    otherwise the writable one, otherwise 0. BOTH token records are removed in every case: the code
    reads [READABLE_TOKEN_RECORDS.remove(&fd).or(WRITABLE_TOKEN_RECORDS.remove(&fd))] and the argument
    of [Option::or] is evaluated before the call. *)
Definition del_event_core (s : sel) (i : nat) (fd : Z) : bool * sel :=
  if zmem fd (s_rrec s) || zmem fd (s_wrec s) then
    let tok :=
      match aget fd (s_rtok s) with
      | Some t => t
      | None => match aget fd (s_wtok s) with Some t => t | None => 0 end
      end in
    let s1 := with_w (with_r s (s_rrec s) (arem fd (s_rtok s))) (s_wrec s) (arem fd (s_wtok s)) in
    let '(ok, s2) := deregister s1 i fd tok in
    if ok then (true, with_w (with_r s2 (zrem fd (s_rrec s2)) (s_rtok s2)) (zrem fd (s_wrec s2)) (s_wtok s2))
    else (false, s2)
  else (true, s).

Definition del_event (s0 : sel) (i : nat) (fd : Z) : bool * sel :=
  del_event_core (mark s0 i fd) i fd.

Definition del_read_event (s0 : sel) (i : nat) (fd : Z) : bool * sel :=
  let s := mark s0 i fd in
  if zmem fd (s_rrec s) then
    if zmem fd (s_wrec s) then
      let tok := match aget fd (s_wtok s) with Some t => t | None => 0 end in
      let '(ok, s1) := reregister s i fd tok false true in
      if ok then (true, with_r s1 (zrem fd (s_rrec s1)) (arem fd (s_rtok s1)))
      else (false, s1)
    else del_event_core s i fd
  else (true, s).

Definition del_write_event (s0 : sel) (i : nat) (fd : Z) : bool * sel :=
  let s := mark s0 i fd in
  if zmem fd (s_wrec s) then
    if zmem fd (s_rrec s) then
      let tok := match aget fd (s_rtok s) with Some t => t | None => 0 end in
      let '(ok, s1) := reregister s i fd tok true false in
      if ok then (true, with_w s1 (zrem fd (s_wrec s1)) (arem fd (s_wtok s1)))
      else (false, s1)
    else del_event_core s i fd
  else (true, s).

(** What [select] does with one delivered event (token as read back, readable, writable): only the
    token maps change. A token unknown to [TOKEN_FD] is treated as descriptor 0, as the code does. *)
Definition deliver (s : sel) (tok : Z) (r w : bool) : sel :=
  let fd := match aget tok (s_tokfd s) with Some f => f | None => 0 end in
  let s1 := with_tokfd s (arem tok (s_tokfd s)) in
  let s2 := if r then with_r s1 (s_rrec s1) (arem fd (s_rtok s1)) else s1 in
  if w then with_w s2 (s_wrec s2) (arem fd (s_wtok s2)) else s2.

(** The OS closes / (re)opens a descriptor number: closing removes it from every interest table. *)
Definition os_close (s : sel) (fd : Z) : sel :=
  with_open s (zrem fd (s_open s)) (map (arem fd) (s_kern s)).
Definition os_open (s : sel) (fd : Z) : sel := with_open s (zadd fd (s_open s)) (s_kern s).

(** * The [EventLoops] entry points when called from a thread that is not an event loop:
    waits go to the next loop in round-robin order, deletions visit every loop in order and stop at
    the first error. *)
Fixpoint all_loops (f : sel -> nat -> bool * sel) (s : sel) (i : nat) (n : nat) : bool * sel :=
  match n with
  | O => (true, s)
  | S n' => let '(ok, s1) := f s i in if ok then all_loops f s1 (S i) n' else (false, s1)
  end.

Definition loops (s : sel) : nat := List.length (s_kern s).

Definition el_del_event (s : sel) (fd : Z) := all_loops (fun s i => del_event s i fd) s 0 (loops s).
Definition el_del_read_event (s : sel) (fd : Z) := all_loops (fun s i => del_read_event s i fd) s 0 (loops s).
Definition el_del_write_event (s : sel) (fd : Z) := all_loops (fun s i => del_write_event s i fd) s 0 (loops s).
