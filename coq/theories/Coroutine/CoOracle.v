(** C07, C08, C09 as executable oracles over the observations of a driver history:
    one [(res, events)] pair per driver op. The oracle keeps a small specification tracker per
    listener (the state last reported to that listener, the clock, what the body last did); it
    never calls the model. Checked once per listener; all listeners must agree. *)
From OCV Require Import Base.Prelude Misc.Time Coroutine.Co.
Open Scope Z_scope.

Definition is_terminal (s : cstate) : bool :=
  match s with Cancelled | Complete _ | Error _ => true | _ => false end.

(** the documented graph; [now] is the clock when the change is reported *)
Definition edge_ok (now : Z) (old new : cstate) : bool :=
  match old, new with
  | Ready, Running => true
  | Running, Suspend _ _ => true
  | Running, Syscall _ _ _ => true
  | Running, Complete _ => true
  | Running, Error _ => true
  | Running, Cancelled => true
  | Syscall _ _ SExecuting, Running => true
  | Syscall _ n _, Syscall _ n' _ => n =? n'
  | Suspend _ t, Ready => t <=? now
  | Suspend _ t, Running => t <=? now
  | _, _ => false
  end.

Definition cb_matches (c : cb) (new : cstate) : bool :=
  match c, new with
  | CbReady, Ready => true | CbRunning, Running => true | CbSuspend, Suspend _ _ => true
  | CbSyscall, Syscall _ _ _ => true | CbCancel, Cancelled => true
  | CbComplete r, Complete r' => r =? r'
  | CbError m, Error m' => msg_eqb m m'
  | _, _ => false
  end.

Definition request_eqb (a b : request) : bool :=
  match a, b with
  | RNone, RNone => true | RUntil x, RUntil y => x =? y | RDelay x, RDelay y => x =? y
  | RCancel, RCancel => true | _, _ => false
  end.

(** per-coroutine tracker (for one listener) *)
Record ctrk := {
  k_st : cstate;                       (* state last reported *)
  k_pending : option (cstate * cstate);(* a change whose specific callback is still due *)
  k_started : bool;
  k_mal : bool;                        (* body ended outside Running: API contract broken by the body *)
  k_last : option bev;                 (* last body event in the current op *)
  k_last_clock : Z;                    (* clock when it happened *)
  k_events : bool                      (* any event for this coroutine in the current op *)
}.

Definition ctrk0 : ctrk :=
  {| k_st := Ready; k_pending := None; k_started := false; k_mal := false; k_last := None;
     k_last_clock := 0; k_events := false |}.

Record otrk := { o_clock : Z; o_cos : list ctrk; o_c07 : bool; o_c08 : bool; o_c09 : bool }.

Definition get_k (t : otrk) (i : nat) : ctrk := nth i (o_cos t) ctrk0.
Definition set_k (t : otrk) (i : nat) (k : ctrk) : otrk :=
  {| o_clock := o_clock t; o_cos := set_nth i k (o_cos t); o_c07 := o_c07 t; o_c08 := o_c08 t; o_c09 := o_c09 t |}.
Definition fail07 (t : otrk) (b : bool) : otrk :=
  {| o_clock := o_clock t; o_cos := o_cos t; o_c07 := o_c07 t && b; o_c08 := o_c08 t; o_c09 := o_c09 t |}.
Definition fail08 (t : otrk) (b : bool) : otrk :=
  {| o_clock := o_clock t; o_cos := o_cos t; o_c07 := o_c07 t; o_c08 := o_c08 t && b; o_c09 := o_c09 t |}.
Definition fail09 (t : otrk) (b : bool) : otrk :=
  {| o_clock := o_clock t; o_cos := o_cos t; o_c07 := o_c07 t; o_c08 := o_c08 t; o_c09 := o_c09 t && b |}.
Definition set_clock (t : otrk) (c : Z) : otrk :=
  {| o_clock := c; o_cos := o_cos t; o_c07 := o_c07 t; o_c08 := o_c08 t; o_c09 := o_c09 t |}.

(** process one event as seen by listener [l]; [who] = coroutine the op resumes (body events of
    any other coroutine are a violation), [term0] = whether each coroutine was terminal when the
    op began *)
Definition on_event (l : nat) (who : option nat) (t : otrk) (e : ev) : otrk :=
  match e with
  | EL l' i c old =>
      if negb (Nat.eqb l l') then t
      else
        let k := get_k t i in
        if k_mal k then t
        else
          match c with
          | CbChanged new =>
              let ok := cstate_eqb old (k_st k) && edge_ok (o_clock t) old new
                        && match k_pending k with None => true | Some _ => false end
                        && negb (is_terminal (k_st k)) in
              fail07 (set_k t i {| k_st := new; k_pending := Some (old, new); k_started := k_started k;
                                   k_mal := k_mal k; k_last := k_last k; k_last_clock := k_last_clock k;
                                   k_events := true |}) ok
          | _ =>
              let ok := match k_pending k with
                        | Some (o, n) => cstate_eqb o old && cb_matches c n
                        | None => false
                        end in
              fail07 (set_k t i {| k_st := k_st k; k_pending := None; k_started := k_started k;
                                   k_mal := k_mal k; k_last := k_last k; k_last_clock := k_last_clock k;
                                   k_events := true |}) ok
          end
  | EB i b =>
      let k := get_k t i in
      let t := match b with BTick d => set_clock t (sat_add64 (o_clock t) d) | _ => t end in
      if k_mal k then t
      else
        (* only the resumed coroutine runs user code, and never after it finished *)
        let t := fail07 t (negb (is_terminal (k_st k))) in
        let t := fail08 t (match who with Some w => Nat.eqb w i | None => false end) in
        let mal := match b with
                   | BRet _ | BPanic _ => negb (cstate_eqb (k_st k) Running)
                   | BYield _ RCancel => negb (cstate_eqb (k_st k) Running)  (* cancel() is for state Running *)
                   | _ => false
                   end in
        set_k t i {| k_st := k_st k; k_pending := k_pending k;
                     k_started := true; k_mal := mal; k_last := Some b; k_last_clock := o_clock t;
                     k_events := true |}
  end.

Definition first_body (i : nat) (evs : list ev) : option bev :=
  match filter (fun e => match e with EB j _ => Nat.eqb i j | _ => false end) evs with
  | EB _ b :: _ => Some b
  | _ => None
  end.

Definition res_eqb (a b : res) : bool :=
  match a, b with
  | ROk s, ROk s' => cstate_eqb s s'
  | RUnit, RUnit => true | RErr, RErr => true | RUnwound, RUnwound => true | RBad, RBad => true
  | _, _ => false
  end.

Definition clear_op (k : ctrk) : ctrk :=
  {| k_st := k_st k; k_pending := k_pending k; k_started := k_started k; k_mal := k_mal k;
     k_last := None; k_last_clock := 0; k_events := false |}.

Definition expected_time (clock : Z) (r : request) : Z :=
  match r with
  | RNone => 0 | RUntil t => t | RDelay d => get_timeout_time clock d | RCancel => 0
  end.

Definition is_none {A} (x : option A) : bool := match x with None => true | Some _ => false end.
Definition is_nil {A} (x : list A) : bool := match x with [] => true | _ :: _ => false end.

(** one observed driver op, as seen by listener [l] *)
Definition ostep1 (l : nat) (t : otrk) (o : dop) (r : res) (evs : list ev) : otrk :=
  let t := {| o_clock := match o with SetClock c => c | _ => o_clock t end;
              o_cos := map clear_op (o_cos t); o_c07 := o_c07 t; o_c08 := o_c08 t; o_c09 := o_c09 t |} in
  let who := match o with Resume i _ => Some i | _ => None end in
  let before := t in
  let t := fold_left (on_event l who) evs t in
  (* no change may be left without its specific callback *)
  let t := fail07 t (forallb (fun k => k_mal k || match k_pending k with None => true | Some _ => false end) (o_cos t)) in
  if res_eqb r RBad then fail07 t (is_nil evs)     (* unknown coroutine: refused by the harness itself *)
  else
  match o with
  | Resume i arg =>
      let k0 := get_k before i in
      let k := get_k t i in
      if k_mal k0 then t
      else if is_terminal (k_st k0) then
        (* terminal states are absorbing: nothing happens, the state or an error is returned *)
        let t := fail07 t (negb (k_events k)) in
        fail07 t (match k_st k0 with
                  | Cancelled => res_eqb r RErr
                  | s => res_eqb r (ROk s)
                  end)
      else
        (* the argument is what the body sees first *)
        let t := fail08 t (match first_body i evs with
                           | Some (BStart p) => negb (k_started k0) && (p =? arg)
                           | Some (BGot p) => k_started k0 && (p =? arg)
                           | Some _ => false
                           | None => true
                           end) in
        if k_mal k then t
        else
          match k_last k with
          | Some (BYield y req) =>
              match k_st k with
              | Syscall _ _ _ => fail08 t (res_eqb r (ROk (k_st k)))
              | Cancelled =>
                  let t := fail08 t (res_eqb r (ROk Cancelled)) in
                  fail09 t (request_eqb req RCancel)
              | Suspend y' ts =>
                  let t := fail08 t (res_eqb r (ROk (Suspend y' ts)) && (y' =? y)) in
                  fail09 t (negb (request_eqb req RCancel) && (ts =? expected_time (k_last_clock k) req))
              | _ => fail08 t false
              end
          | Some (BRet v) => fail08 t (res_eqb r (ROk (Complete v)) && cstate_eqb (k_st k) (Complete v))
          | Some (BPanic pk) =>
              fail08 t (res_eqb r (ROk (Error (panic_msg pk))) && cstate_eqb (k_st k) (Error (panic_msg pk)))
          | Some _ => fail08 t false          (* the body stopped without yielding or ending *)
          | None =>
              (* the body did not run: only a refused resume may cause that, and a resume is refused
                 only while the coroutine is not yet due or is parked in a syscall wait *)
              let refusable := match k_st k0 with
                               | Suspend _ ts => o_clock before <? ts
                               | Syscall _ _ (SSuspend _) => true
                               | _ => false
                               end in
              fail08 (fail07 t (res_eqb r RErr && negb (k_events k) && refusable)) (negb (res_eqb r RUnwound))
          end
  | ExtRunning i | ExtSyscall i _ _ _ =>
      let k := get_k t i in
      if k_mal k then t
      else
        let t := fail07 t (match r with
                           | RErr => negb (k_events k)          (* refused calls change nothing *)
                           | RUnit => true
                           | _ => false
                           end) in
        fail07 t (is_none (first_body i evs))
  | GetState i =>
      let k := get_k t i in
      if k_mal k then t else fail07 t (res_eqb r (ROk (k_st k)) && negb (k_events k))
  | SetClock _ => fail07 t (res_eqb r RUnit && is_nil evs)
  end.

Fixpoint orun1 (l : nat) (t : otrk) (ops : list dop) (obs : list (res * list ev)) : otrk * bool :=
  match ops, obs with
  | [], [] => (t, true)
  | o :: ops', (r, evs) :: obs' => orun1 l (ostep1 l t o r evs) ops' obs'
  | _, _ => (t, false)
  end.

Definition otrk0 (clock : Z) (n : nat) : otrk :=
  {| o_clock := clock; o_cos := repeat ctrk0 n; o_c07 := true; o_c08 := true; o_c09 := true |}.

Record cojudge := { j_c07 : bool; j_c08 : bool; j_c09 : bool; j_shape : bool }.

(** all [nl] listeners *)
Definition judge_co (clock : Z) (ncos nl : nat) (ops : list dop) (obs : list (res * list ev)) : cojudge :=
  let rs := map (fun l => orun1 l (otrk0 clock ncos) ops obs) (seq 0 nl) in
  {| j_c07 := forallb (fun x => o_c07 (fst x)) rs;
     j_c08 := forallb (fun x => o_c08 (fst x)) rs;
     j_c09 := forallb (fun x => o_c09 (fst x)) rs;
     j_shape := forallb snd rs && negb (Nat.eqb nl 0) |}.

(** observation equality, for the correspondence *)
Definition request_eqb' := request_eqb.
Definition pkind_eqb (a b : pkind) : bool :=
  match a, b with
  | PStatic x, PStatic y => x =? y | POwned x, POwned y => x =? y | POther, POther => true | _, _ => false
  end.
Definition bev_eqb (a b : bev) : bool :=
  match a, b with
  | BStart x, BStart y => x =? y | BGot x, BGot y => x =? y
  | BYield y r, BYield y' r' => (y =? y') && request_eqb r r'
  | BRes x, BRes y => Bool.eqb x y
  | BTick x, BTick y => x =? y | BLog x, BLog y => x =? y
  | BRet x, BRet y => x =? y | BPanic x, BPanic y => pkind_eqb x y
  | _, _ => false
  end.
Definition cb_eqb (a b : cb) : bool :=
  match a, b with
  | CbChanged s, CbChanged s' => cstate_eqb s s'
  | CbReady, CbReady => true | CbRunning, CbRunning => true | CbSuspend, CbSuspend => true
  | CbSyscall, CbSyscall => true | CbCancel, CbCancel => true
  | CbComplete r, CbComplete r' => r =? r'
  | CbError m, CbError m' => msg_eqb m m'
  | _, _ => false
  end.
Definition ev_eqb (a b : ev) : bool :=
  match a, b with
  | EL l i c o, EL l' i' c' o' => Nat.eqb l l' && Nat.eqb i i' && cb_eqb c c' && cstate_eqb o o'
  | EB i b, EB i' b' => Nat.eqb i i' && bev_eqb b b'
  | _, _ => false
  end.
Definition obs_eqb (a b : res * list ev) : bool :=
  res_eqb (fst a) (fst b) && list_eqb ev_eqb (snd a) (snd b).
