(** C07, C08, C09 hold of the model: the oracle, run on the model's own observations, raises no
    flag -- for every clock, every number of listeners and every driver history; C07 and C08 for
    every set of bodies without the internal [IUnreachable] instruction ([wf_co]), C09 for every
    set of bodies. *)
From OCV Require Import Base.Prelude Misc.Time Coroutine.Co Coroutine.CoOracle Coroutine.CoLemmas
  Coroutine.CoFocus Coroutine.CoExec Coroutine.CoPost Coroutine.CoSim Coroutine.CoStep Coroutine.CoResume
  Coroutine.Co9.
From Coq Require Import ZifyBool ZifyNat.
Open Scope Z_scope.

Definition model_cojudge (clock : Z) (bodies : list (list instr)) (nl : nat) (ops : list dop) : cojudge :=
  judge_co clock (length bodies) nl ops (drun (mk_thr clock bodies nl) ops).

(** Well-formed inputs: no body contains the internal instruction [IUnreachable] (it stands for
    the [unreachable!()] behind [suspender.cancel()] and is never generated in inputs; see
    COUNTEREXAMPLES.md for why the premise is needed for C07 and C08). Clock and ops are
    unconstrained: no numeric range is required. *)
Definition wf_co (clock : Z) (bodies : list (list instr)) (ops : list dop) : bool :=
  no_unreachable bodies.

(** * shape: one observation per op *)
Lemma orun1_shape (l : nat) : forall ops T ot, snd (orun1 l ot ops (drun T ops)) = true.
Proof.
  induction ops as [|o ops IH]; intros T ot; [reflexivity|].
  cbn [drun]. destruct (dstep T o) as [[T' r] e]. cbn [orun1]. apply IH.
Qed.

Theorem co_shape : forall clock bodies nl ops, (1 <= nl)%nat -> j_shape (model_cojudge clock bodies nl ops) = true.
Proof.
  intros clock bodies nl ops Hnl. unfold model_cojudge, judge_co. cbn [j_shape].
  apply andb_true_iff. split.
  - apply forallb_forall. intros x Hx. apply in_map_iff in Hx as (l & <- & _). apply orun1_shape.
  - destruct nl; [lia | reflexivity].
Qed.

(** * one step, any op *)
Lemma step_inv (l : nat) (T T' : thr) (ot : otrk) (o : dop) (r : res) (evs : list ev) :
  Inv l T ot -> dstep T o = (T', r, evs) -> Inv l T' (ostep1 l ot o r evs).
Proof.
  intros HI Hd. destruct o as [i arg | i | i y n s | x | i].
  - apply step_Resume with (T := T); assumption.
  - apply step_ExtRunning with (T := T); assumption.
  - apply step_ExtSyscall with (T := T); assumption.
  - cbn [dstep] in Hd. injection Hd as <- <- <-. apply step_SetClock. exact HI.
  - cbn [dstep] in Hd. destruct (nth_error (t_cos T) i) as [c|] eqn:Hc; injection Hd as <- <- <-.
    + apply step_GetState; assumption.
    + apply step_bad; [exact HI | intros x; discriminate].
Qed.

Lemma run_inv (l : nat) : forall ops T ot,
  Inv l T ot ->
  let ot' := fst (orun1 l ot ops (drun T ops)) in
  o_c07 ot' = true /\ o_c08 ot' = true /\ o_c09 ot' = true.
Proof.
  induction ops as [|o ops IH]; intros T ot HI.
  - cbn [drun orun1 fst]. destruct HI; auto.
  - cbn [drun]. destruct (dstep T o) as [[T' r] e] eqn:Hd. cbn [orun1].
    apply IH with (T := T'). eapply step_inv; eassumption.
Qed.

Lemma inv_init (l : nat) (clock : Z) (bodies : list (list instr)) (nl : nat) :
  (l < nl)%nat -> no_unreachable bodies = true ->
  Inv l (mk_thr clock bodies nl) (otrk0 clock (length bodies)).
Proof.
  intros Hl Hnu. constructor; try reflexivity; cbn [mk_thr t_nl t_cos otrk0 o_cos]; [exact Hl|].
  split; [rewrite repeat_length, map_length; reflexivity|].
  intros j c Hj. rewrite nth_repeat. apply nth_error_In in Hj. apply in_map_iff in Hj as (b & <- & Hb).
  unfold no_unreachable in Hnu. rewrite forallb_forall in Hnu. specialize (Hnu b Hb).
  intros _. cbn [ctrk0 k_st k_pending k_started c_st c_started c_dead c_body].
  repeat split; try discriminate. intro H. congruence.
Qed.

Lemma judge_all (clock : Z) (bodies : list (list instr)) (nl : nat) (ops : list dop) (P : otrk -> bool) :
  (forall l, (l < nl)%nat ->
     P (fst (orun1 l (otrk0 clock (length bodies)) ops (drun (mk_thr clock bodies nl) ops))) = true) ->
  forallb (fun x => P (fst x))
    (map (fun l => orun1 l (otrk0 clock (length bodies)) ops (drun (mk_thr clock bodies nl) ops)) (seq 0 nl)) = true.
Proof.
  intro H. apply forallb_forall. intros x Hx. apply in_map_iff in Hx as (l & <- & Hl).
  apply in_seq in Hl. apply H. lia.
Qed.

Theorem c07_model : forall clock bodies nl ops,
  wf_co clock bodies ops = true -> j_c07 (model_cojudge clock bodies nl ops) = true.
Proof.
  intros clock bodies nl ops Hwf. unfold model_cojudge, judge_co. cbn [j_c07].
  apply (judge_all clock bodies nl ops o_c07). intros l Hl.
  apply (run_inv l ops _ _ (inv_init l clock bodies nl Hl Hwf)).
Qed.

Theorem c08_model : forall clock bodies nl ops,
  wf_co clock bodies ops = true -> j_c08 (model_cojudge clock bodies nl ops) = true.
Proof.
  intros clock bodies nl ops Hwf. unfold model_cojudge, judge_co. cbn [j_c08].
  apply (judge_all clock bodies nl ops o_c08). intros l Hl.
  apply (run_inv l ops _ _ (inv_init l clock bodies nl Hl Hwf)).
Qed.

(** C09 needs no premise at all: delay and cancel requests belong to the yield that made them
    even for bodies that contain [IUnreachable] (proof in Co9.v, with a weaker invariant). *)
Theorem c09_model : forall clock bodies nl ops, j_c09 (model_cojudge clock bodies nl ops) = true.
Proof.
  intros clock bodies nl ops. unfold model_cojudge, judge_co. cbn [j_c09].
  apply (judge_all clock bodies nl ops o_c09). intros l Hl.
  apply (run_inv9 l ops _ _ (inv9_init l clock bodies nl Hl)).
Qed.

(** a non-trivial history satisfying the premise (three coroutines, two listeners; syscall yield,
    cancel inside and outside Running, delay with a negative tick, refused and unknown ops) *)
Example wf_co_example :
  let bodies := [[ISyscall 1 2 SExecuting; ICancel; ILog 1];
                 [IDelay 3 5; ITick (-7); IUntil 4 100; IRunning; ICancel];
                 [ISuspend 9; IPanic (POwned 3)]] in
  let ops := [Resume 0 5; Resume 1 6; Resume 0 6; Resume 0 7; Resume 1 1; SetClock 200; Resume 1 1;
              Resume 1 2; GetState 1; Resume 1 3; Resume 7 7; ExtRunning 0; ExtSyscall 1 2 3 SCallback;
              Resume 2 0; ExtRunning 2; Resume 2 1; Resume 2 2] in
  wf_co 0 bodies ops = true
  /\ model_cojudge 0 bodies 2 ops = {| j_c07 := true; j_c08 := true; j_c09 := true; j_shape := true |}.
Proof. vm_compute. split; reflexivity. Qed.

(** * stand-alone facts about the model *)

(** terminal states absorb: resume on Complete/Error returns the state unchanged with no events,
    on Cancelled it is refused *)
Theorem resume_terminal : forall t i arg c, nth_error (t_cos t) i = Some c -> is_terminal (c_st c) = true ->
  let '(t', r, evs) := resume t i arg in t' = t /\ evs = [] /\
  (r = match c_st c with Cancelled => RErr | s => ROk s end).
Proof.
  intros t i arg c Hc Hterm. unfold resume. rewrite Hc.
  destruct (c_st c); cbn [is_terminal] in Hterm; try discriminate; cbn [tr_running]; auto.
Qed.

(** ** every reported change is an edge of the documented graph

    [edge_ok now old new] depends on [now] only for the two edges out of [Suspend _ t] (the
    coroutine must be due: [t <= now]). Those edges are only ever taken as the *first* change of
    an op, before any body instruction could move the clock, so the strongest true statement
    uses the clock at the start of the op: [edge_ok (t_clock t) old new] -- no quantifier over
    clocks, and the due-time condition is kept ([change_is_edge_clock]).
    [edge_ok_any] is the clock-free graph (due-time condition dropped), for readers who only
    care about the shape; it is implied by [edge_ok now] for every [now]. *)
Definition edge_ok_any (old new : cstate) : bool :=
  match old, new with
  | Ready, Running => true
  | Running, Suspend _ _ => true
  | Running, Syscall _ _ _ => true
  | Running, Complete _ => true
  | Running, Error _ => true
  | Running, Cancelled => true
  | Syscall _ _ SExecuting, Running => true
  | Syscall _ n _, Syscall _ n' _ => n =? n'
  | Suspend _ _, Ready => true
  | Suspend _ _, Running => true
  | _, _ => false
  end.

Lemma edge_ok_any_of (now : Z) (old new : cstate) : edge_ok now old new = true -> edge_ok_any old new = true.
Proof.
  destruct old as [| |y t|y n s| | |], new as [| |y' t'|y' n' s'| | |]; cbn [edge_ok edge_ok_any]; auto.
Qed.

Lemma in_change_events (nl i : nat) (old new : cstate) l' i' new' old' :
  In (EL l' i' (CbChanged new') old') (change_events nl i old new) -> old' = old /\ new' = new.
Proof.
  unfold change_events. intro H. apply in_app_or in H as [H|H]; apply in_map_iff in H as (x & E & _).
  - injection E as _ _ <- <-. auto.
  - injection E as _ _ E _. exfalso. eapply specific_not_changed. exact E.
Qed.

(** changes made while a body runs do not depend on the clock at all *)
Lemma exec_edges (i : nat) : forall body T c T2 c2 evs out,
  exec body T i c [] = (T2, c2, evs, out) -> run_st (c_st c) = true ->
  run_st (c_st c2) = true
  /\ forall l' i' new old, In (EL l' i' (CbChanged new) old) evs -> forall now, edge_ok now old new = true.
Proof.
  induction body as [|ins rest IH]; intros T c T2 c2 evs out Hex Hrun.
  - cbn [exec app] in Hex. injection Hex as <- <- <- <-. split; [exact Hrun|].
    intros l' i' new old [H|[]]. discriminate.
  - destruct ins; cbn [exec app c_st] in Hex;
      try (injection Hex as <- <- <- <-; split; [exact Hrun|]; intros l' i' new old H;
           repeat destruct H as [H|H]; try discriminate; contradiction).
    + (* ISyscall *)
      destruct (tr_syscall (c_st c) y name s) as [new|] eqn:Etr; rewrite exec_acc in Hex;
        destruct (exec rest T i _ []) as [[[T2' c2'] evs'] out'] eqn:Hex'; injection Hex as <- <- <- <-.
      * assert (Hrun' : run_st new = true)
          by (destruct (tr_syscall_edge 0 _ _ _ _ _ Etr) as (-> & _); reflexivity).
        destruct (IH _ _ _ _ _ _ Hex' Hrun') as (R & E). split; [exact R|].
        intros l' i' new' old H now. apply in_app_or in H as [H|H]; [|eapply E; exact H].
        apply in_app_or in H as [H|[H|[]]]; [|discriminate].
        apply in_change_events in H as (-> & ->).
        apply (tr_syscall_edge now _ _ _ _ _ Etr).
      * destruct (IH _ _ _ _ _ _ Hex' Hrun) as (R & E). split; [exact R|].
        intros l' i' new' old H now. destruct H as [H|H]; [discriminate | eapply E; exact H].
    + (* IRunning *)
      destruct (tr_running (t_clock T) (c_st c)) as [[new|]|] eqn:Etr; rewrite exec_acc in Hex;
        destruct (exec rest T i _ []) as [[[T2' c2'] evs'] out'] eqn:Hex'; injection Hex as <- <- <- <-.
      * destruct (tr_running_edge _ _ _ Etr) as (Hnew & Hedge & _).
        assert (Hrun' : run_st new = true) by (rewrite Hnew; reflexivity).
        destruct (IH _ _ _ _ _ _ Hex' Hrun') as (R & E). split; [exact R|].
        intros l' i' new' old H now. apply in_app_or in H as [H|H]; [|eapply E; exact H].
        apply in_app_or in H as [H|[H|[]]]; [|discriminate].
        apply in_change_events in H as (-> & ->). rewrite Hnew in *.
        destruct (c_st c) as [| |? ?|? ? []| | |]; cbn [run_st] in Hrun; try discriminate;
          cbn [edge_ok] in Hedge |- *; auto.
      * destruct (IH _ _ _ _ _ _ Hex' Hrun) as (R & E). split; [exact R|].
        intros l' i' new' old H now. destruct H as [H|H]; [discriminate | eapply E; exact H].
      * destruct (IH _ _ _ _ _ _ Hex' Hrun) as (R & E). split; [exact R|].
        intros l' i' new' old H now. destruct H as [H|H]; [discriminate | eapply E; exact H].
    + (* ITick *)
      rewrite exec_acc in Hex.
      destruct (exec rest _ i _ []) as [[[T2' c2'] evs'] out'] eqn:Hex'; injection Hex as <- <- <- <-.
      destruct (IH _ _ _ _ _ _ Hex' Hrun) as (R & E). split; [exact R|].
      intros l' i' new' old H now. destruct H as [H|H]; [discriminate | eapply E; exact H].
    + (* ILog *)
      rewrite exec_acc in Hex.
      destruct (exec rest _ i _ []) as [[[T2' c2'] evs'] out'] eqn:Hex'; injection Hex as <- <- <- <-.
      destruct (IH _ _ _ _ _ _ Hex' Hrun) as (R & E). split; [exact R|].
      intros l' i' new' old H now. destruct H as [H|H]; [discriminate | eapply E; exact H].
Qed.

Lemma finish_edges (t2 : thr) (i : nat) (c2 : co) (ev2 : list ev) (out : outcome) T' r evs :
  finish t2 i c2 ev2 out = (T', r, evs) ->
  forall l' i' new old, In (EL l' i' (CbChanged new) old) evs ->
    In (EL l' i' (CbChanged new) old) ev2 \/ forall now, edge_ok now old new = true.
Proof.
  unfold finish. intro H.
  destruct out; [destruct (c_st c2) eqn:Est | destruct (tr_from_running _ _) eqn:Etr | destruct (tr_from_running _ _) eqn:Etr];
    cbn [apply_change] in H;
    repeat match type of H with
           | context [pop_front ?d ?x] => destruct (pop_front d x)
           | context [if ?b then _ else _] => destruct b
           end;
    injection H as <- <- <-; intros l' i' new old Hin; auto;
    apply in_app_or in Hin as [Hin|Hin]; auto; right; intro now;
    apply in_change_events in Hin as (-> & ->);
    try (apply tr_from_running_Some in Etr as (-> & ->)); try rewrite Est; reflexivity.
Qed.

Theorem change_is_edge_clock : forall t o, let '(t', r, evs) := dstep t o in
  forall l i new old, In (EL l i (CbChanged new) old) evs -> edge_ok (t_clock t) old new = true.
Proof.
  intros t o. destruct (dstep t o) as [[t' r] evs] eqn:Hd. intros l i new old Hin.
  destruct o as [j arg | j | j y n s | x | j]; cbn [dstep] in Hd.
  - (* Resume *)
    destruct (nth_error (t_cos t) j) as [c|] eqn:Hc.
    2:{ unfold resume in Hd. rewrite Hc in Hd. injection Hd as <- <- <-. contradiction. }
    destruct (tr_running (t_clock t) (c_st c)) as [chg|] eqn:Htr.
    2:{ unfold resume in Hd. rewrite Hc, Htr in Hd.
        destruct (c_st c); injection Hd as <- <- <-; contradiction. }
    rewrite (resume_unfold t j arg c chg Hc Htr) in Hd. cbv zeta in Hd.
    assert (Hev1 : forall l i new old, In (EL l i (CbChanged new) old) (enter_ev t j c chg) ->
                     edge_ok (t_clock t) old new = true).
    { intros l0 i0 new0 old0 H. destruct chg as [nw|]; cbn [enter_ev] in H; [|contradiction].
      apply in_change_events in H as (-> & ->). apply (tr_running_edge _ _ _ Htr). }
    assert (Hrun : run_st (c_st (enter_c c chg)) = true).
    { destruct chg as [nw|]; cbn [enter_c with_st c_st].
      - destruct (tr_running_edge _ _ _ Htr) as (-> & _). reflexivity.
      - eapply tr_running_same. exact Htr. }
    destruct (c_dead (enter_c c chg)).
    + injection Hd as <- <- <-. eapply Hev1. exact Hin.
    + destruct (exec _ _ j _ []) as [[[T2 c2] evx] out] eqn:Hex.
      destruct (exec_edges j _ _ _ _ _ _ _ Hex Hrun) as (_ & Hevx).
      destruct (finish_edges _ _ _ _ _ _ _ _ Hd _ _ _ _ Hin) as [H|H]; [|apply H].
      apply in_app_or in H as [H|H]; [|eapply Hevx; exact H].
      apply in_app_or in H as [H|H]; [eapply Hev1; exact H|].
      unfold first_ev in H. destruct (c_body (enter_c c chg)) as [|[] ?]; cbn [In] in H;
        try contradiction; destruct (c_started _); destruct H as [H|[]]; discriminate.
  - destruct (nth_error (t_cos t) j) as [c|]; [|injection Hd as <- <- <-; contradiction].
    destruct (tr_running (t_clock t) (c_st c)) as [[nw|]|] eqn:Htr;
      cbn [apply_change] in Hd; injection Hd as <- <- <-; try contradiction.
    apply in_change_events in Hin as (-> & ->). apply (tr_running_edge _ _ _ Htr).
  - destruct (nth_error (t_cos t) j) as [c|]; [|injection Hd as <- <- <-; contradiction].
    destruct (tr_syscall (c_st c) y n s) as [nw|] eqn:Htr;
      cbn [apply_change] in Hd; injection Hd as <- <- <-; try contradiction.
    apply in_change_events in Hin as (-> & ->). apply (tr_syscall_edge _ _ _ _ _ _ Htr).
  - injection Hd as <- <- <-. contradiction.
  - destruct (nth_error (t_cos t) j) as [c|]; injection Hd as <- <- <-; contradiction.
Qed.

Theorem change_is_edge : forall t o, let '(t', r, evs) := dstep t o in
  forall l i new old, In (EL l i (CbChanged new) old) evs -> edge_ok_any old new = true.
Proof.
  intros t o. pose proof (change_is_edge_clock t o) as H.
  destruct (dstep t o) as [[t' r] evs]. intros l i new old Hin.
  eapply edge_ok_any_of. eapply H. exact Hin.
Qed.

(** ** the request deques never carry anything from one driver op to the next

    [ICancel] pushes only to CANCEL, [IUntil]/[IDelay] only to TIMESTAMP, and the Running branch
    with [cancel = true] does not pop TIMESTAMP -- but at most one request is pushed per body run
    (the push *is* the yield), both deques are empty when the run starts, and every way a
    yield can end pops what that yield pushed. So no stale entry can ever be attributed to a
    later yield. (Part of the simulation invariant; restated here on its own.) *)
Fixpoint dfinal (t : thr) (ops : list dop) : thr :=
  match ops with
  | [] => t
  | o :: ops' => let '(t', _, _) := dstep t o in dfinal t' ops'
  end.

Lemma dfinal_inv9 (l : nat) : forall ops T ot, Inv9 l T ot -> exists ot', Inv9 l (dfinal T ops) ot'.
Proof.
  induction ops as [|o ops IH]; intros T ot HI; [exists ot; exact HI|].
  cbn [dfinal]. destruct (dstep T o) as [[T' r] e] eqn:Hd.
  eapply IH. eapply step_inv9; eassumption.
Qed.

Theorem deques_empty_between_ops : forall clock bodies nl ops, (1 <= nl)%nat ->
  t_ts (dfinal (mk_thr clock bodies nl) ops) = [] /\ t_cn (dfinal (mk_thr clock bodies nl) ops) = [].
Proof.
  intros clock bodies nl ops Hnl.
  destruct (dfinal_inv9 0 ops _ _ (inv9_init 0 clock bodies nl Hnl)) as (ot' & HI).
  split; [apply (inv9_ts _ _ _ HI) | apply (inv9_cn _ _ _ HI)].
Qed.

Print Assumptions co_shape.
Print Assumptions c07_model.
Print Assumptions c08_model.
Print Assumptions c09_model.
Print Assumptions resume_terminal.
Print Assumptions change_is_edge_clock.
Print Assumptions change_is_edge.
Print Assumptions deques_empty_between_ops.
Print Assumptions wf_co_example.
