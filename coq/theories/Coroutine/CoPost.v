(** [ostep1] split into "clear, fold the events, check the result", and the checking part
    re-expressed on the focused tracker ([opost_f]). *)
From OCV Require Import Base.Prelude Misc.Time Coroutine.Co Coroutine.CoOracle Coroutine.CoLemmas
  Coroutine.CoFocus.
From Coq Require Import ZifyBool ZifyNat.
Open Scope Z_scope.

Definition cleared (t : otrk) (o : dop) : otrk :=
  {| o_clock := match o with SetClock c => c | _ => o_clock t end;
     o_cos := map clear_op (o_cos t); o_c07 := o_c07 t; o_c08 := o_c08 t; o_c09 := o_c09 t |}.

Definition op_who (o : dop) : option nat := match o with Resume i _ => Some i | _ => None end.

Definition op_idx (o : dop) : nat :=
  match o with
  | Resume i _ | ExtRunning i | ExtSyscall i _ _ _ | GetState i => i
  | SetClock _ => 0%nat
  end.

Definition pend_ok (k : ctrk) : bool :=
  k_mal k || match k_pending k with None => true | Some _ => false end.

(** the checks of [ostep1] after the fold; [before] is the cleared tracker, [tf] the folded one *)
Definition opost (o : dop) (r : res) (evs : list ev) (before tf : otrk) : otrk :=
  let t := fail07 tf (forallb (fun k => k_mal k || match k_pending k with None => true | Some _ => false end) (o_cos tf)) in
  if res_eqb r RBad then fail07 t (is_nil evs)
  else
  match o with
  | Resume i arg =>
      let k0 := get_k before i in
      let k := get_k t i in
      if k_mal k0 then t
      else if is_terminal (k_st k0) then
        let t := fail07 t (negb (k_events k)) in
        fail07 t (match k_st k0 with
                  | Cancelled => res_eqb r RErr
                  | s => res_eqb r (ROk s)
                  end)
      else
        let t := fail08 t (match first_body i evs with
                           | Some (BStart p) => negb (k_started k0) && (p =? arg)
                           | Some (BGot p) => k_started k0 && (p =? arg)
                           | Some _ => false
                           | None => true
                           end) in
        if k_mal k then t
        else
          match k_last k with
          | Some (BYield y req) =>
              match k_st k with
              | Syscall _ _ _ => fail08 t (res_eqb r (ROk (k_st k)))
              | Cancelled =>
                  let t := fail08 t (res_eqb r (ROk Cancelled)) in
                  fail09 t (request_eqb req RCancel)
              | Suspend y' ts =>
                  let t := fail08 t (res_eqb r (ROk (Suspend y' ts)) && (y' =? y)) in
                  fail09 t (negb (request_eqb req RCancel) && (ts =? expected_time (k_last_clock k) req))
              | _ => fail08 t false
              end
          | Some (BRet v) => fail08 t (res_eqb r (ROk (Complete v)) && cstate_eqb (k_st k) (Complete v))
          | Some (BPanic pk) =>
              fail08 t (res_eqb r (ROk (Error (panic_msg pk))) && cstate_eqb (k_st k) (Error (panic_msg pk)))
          | Some _ => fail08 t false
          | None =>
              let refusable := match k_st k0 with
                               | Suspend _ ts => o_clock before <? ts
                               | Syscall _ _ (SSuspend _) => true
                               | _ => false
                               end in
              fail08 (fail07 t (res_eqb r RErr && negb (k_events k) && refusable)) (negb (res_eqb r RUnwound))
          end
  | ExtRunning i | ExtSyscall i _ _ _ =>
      let k := get_k t i in
      if k_mal k then t
      else
        let t := fail07 t (match r with
                           | RErr => negb (k_events k)
                           | RUnit => true
                           | _ => false
                           end) in
        fail07 t (is_none (first_body i evs))
  | GetState i =>
      let k := get_k t i in
      if k_mal k then t else fail07 t (res_eqb r (ROk (k_st k)) && negb (k_events k))
  | SetClock _ => fail07 t (res_eqb r RUnit && is_nil evs)
  end.

Lemma ostep1_eq (l : nat) (t : otrk) (o : dop) (r : res) (evs : list ev) :
  ostep1 l t o r evs = opost o r evs (cleared t o) (fold_left (on_event l (op_who o)) evs (cleared t o)).
Proof. reflexivity. Qed.

(** focused versions *)
Definition ffail07 (f : foc) (b : bool) : foc :=
  {| f_clock := f_clock f; f_k := f_k f; f_07 := f_07 f && b; f_08 := f_08 f; f_09 := f_09 f |}.
Definition ffail08 (f : foc) (b : bool) : foc :=
  {| f_clock := f_clock f; f_k := f_k f; f_07 := f_07 f; f_08 := f_08 f && b; f_09 := f_09 f |}.
Definition ffail09 (f : foc) (b : bool) : foc :=
  {| f_clock := f_clock f; f_k := f_k f; f_07 := f_07 f; f_08 := f_08 f; f_09 := f_09 f && b |}.

(** what [Resume] checks about the way the body run ended *)
(** a resume may be refused only while the coroutine is not yet due, or parked in a syscall wait *)
Definition refusable (clk0 : Z) (k0 : ctrk) : bool :=
  match k_st k0 with
  | Suspend _ ts => clk0 <? ts
  | Syscall _ _ (SSuspend _) => true
  | _ => false
  end.

Definition resume_tail (r : res) (rf : bool) (t : foc) : foc :=
  let k := f_k t in
  if k_mal k then t
  else
    match k_last k with
    | Some (BYield y req) =>
        match k_st k with
        | Syscall _ _ _ => ffail08 t (res_eqb r (ROk (k_st k)))
        | Cancelled =>
            let t := ffail08 t (res_eqb r (ROk Cancelled)) in
            ffail09 t (request_eqb req RCancel)
        | Suspend y' ts =>
            let t := ffail08 t (res_eqb r (ROk (Suspend y' ts)) && (y' =? y)) in
            ffail09 t (negb (request_eqb req RCancel) && (ts =? expected_time (k_last_clock k) req))
        | _ => ffail08 t false
        end
    | Some (BRet v) => ffail08 t (res_eqb r (ROk (Complete v)) && cstate_eqb (k_st k) (Complete v))
    | Some (BPanic pk) =>
        ffail08 t (res_eqb r (ROk (Error (panic_msg pk))) && cstate_eqb (k_st k) (Error (panic_msg pk)))
    | Some _ => ffail08 t false
    | None =>
        ffail08 (ffail07 t (res_eqb r RErr && negb (k_events k) && rf)) (negb (res_eqb r RUnwound))
    end.

Definition first_ok (i : nat) (evs : list ev) (k0 : ctrk) (arg : Z) : bool :=
  match first_body i evs with
  | Some (BStart p) => negb (k_started k0) && (p =? arg)
  | Some (BGot p) => k_started k0 && (p =? arg)
  | Some _ => false
  | None => true
  end.

Definition opost_f (o : dop) (r : res) (evs : list ev) (k0 : ctrk) (clk0 : Z) (pend : bool) (f : foc) : foc :=
  let i := op_idx o in
  let t := ffail07 f pend in
  if res_eqb r RBad then ffail07 t (is_nil evs)
  else
  match o with
  | Resume _ arg =>
      let k := f_k t in
      if k_mal k0 then t
      else if is_terminal (k_st k0) then
        let t := ffail07 t (negb (k_events k)) in
        ffail07 t (match k_st k0 with
                  | Cancelled => res_eqb r RErr
                  | s => res_eqb r (ROk s)
                  end)
      else
        resume_tail r (refusable clk0 k0) (ffail08 t (first_ok i evs k0 arg))
  | ExtRunning _ | ExtSyscall _ _ _ _ =>
      let k := f_k t in
      if k_mal k then t
      else
        let t := ffail07 t (match r with
                           | RErr => negb (k_events k)
                           | RUnit => true
                           | _ => false
                           end) in
        ffail07 t (is_none (first_body i evs))
  | GetState _ =>
      let k := f_k t in
      if k_mal k then t else ffail07 t (res_eqb r (ROk (k_st k)) && negb (k_events k))
  | SetClock _ => ffail07 t (res_eqb r RUnit && is_nil evs)
  end.

Ltac split_all_matches :=
  repeat match goal with
         | |- context [if ?b then _ else _] => destruct b
         | |- context [match ?x with _ => _ end] => destruct x
         end.

Lemma opost_focus (o : dop) (r : res) (evs : list ev) (before tf : otrk) :
  focus (opost o r evs before tf) (op_idx o)
  = opost_f o r evs (get_k before (op_idx o)) (o_clock before)
            (forallb pend_ok (o_cos tf)) (focus tf (op_idx o)).
Proof.
  unfold opost, opost_f, pend_ok, resume_tail, first_ok, refusable.
  destruct (res_eqb r RBad); [reflexivity|].
  destruct o; cbn [op_idx]; cbv zeta; unfold focus, get_k;
    cbn [fail07 fail08 fail09 ffail07 ffail08 ffail09 o_cos o_clock o_c07 o_c08 o_c09
         f_clock f_k f_07 f_08 f_09];
    split_all_matches; reflexivity.
Qed.

Lemma opost_cos (o : dop) (r : res) (evs : list ev) (before tf : otrk) :
  o_cos (opost o r evs before tf) = o_cos tf /\ o_clock (opost o r evs before tf) = o_clock tf.
Proof.
  unfold opost.
  destruct (res_eqb r RBad); [split; reflexivity|].
  destruct o; cbv zeta; split_all_matches; split; reflexivity.
Qed.

Lemma first_body_EL (i : nat) (evs rest : list ev) :
  Forall (fun e => match e with EL _ _ _ _ => True | EB _ _ => False end) evs ->
  first_body i (evs ++ rest) = first_body i rest.
Proof.
  intro H. unfold first_body. rewrite filter_app.
  replace (filter _ evs) with (@nil ev); [reflexivity|].
  induction H as [|e evs He _ IH]; [reflexivity|]. destruct e; [|contradiction]. cbn [filter]. exact IH.
Qed.

Lemma change_events_EL (nl i : nat) (old new : cstate) :
  Forall (fun e => match e with EL _ _ _ _ => True | EB _ _ => False end) (change_events nl i old new).
Proof.
  unfold change_events. apply Forall_app. split; apply Forall_forall; intros e He;
    apply in_map_iff in He as (l' & <- & _); exact I.
Qed.

Lemma first_body_change (nl i : nat) (old new : cstate) (rest : list ev) :
  first_body i (change_events nl i old new ++ rest) = first_body i rest.
Proof. apply first_body_EL. apply change_events_EL. Qed.

Lemma first_body_change_nil (nl i : nat) (old new : cstate) :
  first_body i (change_events nl i old new) = None.
Proof. rewrite <- (app_nil_r (change_events _ _ _ _)). rewrite first_body_change. reflexivity. Qed.

Lemma first_body_EB (i : nat) (b : bev) (rest : list ev) : first_body i (EB i b :: rest) = Some b.
Proof. unfold first_body. cbn [filter]. rewrite Nat.eqb_refl. reflexivity. Qed.
