(** What a body run ([exec]) does to the model state, and what listener [l]'s tracker makes of
    the events it emits. *)
From OCV Require Import Base.Prelude Misc.Time Coroutine.Co Coroutine.CoOracle Coroutine.CoLemmas
  Coroutine.CoFocus.
From Coq Require Import ZifyBool ZifyNat.
Open Scope Z_scope.

(** the accumulator is only ever extended *)
Lemma exec_acc (i : nat) : forall body t c acc,
  exec body t i c acc
  = let '(t2, c2, ev2, out) := exec body t i c [] in (t2, c2, acc ++ ev2, out).
Proof.
  induction body as [|ins rest IH]; intros t c acc.
  - cbn [exec app]. reflexivity.
  - destruct ins; cbn [exec app]; try reflexivity.
    + (* ISyscall *)
      destruct (tr_syscall _ y name s) as [new|].
      * rewrite IH. rewrite (IH _ _ (change_events _ _ _ _ ++ _)).
        destruct (exec rest t i _ []) as [[[t2 c2] ev2] out]. rewrite <- !app_assoc. reflexivity.
      * rewrite IH. rewrite (IH _ _ [_]).
        destruct (exec rest t i _ []) as [[[t2 c2] ev2] out]. rewrite <- !app_assoc. reflexivity.
    + (* IRunning *)
      destruct (tr_running _ _) as [[new|]|].
      * rewrite IH. rewrite (IH _ _ (change_events _ _ _ _ ++ _)).
        destruct (exec rest t i _ []) as [[[t2 c2] ev2] out]. rewrite <- !app_assoc. reflexivity.
      * rewrite IH. rewrite (IH _ _ [_]).
        destruct (exec rest t i _ []) as [[[t2 c2] ev2] out]. rewrite <- !app_assoc. reflexivity.
      * rewrite IH. rewrite (IH _ _ [_]).
        destruct (exec rest t i _ []) as [[[t2 c2] ev2] out]. rewrite <- !app_assoc. reflexivity.
    + rewrite IH. rewrite (IH _ _ [_]).
      destruct (exec rest _ i _ []) as [[[t2 c2] ev2] out]. rewrite <- !app_assoc. reflexivity.
    + rewrite IH. rewrite (IH _ _ [_]).
      destruct (exec rest _ i _ []) as [[[t2 c2] ev2] out]. rewrite <- !app_assoc. reflexivity.
    + rewrite app_nil_r. reflexivity.
Qed.

Definition push_req (clk : Z) (r : request) (ts : list Z) (cn : list bool) : list Z * list bool :=
  match r with
  | RNone => (ts, cn)
  | RUntil t => (t :: ts, cn)
  | RDelay d => (timeout_of clk d :: ts, cn)
  | RCancel => (ts, true :: cn)
  end.

Definition k_after (st : cstate) (b : bev) (clk : Z) : ctrk :=
  {| k_st := st; k_pending := None; k_started := true; k_mal := mal_of b st; k_last := Some b;
     k_last_clock := clk; k_events := true |}.

Definition out_bev (out : outcome) (req : request) : bev :=
  match out with OYield y => BYield y req | OReturn v => BRet v | OPanic pk => BPanic pk end.

Lemma change_events_idx (nl i : nat) (old new : cstate) :
  Forall (fun e => ev_idx e = i) (change_events nl i old new).
Proof.
  unfold change_events. apply Forall_app. split; apply Forall_forall; intros e He;
    apply in_map_iff in He as (l' & <- & _); reflexivity.
Qed.

Section ExecLoc.
Variables (l : nat) (i : nat).
Notation F := (fold_left (ev_loc l (Some i) i)).

(** the tracker agrees with the model on clock and (unless the coroutine broke the API contract)
    on the state of coroutine [i] *)
Definition pre (clk : Z) (st : cstate) (f : foc) : Prop :=
  f_clock f = clk /\ flags f /\ (k_mal (f_k f) = false -> k_st (f_k f) = st /\ k_pending (f_k f) = None).

Lemma pre_EB (clk : Z) (st : cstate) (f : foc) (b : bev) :
  pre clk st f -> run_st st = true -> mal_of b st = false ->
  pre (tick b clk) st (ev_loc l (Some i) i f (EB i b))
  /\ k_mal (f_k (ev_loc l (Some i) i f (EB i b))) = k_mal (f_k f)
  /\ (k_mal (f_k f) = true -> f_k (ev_loc l (Some i) i f (EB i b)) = f_k f).
Proof.
  intros (Hc & (H7 & H8 & H9) & Hk) Hrun Hmal.
  destruct (k_mal (f_k f)) eqn:Hm.
  - rewrite ev_loc_EB_mal by exact Hm. cbn [f_clock f_k f_07 f_08 f_09]. unfold pre, flags.
    cbn [f_clock f_k f_07 f_08 f_09]. rewrite Hc, Hm. repeat split; auto; intros; congruence.
  - rewrite ev_loc_EB_good by exact Hm. destruct (Hk eq_refl) as (Hst & Hp).
    unfold pre, flags. cbn [f_clock f_k f_07 f_08 f_09 k_st k_pending k_mal who_ok].
    rewrite Hst, Hmal, Hc, H7, H8, H9, Nat.eqb_refl, (run_st_not_terminal _ Hrun).
    repeat split; auto; intros; congruence.
Qed.

Lemma pre_change (clk : Z) (old new : cstate) (f : foc) (nl : nat) :
  pre clk old f -> (l < nl)%nat -> is_terminal old = false -> edge_ok clk old new = true ->
  pre clk new (F (change_events nl i old new) f)
  /\ k_mal (f_k (F (change_events nl i old new) f)) = k_mal (f_k f)
  /\ (k_mal (f_k f) = true -> f_k (F (change_events nl i old new) f) = f_k f)
  /\ (k_mal (f_k f) = false -> f_k (F (change_events nl i old new) f) = k_chg (f_k f) new).
Proof.
  intros (Hc & Hfl & Hk) Hl Hterm Hedge. pose proof Hfl as (H7 & H8 & H9).
  destruct (k_mal (f_k f)) eqn:Hm.
  - rewrite F_change_mal by exact Hm. unfold pre. rewrite Hm. repeat split; auto; intros; congruence.
  - destruct (Hk eq_refl) as (Hst & Hp).
    rewrite F_change_good; try assumption; [| rewrite Hc; exact Hedge].
    unfold pre, flags, f_with_k, k_chg. cbn [f_clock f_k f_07 f_08 f_09 k_st k_pending k_mal].
    rewrite Hm. repeat split; auto; intros; congruence.
Qed.

Lemma final_EB (clk : Z) (st : cstate) (f : foc) (b : bev) :
  pre clk st f -> run_st st = true ->
  f_clock (ev_loc l (Some i) i f (EB i b)) = tick b clk
  /\ flags (ev_loc l (Some i) i f (EB i b))
  /\ (k_mal (f_k f) = true -> f_k (ev_loc l (Some i) i f (EB i b)) = f_k f)
  /\ (k_mal (f_k f) = false -> f_k (ev_loc l (Some i) i f (EB i b)) = k_after st b (tick b clk)).
Proof.
  intros (Hc & (H7 & H8 & H9) & Hk) Hrun.
  destruct (k_mal (f_k f)) eqn:Hm.
  - rewrite ev_loc_EB_mal by exact Hm. unfold flags. cbn [f_clock f_k f_07 f_08 f_09].
    rewrite Hc. repeat split; auto; intros; congruence.
  - rewrite ev_loc_EB_good by exact Hm. destruct (Hk eq_refl) as (Hst & Hp).
    unfold flags, k_after. cbn [f_clock f_k f_07 f_08 f_09 who_ok].
    rewrite Hst, Hp, Hc, H7, H8, H9, Nat.eqb_refl, (run_st_not_terminal _ Hrun).
    repeat split; auto; intros; congruence.
Qed.

(** everything we need to know about one body run *)
Definition post (T : thr) (c : co) (body : list instr) (f : foc)
           (T2 : thr) (c2 : co) (evs : list ev) (out : outcome) : Prop :=
  run_st (c_st c2) = true /\ c_started c2 = true /\ t_cos T2 = t_cos T /\ t_nl T2 = t_nl T
  /\ Forall (fun e => ev_idx e = i) evs
  /\ f_clock (F evs f) = t_clock T2 /\ flags (F evs f)
  /\ (k_mal (f_k f) = true -> f_k (F evs f) = f_k f)
  /\ (k_mal (f_k (F evs f)) = false ->
      k_st (f_k (F evs f)) = c_st c2 /\ k_pending (f_k (F evs f)) = None)
  /\ exists req,
       match out with
       | OYield _ => (t_ts T2, t_cn T2) = push_req (t_clock T2) req (t_ts T) (t_cn T)
                     /\ c_dead c2 = c_dead c
                     /\ (req <> RCancel -> no_unr body = true -> no_unr (c_body c2) = true)
       | _ => t_ts T2 = t_ts T /\ t_cn T2 = t_cn T /\ c_dead c2 = true
       end
       /\ (k_mal (f_k f) = false -> (no_unr body = true \/ forall pk, out <> OPanic pk) ->
           f_k (F evs f) = k_after (c_st c2) (out_bev out req) (t_clock T2)).

(** prepend non-final events [pfx] (already processed: [f1 = F pfx f]) *)
Lemma post_trans (T T' : thr) (c c' : co) (ins : instr) (rest : list instr) (f : foc) (pfx : list ev)
      (T2 : thr) (c2 : co) (evs : list ev) (out : outcome) :
  post T' c' rest (F pfx f) T2 c2 evs out ->
  t_cos T' = t_cos T -> t_nl T' = t_nl T -> t_ts T' = t_ts T -> t_cn T' = t_cn T ->
  c_dead c' = c_dead c -> is_unr ins = false ->
  Forall (fun e => ev_idx e = i) pfx ->
  k_mal (f_k (F pfx f)) = k_mal (f_k f) ->
  (k_mal (f_k f) = true -> f_k (F pfx f) = f_k f) ->
  post T c (ins :: rest) f T2 c2 (pfx ++ evs) out.
Proof.
  intros (P1 & P2 & P3 & P4 & P5 & P6 & P7 & P8 & Ptrk & req & P9 & P10) H1 H2 H3 H4 H5 H6 H7 H8 H9.
  unfold post. rewrite F_app.
  split; [exact P1|]. split; [exact P2|]. split; [congruence|]. split; [congruence|].
  split; [apply Forall_app; split; assumption|]. split; [exact P6|]. split; [exact P7|].
  split; [intro Hm; rewrite P8 by congruence; apply H9; exact Hm|].
  split; [exact Ptrk|].
  - exists req. split.
    + destruct out.
      * destruct P9 as (Q1 & Q2 & Q3). rewrite <- H3, <- H4, <- H5. repeat split; try assumption.
        intros Hr Hn. apply Q3; [exact Hr|]. cbn [no_unr forallb] in Hn.
        apply andb_true_iff in Hn. apply Hn.
      * rewrite <- H3, <- H4. exact P9.
      * rewrite <- H3, <- H4. exact P9.
    + intros Hm Hn. apply P10; [congruence|]. destruct Hn as [Hn|Hn]; [left|right; exact Hn].
      cbn [no_unr forallb] in Hn. apply andb_true_iff in Hn. apply Hn.
Qed.

Lemma Forall_idx_one (b : bev) : Forall (fun e => ev_idx e = i) [EB i b].
Proof. constructor; [reflexivity | constructor]. Qed.

Lemma post_final (T : thr) (c : co) (body : list instr) (f : foc) (T2 : thr) (c2 : co)
      (out : outcome) (req : request) :
  pre (t_clock T) (c_st c) f -> run_st (c_st c) = true ->
  c_st c2 = c_st c -> c_started c2 = true -> t_cos T2 = t_cos T -> t_nl T2 = t_nl T ->
  t_clock T2 = t_clock T ->
  match out with
  | OYield _ => (t_ts T2, t_cn T2) = push_req (t_clock T2) req (t_ts T) (t_cn T)
                /\ c_dead c2 = c_dead c
                /\ (req <> RCancel -> no_unr body = true -> no_unr (c_body c2) = true)
  | _ => t_ts T2 = t_ts T /\ t_cn T2 = t_cn T /\ c_dead c2 = true
  end ->
  post T c body f T2 c2 [EB i (out_bev out req)] out.
Proof.
  intros Hpre Hrun Hst Hstart Hcos Hnl Hclk Hout.
  destruct (final_EB _ _ _ (out_bev out req) Hpre Hrun) as (E1 & E2 & E3 & E4).
  assert (Htick : tick (out_bev out req) (t_clock T) = t_clock T) by (destruct out; reflexivity).
  rewrite Htick in E1, E4.
  unfold post. cbn [fold_left]. rewrite Hst, Hclk.
  split; [exact Hrun|]. split; [exact Hstart|]. split; [exact Hcos|]. split; [exact Hnl|].
  split; [apply Forall_idx_one|]. split; [exact E1|]. split; [exact E2|]. split; [exact E3|].
  split.
  { intro Hm. destruct (k_mal (f_k f)) eqn:Hm0.
    - rewrite E3 in Hm by reflexivity. congruence.
    - rewrite E4 by reflexivity. cbn [k_after k_st k_pending]. auto. }
  exists req. split; [rewrite <- Hclk; exact Hout|]. intros Hm _. apply E4. exact Hm.
Qed.

Lemma no_unr_tail (ins : instr) (rest : list instr) : no_unr (ins :: rest) = true -> no_unr rest = true.
Proof. cbn [no_unr forallb]. intro H. apply andb_true_iff in H. apply H. Qed.

Lemma exec_loc : forall body T c f T2 c2 evs out,
  exec body T i c [] = (T2, c2, evs, out) ->
  run_st (c_st c) = true -> (l < t_nl T)%nat ->
  pre (t_clock T) (c_st c) f ->
  post T c body f T2 c2 evs out.
Proof.
  induction body as [|ins rest IH]; intros T c f T2 c2 evs out Hex Hrun Hl Hpre.
  - (* falling off the end returns 0 *)
    cbn [exec app] in Hex. injection Hex as <- <- <- <-.
    apply (post_final T c [] f T _ (OReturn 0) RNone); auto.
  - destruct ins; cbn [exec app] in Hex.
    + (* ISuspend *)
      injection Hex as <- <- <- <-.
      apply (post_final T c _ f T _ (OYield y) RNone); auto.
      all: cbn [push_req c_dead c_body]; repeat split; intros _ Hn; exact (no_unr_tail _ _ Hn).
    + (* IDelay *)
      injection Hex as <- <- <- <-.
      apply (post_final T c _ f _ _ (OYield y) (RDelay d)); auto.
      all: cbn [push_req c_dead c_body upd_req t_ts t_cn t_clock]; repeat split;
        intros _ Hn; exact (no_unr_tail _ _ Hn).
    + (* IUntil *)
      injection Hex as <- <- <- <-.
      apply (post_final T c _ f _ _ (OYield y) (RUntil t)); auto.
      all: cbn [push_req c_dead c_body upd_req t_ts t_cn t_clock]; repeat split;
        intros _ Hn; exact (no_unr_tail _ _ Hn).
    + (* ICancel *)
      injection Hex as <- <- <- <-.
      apply (post_final T c _ f _ _ (OYield 0) RCancel); auto.
      all: cbn [push_req c_dead c_body upd_req t_ts t_cn t_clock]; repeat split;
        intros Hn _; congruence.
    + (* ISyscall *)
      cbn [c_st] in Hex.
      destruct (tr_syscall (c_st c) y name s) as [new|] eqn:Etr.
      * rewrite exec_acc in Hex.
        destruct (exec rest T i _ []) as [[[T2' c2'] evs'] out'] eqn:Hex'.
        injection Hex as <- <- <- <-.
        destruct (tr_syscall_edge (t_clock T) _ _ _ _ _ Etr) as (Hnew & Hedge & _).
        destruct (pre_change _ _ _ _ (t_nl T) Hpre Hl (run_st_not_terminal _ Hrun) Hedge)
          as (Q1 & Q2 & Q3 & _).
        assert (Hrun' : run_st new = true) by (rewrite Hnew; reflexivity).
        destruct (pre_EB _ _ _ (BRes true) Q1 Hrun' eq_refl) as (R1 & R2 & R3).
        cbn [tick] in R1.
        try match goal with |- post _ _ _ _ _ _ (?e :: ?r) _ => change (e :: r) with ([e] ++ r) end.
        try match goal with |- post _ _ _ _ _ _ (?e :: ?r) _ => change (e :: r) with ([e] ++ r) end.
      eapply post_trans with (T' := T);
          [ rewrite F_app; cbn [fold_left]; eapply IH; [exact Hex' | exact Hrun' | exact Hl | exact R1] | try reflexivity ..].
        -- apply Forall_app; split; [apply change_events_idx | apply Forall_idx_one].
        -- rewrite F_app. cbn [fold_left]. congruence.
        -- intro Hm. rewrite F_app. cbn [fold_left]. rewrite R3 by congruence. apply Q3. exact Hm.
      * rewrite exec_acc in Hex.
        destruct (exec rest T i _ []) as [[[T2' c2'] evs'] out'] eqn:Hex'.
        injection Hex as <- <- <- <-.
        destruct (pre_EB _ _ _ (BRes false) Hpre Hrun eq_refl) as (R1 & R2 & R3).
        cbn [tick] in R1.
        try match goal with |- post _ _ _ _ _ _ (?e :: ?r) _ => change (e :: r) with ([e] ++ r) end.
        try match goal with |- post _ _ _ _ _ _ (?e :: ?r) _ => change (e :: r) with ([e] ++ r) end.
      eapply post_trans with (T' := T);
          [ cbn [fold_left]; eapply IH; [exact Hex' | exact Hrun | exact Hl | exact R1] | try reflexivity ..].
        -- apply Forall_idx_one.
        -- cbn [fold_left]. exact R2.
        -- cbn [fold_left]. exact R3.
    + (* IRunning *)
      cbn [c_st] in Hex.
      destruct (tr_running (t_clock T) (c_st c)) as [[new|]|] eqn:Etr.
      * rewrite exec_acc in Hex.
        destruct (exec rest T i _ []) as [[[T2' c2'] evs'] out'] eqn:Hex'.
        injection Hex as <- <- <- <-.
        destruct (tr_running_edge _ _ _ Etr) as (Hnew & Hedge & Hterm).
        destruct (pre_change _ _ _ _ (t_nl T) Hpre Hl Hterm Hedge) as (Q1 & Q2 & Q3 & _).
        assert (Hrun' : run_st new = true) by (rewrite Hnew; reflexivity).
        destruct (pre_EB _ _ _ (BRes true) Q1 Hrun' eq_refl) as (R1 & R2 & R3).
        cbn [tick] in R1.
        try match goal with |- post _ _ _ _ _ _ (?e :: ?r) _ => change (e :: r) with ([e] ++ r) end.
        try match goal with |- post _ _ _ _ _ _ (?e :: ?r) _ => change (e :: r) with ([e] ++ r) end.
      eapply post_trans with (T' := T);
          [ rewrite F_app; cbn [fold_left]; eapply IH; [exact Hex' | exact Hrun' | exact Hl | exact R1] | try reflexivity ..].
        -- apply Forall_app; split; [apply change_events_idx | apply Forall_idx_one].
        -- rewrite F_app. cbn [fold_left]. congruence.
        -- intro Hm. rewrite F_app. cbn [fold_left]. rewrite R3 by congruence. apply Q3. exact Hm.
      * rewrite exec_acc in Hex.
        destruct (exec rest T i _ []) as [[[T2' c2'] evs'] out'] eqn:Hex'.
        injection Hex as <- <- <- <-.
        destruct (pre_EB _ _ _ (BRes true) Hpre Hrun eq_refl) as (R1 & R2 & R3).
        cbn [tick] in R1.
        try match goal with |- post _ _ _ _ _ _ (?e :: ?r) _ => change (e :: r) with ([e] ++ r) end.
        try match goal with |- post _ _ _ _ _ _ (?e :: ?r) _ => change (e :: r) with ([e] ++ r) end.
      eapply post_trans with (T' := T);
          [ cbn [fold_left]; eapply IH; [exact Hex' | exact Hrun | exact Hl | exact R1] | try reflexivity ..].
        -- apply Forall_idx_one.
        -- cbn [fold_left]. exact R2.
        -- cbn [fold_left]. exact R3.
      * rewrite exec_acc in Hex.
        destruct (exec rest T i _ []) as [[[T2' c2'] evs'] out'] eqn:Hex'.
        injection Hex as <- <- <- <-.
        destruct (pre_EB _ _ _ (BRes false) Hpre Hrun eq_refl) as (R1 & R2 & R3).
        cbn [tick] in R1.
        try match goal with |- post _ _ _ _ _ _ (?e :: ?r) _ => change (e :: r) with ([e] ++ r) end.
        try match goal with |- post _ _ _ _ _ _ (?e :: ?r) _ => change (e :: r) with ([e] ++ r) end.
      eapply post_trans with (T' := T);
          [ cbn [fold_left]; eapply IH; [exact Hex' | exact Hrun | exact Hl | exact R1] | try reflexivity ..].
        -- apply Forall_idx_one.
        -- cbn [fold_left]. exact R2.
        -- cbn [fold_left]. exact R3.
    + (* ITick *)
      rewrite exec_acc in Hex.
      destruct (exec rest _ i _ []) as [[[T2' c2'] evs'] out'] eqn:Hex'.
      injection Hex as <- <- <- <-.
      destruct (pre_EB _ _ _ (BTick d) Hpre Hrun eq_refl) as (R1 & R2 & R3).
      cbn [tick] in R1.
      try match goal with |- post _ _ _ _ _ _ (?e :: ?r) _ => change (e :: r) with ([e] ++ r) end.
      eapply post_trans with (T' := upd_clock T (sat_add64 (t_clock T) d));
        [ cbn [fold_left]; eapply IH; [exact Hex' | exact Hrun | exact Hl | exact R1] | try reflexivity ..].
      -- apply Forall_idx_one.
      -- cbn [fold_left]. exact R2.
      -- cbn [fold_left]. exact R3.
    + (* ILog *)
      rewrite exec_acc in Hex.
      destruct (exec rest _ i _ []) as [[[T2' c2'] evs'] out'] eqn:Hex'.
      injection Hex as <- <- <- <-.
      destruct (pre_EB _ _ _ (BLog k) Hpre Hrun eq_refl) as (R1 & R2 & R3).
      cbn [tick] in R1.
      try match goal with |- post _ _ _ _ _ _ (?e :: ?r) _ => change (e :: r) with ([e] ++ r) end.
      eapply post_trans with (T' := T);
        [ cbn [fold_left]; eapply IH; [exact Hex' | exact Hrun | exact Hl | exact R1] | try reflexivity ..].
      -- apply Forall_idx_one.
      -- cbn [fold_left]. exact R2.
      -- cbn [fold_left]. exact R3.
    + (* IReturn *)
      injection Hex as <- <- <- <-.
      apply (post_final T c _ f T _ (OReturn v) RNone); auto.
    + (* IPanic *)
      injection Hex as <- <- <- <-.
      apply (post_final T c _ f T _ (OPanic k) RNone); auto.
    + (* IUnreachable: only ever run by a coroutine that already broke the contract *)
      injection Hex as <- <- <- <-.
      destruct Hpre as (Hc & Hfl & Hk).
      unfold post. cbn [fold_left c_st c_started c_dead].
      split; [exact Hrun|]. split; [reflexivity|]. split; [reflexivity|]. split; [reflexivity|].
      split; [constructor|]. split; [exact Hc|]. split; [exact Hfl|]. split; [reflexivity|].
      split; [exact Hk|].
      exists RNone. split; [auto|]. intros _ [Hn|Hn].
      * cbn [no_unr forallb is_unr negb andb] in Hn. discriminate.
      * exfalso. eapply Hn. reflexivity.
Qed.

End ExecLoc.
