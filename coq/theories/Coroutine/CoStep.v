(** One lemma per driver op: the oracle step on the model's own observation keeps the
    invariant (hence the three flags). *)
From OCV Require Import Base.Prelude Misc.Time Coroutine.Co Coroutine.CoOracle Coroutine.CoLemmas
  Coroutine.CoFocus Coroutine.CoExec Coroutine.CoPost Coroutine.CoSim.
From Coq Require Import ZifyBool ZifyNat.
Open Scope Z_scope.

Lemma inv_krel (l : nat) (T : thr) (ot : otrk) (i : nat) (c : co) :
  Inv l T ot -> nth_error (t_cos T) i = Some c -> krel c (clear_op (get_k ot i)).
Proof.
  intros HI Hc. apply krel_clear. destruct (inv_cos _ _ _ HI) as (_ & Hk). apply Hk. exact Hc.
Qed.

Lemma flags_true (clk : Z) (k : ctrk) :
  flags {| f_clock := clk; f_k := k; f_07 := true; f_08 := true; f_09 := true |}.
Proof. repeat split. Qed.

(** an op on coroutine [i] that emits nothing and changes nothing *)
Lemma step_quiet (l : nat) (T : thr) (ot : otrk) (o : dop) (r : res) (c : co) :
  Inv l T ot ->
  (forall x, o <> SetClock x) ->
  nth_error (t_cos T) (op_idx o) = Some c ->
  flags (opost_f o r [] (clear_op (get_k ot (op_idx o))) (t_clock T) true
           {| f_clock := t_clock T; f_k := clear_op (get_k ot (op_idx o));
              f_07 := true; f_08 := true; f_09 := true |}) ->
  Inv l T (ostep1 l ot o r []).
Proof.
  intros HI Hns Hc Hfl.
  assert (Hf0 : focus (cleared ot o) (op_idx o)
                = {| f_clock := t_clock T; f_k := clear_op (get_k ot (op_idx o));
                     f_07 := true; f_08 := true; f_09 := true |}).
  { rewrite (focus_cleared l T) by exact HI. destruct o; try reflexivity. exfalso. eapply Hns. reflexivity. }
  eapply step_build with (cnew := c); try exact HI; try reflexivity.
  - constructor.
  - apply cos_upd_refl. exact Hc.
  - apply (inv_ts _ _ _ HI).
  - apply (inv_cn _ _ _ HI).
  - cbn [fold_left]. rewrite Hf0. reflexivity.
  - cbn [fold_left]. rewrite Hf0. cbn [f_k]. eapply inv_krel; eassumption.
  - cbn [fold_left]. rewrite Hf0. cbn [f_k]. exact Hfl.
Qed.

Lemma step_SetClock (l : nat) (T : thr) (ot : otrk) (x : Z) :
  Inv l T ot -> Inv l (upd_clock T x) (ostep1 l ot (SetClock x) RUnit []).
Proof.
  intro HI. apply step_noidx with (T := T); try exact HI; try reflexivity.
  right. exists x. split; reflexivity.
Qed.

Lemma step_bad (l : nat) (T : thr) (ot : otrk) (o : dop) :
  Inv l T ot -> (forall x, o <> SetClock x) -> Inv l T (ostep1 l ot o RBad []).
Proof.
  intros HI Hns. apply step_noidx with (T := T); try exact HI; try reflexivity.
  - destruct o; try reflexivity. exfalso. eapply Hns. reflexivity.
  - left. reflexivity.
Qed.

Lemma step_GetState (l : nat) (T : thr) (ot : otrk) (i : nat) (c : co) :
  Inv l T ot -> nth_error (t_cos T) i = Some c ->
  Inv l T (ostep1 l ot (GetState i) (ROk (c_st c)) []).
Proof.
  intros HI Hc. eapply step_quiet; try exact HI; try (intros x; discriminate).
  - cbn [op_idx]. exact Hc.
  - cbn [op_idx]. pose proof (inv_krel _ _ _ _ _ HI Hc) as Hk.
    unfold opost_f. cbn [res_eqb ffail07 f_k f_07 f_08 f_09 f_clock andb].
    destruct (k_mal (clear_op (get_k ot i))) eqn:Hm; [apply flags_true|].
    destruct (Hk Hm) as (Hst & _). rewrite Hst.
    cbn [ffail07 f_07 f_08 f_09 f_k clear_op k_events negb andb]. rewrite cstate_eqb_refl. apply flags_true.
Qed.

(** a single change of coroutine [i] from outside a body run ([ExtRunning], [ExtSyscall]) *)
Lemma step_ext_change (l : nat) (T : thr) (ot : otrk) (o : dop) (c : co) (new : cstate) :
  Inv l T ot ->
  (o = ExtRunning (op_idx o) \/ exists y n s, o = ExtSyscall (op_idx o) y n s) ->
  nth_error (t_cos T) (op_idx o) = Some c ->
  is_terminal (c_st c) = false -> edge_ok (t_clock T) (c_st c) new = true ->
  Inv l (upd_co T (op_idx o) (with_st c new))
      (ostep1 l ot o RUnit (change_events (t_nl T) (op_idx o) (c_st c) new)).
Proof.
  intros HI Ho Hc Hterm Hedge. set (i := op_idx o) in *.
  assert (Hns : forall x, o <> SetClock x).
  { intros x E. destruct Ho as [Ho | (y & n & s & Ho)]; rewrite Ho in E; discriminate. }
  assert (Hwho : op_who o = None).
  { destruct Ho as [Ho | (y & n & s & Ho)]; rewrite Ho; reflexivity. }
  assert (Hf0 : focus (cleared ot o) i
                = {| f_clock := t_clock T; f_k := clear_op (get_k ot i);
                     f_07 := true; f_08 := true; f_09 := true |}).
  { rewrite (focus_cleared l T) by exact HI. destruct o; try reflexivity. exfalso. eapply Hns. reflexivity. }
  pose proof (inv_krel _ _ _ _ _ HI Hc) as Hk.
  set (k0 := clear_op (get_k ot i)) in *.
  set (f0 := {| f_clock := t_clock T; f_k := k0; f_07 := true; f_08 := true; f_09 := true |}) in *.
  assert (Hpre : pre (t_clock T) (c_st c) f0).
  { split; [reflexivity|]. split; [apply flags_true|]. intro Hm. cbn [f0 f_k] in Hm |- *.
    destruct (Hk Hm) as (Hst & Hp & _). auto. }
  eapply step_build with (cnew := with_st c new); try exact HI.
  - apply change_events_idx.
  - cbn [upd_co t_cos]. apply cos_upd_set. eapply nth_error_Some_lt. exact Hc.
  - reflexivity.
  - apply (inv_ts _ _ _ HI).
  - apply (inv_cn _ _ _ HI).
  - fold i. rewrite Hf0, Hwho.
    (* the clock is untouched by listener callbacks *)
    destruct (k_mal k0) eqn:Hm.
    + rewrite F_change_mal by exact Hm. reflexivity.
    + destruct (Hk Hm) as (Hst & Hp & _).
      rewrite F_change_good; try assumption; try reflexivity. apply (inv_l _ _ _ HI).
  - fold i. rewrite Hf0, Hwho.
    destruct (k_mal k0) eqn:Hm.
    + rewrite F_change_mal by exact Hm. intro Hm'. cbn [f0 f_k] in Hm'. congruence.
    + destruct (Hk Hm) as (Hst & Hp & Hs & Hd & Hu).
      rewrite F_change_good; try assumption; try reflexivity; [| apply (inv_l _ _ _ HI)].
      intros _. cbn [f_with_k f_k k_chg k_st k_pending k_started with_st c_st c_started c_dead c_body f0].
      repeat split; auto.
      * intro Hdead. rewrite Hd in Hterm by exact Hdead. discriminate.
      * intro Hun. rewrite Hu in Hterm by exact Hun. discriminate.
  - fold i. rewrite Hf0, Hwho. cbn [f_k].
    assert (Hfb : is_none (first_body i (change_events (t_nl T) i (c_st c) new)) = true)
      by (rewrite first_body_change_nil; reflexivity).
    destruct (k_mal k0) eqn:Hm.
    + rewrite F_change_mal by exact Hm.
      destruct Ho as [Ho | (y & n & s & Ho)]; rewrite Ho; unfold opost_f;
        cbn [res_eqb ffail07 f_k f_07 f_08 f_09 f_clock andb f0]; rewrite Hm; apply flags_true.
    + destruct (Hk Hm) as (Hst & Hp & _).
      rewrite F_change_good; try assumption; try reflexivity; [| apply (inv_l _ _ _ HI)].
      destruct Ho as [Ho | (y & n & s & Ho)]; rewrite Ho; unfold opost_f;
        cbn [res_eqb ffail07 f_with_k k_chg f_k f_07 f_08 f_09 f_clock andb f0 k_mal op_idx];
        fold i; rewrite Hm, Hfb; apply flags_true.
Qed.

Lemma step_ExtRunning (l : nat) (T T' : thr) (ot : otrk) (i : nat) (r : res) (evs : list ev) :
  Inv l T ot -> dstep T (ExtRunning i) = (T', r, evs) ->
  Inv l T' (ostep1 l ot (ExtRunning i) r evs).
Proof.
  intros HI Hd. cbn [dstep] in Hd.
  destruct (nth_error (t_cos T) i) as [c|] eqn:Hc.
  2:{ injection Hd as <- <- <-. apply step_bad; [exact HI | intros x; discriminate]. }
  pose proof (inv_krel _ _ _ _ _ HI Hc) as Hk.
  destruct (tr_running (t_clock T) (c_st c)) as [[new|]|] eqn:Etr.
  - cbn [apply_change] in Hd. injection Hd as <- <- <-.
    destruct (tr_running_edge _ _ _ Etr) as (_ & Hedge & Hterm).
    apply (step_ext_change l T ot (ExtRunning i) c new HI); auto.
  - injection Hd as <- <- <-.
    eapply step_quiet; try exact HI; try (intros x; discriminate); [exact Hc|].
    unfold opost_f. cbn [res_eqb ffail07 f_k f_07 f_08 f_09 f_clock andb op_idx first_body filter is_none].
    destruct (k_mal (clear_op (get_k ot i))); apply flags_true.
  - injection Hd as <- <- <-.
    eapply step_quiet; try exact HI; try (intros x; discriminate); [exact Hc|].
    unfold opost_f. cbn [res_eqb ffail07 f_k f_07 f_08 f_09 f_clock andb op_idx first_body filter is_none
                         clear_op k_events negb].
    destruct (k_mal _); apply flags_true.
Qed.

Lemma step_ExtSyscall (l : nat) (T T' : thr) (ot : otrk) (i : nat) (y n : Z) (s : sysst) (r : res) (evs : list ev) :
  Inv l T ot -> dstep T (ExtSyscall i y n s) = (T', r, evs) ->
  Inv l T' (ostep1 l ot (ExtSyscall i y n s) r evs).
Proof.
  intros HI Hd. cbn [dstep] in Hd.
  destruct (nth_error (t_cos T) i) as [c|] eqn:Hc.
  2:{ injection Hd as <- <- <-. apply step_bad; [exact HI | intros x; discriminate]. }
  destruct (tr_syscall (c_st c) y n s) as [new|] eqn:Etr.
  - cbn [apply_change] in Hd. injection Hd as <- <- <-.
    destruct (tr_syscall_edge (t_clock T) _ _ _ _ _ Etr) as (_ & Hedge & Hrun).
    apply (step_ext_change l T ot (ExtSyscall i y n s) c new HI); auto.
    + right. exists y, n, s. reflexivity.
    + apply run_st_not_terminal. exact Hrun.
  - injection Hd as <- <- <-.
    eapply step_quiet; try exact HI; try (intros x; discriminate); [exact Hc|].
    unfold opost_f. cbn [res_eqb ffail07 f_k f_07 f_08 f_09 f_clock andb op_idx first_body filter is_none
                         clear_op k_events negb].
    destruct (k_mal _); apply flags_true.
Qed.
