(** The oracle, focused on one coroutine. Every event of one driver op is about one coroutine
    [i]; [on_event] then only touches entry [i] of the tracker, the clock and the flags. [ev_loc]
    is that restriction; [fold_focus] transports a whole event list. *)
From OCV Require Import Base.Prelude Misc.Time Coroutine.Co Coroutine.CoOracle Coroutine.CoLemmas.
From Coq Require Import ZifyBool ZifyNat.
Open Scope Z_scope.

Record foc := { f_clock : Z; f_k : ctrk; f_07 : bool; f_08 : bool; f_09 : bool }.

Definition focus (t : otrk) (i : nat) : foc :=
  {| f_clock := o_clock t; f_k := get_k t i; f_07 := o_c07 t; f_08 := o_c08 t; f_09 := o_c09 t |}.

Definition ev_idx (e : ev) : nat := match e with EL _ i _ _ => i | EB i _ => i end.

Definition tick (b : bev) (clk : Z) : Z := match b with BTick d => sat_add64 clk d | _ => clk end.

Definition mal_of (b : bev) (st : cstate) : bool :=
  match b with
  | BRet _ | BPanic _ => negb (cstate_eqb st Running)
  | BYield _ RCancel => negb (cstate_eqb st Running)
  | _ => false
  end.

Definition who_ok (who : option nat) (i : nat) : bool :=
  match who with Some w => Nat.eqb w i | None => false end.

Definition ev_loc (l : nat) (who : option nat) (i : nat) (f : foc) (e : ev) : foc :=
  match e with
  | EL l' _ c old =>
      if negb (Nat.eqb l l') then f
      else
        let k := f_k f in
        if k_mal k then f
        else
          match c with
          | CbChanged new =>
              let ok := cstate_eqb old (k_st k) && edge_ok (f_clock f) old new
                        && match k_pending k with None => true | Some _ => false end
                        && negb (is_terminal (k_st k)) in
              {| f_clock := f_clock f;
                 f_k := {| k_st := new; k_pending := Some (old, new); k_started := k_started k;
                           k_mal := k_mal k; k_last := k_last k; k_last_clock := k_last_clock k;
                           k_events := true |};
                 f_07 := f_07 f && ok; f_08 := f_08 f; f_09 := f_09 f |}
          | _ =>
              let ok := match k_pending k with
                        | Some (o, n) => cstate_eqb o old && cb_matches c n
                        | None => false
                        end in
              {| f_clock := f_clock f;
                 f_k := {| k_st := k_st k; k_pending := None; k_started := k_started k;
                           k_mal := k_mal k; k_last := k_last k; k_last_clock := k_last_clock k;
                           k_events := true |};
                 f_07 := f_07 f && ok; f_08 := f_08 f; f_09 := f_09 f |}
          end
  | EB _ b =>
      let k := f_k f in
      let clk := tick b (f_clock f) in
      if k_mal k then {| f_clock := clk; f_k := k; f_07 := f_07 f; f_08 := f_08 f; f_09 := f_09 f |}
      else
        {| f_clock := clk;
           f_k := {| k_st := k_st k; k_pending := k_pending k; k_started := true;
                     k_mal := mal_of b (k_st k); k_last := Some b; k_last_clock := clk;
                     k_events := true |};
           f_07 := f_07 f && negb (is_terminal (k_st k));
           f_08 := f_08 f && who_ok who i;
           f_09 := f_09 f |}
  end.

Lemma get_set_k_same (t : otrk) (i : nat) (k : ctrk) :
  (i < length (o_cos t))%nat -> get_k (set_k t i k) i = k.
Proof. intro H. unfold get_k, set_k. cbn [o_cos]. apply nth_set_nth_same. exact H. Qed.

Lemma get_set_k_other (t : otrk) (i j : nat) (k : ctrk) :
  j <> i -> get_k (set_k t i k) j = get_k t j.
Proof. intro H. unfold get_k, set_k. cbn [o_cos]. apply nth_set_nth_other. exact H. Qed.

Lemma focus_set_k_fail07 (t : otrk) (i : nat) (k : ctrk) (ok : bool) :
  (i < length (o_cos t))%nat ->
  focus (fail07 (set_k t i k) ok) i
  = {| f_clock := o_clock t; f_k := k; f_07 := o_c07 t && ok; f_08 := o_c08 t; f_09 := o_c09 t |}.
Proof.
  intro Hi. unfold focus. replace (get_k (fail07 (set_k t i k) ok) i) with (get_k (set_k t i k) i) by reflexivity.
  rewrite get_set_k_same by exact Hi. reflexivity.
Qed.

Lemma on_event_focus (l : nat) (who : option nat) (i : nat) (ot : otrk) (e : ev) :
  (i < length (o_cos ot))%nat -> ev_idx e = i ->
  focus (on_event l who ot e) i = ev_loc l who i (focus ot i) e
  /\ length (o_cos (on_event l who ot e)) = length (o_cos ot)
  /\ (forall j, j <> i -> get_k (on_event l who ot e) j = get_k ot j).
Proof.
  intros Hi He. destruct e as [l' i' c old | i' b]; cbn [ev_idx] in He; subst i'.
  - cbn [on_event ev_loc]. destruct (negb (l =? l')%nat); [auto|].
    cbn [focus f_k]. destruct (k_mal (get_k ot i)) eqn:Hm; [auto|].
    destruct c;
      (split; [apply focus_set_k_fail07; exact Hi
              | split; [cbn [fail07 set_k o_cos]; apply set_nth_length
                       | intros j Hj; apply (get_set_k_other ot i j _ Hj)]]).
  - cbn [on_event ev_loc focus f_k f_clock f_07 f_08 f_09].
    destruct (k_mal (get_k ot i)) eqn:Hm.
    + destruct b; cbn [tick set_clock o_clock o_cos o_c07 o_c08 o_c09 focus]; auto.
    + assert (Hgen : forall t', o_cos t' = o_cos ot -> o_c07 t' = o_c07 ot -> o_c08 t' = o_c08 ot ->
                o_c09 t' = o_c09 ot -> o_clock t' = tick b (o_clock ot) ->
                forall k',
                focus (set_k (fail08 (fail07 t' (negb (is_terminal (k_st (get_k ot i))))) (who_ok who i)) i k') i
                = {| f_clock := tick b (o_clock ot); f_k := k';
                     f_07 := o_c07 ot && negb (is_terminal (k_st (get_k ot i)));
                     f_08 := o_c08 ot && who_ok who i; f_09 := o_c09 ot |}
                /\ length (o_cos (set_k (fail08 (fail07 t' (negb (is_terminal (k_st (get_k ot i))))) (who_ok who i)) i k'))
                   = length (o_cos ot)
                /\ (forall j, j <> i ->
                     get_k (set_k (fail08 (fail07 t' (negb (is_terminal (k_st (get_k ot i))))) (who_ok who i)) i k') j
                     = get_k ot j)).
      { intros t' H1 H2 H3 H4 H5 k'. split; [|split].
        - unfold focus. rewrite get_set_k_same by (cbn [fail07 fail08 o_cos]; rewrite H1; exact Hi).
          cbn [set_k fail07 fail08 o_clock o_c07 o_c08 o_c09]. rewrite H2, H3, H4, H5. reflexivity.
        - cbn [set_k fail07 fail08 o_cos]. rewrite set_nth_length. rewrite H1. reflexivity.
        - intros j Hj. rewrite get_set_k_other by exact Hj. unfold get_k. cbn [fail07 fail08 o_cos].
          rewrite H1. reflexivity. }
      unfold who_ok in Hgen.
      destruct b; cbn [tick mal_of];
        match goal with
        | |- context [set_k (fail08 (fail07 ?t' _) _) i ?k'] =>
            specialize (Hgen t' eq_refl eq_refl eq_refl eq_refl eq_refl k')
        end; cbn [set_clock o_clock tick] in Hgen |- *; exact Hgen.
Qed.

Lemma fold_focus (l : nat) (who : option nat) (i : nat) (evs : list ev) : forall (ot : otrk),
  (i < length (o_cos ot))%nat -> Forall (fun e => ev_idx e = i) evs ->
  focus (fold_left (on_event l who) evs ot) i = fold_left (ev_loc l who i) evs (focus ot i)
  /\ length (o_cos (fold_left (on_event l who) evs ot)) = length (o_cos ot)
  /\ (forall j, j <> i -> get_k (fold_left (on_event l who) evs ot) j = get_k ot j).
Proof.
  induction evs as [|e evs IH]; intros ot Hi Hall.
  - cbn [fold_left]. auto.
  - inversion Hall as [|e' evs' He Hall' Heq]; clear Heq. cbn [fold_left].
    destruct (on_event_focus l who i ot e Hi He) as (Hf & Hl & Ho).
    destruct (IH (on_event l who ot e)) as (Hf' & Hl' & Ho'); [rewrite Hl; exact Hi | exact Hall' |].
    rewrite Hf', Hf, Hl', Hl. split; [reflexivity|]. split; [reflexivity|].
    intros j Hj. rewrite Ho' by exact Hj. apply Ho. exact Hj.
Qed.

(** * local facts *)
Section Local.
Variables (l : nat) (who : option nat) (i : nat).
Notation F := (fold_left (ev_loc l who i)).

Definition flags (f : foc) : Prop := f_07 f = true /\ f_08 f = true /\ f_09 f = true.

Definition f_with_k (f : foc) (k : ctrk) : foc :=
  {| f_clock := f_clock f; f_k := k; f_07 := f_07 f; f_08 := f_08 f; f_09 := f_09 f |}.

Definition k_chg (k : ctrk) (new : cstate) : ctrk :=
  {| k_st := new; k_pending := None; k_started := k_started k; k_mal := k_mal k; k_last := k_last k;
     k_last_clock := k_last_clock k; k_events := true |}.

Lemma foc_eta (f : foc) : f = {| f_clock := f_clock f; f_k := f_k f; f_07 := f_07 f; f_08 := f_08 f; f_09 := f_09 f |}.
Proof. destruct f; reflexivity. Qed.

Lemma F_app (a b : list ev) (f : foc) : F (a ++ b) f = F b (F a f).
Proof. apply fold_left_app. Qed.

Lemma F_map_EL (c : cb) (old : cstate) : forall (n a : nat) (f : foc),
  F (map (fun l' => EL l' i c old) (seq a n)) f
  = if ((a <=? l) && (l <? a + n))%nat then ev_loc l who i f (EL l i c old) else f.
Proof.
  induction n as [|n IH]; intros a f.
  - cbn [seq map fold_left]. destruct ((a <=? l) && (l <? a + 0))%nat eqn:E; [lia|reflexivity].
  - cbn [seq map fold_left]. rewrite IH.
    destruct (Nat.eq_dec l a) as [->|Hne].
    + replace ((S a <=? a) && (a <? S a + n))%nat with false by lia.
      replace ((a <=? a) && (a <? a + S n))%nat with true by lia. reflexivity.
    + replace (ev_loc l who i f (EL a i c old)) with f.
      2:{ cbn [ev_loc]. replace (l =? a)%nat with false by lia. reflexivity. }
      replace ((S a <=? l) && (l <? S a + n))%nat with ((a <=? l) && (l <? a + S n))%nat by lia.
      reflexivity.
Qed.

Lemma F_change_mal (nl : nat) (old new : cstate) (f : foc) :
  k_mal (f_k f) = true -> F (change_events nl i old new) f = f.
Proof.
  intro Hm. unfold change_events. rewrite F_app, !F_map_EL.
  assert (H : forall c, ev_loc l who i f (EL l i c old) = f).
  { intro c. cbn [ev_loc]. rewrite Nat.eqb_refl. cbn [negb]. rewrite Hm. reflexivity. }
  destruct ((0 <=? l) && (l <? 0 + nl))%nat; rewrite ?H; reflexivity.
Qed.

Lemma F_change_good (nl : nat) (old new : cstate) (f : foc) :
  (l < nl)%nat -> k_mal (f_k f) = false -> k_st (f_k f) = old -> k_pending (f_k f) = None ->
  is_terminal old = false -> edge_ok (f_clock f) old new = true ->
  F (change_events nl i old new) f = f_with_k f (k_chg (f_k f) new).
Proof.
  intros Hl Hm Hst Hp Hterm Hedge. unfold change_events. rewrite F_app, !F_map_EL.
  replace ((0 <=? l) && (l <? 0 + nl))%nat with true by lia.
  cbn [ev_loc]. rewrite Nat.eqb_refl. cbn [negb]. rewrite Hm. cbn [f_k k_mal].
  pose proof (cb_matches_specific new) as Hcb.
  destruct (specific new) eqn:Es; [exfalso; eapply specific_not_changed; eassumption | ..];
  cbn [f_clock f_k f_07 f_08 f_09 k_st k_pending k_started k_mal k_last k_last_clock k_events];
  rewrite Hst, Hp, Hterm, Hedge, !cstate_eqb_refl, Hcb;
  cbn [negb andb]; unfold f_with_k, k_chg; rewrite Hm, !andb_true_r; reflexivity.
Qed.

Lemma ev_loc_EB_mal (f : foc) (b : bev) :
  k_mal (f_k f) = true ->
  ev_loc l who i f (EB i b)
  = {| f_clock := tick b (f_clock f); f_k := f_k f; f_07 := f_07 f; f_08 := f_08 f; f_09 := f_09 f |}.
Proof. intro Hm. cbn [ev_loc]. rewrite Hm. reflexivity. Qed.

Lemma ev_loc_EB_good (f : foc) (b : bev) :
  k_mal (f_k f) = false ->
  ev_loc l who i f (EB i b)
  = {| f_clock := tick b (f_clock f);
       f_k := {| k_st := k_st (f_k f); k_pending := k_pending (f_k f); k_started := true;
                 k_mal := mal_of b (k_st (f_k f)); k_last := Some b; k_last_clock := tick b (f_clock f);
                 k_events := true |};
       f_07 := f_07 f && negb (is_terminal (k_st (f_k f)));
       f_08 := f_08 f && who_ok who i; f_09 := f_09 f |}.
Proof. intro Hm. cbn [ev_loc]. rewrite Hm. reflexivity. Qed.

End Local.
