(** [Resume]: the model's [resume] split into "enter Running", "run the body", "finish", and the
    oracle step on the resulting observation. *)
From OCV Require Import Base.Prelude Misc.Time Coroutine.Co Coroutine.CoOracle Coroutine.CoLemmas
  Coroutine.CoFocus Coroutine.CoExec Coroutine.CoPost Coroutine.CoSim Coroutine.CoStep.
From Coq Require Import ZifyBool ZifyNat.
Open Scope Z_scope.

(** the part of [resume] after the body run *)
Definition finish (t2 : thr) (i : nat) (c2 : co) (ev2 : list ev) (out : outcome) : thr * res * list ev :=
  match out with
  | OYield y =>
      match c_st c2 with
      | Running =>
          let '(cancel, cn') := pop_front false (t_cn t2) in
          if cancel then
            let t3 := upd_req t2 (t_ts t2) cn' in
            let '(t4, e) := apply_change t3 i c2 Cancelled in
            (t4, ROk Cancelled, ev2 ++ e)
          else
            let '(ts, ts') := pop_front 0 (t_ts t2) in
            let t3 := upd_req t2 ts' cn' in
            let '(t4, e) := apply_change t3 i c2 (Suspend y ts) in
            (t4, ROk (Suspend y ts), ev2 ++ e)
      | Syscall y' n s =>
          let '(_, cn') := pop_front false (t_cn t2) in
          let '(_, ts') := pop_front 0 (t_ts t2) in
          (upd_req t2 ts' cn', ROk (Syscall y' n s), ev2)
      | _ => (t2, RErr, ev2)
      end
  | OReturn v =>
      match tr_from_running (c_st c2) (Complete v) with
      | Some new => let '(t3, e) := apply_change t2 i c2 new in (t3, ROk new, ev2 ++ e)
      | None => (t2, RErr, ev2)
      end
  | OPanic k =>
      match tr_from_running (c_st c2) (Error (panic_msg k)) with
      | Some new => let '(t3, e) := apply_change t2 i c2 new in (t3, ROk new, ev2 ++ e)
      | None => (t2, RErr, ev2)
      end
  end.

Definition first_ev (i : nat) (c1 : co) (arg : Z) : list ev :=
  match c_body c1 with
  | IUnreachable :: _ => []
  | _ => [if c_started c1 then EB i (BGot arg) else EB i (BStart arg)]
  end.

Definition enter_T (T : thr) (i : nat) (c : co) (chg : option cstate) : thr :=
  match chg with Some new => upd_co T i (with_st c new) | None => T end.
Definition enter_c (c : co) (chg : option cstate) : co :=
  match chg with Some new => with_st c new | None => c end.
Definition enter_ev (T : thr) (i : nat) (c : co) (chg : option cstate) : list ev :=
  match chg with Some new => change_events (t_nl T) i (c_st c) new | None => [] end.

Lemma resume_unfold (T : thr) (i : nat) (arg : Z) (c : co) (chg : option cstate) :
  nth_error (t_cos T) i = Some c -> tr_running (t_clock T) (c_st c) = Some chg ->
  resume T i arg =
    let T1 := enter_T T i c chg in
    let c1 := enter_c c chg in
    let ev1 := enter_ev T i c chg in
    if c_dead c1 then (T1, RUnwound, ev1)
    else
      let '(t2, c2, evx, out) := exec (c_body c1) T1 i c1 [] in
      finish (upd_co t2 i c2) i c2 ((ev1 ++ first_ev i c1 arg) ++ evx) out.
Proof.
  intros Hc Htr. unfold resume. rewrite Hc.
  assert (Hterm : is_terminal (c_st c) = false) by (eapply tr_running_not_cancelled; exact Htr).
  assert (Hgo : forall X : thr * res * list ev,
             match c_st c with Complete r => (T, ROk (Complete r), []) | Error m => (T, ROk (Error m), []) | _ => X end = X).
  { intro X. destruct (c_st c); try reflexivity; discriminate. }
  rewrite Hgo. rewrite Htr. cbv zeta.
  destruct chg as [new|]; cbn [enter_T enter_c enter_ev apply_change].
  - destruct (c_dead (with_st c new)); [reflexivity|].
    rewrite exec_acc. fold (first_ev i (with_st c new) arg).
    destruct (exec _ _ i _ []) as [[[t2 c2] evx] out]. reflexivity.
  - destruct (c_dead c); [reflexivity|].
    rewrite exec_acc. fold (first_ev i c arg).
    destruct (exec _ _ i _ []) as [[[t2 c2] evx] out]. reflexivity.
Qed.

Lemma resume_done (T : thr) (i : nat) (arg : Z) (c : co) :
  nth_error (t_cos T) i = Some c ->
  (exists r, c_st c = Complete r) \/ (exists m, c_st c = Error m) ->
  resume T i arg = (T, ROk (c_st c), []).
Proof.
  intros Hc H. unfold resume. rewrite Hc. destruct H as [(r & E) | (m & E)]; rewrite E; reflexivity.
Qed.

Lemma resume_refused (T : thr) (i : nat) (arg : Z) (c : co) :
  nth_error (t_cos T) i = Some c -> tr_running (t_clock T) (c_st c) = None ->
  (forall r, c_st c <> Complete r) -> (forall m, c_st c <> Error m) ->
  resume T i arg = (T, RErr, []).
Proof.
  intros Hc Htr Hn1 Hn2. unfold resume. rewrite Hc. rewrite Htr.
  destruct (c_st c) eqn:E; try reflexivity; exfalso; [eapply Hn1 | eapply Hn2]; reflexivity.
Qed.

Section Fin.
Variables (l : nat) (i : nat).
Notation F := (fold_left (ev_loc l (Some i) i)).

(** [G]: what is known about the body when it is well-formed; only the [krel] part needs it *)
Definition fin_ok (G : Prop) (T1 : thr) (f2 f3 : foc) (T' : thr) (r : res) (efin : list ev) (cfin : co) : Prop :=
  Forall (fun e => ev_idx e = i) efin
  /\ cos_upd (t_cos T1) i cfin (t_cos T') /\ t_nl T' = t_nl T1 /\ t_ts T' = [] /\ t_cn T' = []
  /\ t_clock T' = f_clock (F efin f3) /\ flags (F efin f3)
  /\ (G -> krel cfin (f_k (F efin f3)))
  /\ trk9 cfin (f_k (F efin f3))
  /\ (k_mal (f_k f2) = true -> f_k (F efin f3) = f_k f2)
  /\ (k_mal (f_k f2) = false ->
      forall rf t, f_k t = f_k (F efin f3) -> flags t -> flags (resume_tail r rf t)).

Lemma cos_upd_set2 (cos : list co) (c c' : co) :
  (i < length cos)%nat -> cos_upd cos i c' (set_nth i c' (set_nth i c cos)).
Proof.
  intro H. eapply cos_upd_trans; [apply (cos_upd_set cos i c H)|].
  apply cos_upd_set. rewrite set_nth_length. exact H.
Qed.

Lemma flags_ffail08 (t : foc) : flags t -> flags (ffail08 t true).
Proof. intros (A & B & C). unfold flags. cbn [ffail08 f_07 f_08 f_09]. rewrite A, B, C. auto. Qed.

Lemma flags_ffail09 (t : foc) : flags t -> flags (ffail09 t true).
Proof. intros (A & B & C). unfold flags. cbn [ffail09 f_07 f_08 f_09]. rewrite A, B, C. auto. Qed.

Lemma flags_ffail07 (t : foc) : flags t -> flags (ffail07 t true).
Proof. intros (A & B & C). unfold flags. cbn [ffail07 f_07 f_08 f_09]. rewrite A, B, C. auto. Qed.

(** the tracker after the body run, as a precondition for the closing change *)
Lemma post_pre (T1 : thr) (c1 : co) (f2 : foc) (T2 : thr) (c2 : co) (evx : list ev) (out : outcome) :
  post l i T1 c1 (c_body c1) f2 T2 c2 evx out ->
  pre (t_clock T2) (c_st c2) (F evx f2).
Proof.
  intros (P1 & P2 & P3 & P4 & P5 & P6 & P7 & P8 & Ptrk & req & P9 & P10).
  split; [exact P6|]. split; [exact P7|]. exact Ptrk.
Qed.

(** closing change out of [Running] *)
Lemma fin_change (G : Prop) (T1 : thr) (f2 : foc) (T2 : thr) (c2 : co) (evx : list ev)
      (T' : thr) (r : res) (new : cstate) (b : bev) :
  pre (t_clock T2) Running (F evx f2) ->
  (k_mal (f_k f2) = true -> f_k (F evx f2) = f_k f2) ->
  (k_mal (f_k f2) = false -> f_k (F evx f2) = k_after Running b (t_clock T2)) ->
  c_st c2 = Running -> c_started c2 = true ->
  t_cos T2 = t_cos T1 -> t_nl T2 = t_nl T1 -> (l < t_nl T1)%nat -> (i < length (t_cos T1))%nat ->
  edge_ok (t_clock T2) Running new = true ->
  t_cos T' = set_nth i (with_st c2 new) (set_nth i c2 (t_cos T2)) ->
  t_nl T' = t_nl T2 -> t_ts T' = [] -> t_cn T' = [] -> t_clock T' = t_clock T2 ->
  (G -> k_mal (f_k f2) = false ->
   is_terminal new = true \/ (c_dead c2 = false /\ no_unr (c_body c2) = true)) ->
  (forall rf t, f_k t = k_chg (k_after Running b (t_clock T2)) new -> flags t -> flags (resume_tail r rf t)) ->
  fin_ok G T1 f2 (F evx f2) T' r (change_events (t_nl T2) i Running new) (with_st c2 new).
Proof.
  intros Hpre Hmal Hgood Hst Hstarted Hcos Hnl Hl Hi Hedge HT'cos HT'nl HT'ts HT'cn HT'clk Hkr Htail.
  assert (Hl2 : (l < t_nl T2)%nat) by (rewrite Hnl; exact Hl).
  destruct (pre_change l i _ _ new _ (t_nl T2) Hpre Hl2 eq_refl Hedge) as (Q1 & Q2 & Q3 & Q4).
  destruct Q1 as (Qc & Qf & Qk).
  unfold fin_ok.
  split; [apply change_events_idx|].
  split; [rewrite HT'cos, Hcos; apply cos_upd_set2; exact Hi|].
  split; [congruence|]. split; [exact HT'ts|]. split; [exact HT'cn|].
  split; [rewrite Qc; exact HT'clk|]. split; [exact Qf|].
  split.
  { intros HG Hm. rewrite Q2 in Hm.
    destruct (k_mal (f_k f2)) eqn:Hm2; [rewrite Hmal in Hm by reflexivity; congruence|].
    rewrite Q4 by exact Hm. rewrite Hgood by reflexivity.
    cbn [k_chg k_after k_st k_pending k_started with_st c_st c_started c_dead c_body].
    split; [reflexivity|]. split; [reflexivity|]. split; [auto|].
    destruct (Hkr HG eq_refl) as [Ht | (Hd & Hu)].
    - split; intros _; exact Ht.
    - split; intro H; congruence. }
  split; [exact Qk|].
  split.
  { intro Hm. rewrite Q3 by (rewrite Hmal by exact Hm; exact Hm). apply Hmal. exact Hm. }
  intros Hm rf t Ht Hfl. apply Htail; [|exact Hfl].
  rewrite Ht. rewrite Q4; [rewrite Hgood by exact Hm; reflexivity|].
  rewrite Hgood by exact Hm. cbn [k_after k_mal].
  destruct b as [| |y0 [] | | | | |]; reflexivity.
Qed.

Lemma finish_sim (T1 : thr) (c1 : co) (f2 : foc) (T2 : thr) (c2 : co) (evx : list ev) (out : outcome)
      (evs0 : list ev) (T' : thr) (r : res) (evs : list ev) :
  post l i T1 c1 (c_body c1) f2 T2 c2 evx out ->
  t_ts T1 = [] -> t_cn T1 = [] -> (l < t_nl T1)%nat -> (i < length (t_cos T1))%nat ->
  (k_mal (f_k f2) = false -> no_unr (c_body c1) = true \/ forall pk, out <> OPanic pk) ->
  finish (upd_co T2 i c2) i c2 evs0 out = (T', r, evs) ->
  exists efin cfin, evs = evs0 ++ efin
    /\ fin_ok (k_mal (f_k f2) = false -> no_unr (c_body c1) = true /\ c_dead c1 = false)
              T1 f2 (F evx f2) T' r efin cfin.
Proof.
  intros Hpost Hts Hcn Hl Hi Hweak Hfin.
  set (G := k_mal (f_k f2) = false -> no_unr (c_body c1) = true /\ c_dead c1 = false).
  pose proof (post_pre _ _ _ _ _ _ _ Hpost) as Hpre.
  destruct Hpost as (P1 & P2 & P3 & P4 & P5 & P6 & P7 & P8 & Ptrk & req & P9 & P10).
  assert (Hgood' : forall b, b = out_bev out req -> k_mal (f_k f2) = false ->
                    f_k (F evx f2) = k_after (c_st c2) b (t_clock T2)).
  { intros b -> Hm. apply P10; [exact Hm | apply Hweak; exact Hm]. }
  (* the closing step when no change happens: state stays [c_st c2] *)
  assert (Hstay : forall T'' r'',
            t_cos T'' = set_nth i c2 (t_cos T2) -> t_nl T'' = t_nl T2 -> t_ts T'' = [] -> t_cn T'' = [] ->
            t_clock T'' = t_clock T2 ->
            (k_mal (f_k f2) = false ->
               (G -> mal_of (out_bev out req) (c_st c2) = false ->
                  c_dead c2 = false /\ no_unr (c_body c2) = true)
               /\ (forall rf t, f_k t = k_after (c_st c2) (out_bev out req) (t_clock T2) -> flags t ->
                     flags (resume_tail r'' rf t))) ->
            fin_ok G T1 f2 (F evx f2) T'' r'' [] c2).
  { intros T'' r'' Ecos Enl Ets Ecn Eclk Hk. unfold fin_ok. cbn [fold_left].
    split; [constructor|].
    split; [rewrite Ecos, P3; apply cos_upd_set; exact Hi|].
    split; [congruence|]. split; [exact Ets|]. split; [exact Ecn|].
    split; [rewrite P6; exact Eclk|]. split; [exact P7|].
    split.
    { intros HG Hm. destruct (k_mal (f_k f2)) eqn:Hm2; [rewrite P8 in Hm by reflexivity; congruence|].
      rewrite (Hgood' _ eq_refl eq_refl) in Hm |- *. cbn [k_after k_mal] in Hm.
      destruct (Hk eq_refl) as (Hk1 & _). destruct (Hk1 HG Hm) as (Hd & Hu).
      cbn [k_after k_st k_pending k_started].
      split; [reflexivity|]. split; [reflexivity|]. split; [auto|]. split; intro H; congruence. }
    split; [exact Ptrk|].
    split; [exact P8|].
    intros Hm rf t Ht Hfl. destruct (Hk Hm) as (_ & Hk2). apply Hk2; [|exact Hfl].
    rewrite Ht. apply Hgood'; auto. }
  destruct out as [y | v | pk]; cbn [finish] in Hfin.
  - (* the body yielded *)
    destruct P9 as (Hreq & Hdead & Hunr). rewrite Hts, Hcn in Hreq.
    destruct (c_st c2) as [| |? ?|y' n s| | |] eqn:Est; try discriminate P1.
    + (* Running: Cancelled or Suspend *)
      cbn [upd_co t_cn t_ts] in Hfin.
      destruct req as [|tt|d|]; cbn [push_req] in Hreq; injection Hreq as Ets Ecn;
        rewrite Ets, Ecn in Hfin; cbn [pop_front apply_change] in Hfin; injection Hfin as <- <- <-.
      * (* no request: Suspend y 0 *)
        eexists _, _. split; [reflexivity|]. cbn [t_nl upd_req upd_co c_st]. rewrite Est.
        eapply fin_change with (b := BYield y RNone); try eassumption; try reflexivity;
          try (intros Hm; apply (Hgood' _ eq_refl Hm)).
        -- intros HG Hm. right. split; [rewrite Hdead; apply HG; exact Hm |].
           apply Hunr; [discriminate | apply HG; exact Hm].
        -- intros rf t Ht Hfl. unfold resume_tail. rewrite Ht.
           cbn [k_chg k_after k_mal k_last k_st k_last_clock mal_of res_eqb request_eqb negb expected_time andb].
           rewrite cstate_eqb_refl, !Z.eqb_refl. cbn [andb].
           apply flags_ffail09, flags_ffail08. exact Hfl.
      * (* until *)
        eexists _, _. split; [reflexivity|]. cbn [t_nl upd_req upd_co c_st]. rewrite Est.
        eapply fin_change with (b := BYield y (RUntil tt)); try eassumption; try reflexivity;
          try (intros Hm; apply (Hgood' _ eq_refl Hm)).
        -- intros HG Hm. right. split; [rewrite Hdead; apply HG; exact Hm |].
           apply Hunr; [discriminate | apply HG; exact Hm].
        -- intros rf t Ht Hfl. unfold resume_tail. rewrite Ht.
           cbn [k_chg k_after k_mal k_last k_st k_last_clock mal_of res_eqb request_eqb negb expected_time andb].
           rewrite cstate_eqb_refl, !Z.eqb_refl. cbn [andb].
           apply flags_ffail09, flags_ffail08. exact Hfl.
      * (* delay *)
        eexists _, _. split; [reflexivity|]. cbn [t_nl upd_req upd_co c_st]. rewrite Est.
        eapply fin_change with (b := BYield y (RDelay d)); try eassumption; try reflexivity;
          try (intros Hm; apply (Hgood' _ eq_refl Hm)).
        -- intros HG Hm. right. split; [rewrite Hdead; apply HG; exact Hm |].
           apply Hunr; [discriminate | apply HG; exact Hm].
        -- intros rf t Ht Hfl. unfold resume_tail. rewrite Ht.
           cbn [k_chg k_after k_mal k_last k_st k_last_clock mal_of res_eqb request_eqb negb expected_time andb].
           unfold timeout_of. rewrite cstate_eqb_refl, !Z.eqb_refl. cbn [andb].
           apply flags_ffail09, flags_ffail08. exact Hfl.
      * (* cancel *)
        eexists _, _. split; [reflexivity|]. cbn [t_nl upd_req upd_co c_st]. rewrite Est.
        eapply fin_change with (b := BYield y RCancel); try eassumption; try reflexivity;
          try (intros Hm; apply (Hgood' _ eq_refl Hm)).
        -- intros _ _. left. reflexivity.
        -- intros rf t Ht Hfl. unfold resume_tail. rewrite Ht.
           cbn [k_chg k_after k_mal k_last k_st k_last_clock mal_of res_eqb request_eqb negb cstate_eqb andb].
           apply flags_ffail09, flags_ffail08. exact Hfl.
    + (* Syscall: the state is returned, requests are dropped *)
      cbn [upd_co t_cn t_ts] in Hfin.
      exists [], c2. rewrite app_nil_r.
      assert (Hfin' : T' = upd_req (upd_co T2 i c2) [] [] /\ r = ROk (Syscall y' n s) /\ evs = evs0).
      { destruct req; cbn [push_req] in Hreq; injection Hreq as Ets Ecn; rewrite Ets, Ecn in Hfin;
          cbn [pop_front] in Hfin; injection Hfin as <- <- <-; auto. }
      destruct Hfin' as (-> & -> & ->). split; [reflexivity|].
      apply Hstay; try reflexivity.
      intro Hm. split.
      * intros HG Hmal. split; [rewrite Hdead; apply HG; exact Hm|].
        apply Hunr; [|apply HG; exact Hm].
        intros ->. cbn [out_bev mal_of cstate_eqb negb] in Hmal. discriminate.
      * intros rf t Ht Hfl. unfold resume_tail. rewrite Ht. cbn [k_after k_mal k_last k_st out_bev].
        destruct (mal_of (BYield y req) (Syscall y' n s)); [exact Hfl|].
        cbn [res_eqb]. rewrite cstate_eqb_refl. apply flags_ffail08. exact Hfl.
  - (* the body returned *)
    destruct P9 as (Ets & Ecn & Hdead).
    destruct (tr_from_running (c_st c2) (Complete v)) as [new|] eqn:Etr.
    + destruct (tr_from_running_Some _ _ _ Etr) as (Est & ->).
      cbn [apply_change] in Hfin. injection Hfin as <- <- <-.
      eexists _, _. split; [reflexivity|]. cbn [t_nl upd_co]. rewrite Est.
      eapply fin_change with (b := BRet v); try eassumption; try reflexivity;
        try (intros Hm; rewrite <- Est; apply (Hgood' _ eq_refl Hm)); try (cbn [upd_co t_ts t_cn]; congruence);
        try (rewrite <- Est; exact Hpre).
      * intros _ _. left. reflexivity.
      * intros rf t Ht Hfl. unfold resume_tail. rewrite Ht.
        cbn [k_chg k_after k_mal k_last k_st mal_of res_eqb cstate_eqb negb].
        rewrite !Z.eqb_refl. cbn [andb]. apply flags_ffail08. exact Hfl.
    + pose proof (tr_from_running_None _ _ Etr) as Hne. injection Hfin as <- <- <-.
      exists [], c2. rewrite app_nil_r. split; [reflexivity|].
      apply Hstay; try reflexivity; try (cbn [upd_co t_ts t_cn]; congruence).
      intro Hm. split.
      * intros _ Hmal. exfalso. cbn [out_bev mal_of] in Hmal. apply negb_false_iff in Hmal.
        apply cstate_eqb_Running in Hmal. contradiction.
      * intros rf t Ht Hfl. unfold resume_tail. rewrite Ht. cbn [k_after k_mal out_bev mal_of].
        replace (cstate_eqb (c_st c2) Running) with false; [exact Hfl|].
        destruct (cstate_eqb (c_st c2) Running) eqn:E; [|reflexivity].
        apply cstate_eqb_Running in E. contradiction.
  - (* the body panicked *)
    destruct P9 as (Ets & Ecn & Hdead).
    destruct (tr_from_running (c_st c2) (Error (panic_msg pk))) as [new|] eqn:Etr.
    + destruct (tr_from_running_Some _ _ _ Etr) as (Est & ->).
      cbn [apply_change] in Hfin. injection Hfin as <- <- <-.
      eexists _, _. split; [reflexivity|]. cbn [t_nl upd_co]. rewrite Est.
      eapply fin_change with (b := BPanic pk); try eassumption; try reflexivity;
        try (intros Hm; rewrite <- Est; apply (Hgood' _ eq_refl Hm)); try (cbn [upd_co t_ts t_cn]; congruence);
        try (rewrite <- Est; exact Hpre).
      * intros _ _. left. reflexivity.
      * intros rf t Ht Hfl. unfold resume_tail. rewrite Ht.
        cbn [k_chg k_after k_mal k_last k_st mal_of res_eqb cstate_eqb negb].
        rewrite !msg_eqb_refl. cbn [andb]. apply flags_ffail08. exact Hfl.
    + pose proof (tr_from_running_None _ _ Etr) as Hne. injection Hfin as <- <- <-.
      exists [], c2. rewrite app_nil_r. split; [reflexivity|].
      apply Hstay; try reflexivity; try (cbn [upd_co t_ts t_cn]; congruence).
      intro Hm. split.
      * intros _ Hmal. exfalso. cbn [out_bev mal_of] in Hmal. apply negb_false_iff in Hmal.
        apply cstate_eqb_Running in Hmal. contradiction.
      * intros rf t Ht Hfl. unfold resume_tail. rewrite Ht. cbn [k_after k_mal out_bev mal_of].
        replace (cstate_eqb (c_st c2) Running) with false; [exact Hfl|].
        destruct (cstate_eqb (c_st c2) Running) eqn:E; [|reflexivity].
        apply cstate_eqb_Running in E. contradiction.
Qed.

End Fin.

Lemma finish_not_bad (t2 : thr) (i : nat) (c2 : co) (ev2 : list ev) (out : outcome) T' r evs :
  finish t2 i c2 ev2 out = (T', r, evs) -> res_eqb r RBad = false.
Proof.
  unfold finish. intro H.
  destruct out; [destruct (c_st c2) | destruct (tr_from_running _ _) | destruct (tr_from_running _ _)];
    cbn [apply_change] in H;
    repeat match type of H with
           | context [pop_front ?d ?x] => destruct (pop_front d x)
           | context [if ?b then _ else _] => destruct b
           end;
    injection H as <- <- <-; reflexivity.
Qed.

Section Enter.
Variables (l : nat) (i : nat).
Notation F := (fold_left (ev_loc l (Some i) i)).

Definition foc0 (T : thr) (k0 : ctrk) : foc :=
  {| f_clock := t_clock T; f_k := k0; f_07 := true; f_08 := true; f_09 := true |}.

Lemma pre_foc0 (T : thr) (c : co) (k0 : ctrk) : trk9 c k0 -> pre (t_clock T) (c_st c) (foc0 T k0).
Proof.
  intro Hk. split; [reflexivity|]. split; [apply flags_true|]. cbn [foc0 f_k]. exact Hk.
Qed.

Lemma enter_sim (T : thr) (c : co) (k0 : ctrk) (chg : option cstate) :
  trk9 c k0 -> (l < t_nl T)%nat -> tr_running (t_clock T) (c_st c) = Some chg ->
  let f1 := F (enter_ev T i c chg) (foc0 T k0) in
  pre (t_clock T) (c_st (enter_c c chg)) f1
  /\ k_mal (f_k f1) = k_mal k0
  /\ (k_mal k0 = true -> f_k f1 = k0)
  /\ (k_mal k0 = false -> k_started (f_k f1) = k_started k0 /\ k_last (f_k f1) = k_last k0)
  /\ run_st (c_st (enter_c c chg)) = true
  /\ Forall (fun e => ev_idx e = i) (enter_ev T i c chg)
  /\ Forall (fun e => match e with EL _ _ _ _ => True | EB _ _ => False end) (enter_ev T i c chg).
Proof.
  intros Hk Hl Htr. pose proof (pre_foc0 T c k0 Hk) as Hpre.
  destruct chg as [new|]; cbn [enter_ev enter_c].
  - destruct (tr_running_edge _ _ _ Htr) as (Hnew & Hedge & Hterm).
    destruct (pre_change l i _ _ new _ (t_nl T) Hpre Hl Hterm Hedge) as (Q1 & Q2 & Q3 & Q4).
    cbn [foc0 f_k] in Q2, Q3, Q4. cbn [with_st c_st].
    split; [exact Q1|]. split; [exact Q2|]. split; [exact Q3|].
    split; [intro Hm; rewrite Q4 by exact Hm; split; reflexivity|].
    split; [rewrite Hnew; reflexivity|].
    split; [apply change_events_idx | apply change_events_EL].
  - cbn [fold_left foc0 f_k].
    split; [exact Hpre|]. split; [reflexivity|]. split; [reflexivity|].
    split; [intros _; split; reflexivity|].
    split; [eapply tr_running_same; exact Htr|]. split; constructor.
Qed.

Lemma enter_model (T : thr) (c : co) (chg : option cstate) :
  nth_error (t_cos T) i = Some c ->
  cos_upd (t_cos T) i (enter_c c chg) (t_cos (enter_T T i c chg))
  /\ t_nl (enter_T T i c chg) = t_nl T /\ t_ts (enter_T T i c chg) = t_ts T
  /\ t_cn (enter_T T i c chg) = t_cn T /\ t_clock (enter_T T i c chg) = t_clock T
  /\ c_dead (enter_c c chg) = c_dead c /\ c_body (enter_c c chg) = c_body c
  /\ c_started (enter_c c chg) = c_started c.
Proof.
  intro Hc. destruct chg as [new|]; cbn [enter_T enter_c upd_co t_cos t_nl t_ts t_cn t_clock with_st c_dead c_body c_started].
  - split; [apply cos_upd_set; eapply nth_error_Some_lt; exact Hc|]. repeat split.
  - split; [apply cos_upd_refl; exact Hc|]. repeat split.
Qed.

(** the first body event, as the tracker sees it *)
Lemma first_sim (T1 : thr) (c1 : co) (arg : Z) (f1 : foc) :
  pre (t_clock T1) (c_st c1) f1 -> run_st (c_st c1) = true ->
  let f2 := F (first_ev i c1 arg) f1 in
  pre (t_clock T1) (c_st c1) f2
  /\ k_mal (f_k f2) = k_mal (f_k f1)
  /\ (k_mal (f_k f1) = true -> f_k f2 = f_k f1)
  /\ Forall (fun e => ev_idx e = i) (first_ev i c1 arg).
Proof.
  intros Hpre Hrun. unfold first_ev.
  assert (Hone : forall b, mal_of b (c_st c1) = false -> tick b (t_clock T1) = t_clock T1 ->
            let f2 := F [EB i b] f1 in
            pre (t_clock T1) (c_st c1) f2 /\ k_mal (f_k f2) = k_mal (f_k f1)
            /\ (k_mal (f_k f1) = true -> f_k f2 = f_k f1)
            /\ Forall (fun e => ev_idx e = i) [EB i b]).
  { intros b Hb Ht. cbn [fold_left]. destruct (pre_EB l i _ _ _ b Hpre Hrun Hb) as (R1 & R2 & R3).
    rewrite Ht in R1. split; [exact R1|]. split; [exact R2|]. split; [exact R3|]. apply Forall_idx_one. }
  assert (Hnil : let f2 := F [] f1 in
            pre (t_clock T1) (c_st c1) f2 /\ k_mal (f_k f2) = k_mal (f_k f1)
            /\ (k_mal (f_k f1) = true -> f_k f2 = f_k f1)
            /\ Forall (fun e => ev_idx e = i) []).
  { cbn [fold_left]. split; [exact Hpre|]. split; [reflexivity|]. split; [reflexivity|]. constructor. }
  destruct (c_body c1) as [|ins rest]; [|destruct ins]; try exact Hnil;
    destruct (c_started c1); apply Hone; reflexivity.
Qed.

Lemma first_ev_body (c1 : co) (arg : Z) :
  no_unr (c_body c1) = true ->
  first_ev i c1 arg = [if c_started c1 then EB i (BGot arg) else EB i (BStart arg)].
Proof.
  unfold first_ev. destruct (c_body c1) as [|ins rest]; [reflexivity|].
  destruct ins; try reflexivity. cbn [no_unr forallb is_unr negb andb]. discriminate.
Qed.

End Enter.

Lemma refused_refusable (now : Z) (s : cstate) :
  tr_running now s = None -> is_terminal s = false ->
  match s with
  | Suspend _ ts => now <? ts
  | Syscall _ _ (SSuspend _) => true
  | _ => false
  end = true.
Proof.
  destruct s as [| |y t|y n st| | |]; cbn [tr_running is_terminal]; try discriminate.
  - destruct (t <=? now) eqn:E; [discriminate|]. intros _ _. lia.
  - destruct st; try discriminate; reflexivity.
Qed.

Lemma focus_cleared_resume (l : nat) (T : thr) (ot : otrk) (i : nat) (arg : Z) :
  Inv l T ot -> focus (cleared ot (Resume i arg)) i = foc0 T (clear_op (get_k ot i)).
Proof. intro HI. rewrite (focus_cleared l T) by exact HI. reflexivity. Qed.

Lemma step_Resume (l : nat) (T T' : thr) (ot : otrk) (i : nat) (arg : Z) (r : res) (evs : list ev) :
  Inv l T ot -> resume T i arg = (T', r, evs) ->
  Inv l T' (ostep1 l ot (Resume i arg) r evs).
Proof.
  intros HI Hres.
  destruct (nth_error (t_cos T) i) as [c|] eqn:Hc.
  2:{ unfold resume in Hres. rewrite Hc in Hres. injection Hres as <- <- <-.
      apply step_bad; [exact HI | intros x; discriminate]. }
  pose proof (inv_krel _ _ _ _ _ HI Hc) as Hk.
  pose proof (inv_l _ _ _ HI) as Hl.
  set (k0 := clear_op (get_k ot i)) in *.
  assert (Hev0 : k_events k0 = false) by reflexivity.
  assert (Hlast0 : k_last k0 = None) by reflexivity.
  (* terminal Complete / Error: absorbed *)
  assert (Hdone : (exists x, c_st c = Complete x) \/ (exists m, c_st c = Error m) ->
                  Inv l T' (ostep1 l ot (Resume i arg) r evs)).
  { intro Hd. rewrite (resume_done T i arg c Hc Hd) in Hres. injection Hres as <- <- <-.
    eapply step_quiet; try exact HI; try (intros x; discriminate); [exact Hc|].
    cbn [op_idx]. fold k0. unfold opost_f. cbn [res_eqb ffail07 f_k f_07 f_08 f_09 f_clock andb].
    destruct (k_mal k0) eqn:Hm; [apply flags_true|].
    destruct (Hk Hm) as (Hst & _). rewrite Hst, Hev0.
    destruct Hd as [(x & E) | (m & E)]; rewrite E; cbn [is_terminal ffail07 f_07 f_08 f_09 negb andb res_eqb];
      rewrite cstate_eqb_refl; apply flags_true. }
  destruct (tr_running (t_clock T) (c_st c)) as [chg|] eqn:Htr.
  2:{ (* refused *)
      destruct (c_st c) eqn:Est; try (apply Hdone; eauto; fail).
      all: rewrite (resume_refused T i arg c Hc) in Hres;
        [| rewrite Est; exact Htr | rewrite Est; discriminate | rewrite Est; discriminate ].
      all: injection Hres as <- <- <-.
      all: eapply step_quiet; try exact HI; try (intros x; discriminate); [exact Hc|].
      all: cbn [op_idx]; fold k0; unfold opost_f; cbn [res_eqb ffail07 f_k f_07 f_08 f_09 f_clock andb].
      all: destruct (k_mal k0) eqn:Hm; [apply flags_true|].
      all: destruct (Hk Hm) as (Hst & _); rewrite Hst, Est.
      all: cbn [is_terminal].
      all: try (unfold resume_tail, first_ok;
                cbn [first_body filter ffail08 ffail07 f_k f_07 f_08 f_09 f_clock andb];
                rewrite Hm, Hlast0, Hev0;
                replace (refusable (t_clock T) k0) with true
                  by (symmetry; unfold refusable; rewrite Hst, Est;
                      exact (refused_refusable _ _ Htr eq_refl));
                cbn [res_eqb negb andb ffail08 ffail07 f_07 f_08 f_09];
                apply flags_true).
      all: try (rewrite Hev0; cbn [ffail07 f_07 f_08 f_09 negb andb res_eqb]; apply flags_true).
      all: cbn [tr_running] in Htr; discriminate. }
  (* the coroutine enters (or stays in) a running state *)
  assert (Hterm : is_terminal (c_st c) = false) by (eapply tr_running_not_cancelled; exact Htr).
  rewrite (resume_unfold T i arg c chg Hc Htr) in Hres. cbv zeta in Hres.
  destruct (enter_sim l i T c k0 chg (krel_trk9 _ _ Hk) Hl Htr) as (E1 & E2 & E3 & E4 & E5 & E6 & E7).
  destruct (enter_model i T c chg Hc) as (M1 & M2 & M3 & M4 & M5 & M6 & M7 & M8).
  set (T1 := enter_T T i c chg) in *. set (c1 := enter_c c chg) in *. set (ev1 := enter_ev T i c chg) in *.
  set (f1 := fold_left (ev_loc l (Some i) i) ev1 (foc0 T k0)) in *.
  pose proof (focus_cleared_resume l T ot i arg HI) as Hf0. fold k0 in Hf0.
  assert (Hnm : k_mal k0 = false -> c_dead c = false /\ no_unr (c_body c) = true).
  { intro Hm. destruct (Hk Hm) as (_ & _ & _ & Hd & Hu). split.
    - destruct (c_dead c); [rewrite Hd in Hterm by reflexivity; discriminate | reflexivity].
    - destruct (no_unr (c_body c)); [reflexivity | rewrite Hu in Hterm by reflexivity; discriminate]. }
  destruct (c_dead c1) eqn:Hdead.
  - (* an already finished body: the call unwinds; only possible after a contract breach *)
    injection Hres as <- <- <-.
    assert (Hm : k_mal k0 = true).
    { destruct (k_mal k0) eqn:Hm; [reflexivity|]. destruct (Hnm eq_refl) as (Hd & _). congruence. }
    eapply step_build with (cnew := c1); try exact HI; cbn [op_idx op_who]; try assumption.
    + rewrite M3. apply (inv_ts _ _ _ HI).
    + rewrite M4. apply (inv_cn _ _ _ HI).
    + rewrite Hf0. fold f1. destruct E1 as (Ec & _). rewrite Ec. exact M5.
    + rewrite Hf0. fold f1. intro Hm'. rewrite E2 in Hm'. congruence.
    + rewrite Hf0. fold f1. cbn [foc0 f_k]. unfold opost_f. cbn [res_eqb]. rewrite Hm.
      apply flags_ffail07. apply E1.
  - (* the body runs *)
    destruct (exec (c_body c1) T1 i c1 []) as [[[T2 c2] evx] out] eqn:Hex.
    destruct (first_sim l i T1 c1 arg f1) as (G1 & G2 & G3 & G4); [rewrite M5; exact E1 | exact E5 |].
    set (f2 := fold_left (ev_loc l (Some i) i) (first_ev i c1 arg) f1) in *.
    assert (Hl1 : (l < t_nl T1)%nat) by (rewrite M2; exact Hl).
    pose proof (exec_loc l i _ _ _ f2 _ _ _ _ Hex E5 Hl1 G1) as Hpost.
    assert (Hi1 : (i < length (t_cos T1))%nat).
    { destruct M1 as (L1 & _). rewrite L1. eapply nth_error_Some_lt. exact Hc. }
    assert (Hgood2 : k_mal (f_k f2) = false -> no_unr (c_body c1) = true /\ c_dead c1 = false).
    { intro Hm. rewrite G2, E2 in Hm. destruct (Hnm Hm) as (Hd & Hu). rewrite M7. auto. }
    destruct (finish_sim l i T1 c1 f2 T2 c2 evx out _ T' r evs Hpost
                (eq_trans M3 (inv_ts _ _ _ HI)) (eq_trans M4 (inv_cn _ _ _ HI)) Hl1 Hi1
                (fun Hm => or_introl (proj1 (Hgood2 Hm))) Hres)
      as (efin & cfin & -> & Hfin).
    destruct Hfin as (N1 & N2 & N3 & N4 & N5 & N6 & N7 & N8 & N8' & N9 & N10).
    pose proof (finish_not_bad _ _ _ _ _ _ _ _ Hres) as Hnb.
    assert (HF : fold_left (ev_loc l (Some i) i) (((ev1 ++ first_ev i c1 arg) ++ evx) ++ efin) (foc0 T k0)
                 = fold_left (ev_loc l (Some i) i) efin (fold_left (ev_loc l (Some i) i) evx f2)).
    { rewrite !fold_left_app. reflexivity. }
    destruct Hpost as (_ & _ & _ & _ & P5 & _).
    eapply step_build with (cnew := cfin); try exact HI; cbn [op_idx op_who]; try assumption.
    + repeat (apply Forall_app; split); assumption.
    + eapply cos_upd_trans; eassumption.
    + congruence.
    + rewrite Hf0, HF. exact N6.
    + rewrite Hf0, HF. exact (N8 Hgood2).
    + rewrite Hf0, HF. cbn [foc0 f_k]. unfold opost_f. cbv zeta. cbn [op_idx]. rewrite Hnb.
      destruct (k_mal k0) eqn:Hm; [apply flags_ffail07; exact N7|].
      destruct (Hk Hm) as (Hst & _ & Hstarted & _). rewrite Hst, Hterm.
      assert (Hm2 : k_mal (f_k f2) = false) by (rewrite G2, E2; reflexivity).
      apply (N10 Hm2); [reflexivity|].
      assert (Hfirst : first_ok i (((ev1 ++ first_ev i c1 arg) ++ evx) ++ efin) k0 arg = true).
      { unfold first_ok. rewrite <- !app_assoc. rewrite first_body_EL by exact E7.
        rewrite first_ev_body by apply (Hgood2 Hm2). cbn [app].
        rewrite M8, <- Hstarted. destruct (k_started k0); rewrite first_body_EB; cbn [negb andb];
          apply Z.eqb_refl. }
      rewrite Hfirst. apply flags_ffail08, flags_ffail07. exact N7.
Qed.
