(** The simulation invariant between the model thread and listener [l]'s tracker, and its
    preservation by every driver op (with the three flags staying [true]). *)
From OCV Require Import Base.Prelude Misc.Time Coroutine.Co Coroutine.CoOracle Coroutine.CoLemmas
  Coroutine.CoFocus Coroutine.CoExec Coroutine.CoPost.
From Coq Require Import ZifyBool ZifyNat.
Open Scope Z_scope.

(** tracker entry [k] describes coroutine [c] -- unless the body of [c] broke the API contract
    ([k_mal]), after which the oracle ignores it *)
Definition krel (c : co) (k : ctrk) : Prop :=
  k_mal k = false ->
    k_st k = c_st c /\ k_pending k = None /\ k_started k = c_started c
    /\ (c_dead c = true -> is_terminal (c_st c) = true)
    /\ (no_unr (c_body c) = false -> is_terminal (c_st c) = true).

(** the part of [krel] that does not depend on the bodies being well-formed *)
Definition trk9 (c : co) (k : ctrk) : Prop :=
  k_mal k = false -> k_st k = c_st c /\ k_pending k = None.

Lemma krel_trk9 (c : co) (k : ctrk) : krel c k -> trk9 c k.
Proof. intros H Hm. destruct (H Hm) as (A & B & _). auto. Qed.

Definition cos_rel (cos : list co) (ks : list ctrk) : Prop :=
  length ks = length cos /\ forall j c, nth_error cos j = Some c -> krel c (nth j ks ctrk0).

Record Inv (l : nat) (T : thr) (ot : otrk) : Prop := mkInv {
  inv_clock : o_clock ot = t_clock T;
  inv_ts : t_ts T = [];
  inv_cn : t_cn T = [];
  inv_l : (l < t_nl T)%nat;
  inv_07 : o_c07 ot = true;
  inv_08 : o_c08 ot = true;
  inv_09 : o_c09 ot = true;
  inv_cos : cos_rel (t_cos T) (o_cos ot)
}.

Lemma krel_clear (c : co) (k : ctrk) : krel c k -> krel c (clear_op k).
Proof. unfold krel. cbn [clear_op k_mal k_st k_pending k_started]. auto. Qed.

Lemma nth_map_clear (ks : list ctrk) (j : nat) : nth j (map clear_op ks) ctrk0 = clear_op (nth j ks ctrk0).
Proof. change ctrk0 with (clear_op ctrk0) at 1. apply map_nth. Qed.

Lemma cos_rel_clear (cos : list co) (ks : list ctrk) : cos_rel cos ks -> cos_rel cos (map clear_op ks).
Proof.
  intros (Hlen & Hk). split; [rewrite map_length; exact Hlen|].
  intros j c Hj. rewrite nth_map_clear. apply krel_clear. apply Hk. exact Hj.
Qed.

Lemma cos_rel_pend (cos : list co) (ks : list ctrk) : cos_rel cos ks -> forallb pend_ok ks = true.
Proof.
  intros (Hlen & Hk). apply forallb_forall. intros k Hin.
  destruct (In_nth ks k ctrk0 Hin) as (n & Hn & <-).
  destruct (nth_error cos n) as [c|] eqn:Hc.
  - specialize (Hk n c Hc). unfold pend_ok. destruct (k_mal (nth n ks ctrk0)) eqn:Hm; [reflexivity|].
    destruct (Hk Hm) as (_ & Hp & _). rewrite Hp. reflexivity.
  - apply nth_error_None in Hc. lia.
Qed.

(** [cos'] is [cos] with entry [i] replaced by [c] *)
Definition cos_upd (cos : list co) (i : nat) (c : co) (cos' : list co) : Prop :=
  length cos' = length cos /\ nth_error cos' i = Some c
  /\ forall j, j <> i -> nth_error cos' j = nth_error cos j.

Lemma cos_upd_refl (cos : list co) (i : nat) (c : co) : nth_error cos i = Some c -> cos_upd cos i c cos.
Proof. intro H. repeat split; auto. Qed.

Lemma cos_upd_set (cos : list co) (i : nat) (c : co) :
  (i < length cos)%nat -> cos_upd cos i c (set_nth i c cos).
Proof.
  intro H. split; [apply set_nth_length|]. split; [apply nth_error_set_nth_same; exact H|].
  intros j Hj. apply nth_error_set_nth_other. exact Hj.
Qed.

Lemma cos_upd_trans (cos cos' cos'' : list co) (i : nat) (c c' : co) :
  cos_upd cos i c cos' -> cos_upd cos' i c' cos'' -> cos_upd cos i c' cos''.
Proof.
  intros (L1 & S1 & O1) (L2 & S2 & O2). split; [congruence|]. split; [exact S2|].
  intros j Hj. rewrite O2, O1 by exact Hj. reflexivity.
Qed.

Lemma cos_upd_lt (cos cos' : list co) (i : nat) (c : co) : cos_upd cos i c cos' -> (i < length cos)%nat.
Proof. intros (L1 & S1 & _). rewrite <- L1. eapply nth_error_Some_lt. exact S1. Qed.

Lemma focus_cleared (l : nat) (T : thr) (ot : otrk) (o : dop) (i : nat) :
  Inv l T ot ->
  focus (cleared ot o) i
  = {| f_clock := match o with SetClock c => c | _ => t_clock T end;
       f_k := clear_op (get_k ot i); f_07 := true; f_08 := true; f_09 := true |}.
Proof.
  intros [Hc _ _ _ H7 H8 H9 _]. unfold focus, cleared, get_k. cbn [o_clock o_cos o_c07 o_c08 o_c09].
  rewrite nth_map_clear, H7, H8, H9, Hc. reflexivity.
Qed.

(** * rebuilding the invariant after an op on coroutine [i] *)
Lemma step_build (l : nat) (T T' : thr) (ot : otrk) (o : dop) (r : res) (evs : list ev) (cnew : co) :
  Inv l T ot ->
  Forall (fun e => ev_idx e = op_idx o) evs ->
  cos_upd (t_cos T) (op_idx o) cnew (t_cos T') ->
  t_nl T' = t_nl T -> t_ts T' = [] -> t_cn T' = [] ->
  let f0 := focus (cleared ot o) (op_idx o) in
  let fF := fold_left (ev_loc l (op_who o) (op_idx o)) evs f0 in
  t_clock T' = f_clock fF ->
  krel cnew (f_k fF) ->
  flags (opost_f o r evs (f_k f0) (f_clock f0) true fF) ->
  Inv l T' (ostep1 l ot o r evs).
Proof.
  intros HI Hall Hupd Hnl Hts Hcn f0 fF Hclk Hkrel Hflags.
  set (i := op_idx o) in *.
  pose proof (cos_upd_lt _ _ _ _ Hupd) as Hi.
  destruct Hupd as (Hlen & Hsame & Hother).
  pose proof (inv_cos _ _ _ HI) as (Hlen0 & Hk0).
  rewrite ostep1_eq.
  set (tf := fold_left (on_event l (op_who o)) evs (cleared ot o)).
  assert (Hic : (i < length (o_cos (cleared ot o)))%nat).
  { unfold cleared. cbn [o_cos]. rewrite map_length. lia. }
  destruct (fold_focus l (op_who o) i evs (cleared ot o) Hic Hall) as (Hf & Hl & Ho).
  fold tf in Hf, Hl, Ho. fold f0 in Hf. fold fF in Hf.
  destruct (opost_cos o r evs (cleared ot o) tf) as (Ecos & Eclk).
  assert (Hrel : cos_rel (t_cos T') (o_cos tf)).
  { split.
    - rewrite Hl. unfold cleared. cbn [o_cos]. rewrite map_length. lia.
    - intros j c Hj. destruct (Nat.eq_dec j i) as [->|Hne].
      + rewrite Hsame in Hj. injection Hj as <-.
        change (nth i (o_cos tf) ctrk0) with (f_k (focus tf i)). rewrite Hf. exact Hkrel.
      + change (nth j (o_cos tf) ctrk0) with (get_k tf j). rewrite Ho by exact Hne.
        unfold get_k, cleared. cbn [o_cos]. rewrite nth_map_clear. apply krel_clear.
        apply Hk0. rewrite <- Hother by exact Hne. exact Hj. }
  pose proof (opost_focus o r evs (cleared ot o) tf) as Hpost. fold i in Hpost.
  rewrite (cos_rel_pend _ _ Hrel) in Hpost. rewrite Hf in Hpost.
  change (get_k (cleared ot o) i) with (f_k f0) in Hpost.
  change (o_clock (cleared ot o)) with (f_clock f0) in Hpost.
  destruct Hflags as (F7 & F8 & F9). rewrite <- Hpost in F7, F8, F9. cbn [focus f_07 f_08 f_09] in F7, F8, F9.
  constructor; try assumption.
  - rewrite Eclk. change (o_clock tf) with (f_clock (focus tf i)). rewrite Hf. symmetry. exact Hclk.
  - rewrite Hnl. apply (inv_l _ _ _ HI).
  - rewrite Ecos. exact Hrel.
Qed.

(** ops that touch no coroutine: unknown index, or [SetClock] *)
Lemma step_noidx (l : nat) (T T' : thr) (ot : otrk) (o : dop) (r : res) :
  Inv l T ot ->
  t_cos T' = t_cos T -> t_nl T' = t_nl T -> t_ts T' = t_ts T -> t_cn T' = t_cn T ->
  t_clock T' = match o with SetClock c => c | _ => t_clock T end ->
  (r = RBad \/ exists c, o = SetClock c /\ r = RUnit) ->
  Inv l T' (ostep1 l ot o r []).
Proof.
  intros HI Hcos Hnl Hts Hcn Hclk Hr.
  pose proof HI as [Ic Its Icn Il I7 I8 I9 Irel].
  rewrite ostep1_eq. cbn [fold_left].
  destruct (opost_cos o r [] (cleared ot o) (cleared ot o)) as (Ecos & Eclk).
  pose proof (cos_rel_clear _ _ Irel) as Hrel.
  pose proof (cos_rel_pend _ _ Hrel) as Hpend. unfold pend_ok in Hpend.
  assert (Hfl : o_c07 (opost o r [] (cleared ot o) (cleared ot o)) = true
                /\ o_c08 (opost o r [] (cleared ot o) (cleared ot o)) = true
                /\ o_c09 (opost o r [] (cleared ot o) (cleared ot o)) = true).
  { unfold opost. destruct Hr as [-> | (c & -> & ->)].
    - cbn [res_eqb is_nil fail07 o_c07 o_c08 o_c09 cleared o_cos]. rewrite Hpend, I7, I8, I9. auto.
    - cbn [res_eqb is_nil fail07 o_c07 o_c08 o_c09 cleared o_cos andb]. rewrite Hpend, I7, I8, I9. auto. }
  destruct Hfl as (F7 & F8 & F9).
  constructor; try assumption; try congruence.
  - rewrite Eclk. unfold cleared. cbn [o_clock]. rewrite Hclk, Ic. reflexivity.
  - rewrite Ecos, Hcos. exact Hrel.
Qed.
