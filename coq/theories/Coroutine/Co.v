(** Model of one thread's coroutines: core/src/coroutine/{state,korosensei,suspender,mod,listener}.rs
    and the [catch!] macro. A coroutine body is a list of instructions (interpreted by the
    harness inside the real closure); [resume_with], the guarded state transitions, the two
    thread-local request deques (TIMESTAMP, CANCEL) and the listener broadcasts are transcribed.
    Values (Param, Yield, Return) are integers; panic messages are integers naming a literal. *)
From OCV Require Import Base.Prelude Misc.Time.
Open Scope Z_scope.

Inductive sysst := SExecuting | SSuspend (t : Z) | SCallback | STimeout.
Inductive msg := MStr (k : Z) | MNoMsg | MUnreachable.
Inductive cstate :=
| Ready | Running
| Suspend (y t : Z)
| Syscall (y name : Z) (s : sysst)
| Cancelled
| Complete (r : Z)
| Error (m : msg).

Inductive pkind := PStatic (k : Z) | POwned (k : Z) | POther | PUnreachable.

Inductive instr :=
| ISuspend (y : Z)                         (* p = suspender.suspend_with(y) *)
| IDelay (y d : Z)                         (* suspender.delay_with(y, d ns) *)
| IUntil (y t : Z)                         (* suspender.until_with(y, t) *)
| ICancel                                  (* suspender.cancel() *)
| ISyscall (y name : Z) (s : sysst)        (* Coroutine::current().syscall(y, name, s) *)
| IRunning                                 (* Coroutine::current().running() *)
| ITick (d : Z)                            (* advance the virtual clock *)
| ILog (k : Z)
| IReturn (v : Z)
| IPanic (k : pkind)
| IUnreachable.                            (* internal: what follows suspender.cancel() if it is ever resumed *)

Inductive request := RNone | RUntil (t : Z) | RDelay (d : Z) | RCancel.

(** what the body itself logs *)
Inductive bev :=
| BStart (p : Z) | BGot (p : Z)
| BYield (y : Z) (r : request)
| BRes (ok : bool)
| BTick (d : Z) | BLog (k : Z)
| BRet (v : Z) | BPanic (k : pkind).

(** listener callbacks *)
Inductive cb :=
| CbChanged (new : cstate)
| CbReady | CbRunning | CbSuspend | CbSyscall | CbCancel
| CbComplete (r : Z) | CbError (m : msg).

Inductive ev :=
| EL (l : nat) (i : nat) (c : cb) (old : cstate)   (* listener l, coroutine i *)
| EB (i : nat) (b : bev).

Record co := { c_st : cstate; c_body : list instr; c_started : bool; c_dead : bool }.

Record thr := {
  t_clock : Z;
  t_ts : list Z;        (* TIMESTAMP deque, head = front *)
  t_cn : list bool;     (* CANCEL deque, head = front *)
  t_cos : list co;
  t_nl : nat            (* listeners per coroutine *)
}.

Definition mk_thr (clock : Z) (bodies : list (list instr)) (nl : nat) : thr :=
  {| t_clock := clock; t_ts := []; t_cn := [];
     t_cos := map (fun b => {| c_st := Ready; c_body := b; c_started := false; c_dead := false |}) bodies;
     t_nl := nl |}.

Definition set_nth {A} (n : nat) (x : A) (l : list A) : list A :=
  firstn n l ++ match skipn n l with [] => [] | _ :: t => x :: t end.

Definition upd_co (t : thr) (i : nat) (c : co) : thr :=
  {| t_clock := t_clock t; t_ts := t_ts t; t_cn := t_cn t; t_cos := set_nth i c (t_cos t); t_nl := t_nl t |}.
Definition upd_clock (t : thr) (c : Z) : thr :=
  {| t_clock := c; t_ts := t_ts t; t_cn := t_cn t; t_cos := t_cos t; t_nl := t_nl t |}.
Definition upd_req (t : thr) (ts : list Z) (cn : list bool) : thr :=
  {| t_clock := t_clock t; t_ts := ts; t_cn := cn; t_cos := t_cos t; t_nl := t_nl t |}.

Definition with_st (c : co) (s : cstate) : co :=
  {| c_st := s; c_body := c_body c; c_started := c_started c; c_dead := c_dead c |}.

(** [change_state] + the specific callback: on_state_changed to every listener, then the
    specific callback to every listener *)
Definition specific (new : cstate) : cb :=
  match new with
  | Ready => CbReady | Running => CbRunning | Suspend _ _ => CbSuspend | Syscall _ _ _ => CbSyscall
  | Cancelled => CbCancel | Complete r => CbComplete r | Error m => CbError m
  end.

Definition change_events (nl : nat) (i : nat) (old new : cstate) : list ev :=
  map (fun l => EL l i (CbChanged new) old) (seq 0 nl)
  ++ map (fun l => EL l i (specific new) old) (seq 0 nl).

Definition sysst_eqb (a b : sysst) : bool :=
  match a, b with
  | SExecuting, SExecuting => true | SSuspend x, SSuspend y => x =? y
  | SCallback, SCallback => true | STimeout, STimeout => true | _, _ => false
  end.
Definition msg_eqb (a b : msg) : bool :=
  match a, b with MStr x, MStr y => x =? y | MNoMsg, MNoMsg => true | MUnreachable, MUnreachable => true | _, _ => false end.
Definition cstate_eqb (a b : cstate) : bool :=
  match a, b with
  | Ready, Ready => true | Running, Running => true
  | Suspend y t, Suspend y' t' => (y =? y') && (t =? t')
  | Syscall y n s, Syscall y' n' s' => (y =? y') && (n =? n') && sysst_eqb s s'
  | Cancelled, Cancelled => true
  | Complete r, Complete r' => r =? r'
  | Error m, Error m' => msg_eqb m m'
  | _, _ => false
  end.

(** guarded transitions of state.rs; [None] = [Err], nothing changes *)
Definition tr_running (now : Z) (s : cstate) : option (option cstate) :=
  (* Some None = Ok without change; Some (Some s') = change to s' *)
  match s with
  | Running => Some None
  | Ready => Some (Some Running)
  | Syscall _ _ SExecuting => Some (Some Running)
  | Suspend _ ts => if ts <=? now then Some (Some Running) else None
  | Syscall _ _ SCallback => Some None
  | Syscall _ _ STimeout => Some None
  | _ => None
  end.

Definition tr_ready (now : Z) (s : cstate) : option (option cstate) :=
  match s with
  | Ready => Some None
  | Suspend _ ts => if ts <=? now then Some (Some Ready) else None
  | _ => None
  end.

Definition tr_syscall (s : cstate) (y name : Z) (st : sysst) : option cstate :=
  match s with
  | Running => Some (Syscall y name st)
  | Syscall _ orig _ => if orig =? name then Some (Syscall y name st) else None
  | _ => None
  end.

Definition tr_from_running (s : cstate) (new : cstate) : option cstate :=
  match s with Running => Some new | _ => None end.

(** apply an optional change to coroutine [i]; returns the events *)
Definition apply_change (t : thr) (i : nat) (c : co) (new : cstate) : thr * list ev :=
  (upd_co t i (with_st c new), change_events (t_nl t) i (c_st c) new).

(** how a body run ends *)
Inductive outcome := OYield (y : Z) | OReturn (v : Z) | OPanic (k : pkind).

Definition timeout_of (now d : Z) : Z := get_timeout_time now d.

(** run the body of coroutine [i] from its current instruction to the next yield / end.
    Structural on the remaining body. *)
Fixpoint exec (body : list instr) (t : thr) (i : nat) (c : co) (acc : list ev)
  : thr * co * list ev * outcome :=
  match body with
  | [] => (t, {| c_st := c_st c; c_body := []; c_started := true; c_dead := true |},
           acc ++ [EB i (BRet 0)], OReturn 0)
  | ins :: rest =>
      let c1 := {| c_st := c_st c; c_body := rest; c_started := true; c_dead := c_dead c |} in
      match ins with
      | ISuspend y => (t, c1, acc ++ [EB i (BYield y RNone)], OYield y)
      | IDelay y d =>
          (upd_req t (timeout_of (t_clock t) d :: t_ts t) (t_cn t), c1, acc ++ [EB i (BYield y (RDelay d))], OYield y)
      | IUntil y ts =>
          (upd_req t (ts :: t_ts t) (t_cn t), c1, acc ++ [EB i (BYield y (RUntil ts))], OYield y)
      | ICancel =>
          (* cancel() never returns: if the coroutine is resumed after all, it hits unreachable!() *)
          (upd_req t (t_ts t) (true :: t_cn t),
           {| c_st := c_st c; c_body := [IUnreachable]; c_started := true; c_dead := c_dead c |},
           acc ++ [EB i (BYield 0 RCancel)], OYield 0)
      | ISyscall y name st =>
          match tr_syscall (c_st c1) y name st with
          | Some new =>
              exec rest t i (with_st c1 new)
                   (acc ++ change_events (t_nl t) i (c_st c1) new ++ [EB i (BRes true)])
          | None => exec rest t i c1 (acc ++ [EB i (BRes false)])
          end
      | IRunning =>
          match tr_running (t_clock t) (c_st c1) with
          | Some (Some new) =>
              exec rest t i (with_st c1 new)
                   (acc ++ change_events (t_nl t) i (c_st c1) new ++ [EB i (BRes true)])
          | Some None => exec rest t i c1 (acc ++ [EB i (BRes true)])
          | None => exec rest t i c1 (acc ++ [EB i (BRes false)])
          end
      | ITick d => exec rest (upd_clock t (sat_add64 (t_clock t) d)) i c1 (acc ++ [EB i (BTick d)])
      | ILog k => exec rest t i c1 (acc ++ [EB i (BLog k)])
      | IReturn v =>
          (t, {| c_st := c_st c; c_body := rest; c_started := true; c_dead := true |},
           acc ++ [EB i (BRet v)], OReturn v)
      | IPanic k =>
          (t, {| c_st := c_st c; c_body := rest; c_started := true; c_dead := true |},
           acc ++ [EB i (BPanic k)], OPanic k)
      | IUnreachable =>
          (t, {| c_st := c_st c; c_body := rest; c_started := true; c_dead := true |}, acc, OPanic PUnreachable)
      end
  end.

(** [catch!]: the message carried by a panic payload *)
Definition panic_msg (k : pkind) : msg :=
  match k with
  | PStatic m => MStr m
  | POwned m => MStr m      (* String payloads are carried too (formatted panics) *)
  | POther => MNoMsg
  | PUnreachable => MUnreachable
  end.

Inductive res :=
| ROk (s : cstate)      (* Ok(state) *)
| RUnit                 (* Ok(()) *)
| RErr                  (* Err(_) *)
| RUnwound              (* the call unwound into the caller *)
| RBad.                 (* malformed op (unknown coroutine) *)

Definition pop_front {A} (d : A) (l : list A) : A * list A :=
  match l with [] => (d, []) | x :: r => (x, r) end.

(** [resume_with] *)
Definition resume (t : thr) (i : nat) (arg : Z) : thr * res * list ev :=
  match nth_error (t_cos t) i with
  | None => (t, RBad, [])
  | Some c =>
      match c_st c with
      | Complete r => (t, ROk (Complete r), [])
      | Error m => (t, ROk (Error m), [])
      | _ =>
          match tr_running (t_clock t) (c_st c) with
          | None => (t, RErr, [])
          | Some chg =>
              let '(t1, c1, ev1) :=
                match chg with
                | Some new => let '(t', e) := apply_change t i c new in (t', with_st c new, e)
                | None => (t, c, [])
                end in
              if c_dead c1 then (t1, RUnwound, ev1)   (* resuming a finished inner coroutine panics *)
              else
                let first := match c_body c1 with
                             | IUnreachable :: _ => []
                             | _ => [if c_started c1 then EB i (BGot arg) else EB i (BStart arg)]
                             end in
                let '(t2, c2, ev2, out) := exec (c_body c1) t1 i c1 (ev1 ++ first) in
                let t2 := upd_co t2 i c2 in
                match out with
                | OYield y =>
                    match c_st c2 with
                    | Running =>
                        let '(cancel, cn') := pop_front false (t_cn t2) in
                        if cancel then
                          let t3 := upd_req t2 (t_ts t2) cn' in
                          let '(t4, e) := apply_change t3 i c2 Cancelled in
                          (t4, ROk Cancelled, ev2 ++ e)
                        else
                          let '(ts, ts') := pop_front 0 (t_ts t2) in
                          let t3 := upd_req t2 ts' cn' in
                          let '(t4, e) := apply_change t3 i c2 (Suspend y ts) in
                          (t4, ROk (Suspend y ts), ev2 ++ e)
                    | Syscall y' n s =>
                        (* requests made by this yield are consumed here as well *)
                        let '(_, cn') := pop_front false (t_cn t2) in
                        let '(_, ts') := pop_front 0 (t_ts t2) in
                        (upd_req t2 ts' cn', ROk (Syscall y' n s), ev2)
                    | _ => (t2, RErr, ev2)
                    end
                | OReturn v =>
                    match tr_from_running (c_st c2) (Complete v) with
                    | Some new => let '(t3, e) := apply_change t2 i c2 new in (t3, ROk new, ev2 ++ e)
                    | None => (t2, RErr, ev2)
                    end
                | OPanic k =>
                    match tr_from_running (c_st c2) (Error (panic_msg k)) with
                    | Some new => let '(t3, e) := apply_change t2 i c2 new in (t3, ROk new, ev2 ++ e)
                    | None => (t2, RErr, ev2)
                    end
                end
          end
      end
  end.

Inductive dop :=
| Resume (i : nat) (arg : Z)
| ExtRunning (i : nat)
| ExtSyscall (i : nat) (y name : Z) (s : sysst)
| SetClock (c : Z)
| GetState (i : nat).

Definition dstep (t : thr) (o : dop) : thr * res * list ev :=
  match o with
  | Resume i arg => resume t i arg
  | ExtRunning i =>
      match nth_error (t_cos t) i with
      | None => (t, RBad, [])
      | Some c =>
          match tr_running (t_clock t) (c_st c) with
          | Some (Some new) => let '(t', e) := apply_change t i c new in (t', RUnit, e)
          | Some None => (t, RUnit, [])
          | None => (t, RErr, [])
          end
      end
  | ExtSyscall i y name s =>
      match nth_error (t_cos t) i with
      | None => (t, RBad, [])
      | Some c =>
          match tr_syscall (c_st c) y name s with
          | Some new => let '(t', e) := apply_change t i c new in (t', RUnit, e)
          | None => (t, RErr, [])
          end
      end
  | SetClock c => (upd_clock t c, RUnit, [])
  | GetState i =>
      match nth_error (t_cos t) i with
      | None => (t, RBad, [])
      | Some c => (t, ROk (c_st c), [])
      end
  end.

Fixpoint drun (t : thr) (ops : list dop) : list (res * list ev) :=
  match ops with
  | [] => []
  | o :: ops' => let '(t', r, e) := dstep t o in (r, e) :: drun t' ops'
  end.
