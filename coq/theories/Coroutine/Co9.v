(** C09 without any premise on the bodies. The C09 flag is only ever touched by the check at the
    end of a [Resume]; the events never touch it, and what the tracker knows about the state of
    a coroutine does not depend on the other two flags. So a weaker invariant ([Inv9]: clocks,
    empty request deques, tracked states) suffices, and it survives bodies that contain the
    internal [IUnreachable] instruction. *)
From OCV Require Import Base.Prelude Misc.Time Coroutine.Co Coroutine.CoOracle Coroutine.CoLemmas
  Coroutine.CoFocus Coroutine.CoExec Coroutine.CoPost Coroutine.CoSim Coroutine.CoStep Coroutine.CoResume.
From Coq Require Import ZifyBool ZifyNat.
Open Scope Z_scope.

(** * the events do not look at the flags, and never touch C09 *)
Lemma ev_loc_kc (l : nat) (who : option nat) (i : nat) (f g : foc) (e : ev) :
  f_clock f = f_clock g -> f_k f = f_k g ->
  f_clock (ev_loc l who i f e) = f_clock (ev_loc l who i g e)
  /\ f_k (ev_loc l who i f e) = f_k (ev_loc l who i g e).
Proof.
  intros Hc Hk. destruct e as [l' i' c old | i' b]; cbn [ev_loc]; rewrite <- Hc, <- Hk.
  - destruct (negb (l =? l')%nat); [auto|]. destruct (k_mal (f_k f)); [auto|].
    destruct c; cbn [f_clock f_k]; auto.
  - destruct (k_mal (f_k f)); cbn [f_clock f_k]; auto.
Qed.

Lemma F_kc (l : nat) (who : option nat) (i : nat) (evs : list ev) : forall f g,
  f_clock f = f_clock g -> f_k f = f_k g ->
  f_clock (fold_left (ev_loc l who i) evs f) = f_clock (fold_left (ev_loc l who i) evs g)
  /\ f_k (fold_left (ev_loc l who i) evs f) = f_k (fold_left (ev_loc l who i) evs g).
Proof.
  induction evs as [|e evs IH]; intros f g Hc Hk; [auto|].
  cbn [fold_left]. destruct (ev_loc_kc l who i f g e Hc Hk) as (Hc' & Hk'). apply IH; assumption.
Qed.

Lemma ev_loc_09 (l : nat) (who : option nat) (i : nat) (f : foc) (e : ev) :
  f_09 (ev_loc l who i f e) = f_09 f.
Proof.
  destruct e as [l' i' c old | i' b]; cbn [ev_loc].
  - destruct (negb (l =? l')%nat); [auto|]. destruct (k_mal (f_k f)); [auto|]. destruct c; reflexivity.
  - destruct (k_mal (f_k f)); reflexivity.
Qed.

Lemma F_09 (l : nat) (who : option nat) (i : nat) (evs : list ev) : forall f,
  f_09 (fold_left (ev_loc l who i) evs f) = f_09 f.
Proof.
  induction evs as [|e evs IH]; intro f; [reflexivity|]. cbn [fold_left]. rewrite IH. apply ev_loc_09.
Qed.

(** * the C09 part of the closing check *)
Lemma resume_tail_09_indep (r : res) (rf : bool) (t t' : foc) :
  f_k t = f_k t' -> f_09 t = f_09 t' -> f_09 (resume_tail r rf t) = f_09 (resume_tail r rf t').
Proof.
  intros Hk H9. unfold resume_tail. rewrite Hk. cbv zeta.
  destruct (k_mal (f_k t')); [exact H9|].
  destruct (k_last (f_k t')) as [[]|]; cbn [ffail07 ffail08 ffail09 f_09]; try exact H9.
  - destruct (k_st (f_k t')); cbn [ffail07 ffail08 ffail09 f_09 f_k]; rewrite ?Hk, ?H9; reflexivity.
Qed.

Lemma resume_tail_09_flags (r : res) (rf : bool) (K : ctrk) :
  (forall t, f_k t = K -> flags t -> flags (resume_tail r rf t)) ->
  forall t, f_k t = K -> f_09 t = true -> f_09 (resume_tail r rf t) = true.
Proof.
  intros H t Hk H9.
  set (t' := {| f_clock := f_clock t; f_k := f_k t; f_07 := true; f_08 := true; f_09 := true |}).
  rewrite (resume_tail_09_indep r rf t t') by (cbn [t' f_k f_09]; auto).
  apply (H t'); [exact Hk | repeat split].
Qed.

(** the check only fires after a yield that led to Cancelled or Suspend *)
Lemma resume_tail_09_other (r : res) (rf : bool) (t : foc) :
  (k_mal (f_k t) = false ->
   match k_last (f_k t) with
   | Some (BYield _ _) => match k_st (f_k t) with Cancelled | Suspend _ _ => False | _ => True end
   | _ => True
   end) ->
  f_09 (resume_tail r rf t) = f_09 t.
Proof.
  intro H. unfold resume_tail. cbv zeta. destruct (k_mal (f_k t)); [reflexivity|].
  specialize (H eq_refl).
  destruct (k_last (f_k t)) as [[]|]; try reflexivity.
  destruct (k_st (f_k t)); try reflexivity; contradiction.
Qed.

Lemma opost_f_09_other (o : dop) (r : res) (evs : list ev) (k0 : ctrk) (clk0 : Z) (pend : bool) (t : foc) :
  (forall i arg, o <> Resume i arg) -> f_09 (opost_f o r evs k0 clk0 pend t) = f_09 t.
Proof.
  intro Hn. unfold opost_f. cbv zeta. destruct (res_eqb r RBad); [reflexivity|].
  destruct o; try (exfalso; eapply Hn; reflexivity);
    cbn [ffail07 f_k]; try destruct (k_mal (f_k t)); reflexivity.
Qed.

Lemma opost_f_09_resume (i : nat) (arg : Z) (r : res) (evs : list ev) (k0 : ctrk) (clk0 : Z) (pend : bool) (t : foc) :
  f_09 t = true ->
  (res_eqb r RBad = false -> k_mal k0 = false -> is_terminal (k_st k0) = false ->
   forall rf, f_09 (resume_tail r rf t) = true) ->
  f_09 (opost_f (Resume i arg) r evs k0 clk0 pend t) = true.
Proof.
  intros H9 H. unfold opost_f. cbv zeta. cbn [op_idx].
  destruct (res_eqb r RBad); [exact H9|]. destruct (k_mal k0); [exact H9|].
  destruct (is_terminal (k_st k0)); [exact H9|].
  rewrite (resume_tail_09_indep r _ _ t) by reflexivity. apply H; reflexivity.
Qed.

(** * the weaker invariant *)
Definition cos_rel9 (cos : list co) (ks : list ctrk) : Prop :=
  length ks = length cos /\ forall j c, nth_error cos j = Some c -> trk9 c (nth j ks ctrk0).

Record Inv9 (l : nat) (T : thr) (ot : otrk) : Prop := mkInv9 {
  inv9_clock : o_clock ot = t_clock T;
  inv9_ts : t_ts T = [];
  inv9_cn : t_cn T = [];
  inv9_l : (l < t_nl T)%nat;
  inv9_09 : o_c09 ot = true;
  inv9_cos : cos_rel9 (t_cos T) (o_cos ot)
}.

Lemma trk9_clear (c : co) (k : ctrk) : trk9 c k -> trk9 c (clear_op k).
Proof. unfold trk9. cbn [clear_op k_mal k_st k_pending]. auto. Qed.

Lemma inv9_trk (l : nat) (T : thr) (ot : otrk) (i : nat) (c : co) :
  Inv9 l T ot -> nth_error (t_cos T) i = Some c -> trk9 c (clear_op (get_k ot i)).
Proof.
  intros HI Hc. apply trk9_clear. destruct (inv9_cos _ _ _ HI) as (_ & Hk). apply Hk. exact Hc.
Qed.

Lemma on_event_09 (l : nat) (who : option nat) (t : otrk) (e : ev) : o_c09 (on_event l who t e) = o_c09 t.
Proof.
  destruct e as [l' i' c old | i' b]; cbn [on_event].
  - destruct (negb (l =? l')%nat); [auto|]. destruct (k_mal (get_k t i')); [auto|]. destruct c; reflexivity.
  - destruct (k_mal (get_k t i')); destruct b; reflexivity.
Qed.

Lemma fold_on_event_09 (l : nat) (who : option nat) (evs : list ev) : forall t,
  o_c09 (fold_left (on_event l who) evs t) = o_c09 t.
Proof.
  induction evs as [|e evs IH]; intro t; [reflexivity|]. cbn [fold_left]. rewrite IH. apply on_event_09.
Qed.

Lemma step_build9 (l : nat) (T T' : thr) (ot : otrk) (o : dop) (r : res) (evs : list ev) (cnew : co) :
  Inv9 l T ot ->
  (forall x, o <> SetClock x) ->
  Forall (fun e => ev_idx e = op_idx o) evs ->
  cos_upd (t_cos T) (op_idx o) cnew (t_cos T') ->
  t_nl T' = t_nl T -> t_ts T' = [] -> t_cn T' = [] ->
  let k0 := clear_op (get_k ot (op_idx o)) in
  let gF := fold_left (ev_loc l (op_who o) (op_idx o)) evs (foc0 T k0) in
  t_clock T' = f_clock gF ->
  trk9 cnew (f_k gF) ->
  (forall t clk0 pend, f_k t = f_k gF -> f_09 t = true -> f_09 (opost_f o r evs k0 clk0 pend t) = true) ->
  Inv9 l T' (ostep1 l ot o r evs).
Proof.
  intros HI Hns Hall Hupd Hnl Hts Hcn k0 gF Hclk Htrk H9.
  set (i := op_idx o) in *.
  pose proof (cos_upd_lt _ _ _ _ Hupd) as Hi.
  destruct Hupd as (Hlen & Hsame & Hother).
  pose proof (inv9_cos _ _ _ HI) as (Hlen0 & Hk0).
  rewrite ostep1_eq.
  set (tf := fold_left (on_event l (op_who o)) evs (cleared ot o)).
  assert (Hic : (i < length (o_cos (cleared ot o)))%nat).
  { unfold cleared. cbn [o_cos]. rewrite map_length. lia. }
  destruct (fold_focus l (op_who o) i evs (cleared ot o) Hic Hall) as (Hf & Hl & Ho).
  fold tf in Hf, Hl, Ho.
  set (f0 := focus (cleared ot o) i) in *.
  assert (Hf0c : f_clock f0 = f_clock (foc0 T k0)).
  { cbn [f0 focus f_clock cleared o_clock foc0]. rewrite <- (inv9_clock _ _ _ HI).
    destruct o; try reflexivity. exfalso. eapply Hns. reflexivity. }
  assert (Hf0k : f_k f0 = f_k (foc0 T k0)).
  { cbn [f0 focus f_k foc0]. unfold get_k, cleared. cbn [o_cos]. apply nth_map_clear. }
  destruct (F_kc l (op_who o) i evs f0 (foc0 T k0) Hf0c Hf0k) as (HFc & HFk). fold gF in HFc, HFk.
  destruct (opost_cos o r evs (cleared ot o) tf) as (Ecos & Eclk).
  pose proof (opost_focus o r evs (cleared ot o) tf) as Hpost. fold i in Hpost.
  rewrite Hf in Hpost.
  change (get_k (cleared ot o) i) with (f_k f0) in Hpost. rewrite Hf0k in Hpost. cbn [foc0 f_k] in Hpost.
  constructor.
  - rewrite Eclk. change (o_clock tf) with (f_clock (focus tf i)). rewrite Hf, HFc. symmetry. exact Hclk.
  - exact Hts.
  - exact Hcn.
  - rewrite Hnl. apply (inv9_l _ _ _ HI).
  - change (o_c09 (opost o r evs (cleared ot o) tf)) with (f_09 (focus (opost o r evs (cleared ot o) tf) i)).
    rewrite Hpost. apply H9; [exact HFk|]. rewrite F_09. cbn [f0 focus f_09 cleared o_c09].
    apply (inv9_09 _ _ _ HI).
  - rewrite Ecos. split.
    + rewrite Hl. unfold cleared. cbn [o_cos]. rewrite map_length. lia.
    + intros j c Hj. destruct (Nat.eq_dec j i) as [->|Hne].
      * rewrite Hsame in Hj. injection Hj as <-.
        change (nth i (o_cos tf) ctrk0) with (f_k (focus tf i)). rewrite Hf, HFk. exact Htrk.
      * change (nth j (o_cos tf) ctrk0) with (get_k tf j). rewrite Ho by exact Hne.
        unfold get_k, cleared. cbn [o_cos]. rewrite nth_map_clear. apply trk9_clear.
        apply Hk0. rewrite <- Hother by exact Hne. exact Hj.
Qed.

Lemma opost_09_noidx (o : dop) (r : res) (tf : otrk) (before : otrk) :
  (r = RBad \/ exists c, o = SetClock c) -> o_c09 (opost o r [] before tf) = o_c09 tf.
Proof.
  intros [-> | (c & ->)]; unfold opost; [reflexivity|]. destruct (res_eqb r RBad); reflexivity.
Qed.

Lemma step_noidx9 (l : nat) (T T' : thr) (ot : otrk) (o : dop) (r : res) :
  Inv9 l T ot ->
  t_cos T' = t_cos T -> t_nl T' = t_nl T -> t_ts T' = t_ts T -> t_cn T' = t_cn T ->
  t_clock T' = match o with SetClock c => c | _ => t_clock T end ->
  (r = RBad \/ exists c, o = SetClock c) ->
  Inv9 l T' (ostep1 l ot o r []).
Proof.
  intros HI Hcos Hnl Hts Hcn Hclk Hr.
  pose proof HI as [Ic Its Icn Il I9 (Ilen & Irel)].
  rewrite ostep1_eq. cbn [fold_left].
  destruct (opost_cos o r [] (cleared ot o) (cleared ot o)) as (Ecos & Eclk).
  constructor; try congruence.
  - rewrite Eclk. unfold cleared. cbn [o_clock]. rewrite Hclk, Ic. reflexivity.
  - rewrite opost_09_noidx by exact Hr. exact I9.
  - rewrite Ecos, Hcos. unfold cleared. cbn [o_cos]. split; [rewrite map_length; exact Ilen|].
    intros j c Hj. rewrite nth_map_clear. apply trk9_clear. apply Irel. exact Hj.
Qed.

(** an op on a known coroutine that emits nothing *)
Lemma step_quiet9 (l : nat) (T : thr) (ot : otrk) (o : dop) (r : res) (c : co) :
  Inv9 l T ot ->
  (forall x, o <> SetClock x) ->
  nth_error (t_cos T) (op_idx o) = Some c ->
  (forall t clk0 pend, f_k t = clear_op (get_k ot (op_idx o)) -> f_09 t = true ->
     f_09 (opost_f o r [] (clear_op (get_k ot (op_idx o))) clk0 pend t) = true) ->
  Inv9 l T (ostep1 l ot o r []).
Proof.
  intros HI Hns Hc H9.
  eapply step_build9 with (cnew := c); try exact HI; try exact Hns; try reflexivity.
  - constructor.
  - apply cos_upd_refl. exact Hc.
  - apply (inv9_ts _ _ _ HI).
  - apply (inv9_cn _ _ _ HI).
  - cbn [fold_left foc0 f_k]. eapply inv9_trk; eassumption.
  - cbn [fold_left foc0 f_k]. exact H9.
Qed.

Lemma step_ext_change9 (l : nat) (T : thr) (ot : otrk) (o : dop) (c : co) (new : cstate) :
  Inv9 l T ot ->
  (o = ExtRunning (op_idx o) \/ exists y n s, o = ExtSyscall (op_idx o) y n s) ->
  nth_error (t_cos T) (op_idx o) = Some c ->
  is_terminal (c_st c) = false -> edge_ok (t_clock T) (c_st c) new = true ->
  Inv9 l (upd_co T (op_idx o) (with_st c new))
       (ostep1 l ot o RUnit (change_events (t_nl T) (op_idx o) (c_st c) new)).
Proof.
  intros HI Ho Hc Hterm Hedge. set (i := op_idx o) in *.
  assert (Hns : forall x, o <> SetClock x).
  { intros x E. destruct Ho as [Ho | (y & n & s & Ho)]; rewrite Ho in E; discriminate. }
  assert (Hnr : forall j arg, o <> Resume j arg).
  { intros j arg E. destruct Ho as [Ho | (y & n & s & Ho)]; rewrite Ho in E; discriminate. }
  assert (Hwho : op_who o = None).
  { destruct Ho as [Ho | (y & n & s & Ho)]; rewrite Ho; reflexivity. }
  pose proof (inv9_trk _ _ _ _ _ HI Hc) as Hk.
  set (k0 := clear_op (get_k ot i)) in *.
  pose proof (pre_foc0 T c k0 Hk) as Hpre.
  (* [pre_change] is stated for the resumed coroutine ([who = Some i]); the change events do not
     look at [who] *)
  assert (HF : fold_left (ev_loc l (op_who o) i) (change_events (t_nl T) i (c_st c) new) (foc0 T k0)
               = fold_left (ev_loc l (Some i) i) (change_events (t_nl T) i (c_st c) new) (foc0 T k0)).
  { rewrite Hwho. destruct (k_mal k0) eqn:Hm.
    - rewrite !F_change_mal by exact Hm. reflexivity.
    - destruct (Hk Hm) as (Hst & Hp).
      rewrite !F_change_good; try assumption; try reflexivity; apply (inv9_l _ _ _ HI). }
  destruct (pre_change l i _ _ new _ (t_nl T) Hpre (inv9_l _ _ _ HI) Hterm Hedge) as (Q1 & _).
  destruct Q1 as (Qc & _ & Qk).
  eapply step_build9 with (cnew := with_st c new); try exact HI; try exact Hns.
  - apply change_events_idx.
  - cbn [upd_co t_cos]. apply cos_upd_set. eapply nth_error_Some_lt. exact Hc.
  - reflexivity.
  - apply (inv9_ts _ _ _ HI).
  - apply (inv9_cn _ _ _ HI).
  - fold i k0. rewrite HF, Qc. reflexivity.
  - fold i k0. rewrite HF. exact Qk.
  - intros t clk0 pend _ H9. rewrite opost_f_09_other by exact Hnr. exact H9.
Qed.

Lemma step_ExtRunning9 (l : nat) (T T' : thr) (ot : otrk) (i : nat) (r : res) (evs : list ev) :
  Inv9 l T ot -> dstep T (ExtRunning i) = (T', r, evs) ->
  Inv9 l T' (ostep1 l ot (ExtRunning i) r evs).
Proof.
  intros HI Hd. cbn [dstep] in Hd.
  destruct (nth_error (t_cos T) i) as [c|] eqn:Hc.
  2:{ injection Hd as <- <- <-. apply step_noidx9 with (T := T); auto. }
  destruct (tr_running (t_clock T) (c_st c)) as [[new|]|] eqn:Etr.
  - cbn [apply_change] in Hd. injection Hd as <- <- <-.
    destruct (tr_running_edge _ _ _ Etr) as (_ & Hedge & Hterm).
    apply (step_ext_change9 l T ot (ExtRunning i) c new HI); auto.
  - injection Hd as <- <- <-.
    eapply step_quiet9; try exact HI; try (intros x; discriminate); [exact Hc|].
    intros t clk0 pend _ H9. rewrite opost_f_09_other by (intros; discriminate). exact H9.
  - injection Hd as <- <- <-.
    eapply step_quiet9; try exact HI; try (intros x; discriminate); [exact Hc|].
    intros t clk0 pend _ H9. rewrite opost_f_09_other by (intros; discriminate). exact H9.
Qed.

Lemma step_ExtSyscall9 (l : nat) (T T' : thr) (ot : otrk) (i : nat) (y n : Z) (s : sysst) (r : res) (evs : list ev) :
  Inv9 l T ot -> dstep T (ExtSyscall i y n s) = (T', r, evs) ->
  Inv9 l T' (ostep1 l ot (ExtSyscall i y n s) r evs).
Proof.
  intros HI Hd. cbn [dstep] in Hd.
  destruct (nth_error (t_cos T) i) as [c|] eqn:Hc.
  2:{ injection Hd as <- <- <-. apply step_noidx9 with (T := T); auto. }
  destruct (tr_syscall (c_st c) y n s) as [new|] eqn:Etr.
  - cbn [apply_change] in Hd. injection Hd as <- <- <-.
    destruct (tr_syscall_edge (t_clock T) _ _ _ _ _ Etr) as (_ & Hedge & Hrun).
    apply (step_ext_change9 l T ot (ExtSyscall i y n s) c new HI); auto.
    + right. exists y, n, s. reflexivity.
    + apply run_st_not_terminal. exact Hrun.
  - injection Hd as <- <- <-.
    eapply step_quiet9; try exact HI; try (intros x; discriminate); [exact Hc|].
    intros t clk0 pend _ H9. rewrite opost_f_09_other by (intros; discriminate). exact H9.
Qed.

(** * Resume *)
Section Fin9.
Variables (l : nat) (i : nat).
Notation F := (fold_left (ev_loc l (Some i) i)).

Lemma finish_sim9 (T1 : thr) (c1 : co) (f2 : foc) (T2 : thr) (c2 : co) (evx : list ev) (out : outcome)
      (evs0 : list ev) (T' : thr) (r : res) (evs : list ev) :
  post l i T1 c1 (c_body c1) f2 T2 c2 evx out ->
  t_ts T1 = [] -> t_cn T1 = [] -> (l < t_nl T1)%nat -> (i < length (t_cos T1))%nat ->
  finish (upd_co T2 i c2) i c2 evs0 out = (T', r, evs) ->
  exists efin cfin, evs = evs0 ++ efin /\ Forall (fun e => ev_idx e = i) efin
    /\ cos_upd (t_cos T1) i cfin (t_cos T') /\ t_nl T' = t_nl T1 /\ t_ts T' = [] /\ t_cn T' = []
    /\ t_clock T' = f_clock (F efin (F evx f2))
    /\ trk9 cfin (f_k (F efin (F evx f2)))
    /\ (k_mal (f_k f2) = false -> forall rf t, f_k t = f_k (F efin (F evx f2)) -> f_09 t = true ->
        f_09 (resume_tail r rf t) = true).
Proof.
  intros Hpost Hts Hcn Hl Hi Hfin.
  assert (Hnp : (forall pk, out <> OPanic pk) ->
     exists efin cfin, evs = evs0 ++ efin /\ Forall (fun e => ev_idx e = i) efin
    /\ cos_upd (t_cos T1) i cfin (t_cos T') /\ t_nl T' = t_nl T1 /\ t_ts T' = [] /\ t_cn T' = []
    /\ t_clock T' = f_clock (F efin (F evx f2))
    /\ trk9 cfin (f_k (F efin (F evx f2)))
    /\ (k_mal (f_k f2) = false -> forall rf t, f_k t = f_k (F efin (F evx f2)) -> f_09 t = true ->
        f_09 (resume_tail r rf t) = true)).
  { intro Hno.
    destruct (finish_sim l i T1 c1 f2 T2 c2 evx out evs0 T' r evs Hpost Hts Hcn Hl Hi
                (fun _ => or_intror Hno) Hfin) as (efin & cfin & E & Hok).
    destruct Hok as (N1 & N2 & N3 & N4 & N5 & N6 & N7 & N8 & N8' & N9 & N10).
    exists efin, cfin. repeat (split; [assumption|]).
    intros Hm rf t Ht H9. eapply resume_tail_09_flags; [apply (N10 Hm rf) | exact Ht | exact H9]. }
  destruct out as [y | v | pk]; try (apply Hnp; intros pk; discriminate).
  clear Hnp.
  pose proof (post_pre l i _ _ _ _ _ _ _ Hpost) as Hpre.
  destruct Hpost as (P1 & P2 & P3 & P4 & P5 & P6 & P7 & P8 & Ptrk & req & P9 & P10).
  destruct P9 as (Ets & Ecn & Hdead).
  cbn [finish] in Hfin.
  destruct (tr_from_running (c_st c2) (Error (panic_msg pk))) as [new|] eqn:Etr.
  - destruct (tr_from_running_Some _ _ _ Etr) as (Est & ->).
    cbn [apply_change] in Hfin. injection Hfin as <- <- <-. cbn [t_nl upd_co]. rewrite Est in *.
    assert (Hl2 : (l < t_nl T2)%nat) by (rewrite P4; exact Hl).
    destruct (pre_change l i _ _ (Error (panic_msg pk)) _ (t_nl T2) Hpre Hl2 eq_refl eq_refl)
      as (Q1 & _).
    destruct Q1 as (Qc & _ & Qk).
    eexists _, _. split; [reflexivity|]. split; [apply change_events_idx|].
    split; [cbn [upd_co t_cos]; rewrite P3; apply cos_upd_set2; exact Hi|].
    split; [exact P4|]. split; [cbn [upd_co t_ts]; congruence|]. split; [cbn [upd_co t_cn]; congruence|].
    split; [rewrite Qc; reflexivity|]. split; [exact Qk|].
    intros Hm rf t Ht H9. rewrite resume_tail_09_other; [exact H9|].
    intro Hmt. rewrite Ht in Hmt |- *. destruct (Qk Hmt) as (Hst & _). rewrite Hst.
    destruct (k_last _) as [[]|]; exact I.
  - injection Hfin as <- <- <-.
    exists [], c2. rewrite app_nil_r. cbn [fold_left].
    split; [reflexivity|]. split; [constructor|].
    split; [cbn [upd_co t_cos]; rewrite P3; apply cos_upd_set; exact Hi|].
    split; [exact P4|]. split; [cbn [upd_co t_ts]; congruence|]. split; [cbn [upd_co t_cn]; congruence|].
    split; [rewrite P6; reflexivity|]. split; [exact Ptrk|].
    intros Hm rf t Ht H9. rewrite resume_tail_09_other; [exact H9|].
    intro Hmt. rewrite Ht in Hmt |- *. destruct (Ptrk Hmt) as (Hst & _). rewrite Hst.
    destruct (k_last _) as [[]|]; try exact I.
    destruct (c_st c2); cbn [run_st] in P1; try discriminate; exact I.
Qed.

End Fin9.

Lemma step_Resume9 (l : nat) (T T' : thr) (ot : otrk) (i : nat) (arg : Z) (r : res) (evs : list ev) :
  Inv9 l T ot -> resume T i arg = (T', r, evs) ->
  Inv9 l T' (ostep1 l ot (Resume i arg) r evs).
Proof.
  intros HI Hres.
  destruct (nth_error (t_cos T) i) as [c|] eqn:Hc.
  2:{ unfold resume in Hres. rewrite Hc in Hres. injection Hres as <- <- <-.
      apply step_noidx9 with (T := T); auto. }
  pose proof (inv9_trk _ _ _ _ _ HI Hc) as Hk.
  pose proof (inv9_l _ _ _ HI) as Hl.
  set (k0 := clear_op (get_k ot i)) in *.
  assert (Hlast0 : k_last k0 = None) by reflexivity.
  (* no body event at all: C09 is not consulted *)
  assert (Hquiet : forall r', resume T i arg = (T, r', []) ->
                   Inv9 l T (ostep1 l ot (Resume i arg) r' [])).
  { intros r' _. eapply step_quiet9; try exact HI; try (intros x; discriminate); [exact Hc|].
    cbn [op_idx]. fold k0. intros t clk0 pend Ht H9. apply opost_f_09_resume; [exact H9|].
    intros _ _ _ rf. rewrite resume_tail_09_other; [exact H9|]. intros _. rewrite Ht, Hlast0. exact I. }
  assert (Hdone : (exists x, c_st c = Complete x) \/ (exists m, c_st c = Error m) ->
                  Inv9 l T' (ostep1 l ot (Resume i arg) r evs)).
  { intro Hd. pose proof (resume_done T i arg c Hc Hd) as E. rewrite E in Hres.
    injection Hres as <- <- <-. apply Hquiet. exact E. }
  destruct (tr_running (t_clock T) (c_st c)) as [chg|] eqn:Htr.
  2:{ destruct (c_st c) eqn:Est; try (apply Hdone; eauto; fail).
      all: assert (E : resume T i arg = (T, RErr, []))
        by (apply (resume_refused T i arg c Hc);
            [rewrite Est; exact Htr | rewrite Est; discriminate | rewrite Est; discriminate]).
      all: rewrite E in Hres; injection Hres as <- <- <-; apply Hquiet; exact E. }
  rewrite (resume_unfold T i arg c chg Hc Htr) in Hres. cbv zeta in Hres.
  destruct (enter_sim l i T c k0 chg Hk Hl Htr) as (E1 & E2 & E3 & E4 & E5 & E6 & E7).
  destruct (enter_model i T c chg Hc) as (M1 & M2 & M3 & M4 & M5 & M6 & M7 & M8).
  set (T1 := enter_T T i c chg) in *. set (c1 := enter_c c chg) in *. set (ev1 := enter_ev T i c chg) in *.
  set (f1 := fold_left (ev_loc l (Some i) i) ev1 (foc0 T k0)) in *.
  destruct (c_dead c1) eqn:Hdead.
  - (* the call unwinds; only listener callbacks were seen *)
    injection Hres as <- <- <-.
    eapply step_build9 with (cnew := c1); try exact HI; try (intros x; discriminate);
      cbn [op_idx op_who]; fold k0; fold f1; try assumption.
    + rewrite M3. apply (inv9_ts _ _ _ HI).
    + rewrite M4. apply (inv9_cn _ _ _ HI).
    + destruct E1 as (Ec & _). rewrite Ec. exact M5.
    + exact (proj2 (proj2 E1)).
    + intros t clk0 pend Ht H9. apply opost_f_09_resume; [exact H9|].
      intros _ Hm0 _ rf. rewrite resume_tail_09_other; [exact H9|]. intros _. rewrite Ht.
      destruct (E4 Hm0) as (_ & ->). rewrite Hlast0. exact I.
  - destruct (exec (c_body c1) T1 i c1 []) as [[[T2 c2] evx] out] eqn:Hex.
    destruct (first_sim l i T1 c1 arg f1) as (G1 & G2 & G3 & G4); [rewrite M5; exact E1 | exact E5 |].
    set (f2 := fold_left (ev_loc l (Some i) i) (first_ev i c1 arg) f1) in *.
    assert (Hl1 : (l < t_nl T1)%nat) by (rewrite M2; exact Hl).
    pose proof (exec_loc l i _ _ _ f2 _ _ _ _ Hex E5 Hl1 G1) as Hpost.
    assert (Hi1 : (i < length (t_cos T1))%nat).
    { destruct M1 as (L1 & _). rewrite L1. eapply nth_error_Some_lt. exact Hc. }
    destruct (finish_sim9 l i T1 c1 f2 T2 c2 evx out _ T' r evs Hpost
                (eq_trans M3 (inv9_ts _ _ _ HI)) (eq_trans M4 (inv9_cn _ _ _ HI)) Hl1 Hi1 Hres)
      as (efin & cfin & -> & N1 & N2 & N3 & N4 & N5 & N6 & N8 & N10).
    assert (HF : fold_left (ev_loc l (Some i) i) (((ev1 ++ first_ev i c1 arg) ++ evx) ++ efin) (foc0 T k0)
                 = fold_left (ev_loc l (Some i) i) efin (fold_left (ev_loc l (Some i) i) evx f2)).
    { rewrite !fold_left_app. reflexivity. }
    destruct Hpost as (_ & _ & _ & _ & P5 & _).
    eapply step_build9 with (cnew := cfin); try exact HI; try (intros x; discriminate);
      cbn [op_idx op_who]; fold k0; try assumption.
    + repeat (apply Forall_app; split); assumption.
    + eapply cos_upd_trans; eassumption.
    + congruence.
    + rewrite HF. exact N6.
    + rewrite HF. exact N8.
    + rewrite HF. intros t clk0 pend Ht H9. apply opost_f_09_resume; [exact H9|].
      intros _ Hm0 _ rf. apply N10; [rewrite G2, E2; exact Hm0 | exact Ht | exact H9].
Qed.

Lemma step_inv9 (l : nat) (T T' : thr) (ot : otrk) (o : dop) (r : res) (evs : list ev) :
  Inv9 l T ot -> dstep T o = (T', r, evs) -> Inv9 l T' (ostep1 l ot o r evs).
Proof.
  intros HI Hd. destruct o as [i arg | i | i y n s | x | i].
  - apply step_Resume9 with (T := T); assumption.
  - apply step_ExtRunning9 with (T := T); assumption.
  - apply step_ExtSyscall9 with (T := T); assumption.
  - cbn [dstep] in Hd. injection Hd as <- <- <-.
    apply step_noidx9 with (T := T); try exact HI; try reflexivity. right. exists x. reflexivity.
  - cbn [dstep] in Hd. destruct (nth_error (t_cos T) i) as [c|] eqn:Hc; injection Hd as <- <- <-.
    + eapply step_quiet9; try exact HI; try (intros x; discriminate); [exact Hc|].
      intros t clk0 pend _ H9. rewrite opost_f_09_other by (intros; discriminate). exact H9.
    + apply step_noidx9 with (T := T); auto.
Qed.

Lemma run_inv9 (l : nat) : forall ops T ot,
  Inv9 l T ot -> o_c09 (fst (orun1 l ot ops (drun T ops))) = true.
Proof.
  induction ops as [|o ops IH]; intros T ot HI.
  - cbn [drun orun1 fst]. apply (inv9_09 _ _ _ HI).
  - cbn [drun]. destruct (dstep T o) as [[T' r] e] eqn:Hd. cbn [orun1].
    apply IH with (T := T'). eapply step_inv9; eassumption.
Qed.

Lemma inv9_init (l : nat) (clock : Z) (bodies : list (list instr)) (nl : nat) :
  (l < nl)%nat -> Inv9 l (mk_thr clock bodies nl) (otrk0 clock (length bodies)).
Proof.
  intros Hl. constructor; try reflexivity; cbn [mk_thr t_nl t_cos otrk0 o_cos]; [exact Hl|].
  split; [rewrite repeat_length, map_length; reflexivity|].
  intros j c Hj. rewrite nth_repeat. apply nth_error_In in Hj. apply in_map_iff in Hj as (b & <- & Hb).
  intros _. split; reflexivity.
Qed.
