(** Basic facts used by the simulation proof: [set_nth], reflexivity of the boolean
    equalities, and the edges produced by the guarded transitions. *)
From OCV Require Import Base.Prelude Misc.Time Coroutine.Co Coroutine.CoOracle.
From Coq Require Import ZifyBool ZifyNat.
Open Scope Z_scope.

(** * set_nth *)
Lemma set_nth_length {A} (n : nat) (x : A) (l : list A) : length (set_nth n x l) = length l.
Proof.
  unfold set_nth. revert n. induction l as [|a l IH]; intros [|n]; cbn [firstn skipn app length]; try reflexivity.
  specialize (IH n). cbn [length]. f_equal. exact IH.
Qed.

Lemma set_nth_nil {A} (n : nat) (x : A) : set_nth n x [] = [].
Proof. destruct n; reflexivity. Qed.

Lemma set_nth_cons_S {A} (n : nat) (x a : A) (l : list A) : set_nth (S n) x (a :: l) = a :: set_nth n x l.
Proof. reflexivity. Qed.

Lemma set_nth_cons_0 {A} (x a : A) (l : list A) : set_nth 0 x (a :: l) = x :: l.
Proof. reflexivity. Qed.

Lemma nth_set_nth_same {A} (n : nat) (x d : A) (l : list A) :
  (n < length l)%nat -> nth n (set_nth n x l) d = x.
Proof.
  revert n. induction l as [|a l IH]; intros n Hn; cbn [length] in Hn; [lia|].
  destruct n as [|n]; [reflexivity|]. rewrite set_nth_cons_S. cbn [nth]. apply IH. lia.
Qed.

Lemma nth_set_nth_other {A} (n m : nat) (x d : A) (l : list A) :
  m <> n -> nth m (set_nth n x l) d = nth m l d.
Proof.
  revert n m. induction l as [|a l IH]; intros n m Hne.
  - rewrite set_nth_nil. reflexivity.
  - destruct n as [|n].
    + rewrite set_nth_cons_0. destruct m as [|m]; [congruence|reflexivity].
    + rewrite set_nth_cons_S. destruct m as [|m]; [reflexivity|]. cbn [nth]. apply IH. congruence.
Qed.

Lemma nth_error_set_nth_same {A} (n : nat) (x : A) (l : list A) :
  (n < length l)%nat -> nth_error (set_nth n x l) n = Some x.
Proof.
  revert n. induction l as [|a l IH]; intros n Hn; cbn [length] in Hn; [lia|].
  destruct n as [|n]; [reflexivity|]. rewrite set_nth_cons_S. cbn [nth_error]. apply IH. lia.
Qed.

Lemma nth_error_set_nth_other {A} (n m : nat) (x : A) (l : list A) :
  m <> n -> nth_error (set_nth n x l) m = nth_error l m.
Proof.
  revert n m. induction l as [|a l IH]; intros n m Hne.
  - rewrite set_nth_nil. reflexivity.
  - destruct n as [|n].
    + rewrite set_nth_cons_0. destruct m as [|m]; [congruence|reflexivity].
    + rewrite set_nth_cons_S. destruct m as [|m]; [reflexivity|]. cbn [nth_error]. apply IH. congruence.
Qed.

Lemma nth_error_Some_lt {A} (l : list A) (n : nat) (x : A) : nth_error l n = Some x -> (n < length l)%nat.
Proof. intro H. apply nth_error_Some. congruence. Qed.

Lemma nth_error_nth' {A} (l : list A) (n : nat) (d : A) :
  (n < length l)%nat -> nth_error l n = Some (nth n l d).
Proof.
  revert n. induction l as [|a l IH]; intros n Hn; cbn [length] in Hn; [lia|].
  destruct n as [|n]; [reflexivity|]. cbn [nth nth_error]. apply IH. lia.
Qed.

(** * boolean equalities are reflexive *)
Lemma sysst_eqb_refl (s : sysst) : sysst_eqb s s = true.
Proof. destruct s; cbn [sysst_eqb]; try reflexivity. apply Z.eqb_refl. Qed.

Lemma msg_eqb_refl (m : msg) : msg_eqb m m = true.
Proof. destruct m; cbn [msg_eqb]; try reflexivity. apply Z.eqb_refl. Qed.

Lemma cstate_eqb_refl (s : cstate) : cstate_eqb s s = true.
Proof.
  destruct s; cbn [cstate_eqb]; rewrite ?Z.eqb_refl, ?sysst_eqb_refl, ?msg_eqb_refl; reflexivity.
Qed.

Lemma res_eqb_refl (r : res) : res_eqb r r = true.
Proof. destruct r; cbn [res_eqb]; try reflexivity. apply cstate_eqb_refl. Qed.

Lemma request_eqb_refl (r : request) : request_eqb r r = true.
Proof. destruct r; cbn [request_eqb]; try reflexivity; apply Z.eqb_refl. Qed.

Lemma cb_matches_specific (s : cstate) : cb_matches (specific s) s = true.
Proof.
  destruct s; cbn [specific cb_matches]; try reflexivity; [apply Z.eqb_refl | apply msg_eqb_refl].
Qed.

Lemma specific_not_changed (s : cstate) : forall n, specific s <> CbChanged n.
Proof. intros n; destruct s; cbn [specific]; discriminate. Qed.

Lemma cstate_eqb_Running (s : cstate) : cstate_eqb s Running = true <-> s = Running.
Proof. destruct s; cbn [cstate_eqb]; split; intro H; try reflexivity; try discriminate. Qed.

(** * the guarded transitions only take edges of the documented graph *)

(** states a body can be in while it is executing *)
Definition run_st (s : cstate) : bool :=
  match s with Running | Syscall _ _ _ => true | _ => false end.

Lemma run_st_not_terminal (s : cstate) : run_st s = true -> is_terminal s = false.
Proof. destruct s; cbn [run_st is_terminal]; congruence. Qed.

Lemma tr_running_edge (now : Z) (s new : cstate) :
  tr_running now s = Some (Some new) -> new = Running /\ edge_ok now s new = true /\ is_terminal s = false.
Proof.
  destruct s as [| |y t|y n st| | |]; cbn [tr_running]; try discriminate.
  - intro H; inversion H; subst. repeat split.
  - destruct (t <=? now) eqn:E; [|discriminate]. intro H; inversion H; subst.
    cbn [edge_ok is_terminal]. repeat split. exact E.
  - destruct st; try discriminate. intro H; inversion H; subst. repeat split.
Qed.

Lemma tr_running_same (now : Z) (s : cstate) :
  tr_running now s = Some None -> run_st s = true.
Proof.
  destruct s as [| |y t|y n st| | |]; cbn [tr_running run_st]; try discriminate; try reflexivity.
  destruct (t <=? now); discriminate.
Qed.

Lemma tr_running_not_cancelled (now : Z) (s : cstate) chg :
  tr_running now s = Some chg -> is_terminal s = false.
Proof.
  destruct s as [| |y t|y n st| | |]; cbn [tr_running is_terminal]; try discriminate; reflexivity.
Qed.

Lemma tr_syscall_edge (now : Z) (s new : cstate) (y name : Z) (st : sysst) :
  tr_syscall s y name st = Some new ->
  new = Syscall y name st /\ edge_ok now s new = true /\ run_st s = true.
Proof.
  destruct s as [| |y0 t|y0 n st0| | |]; cbn [tr_syscall]; try discriminate.
  - intro H; inversion H; subst. repeat split.
  - destruct (n =? name) eqn:E; [|discriminate]. intro H; inversion H; subst.
    cbn [edge_ok run_st]. repeat split. destruct st0; exact E.
Qed.

Lemma tr_from_running_Some (s new x : cstate) : tr_from_running s new = Some x -> s = Running /\ x = new.
Proof. destruct s; cbn [tr_from_running]; try discriminate. intro H; inversion H; auto. Qed.

Lemma tr_from_running_None (s new : cstate) : tr_from_running s new = None -> s <> Running.
Proof. destruct s; cbn [tr_from_running]; try discriminate; intros _; discriminate. Qed.

(** * bodies without the internal instruction *)
Definition is_unr (ins : instr) : bool := match ins with IUnreachable => true | _ => false end.
Definition no_unr (b : list instr) : bool := forallb (fun x => negb (is_unr x)) b.
Definition no_unreachable (bodies : list (list instr)) : bool := forallb no_unr bodies.
