(** Proofs about the bean-factory model (C26). *)
From OCV Require Import Base.Prelude Misc.Beans Misc.BeansOracle.
From Coq Require Import ZifyBool ZifyNat.
Open Scope Z_scope.

(** ** association lists *)
Lemma alookup_aset_same {V} k (v : V) m : alookup k (aset k v m) = Some v.
Proof.
  induction m as [|[k' v'] m IH]; cbn [aset alookup].
  - rewrite Z.eqb_refl. reflexivity.
  - destruct (Z.eqb_spec k' k) as [E|E]; cbn [alookup].
    + rewrite Z.eqb_refl. reflexivity.
    + destruct (Z.eqb_spec k' k); [contradiction | exact IH].
Qed.

Lemma alookup_aset_other {V} k k' (v : V) m : k' <> k -> alookup k' (aset k v m) = alookup k' m.
Proof.
  intros Hne. induction m as [|[k0 v0] m IH]; cbn [aset alookup].
  - destruct (Z.eqb_spec k k'); [congruence | reflexivity].
  - destruct (Z.eqb_spec k0 k) as [E|E]; cbn [alookup].
    + subst k0. destruct (Z.eqb_spec k k'); [congruence | reflexivity].
    + destruct (k0 =? k'); [reflexivity | exact IH].
Qed.

(** ** positions in the thread table *)
Lemma nth_error_upd_same {A} (l : list A) i x y :
  nth_error l i = Some y -> nth_error (upd l i x) i = Some x.
Proof.
  revert i; induction l as [|a l IH]; intros [|i]; cbn [nth_error upd]; try discriminate; [reflexivity|].
  apply IH.
Qed.

Lemma nth_error_upd_other {A} (l : list A) i j x :
  i <> j -> nth_error (upd l i x) j = nth_error l j.
Proof.
  revert i j; induction l as [|a l IH]; intros [|i] [|j] Hne; cbn [nth_error upd]; try reflexivity.
  - contradiction.
  - apply IH. intros ->. apply Hne. reflexivity.
Qed.

Lemma upd_length {A} (l : list A) i x : length (upd l i x) = length l.
Proof. revert i; induction l as [|a l IH]; intros [|i]; cbn [upd length]; try reflexivity. f_equal. apply IH. Qed.

Lemma Forall2_upd {A B} (R : A -> B -> Prop) l1 l2 i y :
  Forall2 R l1 l2 -> (forall a, nth_error l1 i = Some a -> R a y) -> Forall2 R l1 (upd l2 i y).
Proof.
  intros H. revert i. induction H as [|a b l1 l2 Hab H IH]; intros i Hy; cbn [upd]; [constructor|].
  destruct i as [|i].
  - constructor; [apply Hy; reflexivity | exact H].
  - constructor; [exact Hab | apply IH; intros a' Ha'; apply Hy; exact Ha'].
Qed.

Lemma Forall2_nth {A B} (R : A -> B -> Prop) l1 l2 i a b :
  Forall2 R l1 l2 -> nth_error l1 i = Some a -> nth_error l2 i = Some b -> R a b.
Proof.
  intros H. revert i. induction H as [|a0 b0 l1 l2 Hab H IH]; intros [|i]; cbn [nth_error]; try discriminate.
  - intros [= ->] [= ->]. exact Hab.
  - apply IH.
Qed.

Lemma Forall2_nth_l {A B} (R : A -> B -> Prop) l1 l2 i b :
  Forall2 R l1 l2 -> nth_error l2 i = Some b -> exists a, nth_error l1 i = Some a /\ R a b.
Proof.
  intros H. revert i. induction H as [|a0 b0 l1 l2 Hab H IH]; intros [|i]; cbn [nth_error]; try discriminate.
  - intros [= ->]. eauto.
  - apply IH.
Qed.

Lemma Forall2_len {A B} (R : A -> B -> Prop) l1 l2 : Forall2 R l1 l2 -> length l1 = length l2.
Proof. intros H. induction H; cbn [length]; [reflexivity | f_equal; assumption]. Qed.

Lemma Forall2_impl {A B} (R R' : A -> B -> Prop) l1 l2 :
  (forall a b, R a b -> R' a b) -> Forall2 R l1 l2 -> Forall2 R' l1 l2.
Proof. intros HR H. induction H; constructor; auto. Qed.

(** ** the defect flags only ever go up *)
Definition nodef (s : state) : Prop := s_pub2 s = false /\ s_over s = false.

Lemma step_thread_flags p s th :
  nodef (fst (step_thread p s th)) -> nodef s.
Proof.
  unfold step_thread, nodef.
  destruct (th_todo th) as [|c rest]; [auto|].
  destruct (th_pc th) as [| |f|f].
  - destruct (s_inst s); auto.
  - destruct (s_inst s), p; cbn [fst publish s_pub2 s_over]; intros [H1 H2]; auto;
      apply orb_false_iff in H1; tauto.
  - destruct (alookup (call_name c) (map_of s f)); [auto|]. destruct c; auto.
  - destruct (alookup (call_name c) (map_of s f)), p; cbn [fst store_bean s_pub2 s_over]; intros [H1 H2]; auto;
      apply orb_false_iff in H2; tauto.
Qed.

Lemma step_flags p s t : nodef (step p s t) -> nodef s.
Proof.
  unfold step. destruct (nth_error (s_threads s) t) as [th|]; [|auto].
  pose proof (step_thread_flags p s th) as H.
  destruct (step_thread p s th) as [s' th']. cbn [fst] in H. unfold nodef in *. cbn [s_pub2 s_over]. exact H.
Qed.

Lemma run_flags p sched : forall s, nodef (run p s sched) -> nodef s.
Proof.
  induction sched as [|t sched IH]; intros s H; [exact H|].
  cbn [run fold_left] in H. apply (step_flags p s t). apply IH. exact H.
Qed.

(** the repaired protocol never takes a defect branch *)
Lemma step_thread_repaired s th : nodef s -> nodef (fst (step_thread Repaired s th)).
Proof.
  unfold step_thread, nodef. intros [H1 H2].
  destruct (th_todo th) as [|c rest]; [auto|].
  destruct (th_pc th) as [| |f|f].
  - destruct (s_inst s); auto.
  - destruct (s_inst s); cbn [fst publish s_pub2 s_over]; rewrite ?H1, ?H2; auto.
  - destruct (alookup (call_name c) (map_of s f)); [auto|]. destruct c; auto.
  - destruct (alookup (call_name c) (map_of s f)); cbn [fst store_bean s_pub2 s_over]; rewrite ?H1, ?H2; auto.
Qed.

Lemma step_repaired s t : nodef s -> nodef (step Repaired s t).
Proof.
  intros H. unfold step. destruct (nth_error (s_threads s) t) as [th|]; [|exact H].
  pose proof (step_thread_repaired s th H) as H'.
  destruct (step_thread Repaired s th) as [s' th']. cbn [fst] in H'. unfold nodef in *. cbn [s_pub2 s_over]. exact H'.
Qed.

Lemma run_repaired sched : forall s, nodef s -> nodef (run Repaired s sched).
Proof.
  induction sched as [|t sched IH]; intros s H; [exact H|].
  cbn [run fold_left]. apply IH. apply step_repaired. exact H.
Qed.

(** ** the invariant of executions that took no defect branch *)
Definition the_map (s : state) : bmap :=
  match s_inst s with Some f => map_of s f | None => [] end.

Definition res_ok (m : bmap) (c : call) (r : res) : Prop :=
  match c, r with
  | CGetOrDefault x, RAddr a => alookup x m = Some a
  | CGetBean x, RAddr a => alookup x m = Some a
  | CGetBean _, RNone => True
  | CInitBean x, RUnit => alookup x m <> None
  | _, _ => False
  end.

Definition pc_ok (inst : option Z) (th : thread) : Prop :=
  match th_pc th with
  | PGet f => inst = Some f
  | PIns f => inst = Some f /\ exists c rest, th_todo th = c :: rest /\ creates (call_name c) c = true
  | _ => True
  end.

Definition thread_ok (m : bmap) (inst : option Z) (p : list call) (th : thread) : Prop :=
  exists done, p = done ++ th_todo th /\ Forall2 (res_ok m) done (rev (th_done th)) /\ pc_ok inst th.

Definition maps_ok (s : state) : Prop :=
  match s_inst s with None => s_maps s = [] | Some f => exists m, s_maps s = [(f, m)] end.

Definition Inv (progs : list (list call)) (s : state) : Prop :=
  maps_ok s /\ Forall2 (thread_ok (the_map s) (s_inst s)) progs (s_threads s)
  /\ (forall x a, alookup x (the_map s) = Some a -> created progs x = true).

Definition map_le (m m' : bmap) : Prop := forall x a, alookup x m = Some a -> alookup x m' = Some a.

Lemma res_ok_mono m m' c r : map_le m m' -> res_ok m c r -> res_ok m' c r.
Proof.
  intros Hle. destruct c, r; cbn [res_ok]; auto.
  intros Hn. destruct (alookup name m) as [a|] eqn:E; [|contradiction].
  rewrite (Hle _ _ E). discriminate.
Qed.

Lemma thread_ok_mono m m' inst inst' p th :
  map_le m m' -> (forall f, inst = Some f -> inst' = Some f) ->
  thread_ok m inst p th -> thread_ok m' inst' p th.
Proof.
  intros Hle Hinst (done & Hp & Hres & Hpc). exists done. split; [exact Hp|]. split.
  - eapply Forall2_impl; [|exact Hres]. intros a b. apply res_ok_mono. exact Hle.
  - unfold pc_ok in *. destruct (th_pc th); auto. destruct Hpc as [Hi Hc]. auto.
Qed.

Lemma created_in progs t p c :
  nth_error progs t = Some p -> In c p -> creates (call_name c) c = true -> created progs (call_name c) = true.
Proof.
  intros Hn Hin Hc. unfold created. apply existsb_exists. exists p. split; [exact (nth_error_In _ _ Hn)|].
  apply existsb_exists. exists c. auto.
Qed.

Lemma map_of_single f m inst pub2 over next ths :
  map_of {| s_inst := inst; s_maps := [(f, m)]; s_next := next; s_threads := ths; s_pub2 := pub2; s_over := over |} f = m.
Proof. unfold map_of. cbn [s_maps alookup]. rewrite Z.eqb_refl. reflexivity. Qed.

(** the state [step] builds from the shared part [s'] and the new thread table *)
Definition with_threads (s' : state) (ths : list thread) : state :=
  {| s_inst := s_inst s'; s_maps := s_maps s'; s_next := s_next s'; s_threads := ths;
     s_pub2 := s_pub2 s'; s_over := s_over s' |}.

Lemma the_map_with_threads s' ths : the_map (with_threads s' ths) = the_map s'.
Proof. reflexivity. Qed.

(** one thread moves, the shared part grows monotonically *)
Lemma inv_frame progs s s' t p th' :
  Inv progs s -> nth_error progs t = Some p ->
  maps_ok s' -> map_le (the_map s) (the_map s') ->
  (forall f, s_inst s = Some f -> s_inst s' = Some f) ->
  (forall x a, alookup x (the_map s') = Some a -> created progs x = true) ->
  thread_ok (the_map s') (s_inst s') p th' ->
  Inv progs (with_threads s' (upd (s_threads s) t th')).
Proof.
  intros (HM & HT & HC) Hp HM' Hle Hinst HC' Hth. split; [exact HM'|]. split; [|exact HC'].
  cbn [with_threads s_threads]. rewrite the_map_with_threads. cbn [s_inst].
  apply Forall2_upd.
  - eapply Forall2_impl; [|exact HT]. intros a b. apply thread_ok_mono; assumption.
  - intros a Ha. rewrite Hp in Ha. injection Ha as <-. exact Hth.
Qed.

Lemma map_le_refl m : map_le m m.
Proof. intros x a H. exact H. Qed.

Lemma app_cons_assoc {A} (l1 : list A) x l2 : l1 ++ x :: l2 = (l1 ++ [x]) ++ l2.
Proof. rewrite <- app_assoc. reflexivity. Qed.

(** finishing the current call with a result that is right for the map *)
Lemma thread_ok_finish m inst p th c rest r :
  thread_ok m inst p th -> th_todo th = c :: rest -> res_ok m c r ->
  thread_ok m inst p (finish th r).
Proof.
  intros (done & Hp & Hres & _) Htodo Hr. exists (done ++ [c]). unfold finish. cbn [th_todo th_done th_pc].
  rewrite Htodo in *. cbn [tl]. split; [rewrite Hp; apply app_cons_assoc|]. split.
  - cbn [rev]. apply Forall2_app; [exact Hres | constructor; [exact Hr | constructor]].
  - exact I.
Qed.

Lemma thread_ok_goto m inst p th q :
  thread_ok m inst p th -> pc_ok inst (goto th q) -> thread_ok m inst p (goto th q).
Proof. intros (done & Hp & Hres & _) Hq. exists done. auto. Qed.

Lemma step_inv p progs s t :
  Inv progs s -> nodef (step p s t) -> Inv progs (step p s t).
Proof.
  intros HI Hnd. pose proof HI as (HM & HT & HC).
  unfold step in *. destruct (nth_error (s_threads s) t) as [th|] eqn:Hth; [|exact HI].
  destruct (Forall2_nth_l _ _ _ _ _ HT Hth) as (pr & Hp & Hok).
  pose proof Hok as (done & Hpr & Hres & Hpc).
  assert (Hsame : forall th', thread_ok (the_map s) (s_inst s) pr th' ->
            Inv progs (with_threads s (upd (s_threads s) t th'))).
  { intros th' H'. eapply inv_frame; eauto using map_le_refl. }
  unfold step_thread in *.
  destruct (th_todo th) as [|c rest] eqn:Htodo.
  { apply (Hsame th). exact Hok. }
  assert (Hcin : In c pr) by (rewrite Hpr; apply in_or_app; right; left; reflexivity).
  destruct (th_pc th) as [| |f|f] eqn:Epc.
  - (* PLoad *)
    destruct (s_inst s) as [f|] eqn:Ei; apply Hsame; apply thread_ok_goto; auto;
      unfold pc_ok, goto; cbn [th_pc]; auto.
  - (* PPub *)
    destruct (s_inst s) as [f|] eqn:Ei.
    + destruct p.
      * (* racy second publication: a defect branch *)
        exfalso. destruct Hnd as [H1 _]. cbn [s_pub2 publish] in H1. apply orb_false_iff in H1. destruct H1; discriminate.
      * apply Hsame. apply thread_ok_goto; auto. unfold pc_ok, goto; cbn [th_pc]. reflexivity.
    + (* first publication *)
      assert (Hm0 : the_map s = []) by (unfold the_map; rewrite Ei; reflexivity).
      assert (Hmaps : s_maps s = []) by (unfold maps_ok in HM; rewrite Ei in HM; exact HM).
      assert (Hm1 : the_map (publish s false) = []).
      { unfold the_map, publish. cbn [s_inst]. unfold map_of. cbn [s_maps alookup]. rewrite Z.eqb_refl. reflexivity. }
      apply (inv_frame progs s (publish s false) t pr); auto.
      * unfold maps_ok, publish. cbn [s_inst s_maps]. rewrite Hmaps. eauto.
      * rewrite Hm0. intros x a H. discriminate.
      * intros f H. rewrite Ei in H. discriminate.
      * rewrite Hm1. intros x a H. discriminate.
      * rewrite Hm1, <- Hm0. exists done. unfold goto. cbn [th_todo th_done th_pc]. rewrite Htodo.
        split; [exact Hpr|]. split; [exact Hres|]. unfold pc_ok. cbn [th_pc publish s_inst]. reflexivity.
  - (* PGet *)
    unfold pc_ok in Hpc. rewrite Epc in Hpc.
    assert (Hmf : map_of s f = the_map s) by (unfold the_map; rewrite Hpc; reflexivity).
    rewrite Hmf in *.
    destruct (alookup (call_name c) (the_map s)) as [a|] eqn:El.
    + apply Hsame. eapply thread_ok_finish; eauto. destruct c; cbn [found res_ok call_name] in *; auto.
      rewrite El. discriminate.
    + destruct c; apply Hsame.
      * apply thread_ok_goto; auto. unfold pc_ok, goto; cbn [th_pc th_todo]. split; [exact Hpc|].
        exists (CGetOrDefault name), rest. split; [exact Htodo|]. cbn. apply Z.eqb_refl.
      * eapply thread_ok_finish; eauto. exact I.
      * apply thread_ok_goto; auto. unfold pc_ok, goto; cbn [th_pc th_todo]. split; [exact Hpc|].
        exists (CInitBean name), rest. split; [exact Htodo|]. cbn. apply Z.eqb_refl.
  - (* PIns *)
    unfold pc_ok in Hpc. rewrite Epc in Hpc. destruct Hpc as [Hinst (c0 & rest0 & Hc0 & Hcr)].
    rewrite Htodo in Hc0. injection Hc0 as <- <-.
    assert (Hmf : map_of s f = the_map s) by (unfold the_map; rewrite Hinst; reflexivity).
    rewrite Hmf in *.
    destruct (alookup (call_name c) (the_map s)) as [a|] eqn:El.
    + destruct p.
      * exfalso. destruct Hnd as [_ H2]. cbn [s_over store_bean] in H2. apply orb_false_iff in H2. destruct H2; discriminate.
      * apply Hsame. eapply thread_ok_finish; eauto. destruct c; cbn [found res_ok call_name] in *; auto.
        rewrite El. discriminate.
    + (* the bean is created *)
      set (x := call_name c) in *. set (a := s_next s).
      assert (Hmaps : exists m, s_maps s = [(f, m)]) by (unfold maps_ok in HM; rewrite Hinst in HM; exact HM).
      destruct Hmaps as [m0 Hm0].
      assert (Hm0' : the_map s = m0).
      { unfold the_map. rewrite Hinst. unfold map_of. rewrite Hm0. cbn [alookup]. rewrite Z.eqb_refl. reflexivity. }
      assert (Hm1 : the_map (store_bean s f x false) = aset x a (the_map s)).
      { unfold the_map, store_bean. cbn [s_inst]. rewrite Hinst. unfold map_of at 1. cbn [s_maps].
        rewrite Hmf. rewrite Hm0. cbn [aset]. rewrite Z.eqb_refl. cbn [alookup]. rewrite Z.eqb_refl.
        reflexivity. }
      assert (Hle : map_le (the_map s) (aset x a (the_map s))).
      { intros y b Hy. destruct (Z.eq_dec y x) as [->|Hne]; [rewrite El in Hy; discriminate|].
        rewrite alookup_aset_other by exact Hne. exact Hy. }
      assert (Hgoal : Inv progs (with_threads (store_bean s f x false) (upd (s_threads s) t (finish th (found c a))))).
      { apply (inv_frame progs s (store_bean s f x false) t pr); auto.
        - unfold maps_ok, store_bean. cbn [s_inst s_maps]. rewrite Hinst, Hm0. cbn [aset]. rewrite Z.eqb_refl. eauto.
        - rewrite Hm1. exact Hle.
        - rewrite Hm1. intros y b Hy. destruct (Z.eq_dec y x) as [->|Hne].
          + eapply created_in; eauto.
          + rewrite alookup_aset_other in Hy by exact Hne. eapply HC; eauto.
        - rewrite Hm1. cbn [store_bean s_inst].
          eapply thread_ok_finish; [eapply thread_ok_mono; [exact Hle | | exact Hok]; auto | exact Htodo |].
          destruct c; cbn [found res_ok call_name creates] in *; try discriminate;
            fold x; rewrite alookup_aset_same; [reflexivity | discriminate]. }
      destruct p; exact Hgoal.
Qed.

Lemma init_inv progs : Inv progs (init progs).
Proof.
  split; [reflexivity|]. split; [|intros x a H; discriminate].
  unfold init. cbn [s_threads s_inst]. unfold the_map. cbn [s_inst].
  induction progs as [|p progs IH]; cbn [map]; constructor; [|exact IH].
  exists []. cbn. split; [reflexivity|]. split; [constructor | exact I].
Qed.

Lemma init_nodef progs : nodef (init progs).
Proof. split; reflexivity. Qed.

Lemma run_inv p progs sched : forall s,
  Inv progs s -> nodef (run p s sched) -> Inv progs (run p s sched).
Proof.
  induction sched as [|t sched IH]; intros s HI Hnd; [exact HI|].
  cbn [run fold_left] in *. apply IH; [|exact Hnd].
  apply step_inv; [exact HI|]. exact (run_flags p sched _ Hnd).
Qed.

(** ** from the invariant to the oracle *)
Lemma final_of_map (g : Z -> res) x finals :
  memZ x finals = true -> final_of x finals (map g finals) = Some (g x).
Proof.
  induction finals as [|y finals IH]; cbn [memZ final_of map]; [discriminate|].
  destruct (Z.eqb_spec y x) as [->|Hne]; [reflexivity|]. cbn [orb]. exact IH.
Qed.

Lemma lookup_after_the_map s x :
  lookup_after s x = match alookup x (the_map s) with Some a => RAddr a | None => RNone end.
Proof. unfold lookup_after, the_map. destruct (s_inst s); reflexivity. Qed.

Lemma ok_thread_of m fin p rs :
  (forall c, In c p -> forall r, res_ok m c r -> ok_res fin c r = true) ->
  Forall2 (res_ok m) p rs -> ok_thread fin p rs = true.
Proof.
  intros H HF. induction HF as [|c r p rs Hcr HF IH]; [reflexivity|]. cbn [ok_thread].
  rewrite (H c (or_introl eq_refl) r Hcr). cbn [andb]. apply IH. intros c' Hc'. apply H. right. exact Hc'.
Qed.

Lemma inv_ok progs finals s :
  Inv progs s -> quiescent s = true -> wf_C26 progs finals = true ->
  ok_outcome progs finals (outcome_of finals s) = true.
Proof.
  intros (HM & HT & HC) Hq Hwf. unfold ok_outcome, outcome_of. cbn [o_threads o_final].
  set (fin := fun x => final_of x finals (map (lookup_after s) finals)).
  assert (Hfin : forall x, memZ x finals = true -> fin x = Some (lookup_after s x))
    by (intros x Hx; apply final_of_map; exact Hx).
  (* every thread has finished: its results cover its whole program *)
  assert (Hdone : Forall2 (fun p th => Forall2 (res_ok (the_map s)) p (rev (th_done th))) progs (s_threads s)).
  { unfold quiescent in Hq. rewrite forallb_forall in Hq.
    clear HC Hwf. induction HT as [|p th progs' ths Hok HT IH]; constructor.
    - destruct Hok as (done & Hp & Hres & _).
      assert (Hf : finished th = true) by (apply Hq; left; reflexivity).
      unfold finished in Hf. destruct (th_todo th); [|discriminate]. rewrite app_nil_r in Hp. subst p. exact Hres.
    - apply IH. intros x Hx. apply Hq. right. exact Hx. }
  apply andb_true_iff. split.
  - (* every call against the final lookups *)
    unfold wf_C26 in Hwf. rewrite forallb_forall in Hwf.
    assert (Hwf' : forall p, In p progs -> forall c, In c p -> memZ (call_name c) finals = true).
    { intros p Hp c Hc. specialize (Hwf p Hp). rewrite forallb_forall in Hwf. exact (Hwf c Hc). }
    clear Hwf HT HC. revert Hwf'.
    induction Hdone as [|p th progs' ths Hres Hdone IH]; intros Hwf'; [reflexivity|].
    cbn [map ok_threads]. apply andb_true_iff. split.
    + apply (ok_thread_of (the_map s)); [|exact Hres].
      intros c Hc r Hr. pose proof (Hwf' p (or_introl eq_refl) c Hc) as Hmem.
      destruct c as [x|x|x], r as [a| | |]; cbn [res_ok ok_res call_name] in *; try contradiction; auto;
        rewrite (Hfin x Hmem), lookup_after_the_map.
      * rewrite Hr. apply Z.eqb_refl.
      * rewrite Hr. apply Z.eqb_refl.
      * destruct (alookup x (the_map s)); [reflexivity | contradiction].
    + apply IH. intros p' Hp'. apply Hwf'. right. exact Hp'.
  - (* the final lookups themselves *)
    assert (Hcr : forall x, created progs x = true -> alookup x (the_map s) <> None).
    { intros x Hx. unfold created in Hx. apply existsb_exists in Hx as (p & Hp & Hx).
      apply existsb_exists in Hx as (c & Hc & Hx).
      destruct (In_nth_error _ _ Hp) as [t Ht].
      assert (Hth : exists th, nth_error (s_threads s) t = Some th).
      { destruct (nth_error (s_threads s) t) eqn:E; [eauto|]. exfalso.
        apply nth_error_None in E. pose proof (Forall2_len _ _ _ Hdone) as Hl.
        assert (t < length progs)%nat by (apply nth_error_Some; congruence). lia. }
      destruct Hth as [th Hth]. pose proof (Forall2_nth _ _ _ _ _ _ Hdone Ht Hth) as Hres.
      destruct (In_nth_error _ _ Hc) as [i Hi].
      assert (Hr : exists r, nth_error (rev (th_done th)) i = Some r).
      { destruct (nth_error (rev (th_done th)) i) eqn:E; [eauto|]. exfalso.
        apply nth_error_None in E. pose proof (Forall2_len _ _ _ Hres) as Hl.
        assert (i < length p)%nat by (apply nth_error_Some; congruence). lia. }
      destruct Hr as [r Hr]. pose proof (Forall2_nth _ _ _ _ _ _ Hres Hi Hr) as Hcr.
      destruct c as [y|y|y]; cbn [creates] in Hx; try discriminate;
        apply Z.eqb_eq in Hx; subst y; destruct r; cbn [res_ok] in Hcr; try contradiction.
      - rewrite Hcr. discriminate.
      - exact Hcr. }
    clear Hfin fin Hwf Hdone HT. induction finals as [|x finals IH]; [reflexivity|].
    cbn [map ok_finals]. apply andb_true_iff. split; [|exact IH].
    rewrite lookup_after_the_map. destruct (alookup x (the_map s)) as [a|] eqn:E.
    + eapply HC; eauto.
    + destruct (created progs x) eqn:Ec; [|reflexivity]. exfalso. exact (Hcr x Ec E).
Qed.

(** the theorem for both protocols: any number of threads, any programs, any schedule *)
Theorem holds_no_defect p progs finals sched :
  wf_C26 progs finals = true ->
  let s := run p (init progs) sched in
  quiescent s = true -> s_pub2 s = false -> s_over s = false ->
  ok_outcome progs finals (outcome_of finals s) = true.
Proof.
  intros Hwf s Hq H1 H2. apply inv_ok; [|exact Hq | exact Hwf].
  apply run_inv; [apply init_inv | split; assumption].
Qed.

Theorem holds_repaired progs finals sched :
  wf_C26 progs finals = true ->
  let s := run Repaired (init progs) sched in
  quiescent s = true -> ok_outcome progs finals (outcome_of finals s) = true.
Proof.
  intros Hwf s Hq. pose proof (run_repaired sched _ (init_nodef progs)) as [H1 H2].
  apply holds_no_defect; assumption.
Qed.

(** ** the readable statement: completed calls, at any reachable state *)
Definition call_at (progs : list (list call)) (t i : nat) : option call :=
  match nth_error progs t with Some p => nth_error p i | None => None end.
Definition res_at (s : state) (t i : nat) : option res :=
  match nth_error (s_threads s) t with Some th => nth_error (rev (th_done th)) i | None => None end.

Lemma inv_call progs s t i c r :
  Inv progs s -> call_at progs t i = Some c -> res_at s t i = Some r -> res_ok (the_map s) c r.
Proof.
  intros (_ & HT & _) Hc Hr. unfold call_at, res_at in *.
  destruct (nth_error progs t) as [p|] eqn:Ep; [|discriminate].
  destruct (nth_error (s_threads s) t) as [th|] eqn:Eth; [|discriminate].
  destruct (Forall2_nth _ _ _ _ _ _ HT Ep Eth) as (done & Hp & Hres & _).
  assert (Hi : (i < length done)%nat).
  { rewrite (Forall2_len _ _ _ Hres). apply nth_error_Some. congruence. }
  subst p. rewrite nth_error_app1 in Hc by exact Hi.
  exact (Forall2_nth _ _ _ _ _ _ Hres Hc Hr).
Qed.

Theorem spec_no_defect p progs sched :
  let s := run p (init progs) sched in
  s_pub2 s = false -> s_over s = false ->
  forall t1 t2 i j x a b,
    call_at progs t1 i = Some (CGetOrDefault x) -> call_at progs t2 j = Some (CGetOrDefault x) ->
    res_at s t1 i = Some (RAddr a) -> res_at s t2 j = Some (RAddr b) ->
    a = b /\ lookup_after s x = RAddr a.
Proof.
  intros s H1 H2 t1 t2 i j x a b Hc1 Hc2 Hr1 Hr2.
  assert (HI : Inv progs s) by (apply run_inv; [apply init_inv | split; assumption]).
  pose proof (inv_call _ _ _ _ _ _ HI Hc1 Hr1) as Ha. pose proof (inv_call _ _ _ _ _ _ HI Hc2 Hr2) as Hb.
  cbn [res_ok] in Ha, Hb. split; [congruence|]. rewrite lookup_after_the_map, Ha. reflexivity.
Qed.

Theorem spec_repaired progs sched :
  let s := run Repaired (init progs) sched in
  forall t1 t2 i j x a b,
    call_at progs t1 i = Some (CGetOrDefault x) -> call_at progs t2 j = Some (CGetOrDefault x) ->
    res_at s t1 i = Some (RAddr a) -> res_at s t2 j = Some (RAddr b) ->
    a = b /\ lookup_after s x = RAddr a.
Proof.
  intros s. pose proof (run_repaired sched _ (init_nodef progs)) as [H1 H2].
  apply spec_no_defect; assumption.
Qed.

(** the three beans the runtime creates (task queue, coroutine queue, monitor), any number of
    pools/schedulers created concurrently: they all hold the same three instances *)
Theorem one_queue_one_monitor p n sched :
  let progs := repeat [CGetOrDefault 0; CGetOrDefault 1; CGetOrDefault 2] n in
  let s := run p (init progs) sched in
  quiescent s = true -> s_pub2 s = false -> s_over s = false ->
  exists a0 a1 a2, forall th, In th (s_threads s) -> rev (th_done th) = [RAddr a0; RAddr a1; RAddr a2].
Proof.
  intros progs s Hq H1 H2.
  assert (HI : Inv progs s) by (apply run_inv; [apply init_inv | split; assumption]).
  destruct HI as (_ & HT & _).
  assert (Hall : forall th, In th (s_threads s) ->
            exists a0 a1 a2, rev (th_done th) = [RAddr a0; RAddr a1; RAddr a2]
              /\ alookup 0 (the_map s) = Some a0 /\ alookup 1 (the_map s) = Some a1 /\ alookup 2 (the_map s) = Some a2).
  { intros th Hin. destruct (In_nth_error _ _ Hin) as [t Ht].
    destruct (Forall2_nth_l _ _ _ _ _ HT Ht) as (pr & Hp & done & Hpr & Hres & _).
    apply nth_error_In, repeat_spec in Hp. subst pr.
    unfold quiescent in Hq. rewrite forallb_forall in Hq. specialize (Hq th Hin).
    unfold finished in Hq. destruct (th_todo th); [|discriminate]. rewrite app_nil_r in Hpr. subst done.
    inversion Hres as [|c0 r0 l0 rs0 Hr0 Hres0 E0 E0']; subst.
    inversion Hres0 as [|c1 r1 l1 rs1 Hr1 Hres1 E1 E1']; subst.
    inversion Hres1 as [|c2 r2 l2 rs2 Hr2 Hres2 E2 E2']; subst.
    inversion Hres2; subst.
    destruct r0, r1, r2; cbn [res_ok] in *; try contradiction. eauto 10. }
  destruct (s_threads s) as [|th0 ths] eqn:Eths.
  - exists 0, 0, 0. intros th [].
  - destruct (Hall th0 (or_introl eq_refl)) as (a0 & a1 & a2 & _ & E0 & E1 & E2).
    exists a0, a1, a2. intros th Hin. destruct (Hall th Hin) as (b0 & b1 & b2 & Hr & F0 & F1 & F2).
    rewrite Hr. congruence.
Qed.

(** ** refutation witnesses on the code as it is *)
Theorem refuted_check_then_insert :
  exists progs finals sched,
    wf_C26 progs finals = true /\ quiescent (run Racy (init progs) sched) = true /\
    s_over (run Racy (init progs) sched) = true /\
    ok_outcome progs finals (outcome_of finals (run Racy (init progs) sched)) = false.
Proof.
  exists [[CGetOrDefault 0]; [CGetOrDefault 0]], [0], [0; 0; 0; 1; 1; 0; 1]%nat.
  repeat split; vm_compute; reflexivity.
Qed.

Theorem refuted_factory_published_twice :
  exists progs finals sched,
    wf_C26 progs finals = true /\ quiescent (run Racy (init progs) sched) = true /\
    s_pub2 (run Racy (init progs) sched) = true /\ s_over (run Racy (init progs) sched) = false /\
    ok_outcome progs finals (outcome_of finals (run Racy (init progs) sched)) = false.
Proof.
  exists [[CGetOrDefault 0]; [CGetOrDefault 1]], [0; 1], [0; 1; 0; 1; 0; 0; 1; 1]%nat.
  repeat split; vm_compute; reflexivity.
Qed.

(** ** the enumeration: every outcome is the outcome of a schedule, and fuel never runs out *)
Lemma live_threads_nil l : forall i, live_threads i l = [] -> forallb finished l = true.
Proof.
  induction l as [|th l IH]; intros i H; [reflexivity|]. cbn [live_threads forallb] in *.
  destruct (finished th); [|discriminate]. cbn [andb]. exact (IH _ H).
Qed.

Lemma live_threads_in l : forall i t, In t (live_threads i l) ->
  exists th, nth_error l (t - i) = Some th /\ finished th = false /\ (i <= t)%nat.
Proof.
  induction l as [|th l IH]; intros i t H; cbn [live_threads] in H; [destruct H|].
  destruct (finished th) eqn:Ef.
  - destruct (IH _ _ H) as (th' & Hn & Hf & Hle). exists th'.
    replace (t - i)%nat with (S (t - S i)) by lia. cbn [nth_error]. split; [exact Hn|]. split; [exact Hf | lia].
  - destruct H as [<-|H].
    + exists th. rewrite Nat.sub_diag. cbn [nth_error]. auto.
    + destruct (IH _ _ H) as (th' & Hn & Hf & Hle). exists th'.
      replace (t - i)%nat with (S (t - S i)) by lia. cbn [nth_error]. split; [exact Hn|]. split; [exact Hf | lia].
Qed.

Lemma explore_sound p finals : forall fuel s o d,
  In (Some (o, d)) (explore p fuel finals s) ->
  exists sched, quiescent (run p s sched) = true /\ o = outcome_of finals (run p s sched)
                /\ d = (s_pub2 (run p s sched), s_over (run p s sched)).
Proof.
  induction fuel as [|fuel IH]; intros s o d H; cbn [explore] in H;
    destruct (live_threads 0 (s_threads s)) as [|t ts] eqn:E.
  - destruct H as [H|[]]. injection H as <- <-. exists []. cbn [run fold_left].
    split; [exact (live_threads_nil _ _ E) | auto].
  - destruct H as [H|[]]. discriminate.
  - destruct H as [H|[]]. injection H as <- <-. exists []. cbn [run fold_left].
    split; [exact (live_threads_nil _ _ E) | auto].
  - apply in_flat_map in H as (t' & _ & H). destruct (IH _ _ _ H) as (sched & Hq & Ho & Hd).
    exists (t' :: sched). cbn [run fold_left]. auto.
Qed.

Definition pcw (q : pc) : nat := match q with PLoad => 4 | PPub => 3 | PGet _ => 2 | PIns _ => 1 end.
Definition remaining (th : thread) : nat :=
  match th_todo th with [] => 0 | _ :: rest => pcw (th_pc th) + 4 * length rest end%nat.
Definition measure (s : state) : nat := list_sum (map remaining (s_threads s)).

Lemma remaining_finish th r c rest : th_todo th = c :: rest -> remaining (finish th r) = (4 * length rest)%nat.
Proof.
  intros H. unfold remaining, finish. cbn [th_todo th_pc]. rewrite H. cbn [tl].
  destruct rest; cbn [length pcw]; lia.
Qed.

Lemma step_thread_dec p s th :
  finished th = false -> (remaining (snd (step_thread p s th)) < remaining th)%nat.
Proof.
  unfold finished, step_thread. destruct (th_todo th) as [|c rest] eqn:Htodo; [discriminate|]. intros _.
  assert (Hgoto : forall q, remaining (goto th q) = (pcw q + 4 * length rest)%nat)
    by (intros q; unfold remaining, goto; cbn [th_todo th_pc]; rewrite Htodo; reflexivity).
  assert (Hrem : remaining th = (pcw (th_pc th) + 4 * length rest)%nat)
    by (unfold remaining; rewrite Htodo; reflexivity).
  assert (Hdie : remaining (die th) = 0%nat) by reflexivity.
  pose proof (fun r => remaining_finish th r c rest Htodo) as Hfin.
  rewrite Hrem.
  destruct (th_pc th) as [| |f|f]; cbn [pcw].
  - destruct (s_inst s); cbn [snd]; rewrite Hgoto; cbn [pcw]; lia.
  - destruct (s_inst s), p; cbn [snd]; rewrite Hgoto; cbn [pcw]; lia.
  - destruct (alookup (call_name c) (map_of s f)); [cbn [snd]; rewrite Hfin; lia|].
    destruct c; cbn [snd]; rewrite ?Hfin, ?Hgoto; cbn [pcw]; lia.
  - destruct (alookup (call_name c) (map_of s f)), p; cbn [snd]; rewrite ?Hfin; try lia.
    destruct c; rewrite ?Hfin, ?Hdie; lia.
Qed.

Lemma list_sum_cons x l : list_sum (x :: l) = (x + list_sum l)%nat.
Proof. reflexivity. Qed.

Lemma list_sum_upd (f : thread -> nat) l t th th' :
  nth_error l t = Some th ->
  (list_sum (map f (upd l t th')) + f th = list_sum (map f l) + f th')%nat.
Proof.
  revert t; induction l as [|a l IH]; intros [|t]; cbn [nth_error upd map]; rewrite ?list_sum_cons; try discriminate.
  - intros [= ->]. lia.
  - intros H. specialize (IH _ H). lia.
Qed.

Lemma step_live_dec p s t th :
  nth_error (s_threads s) t = Some th -> finished th = false -> (measure (step p s t) < measure s)%nat.
Proof.
  intros Hth Hf. unfold step. rewrite Hth. pose proof (step_thread_dec p s th Hf) as Hd.
  destruct (step_thread p s th) as [s' th']. cbn [snd] in Hd. unfold measure. cbn [s_threads].
  pose proof (list_sum_upd remaining _ _ _ th' Hth). lia.
Qed.

Lemma step_thread_stutter p s th : finished th = true -> step_thread p s th = (s, th).
Proof. unfold finished, step_thread. destruct (th_todo th); [reflexivity | discriminate]. Qed.

Lemma upd_same {A} (l : list A) t x : nth_error l t = Some x -> upd l t x = l.
Proof.
  revert t; induction l as [|a l IH]; intros [|t]; cbn [nth_error upd]; try discriminate.
  - intros [= ->]. reflexivity.
  - intros H. f_equal. exact (IH _ H).
Qed.

Lemma step_le p s t : (measure (step p s t) <= measure s)%nat.
Proof.
  unfold step. destruct (nth_error (s_threads s) t) as [th|] eqn:Hth; [|lia].
  destruct (finished th) eqn:Hf.
  - rewrite (step_thread_stutter p s th Hf). unfold measure. cbn [s_threads]. rewrite (upd_same _ _ _ Hth). lia.
  - pose proof (step_live_dec p s t th Hth Hf) as H. unfold step in H. rewrite Hth in H. lia.
Qed.

Lemma list_sum_ge (f : thread -> nat) l t th : nth_error l t = Some th -> (f th <= list_sum (map f l))%nat.
Proof.
  revert t; induction l as [|a l IH]; intros [|t]; cbn [nth_error map]; rewrite ?list_sum_cons; try discriminate.
  - intros [= ->]. lia.
  - intros H. specialize (IH _ H). lia.
Qed.

Lemma live_positive s t : In t (live_threads 0 (s_threads s)) ->
  exists th, nth_error (s_threads s) t = Some th /\ finished th = false /\ (1 <= measure s)%nat.
Proof.
  intros H. destruct (live_threads_in _ _ _ H) as (th & Hn & Hf & _). rewrite Nat.sub_0_r in Hn.
  exists th. split; [exact Hn|]. split; [exact Hf|].
  pose proof (list_sum_ge remaining _ _ _ Hn) as Hge. unfold measure.
  assert (1 <= remaining th)%nat; [|lia].
  unfold remaining, finished in *. destruct (th_todo th); [discriminate|]. destruct (th_pc th); cbn [pcw]; lia.
Qed.

Lemma explore_no_none p finals : forall fuel s,
  (measure s <= fuel)%nat -> ~ In None (explore p fuel finals s).
Proof.
  induction fuel as [|fuel IH]; intros s Hm H; cbn [explore] in H;
    destruct (live_threads 0 (s_threads s)) as [|t ts] eqn:E.
  - destruct H as [H|[]]. discriminate.
  - assert (Hin : In t (live_threads 0 (s_threads s))) by (rewrite E; left; reflexivity).
    destruct (live_positive _ _ Hin) as (_ & _ & _ & Hpos). lia.
  - destruct H as [H|[]]. discriminate.
  - apply in_flat_map in H as (t' & Hin & H). rewrite <- E in Hin.
    destruct (live_positive _ _ Hin) as (th & Hn & Hf & _).
    pose proof (step_live_dec p s t' th Hn Hf). apply (IH (step p s t')); [lia | exact H].
Qed.

Lemma measure_init progs : measure (init progs) = steps_bound progs.
Proof.
  unfold measure, init. cbn [s_threads]. induction progs as [|pr progs IH]; [reflexivity|].
  cbn [map steps_bound fold_right]. rewrite list_sum_cons. fold (steps_bound progs). rewrite IH.
  unfold remaining, thread0. cbn [th_todo th_pc]. destruct pr; cbn [length pcw]; lia.
Qed.

Lemma run_alone_run p t : forall fuel s, exists sched, run_alone p fuel s t = run p s sched.
Proof.
  induction fuel as [|fuel IH]; intros s; cbn [run_alone]; [exists []; reflexivity|].
  destruct (nth_error (s_threads s) t) as [th|]; [|exists []; reflexivity].
  destruct (finished th); [exists []; reflexivity|].
  destruct (IH (step p s t)) as [sched Hs]. exists (t :: sched). exact Hs.
Qed.

Lemma run_le p sched : forall s, (measure (run p s sched) <= measure s)%nat.
Proof.
  induction sched as [|t sched IH]; intros s; [cbn; lia|]. cbn [run fold_left].
  pose proof (IH (step p s t)). pose proof (step_le p s t). unfold run in *. lia.
Qed.

Lemma run_app p s l1 l2 : run p s (l1 ++ l2) = run p (run p s l1) l2.
Proof. unfold run. apply fold_left_app. Qed.

Theorem all_runs_no_divergence p seq0 progs finals : ~ In None (all_runs p seq0 progs finals).
Proof.
  unfold all_runs. apply explore_no_none. rewrite <- measure_init. unfold start_state.
  destruct seq0; [|lia].
  destruct (run_alone_run p 0%nat (4 * length (hd [] progs) + 1) (init progs)) as [sched ->]. apply run_le.
Qed.

Theorem all_runs_are_runs p seq0 progs finals o d :
  In (Some (o, d)) (all_runs p seq0 progs finals) ->
  exists sched, let s := run p (init progs) sched in
    quiescent s = true /\ o = outcome_of finals s /\ d = (s_pub2 s, s_over s).
Proof.
  unfold all_runs. intros H. apply explore_sound in H as (sched & Hq & Ho & Hd).
  assert (Hstart : exists pre, start_state p seq0 progs = run p (init progs) pre).
  { unfold start_state. destruct seq0; [apply run_alone_run | exists []; reflexivity]. }
  destruct Hstart as [pre Hpre]. rewrite Hpre, <- run_app in *. exists (pre ++ sched). auto.
Qed.

(** every enumerated outcome whose execution took no defect branch satisfies the property *)
Theorem all_runs_ok p seq0 progs finals o :
  wf_C26 progs finals = true ->
  In (Some (o, (false, false))) (all_runs p seq0 progs finals) -> ok_outcome progs finals o = true.
Proof.
  intros Hwf H. destruct (all_runs_are_runs _ _ _ _ _ _ H) as (sched & Hq & Ho & Hd). subst o. injection Hd as H1 H2.
  apply holds_no_defect; auto.
Qed.

Theorem all_outcomes_repaired_ok seq0 progs finals :
  wf_C26 progs finals = true -> ok_C26 progs finals (all_outcomes Repaired seq0 progs finals) = true.
Proof.
  intros Hwf. unfold ok_C26, all_outcomes.
  assert (Hne : all_runs Repaired seq0 progs finals <> []).
  { unfold all_runs. generalize (start_state Repaired seq0 progs) as s. intros s.
    generalize (steps_bound progs) as fuel.
    induction fuel as [|fuel IH] in s |- *; cbn [explore]; destruct (live_threads 0 (s_threads s)) eqn:E; try discriminate.
    cbn [flat_map]. intros H. apply app_eq_nil in H as [H _]. exact (IH _ H). }
  destruct (all_runs Repaired seq0 progs finals) as [|r rs] eqn:E; [contradiction|]. rewrite <- E.
  cbn [map]. destruct (map (option_map fst) (all_runs Repaired seq0 progs finals)) as [|x0 xs] eqn:Em.
  { rewrite E in Em. discriminate. }
  rewrite <- Em. apply forallb_forall. intros x Hx. apply in_map_iff in Hx as ([[o d]|] & <- & Hin); cbn [option_map fst].
  - destruct (all_runs_are_runs _ _ _ _ _ _ Hin) as (sched & Hq & Ho & Hd). subst o.
    apply holds_repaired; assumption.
  - exfalso. exact (all_runs_no_divergence _ _ _ _ Hin).
Qed.

Theorem holds_outside progs finals sched :
  wf_C26 progs finals = true -> quiescent (run_C26 progs sched) = true ->
  no_defect_C26 progs sched = true ->
  ok_outcome progs finals (outcome_of finals (run_C26 progs sched)) = true.
Proof.
  intros Hwf Hq Hnd. unfold no_defect_C26, defect_C26_factory_published_twice,
    defect_C26_get_or_default_check_then_insert in Hnd.
  apply andb_true_iff in Hnd as [H1 H2]. apply negb_true_iff in H1, H2.
  apply holds_no_defect; assumption.
Qed.

Theorem one_queue_one_monitor_repaired n sched :
  let progs := repeat [CGetOrDefault 0; CGetOrDefault 1; CGetOrDefault 2] n in
  let s := run Repaired (init progs) sched in
  quiescent s = true ->
  exists a0 a1 a2, forall th, In th (s_threads s) -> rev (th_done th) = [RAddr a0; RAddr a1; RAddr a2].
Proof.
  intros progs s Hq. pose proof (run_repaired sched _ (init_nodef progs)) as [H1 H2].
  apply one_queue_one_monitor; assumption.
Qed.
