(** C25: well-formed histories, the model run and the property as an executable oracle over the
    observed results. The oracle keeps its own specification map (a total function from
    (coroutine, key) to the cell stored there) and never looks at the model. *)
From OCV Require Import Base.Prelude Misc.Local.
Open Scope Z_scope.

Definition cell_eqb (a b : cell) : bool := (fst a =? fst b) && (snd a =? snd b).

Definition obs_eqb (a b : obs) : bool :=
  match a, b with
  | ORes r1 d1, ORes r2 d2 => option_eqb cell_eqb r1 r2 && list_eqb Z.eqb d1 d2
  | ODrop d1, ODrop d2 => list_eqb Z.eqb d1 d2
  | OBad, OBad => true
  | _, _ => false
  end.

Definition run_C25 (n : nat) (ops : list op) : list obs := run_from true (init n) ops.
(** the code before the repair of finding #27 (no [Drop for CoroutineLocal]) *)
Definition old_run_C25 (n : nat) (ops : list op) : list obs := run_from false (init n) ops.

(** ---- well-formed histories: every call names one of the [n] coroutines, not yet dropped, and
    the identities given to stored values are pairwise distinct. Decidable from the input alone. *)
Fixpoint memZ (x : Z) (l : list Z) : bool :=
  match l with [] => false | y :: l' => (y =? x) || memZ x l' end.

Definition op_co (o : op) : Z :=
  match o with Put c _ _ _ | Get c _ | GetMut c _ _ | Remove c _ | DropCo c => c end.

Fixpoint wf_from (n : nat) (gone ids : list Z) (ops : list op) : bool :=
  match ops with
  | [] => true
  | o :: ops' =>
      let c := op_co o in
      (0 <=? c) && (c <? Z.of_nat n) && negb (memZ c gone)
      && match o with
         | Put _ _ id _ => negb (memZ id ids) && wf_from n gone (id :: ids) ops'
         | DropCo _ => wf_from n (c :: gone) ids ops'
         | _ => wf_from n gone ids ops'
         end
  end.

Definition wf_C25 (n : nat) (ops : list op) : bool := wf_from n [] [] ops.

(** ---- the specification map *)
Definition spec := Z -> Z -> option cell.
Definition spec0 : spec := fun _ _ => None.
Definition sp_set (f : spec) (c k : Z) (x : option cell) : spec :=
  fun c' k' => if (c' =? c) && (k' =? k) then x else f c' k'.
Definition sp_clear (f : spec) (c : Z) : spec :=
  fun c' k' => if c' =? c then None else f c' k'.

Definition op_keys (o : op) : list Z :=
  match o with Put _ k _ _ | Get _ k | GetMut _ k _ | Remove _ k => [k] | DropCo _ => [] end.
Definition keys_of (ops : list op) : list Z := flat_map op_keys ops.

Fixpoint nodupZ (l : list Z) : list Z :=
  match l with
  | [] => []
  | x :: l' => if memZ x l' then nodupZ l' else x :: nodupZ l'
  end.

(** identities of the cells coroutine [c] still stores, over the keys the history ever uses *)
Definition stored_ids (f : spec) (c : Z) (keys : list Z) : list Z :=
  sortZ (flat_map (fun k => match f c k with Some (id, _) => [id] | None => [] end) (nodupZ keys)).

(** effect of a call on the specification map *)
Definition spec_step (f : spec) (o : op) : spec :=
  match o with
  | Put c k id v => sp_set f c k (Some (id, v))
  | Get _ _ => f
  | GetMut c k v => match f c k with Some (id, _) => sp_set f c k (Some (id, v)) | None => f end
  | Remove c k => sp_set f c k None
  | DropCo c => sp_clear f c
  end.

(** [strict = false]: the map clauses only (store returns the previous value, read returns the
    latest, remove returns it and deletes the key, nothing is destroyed behind the caller's back,
    each coroutine has its own map). [strict = true]: additionally a dropped coroutine destroys
    exactly the values it still stored. *)
Definition ok_step (strict : bool) (keys : list Z) (f : spec) (o : op) (r : obs) : bool :=
  match o, r with
  | Put c k _ _, ORes x [] | Get c k, ORes x [] | GetMut c k _, ORes x [] | Remove c k, ORes x [] =>
      option_eqb cell_eqb x (f c k)
  | DropCo c, ODrop d => if strict then list_eqb Z.eqb d (stored_ids f c keys) else true
  | _, _ => false
  end.

Fixpoint ok_from (strict : bool) (keys : list Z) (f : spec) (ops : list op) (rs : list obs) : bool :=
  match ops, rs with
  | [], [] => true
  | o :: ops', r :: rs' => ok_step strict keys f o r && ok_from strict keys (spec_step f o) ops' rs'
  | _, _ => false
  end.

Definition ok_maps_C25 (n : nat) (ops : list op) (rs : list obs) : bool :=
  ok_from false (keys_of ops) spec0 ops rs.
Definition ok_C25 (n : nat) (ops : list op) (rs : list obs) : bool :=
  ok_from true (keys_of ops) spec0 ops rs.

(** ---- "reading returns the latest value", stated without any forward tracker: scan the history
    backwards from the read (most recent call first). *)
Fixpoint latest (c k : Z) (rev_h : list op) : option cell :=
  match rev_h with
  | [] => None
  | o :: r =>
      match o with
      | Put c' k' id v => if (c' =? c) && (k' =? k) then Some (id, v) else latest c k r
      | Remove c' k' => if (c' =? c) && (k' =? k) then None else latest c k r
      | GetMut c' k' v =>
          if (c' =? c) && (k' =? k)
          then match latest c k r with Some (id, _) => Some (id, v) | None => None end
          else latest c k r
      | DropCo c' => if c' =? c then None else latest c k r
      | Get _ _ => latest c k r
      end
  end.

(** ---- privacy: the calls made through coroutine [c] and what they returned *)
Definition ops_of (c : Z) (ops : list op) : list op := filter (fun o => op_co o =? c) ops.
Fixpoint obs_of (c : Z) (ops : list op) (rs : list obs) : list obs :=
  match ops, rs with
  | o :: ops', r :: rs' => if op_co o =? c then r :: obs_of c ops' rs' else obs_of c ops' rs'
  | _, _ => []
  end.
