(** C22 proofs, layer 4: the trace oracle holds on every run of the model with synchronised set
    operations (every schedule, any number of threads). The oracle's tracker is kept in lockstep
    with the model state along the log. *)
From OCV Require Import Base.Prelude Misc.Monitor Misc.MonitorLemmas Misc.MonitorInv Misc.MonitorProofs Misc.MonitorOracle.
From Coq Require Import ZifyBool ZifyNat Permutation.
Open Scope Z_scope.

Lemma NoDup_app_snoc' {A} (l : list A) x : NoDup l -> ~ In x l -> NoDup (l ++ [x]).
Proof.
  intros Hnd Hn. eapply Permutation_NoDup; [apply Permutation_cons_append|]. constructor; assumption.
Qed.

Lemma strip_app a b : strip (a ++ b) = strip a ++ strip b.
Proof. unfold strip. apply flat_map_app. Qed.

Lemma cst_eqb_refl x : cst_eqb x x = true.
Proof. destruct x; cbn [cst_eqb]; try reflexivity. apply Z.eqb_refl. Qed.

Lemma is_run_running x : is_run x = is_running x.
Proof. destruct x; reflexivity. Qed.

Definition bodies (progs : list (nat * list instr)) : list (list instr) := map snd progs.

Lemma body_prog progs c : nth c (bodies progs) [] = snd (prog_of progs c).
Proof. unfold bodies, prog_of. change (@nil instr) with (snd (O, @nil instr)). apply map_nth. Qed.

(** well-formed bodies: system-call sections are opened, closed in turn, not nested, not left open
    at the end, and nothing yields inside one (what the hooked facades guarantee) *)
Fixpoint wfb (insys : bool) (b : list instr) : bool :=
  match b with
  | [] => negb insys
  | IWork _ :: r => wfb insys r
  | ISysEnter :: r => negb insys && wfb true r
  | ISysExit :: r => insys && wfb false r
  | IYield :: r => negb insys && wfb false r
  end.

Definition wf_co (k : co) : Prop :=
  match c_st k with
  | CSyscall => wfb true (c_body k) = true
  | CDone _ => True
  | _ => wfb false (c_body k) = true
  end.

(** tracker against model *)
Record OI (nthr : nat) (progs : list (nat * list instr)) (s : mst) : Prop := {
  oi_ok : o_ok (orun (bodies progs) (strip (m_log s))) = true;
  oi_st : forall c, (c < length progs)%nat -> nth c (o_st (orun (bodies progs) (strip (m_log s)))) CReady = c_st (get_co s c);
  oi_len : length (o_st (orun (bodies progs) (strip (m_log s)))) = length progs;
  oi_rdy : forall t, (t < nthr)%nat ->
             NoDup (t_ready (get_thr s t)) /\
             (forall c, In c (t_ready (get_thr s t)) -> c_st (get_co s c) = CReady \/ c_st (get_co s c) = CSuspend) /\
             (forall c, t_cur (get_thr s t) = Some c -> ~ In c (t_ready (get_thr s t)))
}.

Definition WFC (progs : list (nat * list instr)) (s : mst) : Prop := forall c, (c < length progs)%nat -> wf_co (get_co s c).

Lemma orun_snoc bs l e : orun bs (l ++ e) = fold_left (oev bs) e (orun bs l).
Proof. unfold orun. rewrite fold_left_app. reflexivity. Qed.

(** events that do not touch the tracker's states *)
Lemma oi_quiet nthr progs s s' e :
  OI nthr progs s -> m_log s' = m_log s ++ [e] ->
  match e with MChange _ _ _ _ _ => False | _ => True end ->
  (forall c, c_st (get_co s' c) = c_st (get_co s c)) ->
  (forall t, t_ready (get_thr s' t) = t_ready (get_thr s t) /\ t_cur (get_thr s' t) = t_cur (get_thr s t)) ->
  OI nthr progs s'.
Proof.
  intros [A B C D] Hl He Hst Hth.
  assert (o_ok (orun (bodies progs) (strip (m_log s'))) = true /\
          o_st (orun (bodies progs) (strip (m_log s'))) = o_st (orun (bodies progs) (strip (m_log s)))) as [A' S'].
  { rewrite Hl, strip_app, orun_snoc. destruct e as [c o n p f|c n|c|t]; try contradiction; cbn [strip strip_ev flat_map app fold_left oev o_ok o_st]; split; try reflexivity; exact A. }
  constructor.
  - exact A'.
  - intros c Hc. rewrite S', Hst. apply B, Hc.
  - rewrite S'. exact C.
  - intros t Ht. destruct (Hth t) as [-> ->]. destruct (D t Ht) as (D1 & D2 & D3). split; [exact D1|]. split; [|exact D3].
    intros c Hin. rewrite Hst. apply D2, Hin.
Qed.

Lemma oi_same nthr progs s s' :
  OI nthr progs s -> m_log s' = m_log s -> (forall c, c_st (get_co s' c) = c_st (get_co s c)) ->
  (forall t, t_ready (get_thr s' t) = t_ready (get_thr s t) /\ t_cur (get_thr s' t) = t_cur (get_thr s t)) ->
  OI nthr progs s'.
Proof.
  intros [A B C D] Hl Hst Hth. constructor; rewrite ?Hl; try assumption.
  - intros c Hc. rewrite Hst. apply B, Hc.
  - intros t Ht. destruct (Hth t) as [-> ->]. destruct (D t Ht) as (D1 & D2 & D3). split; [exact D1|]. split; [|exact D3].
    intros c Hin. rewrite Hst. apply D2, Hin.
Qed.

Lemma log_set_op s t o : m_log (set_op s t o) = m_log s.
Proof. unfold set_op. destruct (m_atomic s); reflexivity. Qed.

Lemma nodes_with_log s l : has_node (with_log s l) = has_node s.
Proof. reflexivity. Qed.

Lemma change_log s c new p :
  m_log (change s c new p) =
  m_log s ++ [MChange c (c_st (get_co s c)) new p (has_node (change s c new p) (c_thr (get_co s c)))].
Proof.
  rewrite change_unfold. cbv zeta. cbn [with_log m_log]. rewrite nodes_with_log.
  destruct (match new with CRunning => Some (OpInsert (m_clock s + SLICE, c_thr (get_co s c))) | CReady => None | _ => option_map OpRemove (c_node (get_co s c)) end);
    [rewrite log_set_op|]; reflexivity.
Qed.

Definition table (old new : cst) : bool :=
  match old, new with
  | CSyscall, CRunning => true
  | CRunning, (CSuspend | CSyscall | CDone _) => true
  | (CReady | CSuspend), CRunning => true
  | _, _ => false
  end.

Lemma nth_set_nth_same {A} i (x d : A) l : (i < length l)%nat -> nth i (set_nth i x l) d = x.
Proof. apply nth_set_nth_eq. Qed.

(** a state change of the current coroutine of thread [t], as the oracle sees it *)
Lemma oi_change nthr progs s c t new p :
  INVM nthr progs s -> OI nthr progs s -> INVM nthr progs (change s c new p) -> m_atomic s = true ->
  (c < length progs)%nat -> c_thr (get_co s c) = t -> (t < nthr)%nat -> t_cur (get_thr s t) = Some c ->
  table (c_st (get_co s c)) new = true ->
  (forall r, new = CDone r -> r = works (snd (prog_of progs c))) ->
  OI nthr progs (change s c new p).
Proof.
  intros HI [A B C D] HI' Ha Hc Hct Ht Hcur Htab Hdone.
  set (sx := change s c new p) in *.
  assert (c < length (m_cos s))%nat as Hcl by (rewrite (v_ncos _ _ _ HI); exact Hc).
  assert (c_thr (get_co s c) < length (m_thr s))%nat as Htl by (rewrite Hct, (v_nthr _ _ _ HI); exact Ht).
  pose proof (change_frame s c new p Hcl Htl) as Hcf. cbv zeta in Hcf. fold sx in Hcf.
  destruct Hcf as (Hth & Hco & Hst & Hthr & Hbody & _ & _ & Hat).
  (* the flag *)
  assert (has_node sx t = is_run new) as Hflag.
  { assert (m_atomic sx = true) as Ha' by (rewrite Hat; exact Ha).
    destruct (v_atomic _ _ _ HI' Ha') as [Hd Hm].
    pose proof (node_iff_running_gen nthr progs sx t HI' Hd Hm Ht) as Hiff.
    assert (running_on sx t <-> is_run new = true) as Hr.
    { unfold running_on. rewrite (proj1 (Hth t)), Hcur. split.
      - intros (c' & Hx & Hs). injection Hx as <-. rewrite Hst in Hs. rewrite Hs. reflexivity.
      - intro Hx. exists c. split; [reflexivity|]. rewrite Hst. destruct new; try discriminate. reflexivity. }
    destruct (has_node sx t) eqn:E; destruct (is_run new) eqn:E2; try reflexivity.
    - exfalso. assert (false = true) as Hx by (apply Hr, Hiff; reflexivity). discriminate.
    - exfalso. assert (false = true) as Hx by (apply Hiff, Hr; reflexivity). discriminate. }
  assert (m_log sx = m_log s ++ [MChange c (c_st (get_co s c)) new p (is_run new)]) as Hlog.
  { unfold sx. rewrite change_log. fold sx. rewrite Hct, Hflag. reflexivity. }
  set (k := orun (bodies progs) (strip (m_log s))) in *.
  assert (c < length (o_st k))%nat as Hck by (rewrite C; exact Hc).
  assert (orun (bodies progs) (strip (m_log sx)) = oev (bodies progs) k (MChange c (c_st (get_co s c)) new false (is_run new))) as Hk.
  { rewrite Hlog, strip_app, orun_snoc. reflexivity. }
  constructor.
  - rewrite Hk. cbn [oev o_ok]. rewrite A, (B c Hc), cst_eqb_refl, is_run_running, Bool.eqb_reflx. cbn [andb].
    assert (match c_st (get_co s c), new with
            | CSyscall, CSuspend => false | CSyscall, CRunning => true | CSyscall, _ => false
            | CRunning, (CSuspend | CSyscall | CDone _) => true
            | (CReady | CSuspend), CRunning => true
            | _, _ => false end = true) as ->.
    { unfold table in Htab. destruct (c_st (get_co s c)), new; try discriminate; reflexivity. }
    cbn [andb]. destruct new; try reflexivity. rewrite body_prog. apply Z.eqb_eq, Hdone. reflexivity.
  - intros c' Hc'. rewrite Hk. cbn [oev o_st]. destruct (Nat.eq_dec c' c) as [->|Hne].
    + rewrite nth_set_nth_eq by exact Hck. symmetry. exact Hst.
    + rewrite nth_set_nth_neq by congruence. rewrite Hco by exact Hne. apply B, Hc'.
  - rewrite Hk. cbn [oev o_st]. rewrite set_nth_length. exact C.
  - intros t' Ht'. rewrite (proj1 (Hth t')), (proj1 (proj2 (Hth t'))). destruct (D t' Ht') as (D1 & D2 & D3).
    split; [exact D1|]. split; [|exact D3]. intros c' Hin.
    assert (c' <> c) as Hne.
    { intros ->. destruct (v_ready _ _ _ HI t' c Ht' Hin) as [_ Hx]. rewrite Hct in Hx. subst t'. exact (D3 c Hcur Hin). }
    rewrite Hco by exact Hne. apply D2, Hin.
Qed.

(** ... and as the well-formedness of the bodies sees it *)
Lemma wfc_change progs s c new p :
  (forall c', (c' < length progs)%nat -> c' <> c -> wf_co (get_co s c')) ->
  (c < length (m_cos s))%nat -> (c_thr (get_co s c) < length (m_thr s))%nat ->
  match new with CSyscall => wfb true (c_body (get_co s c)) = true | CDone _ => True | _ => wfb false (c_body (get_co s c)) = true end ->
  WFC progs (change s c new p).
Proof.
  intros Hw Hcl Htl Hn. pose proof (change_frame s c new p Hcl Htl) as Hcf. cbv zeta in Hcf.
  destruct Hcf as (_ & Hco & Hst & _ & Hbody & _).
  intros c' Hc'. destruct (Nat.eq_dec c' c) as [->|Hne].
  - unfold wf_co. rewrite Hst, Hbody. exact Hn.
  - rewrite Hco by exact Hne. apply Hw; assumption.
Qed.

(** the scheduler's bookkeeping on thread [t] *)
Lemma oi_sched nthr progs s t r' cur' :
  OI nthr progs s -> (t < length (m_thr s))%nat -> NoDup r' ->
  (forall c, In c r' -> c_st (get_co s c) = CReady \/ c_st (get_co s c) = CSuspend) ->
  (forall c, cur' = Some c -> ~ In c r') ->
  OI nthr progs (upd_thr s t (t_with_sched (get_thr s t) r' cur')).
Proof.
  intros [A B C D] Ht Hnd Hst Hcur. constructor; try assumption.
  intros t' Ht'. destruct (Nat.eq_dec t t') as [<-|Hne].
  - rewrite get_thr_upd_thr_eq by exact Ht. cbn [t_with_sched t_ready t_cur]. split; [exact Hnd|]. split; [exact Hst | exact Hcur].
  - rewrite get_thr_upd_thr_neq by exact Hne. apply D, Ht'.
Qed.

Definition cur_ok (nthr : nat) (s : mst) : Prop :=
  forall t c, (t < nthr)%nat -> t_cur (get_thr s t) = Some c -> c_st (get_co s c) = CRunning \/ c_st (get_co s c) = CSyscall.

Section Trace.
  Variable nthr : nat.
  Variable progs : list (nat * list instr).

  Lemma oib_yield s t c p :
    INVM nthr progs s -> OI nthr progs s -> WFC progs s -> m_atomic s = true -> (t < nthr)%nat ->
    t_cur (get_thr s t) = Some c -> c_st (get_co s c) = CRunning -> wfb false (c_body (get_co s c)) = true ->
    (forall t' c', t' <> t -> (t' < nthr)%nat -> t_cur (get_thr s t') = Some c' -> c_st (get_co s c') = CRunning \/ c_st (get_co s c') = CSyscall) ->
    OI nthr progs (yield_thread s t c p) /\ WFC progs (yield_thread s t c p) /\ cur_ok nthr (yield_thread s t c p).
  Proof.
    intros HI HO HW Ha Ht Hcur Hst Hwf Hoth.
    destruct (v_cur _ _ _ HI t c Ht Hcur) as [Hc Hct].
    assert (t_mid (get_thr s t) = None) as Hmid by (apply (v_atomic _ _ _ HI Ha), Ht).
    assert (c < length (m_cos s))%nat as Hcl by (rewrite (v_ncos _ _ _ HI); exact Hc).
    assert (c_thr (get_co s c) < length (m_thr s))%nat as Htl by (rewrite Hct, (v_nthr _ _ _ HI); exact Ht).
    pose proof (inv_change_leave nthr progs s c t CSuspend p HI Hc Hct Hcur Hmid Hst) as HI1.
    assert (OI nthr progs (change s c CSuspend p)) as HO1.
    { apply (oi_change nthr progs s c t CSuspend p HI HO HI1 Ha Hc Hct Ht Hcur); [rewrite Hst; reflexivity | discriminate]. }
    pose proof (wfc_change progs s c CSuspend p (fun c' Hc' _ => HW c' Hc') Hcl Htl Hwf) as HW1.
    pose proof (change_frame s c CSuspend p Hcl Htl) as Hcf. cbv zeta in Hcf.
    destruct Hcf as (Hth & Hco & Hst1 & _).
    unfold yield_thread. set (s1 := change s c CSuspend p) in *.
    assert (t < length (m_thr s1))%nat as Htl1 by (unfold s1; rewrite len_thr_change, (v_nthr _ _ _ HI); exact Ht).
    destruct (oi_rdy _ _ _ HO1 t Ht) as (D1 & D2 & D3).
    assert (t_cur (get_thr s1 t) = Some c) as Hcur1 by (rewrite (proj1 (Hth t)); exact Hcur).
    split; [|split].
    - apply oi_sched; [exact HO1 | exact Htl1 | | | discriminate].
      + apply NoDup_app_snoc'; [exact D1 | apply D3, Hcur1].
      + intros c' Hin. apply in_app_iff in Hin as [Hin|[<-|[]]]; [apply D2, Hin | right; exact Hst1].
    - exact HW1.
    - intros t' c' Ht' Hc'. change (get_co (upd_thr s1 t (t_with_sched (get_thr s1 t) (t_ready (get_thr s1 t) ++ [c]) None)) c') with (get_co s1 c').
      destruct (Nat.eq_dec t t') as [<-|Hne].
      + rewrite get_thr_upd_thr_eq in Hc' by exact Htl1. discriminate.
      + rewrite get_thr_upd_thr_neq in Hc' by exact Hne. rewrite (proj1 (Hth t')) in Hc'.
        assert (c' <> c) as Hnc.
        { intros ->. destruct (v_cur _ _ _ HI t' c Ht' Hc') as [_ Hx]. congruence. }
        rewrite Hco by exact Hnc. apply (Hoth t' c'); [congruence | exact Ht' | exact Hc'].
  Qed.

  Definition ALL (s : mst) : Prop :=
    INVM nthr progs s /\ OI nthr progs s /\ WFC progs s /\ cur_ok nthr s /\ m_atomic s = true.

  (** the body of the current coroutine advances by one instruction that is not a state change *)
  Lemma set_body_facts s c b acc :
    (c < length (m_cos s))%nat ->
    (forall c', c_st (get_co (set_body s c b acc) c') = c_st (get_co s c')) /\
    (forall c', c' <> c -> get_co (set_body s c b acc) c' = get_co s c') /\
    c_body (get_co (set_body s c b acc) c) = b /\ c_thr (get_co (set_body s c b acc) c) = c_thr (get_co s c).
  Proof.
    intro Hc. unfold set_body. split; [|split; [|split]].
    - intro c'. destruct (Nat.eq_dec c c') as [<-|Hne]; [rewrite get_co_upd_co_eq by exact Hc | rewrite get_co_upd_co_neq by exact Hne]; reflexivity.
    - intros c' Hne. apply get_co_upd_co_neq. congruence.
    - rewrite get_co_upd_co_eq by exact Hc. reflexivity.
    - rewrite get_co_upd_co_eq by exact Hc. reflexivity.
  Qed.

  Lemma wfc_body s c b acc (insys : bool) :
    WFC progs s -> (c < length (m_cos s))%nat ->
    c_st (get_co s c) = (if insys then CSyscall else CRunning) -> wfb insys b = true ->
    WFC progs (set_body s c b acc).
  Proof.
    intros HW Hc Hst Hb. destruct (set_body_facts s c b acc Hc) as (F1 & F2 & F3 & _).
    intros c' Hc'. destruct (Nat.eq_dec c' c) as [->|Hne].
    - unfold wf_co. rewrite F1, F3, Hst. destruct insys; exact Hb.
    - rewrite F2 by exact Hne. apply HW, Hc'.
  Qed.

  (** a state change of the current coroutine right after its body advanced *)
  Lemma all_body_change s t c b new :
    INVM nthr progs s -> OI nthr progs s -> WFC progs s -> cur_ok nthr s -> m_atomic s = true -> (t < nthr)%nat ->
    t_cur (get_thr s t) = Some c -> works b = works (c_body (get_co s c)) ->
    (c_st (get_co s c) = CRunning /\ new = CSyscall /\ wfb true b = true \/
     c_st (get_co s c) = CSyscall /\ new = CRunning /\ wfb false b = true) ->
    let s' := change (set_body s c b (c_acc (get_co s c))) c new false in
    OI nthr progs s' /\ WFC progs s' /\ cur_ok nthr s'.
  Proof.
    intros HI HO HW HC Ha Ht Hcur Hworks Hk s'.
    destruct (v_cur _ _ _ HI t c Ht Hcur) as [Hc Hct].
    assert (t_mid (get_thr s t) = None) as Hmid by (apply (v_atomic _ _ _ HI Ha), Ht).
    assert (t < length (m_thr s))%nat as Htl by (rewrite (v_nthr _ _ _ HI); exact Ht).
    assert (c < length (m_cos s))%nat as Hcl by (rewrite (v_ncos _ _ _ HI); exact Hc).
    set (s1 := set_body s c b (c_acc (get_co s c))) in *.
    destruct (set_body_facts s c b (c_acc (get_co s c)) Hcl) as (F1 & F2 & F3 & F4). fold s1 in F1, F2, F3, F4.
    assert (INVM nthr progs s1) as HI1 by (apply inv_body; [exact HI | exact Hc | lia]).
    assert (OI nthr progs s1) as HO1 by (apply (oi_same nthr progs s s1 HO); [reflexivity | exact F1 | intro t'; split; reflexivity]).
    assert (c_thr (get_co s1 c) = t) as Hct1 by (rewrite F4; exact Hct).
    assert (c < length (m_cos s1))%nat as Hcl1 by (unfold s1, set_body; rewrite len_cos_upd_co; exact Hcl).
    assert (c_thr (get_co s1 c) < length (m_thr s1))%nat as Htl1 by (rewrite Hct1; exact Htl).
    assert (INVM nthr progs s') as HI2.
    { unfold s'. destruct Hk as [(Hst & -> & _)|(Hst & -> & _)].
      - apply (inv_change_leave nthr progs s1 c t CSyscall false HI1 Hc Hct1 Hcur Hmid eq_refl).
      - apply (inv_change_run nthr progs s1 c t HI1 Hc Hct1 Hcur Hmid). rewrite F1, Hst. discriminate. }
    pose proof (change_frame s1 c new false Hcl1 Htl1) as Hcf. cbv zeta in Hcf. fold s' in Hcf.
    destruct Hcf as (Hth & Hco & Hst2 & _).
    split; [|split].
    - apply (oi_change nthr progs s1 c t new false HI1 HO1 HI2 Ha Hc Hct1 Ht Hcur).
      + rewrite F1. destruct Hk as [(-> & -> & _)|(-> & -> & _)]; reflexivity.
      + intros r Hr. destruct Hk as [(_ & -> & _)|(_ & -> & _)]; discriminate.
    - apply (wfc_change progs s1 c new false); [|exact Hcl1 | exact Htl1|].
      + intros c' Hc' Hne. rewrite F2 by exact Hne. apply HW, Hc'.
      + rewrite F3. destruct Hk as [(_ & -> & Hb)|(_ & -> & Hb)]; exact Hb.
    - intros t' c' Ht' Hc'. rewrite (proj1 (Hth t')) in Hc'. change (get_thr s1 t') with (get_thr s t') in Hc'.
      destruct (Nat.eq_dec c' c) as [->|Hne].
      + rewrite Hst2. destruct Hk as [(_ & -> & _)|(_ & -> & _)]; [right | left]; reflexivity.
      + rewrite Hco, F2 by exact Hne. apply (HC t' c' Ht' Hc').
  Qed.

  Lemma all_step_thread s t : ALL s -> (t < nthr)%nat -> ALL (step_thread s t).
  Proof.
    intros (HI & HO & HW & HC & Ha) Ht.
    pose proof (inv_step_thread nthr progs s t HI Ht) as HI'.
    assert (m_atomic (step_thread s t) = true) as Ha'.
    { pose proof (atomic_mstep s (AStep t)) as Hx. cbn [mstep] in Hx. rewrite (v_nthr _ _ _ HI) in Hx.
      assert (Nat.ltb t nthr = true) as E by (apply Nat.ltb_lt, Ht). rewrite E in Hx. rewrite Hx. exact Ha. }
    split; [exact HI'|]. cut (OI nthr progs (step_thread s t) /\ WFC progs (step_thread s t) /\ cur_ok nthr (step_thread s t)); [intros (X & Y & Z); split; [exact X | split; [exact Y | split; [exact Z | exact Ha']]]|].
    clear HI' Ha'. unfold step_thread.
    assert (t_mid (get_thr s t) = None) as Hmid by (apply (v_atomic _ _ _ HI Ha), Ht). rewrite Hmid.
    assert (t < length (m_thr s))%nat as Htl by (rewrite (v_nthr _ _ _ HI); exact Ht).
    destruct (oi_rdy _ _ _ HO t Ht) as (D1 & D2 & D3).
    destruct (t_cur (get_thr s t)) as [c|] eqn:Hcur.
    - destruct (v_cur _ _ _ HI t c Ht Hcur) as [Hc Hct].
      assert (c < length (m_cos s))%nat as Hcl by (rewrite (v_ncos _ _ _ HI); exact Hc).
      assert (c_thr (get_co s c) < length (m_thr s))%nat as Htlc by (rewrite Hct; exact Htl).
      pose proof (HW c Hc) as Hwc. unfold wf_co in Hwc.
      destruct (c_body (get_co s c)) as [|i b] eqn:Hb.
      + (* end of the body *)
        assert (c_st (get_co s c) = CRunning) as Hst.
        { destruct (HC t c Ht Hcur) as [Hx|Hx]; [exact Hx|]. rewrite Hx in Hwc. discriminate. }
        assert (c_acc (get_co s c) = works (snd (prog_of progs c))) as Hacc.
        { destruct (v_res _ _ _ HI c Hc) as [Hx _]. rewrite Hb in Hx. change (works []) with 0 in Hx. lia. }
        pose proof (inv_change_leave nthr progs s c t (CDone (c_acc (get_co s c))) false HI Hc Hct Hcur Hmid (conj eq_refl Hacc)) as HI1.
        assert (OI nthr progs (change s c (CDone (c_acc (get_co s c))) false)) as HO1.
        { apply (oi_change nthr progs s c t _ false HI HO HI1 Ha Hc Hct Ht Hcur); [rewrite Hst; reflexivity|].
          intros r Hr. injection Hr as <-. exact Hacc. }
        pose proof (wfc_change progs s c (CDone (c_acc (get_co s c))) false (fun c' Hc' _ => HW c' Hc') Hcl Htlc I) as HW1.
        pose proof (change_frame s c (CDone (c_acc (get_co s c))) false Hcl Htlc) as Hcf. cbv zeta in Hcf.
        destruct Hcf as (Hth & Hco & Hst1 & _).
        set (s1 := change s c (CDone (c_acc (get_co s c))) false) in *.
        assert (t < length (m_thr s1))%nat as Htl1 by (unfold s1; rewrite len_thr_change; exact Htl).
        destruct (oi_rdy _ _ _ HO1 t Ht) as (E1 & E2 & E3).
        split; [|split].
        * apply oi_sched; [exact HO1 | exact Htl1 | exact E1 | exact E2 | discriminate].
        * exact HW1.
        * intros t' c' Ht' Hc'. change (get_co (upd_thr s1 t (t_with_sched (get_thr s1 t) (t_ready (get_thr s1 t)) None)) c') with (get_co s1 c').
          destruct (Nat.eq_dec t t') as [<-|Hne].
          -- rewrite get_thr_upd_thr_eq in Hc' by exact Htl1. discriminate.
          -- rewrite get_thr_upd_thr_neq in Hc' by exact Hne. rewrite (proj1 (Hth t')) in Hc'.
             assert (c' <> c) as Hnc by (intros ->; destruct (v_cur _ _ _ HI t' c Ht' Hc') as [_ Hx]; congruence).
             rewrite Hco by exact Hnc. apply (HC t' c' Ht' Hc').
      + destruct i as [n| | |].
        * (* work *)
          destruct (set_body_facts s c b (c_acc (get_co s c) + n) Hcl) as (F1 & F2 & F3 & F4).
          set (s1 := set_body s c b (c_acc (get_co s c) + n)) in *.
          split; [|split].
          -- eapply (oi_quiet nthr progs s (with_log s1 (m_log s1 ++ [MWork c n])) (MWork c n) HO); [reflexivity | exact I | exact F1 | intro t'; split; reflexivity].
          -- destruct (HC t c Ht Hcur) as [Hst|Hst]; rewrite Hst in Hwc; cbn [wfb] in Hwc.
             ++ apply (wfc_body s c b _ false HW Hcl Hst Hwc).
             ++ apply (wfc_body s c b _ true HW Hcl Hst Hwc).
          -- intros t' c' Ht' Hc'. change (get_co (with_log s1 (m_log s1 ++ [MWork c n])) c') with (get_co s1 c').
             rewrite F1. apply (HC t' c' Ht' Hc').
        * (* enter a system call *)
          destruct (HC t c Ht Hcur) as [Hst|Hst]; rewrite Hst in Hwc; cbn [wfb negb andb] in Hwc; [|discriminate].
          rewrite Hst. apply (all_body_change s t c b CSyscall HI HO HW HC Ha Ht Hcur); [rewrite Hb; reflexivity|].
          left. repeat split; assumption.
        * (* leave it *)
          destruct (HC t c Ht Hcur) as [Hst|Hst]; rewrite Hst in Hwc; cbn [wfb negb andb] in Hwc; [discriminate|].
          rewrite Hst. apply (all_body_change s t c b CRunning HI HO HW HC Ha Ht Hcur); [rewrite Hb; reflexivity|].
          right. repeat split; assumption.
        * (* cooperative yield *)
          destruct (HC t c Ht Hcur) as [Hst|Hst]; rewrite Hst in Hwc; cbn [wfb negb andb] in Hwc; [|discriminate].
          rewrite Hst.
          set (s1 := set_body s c b (c_acc (get_co s c))).
          destruct (set_body_facts s c b (c_acc (get_co s c)) Hcl) as (F1 & F2 & F3 & F4). fold s1 in F1, F2, F3, F4.
          set (s2 := with_log s1 (m_log s1 ++ [MYield c])).
          assert (INVM nthr progs s2) as HI2.
          { apply inv_log; [|exact I]. apply inv_body; [exact HI | exact Hc | rewrite Hb; reflexivity]. }
          assert (OI nthr progs s2) as HO2.
          { eapply (oi_quiet nthr progs s s2 (MYield c) HO); [reflexivity | exact I | exact F1 | intro t'; split; reflexivity]. }
          assert (WFC progs s2) as HW2 by (apply (wfc_body s c b _ false HW Hcl Hst Hwc)).
          apply (oib_yield s2 t c false HI2 HO2 HW2 Ha Ht Hcur).
          -- change (get_co s2 c) with (get_co s1 c). rewrite F1. exact Hst.
          -- change (get_co s2 c) with (get_co s1 c). rewrite F3. exact Hwc.
          -- intros t' c' Hne Ht' Hc'. change (get_co s2 c') with (get_co s1 c'). rewrite F1. apply (HC t' c' Ht' Hc').
    - destruct (t_ready (get_thr s t)) as [|c rest] eqn:Hr; [split; [exact HO | split; [exact HW | exact HC]]|].
      (* the next ready coroutine is resumed *)
      assert (In c (t_ready (get_thr s t))) as Hin by (rewrite Hr; left; reflexivity).
      destruct (v_ready _ _ _ HI t c Ht Hin) as [Hc Hct].
      assert (c < length (m_cos s))%nat as Hcl by (rewrite (v_ncos _ _ _ HI); exact Hc).
      assert (running_cur s t = None) as Hnone by (unfold running_cur; rewrite Hcur; reflexivity).
      rewrite ?Hr in D1, D2, D3.
      assert (c_st (get_co s c) = CReady \/ c_st (get_co s c) = CSuspend) as Hstc by (apply D2; left; reflexivity).
      assert (c_st (get_co s c) <> CRunning) as Hnr by (destruct Hstc as [-> | ->]; discriminate).
      assert (~ In c rest /\ NoDup rest) as [Hnin Hnd] by (inversion D1; split; assumption).
      set (s1 := upd_thr s t (t_with_sched (get_thr s t) rest (Some c))).
      assert (INVM nthr progs s1) as HI1.
      { apply inv_sched; try assumption.
        - intros c' Hin'. apply (v_ready _ _ _ HI t c' Ht). rewrite Hr. right. exact Hin'.
        - intros c' Hx. injection Hx as <-. repeat split; assumption. }
      assert (OI nthr progs s1) as HO1.
      { apply oi_sched; [exact HO | exact Htl | exact Hnd | intros c' Hin'; apply D2; right; exact Hin' |].
        intros c' Hx. injection Hx as <-. exact Hnin. }
      assert (t_cur (get_thr s1 t) = Some c) as Hcur1 by (unfold s1; rewrite get_thr_upd_thr_eq by exact Htl; reflexivity).
      assert (t_mid (get_thr s1 t) = None) as Hmid1 by (unfold s1; rewrite get_thr_upd_thr_eq by exact Htl; exact Hmid).
      pose proof (inv_change_run nthr progs s1 c t HI1 Hc Hct Hcur1 Hmid1 Hnr) as HI2.
      assert (c_thr (get_co s1 c) < length (m_thr s1))%nat as Htl1.
      { change (get_co s1 c) with (get_co s c). rewrite Hct. unfold s1. rewrite len_thr_upd_thr. exact Htl. }
      pose proof (change_frame s1 c CRunning false Hcl Htl1) as Hcf. cbv zeta in Hcf.
      destruct Hcf as (Hth & Hco & Hst2 & _).
      split; [|split].
      + apply (oi_change nthr progs s1 c t CRunning false HI1 HO1 HI2 Ha Hc Hct Ht Hcur1); [|discriminate].
        change (get_co s1 c) with (get_co s c). destruct Hstc as [-> | ->]; reflexivity.
      + apply (wfc_change progs s1 c CRunning false); [|exact Hcl | exact Htl1|].
        * intros c' Hc' _. apply HW, Hc'.
        * pose proof (HW c Hc) as Hwc. unfold wf_co in Hwc. change (get_co s1 c) with (get_co s c).
          destruct Hstc as [Hs|Hs]; rewrite Hs in Hwc; exact Hwc.
      + intros t' c' Ht' Hc'. rewrite (proj1 (Hth t')) in Hc'. destruct (Nat.eq_dec t t') as [<-|Hne].
        * rewrite Hcur1 in Hc'. injection Hc' as <-. left. exact Hst2.
        * unfold s1 in Hc'. rewrite get_thr_upd_thr_neq in Hc' by exact Hne.
          assert (c' <> c) as Hnc by (intros ->; destruct (v_cur _ _ _ HI t' c Ht' Hc') as [_ Hx]; congruence).
          rewrite Hco by exact Hnc. apply (HC t' c' Ht' Hc').
  Qed.

  Lemma all_deliver s t : ALL s -> (t < nthr)%nat -> ALL (deliver s t).
  Proof.
    intros (HI & HO & HW & HC & Ha) Ht.
    pose proof (inv_deliver nthr progs s t HI Ht) as HI'.
    assert (m_atomic (deliver s t) = true) as Ha'.
    { pose proof (atomic_mstep s (ASig t)) as Hx. cbn [mstep] in Hx. rewrite (v_nthr _ _ _ HI) in Hx.
      assert (Nat.ltb t nthr = true) as E by (apply Nat.ltb_lt, Ht). rewrite E in Hx. rewrite Hx. exact Ha. }
    split; [exact HI'|]. cut (OI nthr progs (deliver s t) /\ WFC progs (deliver s t) /\ cur_ok nthr (deliver s t)); [intros (X & Y & Z); split; [exact X | split; [exact Y | split; [exact Z | exact Ha']]]|].
    clear HI' Ha'. unfold deliver.
    destruct (t_pending (get_thr s t)); cbn [negb]; [|split; [exact HO | split; [exact HW | exact HC]]].
    assert (t_mid (get_thr s t) = None) as Hmid by (apply (v_atomic _ _ _ HI Ha), Ht). rewrite Hmid.
    assert (t < length (m_thr s))%nat as Htl by (rewrite (v_nthr _ _ _ HI); exact Ht).
    set (s1 := upd_thr s t (t_with_pending (get_thr s t) false)).
    set (s2 := with_log s1 (m_log s1 ++ [MSignal t])).
    assert (forall t', t_ready (get_thr s2 t') = t_ready (get_thr s t') /\ t_cur (get_thr s2 t') = t_cur (get_thr s t')) as Hth.
    { intro t'. change (get_thr s2 t') with (get_thr s1 t'). unfold s1. destruct (Nat.eq_dec t t') as [<-|Hne].
      - rewrite get_thr_upd_thr_eq by exact Htl. split; reflexivity.
      - rewrite get_thr_upd_thr_neq by exact Hne. split; reflexivity. }
    assert (INVM nthr progs s2) as HI2 by (apply inv_log; [apply inv_pending, HI | exact I]).
    assert (OI nthr progs s2) as HO2.
    { eapply (oi_quiet nthr progs s s2 (MSignal t) HO); [reflexivity | exact I | intro c; reflexivity | exact Hth]. }
    assert (WFC progs s2) as HW2 by exact HW.
    assert (cur_ok nthr s2) as HC2.
    { intros t' c' Ht' Hc'. rewrite (proj2 (Hth t')) in Hc'. apply (HC t' c' Ht' Hc'). }
    destruct (t_cur (get_thr s t)) as [c|] eqn:Hcur; [|split; [exact HO2 | split; [exact HW2 | exact HC2]]].
    destruct (c_st (get_co s2 c)) eqn:Hst; try (split; [exact HO2 | split; [exact HW2 | exact HC2]]).
    destruct (v_cur _ _ _ HI t c Ht Hcur) as [Hc _].
    apply (oib_yield s2 t c true HI2 HO2 HW2 Ha Ht).
    - rewrite (proj2 (Hth t)). exact Hcur.
    - exact Hst.
    - pose proof (HW c Hc) as Hwc. unfold wf_co in Hwc. change (get_co s2 c) with (get_co s c) in Hst |- *. rewrite Hst in Hwc. exact Hwc.
    - intros t' c' _ Ht' Hc'. apply (HC2 t' c' Ht' Hc').
  Qed.

  Lemma all_mstep s a : ALL s -> ALL (mstep s a).
  Proof.
    intros HA. pose proof HA as (HI & HO & HW & HC & Ha). destruct a as [t|d| |t]; cbn [mstep].
    - rewrite (v_nthr _ _ _ HI). destruct (Nat.ltb t nthr) eqn:E; [apply all_step_thread; [exact HA | apply Nat.ltb_lt, E] | exact HA].
    - split; [apply inv_tick, HI|]. split; [|split; [exact HW | split; [exact HC | exact Ha]]].
      apply (oi_same nthr progs s _ HO); [reflexivity | intro c; reflexivity | intro t; split; reflexivity].
    - pose proof (scan_facts s) as (S1 & S2 & S3 & S4 & _).
      assert (forall c, get_co (scan s) c = get_co s c) as Hco by (intro c; unfold get_co; rewrite S1; reflexivity).
      assert (m_log (scan s) = m_log s) as Hlog.
      { rewrite scan_eq. destruct (in_flight s); cbn [with_nodes m_log]; unfold scan_fold;
          (assert (forall l s0, m_log (fold_left (fun s1 n => if fst n <=? m_clock s1
                         then upd_thr s1 (snd n) (t_with_pending (get_thr s1 (snd n)) true) else s1) l s0) = m_log s0) as Hg;
           [induction l as [|n l IH]; intro s0; [reflexivity|]; cbn [fold_left]; rewrite IH; destruct (fst n <=? m_clock s0); reflexivity | apply Hg]). }
      split; [apply scan_inv, HI|]. split; [|split; [|split]].
      + apply (oi_same nthr progs s _ HO); [exact Hlog | intro c; rewrite Hco; reflexivity |].
        intro t. destruct (S4 t) as (A1 & A2 & _). split; assumption.
      + intros c Hc. rewrite Hco. apply HW, Hc.
      + intros t c Ht Hc. rewrite (proj1 (S4 t)) in Hc. rewrite Hco. apply (HC t c Ht Hc).
      + pose proof (atomic_mstep s AScan) as Hx. cbn [mstep] in Hx. rewrite Hx. exact Ha.
    - rewrite (v_nthr _ _ _ HI). destruct (Nat.ltb t nthr) eqn:E; [apply all_deliver; [exact HA | apply Nat.ltb_lt, E] | exact HA].
  Qed.

  Lemma all_mrun sched : forall s, ALL s -> ALL (mrun s sched).
  Proof.
    induction sched as [|a l IH]; intros s HA; [exact HA|]. change (mrun s (a :: l)) with (mrun (mstep s a) l). apply IH, all_mstep, HA.
  Qed.
End Trace.

(** * The initial state and the theorem *)
Definition wf_bodies (progs : list (nat * list instr)) : bool := forallb (fun p => wfb false (snd p)) progs.

Lemma map_fst_combine_seq {A} (l : list A) a : map fst (combine (seq a (length l)) l) = seq a (length l).
Proof. revert a. induction l as [|x l IH]; intro a; [reflexivity|]. cbn [length seq combine map fst]. rewrite IH. reflexivity. Qed.

Lemma NoDup_map_filter {A B} (g : A -> B) (f : A -> bool) l : NoDup (map g l) -> NoDup (map g (filter f l)).
Proof.
  induction l as [|x l IH]; intro H; [constructor|]. cbn [map] in H. inversion H as [|? ? Hn Hnd]. subst. cbn [filter].
  destruct (f x); [|apply IH, Hnd]. cbn [map]. constructor; [|apply IH, Hnd].
  intro Hin. apply Hn. apply in_map_iff in Hin as (y & Hy & Hf). apply filter_In in Hf as [Hf _]. apply in_map_iff. exists y. split; assumption.
Qed.

Lemma all_init clock nthr progs :
  wfp nthr progs = true -> wf_bodies progs = true -> ALL nthr progs (minit true clock nthr progs).
Proof.
  intros Hwf Hwb. split; [apply inv_init, Hwf|]. split; [|split; [|split; [|reflexivity]]].
  - constructor; cbn [minit m_log strip flat_map].
    + reflexivity.
    + intros c Hc. unfold orun. cbn [fold_left otrk0 o_st]. unfold bodies. rewrite map_length, get_co_init. cbn [c_st].
      rewrite nth_repeat. reflexivity.
    + unfold orun. cbn [fold_left otrk0 o_st]. unfold bodies. rewrite repeat_length, map_length. reflexivity.
    + intros t Ht. rewrite get_thr_init by exact Ht. cbn [t_ready t_cur]. split; [|split; [|discriminate]].
      * apply NoDup_map_filter. rewrite map_fst_combine_seq. apply seq_NoDup.
      * intros c _. rewrite get_co_init. left. reflexivity.
  - intros c Hc. unfold wf_co. rewrite get_co_init. cbn [c_st c_body]. unfold wf_bodies in Hwb. rewrite forallb_forall in Hwb.
    apply Hwb. unfold prog_of. apply nth_In, Hc.
  - intros t c Ht. rewrite get_thr_init by exact Ht. discriminate.
Qed.

(** every clause of the trace oracle holds on every run of the model with synchronised set
    operations: any schedule, any number of threads, any well-formed bodies *)
Theorem trace_ok : forall clock nthr progs sched,
  wfp nthr progs = true -> wf_bodies progs = true ->
  ok_events (bodies progs) (strip (m_log (mrun (minit true clock nthr progs) sched))) = true.
Proof.
  intros clock nthr progs sched Hwf Hwb.
  destruct (all_mrun nthr progs sched _ (all_init clock nthr progs Hwf Hwb)) as (_ & HO & _).
  exact (oi_ok _ _ _ HO).
Qed.
