(** C22 — Preemption interrupts long-running coroutines, never syscalls.

    The property as an executable oracle over an OBSERVED single-scheduler-thread trace (what the
    recording listener and the bodies themselves reported, with hook H6: is a notify node of this
    thread in the monitor's set right after the [MonitorListener] ran), and the lockstep replay
    that ties such a trace to the model: the trace must be a trace of [Monitor.mstep] under some
    choice of "the thread steps" / "time passes, the monitor scans, the signal is delivered". *)
From OCV Require Import Base.Prelude Misc.Monitor.
Open Scope Z_scope.

(** observed events: [MChange] (with the preempt flag unknown: always [false]), [MWork], [MYield] *)
Definition strip_ev (e : mev) : list mev :=
  match e with
  | MChange c old new _ f => [MChange c old new false f]
  | MWork c n => [MWork c n]
  | MYield c => [MYield c]
  | MSignal _ => []
  end.
Definition strip (l : list mev) : list mev := flat_map strip_ev l.

Definition mev_eqb (a b : mev) : bool :=
  match a, b with
  | MChange c o n p f, MChange c' o' n' p' f' =>
      Nat.eqb c c' && cst_eqb o o' && cst_eqb n n' && Bool.eqb p p' && Bool.eqb f f'
  | MWork c n, MWork c' n' => Nat.eqb c c' && (n =? n')
  | MYield c, MYield c' => Nat.eqb c c'
  | MSignal t, MSignal t' => Nat.eqb t t'
  | _, _ => false
  end.

(** * The oracle *)
Record otrk := {
  o_st : list cst;        (* state last reported for coroutine i *)
  o_ann : list bool;      (* it announced a cooperative yield and has not been suspended yet *)
  o_ok : bool;
  o_preempts : nat        (* suspensions that no body announced: preemptions *)
}.

Definition is_running (s : cst) : bool := match s with CRunning => true | _ => false end.
Definition is_done (s : cst) : bool := match s with CDone _ => true | _ => false end.

Definition oev (progs : list (list instr)) (k : otrk) (e : mev) : otrk :=
  match e with
  | MChange c old new _ f =>
      let cur := nth c (o_st k) CReady in
      let ann := nth c (o_ann k) false in
      let ok :=
        cst_eqb cur old                                     (* the listener saw the state we saw last *)
        && Bool.eqb f (is_running new)                      (* a node of the thread is in the set iff the coroutine is Running *)
        && match old, new with
           | CSyscall, CSuspend => false                    (* never suspended in a system-call state *)
           | CSyscall, CRunning => true
           | CSyscall, _ => false
           | CRunning, (CSuspend | CSyscall | CDone _) => true
           | (CReady | CSuspend), CRunning => true
           | _, _ => false
           end
        && match new with CDone r => r =? works (nth c progs []) | _ => true end   (* the result is the body's own *)
      in
      {| o_st := set_nth c new (o_st k);
         o_ann := set_nth c false (o_ann k);
         o_ok := o_ok k && ok;
         o_preempts := match old, new with
                       | CRunning, CSuspend => if ann then o_preempts k else S (o_preempts k)
                       | _, _ => o_preempts k
                       end |}
  | MWork c n => k
  | MYield c =>
      {| o_st := o_st k; o_ann := set_nth c true (o_ann k); o_ok := o_ok k; o_preempts := o_preempts k |}
  | MSignal _ => k
  end.

Definition otrk0 (n : nat) : otrk :=
  {| o_st := repeat CReady n; o_ann := repeat false n; o_ok := true; o_preempts := O |}.

Definition orun (progs : list (list instr)) (evs : list mev) : otrk := fold_left (oev progs) evs (otrk0 (length progs)).

(** per-event clauses (they hold on every prefix of a trace) *)
Definition ok_events (progs : list (list instr)) (evs : list mev) : bool := o_ok (orun progs evs).

(** position of the completion of coroutine [c] in the trace *)
Fixpoint done_pos (c : nat) (evs : list mev) (i : nat) : option nat :=
  match evs with
  | [] => None
  | MChange c' _ (CDone _) _ _ :: r => if Nat.eqb c c' then Some i else done_pos c r (S i)
  | _ :: r => done_pos c r (S i)
  end.

(** the whole observation: events, final results, nodes left in the set at the end, and — for the
    cases built to need a preemption — which coroutine has to complete before which *)
Definition ok_c22 (progs : list (list instr)) (evs : list mev) (results : list Z) (nodes_left : Z)
           (first_then : option (nat * nat)) : bool :=
  ok_events progs evs
  && forallb is_done (o_st (orun progs evs))                          (* everything completed *)
  && list_eqb Z.eqb results (map works progs)                          (* with the bodies' own results *)
  && (nodes_left =? 0)
  && match first_then with
     | Some (a, b) =>
         match done_pos a evs O, done_pos b evs O with
         | Some i, Some j => Nat.ltb i j
         | _, _ => false
         end
     | None => true
     end.

(** * Lockstep replay against the model (single scheduler thread 0, atomic set operations) *)
Definition clear_log (s : mst) : mst := with_log s [].
Definition is_nil {A} (l : list A) : bool := match l with [] => true | _ => false end.

Fixpoint is_prefix (a b : list mev) : bool :=
  match a, b with
  | [], _ => true
  | x :: a', y :: b' => mev_eqb x y && is_prefix a' b'
  | _ :: _, [] => false
  end.

(** time passes beyond the slice, the monitor scans, the signal is delivered *)
Definition preempt_seq : list act := [ATick SLICE; AScan; ASig 0].

Fixpoint replay (fuel : nat) (s : mst) (evs : list mev) : bool :=
  match evs with
  | [] => true
  | _ :: _ =>
      match fuel with
      | O => false
      | S f =>
          let s1 := mstep (clear_log s) (AStep 0) in
          let n1 := strip (m_log s1) in
          if negb (is_nil n1) && is_prefix n1 evs then replay f s1 (skipn (length n1) evs)
          else
            let s2 := mrun (clear_log s) preempt_seq in
            let n2 := strip (m_log s2) in
            if negb (is_nil n2) && is_prefix n2 evs then replay f s2 (skipn (length n2) evs)
            else false
      end
  end.

Definition progs0 (progs : list (list instr)) : list (nat * list instr) := map (fun b => (O, b)) progs.

(** the observed trace is a trace of the model, and the model has nothing left to do after it *)
Definition corr_c22 (progs : list (list instr)) (evs : list mev) : bool :=
  replay (S (length evs)) (minit true 0 1 (progs0 progs)) evs.

(** the model's own complete trace without any signal: every coroutine in turn *)
Definition quiet_sched (progs : list (list instr)) : list act :=
  repeat (AStep 0) (2 * length progs + fold_right Nat.add O (map (fun b => 2 * S (length b))%nat progs)).
