(** Proofs about the coroutine-local model (C25). *)
From OCV Require Import Base.Prelude Misc.Local Misc.LocalOracle.
From Coq Require Import ZifyBool ZifyNat Permutation.
Open Scope Z_scope.

(** ** one coroutine's map *)
Definition keys (m : lmap) : list Z := map fst m.

Lemma lm_get_in m k c : lm_get m k = Some c -> In k (keys m).
Proof.
  induction m as [|[k' c'] m IH]; cbn [lm_get keys map fst]; [discriminate|].
  destruct (Z.eqb_spec k' k) as [->|Hne]; intros H; [left; reflexivity | right; exact (IH H)].
Qed.

Lemma lm_get_notin m k : ~ In k (keys m) -> lm_get m k = None.
Proof.
  intros Hn. destruct (lm_get m k) eqn:E; [|reflexivity]. exfalso. exact (Hn (lm_get_in _ _ _ E)).
Qed.

Lemma lm_insert_old m k c : snd (lm_insert m k c) = lm_get m k.
Proof.
  induction m as [|[k' c'] m IH]; cbn [lm_insert lm_get]; [reflexivity|].
  destruct (k' =? k); [reflexivity|]. destruct (lm_insert m k c) as [m2 old]. exact IH.
Qed.

Lemma lm_insert_get m k c k' :
  lm_get (fst (lm_insert m k c)) k' = if k' =? k then Some c else lm_get m k'.
Proof.
  induction m as [|[k0 c0] m IH]; cbn [lm_insert lm_get fst].
  - rewrite (Z.eqb_sym k k'). reflexivity.
  - destruct (Z.eqb_spec k0 k) as [->|Hne]; cbn [lm_get fst].
    + rewrite (Z.eqb_sym k k'). destruct (k' =? k); reflexivity.
    + destruct (lm_insert m k c) as [m2 old]. cbn [lm_get fst] in *.
      destruct (Z.eqb_spec k0 k') as [->|Hne2].
      * destruct (Z.eqb_spec k' k); [contradiction | reflexivity].
      * exact IH.
Qed.

Lemma lm_insert_keys m k c x : In x (keys (fst (lm_insert m k c))) -> In x (keys m) \/ x = k.
Proof.
  induction m as [|[k0 c0] m IH]; cbn [lm_insert keys map fst].
  - intros [H|[]]; right; symmetry; exact H.
  - destruct (Z.eqb_spec k0 k) as [->|Hne]; cbn [keys map fst].
    + intros [H|H]; [right; symmetry; exact H | left; right; exact H].
    + destruct (lm_insert m k c) as [m2 old]. cbn [keys map fst] in *.
      intros [H|H]; [left; left; exact H|]. destruct (IH H) as [H1|H1]; [left; right; exact H1 | right; exact H1].
Qed.

Lemma lm_insert_nodup m k c : NoDup (keys m) -> NoDup (keys (fst (lm_insert m k c))).
Proof.
  induction m as [|[k0 c0] m IH]; cbn [lm_insert keys map fst]; intros Hn.
  - constructor; [intros [] | constructor].
  - apply NoDup_cons_iff in Hn as [Hnotin Hn'].
    destruct (Z.eqb_spec k0 k) as [->|Hne]; cbn [keys map fst].
    + constructor; assumption.
    + pose proof (lm_insert_keys m k c k0) as Hk. specialize (IH Hn').
      destruct (lm_insert m k c) as [m2 old]. cbn [keys map fst] in *.
      constructor; [|exact IH]. intros Hin. destruct (Hk Hin) as [H|H]; [exact (Hnotin H) | exact (Hne H)].
Qed.

Lemma lm_remove_old m k : snd (lm_remove m k) = lm_get m k.
Proof.
  induction m as [|[k' c'] m IH]; cbn [lm_remove lm_get]; [reflexivity|].
  destruct (k' =? k); [reflexivity|]. destruct (lm_remove m k) as [m2 old]. exact IH.
Qed.

Lemma lm_remove_keys m k x : In x (keys (fst (lm_remove m k))) -> In x (keys m).
Proof.
  induction m as [|[k0 c0] m IH]; cbn [lm_remove keys map fst]; [intros []|].
  destruct (k0 =? k); cbn [keys map fst].
  - intros H; right; exact H.
  - destruct (lm_remove m k) as [m2 old]. cbn [keys map fst] in *.
    intros [H|H]; [left; exact H | right; exact (IH H)].
Qed.

Lemma lm_remove_nodup m k : NoDup (keys m) -> NoDup (keys (fst (lm_remove m k))).
Proof.
  induction m as [|[k0 c0] m IH]; cbn [lm_remove keys map fst]; intros Hn; [constructor|].
  apply NoDup_cons_iff in Hn as [Hnotin Hn'].
  destruct (k0 =? k); cbn [keys map fst]; [exact Hn'|].
  pose proof (lm_remove_keys m k k0) as Hk. specialize (IH Hn').
  destruct (lm_remove m k) as [m2 old]. cbn [keys map fst] in *.
  constructor; [|exact IH]. intros Hin. exact (Hnotin (Hk Hin)).
Qed.

Lemma lm_remove_get m k k' : NoDup (keys m) ->
  lm_get (fst (lm_remove m k)) k' = if k' =? k then None else lm_get m k'.
Proof.
  induction m as [|[k0 c0] m IH]; cbn [lm_remove lm_get fst keys map]; intros Hn.
  - destruct (k' =? k); reflexivity.
  - apply NoDup_cons_iff in Hn as [Hnotin Hn'].
    destruct (Z.eqb_spec k0 k) as [->|Hne]; cbn [lm_get fst].
    + destruct (Z.eqb_spec k' k) as [E|Hne2].
      * subst k'. apply lm_get_notin. exact Hnotin.
      * destruct (Z.eqb_spec k k'); [congruence | reflexivity].
    + specialize (IH Hn'). destruct (lm_remove m k) as [m2 old]. cbn [lm_get fst] in *.
      destruct (Z.eqb_spec k0 k') as [->|Hne2].
      * destruct (Z.eqb_spec k' k); [contradiction | reflexivity].
      * exact IH.
Qed.

Lemma lm_write_keys m k v : keys (lm_write m k v) = keys m.
Proof.
  induction m as [|[k0 [id old]] m IH]; cbn [lm_write keys map fst]; [reflexivity|].
  destruct (k0 =? k); cbn [keys map fst]; [reflexivity|]. f_equal. exact IH.
Qed.

Lemma lm_write_get m k v k' :
  lm_get (lm_write m k v) k' =
  if k' =? k then match lm_get m k with Some (id, _) => Some (id, v) | None => None end
  else lm_get m k'.
Proof.
  induction m as [|[k0 [id old]] m IH]; cbn [lm_write lm_get].
  - destruct (k' =? k); reflexivity.
  - destruct (Z.eqb_spec k0 k) as [->|Hne]; cbn [lm_get].
    + rewrite (Z.eqb_sym k k'). destruct (k' =? k); reflexivity.
    + destruct (Z.eqb_spec k0 k') as [->|Hne2].
      * destruct (Z.eqb_spec k' k); [contradiction | reflexivity].
      * exact IH.
Qed.

(** ** positions in the coroutine table *)
Lemma nth_error_upd_same {A} (l : list A) i x y :
  nth_error l i = Some y -> nth_error (upd l i x) i = Some x.
Proof.
  revert i; induction l as [|a l IH]; intros [|i]; cbn [nth_error upd]; try discriminate; [reflexivity|].
  apply IH.
Qed.

Lemma nth_error_upd_other {A} (l : list A) i j x :
  i <> j -> nth_error (upd l i x) j = nth_error l j.
Proof.
  revert i j; induction l as [|a l IH]; intros [|i] [|j] Hne; cbn [nth_error upd]; try reflexivity.
  - contradiction.
  - apply IH. intros ->. apply Hne. reflexivity.
Qed.

Lemma nth_error_upd_at {A} (l : list A) i x :
  nth_error (upd l i x) i = match nth_error l i with Some _ => Some x | None => None end.
Proof.
  revert i; induction l as [|a l IH]; intros [|i]; cbn [nth_error upd]; try reflexivity. apply IH.
Qed.

Lemma nth_error_upd_eq {A} (l l' : list A) i x :
  nth_error l i = nth_error l' i -> nth_error (upd l i x) i = nth_error (upd l' i x) i.
Proof. intros H. rewrite !nth_error_upd_at, H. reflexivity. Qed.

Lemma upd_length {A} (l : list A) i x : length (upd l i x) = length l.
Proof. revert i; induction l as [|a l IH]; intros [|i]; cbn [upd length]; try reflexivity. f_equal. apply IH. Qed.

Lemma Forall_upd {A} (P : A -> Prop) l i x : Forall P l -> P x -> Forall P (upd l i x).
Proof.
  intros Hl Hx. revert i; induction Hl as [|a l Ha Hl IH]; intros [|i]; cbn [upd]; constructor; auto.
Qed.

Lemma get_co_ext s s' c :
  nth_error (st_cos s) (Z.to_nat c) = nth_error (st_cos s') (Z.to_nat c) -> get_co s c = get_co s' c.
Proof. intros H. unfold get_co. rewrite H. reflexivity. Qed.

Lemma get_co_some s c x : get_co s c = Some x ->
  0 <= c /\ nth_error (st_cos s) (Z.to_nat c) = Some x /\ co_alive x = true.
Proof.
  unfold get_co. destruct (Z.ltb_spec c 0); [discriminate|].
  destruct (nth_error (st_cos s) (Z.to_nat c)) as [y|]; [|discriminate].
  destruct (co_alive y) eqn:E; [|discriminate]. intros [= ->]. auto.
Qed.

(** the table after a call through coroutine [c] that rewrites its record to [y] *)
Lemma get_co_upd s c x y live c' : get_co s c = Some x ->
  get_co {| st_cos := upd (st_cos s) (Z.to_nat c) y; st_live := live |} c' =
  if c' =? c then (if co_alive y then Some y else None) else get_co s c'.
Proof.
  intros H. apply get_co_some in H as (Hc & Hn & _).
  unfold get_co at 1. cbn [st_cos].
  destruct (Z.eqb_spec c' c) as [->|Hne].
  - destruct (Z.ltb_spec c 0); [lia|]. rewrite (nth_error_upd_same _ _ _ _ Hn). reflexivity.
  - unfold get_co. destruct (Z.ltb_spec c' 0); [reflexivity|].
    rewrite nth_error_upd_other by lia. reflexivity.
Qed.

(** ** the model agrees with the specification map *)
Definition lookup (s : state) (c k : Z) : option cell :=
  match get_co s c with Some x => lm_get (co_map x) k | None => None end.

Definition Inv (s : state) (f : spec) : Prop :=
  (forall c k, lookup s c k = f c k) /\ Forall (fun x => NoDup (keys (co_map x))) (st_cos s).

Definition Alive (n : nat) (s : state) (gone : list Z) : Prop :=
  forall c, 0 <= c < Z.of_nat n -> memZ c gone = false -> get_co s c <> None.

Lemma option_cell_eqb_refl (x : option cell) : option_eqb cell_eqb x x = true.
Proof. destruct x as [[a b]|]; [|reflexivity]. unfold option_eqb, cell_eqb. cbn [fst snd]. rewrite !Z.eqb_refl. reflexivity. Qed.

Lemma Inv_nodup s f c x : Inv s f -> get_co s c = Some x -> NoDup (keys (co_map x)).
Proof.
  intros [_ Hall] H. apply get_co_some in H as (_ & Hn & _).
  rewrite Forall_forall in Hall. apply Hall. exact (nth_error_In _ _ Hn).
Qed.

Definition step_st (rel : bool) (s : state) (o : op) : state := fst (step rel s o).
Definition step_obs (rel : bool) (s : state) (o : op) : obs := snd (step rel s o).

Lemma run_from_cons rel s o ops :
  run_from rel s (o :: ops) = step_obs rel s o :: run_from rel (step_st rel s o) ops.
Proof. unfold step_obs, step_st. cbn [run_from]. destruct (step rel s o) as [s' r]. reflexivity. Qed.

Lemma final_from_cons rel s o ops : final_from rel s (o :: ops) = final_from rel (step_st rel s o) ops.
Proof. unfold step_st. cbn [final_from]. destruct (step rel s o) as [s' r]. reflexivity. Qed.

(** ** sorting and the identities a map holds *)
Definition opt_id (o : option cell) : list Z := match o with Some (i, _) => [i] | None => [] end.

Lemma insert_sorted_comm x y l :
  insert_sorted x (insert_sorted y l) = insert_sorted y (insert_sorted x l).
Proof.
  induction l as [|a l IH]; cbn [insert_sorted].
  - destruct (Z.leb_spec x y), (Z.leb_spec y x); try reflexivity; try lia.
    assert (x = y) by lia. subst. reflexivity.
  - destruct (Z.leb_spec y a), (Z.leb_spec x a); cbn [insert_sorted];
      repeat match goal with |- context [?p <=? ?q] => destruct (Z.leb_spec p q) end;
      try lia; try reflexivity.
    + assert (x = y) by lia. subst. reflexivity.
    + rewrite IH. reflexivity.
Qed.

Lemma sortZ_perm l l' : Permutation l l' -> sortZ l = sortZ l'.
Proof.
  induction 1 as [|x l l' _ IH|x y l|l l' l'' _ IH1 _ IH2]; cbn [sortZ fold_right].
  - reflexivity.
  - fold (sortZ l) (sortZ l'). rewrite IH. reflexivity.
  - apply insert_sorted_comm.
  - congruence.
Qed.

Lemma memZ_In x l : memZ x l = true <-> In x l.
Proof.
  induction l as [|y l IH]; cbn [memZ In]; [split; [discriminate | intros []]|].
  rewrite orb_true_iff, IH. destruct (Z.eqb_spec y x); intuition congruence.
Qed.

Lemma nodupZ_In x l : In x (nodupZ l) <-> In x l.
Proof.
  induction l as [|y l IH]; cbn [nodupZ]; [reflexivity|].
  destruct (memZ y l) eqn:E; cbn [In]; rewrite IH; [|reflexivity].
  apply memZ_In in E. intuition congruence.
Qed.

Lemma nodupZ_NoDup l : NoDup (nodupZ l).
Proof.
  induction l as [|y l IH]; cbn [nodupZ]; [constructor|].
  destruct (memZ y l) eqn:E; [exact IH|]. constructor; [|exact IH].
  rewrite nodupZ_In, <- memZ_In, E. discriminate.
Qed.

Lemma flat_map_ext_on {A B} (g h : A -> list B) l :
  (forall a, In a l -> g a = h a) -> flat_map g l = flat_map h l.
Proof.
  induction l as [|a l IH]; intros H; [reflexivity|]. cbn [flat_map].
  rewrite (H a (or_introl eq_refl)), IH; [reflexivity|]. intros b Hb. apply H. right. exact Hb.
Qed.

Lemma flat_map_nil {A B} (l : list A) : flat_map (fun _ => @nil B) l = [].
Proof. induction l as [|a l IH]; [reflexivity | exact IH]. Qed.

(** the identities a map holds are those found by looking up every key of a duplicate-free list
    that covers the map's keys *)
Lemma ids_by_lookup : forall m L, NoDup (keys m) -> NoDup L -> incl (keys m) L ->
  Permutation (ids m) (flat_map (fun k => opt_id (lm_get m k)) L).
Proof.
  induction m as [|[k0 [i0 v0]] m IH]; intros L Hm HL Hincl.
  - cbn [ids map lm_get opt_id]. rewrite flat_map_nil. reflexivity.
  - cbn [keys map fst] in Hm, Hincl. apply NoDup_cons_iff in Hm as [Hk0 Hm].
    assert (Hin : In k0 L) by (apply Hincl; left; reflexivity).
    apply in_split in Hin as (L1 & L2 & ->).
    pose proof (NoDup_remove_1 _ _ _ HL) as HL'. pose proof (NoDup_remove_2 _ _ _ HL) as Hk0L.
    assert (Hincl' : incl (keys m) (L1 ++ L2)).
    { intros k Hk. assert (Hne : k <> k0) by (intros ->; exact (Hk0 Hk)).
      specialize (Hincl k (or_intror Hk)). apply in_app_or in Hincl as [H|[H|H]];
        [apply in_or_app; left; exact H | congruence | apply in_or_app; right; exact H]. }
    specialize (IH (L1 ++ L2) Hm HL' Hincl').
    set (g := fun k => opt_id (lm_get ((k0, (i0, v0)) :: m) k)).
    assert (Hext : forall Lx, (forall k, In k Lx -> In k (L1 ++ L2)) ->
              flat_map g Lx = flat_map (fun k => opt_id (lm_get m k)) Lx).
    { intros Lx Hsub. apply flat_map_ext_on. intros k Hk. unfold g. cbn [lm_get].
      destruct (Z.eqb_spec k0 k) as [<-|]; [|reflexivity]. exfalso. exact (Hk0L (Hsub _ Hk)). }
    assert (E0 : g k0 = [i0]) by (unfold g; cbn [lm_get]; rewrite Z.eqb_refl; reflexivity).
    rewrite flat_map_app.
    change (Permutation (ids ((k0, (i0, v0)) :: m)) (flat_map g L1 ++ (g k0 ++ flat_map g L2))).
    rewrite (Hext L1) by (intros k Hk; apply in_or_app; left; exact Hk).
    rewrite (Hext L2) by (intros k Hk; apply in_or_app; right; exact Hk).
    rewrite E0. cbn [ids map fst snd app]. fold (ids m). rewrite IH, flat_map_app. apply Permutation_middle.
Qed.

(** every key a map holds was named by a call of the history *)
Definition KeysIn (ks : list Z) (s : state) : Prop :=
  Forall (fun x => incl (keys (co_map x)) ks) (st_cos s).

Lemma KeysIn_get ks s c x : KeysIn ks s -> get_co s c = Some x -> incl (keys (co_map x)) ks.
Proof.
  intros Hall H. apply get_co_some in H as (_ & Hn & _).
  unfold KeysIn in Hall. rewrite Forall_forall in Hall. apply Hall. exact (nth_error_In _ _ Hn).
Qed.

Lemma Inv_upd s f c x m live g :
  Inv s f -> get_co s c = Some x -> NoDup (keys m) ->
  (forall c' k', g c' k' = if c' =? c then lm_get m k' else f c' k') ->
  Inv (set_map s c m live) g.
Proof.
  intros [Hl Hall] Hx Hm Hg. split.
  - intros c' k'. unfold lookup, set_map. rewrite (get_co_upd _ _ _ _ _ _ Hx). cbn [co_alive].
    rewrite Hg. destruct (c' =? c); [reflexivity|]. apply Hl.
  - unfold set_map. cbn [st_cos]. apply Forall_upd; [exact Hall | exact Hm].
Qed.

Lemma step_keysin rel ks s o :
  KeysIn ks s -> incl (op_keys o) ks -> KeysIn ks (step_st rel s o).
Proof.
  intros HK Hop. unfold step_st.
  destruct o as [c k id v|c k|c k v|c k|c]; cbn [step op_keys] in *;
    destruct (get_co s c) as [x|] eqn:Hx; try exact HK;
    pose proof (KeysIn_get _ _ _ _ HK Hx) as Hkx.
  - pose proof (lm_insert_keys (co_map x) k (id, v)) as Hins.
    destruct (lm_insert (co_map x) k (id, v)) as [m old]. cbn [fst set_map] in *.
    apply Forall_upd; [exact HK|]. cbn [co_map]. intros y Hy.
    destruct (Hins y Hy) as [H| ->]; [exact (Hkx y H) | apply Hop; left; reflexivity].
  - cbn [fst set_map]. apply Forall_upd; [exact HK|]. cbn [co_map]. rewrite lm_write_keys. exact Hkx.
  - pose proof (lm_remove_keys (co_map x) k) as Hrem.
    destruct (lm_remove (co_map x) k) as [m old]. cbn [fst set_map] in *.
    apply Forall_upd; [exact HK|]. cbn [co_map]. intros y Hy. exact (Hkx y (Hrem y Hy)).
  - destruct rel; cbn [fst]; apply Forall_upd; try exact HK; cbn [dead co_map keys map]; intros y [].
Qed.

Lemma list_eqb_Z_refl (l : list Z) : list_eqb Z.eqb l l = true.
Proof. apply (list_eqb_eq Z.eqb); [intros a b; apply Z.eqb_eq | reflexivity]. Qed.

Lemma step_inv rel strict ks s f o :
  Inv s f -> get_co s (op_co o) <> None ->
  Inv (step_st rel s o) (spec_step f o)
  /\ ((strict = true -> rel = true /\ KeysIn ks s) -> ok_step strict ks f o (step_obs rel s o) = true).
Proof.
  intros HI Hsome. pose proof HI as [Hl Hall].
  unfold step_st, step_obs.
  destruct o as [c k id v|c k|c k v|c k|c]; cbn [op_co] in Hsome; cbn [step];
    destruct (get_co s c) as [x|] eqn:Hx; try contradiction; clear Hsome;
    pose proof (Inv_nodup _ _ _ _ HI Hx) as Hnd;
    assert (Hlk : forall k', lm_get (co_map x) k' = f c k')
      by (intros k'; rewrite <- Hl; unfold lookup; rewrite Hx; reflexivity).
  - (* Put *)
    pose proof (lm_insert_old (co_map x) k (id, v)) as Hold.
    pose proof (lm_insert_get (co_map x) k (id, v)) as Hget.
    pose proof (lm_insert_nodup (co_map x) k (id, v) Hnd) as Hnd'.
    destruct (lm_insert (co_map x) k (id, v)) as [m old]. cbn [fst snd] in *. split.
    + eapply Inv_upd; eauto. intros c' k'. cbn [spec_step]. unfold sp_set.
      destruct (Z.eqb_spec c' c) as [->|]; cbn [andb]; [|reflexivity].
      rewrite Hget. destruct (k' =? k); [reflexivity | symmetry; apply Hlk].
    + intros _. cbn [ok_step]. rewrite Hold, Hlk. apply option_cell_eqb_refl.
  - (* Get *)
    cbn [fst snd]. split; [exact HI|]. intros _. cbn [ok_step]. rewrite Hlk. apply option_cell_eqb_refl.
  - (* GetMut *)
    cbn [fst snd]. split.
    + eapply Inv_upd; eauto.
      * rewrite lm_write_keys. exact Hnd.
      * intros c' k'. rewrite lm_write_get. cbn [spec_step]. rewrite <- Hlk.
        destruct (lm_get (co_map x) k) as [[i0 v0]|] eqn:E.
        -- unfold sp_set. destruct (Z.eqb_spec c' c) as [->|]; cbn [andb]; [|reflexivity].
           destruct (k' =? k); [reflexivity | symmetry; apply Hlk].
        -- destruct (Z.eqb_spec c' c) as [->|]; [|reflexivity].
           destruct (Z.eqb_spec k' k) as [->|]; [rewrite <- Hlk; exact E | symmetry; apply Hlk].
    + intros _. cbn [ok_step]. rewrite Hlk. apply option_cell_eqb_refl.
  - (* Remove *)
    pose proof (lm_remove_old (co_map x) k) as Hold.
    pose proof (fun k' => lm_remove_get (co_map x) k k' Hnd) as Hget.
    pose proof (lm_remove_nodup (co_map x) k Hnd) as Hnd'.
    destruct (lm_remove (co_map x) k) as [m old]. cbn [fst snd] in *. split.
    + eapply Inv_upd; eauto. intros c' k'. cbn [spec_step]. unfold sp_set.
      destruct (Z.eqb_spec c' c) as [->|]; cbn [andb]; [|reflexivity].
      rewrite Hget. destruct (k' =? k); [reflexivity | symmetry; apply Hlk].
    + intros _. cbn [ok_step]. rewrite Hold, Hlk. apply option_cell_eqb_refl.
  - (* DropCo *)
    split.
    + destruct rel; cbn [fst]; (split;
        [ intros c' k'; unfold lookup; rewrite (get_co_upd _ _ _ _ _ _ Hx); cbn [co_alive spec_step];
          unfold sp_clear; destruct (c' =? c); [reflexivity | apply Hl]
        | cbn [st_cos]; apply Forall_upd; [exact Hall | constructor] ]).
    + intros Hrel. destruct strict; [|destruct rel; reflexivity].
      destruct (Hrel eq_refl) as [-> HK]. cbn [snd ok_step].
      (* the destructors that ran are those of the values the specification map still holds *)
      unfold stored_ids.
      rewrite (flat_map_ext_on _ (fun k0 => opt_id (lm_get (co_map x) k0)))
        by (intros k0 _; rewrite Hlk; destruct (f c k0) as [[i0 v0]|]; reflexivity).
      rewrite (sortZ_perm _ _ (ids_by_lookup (co_map x) (nodupZ ks) Hnd (nodupZ_NoDup ks)
                 (fun k0 Hk0 => proj2 (nodupZ_In k0 ks) (KeysIn_get _ _ _ _ HK Hx k0 Hk0)))).
      apply list_eqb_Z_refl.
Qed.

Lemma step_alive rel n s gone ids o ops :
  Alive n s gone -> wf_from n gone ids (o :: ops) = true ->
  get_co s (op_co o) <> None /\
  exists gone' ids', Alive n (step_st rel s o) gone' /\ wf_from n gone' ids' ops = true.
Proof.
  intros HA Hwf. cbn [wf_from] in Hwf.
  apply andb_true_iff in Hwf as [Hwf Hrest]. apply andb_true_iff in Hwf as [Hwf Hgone].
  apply andb_true_iff in Hwf as [H0 Hn].
  assert (Hc : get_co s (op_co o) <> None) by (apply HA; [lia | destruct (memZ (op_co o) gone); [discriminate | reflexivity]]).
  split; [exact Hc|].
  destruct (get_co s (op_co o)) as [x|] eqn:Hx; [clear Hc | contradiction].
  assert (Hkeep : forall y live, co_alive y = true ->
            Alive n {| st_cos := upd (st_cos s) (Z.to_nat (op_co o)) y; st_live := live |} gone).
  { intros y live Hy c Hrange Hg. rewrite (get_co_upd _ _ _ _ _ _ Hx). rewrite Hy.
    destruct (c =? op_co o); [discriminate | apply HA; assumption]. }
  unfold step_st.
  destruct o as [c k id v|c k|c k v|c k|c]; cbn [op_co] in *; cbn [step]; rewrite Hx.
  - apply andb_true_iff in Hrest as [_ Hrest].
    destruct (lm_insert (co_map x) k (id, v)) as [m old]. cbn [fst].
    exists gone, (id :: ids). split; [apply Hkeep; reflexivity | exact Hrest].
  - cbn [fst]. exists gone, ids. split; [exact HA | exact Hrest].
  - cbn [fst]. exists gone, ids. split; [apply Hkeep; reflexivity | exact Hrest].
  - destruct (lm_remove (co_map x) k) as [m old]. cbn [fst].
    exists gone, ids. split; [apply Hkeep; reflexivity | exact Hrest].
  - exists (c :: gone), ids. split; [|exact Hrest].
    intros c' Hrange Hg. cbn [memZ] in Hg. apply orb_false_iff in Hg as [Hne Hg].
    destruct rel; cbn [fst]; rewrite (get_co_upd _ _ _ _ _ _ Hx); rewrite (Z.eqb_sym c' c), Hne; apply HA; assumption.
Qed.

Lemma ok_run n rel strict ks : forall ops s f gone ids,
  Inv s f -> Alive n s gone -> wf_from n gone ids ops = true ->
  (strict = true -> rel = true /\ KeysIn ks s /\ incl (keys_of ops) ks) ->
  ok_from strict ks f ops (run_from rel s ops) = true.
Proof.
  induction ops as [|o ops IH]; intros s f gone ids HI HA Hwf Hstrict; [reflexivity|].
  rewrite run_from_cons. cbn [ok_from].
  destruct (step_alive rel _ _ _ _ _ _ HA Hwf) as (Hsome & gone' & ids' & HA' & Hwf').
  destruct (step_inv rel strict ks _ _ _ HI Hsome) as [HI' Hok].
  apply andb_true_iff. split.
  - apply Hok. intros Hs. destruct (Hstrict Hs) as (Hr & HK & _). auto.
  - eapply IH; eauto. intros Hs. destruct (Hstrict Hs) as (Hr & HK & Hincl).
    unfold keys_of in Hincl. cbn [flat_map] in Hincl. fold (keys_of ops) in Hincl.
    split; [exact Hr|]. split.
    + apply step_keysin; [exact HK | intros k Hk; apply Hincl, in_or_app; left; exact Hk].
    + intros k Hk. apply Hincl, in_or_app. right. exact Hk.
Qed.

Lemma nth_error_repeat {A} (x : A) n i : (i < n)%nat -> nth_error (repeat x n) i = Some x.
Proof.
  revert i; induction n as [|n IH]; intros [|i] H; cbn [repeat nth_error]; try lia; [reflexivity|].
  apply IH. lia.
Qed.

Lemma init_inv n : Inv (init n) spec0.
Proof.
  split.
  - intros c k. unfold lookup, get_co, init. cbn [st_cos]. destruct (c <? 0); [reflexivity|].
    destruct (nth_error (repeat co0 n) (Z.to_nat c)) as [x|] eqn:E; [|reflexivity].
    apply nth_error_In, repeat_spec in E. subst x. reflexivity.
  - unfold init. cbn [st_cos]. apply Forall_forall. intros x Hx. apply repeat_spec in Hx. subst x. constructor.
Qed.

Lemma init_alive n : Alive n (init n) [].
Proof.
  intros c Hc _. unfold get_co, init. cbn [st_cos]. destruct (Z.ltb_spec c 0); [lia|].
  rewrite nth_error_repeat by lia. discriminate.
Qed.

Theorem map_refinement n ops : wf_C25 n ops = true -> ok_maps_C25 n ops (run_C25 n ops) = true.
Proof.
  intros Hwf. unfold ok_maps_C25, run_C25.
  eapply ok_run; eauto using init_inv, init_alive. discriminate.
Qed.

Lemma init_keysin ks n : KeysIn ks (init n).
Proof.
  unfold KeysIn, init. cbn [st_cos]. apply Forall_forall. intros x Hx. apply repeat_spec in Hx. subst x.
  intros y [].
Qed.

(** the whole property, release on drop included, on every well-formed history *)
Theorem holds n ops : wf_C25 n ops = true -> ok_C25 n ops (run_C25 n ops) = true.
Proof.
  intros Hwf. unfold ok_C25, run_C25.
  eapply ok_run; eauto using init_inv, init_alive. intros _.
  split; [reflexivity|]. split; [apply init_keysin | apply incl_refl].
Qed.

(** before the repair of finding #27 the values a dropped coroutine still stored were leaked *)
Theorem refuted_before_repair :
  exists n ops, wf_C25 n ops = true /\ ok_C25 n ops (old_run_C25 n ops) = false.
Proof.
  exists 1%nat, [Put 0 0 1 10; Put 0 1 2 20; DropCo 0]. split; vm_compute; reflexivity.
Qed.

(** ... and nothing else was wrong with it: the map clauses held *)
Theorem old_map_refinement n ops : wf_C25 n ops = true -> ok_maps_C25 n ops (old_run_C25 n ops) = true.
Proof.
  intros Hwf. unfold ok_maps_C25, old_run_C25.
  eapply ok_run; eauto using init_inv, init_alive. discriminate.
Qed.

(** ** a read returns the latest write *)
Lemma wf_app_final rel n : forall h t s f gone ids,
  Inv s f -> Alive n s gone -> wf_from n gone ids (h ++ t) = true ->
  exists gone' ids', Inv (final_from rel s h) (fold_left spec_step h f)
                     /\ Alive n (final_from rel s h) gone' /\ wf_from n gone' ids' t = true.
Proof.
  induction h as [|o h IH]; intros t s f gone ids HI HA Hwf.
  - exists gone, ids. auto.
  - rewrite <- app_comm_cons in Hwf. rewrite final_from_cons. cbn [fold_left].
    destruct (step_alive rel _ _ _ _ _ _ HA Hwf) as (Hsome & gone' & ids' & HA' & Hwf').
    destruct (step_inv rel false [] _ _ _ HI Hsome) as [HI' _].
    eapply IH; eauto.
Qed.

Lemma run_from_app rel s h t :
  run_from rel s (h ++ t) = run_from rel s h ++ run_from rel (final_from rel s h) t.
Proof.
  revert s; induction h as [|o h IH]; intros s; [reflexivity|].
  rewrite <- app_comm_cons, !run_from_cons, final_from_cons, IH. reflexivity.
Qed.

Lemma spec_latest c k : forall h, fold_left spec_step h spec0 c k = latest c k (rev h).
Proof.
  induction h as [|o h IH] using rev_ind; [reflexivity|].
  rewrite fold_left_app, rev_app_distr. cbn [fold_left rev app latest].
  destruct o as [c' k' id v|c' k'|c' k' v|c' k'|c']; cbn [spec_step].
  - unfold sp_set. rewrite (Z.eqb_sym c c'), (Z.eqb_sym k k'), IH. reflexivity.
  - exact IH.
  - rewrite <- IH. clear IH. set (F := fold_left spec_step h spec0).
    destruct (Z.eqb_spec c' c) as [Ec|Hc]; cbn [andb].
    + destruct (Z.eqb_spec k' k) as [Ek|Hk].
      * subst c' k'. destruct (F c k) as [[i0 v0]|] eqn:E; [|exact E].
        unfold sp_set. rewrite !Z.eqb_refl. reflexivity.
      * destruct (F c' k') as [[i0 v0]|]; [|reflexivity]. unfold sp_set.
        destruct (Z.eqb_spec k k'); [congruence|]. rewrite andb_false_r. reflexivity.
    + destruct (F c' k') as [[i0 v0]|]; [|reflexivity]. unfold sp_set.
      destruct (Z.eqb_spec c c'); [congruence|]. reflexivity.
  - unfold sp_set. rewrite (Z.eqb_sym c c'), (Z.eqb_sym k k'), IH. reflexivity.
  - unfold sp_clear. rewrite (Z.eqb_sym c c'), IH. reflexivity.
Qed.

Theorem reads_latest n h c k :
  wf_C25 n (h ++ [Get c k]) = true ->
  last (run_C25 n (h ++ [Get c k])) OBad = ORes (latest c k (rev h)) [].
Proof.
  intros Hwf. unfold run_C25. rewrite run_from_app.
  destruct (wf_app_final true n h [Get c k] (init n) spec0 [] [] (init_inv n) (init_alive n) Hwf)
    as (gone' & ids' & [Hl _] & HA & Hwf').
  destruct (step_alive true _ _ _ _ _ _ HA Hwf') as (Hsome & _). cbn [op_co] in Hsome.
  cbn [run_from step]. destruct (get_co (final_from true (init n) h) c) as [x|] eqn:Hx; [|contradiction].
  rewrite last_last. f_equal. rewrite <- spec_latest, <- Hl. unfold lookup. rewrite Hx. reflexivity.
Qed.

(** ** privacy: what a coroutine observes does not depend on the calls of the others *)
Lemma step_other rel s o i : 0 <= op_co o -> i <> Z.to_nat (op_co o) ->
  nth_error (st_cos (step_st rel s o)) i = nth_error (st_cos s) i.
Proof.
  intros H0 Hne. unfold step_st.
  destruct o as [c k id v|c k|c k v|c k|c]; cbn [op_co] in *; cbn [step];
    destruct (get_co s c) as [x|]; try reflexivity.
  - destruct (lm_insert (co_map x) k (id, v)) as [m old]. cbn [fst set_map st_cos].
    apply nth_error_upd_other. auto.
  - cbn [fst set_map st_cos]. apply nth_error_upd_other. auto.
  - destruct (lm_remove (co_map x) k) as [m old]. cbn [fst set_map st_cos].
    apply nth_error_upd_other. auto.
  - destruct rel; cbn [fst st_cos]; apply nth_error_upd_other; auto.
Qed.

Lemma step_same rel s s' o :
  nth_error (st_cos s) (Z.to_nat (op_co o)) = nth_error (st_cos s') (Z.to_nat (op_co o)) ->
  step_obs rel s o = step_obs rel s' o
  /\ nth_error (st_cos (step_st rel s o)) (Z.to_nat (op_co o))
     = nth_error (st_cos (step_st rel s' o)) (Z.to_nat (op_co o)).
Proof.
  intros H. pose proof (get_co_ext _ _ _ H) as Hg. unfold step_obs, step_st.
  destruct o as [c k id v|c k|c k v|c k|c]; cbn [op_co] in *; cbn [step]; rewrite <- Hg;
    destruct (get_co s c) as [x|]; cbn [fst snd]; auto.
  - destruct (lm_insert (co_map x) k (id, v)) as [m old]. cbn [fst snd set_map st_cos].
    split; [reflexivity | apply nth_error_upd_eq; exact H].
  - cbn [set_map st_cos]. split; [reflexivity | apply nth_error_upd_eq; exact H].
  - destruct (lm_remove (co_map x) k) as [m old]. cbn [fst snd set_map st_cos].
    split; [reflexivity | apply nth_error_upd_eq; exact H].
  - destruct rel; cbn [fst snd st_cos]; (split; [reflexivity | apply nth_error_upd_eq; exact H]).
Qed.

Lemma private_gen rel c : 0 <= c -> forall ops s s',
  (forall o, In o ops -> 0 <= op_co o) ->
  nth_error (st_cos s) (Z.to_nat c) = nth_error (st_cos s') (Z.to_nat c) ->
  obs_of c ops (run_from rel s ops) = run_from rel s' (ops_of c ops).
Proof.
  intros Hc. induction ops as [|o ops IH]; intros s s' Hnn Heq; [reflexivity|].
  rewrite run_from_cons. cbn [obs_of ops_of filter].
  assert (Hnn' : forall o', In o' ops -> 0 <= op_co o') by (intros o' Ho'; apply Hnn; right; exact Ho').
  destruct (Z.eqb_spec (op_co o) c) as [E|E].
  - rewrite run_from_cons. subst c. destruct (step_same rel s s' o Heq) as [Ho Hs]. rewrite Ho. f_equal.
    apply IH; assumption.
  - apply IH; [assumption|]. rewrite step_other; [exact Heq | apply Hnn; left; reflexivity |].
    pose proof (Hnn o (or_introl eq_refl)). lia.
Qed.

Lemma wf_nonneg n : forall ops gone ids, wf_from n gone ids ops = true -> forall o, In o ops -> 0 <= op_co o.
Proof.
  induction ops as [|o ops IH]; intros gone ids Hwf o' Hin; [destruct Hin|].
  cbn [wf_from] in Hwf. apply andb_true_iff in Hwf as [Hwf Hrest]. apply andb_true_iff in Hwf as [Hwf _].
  apply andb_true_iff in Hwf as [H0 _]. destruct Hin as [<-|Hin]; [lia|].
  destruct o; try (eapply IH; eauto; fail).
  apply andb_true_iff in Hrest as [_ Hrest]. eapply IH; eauto.
Qed.

Theorem private n ops c : wf_C25 n ops = true -> 0 <= c ->
  obs_of c ops (run_C25 n ops) = run_C25 n (ops_of c ops).
Proof.
  intros Hwf Hc. unfold run_C25. apply private_gen; [exact Hc | eapply wf_nonneg; exact Hwf | reflexivity].
Qed.
