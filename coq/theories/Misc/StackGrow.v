(** Bookkeeping model of [Coroutine::maybe_grow_with] (core/src/coroutine/korosensei.rs) with
    [remaining_stack] / [stack_infos] (core/src/coroutine/mod.rs), as the code is now (after the
    repair of finding #26: the plain-thread path pops its segment on unwind, like the coroutine
    path; and of finding red_zone_counts_guard_page: the decision deducts the guard page).

    A stack segment is the mmap range [g_lim, g_top) of a [DefaultStack]: one guard page at the
    bottom, the usable part above it; [StackInfo.stack_bottom] is [g_lim] (guard page included).

    Coroutine path: the recorded list is the coroutine's [stack_infos] (starts with the
    coroutine's own stack). Plain-thread path: the recorded list is the thread-local [STACK_INFOS]
    (starts empty: the thread's own stack is never recorded, so the first call always grows).
    Decision: [sp - back.stack_bottom >= red_zone + stack_guard_size()] (one page on unix) -> run
    the callback where we are; otherwise allocate a segment, push it, run the callback at its top
    ([on_stack]), pop it when the callback returns or unwinds. A fault (stack exhausted) ends the
    execution without any pop.

    The parameter [gd] of [code_enough] / [rec_loop] / [exec] is what the decision deducts for the
    guard: [GUARD] (one page) in the code as it is, [0] before the repair of finding red_zone_counts_guard_page (kept for
    the [old_*] statements only).

    A callback is a program tree: position the stack pointer, nested grow calls, panic, catch,
    probes of the bookkeeping, and [PRec]: n nested levels of "grow, use a frame, recurse". *)
From OCV Require Import Base.Prelude.
Open Scope Z_scope.

Definition PAGE : Z := 4096.
Definition MINSZ : Z := 4096.
(** [DefaultStack::new]: the size plus a guard page, rounded up to whole pages *)
Definition mmap_len (size : Z) : Z := ((Z.max size MINSZ + 2 * PAGE - 1) / PAGE) * PAGE.
(** distance between the top of a fresh segment and the stack pointer at the start of the callback *)
Definition OVH : Z := 512.
(** [stack_guard_size()] on unix: the lowest page of the mapping *)
Definition GUARD : Z := PAGE.

Record seg := { g_lim : Z; g_top : Z }.

Inductive ctx := CThread | CCo.

Inductive prog :=
| PNil
| PPos (rem : Z) (body next : prog)             (* use stack until sp = limit + rem, run body there *)
| PGrow (rz size v : Z) (body next : prog)      (* maybe_grow_with(rz, size, || { body; v }) *)
| PPanic
| PCatch (body next : prog)                     (* catch_unwind(|| body) *)
| PProbe (next : prog)
| PRec (n : nat) (frame rz size : Z) (next : prog).

Inductive event :=
| EGrow (depth : Z) (enough grew : bool) (len : Z) (inb room : bool)
    (* at the start of a callback: grown segments active before the call; whether the stack the
       caller is really on had >= rz left; whether a fresh segment was used; the coroutine's
       reported number of segments (-1 on a plain thread); sp inside the last reported segment;
       usable bytes (guard page excluded) below sp >= rz *)
| ERet (ok : bool)                              (* the call returned Ok(v) with the callback's v *)
| EProbe (depth len : Z)
| ECaught
| ERec (room ret : bool)
| EPanicTop                                     (* a panic left the program *)
| EFault                                        (* memory fault: the thread / coroutine is gone *)
| EEnd.

Inductive outcome := ONormal | OPanic | OFault.

Record mstate := {
  m_base : seg;              (* the stack the program started on *)
  m_grown : list seg;        (* segments really in use above it, current first *)
  m_rec : list seg;          (* the list the code keeps, most recent ("back") first *)
  m_sp : Z;
  m_n : Z                    (* segments allocated so far *)
}.

Definition cur_seg (s : mstate) : seg := match m_grown s with g :: _ => g | [] => m_base s end.
Definition depth_of (s : mstate) : Z := Z.of_nat (length (m_grown s)).

(** a fresh segment: somewhere else in the address space *)
Definition alloc (s : mstate) (size : Z) : seg :=
  let lim := (m_n s + 2) * 4294967296 in {| g_lim := lim; g_top := lim + mmap_len size |}.

Definition set_sp (s : mstate) (sp : Z) : mstate :=
  {| m_base := m_base s; m_grown := m_grown s; m_rec := m_rec s; m_sp := sp; m_n := m_n s |}.

Definition push_seg (s : mstate) (g : seg) : mstate :=
  {| m_base := m_base s; m_grown := g :: m_grown s; m_rec := g :: m_rec s;
     m_sp := g_top g - OVH; m_n := m_n s + 1 |}.

(** the pop of the guard, back on the caller's stack at [sp] *)
Definition pop_seg (s : mstate) (sp : Z) : mstate :=
  {| m_base := m_base s; m_grown := tl (m_grown s); m_rec := tl (m_rec s); m_sp := sp; m_n := m_n s |}.

(** the decision of the code: [None] = the unsigned subtraction underflows (a stale entry of some
    other segment above the stack pointer): debug builds panic there *)
Definition code_enough (gd : Z) (s : mstate) (rz : Z) : option bool :=
  match m_rec s with
  | back :: _ => if m_sp s <? g_lim back then None else Some (rz + gd <=? m_sp s - g_lim back)
  | [] => Some false
  end.

Definition reported_len (c : ctx) (s : mstate) : Z :=
  match c with CCo => Z.of_nat (length (m_rec s)) | CThread => -1 end.
Definition in_back (c : ctx) (s : mstate) : bool :=
  match c, m_rec s with
  | CCo, back :: _ => (g_lim back <=? m_sp s) && (m_sp s <? g_top back)
  | CCo, [] => false
  | CThread, _ => true
  end.
Definition usable_room (s : mstate) : Z := m_sp s - (g_lim (cur_seg s) + PAGE).
(** what the harness reports as "the stack I am really on has >= rz usable bytes left" (unknown,
    reported false, for a plain thread that has not grown) *)
Definition enough_evt (c : ctx) (s : mstate) (rz : Z) : bool :=
  match c, m_grown s with
  | CThread, [] => false
  | _, _ => rz <=? usable_room s
  end.

(** n nested levels of: grow(rz, size, || { use [frame] bytes; next level }).
    Returns the outcome, the state, and whether every level started with the room it was promised
    (usable bytes, guard page not counted). *)
Fixpoint rec_loop (gd : Z) (n : nat) (frame rz size : Z) (s : mstate) : outcome * mstate * bool :=
  match n with
  | O => (ONormal, s, true)
  | S n' =>
      match code_enough gd s rz with
      | None => (OPanic, s, true)
      | Some true =>
          let sp0 := m_sp s in
          let room := rz <=? usable_room s in
          let s1 := set_sp s (sp0 - frame) in
          if m_sp s1 <? g_lim (cur_seg s1) + PAGE then (OFault, s1, room)
          else
            let '(o, s2, ok) := rec_loop gd n' frame rz size s1 in
            match o with
            | OFault => (OFault, s2, room && ok)
            | _ => (o, set_sp s2 sp0, room && ok)
            end
      | Some false =>
          let sp0 := m_sp s in
          let s0 := push_seg s (alloc s size) in
          let room := rz <=? usable_room s0 in
          let s1 := set_sp s0 (m_sp s0 - frame) in
          if m_sp s1 <? g_lim (cur_seg s1) + PAGE then (OFault, s1, room)
          else
            let '(o, s2, ok) := rec_loop gd n' frame rz size s1 in
            match o with
            | OFault => (OFault, s2, room && ok)
            | _ => (o, pop_seg s2 sp0, room && ok)
            end
      end
  end.

Fixpoint exec (gd : Z) (c : ctx) (p : prog) (s : mstate) : outcome * mstate * list event :=
  match p with
  | PNil => (ONormal, s, [])
  | PPos rem body next =>
      let sp0 := m_sp s in
      let target := g_lim (cur_seg s) + rem in
      let s1 := if target <? sp0 then set_sp s target else s in
      let '(o, s2, ev) := exec gd c body s1 in
      match o with
      | ONormal => let '(o3, s3, ev3) := exec gd c next (set_sp s2 sp0) in (o3, s3, ev ++ ev3)
      | OPanic => (OPanic, set_sp s2 sp0, ev)
      | OFault => (OFault, s2, ev)
      end
  | PGrow rz size v body next =>
      let sp0 := m_sp s in
      let d := depth_of s in
      let en := enough_evt c s rz in
      match code_enough gd s rz with
      | None => (OPanic, s, [])
      | Some true =>
          let e := EGrow d en false (reported_len c s) (in_back c s) (rz <=? usable_room s) in
          let '(o, s2, ev) := exec gd c body s in
          match o with
          | ONormal => let '(o3, s3, ev3) := exec gd c next s2 in (o3, s3, e :: ev ++ ERet true :: ev3)
          | OPanic => (OPanic, s2, e :: ev)
          | OFault => (OFault, s2, e :: ev)
          end
      | Some false =>
          let s1 := push_seg s (alloc s size) in
          let e := EGrow d en true (reported_len c s1) (in_back c s1) (rz <=? usable_room s1) in
          let '(o, s2, ev) := exec gd c body s1 in
          match o with
          | ONormal => let '(o3, s3, ev3) := exec gd c next (pop_seg s2 sp0) in (o3, s3, e :: ev ++ ERet true :: ev3)
          | OPanic => (OPanic, pop_seg s2 sp0, e :: ev)
          | OFault => (OFault, s2, e :: ev)
          end
      end
  | PPanic => (OPanic, s, [])
  | PCatch body next =>
      let '(o, s2, ev) := exec gd c body s in
      match o with
      | ONormal => let '(o3, s3, ev3) := exec gd c next s2 in (o3, s3, ev ++ ev3)
      | OPanic => let '(o3, s3, ev3) := exec gd c next s2 in (o3, s3, ev ++ ECaught :: ev3)
      | OFault => (OFault, s2, ev)
      end
  | PProbe next =>
      let '(o3, s3, ev3) := exec gd c next s in (o3, s3, EProbe (depth_of s) (reported_len c s) :: ev3)
  | PRec n frame rz size next =>
      let '(o, s2, ok) := rec_loop gd n frame rz size s in
      match o with
      | ONormal => let '(o3, s3, ev3) := exec gd c next s2 in (o3, s3, ERec ok true :: ev3)
      | OPanic => (OPanic, s2, [])
      | OFault => (OFault, s2, [])
      end
  end.

(** the program starts near the top of a stack of [stack] bytes: a coroutine's own
    [DefaultStack] (recorded), or a plain thread's stack (not recorded) *)
Definition START : Z := 32768.
Definition init (c : ctx) (stack : Z) : mstate :=
  let lim := 4294967296 in
  let base := {| g_lim := lim; g_top := lim + mmap_len stack |} in
  {| m_base := base; m_grown := []; m_rec := match c with CCo => [base] | CThread => [] end;
     m_sp := g_top base - START; m_n := 0 |}.
