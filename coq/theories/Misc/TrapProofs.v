(** Proofs for C24: classification of the faulting stack pointer and isolation on the scheduler model. *)
From OCV Require Import Base.Prelude Misc.Trap Misc.TrapOracle.
From Coq Require Import ZifyBool ZifyNat.
Open Scope Z_scope.

(** ** classification *)
Lemma in_bounds_existsb segs sp : in_bounds segs sp = existsb (contains sp) segs.
Proof.
  induction segs as [|g segs IH]; [reflexivity|]. cbn [in_bounds existsb]. unfold contains at 1.
  destruct ((t_bot g <=? sp) && (sp <? t_top g)); [reflexivity | exact IH].
Qed.

Theorem classification segs sp :
  (classify segs sp = EOverflow <-> forall g, In g segs -> ~ (t_bot g <= sp < t_top g))
  /\ (classify segs sp = EInvalid <-> exists g, In g segs /\ t_bot g <= sp < t_top g).
Proof.
  unfold classify. rewrite in_bounds_existsb. destruct (existsb (contains sp) segs) eqn:E.
  - apply existsb_exists in E as (g & Hin & Hc). unfold contains in Hc.
    split; split; try discriminate; intros H.
    + exfalso. apply (H g Hin). lia.
    + exists g. split; [exact Hin | lia].
    + reflexivity.
  - split; split; try discriminate; intros H.
    + intros g Hin Hc. assert (existsb (contains sp) segs = true); [|congruence].
      apply existsb_exists. exists g. split; [exact Hin|]. unfold contains. lia.
    + reflexivity.
    + destruct H as (g & Hin & Hc). assert (existsb (contains sp) segs = true); [|congruence].
      apply existsb_exists. exists g. split; [exact Hin|]. unfold contains. lia.
Qed.

Lemma probes_agree pr : corr_probe pr = ok_probe pr.
Proof. destruct pr as [[segs sp] r]. unfold corr_probe, ok_probe. rewrite in_bounds_existsb. reflexivity. Qed.

(** ** one coroutine alone: run to the end, ignoring suspends *)
Fixpoint solo (id : nat) (todo : list instr) (fin : term) (segs : list seg) (cur : seg) (logs : Z)
  : result * list (nat * Z) :=
  match todo with
  | [] => (finish fin, [])
  | ILog :: rest => let '(r, l) := solo id rest fin segs cur (logs + 1) in (r, (id, logs) :: l)
  | ISuspend :: rest => solo id rest fin segs cur logs
  | IGrow :: rest =>
      let g := seg_no (Z.of_nat id * 16 + Z.of_nat (length segs)) in solo id rest fin (segs ++ [g]) g logs
  | IFault k :: _ =>
      let c := {| c_id := id; c_todo := []; c_fin := fin; c_segs := segs; c_cur := cur; c_logs := logs |} in
      (RErr (classify segs (fault_sp c k)), [])
  end.

Definition solo_of (c : costate) : result * list (nat * Z) :=
  solo (c_id c) (c_todo c) (c_fin c) (c_segs c) (c_cur c) (c_logs c).

Lemma slice_solo id : forall todo fin segs cur logs e l,
  slice id todo fin segs cur logs = (e, l) ->
  match e with
  | Finished r => solo id todo fin segs cur logs = (r, l)
  | Suspended c' =>
      c_id c' = id /\ solo id todo fin segs cur logs = (fst (solo_of c'), l ++ snd (solo_of c'))
      /\ S (suspends (c_todo c')) = suspends todo
  end.
Proof.
  induction todo as [|i todo IH]; intros fin segs cur logs e l H; cbn [slice] in H.
  - injection H as <- <-. reflexivity.
  - destruct i as [| | |k].
    + destruct (slice id todo fin segs cur (logs + 1)) as [e2 l2] eqn:E. injection H as <- <-.
      specialize (IH _ _ _ _ _ _ E). cbn [solo]. destruct e2 as [c'|r].
      * destruct IH as (Hid & Hs & Hn). rewrite Hs. split; [exact Hid|]. split; [reflexivity | exact Hn].
      * rewrite IH. reflexivity.
    + injection H as <- <-. split; [reflexivity|]. cbn [solo app]. unfold solo_of. cbn [c_id c_todo c_fin c_segs c_cur c_logs].
      split; [destruct (solo id todo fin segs cur logs); reflexivity | reflexivity].
    + specialize (IH _ _ _ _ _ _ H). cbn [solo]. exact IH.
    + injection H as <- <-. reflexivity.
Qed.

Lemma solo_logs_own id : forall todo fin segs cur logs x, In x (snd (solo id todo fin segs cur logs)) -> fst x = id.
Proof.
  induction todo as [|i todo IH]; intros fin segs cur logs x H; cbn [solo] in H; [destruct H|].
  destruct i as [| | |k].
  - destruct (solo id todo fin segs cur (logs + 1)) as [r l] eqn:E. cbn [snd] in H. destruct H as [<-|H]; [reflexivity|].
    apply (IH fin segs cur (logs + 1)). rewrite E. exact H.
  - eapply IH; eauto.
  - eapply IH; eauto.
  - destruct H.
Qed.

Lemma slice_logs_own id todo fin segs cur logs e l x :
  slice id todo fin segs cur logs = (e, l) -> In x l -> fst x = id.
Proof.
  intros H Hin. pose proof (slice_solo id _ _ _ _ _ _ _ H) as Hs. destruct e as [c'|r].
  - destruct Hs as (_ & Hs & _). apply (solo_logs_own id todo fin segs cur logs). rewrite Hs. cbn [snd].
    apply in_or_app. left. exact Hin.
  - apply (solo_logs_own id todo fin segs cur logs). rewrite Hs. exact Hin.
Qed.

(** ** the scheduler *)
Definition logs_for (i : nat) (l : list (nat * Z)) : list Z :=
  map snd (filter (fun x => Nat.eqb (fst x) i) l).

Lemma logs_for_app i a b : logs_for i (a ++ b) = logs_for i a ++ logs_for i b.
Proof. unfold logs_for. rewrite filter_app, map_app. reflexivity. Qed.

Lemma logs_for_own i l : (forall x, In x l -> fst x = i) -> logs_for i l = map snd l.
Proof.
  intros H. unfold logs_for. f_equal. induction l as [|x l IH]; [reflexivity|]. cbn [filter].
  rewrite (H x (or_introl eq_refl)), Nat.eqb_refl. f_equal. apply IH. intros y Hy. apply H. right. exact Hy.
Qed.

Lemma logs_for_other i j l : (forall x, In x l -> fst x = j) -> i <> j -> logs_for i l = [].
Proof.
  intros H Hne. unfold logs_for. induction l as [|x l IH]; [reflexivity|]. cbn [filter].
  rewrite (H x (or_introl eq_refl)). destruct (Nat.eqb_spec j i); [congruence|].
  apply IH. intros y Hy. apply H. right. exact Hy.
Qed.

Lemma NoDup_snoc {A} (l : list A) x : NoDup l -> ~ In x l -> NoDup (l ++ [x]).
Proof.
  intros Hl Hx. induction Hl as [|a l Ha Hl IH]; cbn [app]; [constructor; [intros [] | constructor]|].
  constructor.
  - intros H. apply in_app_or in H as [H|[H|[]]]; [exact (Ha H)|]. apply Hx. left. symmetry. exact H.
  - apply IH. intros H. apply Hx. right. exact H.
Qed.

Definition measure (q : list costate) : nat :=
  fold_right (fun c acc => (1 + suspends (c_todo c) + acc)%nat) O q.

Lemma measure_app a b : measure (a ++ b) = (measure a + measure b)%nat.
Proof. induction a as [|c a IH]; [reflexivity|]. cbn [app measure fold_right]. fold (measure (a ++ b)) (measure a). lia. Qed.

Lemma sched_acc : forall fuel q res log,
  sched fuel q res log =
  match sched fuel q [] [] with Some (r, l) => Some (res ++ r, log ++ l) | None => None end.
Proof.
  induction fuel as [|fuel IH]; intros q res log; destruct q as [|c q]; cbn [sched]; try reflexivity.
  - rewrite !app_nil_r. reflexivity.
  - rewrite !app_nil_r. reflexivity.
  - destruct (resume c) as [[c'|r] l].
    + rewrite (IH _ res (log ++ l)), (IH _ [] ([] ++ l)). destruct (sched fuel (q ++ [c']) [] []) as [[r2 l2]|]; [|reflexivity].
      cbn [app]. rewrite app_assoc. reflexivity.
    + rewrite (IH _ (res ++ [(c_id c, r)]) (log ++ l)), (IH _ ([] ++ [(c_id c, r)]) ([] ++ l)).
      destruct (sched fuel q [] []) as [[r2 l2]|]; [|reflexivity].
      cbn [app]. rewrite <- !app_assoc. reflexivity.
Qed.

(** what a finished scheduling call says about every coroutine that was in the queue *)
Definition covers (q : list costate) (r : list (nat * result)) (l : list (nat * Z)) : Prop :=
  (forall c, In c q -> lookup_res (c_id c) r = Some (fst (solo_of c))
                       /\ logs_for (c_id c) l = map snd (snd (solo_of c)))
  /\ (forall i, ~ In i (map c_id q) -> lookup_res i r = None /\ logs_for i l = []).

Lemma sched_spec : forall fuel q,
  (measure q <= fuel)%nat -> NoDup (map c_id q) ->
  exists r l, sched fuel q [] [] = Some (r, l) /\ covers q r l.
Proof.
  induction fuel as [|fuel IH]; intros q Hm Hnd; destruct q as [|c q].
  - exists [], []. split; [reflexivity|]. split; [intros c []|]. intros i _. split; reflexivity.
  - cbn [measure fold_right] in Hm. lia.
  - exists [], []. split; [reflexivity|]. split; [intros c []|]. intros i _. split; reflexivity.
  - cbn [sched]. unfold resume. destruct (slice (c_id c) (c_todo c) (c_fin c) (c_segs c) (c_cur c) (c_logs c)) as [e lc] eqn:Es.
    pose proof (slice_solo _ _ _ _ _ _ _ _ Es) as Hs.
    pose proof (fun x => slice_logs_own _ _ _ _ _ _ _ _ x Es) as Hown.
    cbn [map] in Hnd. apply NoDup_cons_iff in Hnd as [Hnotin Hnd'].
    cbn [measure fold_right] in Hm. fold (measure q) in Hm.
    destruct e as [c'|x].
    + destruct Hs as (Hid & Hsolo & Hsus).
      assert (Hnd2 : NoDup (map c_id (q ++ [c']))).
      { rewrite map_app. cbn [map]. rewrite Hid. apply NoDup_snoc; assumption. }
      assert (Hm2 : (measure (q ++ [c']) <= fuel)%nat).
      { rewrite measure_app. cbn [measure fold_right]. lia. }
      destruct (IH _ Hm2 Hnd2) as (r & l & Hrun & Hcov & Hout); unfold covers.
      rewrite (sched_acc fuel (q ++ [c']) [] ([] ++ lc)), Hrun. cbn [app].
      exists r, (lc ++ l). split; [reflexivity|]. split.
      * intros d [<-|Hd].
        -- destruct (Hcov c' ltac:(apply in_or_app; right; left; reflexivity)) as [H1 H2].
           rewrite Hid in *. unfold solo_of at 1 2. rewrite Hsolo. cbn [fst snd]. split; [exact H1|].
           rewrite logs_for_app, H2, map_app. f_equal. apply logs_for_own. exact Hown.
        -- destruct (Hcov d ltac:(apply in_or_app; left; exact Hd)) as [H1 H2]. split; [exact H1|].
           rewrite logs_for_app, H2. rewrite (logs_for_other _ (c_id c)); [reflexivity | exact Hown |].
           intros E. apply Hnotin. rewrite <- E. apply in_map. exact Hd.
      * intros i Hi. cbn [map] in Hi.
        assert (Hi2 : ~ In i (map c_id (q ++ [c']))).
        { rewrite map_app. cbn [map]. rewrite Hid. intros H. apply in_app_or in H as [H|[H|[]]]; apply Hi; [right; exact H | left; exact H]. }
        destruct (Hout i Hi2) as [H1 H2]. split; [exact H1|].
        rewrite logs_for_app, H2. rewrite (logs_for_other _ (c_id c)); [reflexivity | exact Hown |].
        intros E. apply Hi. left. congruence.
    + assert (Hm2 : (measure q <= fuel)%nat) by lia.
      destruct (IH _ Hm2 Hnd') as (r & l & Hrun & Hcov & Hout); unfold covers.
      rewrite (sched_acc fuel q ([] ++ [(c_id c, x)]) ([] ++ lc)), Hrun. cbn [app].
      exists ((c_id c, x) :: r), (lc ++ l). split; [reflexivity|]. split.
      * intros d [<-|Hd].
        -- cbn [lookup_res]. rewrite Nat.eqb_refl. unfold solo_of. rewrite Hs. cbn [fst snd]. split; [reflexivity|].
           destruct (Hout (c_id c) Hnotin) as [_ H2]. rewrite logs_for_app, H2, app_nil_r.
           apply logs_for_own. exact Hown.
        -- destruct (Hcov d Hd) as [H1 H2]. cbn [lookup_res].
           destruct (Nat.eqb_spec (c_id c) (c_id d)) as [E|E].
           ++ exfalso. apply Hnotin. rewrite E. apply in_map. exact Hd.
           ++ split; [exact H1|]. rewrite logs_for_app, H2.
              rewrite (logs_for_other _ (c_id c)); [reflexivity | exact Hown | congruence].
      * intros i Hi. cbn [map] in Hi. destruct (Hout i ltac:(intros H; apply Hi; right; exact H)) as [H1 H2].
        cbn [lookup_res]. destruct (Nat.eqb_spec (c_id c) i) as [E|E]; [exfalso; apply Hi; left; exact E|].
        split; [exact H1|]. rewrite logs_for_app, H2.
        rewrite (logs_for_other _ (c_id c)); [reflexivity | exact Hown | congruence].
Qed.

(** ** what a coroutine ends with, read off its own program *)
Definition segs_good (segs : list seg) (cur : seg) : Prop :=
  In cur segs /\ Forall (fun g => 4294967296 <= t_bot g /\ t_top g = t_bot g + SEGLEN) segs.

Lemma count_up_snoc k n : count_up k (S n) = k :: count_up (k + 1) n.
Proof. reflexivity. Qed.

Lemma classify_expected segs cur id fin logs k :
  segs_good segs cur -> wf_instr (IFault k) = true ->
  classify segs (fault_sp {| c_id := id; c_todo := []; c_fin := fin; c_segs := segs; c_cur := cur; c_logs := logs |} k)
  = expected_msg k.
Proof.
  intros [Hin Hall] Hwf. rewrite Forall_forall in Hall. pose proof (Hall cur Hin) as [Hb Ht].
  pose proof (classification segs) as Hc. unfold SEGLEN in *.
  destruct k; cbn [fault_sp expected_msg c_cur wf_instr] in *.
  1-4: apply (proj2 (Hc _)); exists cur; split; [exact Hin | lia].
  apply (proj1 (Hc _)). intros g Hg. destruct (Hall g Hg) as [Hb' Ht']. lia.
Qed.

Lemma solo_expected id : forall body fin segs cur logs,
  forallb wf_instr body = true -> segs_good segs cur ->
  let '(r, n) := expected body fin logs in
  logs <= n /\ solo id body fin segs cur logs = (r, map (pair id) (count_up logs (Z.to_nat (n - logs)))).
Proof.
  induction body as [|i body IH]; intros fin segs cur logs Hwf HG; cbn [expected solo].
  - split; [lia|]. rewrite Z.sub_diag. reflexivity.
  - cbn [forallb] in Hwf. apply andb_true_iff in Hwf as [Hwi Hwf].
    destruct i as [| | |k].
    + specialize (IH fin segs cur (logs + 1) Hwf HG). destruct (expected body fin (logs + 1)) as [r n].
      destruct IH as [Hle Hs]. split; [lia|]. rewrite Hs.
      replace (Z.to_nat (n - logs)) with (S (Z.to_nat (n - (logs + 1)))) by lia. reflexivity.
    + exact (IH fin segs cur logs Hwf HG).
    + apply IH; [exact Hwf|]. destruct HG as [Hin Hall]. split; [apply in_or_app; right; left; reflexivity|].
      apply Forall_app. split; [exact Hall|]. constructor; [|constructor].
      unfold seg_no. cbn [t_bot t_top]. split; [lia | reflexivity].
    + split; [lia|]. rewrite Z.sub_diag. cbn [Z.to_nat count_up map]. f_equal. f_equal.
      apply classify_expected; assumption.
Qed.

Lemma co_init_good id p : segs_good (c_segs (co_init id p)) (c_cur (co_init id p)).
Proof.
  unfold co_init, segs_good. cbn [c_segs c_cur]. split; [left; reflexivity|]. constructor; [|constructor].
  unfold seg_no. cbn [t_bot t_top]. split; [lia | reflexivity].
Qed.

Lemma solo_of_init id p : forallb wf_instr (p_body p) = true ->
  let '(r, n) := expected (p_body p) (p_fin p) 0 in
  solo_of (co_init id p) = (r, map (pair id) (count_up 0 (Z.to_nat n))).
Proof.
  intros Hwf. pose proof (solo_expected id (p_body p) (p_fin p) _ _ 0 Hwf (co_init_good id p)) as H.
  unfold solo_of. cbn [co_init c_id c_todo c_fin c_segs c_cur c_logs] in *.
  destruct (expected (p_body p) (p_fin p) 0) as [r n]. destruct H as [_ H]. rewrite Z.sub_0_r in H. exact H.
Qed.

(** ** one scheduling call, as observations *)
Lemma init_queue_ids first progs : map c_id (init_queue first progs) = seq first (length progs).
Proof.
  revert first; induction progs as [|p ps IH]; intros first; [reflexivity|].
  cbn [init_queue map length seq]. f_equal. apply IH.
Qed.

Lemma init_queue_measure first progs : measure (init_queue first progs) = fuel_of progs.
Proof.
  revert first; induction progs as [|p ps IH]; intros first; [reflexivity|].
  cbn [init_queue measure fuel_of fold_right]. fold (measure (init_queue (S first) ps)) (fuel_of ps).
  rewrite IH. reflexivity.
Qed.

Lemma init_queue_nth first progs j p :
  nth_error progs j = Some p -> In (co_init (first + j) p) (init_queue first progs).
Proof.
  revert first j; induction progs as [|q ps IH]; intros first [|j] H; cbn [nth_error] in H; try discriminate.
  - injection H as ->. rewrite Nat.add_0_r. left. reflexivity.
  - right. replace (first + S j)%nat with (S first + j)%nat by lia. apply IH. exact H.
Qed.

Lemma logs_of_app i a b : logs_of i (a ++ b) = logs_of i a ++ logs_of i b.
Proof. unfold logs_of. apply flat_map_app. Qed.
Lemma res_of_app i a b : res_of i (a ++ b) = res_of i a ++ res_of i b.
Proof. unfold res_of. apply flat_map_app. Qed.

Lemma logs_of_logs i l : logs_of i (map (fun '(j, k) => OLog j k) l) = logs_for i l.
Proof.
  unfold logs_of, logs_for. induction l as [|[j k] l IH]; [reflexivity|]. cbn [map flat_map filter fst].
  destruct (Nat.eqb j i); cbn [app map snd]; rewrite IH; reflexivity.
Qed.
Lemma res_of_logs i l : res_of i (map (fun '(j, k) => OLog j k) l) = [].
Proof. unfold res_of. induction l as [|[j k] l IH]; [reflexivity|]. cbn [map flat_map app]. exact IH. Qed.
Lemma logs_of_results i first n res : logs_of i (results_obs first n res) = [].
Proof.
  unfold results_obs, logs_of. generalize (seq first n). intros l. induction l as [|a l IH]; [reflexivity|].
  cbn [map flat_map app]. exact IH.
Qed.
Lemma res_of_results i res : forall n first,
  res_of i (results_obs first n res) =
  if (first <=? i)%nat && (i <? first + n)%nat then [lookup_res i res] else [].
Proof.
  unfold results_obs, res_of. induction n as [|n IH]; intros first; cbn [seq map flat_map].
  - destruct ((first <=? i)%nat && (i <? first + 0)%nat) eqn:E; [lia | reflexivity].
  - rewrite IH. destruct (Nat.eqb_spec first i) as [->|Hne].
    + assert (E1 : ((i <=? i)%nat && (i <? i + S n)%nat) = true) by lia. rewrite E1.
      assert (E2 : ((S i <=? i)%nat && (i <? S i + n)%nat) = false) by lia. rewrite E2. reflexivity.
    + cbn [app]. destruct ((S first <=? i)%nat && (i <? S first + n)%nat) eqn:E1;
        destruct ((first <=? i)%nat && (i <? first + S n)%nat) eqn:E2; try reflexivity; lia.
Qed.

Lemma bad_logs l : existsb bad_obs (map (fun '(j, k) => OLog j k) l) = false.
Proof. induction l as [|[j k] l IH]; [reflexivity|]. cbn [map existsb bad_obs orb]. exact IH. Qed.
Lemma bad_results first n res : existsb bad_obs (results_obs first n res) = false.
Proof.
  unfold results_obs. generalize (seq first n). intros l. induction l as [|a l IH]; [reflexivity|].
  cbn [map existsb bad_obs orb]. exact IH.
Qed.

Lemma round_spec first progs : wf_C24 progs = true ->
  let os := round_obs first progs in
  existsb bad_obs os = false
  /\ (forall j p, nth_error progs j = Some p ->
        let '(r, n) := expected (p_body p) (p_fin p) 0 in
        logs_of (first + j) os = count_up 0 (Z.to_nat n) /\ res_of (first + j) os = [Some r])
  /\ (forall i, (i < first \/ first + length progs <= i)%nat -> logs_of i os = [] /\ res_of i os = []).
Proof.
  intros Hwf. unfold round_obs.
  assert (Hnd : NoDup (map c_id (init_queue first progs))) by (rewrite init_queue_ids; apply seq_NoDup).
  assert (Hm : (measure (init_queue first progs) <= fuel_of progs)%nat) by (rewrite init_queue_measure; lia).
  destruct (sched_spec _ _ Hm Hnd) as (r & l & Hrun & Hcov & Hout). rewrite Hrun. cbn zeta.
  split; [rewrite existsb_app, bad_logs, bad_results; reflexivity|]. split.
  - intros j p Hj. unfold wf_C24 in Hwf. rewrite forallb_forall in Hwf.
    pose proof (solo_of_init (first + j) p (Hwf p (nth_error_In _ _ Hj))) as Hsolo.
    destruct (Hcov _ (init_queue_nth first progs j p Hj)) as [H1 H2].
    destruct (expected (p_body p) (p_fin p) 0) as [x n]. rewrite Hsolo in H1, H2. cbn [fst snd co_init c_id] in H1, H2.
    rewrite logs_of_app, logs_of_logs, logs_of_results, app_nil_r.
    rewrite res_of_app, res_of_logs, res_of_results. cbn [app].
    assert (Hlt : (j < length progs)%nat) by (apply nth_error_Some; congruence).
    assert (E : ((first <=? first + j)%nat && (first + j <? first + length progs)%nat) = true) by lia.
    rewrite E, H1, H2. split; [|reflexivity]. rewrite map_map. cbn [snd]. apply map_id.
  - intros i Hi. rewrite logs_of_app, logs_of_logs, logs_of_results, app_nil_r.
    rewrite res_of_app, res_of_logs, res_of_results. cbn [app].
    assert (E : ((first <=? i)%nat && (i <? first + length progs)%nat) = false) by lia. rewrite E.
    destruct (Hout i) as [_ H2]; [|split; [exact H2 | reflexivity]].
    rewrite init_queue_ids, in_seq. lia.
Qed.

Lemma ok_cos_of os : forall ps i0,
  (forall j p, nth_error ps j = Some p -> ok_co os (i0 + j) p = true) -> ok_cos os i0 ps = true.
Proof.
  induction ps as [|p ps IH]; intros i0 H; [reflexivity|]. cbn [ok_cos]. apply andb_true_iff. split.
  - specialize (H 0%nat p eq_refl). rewrite Nat.add_0_r in H. exact H.
  - apply IH. intros j q Hj. replace (S i0 + j)%nat with (i0 + S j)%nat by lia. apply H. exact Hj.
Qed.

Lemma list_eqb_refl {A} (eqb : A -> A -> bool) l : (forall x, eqb x x = true) -> list_eqb eqb l l = true.
Proof. intros H. induction l as [|x l IH]; [reflexivity|]. cbn [list_eqb]. rewrite H, IH. reflexivity. Qed.

Lemma result_eqb_refl r : result_eqb r r = true.
Proof. destruct r as [v|[| |]]; cbn; try reflexivity. apply Z.eqb_refl. Qed.

Theorem isolation progs : wf_C24 progs = true -> ok_C24 progs (run_C24 progs) = true.
Proof.
  intros Hwf. unfold ok_C24, run_C24.
  set (n := length progs).
  assert (Hwfp : wf_C24 [post_prog] = true) by reflexivity.
  destruct (round_spec 0 progs Hwf) as (B1 & In1 & Out1).
  destruct (round_spec n [post_prog] Hwfp) as (B2 & In2 & Out2). cbn zeta in *.
  apply andb_true_iff. split; [apply andb_true_iff; split|].
  - apply ok_cos_of. intros j p Hj. cbn [Nat.add]. unfold ok_co.
    rewrite !logs_of_app, !res_of_app. cbn [logs_of res_of flat_map app]. rewrite !app_nil_r.
    destruct (Nat.lt_ge_cases j n) as [Hlt|Hge].
    + (* one of the programs *)
      assert (Hjp : nth_error progs j = Some p) by (rewrite nth_error_app1 in Hj by exact Hlt; exact Hj).
      pose proof (In1 j p Hjp) as H1. cbn [Nat.add] in H1.
      destruct (Out2 j ltac:(left; exact Hlt)) as [H2 H3].
      destruct (expected (p_body p) (p_fin p) 0) as [r k]. destruct H1 as [H1 H1'].
      rewrite H1, H1', H2, H3, !app_nil_r. apply andb_true_iff. split.
      * apply list_eqb_refl. intros x. apply Z.eqb_refl.
      * cbn [list_eqb option_eqb]. rewrite result_eqb_refl. reflexivity.
    + (* the coroutine scheduled afterwards *)
      assert (Hjn : j = n /\ p = post_prog).
      { rewrite nth_error_app2 in Hj by exact Hge. fold n in Hj.
        destruct (j - n)%nat as [|d] eqn:Ed; cbn [nth_error] in Hj.
        - injection Hj as <-. split; [lia | reflexivity].
        - destruct d; discriminate. }
      destruct Hjn as [-> ->].
      pose proof (In2 0%nat post_prog eq_refl) as H2. rewrite Nat.add_0_r in H2.
      destruct (Out1 n ltac:(right; cbn; lia)) as [H1 H1'].
      cbn [expected post_prog p_body p_fin finish] in *. destruct H2 as [H2 H2'].
      rewrite H1, H1', H2, H2'. reflexivity.
  - rewrite !existsb_app, B1, B2. reflexivity.
  - rewrite !app_assoc, rev_app_distr. reflexivity.
Qed.

(** every coroutine's reported result is what its own program alone gives *)
Theorem own_outcome progs j p :
  wf_C24 progs = true -> nth_error progs j = Some p ->
  res_of j (run_C24 progs) = [Some (fst (expected (p_body p) (p_fin p) 0))]
  /\ logs_of j (run_C24 progs) = count_up 0 (Z.to_nat (snd (expected (p_body p) (p_fin p) 0))).
Proof.
  intros Hwf Hj. unfold run_C24.
  assert (Hwfp : wf_C24 [post_prog] = true) by reflexivity.
  destruct (round_spec 0 progs Hwf) as (_ & In1 & _).
  destruct (round_spec (length progs) [post_prog] Hwfp) as (_ & _ & Out2). cbn zeta in *.
  pose proof (In1 j p Hj) as H1. cbn [Nat.add] in H1.
  assert (Hlt : (j < length progs)%nat) by (apply nth_error_Some; congruence).
  destruct (Out2 j ltac:(left; exact Hlt)) as [H2 H3].
  destruct (expected (p_body p) (p_fin p) 0) as [r k]. destruct H1 as [H1 H1']. cbn [fst snd].
  rewrite !logs_of_app, !res_of_app, H1, H1', H2, H3. cbn [logs_of res_of flat_map app]. rewrite !app_nil_r. auto.
Qed.

Theorem no_divergence progs : wf_C24 progs = true -> ~ In ODiverged (run_C24 progs).
Proof.
  intros Hwf Hin. pose proof (isolation progs Hwf) as H. unfold ok_C24 in H.
  apply andb_true_iff in H as [H _]. apply andb_true_iff in H as [_ H]. apply negb_true_iff in H.
  assert (existsb bad_obs (run_C24 progs) = true); [|congruence].
  apply existsb_exists. exists ODiverged. split; [exact Hin | reflexivity].
Qed.
