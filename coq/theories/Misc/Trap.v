(** Model for C24: [stack_ptr_in_bounds] (core/src/coroutine/mod.rs), the message the trap handler
    selects (core/src/coroutine/korosensei.rs [trap_handler]), a memory fault as a body instruction
    that ends the coroutine with that message (what the redirected trap does: this is the
    instruction's definition, an assumption of the model checked only by the correspondence runs),
    and a round-robin scheduler over several such coroutines ([Scheduler::try_schedule] with equal
    priorities: pop the front, resume, a suspended coroutine goes to the back). *)
From OCV Require Import Base.Prelude.
Open Scope Z_scope.

Record seg := { t_bot : Z; t_top : Z }.        (* StackInfo: stack_bottom (guard page included), stack_top *)

(** the loop of [stack_ptr_in_bounds]: return at the first segment that contains the pointer *)
Fixpoint in_bounds (segs : list seg) (sp : Z) : bool :=
  match segs with
  | [] => false
  | g :: rest => if (t_bot g <=? sp) && (sp <? t_top g) then true else in_bounds rest sp
  end.

Inductive emsg := EInvalid | EOverflow | EPanic.
(** ["invalid memory reference"] when the stack pointer is in bounds, ["stack overflow"] otherwise *)
Definition classify (segs : list seg) (sp : Z) : emsg :=
  if in_bounds segs sp then EInvalid else EOverflow.

Inductive fault :=
| FWrite            (* write through a wild pointer *)
| FRead             (* read through a wild pointer *)
| FNull             (* write through null *)
| FOverflow         (* recursion until the guard page of the segment in use is hit *)
| FSpOut (p : Z).   (* the stack pointer itself is moved to [p] and then used *)

Inductive instr :=
| ILog              (* a step of work, visible outside *)
| ISuspend
| IGrow             (* the rest of the body runs on a freshly grown (recorded) segment *)
| IFault (k : fault).

Inductive term := TReturn (v : Z) | TPanic.
Record cprog := { p_body : list instr; p_fin : term }.

Inductive result := ROk (v : Z) | RErr (m : emsg).

Definition SEGLEN : Z := 139264.     (* a 128 KiB DefaultStack: 128 KiB + guard page, page aligned *)
Definition seg_no (k : Z) : seg := {| t_bot := (k + 1) * 4294967296; t_top := (k + 1) * 4294967296 + SEGLEN |}.

Record costate := {
  c_id : nat;
  c_todo : list instr;
  c_fin : term;
  c_segs : list seg;        (* reported segments, the coroutine's own stack first *)
  c_cur : seg;              (* the segment in use *)
  c_logs : Z                (* steps logged so far *)
}.

Definition co_init (id : nat) (p : cprog) : costate :=
  let own := seg_no (Z.of_nat id * 16) in
  {| c_id := id; c_todo := p_body p; c_fin := p_fin p; c_segs := [own]; c_cur := own; c_logs := 0 |}.

(** where the stack pointer is when the fault happens *)
Definition fault_sp (c : costate) (k : fault) : Z :=
  match k with
  | FWrite | FRead | FNull => t_top (c_cur c) - 4096
  | FOverflow => t_bot (c_cur c) + 2048
  | FSpOut p => p
  end.

Definition finish (f : term) : result := match f with TReturn v => ROk v | TPanic => RErr EPanic end.

Inductive slice_end := Suspended (c : costate) | Finished (r : result).

(** one resume: run until the next suspend or the end; logs are (coroutine, step number) *)
Fixpoint slice (id : nat) (todo : list instr) (fin : term) (segs : list seg) (cur : seg) (logs : Z)
  : slice_end * list (nat * Z) :=
  match todo with
  | [] => (Finished (finish fin), [])
  | ILog :: rest =>
      let '(e, l) := slice id rest fin segs cur (logs + 1) in (e, (id, logs) :: l)
  | ISuspend :: rest =>
      (Suspended {| c_id := id; c_todo := rest; c_fin := fin; c_segs := segs; c_cur := cur; c_logs := logs |}, [])
  | IGrow :: rest =>
      let g := seg_no (Z.of_nat id * 16 + Z.of_nat (length segs)) in
      slice id rest fin (segs ++ [g]) g logs
  | IFault k :: _ =>
      let c := {| c_id := id; c_todo := []; c_fin := fin; c_segs := segs; c_cur := cur; c_logs := logs |} in
      (Finished (RErr (classify segs (fault_sp c k))), [])
  end.

Definition resume (c : costate) : slice_end * list (nat * Z) :=
  slice (c_id c) (c_todo c) (c_fin c) (c_segs c) (c_cur c) (c_logs c).

(** [try_schedule]: [None] = fuel exhausted *)
Fixpoint sched (fuel : nat) (q : list costate) (res : list (nat * result)) (log : list (nat * Z))
  : option (list (nat * result) * list (nat * Z)) :=
  match q with
  | [] => Some (res, log)
  | c :: q' =>
      match fuel with
      | O => None
      | S fuel' =>
          let '(e, l) := resume c in
          match e with
          | Suspended c' => sched fuel' (q' ++ [c']) res (log ++ l)
          | Finished r => sched fuel' q' (res ++ [(c_id c, r)]) (log ++ l)
          end
      end
  end.

Definition suspends (todo : list instr) : nat :=
  length (filter (fun i => match i with ISuspend => true | _ => false end) todo).

Fixpoint init_queue (id : nat) (progs : list cprog) : list costate :=
  match progs with [] => [] | p :: ps => co_init id p :: init_queue (S id) ps end.

Definition fuel_of (progs : list cprog) : nat :=
  fold_right (fun p acc => (1 + suspends (p_body p) + acc)%nat) O progs.

Definition run_sched (progs : list cprog) : option (list (nat * result) * list (nat * Z)) :=
  sched (fuel_of progs) (init_queue 0 progs) [] [].
