(** C22 proofs, layer 1: projections of the model's state updates, set operations. *)
From OCV Require Import Base.Prelude Misc.Monitor.
From Coq Require Import ZifyBool ZifyNat.
Open Scope Z_scope.

(** * set_nth *)
Lemma set_nth_length {A} i (x : A) l : length (set_nth i x l) = length l.
Proof.
  unfold set_nth. destruct (lt_dec i (length l)) as [H|H].
  - rewrite app_length, firstn_length_le by lia. destruct (skipn i l) eqn:E.
    + apply (f_equal (@length A)) in E. rewrite skipn_length in E. cbn in E. lia.
    + apply (f_equal (@length A)) in E. rewrite skipn_length in E. cbn [length] in *. lia.
  - rewrite skipn_all2 by lia. rewrite app_nil_r, firstn_all2 by lia. reflexivity.
Qed.

Lemma nth_set_nth_eq {A} i (x d : A) l : (i < length l)%nat -> nth i (set_nth i x l) d = x.
Proof.
  intro H. unfold set_nth. rewrite app_nth2 by (rewrite firstn_length_le; lia).
  rewrite firstn_length_le by lia. rewrite Nat.sub_diag.
  destruct (skipn i l) eqn:E; [|reflexivity].
  apply (f_equal (@length A)) in E. rewrite skipn_length in E. cbn in E. lia.
Qed.

Lemma nth_set_nth_neq {A} i j (x d : A) l : i <> j -> nth j (set_nth i x l) d = nth j l d.
Proof.
  intro H. unfold set_nth. destruct (lt_dec j i) as [Hl|Hl].
  - destruct (lt_dec i (length l)) as [Hi|Hi].
    + rewrite app_nth1 by (rewrite firstn_length_le; lia). rewrite <- (firstn_skipn i l) at 2.
      rewrite app_nth1 by (rewrite firstn_length_le; lia). reflexivity.
    + rewrite skipn_all2 by lia. rewrite app_nil_r, firstn_all2 by lia. reflexivity.
  - destruct (lt_dec i (length l)) as [Hi|Hi].
    + rewrite app_nth2 by (rewrite firstn_length_le; lia). rewrite firstn_length_le by lia.
      rewrite <- (firstn_skipn i l) at 2. rewrite app_nth2 by (rewrite firstn_length_le; lia).
      rewrite firstn_length_le by lia. destruct (skipn i l) as [|a r] eqn:E.
      * apply (f_equal (@length A)) in E. rewrite skipn_length in E. cbn in E. lia.
      * destruct (j - i)%nat as [|k] eqn:Ek; [lia|]. reflexivity.
    + rewrite skipn_all2 by lia. rewrite app_nil_r, firstn_all2 by lia. reflexivity.
Qed.

Lemma set_nth_ge {A} i (x : A) l : (length l <= i)%nat -> set_nth i x l = l.
Proof. intro H. unfold set_nth. rewrite skipn_all2 by lia. rewrite app_nil_r. apply firstn_all2, H. Qed.

(** * Projections *)
Lemma get_thr_upd_thr_eq s t k : (t < length (m_thr s))%nat -> get_thr (upd_thr s t k) t = k.
Proof. intro H. unfold get_thr, upd_thr, with_thrs. cbn [m_thr]. apply nth_set_nth_eq, H. Qed.
Lemma get_thr_upd_thr_neq s t k t' : t <> t' -> get_thr (upd_thr s t k) t' = get_thr s t'.
Proof. intro H. unfold get_thr, upd_thr, with_thrs. cbn [m_thr]. apply nth_set_nth_neq, H. Qed.
Lemma get_co_upd_co_eq s c k : (c < length (m_cos s))%nat -> get_co (upd_co s c k) c = k.
Proof. intro H. unfold get_co, upd_co, with_cos. cbn [m_cos]. apply nth_set_nth_eq, H. Qed.
Lemma get_co_upd_co_neq s c k c' : c <> c' -> get_co (upd_co s c k) c' = get_co s c'.
Proof. intro H. unfold get_co, upd_co, with_cos. cbn [m_cos]. apply nth_set_nth_neq, H. Qed.
Lemma get_co_upd_thr s t k c : get_co (upd_thr s t k) c = get_co s c.
Proof. reflexivity. Qed.
Lemma get_thr_upd_co s c k t : get_thr (upd_co s c k) t = get_thr s t.
Proof. reflexivity. Qed.
Lemma len_thr_upd_thr s t k : length (m_thr (upd_thr s t k)) = length (m_thr s).
Proof. unfold upd_thr, with_thrs. cbn [m_thr]. apply set_nth_length. Qed.
Lemma len_cos_upd_co s c k : length (m_cos (upd_co s c k)) = length (m_cos s).
Proof. unfold upd_co, with_cos. cbn [m_cos]. apply set_nth_length. Qed.

(** * The node set *)
Lemma node_eqb_eq a b : node_eqb a b = true <-> a = b.
Proof.
  unfold node_eqb. destruct a as [x i], b as [y j]. cbn [fst snd]. rewrite andb_true_iff, Z.eqb_eq, Nat.eqb_eq.
  split; [intros [-> ->]; reflexivity | intro H; injection H as -> ->; split; reflexivity].
Qed.

Lemma nodes_eqb_eq a b : nodes_eqb a b = true <-> a = b.
Proof. unfold nodes_eqb. apply list_eqb_eq. apply node_eqb_eq. Qed.

Lemma node_mem_in n l : node_mem n l = true <-> In n l.
Proof.
  unfold node_mem. rewrite existsb_exists. split.
  - intros (x & Hin & E). apply node_eqb_eq in E. subst. exact Hin.
  - intro H. exists n. split; [exact H | apply node_eqb_eq; reflexivity].
Qed.

Lemma nodes_of_insert_other n l t : snd n <> t -> nodes_of (set_insert n l) t = nodes_of l t.
Proof.
  intro H. unfold set_insert. destruct (node_mem n l); [reflexivity|]. unfold nodes_of. cbn [filter].
  destruct (Nat.eqb (snd n) t) eqn:E; [apply Nat.eqb_eq in E; contradiction | reflexivity].
Qed.

Lemma nodes_of_remove_other n l t : snd n <> t -> nodes_of (set_remove n l) t = nodes_of l t.
Proof.
  intro H. unfold set_remove, nodes_of. induction l as [|x l IH]; [reflexivity|]. cbn [filter].
  destruct (node_eqb n x) eqn:E; cbn [negb].
  - apply node_eqb_eq in E. subst x. destruct (Nat.eqb (snd n) t) eqn:E2; [apply Nat.eqb_eq in E2; contradiction | exact IH].
  - cbn [filter]. destruct (Nat.eqb (snd x) t); [f_equal|]; exact IH.
Qed.

Lemma nodes_of_insert_same n l : nodes_of l (snd n) = [] -> nodes_of (set_insert n l) (snd n) = [n].
Proof.
  intro H. unfold set_insert. destruct (node_mem n l) eqn:E.
  - apply node_mem_in in E. exfalso. assert (In n (nodes_of l (snd n))) as Hx.
    { unfold nodes_of. apply filter_In. split; [exact E | apply Nat.eqb_refl]. }
    rewrite H in Hx. destruct Hx.
  - unfold nodes_of. cbn [filter]. rewrite Nat.eqb_refl. f_equal. exact H.
Qed.

Lemma nodes_of_remove_same n l : nodes_of l (snd n) = [n] \/ nodes_of l (snd n) = [] -> nodes_of (set_remove n l) (snd n) = [].
Proof.
  intro H. unfold set_remove, nodes_of in *. induction l as [|x l IH]; [reflexivity|]. cbn [filter] in *.
  destruct (node_eqb n x) eqn:E; cbn [negb].
  - apply node_eqb_eq in E. subst x. rewrite Nat.eqb_refl in H. apply IH. destruct H as [H|H]; [|discriminate].
    injection H as H. right. exact H.
  - cbn [filter]. destruct (Nat.eqb (snd x) (snd n)) eqn:E2.
    + destruct H as [H|H]; [|discriminate]. injection H as Hx _. subst x.
      assert (node_eqb n n = true) as Hn by (apply node_eqb_eq; reflexivity). congruence.
    + apply IH, H.
Qed.

Lemma has_node_nodes_of s t : has_node s t = negb (match nodes_of (m_nodes s) t with [] => true | _ => false end).
Proof.
  unfold has_node, nodes_of. induction (m_nodes s) as [|x l IH]; [reflexivity|]. cbn [existsb filter].
  destruct (Nat.eqb (snd x) t); [reflexivity | exact IH].
Qed.
