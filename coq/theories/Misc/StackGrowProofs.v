(** Proofs about the stack-growth bookkeeping model (C23). *)
From OCV Require Import Base.Prelude Misc.StackGrow Misc.StackGrowOracle.
From Coq Require Import ZifyBool ZifyNat.
Ltac Zify.zify_post_hook ::= Z.div_mod_to_equations.
Open Scope Z_scope.

Lemma mmap_len_ge size : size + PAGE <= mmap_len size.
Proof. unfold mmap_len, PAGE, MINSZ. lia. Qed.

Lemma mmap_len_min size : 2 * PAGE <= mmap_len size.
Proof. unfold mmap_len, PAGE, MINSZ. lia. Qed.

(** ** whatever returns or unwinds, the bookkeeping is as before the call *)
Definition same_frame (s s' : mstate) : Prop :=
  m_base s' = m_base s /\ m_grown s' = m_grown s /\ m_rec s' = m_rec s /\ m_sp s' = m_sp s.

Lemma same_frame_refl s : same_frame s s.
Proof. repeat split. Qed.

Lemma same_frame_trans a b c : same_frame a b -> same_frame b c -> same_frame a c.
Proof. intros (A1 & A2 & A3 & A4) (B1 & B2 & B3 & B4). repeat split; congruence. Qed.

Lemma rec_loop_restores gd n : forall frame rz size s o s' ok,
  rec_loop gd n frame rz size s = (o, s', ok) -> o <> OFault -> same_frame s s'.
Proof.
  induction n as [|n IH]; intros frame rz size s o s' ok H Hnf; cbn [rec_loop] in H.
  - injection H as <- <- <-. apply same_frame_refl.
  - destruct (code_enough gd s rz) as [[|]|].
    + destruct (m_sp (set_sp s (m_sp s - frame)) <? _); [injection H as <- <- <-; contradiction|].
      destruct (rec_loop gd n frame rz size (set_sp s (m_sp s - frame))) as [[o2 s2] ok2] eqn:E.
      assert (Hs : o2 <> OFault -> same_frame (set_sp s (m_sp s - frame)) s2) by (intros Hn; eapply IH; eauto).
      destruct o2; injection H as <- <- <-; try contradiction;
        destruct Hs as (A1 & A2 & A3 & A4); try discriminate; repeat split; cbn; assumption.
    + set (s0 := push_seg s (alloc s size)) in *.
      destruct (m_sp (set_sp s0 (m_sp s0 - frame)) <? _); [injection H as <- <- <-; contradiction|].
      destruct (rec_loop gd n frame rz size (set_sp s0 (m_sp s0 - frame))) as [[o2 s2] ok2] eqn:E.
      assert (Hs : o2 <> OFault -> same_frame (set_sp s0 (m_sp s0 - frame)) s2) by (intros Hn; eapply IH; eauto).
      destruct o2; injection H as <- <- <-; try contradiction;
        destruct Hs as (A1 & A2 & A3 & A4); try discriminate; repeat split; cbn [pop_seg m_base m_grown m_rec m_sp];
        try rewrite A1; try rewrite A2; try rewrite A3; reflexivity.
    + injection H as <- <- <-. apply same_frame_refl.
Qed.

Lemma exec_restores gd c : forall p s o s' ev,
  exec gd c p s = (o, s', ev) -> o <> OFault -> same_frame s s'.
Proof.
  induction p as [|rem body IHb next IHn|rz size v body IHb next IHn| |body IHb next IHn|next IHn|n frame rz size next IHn];
    intros s o s' ev H Hnf; cbn [exec] in H.
  - injection H as <- <- <-. apply same_frame_refl.
  - set (s1 := if g_lim (cur_seg s) + rem <? m_sp s then set_sp s (g_lim (cur_seg s) + rem) else s) in *.
    assert (H1 : m_base s1 = m_base s /\ m_grown s1 = m_grown s /\ m_rec s1 = m_rec s)
      by (unfold s1; destruct (_ <? _); repeat split).
    destruct (exec gd c body s1) as [[o2 s2] ev2] eqn:E2.
    assert (Hb : o2 <> OFault -> same_frame s1 s2) by (intros Hn; eapply IHb; eauto).
    destruct o2.
    + destruct (exec gd c next (set_sp s2 (m_sp s))) as [[o3 s3] ev3] eqn:E3. injection H as <- <- <-.
      specialize (IHn _ _ _ _ E3 Hnf). destruct (Hb ltac:(discriminate)) as (A1 & A2 & A3 & A4).
      destruct H1 as (B1 & B2 & B3). eapply same_frame_trans; [|exact IHn].
      repeat split; cbn [set_sp m_base m_grown m_rec m_sp]; congruence.
    + injection H as <- <- <-. destruct (Hb ltac:(discriminate)) as (A1 & A2 & A3 & A4).
      destruct H1 as (B1 & B2 & B3). repeat split; cbn [set_sp m_base m_grown m_rec m_sp]; congruence.
    + injection H as <- <- <-. contradiction.
  - destruct (code_enough gd s rz) as [[|]|].
    + destruct (exec gd c body s) as [[o2 s2] ev2] eqn:E2.
      assert (Hb : o2 <> OFault -> same_frame s s2) by (intros Hn; eapply IHb; eauto).
      destruct o2.
      * destruct (exec gd c next s2) as [[o3 s3] ev3] eqn:E3. injection H as <- <- <-.
        eapply same_frame_trans; [apply Hb; discriminate | eapply IHn; eauto].
      * injection H as <- <- <-. apply Hb. discriminate.
      * injection H as <- <- <-. contradiction.
    + set (s1 := push_seg s (alloc s size)) in *.
      destruct (exec gd c body s1) as [[o2 s2] ev2] eqn:E2.
      assert (Hb : o2 <> OFault -> same_frame s1 s2) by (intros Hn; eapply IHb; eauto).
      assert (Hpop : o2 <> OFault -> same_frame s (pop_seg s2 (m_sp s))).
      { intros Hn. destruct (Hb Hn) as (A1 & A2 & A3 & A4).
        repeat split; cbn [pop_seg m_base m_grown m_rec m_sp]; try rewrite A1; try rewrite A2; try rewrite A3; reflexivity. }
      destruct o2.
      * destruct (exec gd c next (pop_seg s2 (m_sp s))) as [[o3 s3] ev3] eqn:E3. injection H as <- <- <-.
        eapply same_frame_trans; [apply Hpop; discriminate | eapply IHn; eauto].
      * injection H as <- <- <-. apply Hpop. discriminate.
      * injection H as <- <- <-. contradiction.
    + injection H as <- <- <-. apply same_frame_refl.
  - injection H as <- <- <-. apply same_frame_refl.
  - destruct (exec gd c body s) as [[o2 s2] ev2] eqn:E2.
    assert (Hb : o2 <> OFault -> same_frame s s2) by (intros Hn; eapply IHb; eauto).
    destruct o2.
    + destruct (exec gd c next s2) as [[o3 s3] ev3] eqn:E3. injection H as <- <- <-.
      eapply same_frame_trans; [apply Hb; discriminate | eapply IHn; eauto].
    + destruct (exec gd c next s2) as [[o3 s3] ev3] eqn:E3. injection H as <- <- <-.
      eapply same_frame_trans; [apply Hb; discriminate | eapply IHn; eauto].
    + injection H as <- <- <-. contradiction.
  - destruct (exec gd c next s) as [[o3 s3] ev3] eqn:E3. injection H as <- <- <-. eapply IHn; eauto.
  - destruct (rec_loop gd n frame rz size s) as [[o2 s2] ok2] eqn:E2.
    assert (Hb : o2 <> OFault -> same_frame s s2) by (intros Hn; eapply rec_loop_restores; eauto).
    destruct o2.
    + destruct (exec gd c next s2) as [[o3 s3] ev3] eqn:E3. injection H as <- <- <-.
      eapply same_frame_trans; [apply Hb; discriminate | eapply IHn; eauto].
    + injection H as <- <- <-. apply Hb. discriminate.
    + injection H as <- <- <-. contradiction.
Qed.

(** ** the recorded list is the list of segments in use, and every event is right *)
Definition Good (c : ctx) (s : mstate) : Prop :=
  m_rec s = (match c with CCo => m_grown s ++ [m_base s] | CThread => m_grown s end)
  /\ g_lim (cur_seg s) + PAGE <= m_sp s < g_top (cur_seg s).

Lemma Good_same c s s' : same_frame s s' -> Good c s -> Good c s'.
Proof.
  intros (A1 & A2 & A3 & A4) [G1 G2]. unfold Good, cur_seg in *. rewrite A1, A2, A3, A4. auto.
Qed.

Lemma Good_set_sp c s sp : Good c s -> g_lim (cur_seg s) + PAGE <= sp < g_top (cur_seg s) -> Good c (set_sp s sp).
Proof. intros [G1 G2] H. split; [exact G1 | exact H]. Qed.

Lemma Good_push c s size : Good c s -> Good c (push_seg s (alloc s size)).
Proof.
  intros [G1 G2]. split.
  - cbn [push_seg m_rec m_grown m_base]. rewrite G1. destruct c; reflexivity.
  - unfold cur_seg. cbn [push_seg m_grown m_sp alloc g_lim g_top].
    pose proof (mmap_len_min size). unfold PAGE, OVH in *. lia.
Qed.

(** under [Good] the code's decision is about the segment really in use *)
Lemma code_enough_good c s rz : Good c s ->
  code_enough GUARD s rz =
  Some (match c, m_grown s with
        | CThread, [] => false
        | _, _ => rz <=? usable_room s
        end).
Proof.
  intros [G1 G2]. unfold code_enough, usable_room, cur_seg, GUARD in *. rewrite G1.
  destruct c, (m_grown s) as [|g gs]; cbn [app]; try reflexivity;
    (match goal with |- (if ?b then _ else _) = _ => destruct b eqn:E end; [unfold PAGE in *; lia|]);
    f_equal; apply Bool.eq_true_iff_eq; rewrite !Z.leb_le; lia.
Qed.

Lemma fresh_room s size rz : rz + 3 * PAGE <= size ->
  rz <= usable_room (push_seg s (alloc s size)).
Proof.
  intros H. unfold usable_room, cur_seg. cbn [push_seg m_grown m_sp alloc g_lim g_top].
  pose proof (mmap_len_ge size). unfold PAGE, OVH in *. lia.
Qed.

Lemma rec_loop_good c n : forall frame rz size s o s' ok,
  0 <= frame -> frame + 2 * PAGE <= rz -> rz + 3 * PAGE <= size -> Good c s ->
  rec_loop GUARD n frame rz size s = (o, s', ok) -> o = ONormal /\ ok = true.
Proof.
  induction n as [|n IH]; intros frame rz size s o s' ok Hf Hrz Hsz HG H; cbn [rec_loop] in H.
  - injection H as <- <- <-. auto.
  - rewrite (code_enough_good c s rz HG) in H.
    destruct (match c, m_grown s with CThread, [] => false | _, _ => rz <=? usable_room s end) eqn:Ed.
    + assert (Hrem : rz <= usable_room s) by (destruct c, (m_grown s); try discriminate; lia).
      assert (Hroom0 : (rz <=? usable_room s) = true) by lia.
      unfold usable_room in Hrem.
      assert (HG1 : Good c (set_sp s (m_sp s - frame))).
      { apply Good_set_sp; [exact HG|]. destruct HG as [_ G2]. cbn. unfold PAGE in *. lia. }
      destruct (m_sp (set_sp s (m_sp s - frame)) <? g_lim (cur_seg (set_sp s (m_sp s - frame))) + PAGE) eqn:Ef.
      { exfalso. destruct HG1 as [_ G2]. lia. }
      destruct (rec_loop GUARD n frame rz size (set_sp s (m_sp s - frame))) as [[o2 s2] ok2] eqn:E.
      destruct (IH _ _ _ _ _ _ _ Hf Hrz Hsz HG1 E) as [-> ->]. injection H as <- <- <-.
      rewrite Hroom0. auto.
    + set (s0 := push_seg s (alloc s size)) in *.
      assert (HG0 : Good c s0) by (apply Good_push; exact HG).
      pose proof (fresh_room s size rz Hsz) as Hroom. fold s0 in Hroom.
      assert (HG1 : Good c (set_sp s0 (m_sp s0 - frame))).
      { apply Good_set_sp; [exact HG0|]. unfold usable_room in Hroom. destruct HG0 as [_ G2]. unfold PAGE in *. lia. }
      destruct (m_sp (set_sp s0 (m_sp s0 - frame)) <? g_lim (cur_seg (set_sp s0 (m_sp s0 - frame))) + PAGE) eqn:Ef.
      { exfalso. destruct HG1 as [_ G2]. lia. }
      destruct (rec_loop GUARD n frame rz size (set_sp s0 (m_sp s0 - frame))) as [[o2 s2] ok2] eqn:E.
      destruct (IH _ _ _ _ _ _ _ Hf Hrz Hsz HG1 E) as [-> ->]. injection H as <- <- <-.
      split; [reflexivity|]. apply andb_true_iff. split; [|reflexivity]. lia.
Qed.

Definition evs_ok (c : ctx) (ev : list event) : Prop := Forall (fun e => ok_event true c e = true) ev.

Lemma evs_ok_app c a b : evs_ok c a -> evs_ok c b -> evs_ok c (a ++ b).
Proof. intros. apply Forall_app. auto. Qed.

Lemma grow_event_ok c s rz size :
  Good c s -> 3 * PAGE <= rz -> rz + 3 * PAGE <= size ->
  match code_enough GUARD s rz with
  | Some true =>
      ok_event true c (EGrow (depth_of s) (enough_evt c s rz) false (reported_len c s) (in_back c s)
                              (rz <=? usable_room s)) = true
  | Some false =>
      let s1 := push_seg s (alloc s size) in
      ok_event true c (EGrow (depth_of s) (enough_evt c s rz) true (reported_len c s1) (in_back c s1)
                              (rz <=? usable_room s1)) = true
  | None => False
  end.
Proof.
  intros HG Hrz Hsz. rewrite (code_enough_good c s rz HG). pose proof HG as [G1 G2].
  pose proof (fresh_room s size rz Hsz) as Hroom. pose proof (Good_push c s size HG) as [P1 P2].
  unfold ok_event, enough_evt, depth_of, reported_len, in_back, usable_room in *. cbn [push_seg m_rec m_grown m_sp].
  unfold cur_seg in *. rewrite G1.
  destruct c, (m_grown s) as [|g gs] eqn:Eg; cbn [app length];
    try (destruct (rz <=? m_sp s - (g_lim _ + PAGE)) eqn:Ed); cbn [negb Bool.eqb orb andb];
    repeat (apply andb_true_iff; split); try reflexivity; try lia;
    cbn [push_seg m_grown m_sp alloc g_lim g_top] in *; try rewrite app_length; cbn [length]; try lia.
  all: unfold PAGE, OVH in *; lia.
Qed.

Lemma exec_good c : forall p s o s' ev,
  wf_prog p = true -> Good c s -> exec GUARD c p s = (o, s', ev) -> o <> OFault /\ evs_ok c ev.
Proof.
  induction p as [|rem body IHb next IHn|rz size v body IHb next IHn| |body IHb next IHn|next IHn|n frame rz size next IHn];
    intros s o s' ev Hwf HG H; cbn [exec] in H; cbn [wf_prog] in Hwf.
  - injection H as <- <- <-. split; [discriminate | constructor].
  - apply andb_true_iff in Hwf as [Hwf Hwn]. apply andb_true_iff in Hwf as [Hrem Hwb].
    set (s1 := if g_lim (cur_seg s) + rem <? m_sp s then set_sp s (g_lim (cur_seg s) + rem) else s) in *.
    assert (HG1 : Good c s1).
    { unfold s1. destruct (g_lim (cur_seg s) + rem <? m_sp s) eqn:E; [|exact HG].
      apply Good_set_sp; [exact HG|]. destruct HG as [_ G2]. unfold PAGE in *. lia. }
    assert (Hsf : same_frame s (set_sp s1 (m_sp s))).
    { unfold s1. destruct (_ <? _); repeat split. }
    destruct (exec GUARD c body s1) as [[o2 s2] ev2] eqn:E2.
    destruct (IHb _ _ _ _ Hwb HG1 E2) as [Hnf2 Hev2].
    pose proof (exec_restores GUARD c body s1 o2 s2 ev2 E2 Hnf2) as Hr.
    assert (HG2 : Good c (set_sp s2 (m_sp s))).
    { eapply Good_same; [|exact HG]. eapply same_frame_trans; [exact Hsf|].
      destruct Hr as (A1 & A2 & A3 & A4). repeat split; cbn [set_sp m_base m_grown m_rec m_sp]; assumption. }
    destruct o2; try contradiction.
    + destruct (exec GUARD c next (set_sp s2 (m_sp s))) as [[o3 s3] ev3] eqn:E3. injection H as <- <- <-.
      destruct (IHn _ _ _ _ Hwn HG2 E3) as [Hnf3 Hev3]. split; [exact Hnf3 | apply evs_ok_app; assumption].
    + injection H as <- <- <-. split; [discriminate | exact Hev2].
  - apply andb_true_iff in Hwf as [Hwf Hwn]. apply andb_true_iff in Hwf as [Hwf Hwb].
    apply andb_true_iff in Hwf as [Hrz Hsz].
    pose proof (grow_event_ok c s rz size HG ltac:(lia) ltac:(lia)) as Hev.
    destruct (code_enough GUARD s rz) as [[|]|]; [| |contradiction].
    + destruct (exec GUARD c body s) as [[o2 s2] ev2] eqn:E2.
      destruct (IHb _ _ _ _ Hwb HG E2) as [Hnf2 Hev2].
      pose proof (exec_restores GUARD c body s o2 s2 ev2 E2 Hnf2) as Hr.
      assert (HG2 : Good c s2) by (eapply Good_same; eauto).
      destruct o2; try contradiction.
      * destruct (exec GUARD c next s2) as [[o3 s3] ev3] eqn:E3. injection H as <- <- <-.
        destruct (IHn _ _ _ _ Hwn HG2 E3) as [Hnf3 Hev3]. split; [exact Hnf3|].
        constructor; [exact Hev|]. apply evs_ok_app; [exact Hev2|]. constructor; [reflexivity | exact Hev3].
      * injection H as <- <- <-. split; [discriminate|]. constructor; assumption.
    + set (s1 := push_seg s (alloc s size)) in *.
      assert (HG1 : Good c s1) by (apply Good_push; exact HG).
      destruct (exec GUARD c body s1) as [[o2 s2] ev2] eqn:E2.
      destruct (IHb _ _ _ _ Hwb HG1 E2) as [Hnf2 Hev2].
      pose proof (exec_restores GUARD c body s1 o2 s2 ev2 E2 Hnf2) as (A1 & A2 & A3 & A4).
      assert (HG2 : Good c (pop_seg s2 (m_sp s))).
      { eapply Good_same; [|exact HG].
        repeat split; cbn [pop_seg m_base m_grown m_rec m_sp]; try rewrite A1; try rewrite A2; try rewrite A3; reflexivity. }
      destruct o2; try contradiction.
      * destruct (exec GUARD c next (pop_seg s2 (m_sp s))) as [[o3 s3] ev3] eqn:E3. injection H as <- <- <-.
        destruct (IHn _ _ _ _ Hwn HG2 E3) as [Hnf3 Hev3]. split; [exact Hnf3|].
        constructor; [exact Hev|]. apply evs_ok_app; [exact Hev2|]. constructor; [reflexivity | exact Hev3].
      * injection H as <- <- <-. split; [discriminate|]. constructor; assumption.
  - injection H as <- <- <-. split; [discriminate | constructor].
  - apply andb_true_iff in Hwf as [Hwb Hwn].
    destruct (exec GUARD c body s) as [[o2 s2] ev2] eqn:E2.
    destruct (IHb _ _ _ _ Hwb HG E2) as [Hnf2 Hev2].
    pose proof (exec_restores GUARD c body s o2 s2 ev2 E2 Hnf2) as Hr.
    assert (HG2 : Good c s2) by (eapply Good_same; eauto).
    destruct o2; try contradiction.
    + destruct (exec GUARD c next s2) as [[o3 s3] ev3] eqn:E3. injection H as <- <- <-.
      destruct (IHn _ _ _ _ Hwn HG2 E3) as [Hnf3 Hev3]. split; [exact Hnf3 | apply evs_ok_app; assumption].
    + destruct (exec GUARD c next s2) as [[o3 s3] ev3] eqn:E3. injection H as <- <- <-.
      destruct (IHn _ _ _ _ Hwn HG2 E3) as [Hnf3 Hev3]. split; [exact Hnf3|].
      apply evs_ok_app; [exact Hev2|]. constructor; [reflexivity | exact Hev3].
  - destruct (exec GUARD c next s) as [[o3 s3] ev3] eqn:E3. injection H as <- <- <-.
    destruct (IHn _ _ _ _ Hwf HG E3) as [Hnf3 Hev3]. split; [exact Hnf3|]. constructor; [|exact Hev3].
    destruct HG as [G1 _]. unfold ok_event, reported_len, depth_of. rewrite G1.
    destruct c; [reflexivity|]. rewrite app_length. cbn [length]. lia.
  - apply andb_true_iff in Hwf as [Hwf Hwn]. apply andb_true_iff in Hwf as [Hwf Hsz].
    apply andb_true_iff in Hwf as [Hf Hrz].
    destruct (rec_loop GUARD n frame rz size s) as [[o2 s2] ok2] eqn:E2.
    destruct (rec_loop_good c n frame rz size s o2 s2 ok2 ltac:(lia) ltac:(lia) ltac:(lia) HG E2) as [-> ->].
    pose proof (rec_loop_restores GUARD n frame rz size s _ _ _ E2 ltac:(discriminate)) as Hr.
    assert (HG2 : Good c s2) by (eapply Good_same; eauto).
    destruct (exec GUARD c next s2) as [[o3 s3] ev3] eqn:E3. injection H as <- <- <-.
    destruct (IHn _ _ _ _ Hwn HG2 E3) as [Hnf3 Hev3]. split; [exact Hnf3|]. constructor; [reflexivity | exact Hev3].
Qed.

Lemma init_good c stack : 65536 <= stack -> Good c (init c stack).
Proof.
  intros H. unfold Good, init, cur_seg. cbn [m_rec m_grown m_base m_sp g_lim g_top].
  split; [destruct c; reflexivity|]. pose proof (mmap_len_ge stack). unfold PAGE, START in *. lia.
Qed.

Lemma forallb_Forall {A} (f : A -> bool) l : Forall (fun x => f x = true) l -> forallb f l = true.
Proof. intros H. apply forallb_forall. rewrite Forall_forall in H. exact H. Qed.

(** the whole property on every well-formed tree *)
Theorem holds c stack p : wf_C23 c stack p = true -> ok_C23 c (run_C23 c stack p) = true.
Proof.
  intros Hwf. unfold wf_C23 in Hwf. apply andb_true_iff in Hwf as [Hst Hwp].
  unfold ok_C23, ok_gen, run_C23, run_gen.
  destruct (exec GUARD c p (init c stack)) as [[o s'] ev] eqn:E.
  destruct (exec_good c p _ _ _ _ Hwp (init_good c stack ltac:(lia)) E) as [Hnf Hev].
  apply andb_true_iff. split.
  - apply forallb_Forall. apply Forall_app. split; [exact Hev|]. destruct o; try contradiction; repeat constructor.
  - unfold ends_well. rewrite rev_app_distr. destruct o; try contradiction; reflexivity.
Qed.

Lemma weak_of_strict c e : ok_event true c e = true -> ok_event false c e = true.
Proof.
  destruct e; cbn [ok_event]; auto. destruct grew; auto.
  intros H. apply andb_true_iff in H as [H _]. rewrite H. reflexivity.
Qed.

Theorem bookkeeping_ok c stack p :
  wf_C23 c stack p = true -> ok_weak_C23 c (run_C23 c stack p) = true.
Proof.
  intros Hwf. pose proof (holds c stack p Hwf) as H.
  unfold ok_C23, ok_weak_C23, ok_gen in *. apply andb_true_iff in H as [H He].
  apply andb_true_iff. split; [|exact He].
  rewrite forallb_forall in *. intros e Hin. apply weak_of_strict. exact (H e Hin).
Qed.

Theorem bookkeeping_restored gd c p s o s' ev :
  exec gd c p s = (o, s', ev) -> o <> OFault ->
  m_rec s' = m_rec s /\ m_grown s' = m_grown s /\ m_sp s' = m_sp s.
Proof. intros H Hnf. destruct (exec_restores gd c p s o s' ev H Hnf) as (_ & A2 & A3 & A4). auto. Qed.

Theorem no_fault c stack p : wf_C23 c stack p = true -> ~ In EFault (run_C23 c stack p).
Proof.
  intros Hwf Hin. pose proof (bookkeeping_ok c stack p Hwf) as H. unfold ok_weak_C23, ok_gen in H.
  apply andb_true_iff in H as [H _]. rewrite forallb_forall in H. specialize (H _ Hin). discriminate.
Qed.

(** before the repair of finding red_zone_counts_guard_page a callback run in place could lack up to a page of its red zone *)
Theorem refuted_before_repair :
  exists c stack p, wf_C23 c stack p = true /\ ok_C23 c (old_run_C23 c stack p) = false.
Proof.
  exists CCo, 131072, (PPos (32768 + 2048) (PGrow 32768 131072 1 PNil PNil) PNil).
  split; vm_compute; reflexivity.
Qed.

Theorem value_returned c stack p b :
  wf_C23 c stack p = true -> In (ERet b) (run_C23 c stack p) -> b = true.
Proof.
  intros Hwf Hin. pose proof (bookkeeping_ok c stack p Hwf) as H. unfold ok_weak_C23, ok_gen in H.
  apply andb_true_iff in H as [H _]. rewrite forallb_forall in H. exact (H _ Hin).
Qed.

(** every callback runs inside the last segment the coroutine reports and has the red zone of
    usable bytes (guard page not counted), moved to a fresh segment or not *)
Theorem room_everywhere c stack p d en grew len inb r :
  wf_C23 c stack p = true -> In (EGrow d en grew len inb r) (run_C23 c stack p) ->
  inb = true /\ r = true.
Proof.
  intros Hwf Hin. pose proof (holds c stack p Hwf) as H. unfold ok_C23, ok_gen in H.
  apply andb_true_iff in H as [H _]. rewrite forallb_forall in H. specialize (H _ Hin). cbn [ok_event] in H.
  apply andb_true_iff in H as [H Hr]. apply andb_true_iff in H as [_ Hi]. split; [exact Hi|].
  destruct grew; exact Hr.
Qed.
