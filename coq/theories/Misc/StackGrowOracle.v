(** C23: well-formed programs, the model run and the property as an executable oracle over the
    observed events. Every event carries what it needs (the harness reports, next to what the
    code under test says, how many grown segments are really active and whether the stack it is
    really on had the red zone left), so the oracle is a check per event. *)
From OCV Require Import Base.Prelude Misc.StackGrow.
Open Scope Z_scope.

Definition event_eqb (a b : event) : bool :=
  match a, b with
  | EGrow d1 e1 g1 l1 i1 r1, EGrow d2 e2 g2 l2 i2 r2 =>
      (d1 =? d2) && Bool.eqb e1 e2 && Bool.eqb g1 g2 && (l1 =? l2) && Bool.eqb i1 i2 && Bool.eqb r1 r2
  | ERet a1, ERet a2 => Bool.eqb a1 a2
  | EProbe d1 l1, EProbe d2 l2 => (d1 =? d2) && (l1 =? l2)
  | ECaught, ECaught => true
  | ERec r1 t1, ERec r2 t2 => Bool.eqb r1 r2 && Bool.eqb t1 t2
  | EPanicTop, EPanicTop => true
  | EFault, EFault => true
  | EEnd, EEnd => true
  | _, _ => false
  end.

Definition finish (o : outcome) : list event :=
  match o with ONormal => [EEnd] | OPanic => [EPanicTop; EEnd] | OFault => [EFault] end.

Definition run_gen (gd : Z) (c : ctx) (stack : Z) (p : prog) : list event :=
  let '(o, _, ev) := exec gd c p (init c stack) in ev ++ finish o.
Definition run_C23 (c : ctx) (stack : Z) (p : prog) : list event := run_gen GUARD c stack p.
(** the code before the repair of finding red_zone_counts_guard_page (the decision counted the guard page) *)
Definition old_run_C23 (c : ctx) (stack : Z) (p : prog) : list event := run_gen 0 c stack p.

(** ---- well-formed programs: sizes with the margins under which stack positions are meaningful
    (the model places the stack pointer to within a page of the real one) *)
Fixpoint wf_prog (p : prog) : bool :=
  match p with
  | PNil | PPanic => true
  | PPos rem body next => (2 * PAGE <=? rem) && wf_prog body && wf_prog next
  | PGrow rz size v body next =>
      (3 * PAGE <=? rz) && (rz + 3 * PAGE <=? size) && wf_prog body && wf_prog next
  | PCatch body next => wf_prog body && wf_prog next
  | PProbe next => wf_prog next
  | PRec n frame rz size next =>
      (0 <=? frame) && (frame + 2 * PAGE <=? rz) && (rz + 3 * PAGE <=? size) && wf_prog next
  end.

Definition wf_C23 (c : ctx) (stack : Z) (p : prog) : bool := (65536 <=? stack) && wf_prog p.

(** ---- the property, event by event.
    [strict = false]: everything but "room >= red zone" on the path that does not grow. *)
Definition ok_event (strict : bool) (c : ctx) (e : event) : bool :=
  match e with
  | EGrow d enough grew len inb room =>
      (* grows exactly when needed: the stack really in use has less than the red zone of usable
         bytes left (a plain thread that has not grown cannot tell and must grow) *)
      Bool.eqb grew (match c with CThread => (d =? 0) || negb enough | CCo => negb enough end)
      (* the reported segments are the ones in use, the callback runs inside the last one *)
      && (match c with CCo => len =? d + (if grew then 1 else 0) + 1 | CThread => true end)
      && inb
      && (if grew then room else if strict then room else true)
  | ERet ok => ok
  | EProbe d len => match c with CCo => len =? d + 1 | CThread => true end
  | ERec room ret => room && ret
  | ECaught | EPanicTop | EEnd => true
  | EFault => false
  end.

Definition ends_well (evs : list event) : bool :=
  match rev evs with EEnd :: _ => true | _ => false end.

Definition ok_gen (strict : bool) (c : ctx) (evs : list event) : bool :=
  forallb (ok_event strict c) evs && ends_well evs.

Definition ok_weak_C23 (c : ctx) (evs : list event) : bool := ok_gen false c evs.
Definition ok_C23 (c : ctx) (evs : list event) : bool := ok_gen true c evs.
