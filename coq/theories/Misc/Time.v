(** Model of [common::get_timeout_time], [common::get_slices] and
    [syscall::unix::get_time_limit] (core/src/common/mod.rs, core/src/syscall/unix/mod.rs).
    Durations are nanosecond counts in Z. *)
From OCV Require Import Base.Prelude.
Open Scope Z_scope.

(** [u64::try_from(dur.as_nanos()).map_or(u64::MAX, |d| d.saturating_add(now()))] *)
Definition get_timeout_time (now dur : Z) : Z :=
  if dur <=? U64MAX then sat_add64 dur now else U64MAX.

(** The [while left_total > slice] loop, with fuel; [None] = fuel exhausted (divergence). *)
Fixpoint slices_loop (fuel : nat) (left slice : Z) (acc : list Z) : option (list Z) :=
  match fuel with
  | O => None
  | S f =>
      if slice <? left
      then slices_loop f (left - slice) slice (slice :: acc)
      else Some (rev (left :: acc))
  end.

Definition get_slices_fuel (fuel : nat) (total slice : Z) : option (list Z) :=
  if total =? 0 then Some [] else slices_loop fuel total slice [].

(** Fuel that the termination theorem shows to be sufficient whenever [slice > 0]. *)
Definition slices_fuel (total slice : Z) : nat := S (Z.to_nat (total / (Z.max slice 1))).

Definition get_slices (total slice : Z) : option (list Z) :=
  get_slices_fuel (slices_fuel total slice) total slice.

(** [get_time_limit]: a negative [tv_sec] (Linux setsockopt accepts it and stores a zero timeout:
    operations time out at once) gives the shortest limit, 1 ns; [None] models the
    [expect("overflow")] panic on a negative [tv_usec]. *)
Definition get_time_limit (sec usec : Z) : option Z :=
  if sec <? 0 then Some 1
  else if usec <? 0 then None
  else
    let t := sat_add64 (sat_mul64 sec 1000000000) (sat_mul64 usec 1000) in
    Some (if t =? 0 then U64MAX else t).
