(** C22 proofs, layer 3: every action keeps the invariant; the statements of Props/C22. *)
From OCV Require Import Base.Prelude Misc.Monitor Misc.MonitorLemmas Misc.MonitorInv.
From Coq Require Import ZifyBool ZifyNat.
Open Scope Z_scope.

(** what [change] leaves alone *)
Lemma change_frame s c new p :
  (c < length (m_cos s))%nat -> (c_thr (get_co s c) < length (m_thr s))%nat ->
  let s' := change s c new p in
  (forall t', t_cur (get_thr s' t') = t_cur (get_thr s t') /\ t_ready (get_thr s' t') = t_ready (get_thr s t') /\
              t_pending (get_thr s' t') = t_pending (get_thr s t')) /\
  (forall c', c' <> c -> get_co s' c' = get_co s c') /\
  c_st (get_co s' c) = new /\ c_thr (get_co s' c) = c_thr (get_co s c) /\
  c_body (get_co s' c) = c_body (get_co s c) /\ c_acc (get_co s' c) = c_acc (get_co s c) /\
  m_clock s' = m_clock s /\ m_atomic s' = m_atomic s.
Proof.
  intros Hc Ht s'. unfold s'. rewrite change_unfold. cbv zeta.
  set (k := get_co s c). set (t := c_thr k) in *.
  set (nd := match new with CRunning => Some (m_clock s + SLICE, t) | _ => c_node k end).
  set (s1 := upd_co s c (co_with k new nd)).
  assert (get_co s1 c = co_with k new nd) as H1 by (apply get_co_upd_co_eq, Hc).
  assert (forall c', c' <> c -> get_co s1 c' = get_co s c') as H2 by (intros c' Hne; apply get_co_upd_co_neq; congruence).
  assert (forall o, let s2 := set_op s1 t o in
            (forall t', t_cur (get_thr s2 t') = t_cur (get_thr s t') /\ t_ready (get_thr s2 t') = t_ready (get_thr s t') /\
                        t_pending (get_thr s2 t') = t_pending (get_thr s t')) /\
            (forall c', get_co s2 c' = get_co s1 c') /\ m_clock s2 = m_clock s /\ m_atomic s2 = m_atomic s) as Hop.
  { intros o s2. unfold s2, set_op. change (m_atomic s1) with (m_atomic s). destruct (m_atomic s) eqn:Ea.
    - repeat split. exact Ea.
    - split; [|split; [reflexivity | split; [reflexivity | exact Ea]]]. intro t'. destruct (Nat.eq_dec t t') as [<-|Hne].
      + rewrite get_thr_upd_thr_eq by exact Ht. repeat split.
      + rewrite get_thr_upd_thr_neq by exact Hne. repeat split. }
  destruct (match new with CRunning => Some (OpInsert (m_clock s + SLICE, t)) | CReady => None | _ => option_map OpRemove (c_node k) end) as [o|].
  - destruct (Hop o) as (Ha & Hb & Hc' & Hat). cbv zeta in *.
    split; [exact Ha|]. split; [intros c' Hne; change (get_co (with_log (set_op s1 t o) _) c') with (get_co (set_op s1 t o) c'); rewrite Hb; apply H2, Hne|].
    change (get_co (with_log (set_op s1 t o) _) c) with (get_co (set_op s1 t o) c). rewrite Hb, H1.
    split; [reflexivity|]. split; [reflexivity|]. split; [reflexivity|]. split; [reflexivity|]. split; [exact Hc' | exact Hat].
  - split; [intro t'; repeat split|]. split; [intros c' Hne; apply H2, Hne|].
    change (get_co (with_log s1 _) c) with (get_co s1 c). rewrite H1. repeat split.
Qed.

Section Step.
  Variable nthr : nat.
  Variable progs : list (nat * list instr).

  Lemma inv_yield s t c p :
    INVM nthr progs s -> (t < nthr)%nat -> t_cur (get_thr s t) = Some c -> t_mid (get_thr s t) = None ->
    c_st (get_co s c) = CRunning -> INVM nthr progs (yield_thread s t c p).
  Proof.
    intros HI Ht Hcur Hmid Hst. destruct (v_cur _ _ _ HI t c Ht Hcur) as [Hc Hct].
    unfold yield_thread.
    assert (c < length (m_cos s))%nat as Hcl by (rewrite (v_ncos _ _ _ HI); exact Hc).
    assert (c_thr (get_co s c) < length (m_thr s))%nat as Htl by (rewrite Hct, (v_nthr _ _ _ HI); exact Ht).
    destruct (change_frame s c CSuspend p Hcl Htl) as (Hth & Hco & Hst1 & Hthr1 & _).
    pose proof (inv_change_leave nthr progs s c t CSuspend p HI Hc Hct Hcur Hmid Hst) as H1.
    set (s1 := change s c CSuspend p) in *.
    apply inv_sched; [exact H1 | exact Ht | | |].
    - intros c' Hin. apply in_app_iff in Hin as [Hin|[<-|[]]].
      + apply (v_ready _ _ _ H1 t c' Ht Hin).
      + split; [exact Hc | rewrite Hthr1; exact Hct].
    - discriminate.
    - unfold running_cur. rewrite (proj1 (Hth t)), Hcur, Hst1. reflexivity.
  Qed.

  Lemma inv_step_thread s t : INVM nthr progs s -> (t < nthr)%nat -> INVM nthr progs (step_thread s t).
  Proof.
    intros HI Ht. unfold step_thread.
    destruct (t_mid (get_thr s t)) as [[o snap]|] eqn:Hmid; [apply inv_write; assumption|].
    destruct (t_cur (get_thr s t)) as [c|] eqn:Hcur.
    - destruct (v_cur _ _ _ HI t c Ht Hcur) as [Hc Hct].
      assert (c < length (m_cos s))%nat as Hcl by (rewrite (v_ncos _ _ _ HI); exact Hc).
      destruct (c_body (get_co s c)) as [|i b] eqn:Hb.
      + (* the body is over *)
        assert (c_acc (get_co s c) = works (snd (prog_of progs c))) as Hacc.
        { destruct (v_res _ _ _ HI c Hc) as [Hx _]. rewrite Hb in Hx. change (works []) with 0 in Hx. lia. }
        assert (c_thr (get_co s c) < length (m_thr s))%nat as Htl by (rewrite Hct, (v_nthr _ _ _ HI); exact Ht).
        destruct (change_frame s c (CDone (c_acc (get_co s c))) false Hcl Htl) as (Hth & Hco & Hst1 & Hthr1 & _).
        pose proof (inv_change_leave nthr progs s c t (CDone (c_acc (get_co s c))) false HI Hc Hct Hcur Hmid (conj eq_refl Hacc)) as H1.
        set (s1 := change s c (CDone (c_acc (get_co s c))) false) in *.
        apply inv_sched; [exact H1 | exact Ht | | discriminate |].
        * intros c' Hin. apply (v_ready _ _ _ H1 t c' Ht Hin).
        * unfold running_cur. rewrite (proj1 (Hth t)), Hcur, Hst1. reflexivity.
      + assert (forall acc, acc + works b = c_acc (get_co s c) + works (c_body (get_co s c)) ->
                            INVM nthr progs (set_body s c b acc)) as Hbody by (intros acc Hw; apply inv_body; assumption).
        destruct i as [n| | |].
        * apply inv_log; [|exact I]. apply Hbody. rewrite Hb. change (works (IWork n :: b)) with (n + works b). lia.
        * assert (INVM nthr progs (set_body s c b (c_acc (get_co s c)))) as H1 by (apply Hbody; rewrite Hb; reflexivity).
          destruct (c_st (get_co s c)) eqn:Hst; try exact H1.
          apply (inv_change_leave nthr progs _ c t CSyscall false H1 Hc); try assumption.
          -- unfold set_body. rewrite get_co_upd_co_eq by exact Hcl. exact Hct.
          -- reflexivity.
        * assert (INVM nthr progs (set_body s c b (c_acc (get_co s c)))) as H1 by (apply Hbody; rewrite Hb; reflexivity).
          destruct (c_st (get_co s c)) eqn:Hst; try exact H1.
          apply (inv_change_run nthr progs _ c t H1 Hc); try assumption.
          -- unfold set_body. rewrite get_co_upd_co_eq by exact Hcl. exact Hct.
          -- unfold set_body. rewrite get_co_upd_co_eq by exact Hcl. cbn [c_st]. rewrite Hst. discriminate.
        * assert (INVM nthr progs (set_body s c b (c_acc (get_co s c)))) as H1 by (apply Hbody; rewrite Hb; reflexivity).
          destruct (c_st (get_co s c)) eqn:Hst; try exact H1.
          apply inv_yield; try assumption.
          -- apply inv_log; [exact H1 | exact I].
          -- change (c_st (get_co (set_body s c b (c_acc (get_co s c))) c) = CRunning).
             unfold set_body. rewrite get_co_upd_co_eq by exact Hcl. exact Hst.
    - destruct (t_ready (get_thr s t)) as [|c rest] eqn:Hr; [exact HI|].
      assert (In c (t_ready (get_thr s t))) as Hin by (rewrite Hr; left; reflexivity).
      destruct (v_ready _ _ _ HI t c Ht Hin) as [Hc Hct].
      assert (running_cur s t = None) as Hnone by (unfold running_cur; rewrite Hcur; reflexivity).
      assert (c_st (get_co s c) <> CRunning) as Hnr.
      { intro Hst. pose proof (v_run _ _ _ HI c Hc Hst) as Hx. rewrite Hct, Hcur in Hx. discriminate. }
      assert (INVM nthr progs (upd_thr s t (t_with_sched (get_thr s t) rest (Some c)))) as H1.
      { apply inv_sched; try assumption.
        - intros c' Hin'. apply (v_ready _ _ _ HI t c' Ht). rewrite Hr. right. exact Hin'.
        - intros c' Hx. injection Hx as <-. repeat split; assumption. }
      assert (t < length (m_thr s))%nat as Htl by (rewrite (v_nthr _ _ _ HI); exact Ht).
      apply (inv_change_run nthr progs _ c t H1 Hc).
      + exact Hct.
      + rewrite get_thr_upd_thr_eq by exact Htl. reflexivity.
      + rewrite get_thr_upd_thr_eq by exact Htl. exact Hmid.
      + exact Hnr.
  Qed.

  Lemma inv_deliver s t : INVM nthr progs s -> (t < nthr)%nat -> INVM nthr progs (deliver s t).
  Proof.
    intros HI Ht. unfold deliver. destruct (t_pending (get_thr s t)); [|exact HI]. cbn [negb].
    destruct (t_mid (get_thr s t)) eqn:Hmid; [exact HI|].
    assert (t < length (m_thr s))%nat as Htl by (rewrite (v_nthr _ _ _ HI); exact Ht).
    set (s1 := upd_thr s t (t_with_pending (get_thr s t) false)).
    assert (INVM nthr progs (with_log s1 (m_log s1 ++ [MSignal t]))) as H2 by (apply inv_log; [apply inv_pending, HI | exact I]).
    destruct (t_cur (get_thr s t)) as [c|] eqn:Hcur; [|exact H2].
    destruct (c_st (get_co (with_log s1 (m_log s1 ++ [MSignal t])) c)) eqn:Hst; try exact H2.
    apply inv_yield; try assumption.
    - change (t_cur (get_thr s1 t) = Some c). unfold s1. rewrite get_thr_upd_thr_eq by exact Htl. exact Hcur.
    - change (t_mid (get_thr s1 t) = None). unfold s1. rewrite get_thr_upd_thr_eq by exact Htl. exact Hmid.
  Qed.

  Lemma inv_mstep s a : INVM nthr progs s -> INVM nthr progs (mstep s a).
  Proof.
    intro HI. destruct a as [t|d| |t]; cbn [mstep].
    - rewrite (v_nthr _ _ _ HI). destruct (Nat.ltb t nthr) eqn:E; [apply inv_step_thread; [exact HI | apply Nat.ltb_lt, E] | exact HI].
    - apply inv_tick, HI.
    - apply scan_inv, HI.
    - rewrite (v_nthr _ _ _ HI). destruct (Nat.ltb t nthr) eqn:E; [apply inv_deliver; [exact HI | apply Nat.ltb_lt, E] | exact HI].
  Qed.

  Lemma inv_mrun sched : forall s, INVM nthr progs s -> INVM nthr progs (mrun s sched).
  Proof.
    induction sched as [|a sched IH]; intros s HI; [exact HI|]. cbn [mrun fold_left]. apply IH, inv_mstep, HI.
  Qed.
End Step.

(** * The initial state *)
Definition wfp (nthr : nat) (progs : list (nat * list instr)) : bool := forallb (fun p => Nat.ltb (fst p) nthr) progs.

Lemma in_combine_seq {A} (l : list A) : forall a i p, In (i, p) (combine (seq a (length l)) l) -> (a <= i)%nat /\ nth_error l (i - a) = Some p.
Proof.
  induction l as [|x l IH]; intros a i p Hin; [destruct Hin|]. cbn [length seq combine] in Hin.
  destruct Hin as [Hin|Hin].
  - injection Hin as <- <-. rewrite Nat.sub_diag. split; [lia | reflexivity].
  - destruct (IH (S a) i p Hin) as [Hle Hn]. split; [lia|].
    replace (i - a)%nat with (S (i - S a)) by lia. exact Hn.
Qed.

Lemma get_co_init atomic clock nthr progs c :
  get_co (minit atomic clock nthr progs) c =
  {| c_thr := fst (prog_of progs c); c_st := CReady; c_body := snd (prog_of progs c); c_acc := 0; c_node := None |}.
Proof.
  unfold get_co, minit. cbn [m_cos].
  change dco with ((fun p : nat * list instr => {| c_thr := fst p; c_st := CReady; c_body := snd p; c_acc := 0; c_node := None |}) (O, [])).
  rewrite map_nth. reflexivity.
Qed.

Lemma get_thr_init atomic clock nthr progs t : (t < nthr)%nat ->
  get_thr (minit atomic clock nthr progs) t =
  {| t_ready := map fst (filter (fun ip => Nat.eqb (fst (snd ip)) t) (combine (seq 0 (length progs)) progs));
     t_cur := None; t_pending := false; t_mid := None |}.
Proof.
  intro Ht. unfold get_thr, minit. cbn [m_thr].
  set (f := fun t0 => {| t_ready := map fst (filter (fun ip : nat * (nat * list instr) => Nat.eqb (fst (snd ip)) t0) (combine (seq 0 (length progs)) progs));
                         t_cur := None; t_pending := false; t_mid := None |}).
  rewrite (nth_indep _ dthr (f O)) by (rewrite map_length, seq_length; exact Ht).
  rewrite map_nth, seq_nth by exact Ht. reflexivity.
Qed.

Lemma inv_init atomic clock nthr progs : wfp nthr progs = true -> INVM nthr progs (minit atomic clock nthr progs).
Proof.
  intro Hwf. unfold wfp in Hwf. rewrite forallb_forall in Hwf.
  assert (forall c, (c < length progs)%nat -> (fst (prog_of progs c) < nthr)%nat) as Hlt.
  { intros c Hc. apply Nat.ltb_lt, Hwf. unfold prog_of. apply nth_In, Hc. }
  constructor.
  - unfold minit. cbn [m_thr]. rewrite map_length, seq_length. reflexivity.
  - unfold minit. cbn [m_cos]. apply map_length.
  - intros c Hc. rewrite get_co_init. cbn [c_thr]. split; [reflexivity | apply Hlt, Hc].
  - intros t c Ht. rewrite get_thr_init by exact Ht. discriminate.
  - intros t c Ht. rewrite get_thr_init by exact Ht. cbn [t_ready]. intro Hin.
    apply in_map_iff in Hin as ([i p] & Hf & Hin). cbn [fst] in Hf. subst i.
    apply filter_In in Hin as [Hin Hp]. cbn [snd fst] in Hp. apply Nat.eqb_eq in Hp.
    apply in_combine_seq in Hin as [_ Hn]. rewrite Nat.sub_0_r in Hn.
    assert (c < length progs)%nat as Hc by (apply nth_error_Some; congruence).
    split; [exact Hc|]. rewrite get_co_init. cbn [c_thr]. unfold prog_of. rewrite (nth_error_nth _ _ _ Hn). exact Hp.
  - intros c Hc. rewrite get_co_init. discriminate.
  - intros c n Hc. rewrite get_co_init. discriminate.
  - right. intros t Ht. unfold rel, running_cur. rewrite get_thr_init by exact Ht. reflexivity.
  - intros _. split; [reflexivity|]. intros t Ht. rewrite get_thr_init by exact Ht. reflexivity.
  - intros c Hc. rewrite get_co_init. cbn [c_acc c_body c_st]. split; [lia | discriminate].
  - constructor.
  - intros c Hc. rewrite get_co_init. discriminate.
Qed.

Lemma inv_reach atomic clock nthr progs sched :
  wfp nthr progs = true -> INVM nthr progs (mrun (minit atomic clock nthr progs) sched).
Proof. intro H. apply inv_mrun, inv_init, H. Qed.

(** * Statements *)
Definition running_on (s : mst) (t : nat) : Prop := exists c, t_cur (get_thr s t) = Some c /\ c_st (get_co s c) = CRunning.

Lemma node_iff_running_gen nthr progs s t :
  INVM nthr progs s -> m_defect s = false -> (forall t', (t' < nthr)%nat -> t_mid (get_thr s t') = None) -> (t < nthr)%nat ->
  (has_node s t = true <-> running_on s t).
Proof.
  intros HI Hd Hm Ht. destruct (v_rel _ _ _ HI) as [Hx|Hr]; [congruence|]. specialize (Hr t Ht).
  unfold rel in Hr. rewrite (Hm t Ht) in Hr. rewrite has_node_nodes_of, Hr. unfold running_on, running_cur.
  destruct (t_cur (get_thr s t)) as [c|] eqn:Hc.
  - destruct (c_st (get_co s c)) eqn:Hst; cbn [is_run negb].
    1,3,4,5: split; [discriminate | intros (c' & Hc' & Hs'); injection Hc' as <-; congruence].
    destruct (v_cur _ _ _ HI t c Ht Hc) as [Hcl _].
    destruct (v_ts _ _ _ HI c Hcl Hst) as (ts & Hn & _). rewrite Hn. cbn [node_list negb].
    split; [intros _; exists c; split; [reflexivity | exact Hst] | reflexivity].
  - cbn [negb]. split; [discriminate | intros (c' & Hc' & _); discriminate].
Qed.


(** the granularity of the set operations never changes *)
Lemma atomic_set_op s t o : m_atomic (set_op s t o) = m_atomic s.
Proof. unfold set_op. destruct (m_atomic s) eqn:E; cbn [with_nodes upd_thr with_thrs m_atomic]; exact E. Qed.

Lemma atomic_change s c new p : m_atomic (change s c new p) = m_atomic s.
Proof.
  rewrite change_unfold. cbv zeta. cbn [with_log m_atomic].
  destruct (match new with CRunning => Some (OpInsert (m_clock s + SLICE, c_thr (get_co s c))) | CReady => None | _ => option_map OpRemove (c_node (get_co s c)) end);
    [rewrite atomic_set_op|]; reflexivity.
Qed.

Lemma atomic_yield s t c p : m_atomic (yield_thread s t c p) = m_atomic s.
Proof. unfold yield_thread. cbn [upd_thr with_thrs m_atomic]. apply atomic_change. Qed.

Lemma atomic_mstep s a : m_atomic (mstep s a) = m_atomic s.
Proof.
  destruct a as [t|d| |t]; cbn [mstep].
  - destruct (Nat.ltb t (length (m_thr s))); [|reflexivity]. unfold step_thread.
    destruct (t_mid (get_thr s t)) as [[o sn]|]; [reflexivity|].
    destruct (t_cur (get_thr s t)) as [c|].
    + destruct (c_body (get_co s c)) as [|[n| | |] b].
      * cbn [upd_thr with_thrs m_atomic]. apply atomic_change.
      * reflexivity.
      * destruct (c_st (get_co s c)); try reflexivity. rewrite atomic_change. reflexivity.
      * destruct (c_st (get_co s c)); try reflexivity. rewrite atomic_change. reflexivity.
      * destruct (c_st (get_co s c)); try reflexivity. rewrite atomic_yield. reflexivity.
    + destruct (t_ready (get_thr s t)); [reflexivity|]. rewrite atomic_change. reflexivity.
  - reflexivity.
  - rewrite scan_eq. destruct (in_flight s); [|apply scan_fold_atomic]. change (m_atomic (with_nodes (scan_fold s) (m_nodes (scan_fold s)) true)) with (m_atomic (scan_fold s)). apply scan_fold_atomic.
  - destruct (Nat.ltb t (length (m_thr s))); [|reflexivity]. unfold deliver.
    destruct (negb (t_pending (get_thr s t))); [reflexivity|]. destruct (t_mid (get_thr s t)); [reflexivity|].
    destruct (t_cur (get_thr s t)) as [c|]; [|reflexivity].
    destruct (c_st (get_co _ c)); try reflexivity. rewrite atomic_yield. reflexivity.
Qed.

Lemma atomic_mrun sched : forall s, m_atomic (mrun s sched) = m_atomic s.
Proof. induction sched as [|a l IH]; intro s; [reflexivity|]. change (mrun s (a :: l)) with (mrun (mstep s a) l). rewrite IH. apply atomic_mstep. Qed.

(** with synchronised set operations: at every moment, under every schedule and for any number of
    threads, a thread has a node in the set iff its current coroutine is Running *)
Theorem node_iff_running : forall clock nthr progs sched t,
  wfp nthr progs = true -> (t < nthr)%nat ->
  let s := mrun (minit true clock nthr progs) sched in
  has_node s t = true <-> running_on s t.
Proof.
  intros clock nthr progs sched t Hwf Ht s. pose proof (inv_reach true clock nthr progs sched Hwf) as HI. fold s in HI.
  assert (m_atomic s = true) as Ha by (unfold s; rewrite atomic_mrun; reflexivity).
  destruct (v_atomic _ _ _ HI Ha) as [Hd Hm]. apply (node_iff_running_gen nthr progs s t HI Hd Hm Ht).
Qed.

(** with the unsynchronised (two-step) operations the same holds at every quiescent moment of a
    run in which no write-back overwrote a concurrent operation *)
Theorem node_iff_running_outside : forall clock nthr progs sched t,
  wfp nthr progs = true -> (t < nthr)%nat ->
  let s := mrun (minit false clock nthr progs) sched in
  m_defect s = false -> (forall t', (t' < nthr)%nat -> t_mid (get_thr s t') = None) ->
  has_node s t = true <-> running_on s t.
Proof.
  intros clock nthr progs sched t Hwf Ht s Hd Hm. pose proof (inv_reach false clock nthr progs sched Hwf) as HI. fold s in HI.
  apply (node_iff_running_gen nthr progs s t HI Hd Hm Ht).
Qed.

(** the signal handler suspends only Running coroutines; a suspension always starts from Running:
    a coroutine in a system-call state is never suspended (either granularity, any schedule) *)
Theorem syscall_never_suspended : forall atomic clock nthr progs sched c old new p f,
  wfp nthr progs = true ->
  In (MChange c old new p f) (m_log (mrun (minit atomic clock nthr progs) sched)) ->
  (new = CSuspend -> old = CRunning) /\ (p = true -> old = CRunning /\ new = CSuspend) /\ (old = CSyscall -> new <> CSuspend).
Proof.
  intros atomic clock nthr progs sched c old new p f Hwf Hin.
  pose proof (v_log _ _ _ (inv_reach atomic clock nthr progs sched Hwf)) as Hl. rewrite Forall_forall in Hl.
  specialize (Hl _ Hin). cbn [okev] in Hl. destruct Hl as [H1 H2]. split; [exact H1|]. split; [exact H2|].
  intros -> ->. specialize (H1 eq_refl). discriminate.
Qed.

(** the result of a coroutine is its body's own, whatever the schedule, the signals, the
    granularity: preemption never changes a computed result *)
Theorem results_unchanged : forall atomic clock nthr progs sched c r,
  wfp nthr progs = true -> (c < length progs)%nat ->
  c_st (get_co (mrun (minit atomic clock nthr progs) sched) c) = CDone r -> r = works (snd (prog_of progs c)).
Proof.
  intros atomic clock nthr progs sched c r Hwf Hc Hst.
  exact (proj2 (v_res _ _ _ (inv_reach atomic clock nthr progs sched Hwf) c Hc) r Hst).
Qed.

Lemma len_thr_set_op s t o : length (m_thr (set_op s t o)) = length (m_thr s).
Proof. unfold set_op. destruct (m_atomic s); [reflexivity | apply len_thr_upd_thr]. Qed.

Lemma len_thr_change s c new p : length (m_thr (change s c new p)) = length (m_thr s).
Proof.
  rewrite change_unfold. cbv zeta. cbn [with_log m_thr].
  destruct (match new with CRunning => Some (OpInsert (m_clock s + SLICE, c_thr (get_co s c))) | CReady => None | _ => option_map OpRemove (c_node (get_co s c)) end);
    [rewrite len_thr_set_op|]; reflexivity.
Qed.

(** * The monitor's scan and the delivery of the signal *)
Definition scan_f (s1 : mst) (n : node) : mst :=
  if fst n <=? m_clock s1 then upd_thr s1 (snd n) (t_with_pending (get_thr s1 (snd n)) true) else s1.

Lemma scan_f_facts s n :
  let s' := scan_f s n in
  m_cos s' = m_cos s /\ length (m_thr s') = length (m_thr s) /\ m_clock s' = m_clock s /\
  (forall t, t_cur (get_thr s' t) = t_cur (get_thr s t) /\ t_ready (get_thr s' t) = t_ready (get_thr s t) /\
             t_mid (get_thr s' t) = t_mid (get_thr s t) /\ (t_pending (get_thr s t) = true -> t_pending (get_thr s' t) = true)) /\
  (fst n <= m_clock s -> (snd n < length (m_thr s))%nat -> t_pending (get_thr s' (snd n)) = true).
Proof.
  intro s'. unfold s', scan_f. destruct (fst n <=? m_clock s) eqn:E.
  - split; [reflexivity|]. split; [apply len_thr_upd_thr|]. split; [reflexivity|]. split.
    + intro t. destruct (Nat.eq_dec (snd n) t) as [<-|Hne].
      * destruct (lt_dec (snd n) (length (m_thr s))) as [Hl|Hl].
        -- rewrite get_thr_upd_thr_eq by exact Hl. repeat split.
        -- unfold get_thr, upd_thr, with_thrs. cbn [m_thr]. rewrite set_nth_ge by lia. repeat split. tauto.
      * rewrite get_thr_upd_thr_neq by exact Hne. repeat split. tauto.
    + intros _ Hl. rewrite get_thr_upd_thr_eq by exact Hl. reflexivity.
  - split; [reflexivity|]. split; [reflexivity|]. split; [reflexivity|]. split; [intro t; repeat split; tauto | lia].
Qed.

Lemma scan_fold_facts s :
  m_cos (scan_fold s) = m_cos s /\ length (m_thr (scan_fold s)) = length (m_thr s) /\ m_clock (scan_fold s) = m_clock s /\
  (forall t, t_cur (get_thr (scan_fold s) t) = t_cur (get_thr s t) /\ t_ready (get_thr (scan_fold s) t) = t_ready (get_thr s t) /\
             t_mid (get_thr (scan_fold s) t) = t_mid (get_thr s t)) /\
  (forall n, In n (m_nodes s) -> fst n <= m_clock s -> (snd n < length (m_thr s))%nat -> t_pending (get_thr (scan_fold s) (snd n)) = true).
Proof.
  unfold scan_fold. change (fun s1 n => if fst n <=? m_clock s1 then upd_thr s1 (snd n) (t_with_pending (get_thr s1 (snd n)) true) else s1) with scan_f.
  generalize (m_nodes s) as l. intro l.
  assert (forall l s0,
            m_cos (fold_left scan_f l s0) = m_cos s0 /\ length (m_thr (fold_left scan_f l s0)) = length (m_thr s0) /\
            m_clock (fold_left scan_f l s0) = m_clock s0 /\
            (forall t, t_cur (get_thr (fold_left scan_f l s0) t) = t_cur (get_thr s0 t) /\
                       t_ready (get_thr (fold_left scan_f l s0) t) = t_ready (get_thr s0 t) /\
                       t_mid (get_thr (fold_left scan_f l s0) t) = t_mid (get_thr s0 t) /\
                       (t_pending (get_thr s0 t) = true -> t_pending (get_thr (fold_left scan_f l s0) t) = true)) /\
            (forall n, In n l -> fst n <= m_clock s0 -> (snd n < length (m_thr s0))%nat ->
                       t_pending (get_thr (fold_left scan_f l s0) (snd n)) = true)) as Hg.
  { induction l0 as [|x l0 IH]; intro s0.
    - cbn [fold_left]. repeat split; try tauto. intros n [].
    - cbn [fold_left]. destruct (scan_f_facts s0 x) as (A1 & A2 & A3 & A4 & A5).
      destruct (IH (scan_f s0 x)) as (B1 & B2 & B3 & B4 & B5).
      split; [congruence|]. split; [congruence|]. split; [congruence|]. split.
      + intro t. destruct (A4 t) as (a1 & a2 & a3 & a4). destruct (B4 t) as (b1 & b2 & b3 & b4).
        split; [congruence|]. split; [congruence|]. split; [congruence|]. tauto.
      + intros n [<-|Hin] Hle Hlt.
        * apply (proj2 (proj2 (proj2 (B4 (snd x))))). apply A5; assumption.
        * apply B5; [exact Hin | rewrite A3; exact Hle | rewrite A2; exact Hlt]. }
  destruct (Hg l s) as (C1 & C2 & C3 & C4 & C5).
  split; [exact C1|]. split; [exact C2|]. split; [exact C3|]. split; [|exact C5].
  intro t. destruct (C4 t) as (c1 & c2 & c3 & _). repeat split; assumption.
Qed.

Lemma scan_facts s :
  m_cos (scan s) = m_cos s /\ length (m_thr (scan s)) = length (m_thr s) /\ m_clock (scan s) = m_clock s /\
  (forall t, t_cur (get_thr (scan s) t) = t_cur (get_thr s t) /\ t_ready (get_thr (scan s) t) = t_ready (get_thr s t) /\
             t_mid (get_thr (scan s) t) = t_mid (get_thr s t)) /\
  (forall n, In n (m_nodes s) -> fst n <= m_clock s -> (snd n < length (m_thr s))%nat -> t_pending (get_thr (scan s) (snd n)) = true).
Proof.
  rewrite scan_eq. destruct (in_flight s); [|apply scan_fold_facts].
  exact (scan_fold_facts s).
Qed.

(** a coroutine that has been Running for the whole slice is signalled by the monitor's next scan,
    and the signal takes the thread away from it: it is suspended and queued behind every ready
    sibling of its thread *)
Theorem overdue_signalled : forall clock nthr progs sched t c d,
  wfp nthr progs = true -> (t < nthr)%nat ->
  let s := mrun (minit true clock nthr progs) sched in
  t_cur (get_thr s t) = Some c -> c_st (get_co s c) = CRunning -> SLICE <= d ->
  let s' := mrun s [ATick d; AScan; ASig t] in
  c_st (get_co s' c) = CSuspend /\ t_cur (get_thr s' t) = None /\ t_ready (get_thr s' t) = t_ready (get_thr s t) ++ [c].
Proof.
  intros clock nthr progs sched t c d Hwf Ht s Hcur Hst Hd s'.
  pose proof (inv_reach true clock nthr progs sched Hwf) as HI. fold s in HI.
  assert (m_atomic s = true) as Ha by (unfold s; rewrite atomic_mrun; reflexivity).
  destruct (v_atomic _ _ _ HI Ha) as [Hdef Hm].
  destruct (v_cur _ _ _ HI t c Ht Hcur) as [Hc Hct].
  destruct (v_ts _ _ _ HI c Hc Hst) as (ts & Hn & Hts). rewrite Hct in Hn.
  (* its node is in the set *)
  assert (In (ts, t) (m_nodes s)) as Hin.
  { destruct (v_rel _ _ _ HI) as [Hx|Hr]; [congruence|]. specialize (Hr t Ht). unfold rel in Hr. rewrite (Hm t Ht) in Hr.
    unfold running_cur in Hr. rewrite Hcur, Hst in Hr. cbn [is_run] in Hr. rewrite Hn in Hr. cbn [node_list] in Hr.
    assert (In (ts, t) (nodes_of (m_nodes s) t)) as Hx by (rewrite Hr; left; reflexivity).
    unfold nodes_of in Hx. apply filter_In in Hx. tauto. }
  assert (unfold_run : s' = deliver (scan (with_clock s (m_clock s + Z.max d 0))) t).
  { unfold s'. cbn [mrun fold_left mstep]. rewrite (proj1 (proj2 (scan_facts _))). cbn [with_clock m_thr].
    rewrite (v_nthr _ _ _ HI). assert (Nat.ltb t nthr = true) as -> by (apply Nat.ltb_lt, Ht). reflexivity. }
  rewrite unfold_run. clear unfold_run s'.
  set (s1 := with_clock s (m_clock s + Z.max d 0)).
  destruct (scan_facts s1) as (S1 & S2 & S3 & S4 & S5).
  set (s2 := scan s1) in *.
  assert (t < length (m_thr s2))%nat as Htl2 by (rewrite S2; unfold s1; cbn [with_clock m_thr]; rewrite (v_nthr _ _ _ HI); exact Ht).
  assert (t_pending (get_thr s2 t) = true) as Hp.
  { apply (S5 (ts, t)); [exact Hin | unfold s1; cbn [with_clock m_clock fst]; unfold SLICE in *; lia |].
    cbn [snd]. unfold s1. cbn [with_clock m_thr]. rewrite (v_nthr _ _ _ HI). exact Ht. }
  destruct (S4 t) as (Sc & Sr & Sm). change (get_thr s1 t) with (get_thr s t) in Sc, Sr, Sm.
  assert (forall c', get_co s2 c' = get_co s c') as Hco2 by (intro c'; unfold get_co; rewrite S1; reflexivity).
  unfold deliver. rewrite Hp. cbn [negb]. rewrite Sm, (Hm t Ht), Sc, Hcur.
  set (s3 := with_log (upd_thr s2 t (t_with_pending (get_thr s2 t) false)) (m_log (upd_thr s2 t (t_with_pending (get_thr s2 t) false)) ++ [MSignal t])).
  assert (forall c', get_co s3 c' = get_co s c') as Hco3 by (intro c'; change (get_co s3 c') with (get_co s2 c'); apply Hco2).
  rewrite Hco3, Hst. unfold yield_thread.
  assert (get_thr s3 t = t_with_pending (get_thr s2 t) false) as Hg3 by (apply get_thr_upd_thr_eq, Htl2).
  assert (c < length (m_cos s3))%nat as Hcl3.
  { change (m_cos s3) with (m_cos s2). rewrite S1. change (m_cos s1) with (m_cos s). rewrite (v_ncos _ _ _ HI). exact Hc. }
  assert (c_thr (get_co s3 c) < length (m_thr s3))%nat as Htl3.
  { rewrite Hco3, Hct. change (m_thr s3) with (m_thr (upd_thr s2 t (t_with_pending (get_thr s2 t) false))).
    rewrite len_thr_upd_thr. exact Htl2. }
  destruct (change_frame s3 c CSuspend true Hcl3 Htl3) as (Hth & _ & Hst4 & _).
  set (s4 := change s3 c CSuspend true) in *.
  assert (t < length (m_thr s4))%nat as Htl4.
  { unfold s4. rewrite len_thr_change. change (m_thr s3) with (m_thr (upd_thr s2 t (t_with_pending (get_thr s2 t) false))).
    rewrite len_thr_upd_thr. exact Htl2. }
  rewrite get_co_upd_thr, Hst4, !get_thr_upd_thr_eq by exact Htl4. cbn [t_with_sched t_cur t_ready].
  split; [reflexivity|]. split; [reflexivity|]. rewrite (proj1 (proj2 (Hth t))), Hg3. cbn [t_with_pending t_ready]. rewrite Sr. reflexivity.
Qed.
