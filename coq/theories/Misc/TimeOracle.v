(** C28: input alphabet, observation alphabet, model run and the property as an executable oracle. *)
From OCV Require Import Base.Prelude Misc.Time.
Open Scope Z_scope.

Inductive op :=
| TimeoutTime (now dur : Z)
| Slices (total slice : Z)
| TimeLimit (sec usec : Z).

Inductive obs :=
| OVal (z : Z)
| OList (l : list Z)
| OPanic
| ODiverged.

Definition obs_eqb (a b : obs) : bool :=
  match a, b with
  | OVal x, OVal y => x =? y
  | OList l1, OList l2 => list_eqb Z.eqb l1 l2
  | OPanic, OPanic => true
  | ODiverged, ODiverged => true
  | _, _ => false
  end.

(** Inputs the real functions accept (types u64 / Duration / timeval). *)
Definition wf_op (o : op) : bool :=
  match o with
  | TimeoutTime now dur => in_u64 now && (0 <=? dur)
  | Slices total slice => (0 <=? total) && (0 <=? slice)
  | TimeLimit _ _ => true
  end.

Definition run_op (o : op) : obs :=
  match o with
  | TimeoutTime now dur => OVal (get_timeout_time now dur)
  | Slices total slice =>
      match get_slices total slice with Some l => OList l | None => ODiverged end
  | TimeLimit sec usec =>
      match get_time_limit sec usec with Some t => OVal t | None => OPanic end
  end.

(** The property, over an observed result; mentions no model definition. *)
Definition ok_op (o : op) (r : obs) : bool :=
  match o, r with
  | TimeoutTime now dur, OVal v => v =? Z.min (now + dur) U64MAX
  | TimeoutTime _ _, _ => false
  | Slices total slice, r =>
      if slice =? 0 then true (* zero slice is outside the statement *)
      else match r with
           | OList l =>
               forallb (fun p => (0 <? p) && (p <=? slice)) l
               && (sumZ l =? total)
               && (match l with [] => total =? 0 | _ => negb (total =? 0) end)
           | _ => false
           end
  | TimeLimit sec usec, r =>
      if (sec <? 0) || (usec <? 0) then true (* negative fields are outside the statement *)
      else match r with
           | OVal v =>
               if (sec =? 0) && (usec =? 0) then v =? U64MAX
               else v =? Z.min (sec * 1000000000 + usec * 1000) U64MAX
           | _ => false
           end
  end.

Definition run_C28 (ops : list op) : list obs := map run_op ops.
Fixpoint ok_C28 (ops : list op) (rs : list obs) : bool :=
  match ops, rs with
  | [], [] => true
  | o :: ops', r :: rs' => ok_op o r && ok_C28 ops' rs'
  | _, _ => false
  end.
Definition wf_C28 (ops : list op) : bool := forallb wf_op ops.
