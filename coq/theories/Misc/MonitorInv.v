(** C22 proofs, layer 2: the invariant of the monitor model (any number of threads, atomic or
    two-step set operations) and its preservation by the primitive moves. *)
From OCV Require Import Base.Prelude Misc.Monitor Misc.MonitorLemmas.
From Coq Require Import ZifyBool ZifyNat.
Open Scope Z_scope.

Definition is_run (s : cst) : bool := match s with CRunning => true | _ => false end.

(** the Running coroutine of thread [t], if any *)
Definition running_cur (s : mst) (t : nat) : option nat :=
  match t_cur (get_thr s t) with
  | Some c => if is_run (c_st (get_co s c)) then Some c else None
  | None => None
  end.

Definition node_list (o : option node) : list node := match o with Some n => [n] | None => [] end.

(** the nodes of thread [t] in the set, against what the thread is doing *)
Definition rel (s : mst) (t : nat) : Prop :=
  match t_mid (get_thr s t) with
  | None =>
      nodes_of (m_nodes s) t = match running_cur s t with Some c => node_list (c_node (get_co s c)) | None => [] end
  | Some (OpInsert n, _) =>
      (exists c, running_cur s t = Some c /\ c_node (get_co s c) = Some n) /\ snd n = t /\ nodes_of (m_nodes s) t = []
  | Some (OpRemove n, _) =>
      running_cur s t = None /\ snd n = t /\ (nodes_of (m_nodes s) t = [n] \/ nodes_of (m_nodes s) t = [])
  end.

(** what the log may contain: a suspension, and anything the signal handler does, starts from Running *)
Definition okev (e : mev) : Prop :=
  match e with
  | MChange _ old new p _ =>
      (new = CSuspend -> old = CRunning) /\ (p = true -> old = CRunning /\ new = CSuspend)
  | _ => True
  end.

Definition prog_of (progs : list (nat * list instr)) (c : nat) : nat * list instr := nth c progs (O, []).

Record INVM (nthr : nat) (progs : list (nat * list instr)) (s : mst) : Prop := {
  v_nthr : length (m_thr s) = nthr;
  v_ncos : length (m_cos s) = length progs;
  v_thr : forall c, (c < length progs)%nat -> c_thr (get_co s c) = fst (prog_of progs c) /\ (c_thr (get_co s c) < nthr)%nat;
  v_cur : forall t c, (t < nthr)%nat -> t_cur (get_thr s t) = Some c -> (c < length progs)%nat /\ c_thr (get_co s c) = t;
  v_ready : forall t c, (t < nthr)%nat -> In c (t_ready (get_thr s t)) -> (c < length progs)%nat /\ c_thr (get_co s c) = t;
  v_run : forall c, (c < length progs)%nat -> c_st (get_co s c) = CRunning -> t_cur (get_thr s (c_thr (get_co s c))) = Some c;
  v_node : forall c n, (c < length progs)%nat -> c_node (get_co s c) = Some n -> snd n = c_thr (get_co s c);
  v_rel : m_defect s = true \/ forall t, (t < nthr)%nat -> rel s t;
  v_atomic : m_atomic s = true -> m_defect s = false /\ forall t, (t < nthr)%nat -> t_mid (get_thr s t) = None;
  v_res : forall c, (c < length progs)%nat ->
            c_acc (get_co s c) + works (c_body (get_co s c)) = works (snd (prog_of progs c)) /\
            forall r, c_st (get_co s c) = CDone r -> r = works (snd (prog_of progs c));
  v_log : Forall okev (m_log s);
  v_ts : forall c, (c < length progs)%nat -> c_st (get_co s c) = CRunning ->
           exists ts, c_node (get_co s c) = Some (ts, c_thr (get_co s c)) /\ ts <= m_clock s + SLICE
}.

(** * Moves that touch neither the set nor the states *)
Lemma running_cur_ext s s' t :
  t_cur (get_thr s' t) = t_cur (get_thr s t) -> (forall c, get_co s' c = get_co s c) -> running_cur s' t = running_cur s t.
Proof. intros H1 H2. unfold running_cur. rewrite H1. destruct (t_cur (get_thr s t)); [rewrite H2|]; reflexivity. Qed.

Lemma rel_ext s s' t :
  get_thr s' t = get_thr s t -> (forall c, get_co s' c = get_co s c) -> m_nodes s' = m_nodes s -> rel s t -> rel s' t.
Proof.
  intros H1 H2 H3. unfold rel. rewrite H1, H3, (running_cur_ext s s' t) by (rewrite ?H1; auto).
  destruct (t_mid (get_thr s t)) as [[[n|n] snap]|]; try tauto.
  - intros ((c & Hc & Hn) & R). split; [|exact R]. exists c. rewrite H2. tauto.
  - destruct (running_cur s t); [rewrite H2|]; tauto.
Qed.

Lemma inv_log nthr progs s e : INVM nthr progs s -> okev e -> INVM nthr progs (with_log s (m_log s ++ [e])).
Proof.
  intros [A B C D E F G H I J K L] He. constructor; try assumption.
  cbn [with_log m_log]. apply Forall_app. split; [exact K | constructor; [exact He | constructor]].
Qed.

Lemma inv_clear_log nthr progs s : INVM nthr progs s -> INVM nthr progs (with_log s []).
Proof. intros [A B C D E F G H I J K L]. constructor; try assumption. constructor. Qed.

Lemma inv_tick nthr progs s d : INVM nthr progs s -> INVM nthr progs (with_clock s (m_clock s + Z.max d 0)).
Proof.
  intros [A B C D E F G H I J K L]. constructor; try assumption.
  intros c Hc Hr. destruct (L c Hc Hr) as (ts & Hn & Hle). exists ts. split; [exact Hn|]. cbn [with_clock m_clock]. lia.
Qed.

Lemma inv_pending nthr progs s t b :
  INVM nthr progs s -> INVM nthr progs (upd_thr s t (t_with_pending (get_thr s t) b)).
Proof.
  intros [A B C D E F G H I J K L].
  assert (forall t', t_cur (get_thr (upd_thr s t (t_with_pending (get_thr s t) b)) t') = t_cur (get_thr s t') /\
                     t_ready (get_thr (upd_thr s t (t_with_pending (get_thr s t) b)) t') = t_ready (get_thr s t') /\
                     t_mid (get_thr (upd_thr s t (t_with_pending (get_thr s t) b)) t') = t_mid (get_thr s t')) as Hsame.
  { intro t'. destruct (Nat.eq_dec t t') as [<-|Hne].
    - destruct (lt_dec t (length (m_thr s))) as [Hl|Hl].
      + rewrite get_thr_upd_thr_eq by exact Hl. repeat split.
      + unfold get_thr, upd_thr, with_thrs. cbn [m_thr]. rewrite set_nth_ge by lia. repeat split.
    - rewrite get_thr_upd_thr_neq by exact Hne. repeat split. }
  constructor; try assumption.
  - rewrite len_thr_upd_thr. exact A.
  - intros t' c Ht'. rewrite (proj1 (Hsame t')). apply D, Ht'.
  - intros t' c Ht'. rewrite (proj1 (proj2 (Hsame t'))). apply E, Ht'.
  - intros c Hc. rewrite get_co_upd_thr, (proj1 (Hsame _)). apply F, Hc.
  - destruct H as [H|H]; [left; exact H|right]. intros t' Ht'. specialize (H t' Ht').
    unfold rel in *. rewrite (proj2 (proj2 (Hsame t'))).
    assert (running_cur (upd_thr s t (t_with_pending (get_thr s t) b)) t' = running_cur s t') as ->.
    { apply running_cur_ext; [apply Hsame | reflexivity]. }
    exact H.
  - intro Ha. destruct (I Ha) as [I1 I2]. split; [exact I1|]. intros t' Ht'. rewrite (proj2 (proj2 (Hsame t'))). apply I2, Ht'.
Qed.

Lemma inv_set_defect nthr progs s : INVM nthr progs s -> m_atomic s = false -> INVM nthr progs (with_nodes s (m_nodes s) true).
Proof.
  intros [A B C D E F G H I J K L] Ha. constructor; try assumption.
  - left. reflexivity.
  - change (m_atomic (with_nodes s (m_nodes s) true)) with (m_atomic s). rewrite Ha. discriminate.
Qed.

Definition scan_fold (s : mst) : mst :=
  fold_left (fun s1 n => if fst n <=? m_clock s1
                         then upd_thr s1 (snd n) (t_with_pending (get_thr s1 (snd n)) true) else s1) (m_nodes s) s.

Lemma scan_eq s : scan s = if in_flight s then with_nodes (scan_fold s) (m_nodes (scan_fold s)) true else scan_fold s.
Proof. reflexivity. Qed.

Lemma scan_fold_atomic s : m_atomic (scan_fold s) = m_atomic s.
Proof.
  unfold scan_fold.
  assert (forall l s0, m_atomic (fold_left (fun s1 n => if fst n <=? m_clock s1
                         then upd_thr s1 (snd n) (t_with_pending (get_thr s1 (snd n)) true) else s1) l s0) = m_atomic s0) as Hg.
  { induction l as [|n l IH]; intro s0; [reflexivity|]. cbn [fold_left]. rewrite IH. destruct (fst n <=? m_clock s0); reflexivity. }
  apply Hg.
Qed.

Lemma scan_inv nthr progs s : INVM nthr progs s -> INVM nthr progs (scan s).
Proof.
  intros H.
  assert (INVM nthr progs (scan_fold s)) as Hf.
  { unfold scan_fold.
    assert (forall l s0, INVM nthr progs s0 ->
              INVM nthr progs (fold_left (fun s1 n => if fst n <=? m_clock s1
                           then upd_thr s1 (snd n) (t_with_pending (get_thr s1 (snd n)) true) else s1) l s0)) as Hgen.
    { induction l as [|n l IH]; intros s0 H0; [exact H0|]. cbn [fold_left]. apply IH.
      destruct (fst n <=? m_clock s0); [|exact H0]. apply inv_pending, H0. }
    apply Hgen, H. }
  rewrite scan_eq. destruct (in_flight s) eqn:E; [|exact Hf].
  apply inv_set_defect; [exact Hf|]. rewrite scan_fold_atomic. unfold in_flight in E.
  destruct (m_atomic s); [discriminate | reflexivity].
Qed.

Lemma running_cur_some s t c : running_cur s t = Some c -> t_cur (get_thr s t) = Some c.
Proof.
  unfold running_cur. destruct (t_cur (get_thr s t)) as [c'|]; [|discriminate].
  destruct (is_run (c_st (get_co s c'))); [|discriminate]. intro H. injection H as ->. reflexivity.
Qed.

Lemma rel_frame s s' t :
  get_thr s' t = get_thr s t ->
  (forall c, t_cur (get_thr s t) = Some c -> get_co s' c = get_co s c) ->
  nodes_of (m_nodes s') t = nodes_of (m_nodes s) t ->
  rel s t -> rel s' t.
Proof.
  intros H1 H2 H3.
  assert (running_cur s' t = running_cur s t) as Hrc.
  { unfold running_cur. rewrite H1. destruct (t_cur (get_thr s t)) as [c|] eqn:Ec; [|reflexivity]. rewrite (H2 c eq_refl). reflexivity. }
  unfold rel. rewrite H1, H3, Hrc.
  destruct (t_mid (get_thr s t)) as [[[n|n] snap]|]; try tauto.
  - intros ((c & Hc & Hn) & R). split; [|exact R]. exists c. split; [exact Hc|].
    rewrite (H2 c (running_cur_some s t c Hc)). exact Hn.
  - destruct (running_cur s t) as [c|] eqn:Ec; [|tauto]. rewrite (H2 c (running_cur_some s t c Ec)). tauto.
Qed.

Lemma rel_same s s' t :
  get_thr s' t = get_thr s t -> m_nodes s' = m_nodes s ->
  (forall c, c_st (get_co s' c) = c_st (get_co s c) /\ c_node (get_co s' c) = c_node (get_co s c)) ->
  rel s t -> rel s' t.
Proof.
  intros H1 H3 H2.
  assert (running_cur s' t = running_cur s t) as Hrc.
  { unfold running_cur. rewrite H1. destruct (t_cur (get_thr s t)) as [c|]; [|reflexivity]. rewrite (proj1 (H2 c)). reflexivity. }
  unfold rel. rewrite H1, H3, Hrc.
  destruct (t_mid (get_thr s t)) as [[[n|n] snap]|]; try tauto.
  - intros ((c & Hc & Hn) & R). split; [|exact R]. exists c. split; [exact Hc|]. rewrite (proj2 (H2 c)). exact Hn.
  - destruct (running_cur s t) as [c|]; [|tauto]. rewrite (proj2 (H2 c)). tauto.
Qed.

(** * The body of the current coroutine advances *)
Lemma inv_body nthr progs s c b acc :
  INVM nthr progs s -> (c < length progs)%nat ->
  acc + works b = c_acc (get_co s c) + works (c_body (get_co s c)) ->
  INVM nthr progs (set_body s c b acc).
Proof.
  intros [A B C D E F G H I J K L] Hc Hw. unfold set_body.
  set (k := {| c_thr := c_thr (get_co s c); c_st := c_st (get_co s c); c_body := b; c_acc := acc; c_node := c_node (get_co s c) |}).
  assert (forall c', c_thr (get_co (upd_co s c k) c') = c_thr (get_co s c') /\ c_st (get_co (upd_co s c k) c') = c_st (get_co s c') /\
                     c_node (get_co (upd_co s c k) c') = c_node (get_co s c')) as Hsame.
  { intro c'. destruct (Nat.eq_dec c c') as [<-|Hne].
    - rewrite get_co_upd_co_eq by lia. repeat split.
    - rewrite get_co_upd_co_neq by exact Hne. repeat split. }
  constructor; try assumption.
  - rewrite len_cos_upd_co. exact B.
  - intros c' Hc'. rewrite (proj1 (Hsame c')). apply C, Hc'.
  - intros t c' Ht. rewrite get_thr_upd_co, (proj1 (Hsame c')). apply D, Ht.
  - intros t c' Ht. rewrite get_thr_upd_co, (proj1 (Hsame c')). apply E, Ht.
  - intros c' Hc'. rewrite get_thr_upd_co, (proj1 (Hsame c')), (proj1 (proj2 (Hsame c'))). apply F, Hc'.
  - intros c' n Hc'. rewrite (proj1 (Hsame c')), (proj2 (proj2 (Hsame c'))). apply G, Hc'.
  - destruct H as [H|H]; [left; exact H|right]. intros t Ht. specialize (H t Ht).
    apply (rel_same s _ t); [reflexivity | reflexivity | | exact H].
    intro c'. split; [apply (proj1 (proj2 (Hsame c'))) | apply (proj2 (proj2 (Hsame c')))].
  - intros c' Hc'. destruct (Nat.eq_dec c c') as [<-|Hne].
    + rewrite get_co_upd_co_eq by lia. cbn [k c_acc c_body c_st]. destruct (J c Hc) as [J1 J2]. split; [lia | exact J2].
    + rewrite get_co_upd_co_neq by exact Hne. apply J, Hc'.
  - intros c' Hc'. rewrite (proj1 (Hsame c')), (proj1 (proj2 (Hsame c'))), (proj2 (proj2 (Hsame c'))). apply L, Hc'.
Qed.

(** * The scheduler's own bookkeeping on thread [t] (no Running coroutine involved) *)
Lemma inv_sched nthr progs s t r' cur' :
  INVM nthr progs s -> (t < nthr)%nat ->
  (forall c, In c r' -> (c < length progs)%nat /\ c_thr (get_co s c) = t) ->
  (forall c, cur' = Some c -> (c < length progs)%nat /\ c_thr (get_co s c) = t /\ c_st (get_co s c) <> CRunning) ->
  running_cur s t = None ->
  INVM nthr progs (upd_thr s t (t_with_sched (get_thr s t) r' cur')).
Proof.
  intros [A B C D E F G H I J K L] Ht Hr Hcur Hnone.
  set (s' := upd_thr s t (t_with_sched (get_thr s t) r' cur')).
  assert (get_thr s' t = t_with_sched (get_thr s t) r' cur') as Hgt by (apply get_thr_upd_thr_eq; lia).
  assert (forall t', t' <> t -> get_thr s' t' = get_thr s t') as Hgo by (intros t' Hne; apply get_thr_upd_thr_neq; congruence).
  assert (forall c, (c < length progs)%nat -> c_thr (get_co s c) = t -> c_st (get_co s c) <> CRunning) as Hnorun.
  { intros c Hc Hct Hst. pose proof (F c Hc Hst) as Hx. rewrite Hct in Hx.
    unfold running_cur in Hnone. rewrite Hx, Hst in Hnone. discriminate. }
  assert (running_cur s' t = None) as Hnone'.
  { unfold running_cur. rewrite Hgt. cbn [t_with_sched t_cur]. destruct cur' as [c|]; [|reflexivity].
    destruct (Hcur c eq_refl) as (_ & _ & Hns). change (get_co s' c) with (get_co s c).
    destruct (c_st (get_co s c)); try reflexivity. congruence. }
  constructor; try assumption.
  - unfold s'. rewrite len_thr_upd_thr. exact A.
  - intros t' c Ht'. destruct (Nat.eq_dec t' t) as [->|Hne].
    + rewrite Hgt. cbn [t_with_sched t_cur]. intro Hx. destruct (Hcur c Hx) as (H1 & H2 & _). split; assumption.
    + rewrite Hgo by exact Hne. apply D, Ht'.
  - intros t' c Ht'. destruct (Nat.eq_dec t' t) as [->|Hne].
    + rewrite Hgt. cbn [t_with_sched t_ready]. apply Hr.
    + rewrite Hgo by exact Hne. apply E, Ht'.
  - intros c Hc Hst. change (get_co s' c) with (get_co s c) in *.
    destruct (Nat.eq_dec (c_thr (get_co s c)) t) as [He|Hne].
    + exfalso. exact (Hnorun c Hc He Hst).
    + rewrite Hgo by exact Hne. apply F; assumption.
  - destruct H as [H|H]; [left; exact H|right]. intros t' Ht'. specialize (H t' Ht').
    destruct (Nat.eq_dec t' t) as [->|Hne].
    + revert H. unfold rel. rewrite Hgt. cbn [t_with_sched t_mid]. rewrite Hnone, Hnone'.
      change (m_nodes s') with (m_nodes s). destruct (t_mid (get_thr s t)) as [[[n|n] snap]|]; tauto.
    + apply (rel_frame s s' t'); [apply Hgo, Hne | reflexivity | reflexivity | exact H].
  - intro Ha. destruct (I Ha) as [I1 I2]. split; [exact I1|]. intros t' Ht'.
    destruct (Nat.eq_dec t' t) as [->|Hne]; [rewrite Hgt; cbn [t_with_sched t_mid]; apply I2, Ht | rewrite Hgo by exact Hne; apply I2, Ht'].
Qed.

(** * The write-back of a two-step set operation *)
Lemma inv_write nthr progs s t o snap :
  INVM nthr progs s -> (t < nthr)%nat -> t_mid (get_thr s t) = Some (o, snap) ->
  INVM nthr progs (upd_thr (with_nodes s (apply_op o snap) (m_defect s || negb (nodes_eqb snap (m_nodes s)))) t
                           (t_with_mid (get_thr (with_nodes s (apply_op o snap) (m_defect s || negb (nodes_eqb snap (m_nodes s)))) t) None)).
Proof.
  intros [A B C D E F G H I J K L] Ht Hmid.
  set (s1 := with_nodes s (apply_op o snap) (m_defect s || negb (nodes_eqb snap (m_nodes s)))).
  set (s' := upd_thr s1 t (t_with_mid (get_thr s1 t) None)).
  assert (get_thr s' t = t_with_mid (get_thr s t) None) as Hgt.
  { unfold s'. rewrite get_thr_upd_thr_eq by (unfold s1; cbn [with_nodes m_thr]; lia). reflexivity. }
  assert (forall t', t' <> t -> get_thr s' t' = get_thr s t') as Hgo.
  { intros t' Hne. unfold s'. rewrite get_thr_upd_thr_neq by congruence. reflexivity. }
  assert (m_atomic s = false) as Hna.
  { destruct (m_atomic s) eqn:Ea; [|reflexivity]. destruct (I eq_refl) as [_ I2]. rewrite (I2 t Ht) in Hmid. discriminate. }
  constructor; try assumption.
  - unfold s'. rewrite len_thr_upd_thr. exact A.
  - intros t' c Ht'. destruct (Nat.eq_dec t' t) as [->|Hne]; [rewrite Hgt | rewrite Hgo by exact Hne]; apply D; assumption.
  - intros t' c Ht'. destruct (Nat.eq_dec t' t) as [->|Hne]; [rewrite Hgt | rewrite Hgo by exact Hne]; apply E; assumption.
  - intros c Hc Hst. change (get_co s' c) with (get_co s c) in *.
    destruct (Nat.eq_dec (c_thr (get_co s c)) t) as [He|Hne]; [rewrite He, Hgt; cbn [t_with_mid t_cur]; rewrite <- He | rewrite Hgo by exact Hne]; apply F; assumption.
  - change (m_defect s') with (m_defect s || negb (nodes_eqb snap (m_nodes s))).
    destruct H as [H|H]; [left; rewrite H; reflexivity|].
    destruct (nodes_eqb snap (m_nodes s)) eqn:Eq; [|left; apply orb_true_r].
    apply nodes_eqb_eq in Eq. subst snap. right. intros t' Ht'. pose proof (H t' Ht') as Hr.
    assert (forall c, get_co s' c = get_co s c) as Hco by reflexivity.
    destruct (Nat.eq_dec t' t) as [->|Hne].
    + revert Hr. unfold rel. rewrite Hgt, Hmid. cbn [t_with_mid t_mid].
      assert (running_cur s' t = running_cur s t) as -> by (apply running_cur_ext; [rewrite Hgt; reflexivity | exact Hco]).
      change (m_nodes s') with (apply_op o (m_nodes s)).
      destruct o as [n|n]; cbn [apply_op].
      * intros ((c & Hc & Hn) & Hsn & Hno). rewrite Hc. change (get_co s' c) with (get_co s c). rewrite Hn. cbn [node_list]. subst t. apply nodes_of_insert_same, Hno.
      * intros (Hc & Hsn & Hno). rewrite Hc. subst t. apply nodes_of_remove_same, Hno.
    + apply (rel_frame s s' t'); [apply Hgo, Hne | reflexivity | | exact Hr].
      change (m_nodes s') with (apply_op o (m_nodes s)).
      pose proof (H t Ht) as Hrt. unfold rel in Hrt. rewrite Hmid in Hrt.
      destruct o as [n|n]; cbn [apply_op].
      * destruct Hrt as (_ & Hsn & _). apply nodes_of_insert_other. congruence.
      * destruct Hrt as (_ & Hsn & _). apply nodes_of_remove_other. congruence.
  - change (m_atomic s') with (m_atomic s). rewrite Hna. discriminate.
Qed.

(** * A state change of the current coroutine of thread [t], with the listener's set operation *)
Definition co_with (k : co) (st : cst) (nd : option node) : co :=
  {| c_thr := c_thr k; c_st := st; c_body := c_body k; c_acc := c_acc k; c_node := nd |}.

Lemma change_unfold s c new p :
  change s c new p =
  let k := get_co s c in
  let t := c_thr k in
  let nd := match new with CRunning => Some (m_clock s + SLICE, t) | _ => c_node k end in
  let op := match new with
            | CRunning => Some (OpInsert (m_clock s + SLICE, t))
            | CReady => None
            | _ => option_map OpRemove (c_node k)
            end in
  let s1 := upd_co s c (co_with k new nd) in
  let s2 := match op with Some o => set_op s1 t o | None => s1 end in
  with_log s2 (m_log s2 ++ [MChange c (c_st k) new p (has_node s2 t)]).
Proof. unfold change. destruct new; reflexivity. Qed.

Section Change.
  Variable nthr : nat.
  Variable progs : list (nat * list instr).
  Variable s : mst.
  Variable c t : nat.
  Hypothesis HI : INVM nthr progs s.
  Hypothesis Hc : (c < length progs)%nat.
  Hypothesis Hct : c_thr (get_co s c) = t.
  Hypothesis Hcur : t_cur (get_thr s t) = Some c.
  Hypothesis Hmid : t_mid (get_thr s t) = None.

  Let Ht : (t < nthr)%nat.
  Proof. rewrite <- Hct. apply (v_thr _ _ _ HI c Hc). Qed.

  (** facts shared by both directions: the state after the record update and the set operation *)
  Lemma co_op_frame new nd o :
    let s1 := upd_co s c (co_with (get_co s c) new nd) in
    let s2 := set_op s1 t o in
    (forall c', c' <> c -> get_co s2 c' = get_co s c') /\ get_co s2 c = co_with (get_co s c) new nd /\
    (forall t', t' <> t -> get_thr s2 t' = get_thr s t') /\
    t_cur (get_thr s2 t) = Some c /\ t_ready (get_thr s2 t) = t_ready (get_thr s t) /\
    length (m_thr s2) = length (m_thr s) /\ length (m_cos s2) = length (m_cos s) /\
    m_log s2 = m_log s /\ m_clock s2 = m_clock s /\ m_atomic s2 = m_atomic s.
  Proof.
    intros s1 s2.
    assert (c < length (m_cos s))%nat as Hcl by (rewrite (v_ncos _ _ _ HI); exact Hc).
    assert (t < length (m_thr s))%nat as Htl by (rewrite (v_nthr _ _ _ HI); exact Ht).
    unfold s2, set_op. change (m_atomic s1) with (m_atomic s). destruct (m_atomic s) eqn:Ea.
    - split; [intros c' Hne; change (get_co (with_nodes s1 (apply_op o (m_nodes s1)) (m_defect s1)) c') with (get_co s1 c'); apply get_co_upd_co_neq; congruence|].
      split; [change (get_co (with_nodes s1 (apply_op o (m_nodes s1)) (m_defect s1)) c) with (get_co s1 c); apply get_co_upd_co_eq, Hcl|].
      split; [intros t' Hne; reflexivity|].
      split; [exact Hcur|]. split; [reflexivity|]. split; [reflexivity|].
      split; [apply len_cos_upd_co|]. split; [reflexivity|]. split; [reflexivity | exact Ea].
    - split; [intros c' Hne; rewrite get_co_upd_thr; apply get_co_upd_co_neq; congruence|].
      split; [rewrite get_co_upd_thr; apply get_co_upd_co_eq, Hcl|].
      split; [intros t' Hne; rewrite get_thr_upd_thr_neq by congruence; reflexivity|].
      split; [rewrite get_thr_upd_thr_eq by (unfold s1; exact Htl); cbn [t_with_mid t_cur]; exact Hcur|].
      split; [rewrite get_thr_upd_thr_eq by (unfold s1; exact Htl); reflexivity|].
      split; [rewrite len_thr_upd_thr; reflexivity|].
      split; [change (m_cos (upd_thr s1 t (t_with_mid (get_thr s1 t) (Some (o, m_nodes s1))))) with (m_cos s1); apply len_cos_upd_co|].
      split; [reflexivity|]. split; [reflexivity | exact Ea].
  Qed.
End Change.

Section Change2.
  Variable nthr : nat.
  Variable progs : list (nat * list instr).
  Variable s : mst.
  Variable c t : nat.
  Hypothesis HI : INVM nthr progs s.
  Hypothesis Hc : (c < length progs)%nat.
  Hypothesis Hct : c_thr (get_co s c) = t.
  Hypothesis Hcur : t_cur (get_thr s t) = Some c.
  Hypothesis Hmid : t_mid (get_thr s t) = None.

  Let Ht : (t < nthr)%nat.
  Proof. rewrite <- Hct. apply (v_thr _ _ _ HI c Hc). Qed.

  Variable new : cst.
  Variable nd : option node.
  Variable n : node.
  Variable o : setop.
  Hypothesis Hkind :
    (new = CRunning /\ c_st (get_co s c) <> CRunning /\ nd = Some n /\ o = OpInsert n /\ n = (m_clock s + SLICE, t)) \/
    (new <> CRunning /\ nd = c_node (get_co s c) /\ c_node (get_co s c) = Some n /\ o = OpRemove n /\
     forall r, new = CDone r -> r = works (snd (prog_of progs c))).

  Lemma inv_co_op : INVM nthr progs (set_op (upd_co s c (co_with (get_co s c) new nd)) t o).
  Proof.
    destruct (co_op_frame nthr progs s c t HI Hc Hct Hcur new nd o) as (Hco & Hcc & Hth & Hcur2 & Hrdy2 & Hlt & Hlc & Hlog & Hclk & Hat).
    set (s2 := set_op (upd_co s c (co_with (get_co s c) new nd)) t o) in *.
    pose proof HI as [A B C D E F G H I J K L].
    assert (snd n = t) as Hsn.
    { destruct Hkind as [(_ & _ & _ & _ & ->)|(_ & _ & Hn & _)]; [reflexivity | rewrite <- Hct; apply (G c n Hc Hn)]. }
    assert (forall c', c_thr (get_co s2 c') = c_thr (get_co s c')) as Hthr.
    { intro c'. destruct (Nat.eq_dec c' c) as [->|Hne]; [rewrite Hcc; reflexivity | rewrite Hco by exact Hne; reflexivity]. }
    assert (forall t', t_cur (get_thr s2 t') = t_cur (get_thr s t') /\ t_ready (get_thr s2 t') = t_ready (get_thr s t')) as Hsch.
    { intro t'. destruct (Nat.eq_dec t' t) as [->|Hne]; [rewrite Hcur2, Hrdy2, Hcur; split; reflexivity | rewrite Hth by exact Hne; split; reflexivity]. }
    (* the other threads do not see the change *)
    assert (forall t', (t' < nthr)%nat -> t' <> t -> rel s t' -> rel s2 t') as Hother.
    { intros t' Ht' Hne Hr. apply (rel_frame s s2 t'); [apply Hth, Hne | | | exact Hr].
      - intros c' Hc'. apply Hco. intros ->. destruct (D t' c Ht' Hc') as [_ Hx]. congruence.
      - unfold s2, set_op. change (m_atomic (upd_co s c (co_with (get_co s c) new nd))) with (m_atomic s).
        destruct (m_atomic s); [|reflexivity]. cbn [with_nodes m_nodes upd_co with_cos].
        destruct o as [n0|n0]; cbn [apply_op];
          destruct Hkind as [(_ & _ & _ & Ho & _)|(_ & _ & _ & Ho & _)]; try discriminate; injection Ho as ->.
        + apply nodes_of_insert_other. congruence.
        + apply nodes_of_remove_other. congruence. }
    constructor.
    - rewrite Hlt. exact A.
    - rewrite Hlc. exact B.
    - intros c' Hc'. rewrite Hthr. apply C, Hc'.
    - intros t' c' Ht'. rewrite (proj1 (Hsch t')), Hthr. apply D, Ht'.
    - intros t' c' Ht'. rewrite (proj2 (Hsch t')), Hthr. apply E, Ht'.
    - intros c' Hc' Hst. rewrite Hthr, (proj1 (Hsch _)). destruct (Nat.eq_dec c' c) as [->|Hne].
      + rewrite Hct. exact Hcur.
      + rewrite Hco in Hst by exact Hne. apply F; assumption.
    - intros c' n' Hc'. rewrite Hthr. destruct (Nat.eq_dec c' c) as [->|Hne].
      + rewrite Hcc. cbn [co_with c_node]. intro Hx. rewrite Hct.
        destruct Hkind as [(_ & _ & -> & _ & ->)|(_ & -> & Hn & _)].
        * injection Hx as <-. reflexivity.
        * rewrite <- Hct. apply (G c n' Hc Hx).
      + rewrite Hco by exact Hne. apply G, Hc'.
    - (* the nodes of the threads *)
      assert (running_cur s2 t = if is_run new then Some c else None) as Hrc2.
      { unfold running_cur. rewrite Hcur2, Hcc. reflexivity. }
      assert (running_cur s t = if is_run (c_st (get_co s c)) then Some c else None) as Hrc.
      { unfold running_cur. rewrite Hcur. reflexivity. }
      assert (m_defect s2 = m_defect s) as Hdef.
      { unfold s2, set_op. change (m_atomic (upd_co s c (co_with (get_co s c) new nd))) with (m_atomic s). destruct (m_atomic s); reflexivity. }
      rewrite Hdef. destruct H as [H|H]; [left; exact H|right]. intros t' Ht'.
      destruct (Nat.eq_dec t' t) as [->|Hne]; [|apply Hother; [exact Ht' | exact Hne | apply H, Ht']].
      pose proof (H t Ht) as Hr. unfold rel in Hr |- *. rewrite Hmid, Hrc in Hr. rewrite Hrc2.
      destruct (m_atomic s) eqn:Ea.
      + assert (t_mid (get_thr s2 t) = None) as ->.
        { unfold s2, set_op. change (m_atomic (upd_co s c (co_with (get_co s c) new nd))) with (m_atomic s). rewrite Ea. exact Hmid. }
        assert (m_nodes s2 = apply_op o (m_nodes s)) as ->.
        { unfold s2, set_op. change (m_atomic (upd_co s c (co_with (get_co s c) new nd))) with (m_atomic s). rewrite Ea. reflexivity. }
        destruct Hkind as [(-> & Hnr & -> & -> & Hn)|(Hnr & -> & Hn & -> & _)]; cbn [apply_op is_run].
        * rewrite Hcc. cbn [co_with c_node node_list].
          assert (is_run (c_st (get_co s c)) = false) as Hf by (destruct (c_st (get_co s c)); try reflexivity; congruence).
          rewrite Hf in Hr. rewrite <- Hsn. apply nodes_of_insert_same. rewrite Hsn. exact Hr.
        * assert (is_run new = false) as -> by (destruct new; try reflexivity; congruence).
          rewrite <- Hsn. apply nodes_of_remove_same. rewrite Hsn.
          destruct (is_run (c_st (get_co s c))); [left; rewrite Hr, Hn; reflexivity | right; exact Hr].
      + assert (t_mid (get_thr s2 t) = Some (o, m_nodes s)) as ->.
        { unfold s2, set_op. change (m_atomic (upd_co s c (co_with (get_co s c) new nd))) with (m_atomic s). rewrite Ea.
          rewrite get_thr_upd_thr_eq by (change (m_thr (upd_co s c (co_with (get_co s c) new nd))) with (m_thr s); rewrite A; exact Ht). reflexivity. }
        assert (m_nodes s2 = m_nodes s) as ->.
        { unfold s2, set_op. change (m_atomic (upd_co s c (co_with (get_co s c) new nd))) with (m_atomic s). rewrite Ea. reflexivity. }
        destruct Hkind as [(-> & Hnr & -> & -> & Hn)|(Hnr & -> & Hn & -> & _)]; cbn [is_run].
        * assert (is_run (c_st (get_co s c)) = false) as Hf by (destruct (c_st (get_co s c)); try reflexivity; congruence).
          rewrite Hf in Hr. split; [exists c; split; [reflexivity | rewrite Hcc; reflexivity]|]. split; [exact Hsn | exact Hr].
        * assert (is_run new = false) as -> by (destruct new; try reflexivity; congruence).
          split; [reflexivity|]. split; [exact Hsn|].
          destruct (is_run (c_st (get_co s c))); [left; rewrite Hr, Hn; reflexivity | right; exact Hr].
    - rewrite Hat. intro Ha. destruct (I Ha) as [I1 I2]. split.
      + unfold s2, set_op. change (m_atomic (upd_co s c (co_with (get_co s c) new nd))) with (m_atomic s). rewrite Ha. exact I1.
      + intros t' Ht'. unfold s2, set_op. change (m_atomic (upd_co s c (co_with (get_co s c) new nd))) with (m_atomic s). rewrite Ha.
        apply I2, Ht'.
    - intros c' Hc'. destruct (Nat.eq_dec c' c) as [->|Hne].
      + rewrite Hcc. cbn [co_with c_acc c_body c_st]. destruct (J c Hc) as [J1 J2]. split; [exact J1|].
        intros r Hr. destruct Hkind as [(-> & _)|(_ & _ & _ & _ & Hres)]; [discriminate | apply Hres, Hr].
      + rewrite Hco by exact Hne. apply J, Hc'.
    - rewrite Hlog. exact K.
    - intros c' Hc'. rewrite Hthr, Hclk. destruct (Nat.eq_dec c' c) as [->|Hne].
      + rewrite Hcc. cbn [co_with c_st c_node]. intro Hst. destruct Hkind as [(_ & _ & -> & _ & ->)|(Hnr & _)]; [|contradiction].
        exists (m_clock s + SLICE). rewrite Hct. split; [reflexivity | lia].
      + rewrite Hco by exact Hne. apply L, Hc'.
  Qed.
End Change2.

(** a state change that needs no set operation: leaving a non-Running state without a node *)
Lemma inv_co_noop nthr progs s c t new :
  INVM nthr progs s -> (c < length progs)%nat -> c_thr (get_co s c) = t -> t_cur (get_thr s t) = Some c ->
  new <> CRunning -> c_node (get_co s c) = None ->
  (forall r, new = CDone r -> r = works (snd (prog_of progs c))) ->
  INVM nthr progs (upd_co s c (co_with (get_co s c) new (c_node (get_co s c)))).
Proof.
  intros HI Hc Hct Hcur Hnr Hnn Hres. pose proof HI as [A B C D E F G H I J K L].
  set (s1 := upd_co s c (co_with (get_co s c) new (c_node (get_co s c)))).
  assert (c < length (m_cos s))%nat as Hcl by (rewrite B; exact Hc).
  assert (get_co s1 c = co_with (get_co s c) new (c_node (get_co s c))) as Hcc by (apply get_co_upd_co_eq, Hcl).
  assert (forall c', c' <> c -> get_co s1 c' = get_co s c') as Hco by (intros c' Hne; apply get_co_upd_co_neq; congruence).
  assert (c_st (get_co s c) <> CRunning) as Hold.
  { intro Hst. destruct (L c Hc Hst) as (ts & Hx & _). congruence. }
  assert (forall c', c_thr (get_co s1 c') = c_thr (get_co s c')) as Hthr.
  { intro c'. destruct (Nat.eq_dec c' c) as [->|Hne]; [rewrite Hcc; reflexivity | rewrite Hco by exact Hne; reflexivity]. }
  assert (t < nthr)%nat as Ht by (rewrite <- Hct; apply (C c Hc)).
  assert (forall t', get_thr s1 t' = get_thr s t') as Hgt by reflexivity.
  constructor; try assumption.
  - unfold s1. rewrite len_cos_upd_co. exact B.
  - intros c' Hc'. rewrite Hthr. apply C, Hc'.
  - intros t' c' Ht'. rewrite Hgt, Hthr. apply D, Ht'.
  - intros t' c' Ht'. rewrite Hgt, Hthr. apply E, Ht'.
  - intros c' Hc' Hst. rewrite Hthr, Hgt. destruct (Nat.eq_dec c' c) as [->|Hne].
    + rewrite Hcc in Hst. cbn [co_with c_st] in Hst. contradiction.
    + rewrite Hco in Hst by exact Hne. apply F; assumption.
  - intros c' n Hc'. rewrite Hthr. destruct (Nat.eq_dec c' c) as [->|Hne].
    + rewrite Hcc. cbn [co_with c_node]. apply G, Hc.
    + rewrite Hco by exact Hne. apply G, Hc'.
  - destruct H as [H|H]; [left; exact H|right]. intros t' Ht'. specialize (H t' Ht').
    destruct (Nat.eq_dec t' t) as [->|Hne].
    + revert H. unfold rel, running_cur. rewrite !Hgt, Hcur, Hcc. cbn [co_with c_st c_node].
      change (m_nodes s1) with (m_nodes s).
      assert (is_run new = false) as -> by (destruct new; try reflexivity; congruence).
      assert (is_run (c_st (get_co s c)) = false) as -> by (destruct (c_st (get_co s c)); try reflexivity; congruence).
      destruct (t_mid (get_thr s t)) as [[[n|n] snap]|]; try tauto.
      intros ((c0 & Hx & _) & _). discriminate.
    + apply (rel_frame s s1 t'); [reflexivity | | reflexivity | exact H].
      intros c' Hc'. apply Hco. intros ->. destruct (D t' c Ht' Hc') as [_ Hx]. congruence.
  - intros c' Hc'. destruct (Nat.eq_dec c' c) as [->|Hne].
    + rewrite Hcc. cbn [co_with c_acc c_body c_st]. destruct (J c Hc) as [J1 J2]. split; [exact J1 | exact Hres].
    + rewrite Hco by exact Hne. apply J, Hc'.
  - intros c' Hc'. rewrite Hthr. destruct (Nat.eq_dec c' c) as [->|Hne].
    + rewrite Hcc. cbn [co_with c_st]. contradiction.
    + rewrite Hco by exact Hne. apply L, Hc'.
Qed.

(** * [change] as a whole *)
Lemma inv_change_run nthr progs s c t :
  INVM nthr progs s -> (c < length progs)%nat -> c_thr (get_co s c) = t -> t_cur (get_thr s t) = Some c ->
  t_mid (get_thr s t) = None -> c_st (get_co s c) <> CRunning ->
  INVM nthr progs (change s c CRunning false).
Proof.
  intros HI Hc Hct Hcur Hmid Hnr. rewrite change_unfold. cbv zeta. rewrite Hct.
  apply inv_log.
  - apply (inv_co_op nthr progs s c t HI Hc Hct Hcur Hmid CRunning (Some (m_clock s + SLICE, t)) (m_clock s + SLICE, t)
                     (OpInsert (m_clock s + SLICE, t))).
    left. repeat split; try reflexivity. exact Hnr.
  - cbn [okev]. split; [discriminate | discriminate].
Qed.

Lemma inv_change_leave nthr progs s c t new p :
  INVM nthr progs s -> (c < length progs)%nat -> c_thr (get_co s c) = t -> t_cur (get_thr s t) = Some c ->
  t_mid (get_thr s t) = None ->
  match new with CSuspend => c_st (get_co s c) = CRunning | CSyscall => p = false | CDone r => p = false /\ r = works (snd (prog_of progs c)) | _ => False end ->
  INVM nthr progs (change s c new p).
Proof.
  intros HI Hc Hct Hcur Hmid Hnew. rewrite change_unfold. cbv zeta. rewrite Hct.
  assert (new <> CRunning) as Hnr by (destruct new; try discriminate; contradiction).
  assert (forall r, new = CDone r -> r = works (snd (prog_of progs c))) as Hres.
  { intros r ->. apply Hnew. }
  assert (okev (MChange c (c_st (get_co s c)) new p
                 (has_node match match new with CRunning => Some (OpInsert (m_clock s + SLICE, t)) | CReady => None | _ => option_map OpRemove (c_node (get_co s c)) end with
                           | Some o => set_op (upd_co s c (co_with (get_co s c) new match new with CRunning => Some (m_clock s + SLICE, t) | _ => c_node (get_co s c) end)) t o
                           | None => upd_co s c (co_with (get_co s c) new match new with CRunning => Some (m_clock s + SLICE, t) | _ => c_node (get_co s c) end)
                           end t))) as Hok.
  { cbn [okev]. destruct new; try contradiction.
    - split; [intros _; exact Hnew | intros _; split; [exact Hnew | reflexivity]].
    - split; [discriminate | intro Hp; congruence].
    - destruct Hnew as [Hp _]. split; [discriminate | intro Hp'; congruence]. }
  apply inv_log; [|exact Hok].
  destruct (c_node (get_co s c)) as [n|] eqn:En.
  - assert (match new with CRunning => Some (OpInsert (m_clock s + SLICE, t)) | CReady => None | _ => option_map OpRemove (Some n) end = Some (OpRemove n)) as ->
      by (destruct new; try reflexivity; contradiction).
    assert (match new with CRunning => Some (m_clock s + SLICE, t) | _ => Some n end = Some n) as -> by (destruct new; try reflexivity; contradiction).
    apply (inv_co_op nthr progs s c t HI Hc Hct Hcur Hmid new (Some n) n (OpRemove n)).
    right. repeat split; try assumption. symmetry. exact En.
  - assert (match new with CRunning => Some (OpInsert (m_clock s + SLICE, t)) | CReady => None | _ => option_map OpRemove None end = None) as ->
      by (destruct new; try reflexivity; contradiction).
    assert (match new with CRunning => Some (m_clock s + SLICE, t) | _ => @None node end = None) as -> by (destruct new; try reflexivity; contradiction).
    rewrite <- En. apply (inv_co_noop nthr progs s c t new HI Hc Hct Hcur Hnr En Hres).
Qed.
