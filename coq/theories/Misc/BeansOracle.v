(** C26: the property as an executable oracle over one observed outcome (what every call of every
    thread returned, and what later lookups return), the model's outcome set, canonical address
    labels and outcome-set comparison. The oracle reads only the programs and the outcome. *)
From OCV Require Import Base.Prelude Misc.Beans.
Open Scope Z_scope.

Fixpoint memZ (x : Z) (l : list Z) : bool :=
  match l with [] => false | y :: l' => (y =? x) || memZ x l' end.

(** every name a program uses is among the names looked up afterwards *)
Definition wf_C26 (progs : list (list call)) (finals : list Z) : bool :=
  forallb (forallb (fun c => memZ (call_name c) finals)) progs.

Definition res_eqb (a b : res) : bool :=
  match a, b with
  | RAddr x, RAddr y => x =? y
  | RNone, RNone => true
  | RUnit, RUnit => true
  | RPanic, RPanic => true
  | _, _ => false
  end.

(** ---- the property over one outcome *)
Fixpoint final_of (x : Z) (finals : list Z) (rs : list res) : option res :=
  match finals, rs with
  | y :: finals', r :: rs' => if y =? x then Some r else final_of x finals' rs'
  | _, _ => None
  end.

(** some thread creates the bean [x] *)
Definition creates (x : Z) (c : call) : bool :=
  match c with CGetOrDefault y | CInitBean y => y =? x | CGetBean _ => false end.
Definition created (progs : list (list call)) (x : Z) : bool := existsb (existsb (creates x)) progs.

(** one call against the instance later lookups return *)
Definition ok_res (fin : Z -> option res) (c : call) (r : res) : bool :=
  match c, r with
  | CGetOrDefault x, RAddr a => match fin x with Some (RAddr b) => a =? b | _ => false end
  | CGetBean x, RAddr a => match fin x with Some (RAddr b) => a =? b | _ => false end
  | CGetBean _, RNone => true
  | CInitBean x, RUnit => match fin x with Some (RAddr _) => true | _ => false end
  | _, _ => false
  end.

Fixpoint ok_thread (fin : Z -> option res) (p : list call) (rs : list res) : bool :=
  match p, rs with
  | [], [] => true
  | c :: p', r :: rs' => ok_res fin c r && ok_thread fin p' rs'
  | _, _ => false
  end.

Fixpoint ok_threads (fin : Z -> option res) (progs : list (list call)) (rss : list (list res)) : bool :=
  match progs, rss with
  | [], [] => true
  | p :: progs', rs :: rss' => ok_thread fin p rs && ok_threads fin progs' rss'
  | _, _ => false
  end.

(** a name nobody creates stays absent; the others are present afterwards *)
Fixpoint ok_finals (progs : list (list call)) (finals : list Z) (rs : list res) : bool :=
  match finals, rs with
  | [], [] => true
  | x :: finals', r :: rs' =>
      (match r with RAddr _ => created progs x | RNone => negb (created progs x) | _ => false end)
      && ok_finals progs finals' rs'
  | _, _ => false
  end.

(** All callers of one name got one address and it is the one later lookups return. *)
Definition ok_outcome (progs : list (list call)) (finals : list Z) (o : outcome) : bool :=
  ok_threads (fun x => final_of x finals (o_final o)) progs (o_threads o)
  && ok_finals progs finals (o_final o).

Definition ok_C26 (progs : list (list call)) (finals : list Z) (os : list (option outcome)) : bool :=
  match os with
  | [] => false
  | _ => forallb (fun o => match o with Some o' => ok_outcome progs finals o' | None => false end) os
  end.

(** ---- the model's outcome set. [seq0]: thread 0 is the main thread's sequential prefix, run to
    completion before the others start. Each outcome comes with the defect flag of its execution. *)
Definition start_state (p : proto) (seq0 : bool) (progs : list (list call)) : state :=
  let s0 := init progs in
  if seq0 then run_alone p (4 * length (hd [] progs) + 1) s0 0 else s0.

Definition all_runs (p : proto) (seq0 : bool) (progs : list (list call)) (finals : list Z)
  : list (option (outcome * (bool * bool))) :=
  explore p (steps_bound progs) finals (start_state p seq0 progs).

Definition all_outcomes (p : proto) (seq0 : bool) (progs : list (list call)) (finals : list Z)
  : list (option outcome) := map (option_map fst) (all_runs p seq0 progs finals).

Definition some_run (sel : bool * bool -> bool) (l : list (option (outcome * (bool * bool)))) : bool :=
  existsb (fun r => match r with Some (_, d) => sel d | None => false end) l.

(** ---- canonical labels: addresses renamed 0, 1, 2, .. by first occurrence (threads in order,
    then the final lookups) *)
Definition canon_res (tbl : list (Z * Z)) (r : res) : list (Z * Z) * res :=
  match r with
  | RAddr a =>
      match alookup a tbl with
      | Some l => (tbl, RAddr l)
      | None => let l := Z.of_nat (length tbl) in ((a, l) :: tbl, RAddr l)
      end
  | _ => (tbl, r)
  end.

Fixpoint canon_list (tbl : list (Z * Z)) (rs : list res) : list (Z * Z) * list res :=
  match rs with
  | [] => (tbl, [])
  | r :: rs' =>
      let '(tbl1, r') := canon_res tbl r in
      let '(tbl2, rs2) := canon_list tbl1 rs' in (tbl2, r' :: rs2)
  end.

Fixpoint canon_lists (tbl : list (Z * Z)) (rss : list (list res)) : list (Z * Z) * list (list res) :=
  match rss with
  | [] => (tbl, [])
  | rs :: rss' =>
      let '(tbl1, rs1) := canon_list tbl rs in
      let '(tbl2, rss2) := canon_lists tbl1 rss' in (tbl2, rs1 :: rss2)
  end.

Definition canon (o : outcome) : outcome :=
  let '(tbl, ts) := canon_lists [] (o_threads o) in
  let '(_, fs) := canon_list tbl (o_final o) in
  {| o_threads := ts; o_final := fs |}.

Definition outcome_eqb (a b : outcome) : bool :=
  list_eqb (list_eqb res_eqb) (o_threads a) (o_threads b) && list_eqb res_eqb (o_final a) (o_final b).

Definition oo_eqb (a b : option outcome) : bool := option_eqb outcome_eqb a b.

Definition subset (a b : list (option outcome)) : bool :=
  forallb (fun x => existsb (oo_eqb x) b) a.

Definition has_none (l : list (option outcome)) : bool :=
  existsb (fun o => match o with None => true | Some _ => false end) l.

Definition canon_all (l : list (option outcome)) : list (option outcome) := map (option_map canon) l.

Definition dedup (l : list (option outcome)) : list (option outcome) :=
  fold_right (fun x acc => if existsb (oo_eqb x) acc then acc else x :: acc) [] l.
Definition distinct_outcomes (l : list (option outcome)) : nat := List.length (dedup (canon_all l)).

(** the implementation's outcome set against the model's: never more than the model allows, and,
    when the enumeration on the real code was complete, everything the model allows *)
Definition corr_sets (complete : bool) (model impl : list (option outcome)) : bool :=
  negb (has_none model) && negb (has_none impl)
  && subset (canon_all impl) (canon_all model)
  && (if complete then subset (canon_all model) (canon_all impl) else true).

(** ---- the barrier run (no shim): [k] threads ask for one fresh name at once. The model is run
    under the round-robin schedule (every thread takes its n-th step before any takes its n+1-th). *)
Fixpoint seqn (i n : nat) : list nat := match n with O => [] | S n' => i :: seqn (S i) n' end.
Fixpoint rounds (r k : nat) : list nat := match r with O => [] | S r' => seqn 0 k ++ rounds r' k end.

Fixpoint distinct_addrs (seen : list Z) (rs : list res) : list Z :=
  match rs with
  | [] => seen
  | RAddr a :: rs' => if memZ a seen then distinct_addrs seen rs' else distinct_addrs (a :: seen) rs'
  | _ :: rs' => distinct_addrs seen rs'
  end.

Definition barrier_model (p : proto) (k : nat) : Z * bool :=
  let progs := repeat [CGetOrDefault 0] k in
  let s := run p (init progs) (rounds 4 k) in
  let o := outcome_of [0] s in
  let ds := distinct_addrs [] (List.concat (o_threads o)) in
  (Z.of_nat (length ds),
   quiescent s && match o_final o, ds with [RAddr a], [b] => a =? b | _, _ => false end).

(** ---- the code as it is, its defect tags, and the side condition of [C26_holds_outside] *)
Definition run_C26 (progs : list (list call)) (sched : list nat) : state := run Racy (init progs) sched.
Definition defect_C26_factory_published_twice progs sched : bool := s_pub2 (run_C26 progs sched).
Definition defect_C26_get_or_default_check_then_insert progs sched : bool := s_over (run_C26 progs sched).
Definition no_defect_C26 progs sched : bool :=
  negb (defect_C26_factory_published_twice progs sched)
  && negb (defect_C26_get_or_default_check_then_insert progs sched).
