(** Proofs about the time helpers (C28). *)
From OCV Require Import Base.Prelude Misc.Time.
From Coq Require Import ZifyBool ZifyNat.
Ltac Zify.zify_post_hook ::= Z.div_mod_to_equations.
Open Scope Z_scope.

Lemma timeout_time_spec now dur :
  0 <= now <= U64MAX -> 0 <= dur ->
  get_timeout_time now dur = Z.min (now + dur) U64MAX.
Proof.
  intros Hn Hd. unfold get_timeout_time, sat_add64, U64MAX in *.
  destruct (dur <=? _) eqn:E; lia.
Qed.

Lemma timeout_time_no_wrap now dur :
  0 <= now <= U64MAX -> 0 <= dur ->
  now <= get_timeout_time now dur <= U64MAX /\
  (now + dur <= U64MAX -> get_timeout_time now dur = now + dur).
Proof.
  intros Hn Hd. rewrite timeout_time_spec by assumption. unfold U64MAX in *. lia.
Qed.

Definition piece_ok (slice p : Z) : Prop := 0 < p <= slice.

Lemma sumZ_app l1 l2 : sumZ (l1 ++ l2) = sumZ l1 + sumZ l2.
Proof. induction l1 as [|x l1 IH]; simpl; [reflexivity | rewrite IH; lia]. Qed.

Lemma slices_loop_spec fuel : forall left slice acc,
  0 < slice -> 0 < left -> (Z.to_nat (left / slice) < fuel)%nat ->
  exists l, slices_loop fuel left slice acc = Some (rev acc ++ l)
            /\ Forall (piece_ok slice) l /\ sumZ l = left /\ l <> [].
Proof.
  induction fuel as [|f IH]; intros left slice acc Hs Hl Hf; [lia|].
  cbn [slices_loop]. destruct (slice <? left) eqn:E.
  - destruct (IH (left - slice) slice (slice :: acc)) as (l & Hrun & Hall & Hsum & Hne).
    + assumption.
    + lia.
    + assert (Hq : (left - slice) / slice = left / slice - 1).
      { replace (left - slice) with (left + (-1) * slice) by lia.
        rewrite Z.div_add by lia. lia. }
      rewrite Hq. assert (1 <= left / slice) by (apply Z.div_le_lower_bound; lia). lia.
    + exists (slice :: l). split; [|split; [|split]].
      * rewrite Hrun. cbn [rev]. rewrite <- app_assoc. reflexivity.
      * constructor; [unfold piece_ok; lia | assumption].
      * cbn [sumZ fold_right]. fold (sumZ l). lia.
      * discriminate.
  - exists [left]. split; [|split; [|split]].
    + cbn [rev]. reflexivity.
    + constructor; [unfold piece_ok; lia | constructor].
    + cbn. lia.
    + discriminate.
Qed.

Theorem get_slices_spec total slice :
  0 <= total -> 0 < slice ->
  exists l, get_slices total slice = Some l
            /\ Forall (piece_ok slice) l /\ sumZ l = total /\ (l = [] <-> total = 0).
Proof.
  intros Ht Hs. unfold get_slices, get_slices_fuel.
  destruct (total =? 0) eqn:E.
  - exists []. split; [reflexivity|]. split; [constructor|]. split; [cbn; lia|]. split; intros; [lia|reflexivity].
  - destruct (slices_loop_spec (slices_fuel total slice) total slice [] Hs) as (l & Hrun & Hall & Hsum & Hne).
    + lia.
    + unfold slices_fuel. rewrite Z.max_l by lia. lia.
    + exists l. cbn [rev app] in Hrun. split; [exact Hrun|]. split; [exact Hall|]. split; [exact Hsum|].
      split; intros; [contradiction | lia].
Qed.

(** More fuel never changes the answer: the loop's result is independent of the fuel chosen. *)
Lemma slices_loop_fuel_mono fuel : forall left slice acc r,
  slices_loop fuel left slice acc = Some r ->
  forall fuel', (fuel <= fuel')%nat -> slices_loop fuel' left slice acc = Some r.
Proof.
  induction fuel as [|f IH]; intros left slice acc r H fuel' Hle; [discriminate|].
  destruct fuel' as [|f']; [lia|]. cbn [slices_loop] in *.
  destruct (slice <? left); [apply (IH _ _ _ _ H); lia | assumption].
Qed.

(** Zero slice with a positive total: the real loop never ends; the model says so for every fuel. *)
Lemma slices_zero_slice_diverges fuel : forall left acc,
  0 < left -> slices_loop fuel left 0 acc = None.
Proof.
  induction fuel as [|f IH]; intros left acc Hl; [reflexivity|].
  cbn [slices_loop]. destruct (0 <? left) eqn:E; [|lia].
  replace (left - 0) with left by lia. apply IH; assumption.
Qed.

Theorem time_limit_spec sec usec :
  0 <= sec -> 0 <= usec ->
  exists t, get_time_limit sec usec = Some t /\
    ((sec = 0 /\ usec = 0) -> t = U64MAX) /\
    (~ (sec = 0 /\ usec = 0) -> t = Z.min (sec * 1000000000 + usec * 1000) U64MAX) /\
    0 < t <= U64MAX.
Proof.
  intros Hs Hu. unfold get_time_limit.
  destruct (sec <? 0) eqn:E; [lia|]. destruct (usec <? 0) eqn:E'; [lia|].
  eexists; split; [reflexivity|].
  unfold sat_add64, sat_mul64, U64MAX.
  destruct (_ =? 0) eqn:E0; repeat split; intros; lia.
Qed.

Theorem time_limit_monotone s1 u1 s2 u2 t1 t2 :
  0 <= s1 -> 0 <= u1 -> 0 <= s2 -> 0 <= u2 ->
  ~ (s1 = 0 /\ u1 = 0) ->
  s1 * 1000000000 + u1 * 1000 <= s2 * 1000000000 + u2 * 1000 ->
  get_time_limit s1 u1 = Some t1 -> get_time_limit s2 u2 = Some t2 -> t1 <= t2.
Proof.
  intros H1 H2 H3 H4 Hnz Hle E1 E2.
  destruct (time_limit_spec s1 u1 H1 H2) as (t & Ht & _ & Hv & _).
  destruct (time_limit_spec s2 u2 H3 H4) as (t' & Ht' & _ & Hv' & _).
  rewrite E1 in Ht; rewrite E2 in Ht'. inversion Ht; inversion Ht'; subst.
  rewrite (Hv Hnz). rewrite Hv' by lia. lia.
Qed.

(** a negative [tv_sec] is the shortest limit (it used to panic); a negative [tv_usec] still panics *)
Theorem time_limit_negative_sec sec usec : sec < 0 -> get_time_limit sec usec = Some 1.
Proof. intros H. unfold get_time_limit. destruct (sec <? 0) eqn:E; [reflexivity|lia]. Qed.

Theorem time_limit_negative_usec_rejected sec usec :
  0 <= sec -> usec < 0 -> get_time_limit sec usec = None.
Proof.
  intros Hs H. unfold get_time_limit. destruct (sec <? 0) eqn:E; [lia|].
  destruct (usec <? 0) eqn:E'; [reflexivity|lia].
Qed.

(** * The oracle holds on every model run (C28). *)
From OCV Require Import Misc.TimeOracle.

Lemma forallb_piece slice l :
  Forall (piece_ok slice) l -> forallb (fun p => (0 <? p) && (p <=? slice)) l = true.
Proof.
  induction 1 as [|p l Hp _ IH]; [reflexivity|].
  cbn [forallb]. rewrite IH. unfold piece_ok in Hp. lia.
Qed.

Lemma ok_op_run o : wf_op o = true -> ok_op o (run_op o) = true.
Proof.
  destruct o as [now dur | total slice | sec usec]; cbn [wf_op run_op ok_op]; intro Hwf.
  - unfold in_u64 in Hwf. rewrite timeout_time_spec by lia. lia.
  - destruct (slice =? 0) eqn:Es; [reflexivity|].
    destruct (get_slices_spec total slice) as (l & Hrun & Hall & Hsum & Hnil); try lia.
    rewrite Hrun. rewrite (forallb_piece _ _ Hall).
    destruct l as [|p l].
    + assert (total = 0) by (apply Hnil; reflexivity). subst total. reflexivity.
    + assert (total <> 0) by (intro E; apply Hnil in E; discriminate). lia.
  - destruct ((sec <? 0) || (usec <? 0)) eqn:E; [reflexivity|].
    destruct (time_limit_spec sec usec) as (t & Ht & Hz & Hnz & _); try lia.
    rewrite Ht. destruct ((sec =? 0) && (usec =? 0)) eqn:E0.
    + rewrite Hz by lia. lia.
    + rewrite Hnz by lia. lia.
Qed.

Theorem ok_C28_run ops : wf_C28 ops = true -> ok_C28 ops (run_C28 ops) = true.
Proof.
  induction ops as [|o ops IH]; [reflexivity|]. unfold wf_C28 in *. cbn [forallb map run_C28 ok_C28].
  intro H. apply andb_true_iff in H as [H1 H2]. fold (run_C28 ops).
  rewrite ok_op_run by assumption. rewrite IH by assumption. reflexivity.
Qed.

(** Readable form of what the oracle accepts. *)
Definition C28_spec_op (o : op) (r : obs) : Prop :=
  match o with
  | TimeoutTime now dur => r = OVal (Z.min (now + dur) U64MAX)
  | Slices total slice =>
      slice <> 0 -> exists l, r = OList l /\ Forall (piece_ok slice) l /\ sumZ l = total
                              /\ (l = [] <-> total = 0)
  | TimeLimit sec usec =>
      0 <= sec -> 0 <= usec ->
      exists v, r = OVal v /\ ((sec = 0 /\ usec = 0) -> v = U64MAX)
                /\ (~ (sec = 0 /\ usec = 0) -> v = Z.min (sec * 1000000000 + usec * 1000) U64MAX)
  end.

Lemma forallb_piece_inv slice l :
  forallb (fun p => (0 <? p) && (p <=? slice)) l = true -> Forall (piece_ok slice) l.
Proof.
  induction l as [|p l IH]; [constructor|]. cbn [forallb]. intro H.
  apply andb_true_iff in H as [H1 H2]. constructor; [unfold piece_ok; lia | auto].
Qed.

Theorem ok_op_sound o r : ok_op o r = true -> C28_spec_op o r.
Proof.
  destruct o as [now dur | total slice | sec usec]; cbn [ok_op C28_spec_op].
  - destruct r; try discriminate. intro H. f_equal. lia.
  - intros H Hs. destruct (slice =? 0) eqn:E; [lia|].
    destruct r as [| l | |]; try discriminate.
    apply andb_true_iff in H as [H H3]. apply andb_true_iff in H as [H1 H2].
    exists l. split; [reflexivity|]. split; [apply forallb_piece_inv; assumption|].
    split; [lia|]. destruct l; split; intro; try lia; try discriminate; try reflexivity.
  - intros H Hs Hu. destruct ((sec <? 0) || (usec <? 0)) eqn:E; [lia|].
    destruct r as [v | | |]; try discriminate. exists v. split; [reflexivity|].
    destruct ((sec =? 0) && (usec =? 0)) eqn:E0; split; intros; lia.
Qed.
