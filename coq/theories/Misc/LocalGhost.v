(** C25, ghost level: which boxes are still allocated. [st_live] is the ghost list of the model:
    identities of the boxes allocated and not freed. *)
From OCV Require Import Base.Prelude Misc.Local Misc.LocalOracle Misc.LocalProofs.
From Coq Require Import Permutation.
Open Scope Z_scope.

Definition ids (m : lmap) : list Z := map (fun kc => fst (snd kc)) m.
(** identities of the values stored in some coroutine *)
Definition stored (s : state) : list Z := flat_map (fun x => ids (co_map x)) (st_cos s).
Definition opt_id (o : option cell) : list Z := match o with Some (i, _) => [i] | None => [] end.

(** identities of the values that were still stored in a coroutine when it was dropped *)
Fixpoint leaked_from (s : state) (ops : list op) : list Z :=
  match ops with
  | [] => []
  | o :: ops' =>
      let '(s', _, _) := step s o in
      (match o with
       | DropCo c => match get_co s c with Some x => ids (co_map x) | None => [] end
       | _ => []
       end) ++ leaked_from s' ops'
  end.

Lemma del_perm x l : In x l -> Permutation l (x :: del x l).
Proof.
  induction l as [|y l IH]; [intros []|]. cbn [del]. intros [<-|H].
  - rewrite Z.eqb_refl. reflexivity.
  - destruct (Z.eqb_spec y x) as [->|Hne]; [reflexivity|].
    apply perm_trans with (y :: x :: del x l); [constructor; exact (IH H) | apply perm_swap].
Qed.

Lemma insert_ids m k c :
  exists r, Permutation (ids m) (opt_id (snd (lm_insert m k c)) ++ r)
            /\ Permutation (ids (fst (lm_insert m k c))) (fst c :: r).
Proof.
  induction m as [|[k' [i' v']] m IH]; cbn [lm_insert].
  - exists []. split; reflexivity.
  - destruct (k' =? k).
    + exists (ids m). cbn [fst snd opt_id ids map app]. split; reflexivity.
    + destruct IH as (r & H1 & H2). destruct (lm_insert m k c) as [m2 old]. cbn [fst snd] in *.
      exists (i' :: r). cbn [ids map fst snd]. fold (ids m) (ids m2). split.
      * rewrite H1. apply Permutation_middle.
      * rewrite H2. apply perm_swap.
Qed.

Lemma remove_ids m k :
  Permutation (ids m) (opt_id (snd (lm_remove m k)) ++ ids (fst (lm_remove m k))).
Proof.
  induction m as [|[k' [i' v']] m IH]; cbn [lm_remove]; [reflexivity|].
  destruct (k' =? k).
  - cbn [fst snd opt_id ids map app]. reflexivity.
  - destruct (lm_remove m k) as [m2 old]. cbn [fst snd] in *. cbn [ids map fst snd]. fold (ids m) (ids m2).
    rewrite IH. apply Permutation_middle.
Qed.

Lemma write_ids m k v : ids (lm_write m k v) = ids m.
Proof.
  induction m as [|[k' [i' v']] m IH]; [reflexivity|]. cbn [lm_write].
  destruct (k' =? k); cbn [ids map fst snd]; [reflexivity|]. fold (ids (lm_write m k v)) (ids m). rewrite IH. reflexivity.
Qed.

Lemma upd_split {A} (l : list A) i x y :
  nth_error l i = Some x -> exists l1 l2, l = l1 ++ x :: l2 /\ upd l i y = l1 ++ y :: l2.
Proof.
  revert i; induction l as [|a l IH]; intros [|i]; cbn [nth_error upd]; try discriminate.
  - intros [= ->]. exists [], l. split; reflexivity.
  - intros H. destruct (IH _ H) as (l1 & l2 & -> & E). exists (a :: l1), l2. cbn [app]. rewrite E. split; reflexivity.
Qed.

(** replacing the record of one coroutine *)
Lemma stored_upd s c x y live :
  get_co s c = Some x ->
  exists R, Permutation (stored s) (ids (co_map x) ++ R)
            /\ Permutation (stored {| st_cos := upd (st_cos s) (Z.to_nat c) y; st_live := live |}) (ids (co_map y) ++ R).
Proof.
  intros H. apply get_co_some in H as (_ & Hn & _).
  destruct (upd_split _ _ _ y Hn) as (l1 & l2 & E1 & E2).
  exists (flat_map (fun x => ids (co_map x)) l1 ++ flat_map (fun x => ids (co_map x)) l2).
  unfold stored. cbn [st_cos]. rewrite E2, E1, !flat_map_app. cbn [flat_map].
  split; rewrite !app_assoc; apply Permutation_app_tail; apply Permutation_app_comm.
Qed.

Lemma free_perm old live rest :
  Permutation live (opt_id old ++ rest) -> Permutation (free old live) rest.
Proof.
  destruct old as [[i v]|]; cbn [free opt_id app]; [|auto]. intros H.
  assert (Hin : In i live) by (apply (Permutation_in i (Permutation_sym H)); left; reflexivity).
  apply (Permutation_cons_inv (a := i)). rewrite <- (del_perm i live Hin). exact H.
Qed.

(** the boxes still allocated are those of the values still stored plus those leaked at the drops *)
Lemma live_inv : forall ops s L,
  Permutation (st_live s) (stored s ++ L) ->
  Permutation (st_live (final_from s ops)) (stored (final_from s ops) ++ L ++ leaked_from s ops).
Proof.
  induction ops as [|o ops IH]; intros s L H; [cbn [final_from leaked_from]; rewrite app_nil_r; exact H|].
  rewrite final_from_cons. cbn [leaked_from]. unfold step_st.
  destruct o as [c k id v|c k|c k v|c k|c]; cbn [step]; destruct (get_co s c) as [x|] eqn:Hx;
    try (cbn [fst app]; apply IH; exact H).
  - (* Put *)
    destruct (insert_ids (co_map x) k (id, v)) as (r & H1 & H2).
    destruct (lm_insert (co_map x) k (id, v)) as [m old] eqn:Ei. cbn [fst snd app] in *.
    apply IH. unfold set_map.
    destruct (stored_upd s c x {| co_alive := true; co_map := m |} (id :: free old (st_live s)) Hx) as (R & S1 & S2).
    cbn [st_live]. rewrite S2. cbn [co_map]. rewrite H2. cbn [fst app]. constructor.
    apply free_perm. rewrite H, S1, H1, <- !app_assoc. reflexivity.
  - (* GetMut *)
    cbn [fst app]. apply IH. unfold set_map.
    destruct (stored_upd s c x {| co_alive := true; co_map := lm_write (co_map x) k v |} (st_live s) Hx) as (R & S1 & S2).
    cbn [st_live]. rewrite S2. cbn [co_map]. rewrite write_ids, <- S1. exact H.
  - (* Remove *)
    pose proof (remove_ids (co_map x) k) as H1.
    destruct (lm_remove (co_map x) k) as [m old] eqn:Er. cbn [fst snd app] in *.
    apply IH. unfold set_map.
    destruct (stored_upd s c x {| co_alive := true; co_map := m |} (free old (st_live s)) Hx) as (R & S1 & S2).
    cbn [st_live]. rewrite S2. cbn [co_map].
    apply free_perm. rewrite H, S1, H1, <- !app_assoc. reflexivity.
  - (* DropCo: the map is freed, the boxes are not *)
    cbn [fst]. rewrite (app_assoc L). apply IH.
    destruct (stored_upd s c x dead (st_live s) Hx) as (R & S1 & S2).
    cbn [st_live]. rewrite S2. cbn [dead co_map ids map app]. rewrite H, S1, <- !app_assoc.
    rewrite Permutation_app_comm, <- app_assoc. reflexivity.
Qed.

Definition final_C25 (n : nat) (ops : list op) : state := final_from (init n) ops.
Definition leaked_C25 (n : nat) (ops : list op) : list Z := leaked_from (init n) ops.

Lemma stored_init n : stored (init n) = [].
Proof. unfold stored, init. cbn [st_cos]. induction n as [|n IH]; [reflexivity|]. cbn [repeat flat_map co0 co_map ids map app]. exact IH. Qed.

Theorem live_cells_exact n ops :
  Permutation (st_live (final_C25 n ops)) (stored (final_C25 n ops) ++ leaked_C25 n ops).
Proof.
  unfold final_C25, leaked_C25. apply (live_inv ops (init n) []).
  rewrite stored_init. reflexivity.
Qed.

Lemma no_leak_no_leaked : forall ops s, leaks_from s ops = false -> leaked_from s ops = [].
Proof.
  induction ops as [|o ops IH]; intros s H; [reflexivity|].
  rewrite leaks_from_cons in H. apply orb_false_iff in H as [H1 H2].
  cbn [leaked_from]. unfold step_leak, step_st in *.
  destruct o as [c k id v|c k|c k v|c k|c]; cbn [step] in *; destruct (get_co s c) as [x|] eqn:Hx;
    try (destruct (lm_insert (co_map x) k (id, v))); try (destruct (lm_remove (co_map x) k));
    cbn [fst snd app] in *; try (apply IH; exact H2).
  destruct (co_map x); [|discriminate]. cbn [ids map app]. apply IH. exact H2.
Qed.

Theorem no_leak_outside n ops :
  no_defect_C25 n ops = true -> Permutation (st_live (final_C25 n ops)) (stored (final_C25 n ops)).
Proof.
  intros H. pose proof (live_cells_exact n ops) as Hp. unfold leaked_C25 in Hp.
  rewrite no_leak_no_leaked, app_nil_r in Hp; [exact Hp|].
  unfold no_defect_C25, defect_C25_values_leaked_on_drop in H. apply negb_true_iff in H. exact H.
Qed.
