(** C25, ghost level: which boxes are still allocated. [st_live] is the ghost list of the model:
    identities of the boxes allocated and not freed. *)
From OCV Require Import Base.Prelude Misc.Local Misc.LocalOracle Misc.LocalProofs.
From Coq Require Import Permutation.
Open Scope Z_scope.

(** identities of the values stored in some coroutine *)
Definition stored (s : state) : list Z := flat_map (fun x => ids (co_map x)) (st_cos s).

(** identities of the values that were still stored in a coroutine when it was dropped and were
    not released by the drop (none in the code as it is, all of them before the repair) *)
Fixpoint leaked_from (rel : bool) (s : state) (ops : list op) : list Z :=
  match ops with
  | [] => []
  | o :: ops' =>
      let '(s', _) := step rel s o in
      (match o with
       | DropCo c => if rel then [] else match get_co s c with Some x => ids (co_map x) | None => [] end
       | _ => []
       end) ++ leaked_from rel s' ops'
  end.

Lemma del_perm x l : In x l -> Permutation l (x :: del x l).
Proof.
  induction l as [|y l IH]; [intros []|]. cbn [del]. intros [<-|H].
  - rewrite Z.eqb_refl. reflexivity.
  - destruct (Z.eqb_spec y x) as [->|Hne]; [reflexivity|].
    apply perm_trans with (y :: x :: del x l); [constructor; exact (IH H) | apply perm_swap].
Qed.

Lemma insert_ids m k c :
  exists r, Permutation (ids m) (opt_id (snd (lm_insert m k c)) ++ r)
            /\ Permutation (ids (fst (lm_insert m k c))) (fst c :: r).
Proof.
  induction m as [|[k' [i' v']] m IH]; cbn [lm_insert].
  - exists []. split; reflexivity.
  - destruct (k' =? k).
    + exists (ids m). cbn [fst snd opt_id ids map app]. split; reflexivity.
    + destruct IH as (r & H1 & H2). destruct (lm_insert m k c) as [m2 old]. cbn [fst snd] in *.
      exists (i' :: r). cbn [ids map fst snd]. fold (ids m) (ids m2). split.
      * rewrite H1. apply Permutation_middle.
      * rewrite H2. apply perm_swap.
Qed.

Lemma remove_ids m k :
  Permutation (ids m) (opt_id (snd (lm_remove m k)) ++ ids (fst (lm_remove m k))).
Proof.
  induction m as [|[k' [i' v']] m IH]; cbn [lm_remove]; [reflexivity|].
  destruct (k' =? k).
  - cbn [fst snd opt_id ids map app]. reflexivity.
  - destruct (lm_remove m k) as [m2 old]. cbn [fst snd] in *. cbn [ids map fst snd]. fold (ids m) (ids m2).
    rewrite IH. apply Permutation_middle.
Qed.

Lemma write_ids m k v : ids (lm_write m k v) = ids m.
Proof.
  induction m as [|[k' [i' v']] m IH]; [reflexivity|]. cbn [lm_write].
  destruct (k' =? k); cbn [ids map fst snd]; [reflexivity|]. fold (ids (lm_write m k v)) (ids m). rewrite IH. reflexivity.
Qed.

Lemma upd_split {A} (l : list A) i x y :
  nth_error l i = Some x -> exists l1 l2, l = l1 ++ x :: l2 /\ upd l i y = l1 ++ y :: l2.
Proof.
  revert i; induction l as [|a l IH]; intros [|i]; cbn [nth_error upd]; try discriminate.
  - intros [= ->]. exists [], l. split; reflexivity.
  - intros H. destruct (IH _ H) as (l1 & l2 & -> & E). exists (a :: l1), l2. cbn [app]. rewrite E. split; reflexivity.
Qed.

(** replacing the record of one coroutine *)
Lemma stored_upd s c x y live :
  get_co s c = Some x ->
  exists R, Permutation (stored s) (ids (co_map x) ++ R)
            /\ Permutation (stored {| st_cos := upd (st_cos s) (Z.to_nat c) y; st_live := live |}) (ids (co_map y) ++ R).
Proof.
  intros H. apply get_co_some in H as (_ & Hn & _).
  destruct (upd_split _ _ _ y Hn) as (l1 & l2 & E1 & E2).
  exists (flat_map (fun x => ids (co_map x)) l1 ++ flat_map (fun x => ids (co_map x)) l2).
  unfold stored. cbn [st_cos]. rewrite E2, E1, !flat_map_app. cbn [flat_map].
  split; rewrite !app_assoc; apply Permutation_app_tail; apply Permutation_app_comm.
Qed.

Lemma free_perm old live rest :
  Permutation live (opt_id old ++ rest) -> Permutation (free old live) rest.
Proof.
  destruct old as [[i v]|]; cbn [free opt_id app]; [|auto]. intros H.
  assert (Hin : In i live) by (apply (Permutation_in i (Permutation_sym H)); left; reflexivity).
  apply (Permutation_cons_inv (a := i)). rewrite <- (del_perm i live Hin). exact H.
Qed.

Lemma del_list_perm : forall xs live rest,
  Permutation live (xs ++ rest) -> Permutation (del_list xs live) rest.
Proof.
  induction xs as [|x xs IH]; intros live rest H; [exact H|].
  unfold del_list. cbn [fold_left]. fold (del_list xs (del x live)). apply IH.
  apply (free_perm (Some (x, 0))). exact H.
Qed.

(** the boxes still allocated are those of the values still stored plus those leaked at the drops *)
Lemma live_inv rel : forall ops s L,
  Permutation (st_live s) (stored s ++ L) ->
  Permutation (st_live (final_from rel s ops)) (stored (final_from rel s ops) ++ L ++ leaked_from rel s ops).
Proof.
  induction ops as [|o ops IH]; intros s L H; [cbn [final_from leaked_from]; rewrite app_nil_r; exact H|].
  rewrite final_from_cons. cbn [leaked_from]. unfold step_st.
  destruct o as [c k id v|c k|c k v|c k|c]; cbn [step]; destruct (get_co s c) as [x|] eqn:Hx;
    try (cbn [fst app]; apply IH; exact H).
  - (* Put *)
    destruct (insert_ids (co_map x) k (id, v)) as (r & H1 & H2).
    destruct (lm_insert (co_map x) k (id, v)) as [m old] eqn:Ei. cbn [fst snd app] in *.
    apply IH. unfold set_map.
    destruct (stored_upd s c x {| co_alive := true; co_map := m |} (id :: free old (st_live s)) Hx) as (R & S1 & S2).
    cbn [st_live]. rewrite S2. cbn [co_map]. rewrite H2. cbn [fst app]. constructor.
    apply free_perm. rewrite H, S1, H1, <- !app_assoc. reflexivity.
  - (* GetMut *)
    cbn [fst app]. apply IH. unfold set_map.
    destruct (stored_upd s c x {| co_alive := true; co_map := lm_write (co_map x) k v |} (st_live s) Hx) as (R & S1 & S2).
    cbn [st_live]. rewrite S2. cbn [co_map]. rewrite write_ids, <- S1. exact H.
  - (* Remove *)
    pose proof (remove_ids (co_map x) k) as H1.
    destruct (lm_remove (co_map x) k) as [m old] eqn:Er. cbn [fst snd app] in *.
    apply IH. unfold set_map.
    destruct (stored_upd s c x {| co_alive := true; co_map := m |} (free old (st_live s)) Hx) as (R & S1 & S2).
    cbn [st_live]. rewrite S2. cbn [co_map].
    apply free_perm. rewrite H, S1, H1, <- !app_assoc. reflexivity.
  - destruct rel; cbn [fst app].
    + (* DropCo: the map is freed and so are the boxes it held *)
      apply IH.
      destruct (stored_upd s c x dead (del_list (ids (co_map x)) (st_live s)) Hx) as (R & S1 & S2).
      cbn [st_live]. rewrite S2. cbn [dead co_map ids map app].
      apply del_list_perm. rewrite H, S1, <- !app_assoc. reflexivity.
    + (* DropCo before the repair: the map is freed, the boxes are not *)
      rewrite (app_assoc L). apply IH.
      destruct (stored_upd s c x dead (st_live s) Hx) as (R & S1 & S2).
      cbn [st_live]. rewrite S2. cbn [dead co_map ids map app]. rewrite H, S1, <- !app_assoc.
      rewrite Permutation_app_comm, <- app_assoc. reflexivity.
  - destruct rel; cbn [fst app]; apply IH; exact H.
Qed.

Definition final_C25 (n : nat) (ops : list op) : state := final_from true (init n) ops.
Definition old_final_C25 (n : nat) (ops : list op) : state := final_from false (init n) ops.
Definition old_leaked_C25 (n : nat) (ops : list op) : list Z := leaked_from false (init n) ops.

Lemma stored_init n : stored (init n) = [].
Proof. unfold stored, init. cbn [st_cos]. induction n as [|n IH]; [reflexivity|]. cbn [repeat flat_map co0 co_map ids map app]. exact IH. Qed.

Lemma nothing_leaked : forall ops s, leaked_from true s ops = [].
Proof.
  induction ops as [|o ops IH]; intros s; [reflexivity|]. cbn [leaked_from].
  destruct (step true s o) as [s' r]. rewrite IH. destruct o; reflexivity.
Qed.

(** after any history the boxes still allocated are exactly those of the values still stored *)
Theorem live_cells_exact n ops :
  Permutation (st_live (final_C25 n ops)) (stored (final_C25 n ops)).
Proof.
  unfold final_C25. pose proof (live_inv true ops (init n) []) as H.
  rewrite nothing_leaked, !app_nil_r in H. apply H. rewrite stored_init. reflexivity.
Qed.

(** before the repair: plus those that were stored in a coroutine when it was dropped *)
Theorem old_live_cells_exact n ops :
  Permutation (st_live (old_final_C25 n ops)) (stored (old_final_C25 n ops) ++ old_leaked_C25 n ops).
Proof.
  unfold old_final_C25, old_leaked_C25. apply (live_inv false ops (init n) []).
  rewrite stored_init. reflexivity.
Qed.
