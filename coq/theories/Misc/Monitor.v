(** Model of core/src/monitor.rs (feature [preemptive]) together with the part of the scheduler
    it interacts with: scheduler threads that resume their coroutines in turn, the listener that
    submits a notify node when a coroutine becomes Running and removes it on any other state
    (except Ready), the monitor thread's scan that signals every thread whose node is overdue, and
    the SIGURG handler that suspends the current coroutine only if it is in state Running.

    [Monitor::notify_queue] is an unsynchronised [HashSet] used from every scheduler thread. The
    model has two granularities for the set operations of the listener: atomic ([m_atomic = true]:
    what a synchronised set would do) and two-step ([false]: the set is read in one step and the
    modified copy is written back by the thread's next step, so that a concurrent operation of
    another thread can be lost). A write-back over a set that changed since it was read raises the
    defect flag. Memory-level effects of the data race are outside the model.

    Coroutine bodies are instruction lists; a body's result is the sum of its [IWork] amounts. *)
From OCV Require Import Base.Prelude.
Open Scope Z_scope.

Definition SLICE : Z := 10000000.        (* the 10 ms after which a Running coroutine is overdue *)

Inductive cst := CReady | CRunning | CSuspend | CSyscall | CDone (r : Z).

Inductive instr :=
| IWork (n : Z)      (* computing: the result accumulates n *)
| ISysEnter          (* Coroutine::syscall(.., Executing): the coroutine enters a system-call state *)
| ISysExit           (* Coroutine::running(): ... and leaves it *)
| IYield.            (* cooperative suspend *)

Definition node := (Z * nat)%type.       (* (timestamp, thread) *)

Record co := {
  c_thr : nat;                 (* the scheduler thread it is pinned to *)
  c_st : cst;
  c_body : list instr;         (* what is left to execute *)
  c_acc : Z;
  c_node : option node         (* coroutine-local NOTIFY_NODE *)
}.

Inductive setop := OpInsert (n : node) | OpRemove (n : node).

Record thr := {
  t_ready : list nat;                      (* ready queue: coroutine indices *)
  t_cur : option nat;                      (* the coroutine being resumed *)
  t_pending : bool;                        (* SIGURG sent, not yet delivered *)
  t_mid : option (setop * list node)       (* two-step set operation in flight: operation, set as read *)
}.

(** what the recording listener sees: coroutine, old state, new state, whether the change was made
    by the signal handler, and (H6) whether the thread has a node in the set after the listener ran *)
Inductive mev :=
| MChange (c : nat) (old new : cst) (preempt : bool) (has_node : bool)
| MWork (c : nat) (n : Z)          (* the body reports a finished piece of computing *)
| MYield (c : nat)                 (* the body announces a cooperative suspend *)
| MSignal (t : nat).

Record mst := {
  m_atomic : bool;
  m_clock : Z;
  m_nodes : list node;
  m_cos : list co;
  m_thr : list thr;
  m_log : list mev;
  m_defect : bool
}.

Definition cst_eqb (a b : cst) : bool :=
  match a, b with
  | CReady, CReady | CRunning, CRunning | CSuspend, CSuspend | CSyscall, CSyscall => true
  | CDone x, CDone y => x =? y
  | _, _ => false
  end.

Definition node_eqb (a b : node) : bool := (fst a =? fst b) && Nat.eqb (snd a) (snd b).
Definition node_mem (n : node) (l : list node) : bool := existsb (node_eqb n) l.
Definition set_insert (n : node) (l : list node) : list node := if node_mem n l then l else n :: l.
Definition set_remove (n : node) (l : list node) : list node := filter (fun x => negb (node_eqb n x)) l.
Definition apply_op (o : setop) (l : list node) : list node :=
  match o with OpInsert n => set_insert n l | OpRemove n => set_remove n l end.
Definition nodes_eqb (a b : list node) : bool := list_eqb node_eqb a b.

Definition nodes_of (l : list node) (t : nat) : list node := filter (fun n => Nat.eqb (snd n) t) l.
Definition has_node (s : mst) (t : nat) : bool := existsb (fun n => Nat.eqb (snd n) t) (m_nodes s).

Definition set_nth {A} (n : nat) (x : A) (l : list A) : list A :=
  firstn n l ++ match skipn n l with [] => [] | _ :: r => x :: r end.

Definition dco : co := {| c_thr := O; c_st := CReady; c_body := []; c_acc := 0; c_node := None |}.
Definition dthr : thr := {| t_ready := []; t_cur := None; t_pending := false; t_mid := None |}.
Definition get_co (s : mst) (c : nat) : co := nth c (m_cos s) dco.
Definition get_thr (s : mst) (t : nat) : thr := nth t (m_thr s) dthr.

Definition with_cos (s : mst) (l : list co) : mst :=
  {| m_atomic := m_atomic s; m_clock := m_clock s; m_nodes := m_nodes s; m_cos := l; m_thr := m_thr s;
     m_log := m_log s; m_defect := m_defect s |}.
Definition with_thrs (s : mst) (l : list thr) : mst :=
  {| m_atomic := m_atomic s; m_clock := m_clock s; m_nodes := m_nodes s; m_cos := m_cos s; m_thr := l;
     m_log := m_log s; m_defect := m_defect s |}.
Definition with_nodes (s : mst) (l : list node) (d : bool) : mst :=
  {| m_atomic := m_atomic s; m_clock := m_clock s; m_nodes := l; m_cos := m_cos s; m_thr := m_thr s;
     m_log := m_log s; m_defect := d |}.
Definition with_log (s : mst) (l : list mev) : mst :=
  {| m_atomic := m_atomic s; m_clock := m_clock s; m_nodes := m_nodes s; m_cos := m_cos s; m_thr := m_thr s;
     m_log := l; m_defect := m_defect s |}.
Definition with_clock (s : mst) (c : Z) : mst :=
  {| m_atomic := m_atomic s; m_clock := c; m_nodes := m_nodes s; m_cos := m_cos s; m_thr := m_thr s;
     m_log := m_log s; m_defect := m_defect s |}.

Definition upd_co (s : mst) (c : nat) (k : co) : mst := with_cos s (set_nth c k (m_cos s)).
Definition upd_thr (s : mst) (t : nat) (k : thr) : mst := with_thrs s (set_nth t k (m_thr s)).

Definition t_with_mid (k : thr) (m : option (setop * list node)) : thr :=
  {| t_ready := t_ready k; t_cur := t_cur k; t_pending := t_pending k; t_mid := m |}.
Definition t_with_pending (k : thr) (b : bool) : thr :=
  {| t_ready := t_ready k; t_cur := t_cur k; t_pending := b; t_mid := t_mid k |}.
Definition t_with_sched (k : thr) (r : list nat) (c : option nat) : thr :=
  {| t_ready := r; t_cur := c; t_pending := t_pending k; t_mid := t_mid k |}.

(** a set operation of the listener running on thread [t] *)
Definition set_op (s : mst) (t : nat) (o : setop) : mst :=
  if m_atomic s then with_nodes s (apply_op o (m_nodes s)) (m_defect s)
  else upd_thr s t (t_with_mid (get_thr s t) (Some (o, m_nodes s))).

(** [change_state] of coroutine [c] (on its thread) followed by [MonitorListener::on_state_changed] *)
Definition change (s : mst) (c : nat) (new : cst) (preempt : bool) : mst :=
  let k := get_co s c in
  let t := c_thr k in
  let old := c_st k in
  let '(nd, op) :=
    match new with
    | CRunning => let n := (m_clock s + SLICE, t) in (Some n, Some (OpInsert n))
    | CReady => (c_node k, None)
    | _ => (c_node k, option_map OpRemove (c_node k))
    end in
  let s1 := upd_co s c {| c_thr := t; c_st := new; c_body := c_body k; c_acc := c_acc k; c_node := nd |} in
  let s2 := match op with Some o => set_op s1 t o | None => s1 end in
  with_log s2 (m_log s2 ++ [MChange c old new preempt (has_node s2 t)]).

Definition set_body (s : mst) (c : nat) (b : list instr) (acc : Z) : mst :=
  let k := get_co s c in
  upd_co s c {| c_thr := c_thr k; c_st := c_st k; c_body := b; c_acc := acc; c_node := c_node k |}.

(** the coroutine gives up the thread: Suspend with timestamp 0, so the scheduler puts it at the
    back of its ready queue at once (its state stays Suspend until it is resumed) *)
Definition yield_thread (s : mst) (t c : nat) (preempt : bool) : mst :=
  let s1 := change s c CSuspend preempt in
  let k := get_thr s1 t in
  upd_thr s1 t (t_with_sched k (t_ready k ++ [c]) None).

Inductive act :=
| AStep (t : nat)      (* scheduler thread t does its next step *)
| ATick (d : Z)        (* time passes *)
| AScan                (* one iteration of the monitor thread's loop *)
| ASig (t : nat).      (* the pending SIGURG is delivered on thread t *)

Definition step_thread (s : mst) (t : nat) : mst :=
  let k := get_thr s t in
  match t_mid k with
  | Some (o, snap) =>
      (* the write-back of the set operation in flight *)
      let s1 := with_nodes s (apply_op o snap) (m_defect s || negb (nodes_eqb snap (m_nodes s))) in
      upd_thr s1 t (t_with_mid (get_thr s1 t) None)
  | None =>
      match t_cur k with
      | None =>
          match t_ready k with
          | [] => s
          | c :: rest => change (upd_thr s t (t_with_sched k rest (Some c))) c CRunning false
          end
      | Some c =>
          let kc := get_co s c in
          match c_body kc with
          | [] =>
              let s1 := change s c (CDone (c_acc kc)) false in
              upd_thr s1 t (t_with_sched (get_thr s1 t) (t_ready (get_thr s1 t)) None)
          | IWork n :: b => let s1 := set_body s c b (c_acc kc + n) in with_log s1 (m_log s1 ++ [MWork c n])
          | ISysEnter :: b =>
              let s1 := set_body s c b (c_acc kc) in
              match c_st kc with CRunning => change s1 c CSyscall false | _ => s1 end
          | ISysExit :: b =>
              let s1 := set_body s c b (c_acc kc) in
              match c_st kc with CSyscall => change s1 c CRunning false | _ => s1 end
          | IYield :: b =>
              let s1 := set_body s c b (c_acc kc) in
              match c_st kc with
              | CRunning => yield_thread (with_log s1 (m_log s1 ++ [MYield c])) t c false
              | _ => s1
              end
          end
      end
  end.

(** [sigurg_handler] on thread [t] *)
Definition deliver (s : mst) (t : nat) : mst :=
  let k := get_thr s t in
  if negb (t_pending k) then s
  else
    match t_mid k with
    | Some _ => s       (* delivery inside the listener's own set operation is not modelled: the signal stays pending *)
    | None =>
        let s1 := upd_thr s t (t_with_pending k false) in
        let s2 := with_log s1 (m_log s1 ++ [MSignal t]) in
        match t_cur k with
        | Some c => match c_st (get_co s2 c) with CRunning => yield_thread s2 t c true | _ => s2 end
        | None => s2
        end
    end.

(** the monitor's loop body: signal every thread that has an overdue node. The monitor thread
    iterates the set without synchronisation: with the two-step operations, a scan while some
    thread's operation is in flight races with it (defect flag; the scan itself sees the old set) *)
Definition in_flight (s : mst) : bool :=
  negb (m_atomic s) && existsb (fun k => match t_mid k with Some _ => true | None => false end) (m_thr s).

Definition scan (s : mst) : mst :=
  let s1 := fold_left (fun s1 n => if fst n <=? m_clock s1
                                   then upd_thr s1 (snd n) (t_with_pending (get_thr s1 (snd n)) true) else s1)
                      (m_nodes s) s in
  if in_flight s then with_nodes s1 (m_nodes s1) true else s1.

Definition mstep (s : mst) (a : act) : mst :=
  match a with
  | AStep t => if Nat.ltb t (length (m_thr s)) then step_thread s t else s
  | ATick d => with_clock s (m_clock s + Z.max d 0)
  | AScan => scan s
  | ASig t => if Nat.ltb t (length (m_thr s)) then deliver s t else s
  end.

Definition mrun (s : mst) (sched : list act) : mst := fold_left mstep sched s.

(** initial state: [progs] = for every coroutine its thread and its body; [nthr] threads *)
Definition minit (atomic : bool) (clock : Z) (nthr : nat) (progs : list (nat * list instr)) : mst :=
  {| m_atomic := atomic; m_clock := clock; m_nodes := [];
     m_cos := map (fun p => {| c_thr := fst p; c_st := CReady; c_body := snd p; c_acc := 0; c_node := None |}) progs;
     m_thr := map (fun t => {| t_ready := map fst (filter (fun ip => Nat.eqb (fst (snd ip)) t) (combine (seq 0 (length progs)) progs));
                              t_cur := None; t_pending := false; t_mid := None |}) (seq 0 nthr);
     m_log := []; m_defect := false |}.

Definition works (b : list instr) : Z :=
  fold_right (fun i a => match i with IWork n => n + a | _ => a end) 0 b.
