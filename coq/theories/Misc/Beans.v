(** Small-step model of [BeanFactory] (core/src/common/beans.rs) for any number of threads.

    One step of a thread = the atomic action at one shared-memory operation of the source (the
    points the harness shim schedules at) followed by the thread-local code up to the next one.

    [Racy] is the code as it is in /repo:
      get_instance        [PLoad]   INSTANCE.load; non-zero: use it; zero: go on to
                          [PPub]    (allocate a factory) INSTANCE.store(new) -- unconditional
      get_or_default etc. [PGet f]  factory.map.get(name); present: return it; absent: go on to
                          [PIns f]  (allocate a bean) factory.map.insert(name, new) -- unconditional
      init_bean           the same two steps, with [assert!(insert(..).is_none())]: the thread panics
                          when its insert replaced an entry.
    [Repaired] is the protocol of the repair sketched in DESIGN Appendix C (not landed, see
    known_findings.jsonl): [PPub] is a compare-exchange (the loser drops its factory and uses the
    winner's), [PIns f] is [entry(name).or_insert_with(..)] (check and insert under the shard lock).
    The two protocols differ only in what the second step does when another thread got there first;
    those two branches set the ghost flags [s_pub2] / [s_over] (defect tags of finding #28).

    Addresses are drawn from a counter; factories and beans share it. *)
From OCV Require Import Base.Prelude.
Open Scope Z_scope.

Inductive proto := Racy | Repaired.

Inductive call :=
| CGetOrDefault (name : Z)      (* get_or_default / get_mut_or_default *)
| CGetBean (name : Z)           (* get_bean / get_mut_bean *)
| CInitBean (name : Z).         (* init_bean *)

Inductive res :=
| RAddr (a : Z)
| RNone
| RUnit
| RPanic.                       (* the thread died in this call *)

Inductive pc :=
| PLoad
| PPub
| PGet (f : Z)
| PIns (f : Z).

Definition bmap := list (Z * Z).          (* name -> address *)

Record thread := { th_pc : pc; th_todo : list call; th_done : list res (* most recent first *) }.

Record state := {
  s_inst : option Z;                      (* INSTANCE: None = 0 *)
  s_maps : list (Z * bmap);               (* the map of every factory that exists *)
  s_next : Z;                             (* next fresh address *)
  s_threads : list thread;
  s_pub2 : bool;                          (* ghost: a factory was published over another one *)
  s_over : bool                           (* ghost: an insert replaced an existing bean *)
}.

Definition call_name (c : call) : Z :=
  match c with CGetOrDefault x | CGetBean x | CInitBean x => x end.

Fixpoint alookup {V} (k : Z) (m : list (Z * V)) : option V :=
  match m with
  | [] => None
  | (k', v) :: m' => if k' =? k then Some v else alookup k m'
  end.

Fixpoint aset {V} (k : Z) (v : V) (m : list (Z * V)) : list (Z * V) :=
  match m with
  | [] => [(k, v)]
  | (k', v') :: m' => if k' =? k then (k, v) :: m' else (k', v') :: aset k v m'
  end.

Definition map_of (s : state) (f : Z) : bmap :=
  match alookup f (s_maps s) with Some m => m | None => [] end.

Definition thread0 (p : list call) : thread := {| th_pc := PLoad; th_todo := p; th_done := [] |}.
Definition init (progs : list (list call)) : state :=
  {| s_inst := None; s_maps := []; s_next := 1; s_threads := map thread0 progs;
     s_pub2 := false; s_over := false |}.

Fixpoint upd {A} (l : list A) (i : nat) (x : A) : list A :=
  match l, i with
  | [], _ => []
  | _ :: l', O => x :: l'
  | y :: l', S i' => y :: upd l' i' x
  end.

Definition goto (th : thread) (p : pc) : thread :=
  {| th_pc := p; th_todo := th_todo th; th_done := th_done th |}.
Definition finish (th : thread) (r : res) : thread :=
  {| th_pc := PLoad; th_todo := tl (th_todo th); th_done := r :: th_done th |}.
Definition die (th : thread) : thread :=
  {| th_pc := PLoad; th_todo := []; th_done := RPanic :: th_done th |}.

(** what a call returns once the bean's address is known *)
Definition found (c : call) (a : Z) : res :=
  match c with CGetOrDefault _ | CGetBean _ => RAddr a | CInitBean _ => RUnit end.

(** a new factory with an empty map is published *)
Definition publish (s : state) (second : bool) : state :=
  let f := s_next s in
  {| s_inst := Some f; s_maps := (f, []) :: s_maps s; s_next := f + 1; s_threads := s_threads s;
     s_pub2 := s_pub2 s || second; s_over := s_over s |}.

(** a new bean is stored under [x] in the map of factory [f] *)
Definition store_bean (s : state) (f x : Z) (replaced : bool) : state :=
  let a := s_next s in
  {| s_inst := s_inst s; s_maps := aset f (aset x a (map_of s f)) (s_maps s); s_next := a + 1;
     s_threads := s_threads s; s_pub2 := s_pub2 s; s_over := s_over s || replaced |}.

(** the step of one thread; returns the new shared part and the new thread *)
Definition step_thread (p : proto) (s : state) (th : thread) : state * thread :=
  match th_todo th with
  | [] => (s, th)
  | c :: _ =>
      match th_pc th with
      | PLoad =>
          match s_inst s with
          | Some f => (s, goto th (PGet f))
          | None => (s, goto th PPub)
          end
      | PPub =>
          match s_inst s, p with
          | None, _ => (publish s false, goto th (PGet (s_next s)))
          | Some f, Repaired => (s, goto th (PGet f))
          | Some _, Racy => (publish s true, goto th (PGet (s_next s)))
          end
      | PGet f =>
          match alookup (call_name c) (map_of s f) with
          | Some a => (s, finish th (found c a))
          | None =>
              match c with
              | CGetBean _ => (s, finish th RNone)
              | _ => (s, goto th (PIns f))
              end
          end
      | PIns f =>
          match alookup (call_name c) (map_of s f), p with
          | None, _ => (store_bean s f (call_name c) false, finish th (found c (s_next s)))
          | Some a, Repaired => (s, finish th (found c a))
          | Some _, Racy =>
              (store_bean s f (call_name c) true,
               match c with
               | CInitBean _ => die th                 (* assert!(insert(..).is_none()) *)
               | _ => finish th (found c (s_next s))
               end)
          end
      end
  end.

(** thread [t] takes one step; a thread that does not exist or has finished stutters *)
Definition step (p : proto) (s : state) (t : nat) : state :=
  match nth_error (s_threads s) t with
  | None => s
  | Some th =>
      let '(s', th') := step_thread p s th in
      {| s_inst := s_inst s'; s_maps := s_maps s'; s_next := s_next s';
         s_threads := upd (s_threads s) t th'; s_pub2 := s_pub2 s'; s_over := s_over s' |}
  end.

Definition run (p : proto) (s : state) (sched : list nat) : state := fold_left (step p) sched s.

Definition finished (th : thread) : bool := match th_todo th with [] => true | _ => false end.
Definition quiescent (s : state) : bool := forallb finished (s_threads s).

(** ---- observable outcome of a finished execution: what every call returned, in program order,
    and what a later [get_bean] returns for each of the names in [finals] *)
Record outcome := { o_threads : list (list res); o_final : list res }.

Definition lookup_after (s : state) (x : Z) : res :=
  match s_inst s with
  | None => RNone
  | Some f => match alookup x (map_of s f) with Some a => RAddr a | None => RNone end
  end.

Definition outcome_of (finals : list Z) (s : state) : outcome :=
  {| o_threads := map (fun th => rev (th_done th)) (s_threads s);
     o_final := map (lookup_after s) finals |}.

(** ---- all interleavings, with fuel. [None] marks fuel exhaustion. The flags of an outcome say
    whether the execution went through the defect branches ([s_pub2], [s_over]). *)
Fixpoint live_threads (i : nat) (l : list thread) : list nat :=
  match l with
  | [] => []
  | th :: l' => if finished th then live_threads (S i) l' else i :: live_threads (S i) l'
  end.

Fixpoint explore (p : proto) (fuel : nat) (finals : list Z) (s : state) : list (option (outcome * (bool * bool))) :=
  match live_threads 0 (s_threads s) with
  | [] => [Some (outcome_of finals s, (s_pub2 s, s_over s))]
  | ts =>
      match fuel with
      | O => [None]
      | S fuel' => flat_map (fun t => explore p fuel' finals (step p s t)) ts
      end
  end.

(** a thread needs at most 4 steps per call *)
Definition steps_bound (progs : list (list call)) : nat :=
  fold_right (fun p acc => (4 * length p + acc)%nat) O progs.

(** run thread [t] alone until it has finished (sequential prefix made by the main thread) *)
Fixpoint run_alone (p : proto) (fuel : nat) (s : state) (t : nat) : state :=
  match fuel with
  | O => s
  | S fuel' =>
      match nth_error (s_threads s) t with
      | Some th => if finished th then s else run_alone p fuel' (step p s t) t
      | None => s
      end
  end.
