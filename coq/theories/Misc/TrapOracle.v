(** C24: observations, the model run and the property as an executable oracle. The oracle knows
    only the programs: what each coroutine must end with is read off its own program. *)
From OCV Require Import Base.Prelude Misc.Trap.
Open Scope Z_scope.

Inductive obs :=
| OLog (i : nat) (k : Z)                 (* coroutine i made its k-th visible step *)
| ORes (i : nat) (r : option result)     (* what try_schedule reported for coroutine i (None: nothing) *)
| OAlive                                 (* the resuming thread went on after the scheduling calls *)
| ODiverged
| OBad.

Definition emsg_eqb (a b : emsg) : bool :=
  match a, b with EInvalid, EInvalid | EOverflow, EOverflow | EPanic, EPanic => true | _, _ => false end.
Definition result_eqb (a b : result) : bool :=
  match a, b with ROk x, ROk y => x =? y | RErr x, RErr y => emsg_eqb x y | _, _ => false end.
Definition obs_eqb (a b : obs) : bool :=
  match a, b with
  | OLog i k, OLog j l => Nat.eqb i j && (k =? l)
  | ORes i r, ORes j s => Nat.eqb i j && option_eqb result_eqb r s
  | OAlive, OAlive | ODiverged, ODiverged | OBad, OBad => true
  | _, _ => false
  end.

(** the healthy coroutine submitted to the same scheduler after the first scheduling call *)
Definition post_prog : cprog := {| p_body := [ILog]; p_fin := TReturn 99 |}.

Fixpoint lookup_res (i : nat) (res : list (nat * result)) : option result :=
  match res with
  | [] => None
  | (j, r) :: rest => if Nat.eqb j i then Some r else lookup_res i rest
  end.

Definition results_obs (first n : nat) (res : list (nat * result)) : list obs :=
  map (fun i => ORes i (lookup_res i res)) (seq first n).

Definition round_obs (first : nat) (progs : list cprog) : list obs :=
  match sched (fuel_of progs) (init_queue first progs) [] [] with
  | Some (res, log) => map (fun '(i, k) => OLog i k) log ++ results_obs first (length progs) res
  | None => [ODiverged]
  end.

Definition run_C24 (progs : list cprog) : list obs :=
  round_obs 0 progs ++ round_obs (length progs) [post_prog] ++ [OAlive].

(** ---- well-formed programs: a moved stack pointer points below the lowest mappable address *)
Definition wf_instr (i : instr) : bool :=
  match i with IFault (FSpOut p) => (4096 <=? p) && (p <? 65536) | _ => true end.
Definition wf_C24 (progs : list cprog) : bool := forallb (fun p => forallb wf_instr (p_body p)) progs.

(** ---- what a coroutine must end with, from its own program alone: the value it returns, the
    panic, or the fault's message: "stack overflow" exactly for a fault whose stack pointer lies
    outside every segment of the coroutine (of the fault kinds only [FSpOut] puts it there: a wild
    access leaves it where the code runs, an exhausted stack leaves it in the guard page, which
    the reported segment includes) *)
Definition expected_msg (k : fault) : emsg := match k with FSpOut _ => EOverflow | _ => EInvalid end.

Fixpoint expected (body : list instr) (fin : term) (logs : Z) : result * Z :=
  match body with
  | [] => (finish fin, logs)
  | ILog :: rest => expected rest fin (logs + 1)
  | ISuspend :: rest | IGrow :: rest => expected rest fin logs
  | IFault k :: _ => (RErr (expected_msg k), logs)
  end.

Definition logs_of (i : nat) (os : list obs) : list Z :=
  flat_map (fun o => match o with OLog j k => if Nat.eqb j i then [k] else [] | _ => [] end) os.
Definition res_of (i : nat) (os : list obs) : list (option result) :=
  flat_map (fun o => match o with ORes j r => if Nat.eqb j i then [r] else [] | _ => [] end) os.

Fixpoint count_up (k : Z) (n : nat) : list Z := match n with O => [] | S n' => k :: count_up (k + 1) n' end.

(** coroutine [i] with program [p]: its visible steps are its own, in order, each once; exactly
    one result is reported for it, the one its program determines *)
Definition ok_co (os : list obs) (i : nat) (p : cprog) : bool :=
  let '(r, n) := expected (p_body p) (p_fin p) 0 in
  list_eqb Z.eqb (logs_of i os) (count_up 0 (Z.to_nat n))
  && list_eqb (option_eqb result_eqb) (res_of i os) [Some r].

Fixpoint ok_cos (os : list obs) (i : nat) (progs : list cprog) : bool :=
  match progs with
  | [] => true
  | p :: ps => ok_co os i p && ok_cos os (S i) ps
  end.

Definition bad_obs (o : obs) : bool := match o with ODiverged | OBad => true | _ => false end.

Definition ok_C24 (progs : list cprog) (os : list obs) : bool :=
  ok_cos os 0 (progs ++ [post_prog])
  && negb (existsb bad_obs os)
  && match rev os with OAlive :: _ => true | _ => false end.

(** ---- direct probes of [stack_ptr_in_bounds]: the specification is "some segment contains it" *)
Definition contains (sp : Z) (g : seg) : bool := (t_bot g <=? sp) && (sp <? t_top g).
Definition ok_probe (pr : list seg * Z * bool) : bool :=
  let '(segs, sp, r) := pr in Bool.eqb r (existsb (contains sp) segs).
Definition corr_probe (pr : list seg * Z * bool) : bool :=
  let '(segs, sp, r) := pr in Bool.eqb r (in_bounds segs sp).
