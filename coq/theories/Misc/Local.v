(** Model of [CoroutineLocal] (core/src/coroutine/local.rs) as reached through a coroutine
    ([Deref] in core/src/coroutine/mod.rs), as the code is now.

    A stored value lives in a leaked [Box]; the map of a coroutine holds key -> (address, release
    function of the value's type). A heap cell is modelled by the pair (identity, current value):
    the identity is fixed when the value is put, the value may be rewritten in place through
    [get_mut]. [put] over an existing key and [remove] move the value out of its box (the box is
    freed, the value handed to the caller). [Drop for CoroutineLocal] empties the map and releases
    every box it held: the destructors of the values still stored run when the coroutine is
    dropped. The order in which [DashMap] yields them is unspecified; the destructor runs of one
    call are reported sorted by identity, by the harness and by the model.
    [st_live] is a ghost: the identities of the boxes allocated and not freed.

    The parameter [rel] of [step] is [true] for the code as it is. [rel = false] is the code
    before the repair of finding #27 ([CoroutineLocal] had no [Drop]: dropping the coroutine freed
    the map only, the boxes stayed allocated and no destructor ran); it is kept for the
    [old_*] statements only. *)
From OCV Require Import Base.Prelude.
Open Scope Z_scope.

Definition cell := (Z * Z)%type.            (* identity, current value *)
Definition lmap := list (Z * cell).          (* one coroutine's map: key -> cell, at most one entry per key *)

Fixpoint lm_get (m : lmap) (k : Z) : option cell :=
  match m with
  | [] => None
  | (k', c) :: m' => if k' =? k then Some c else lm_get m' k
  end.

(** [DashMap::insert]: replaces the entry of the key, returns the previous one *)
Fixpoint lm_insert (m : lmap) (k : Z) (c : cell) : lmap * option cell :=
  match m with
  | [] => ([(k, c)], None)
  | (k', c') :: m' =>
      if k' =? k then ((k, c) :: m', Some c')
      else let '(m2, old) := lm_insert m' k c in ((k', c') :: m2, old)
  end.

(** [DashMap::remove] *)
Fixpoint lm_remove (m : lmap) (k : Z) : lmap * option cell :=
  match m with
  | [] => ([], None)
  | (k', c') :: m' =>
      if k' =? k then (m', Some c')
      else let '(m2, old) := lm_remove m' k in ((k', c') :: m2, old)
  end.

(** a write through the [&mut V] that [get_mut] hands out: same box, new value *)
Fixpoint lm_write (m : lmap) (k : Z) (v : Z) : lmap :=
  match m with
  | [] => []
  | (k', (id, old)) :: m' =>
      if k' =? k then (k', (id, v)) :: m' else (k', (id, old)) :: lm_write m' k v
  end.

Record co := { co_alive : bool; co_map : lmap }.
Record state := { st_cos : list co; st_live : list Z }.

Definition co0 : co := {| co_alive := true; co_map := [] |}.
Definition dead : co := {| co_alive := false; co_map := [] |}.
Definition init (n : nat) : state := {| st_cos := repeat co0 n; st_live := [] |}.

Fixpoint upd {A} (l : list A) (i : nat) (x : A) : list A :=
  match l, i with
  | [], _ => []
  | _ :: l', O => x :: l'
  | y :: l', S i' => y :: upd l' i' x
  end.

Fixpoint del (x : Z) (l : list Z) : list Z :=
  match l with
  | [] => []
  | y :: l' => if y =? x then l' else y :: del x l'
  end.

Definition free (old : option cell) (live : list Z) : list Z :=
  match old with Some (id, _) => del id live | None => live end.

(** identities of the values a map holds *)
Definition ids (m : lmap) : list Z := map (fun kc => fst (snd kc)) m.

Definition del_list (xs live : list Z) : list Z := fold_left (fun l x => del x l) xs live.

Fixpoint insert_sorted (x : Z) (l : list Z) : list Z :=
  match l with
  | [] => [x]
  | y :: l' => if x <=? y then x :: l else y :: insert_sorted x l'
  end.
Definition sortZ (l : list Z) : list Z := fold_right insert_sorted [] l.

Inductive op :=
| Put (c k id v : Z)      (* coroutine c: put(key k, value v); the new box gets identity id *)
| Get (c k : Z)
| GetMut (c k v : Z)      (* get_mut(key k) and, if present, write v through the reference *)
| Remove (c k : Z)
| DropCo (c : Z).         (* drop the coroutine *)

(** What a caller sees. [dropped]: identities of the values whose destructor ran *inside* the call
    (a value returned to the caller is the caller's, it is not listed). *)
Inductive obs :=
| ORes (r : option cell) (dropped : list Z)
| ODrop (dropped : list Z)
| OBad.                   (* no such coroutine / already dropped: outside the statement *)

Definition get_co (s : state) (c : Z) : option co :=
  if (c <? 0) then None
  else match nth_error (st_cos s) (Z.to_nat c) with
       | Some x => if co_alive x then Some x else None
       | None => None
       end.

Definition set_map (s : state) (c : Z) (m : lmap) (live : list Z) : state :=
  {| st_cos := upd (st_cos s) (Z.to_nat c) {| co_alive := true; co_map := m |}; st_live := live |}.

(** one call *)
Definition step (rel : bool) (s : state) (o : op) : state * obs :=
  match o with
  | Put c k id v =>
      match get_co s c with
      | None => (s, OBad)
      | Some x =>
          let '(m, old) := lm_insert (co_map x) k (id, v) in
          (set_map s c m (id :: free old (st_live s)), ORes old [])
      end
  | Get c k =>
      match get_co s c with
      | None => (s, OBad)
      | Some x => (s, ORes (lm_get (co_map x) k) [])
      end
  | GetMut c k v =>
      match get_co s c with
      | None => (s, OBad)
      | Some x => (set_map s c (lm_write (co_map x) k v) (st_live s), ORes (lm_get (co_map x) k) [])
      end
  | Remove c k =>
      match get_co s c with
      | None => (s, OBad)
      | Some x =>
          let '(m, old) := lm_remove (co_map x) k in
          (set_map s c m (free old (st_live s)), ORes old [])
      end
  | DropCo c =>
      match get_co s c with
      | None => (s, OBad)
      | Some x =>
          let held := ids (co_map x) in
          if rel
          then ({| st_cos := upd (st_cos s) (Z.to_nat c) dead; st_live := del_list held (st_live s) |},
                ODrop (sortZ held))
          else ({| st_cos := upd (st_cos s) (Z.to_nat c) dead; st_live := st_live s |}, ODrop [])
      end
  end.

Fixpoint run_from (rel : bool) (s : state) (ops : list op) : list obs :=
  match ops with
  | [] => []
  | o :: ops' => let '(s', r) := step rel s o in r :: run_from rel s' ops'
  end.

Fixpoint final_from (rel : bool) (s : state) (ops : list op) : state :=
  match ops with
  | [] => s
  | o :: ops' => let '(s', _) := step rel s o in final_from rel s' ops'
  end.
