(** Shared arithmetic and printing helpers. Stdlib only; no proofs about the runtime here. *)
From Coq Require Export List ZArith Bool Lia.
From Coq Require Import String Ascii.
Export ListNotations.
Open Scope Z_scope.

Definition U64MAX : Z := 18446744073709551615.
Definition U32MAX : Z := 4294967295.
Definition I64MAX : Z := 9223372036854775807.
Definition I64MIN : Z := -9223372036854775808.

Definition in_u64 (x : Z) : bool := (0 <=? x) && (x <=? U64MAX).
Definition sat_add64 (a b : Z) : Z := Z.min (a + b) U64MAX.
Definition sat_mul64 (a b : Z) : Z := Z.min (a * b) U64MAX.
Definition sat_sub (a b : Z) : Z := Z.max (a - b) 0.

Fixpoint list_eqb {A} (eqb : A -> A -> bool) (l1 l2 : list A) : bool :=
  match l1, l2 with
  | [], [] => true
  | x :: l1', y :: l2' => eqb x y && list_eqb eqb l1' l2'
  | _, _ => false
  end.

Lemma list_eqb_eq {A} (eqb : A -> A -> bool) :
  (forall x y, eqb x y = true <-> x = y) ->
  forall l1 l2, list_eqb eqb l1 l2 = true <-> l1 = l2.
Proof.
  intros H l1; induction l1 as [|x l1 IH]; intros [|y l2]; simpl; split; intro E;
    try reflexivity; try discriminate.
  - apply andb_true_iff in E as [E1 E2]. apply H in E1. apply IH in E2. congruence.
  - inversion E; subst. apply andb_true_iff; split; [apply H; reflexivity | apply IH; reflexivity].
Qed.

Definition option_eqb {A} (eqb : A -> A -> bool) (a b : option A) : bool :=
  match a, b with
  | Some x, Some y => eqb x y
  | None, None => true
  | _, _ => false
  end.

Definition sumZ (l : list Z) : Z := fold_right Z.add 0 l.

(** Verdict printing used by every Cases file: one line per case,
    ["c=<0|1> p=<0|1> t=<tag>,<tag>"]. *)
Local Open Scope string_scope.
Definition b2s (b : bool) : string := if b then "1" else "0".
Fixpoint join (sep : string) (l : list string) : string :=
  match l with
  | [] => ""
  | [x] => x
  | x :: l' => x ++ sep ++ join sep l'
  end.
Record verdict := { v_corr : bool; v_prop : bool; v_tags : list string; v_note : string }.
Definition verdict_line (v : verdict) : string :=
  "c=" ++ b2s (v_corr v) ++ " p=" ++ b2s (v_prop v) ++ " t=" ++ join "," (v_tags v)
       ++ " n=" ++ v_note v.
Fixpoint digits (fuel n : nat) (acc : string) : string :=
  match fuel with
  | O => acc
  | S f =>
      let d := String (ascii_of_nat (48 + Nat.modulo n 10)) acc in
      match Nat.div n 10 with O => d | n' => digits f n' d end
  end.
Definition nat_to_string (n : nat) : string := digits (S n) n "".
(** index of the first position where two lists differ (or the shorter length) *)
Fixpoint first_diff {A} (eqb : A -> A -> bool) (a b : list A) (i : nat) : option nat :=
  match a, b with
  | [], [] => None
  | x :: a', y :: b' => if eqb x y then first_diff eqb a' b' (S i) else Some i
  | _, _ => Some i
  end.
Definition diff_note {A} (eqb : A -> A -> bool) (a b : list A) : string :=
  match first_diff eqb a b O with None => "" | Some i => "first-diff-at-" ++ nat_to_string i end.
Definition nl : string := String (ascii_of_nat 10) EmptyString.
Definition verdict_lines (vs : list verdict) : string := join nl (map verdict_line vs).
