(** C21 — OS readiness interest matches outstanding waits. Statements only. *)
From OCV Require Import Base.Prelude Net.Selector Net.SelectorOracle Net.SelectorProofs.
Open Scope Z_scope.

Theorem C21_refuted_records_shared_across_pollers : exists pollers nfd ops,
  wf_C21 pollers nfd ops = true /\ ok_C21 pollers nfd ops (run_C21 pollers nfd ops) = false.
Proof. exact refuted_shared. Qed.

Print Assumptions C21_refuted_records_shared_across_pollers.
