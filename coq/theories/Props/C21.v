(** C21 — OS readiness interest matches outstanding waits. Statements only. *)
From OCV Require Import Base.Prelude Net.Selector Net.SelectorOracle Net.SelectorProofs Net.SelectorErase.
Open Scope Z_scope.

(** one poller: after every step of every history of waits, deletions, shutdowns, closes, reuses of a
    closed descriptor number and asynchronous event deliveries, the interest the OS table holds for
    each descriptor is exactly the union of the outstanding interests *)
Theorem C21_holds_outside : forall pollers nfd ops,
  wf_C21 pollers nfd ops = true -> no_defect pollers = true ->
  ok_C21 pollers nfd ops (run_C21 pollers nfd ops) = true.
Proof. exact holds_outside. Qed.

(** known finding: the record maps are shared by all pollers of the process *)
Theorem C21_refuted_records_shared_across_pollers : exists pollers nfd ops,
  wf_C21 pollers nfd ops = true /\ ok_C21 pollers nfd ops (run_C21 pollers nfd ops) = false.
Proof. exact refuted_shared. Qed.

(** the defect tag of the finding (a selector call that finds the process-global records disagreeing
    with its own poller's table) is never raised when the process has one poller *)
Theorem C21_one_poller_never_tagged : forall nfd ops, tags_C21 1 nfd ops = [].
Proof. exact one_poller_never_tagged. Qed.

(** a descriptor number closed through the runtime and handed out again starts with no record, no
    entry in the OS table, after any history *)
Theorem C21_reuse_clean : forall nfd ops fd,
  let y := snd (run_from nfd (sys_init 1 nfd) (ops ++ [Close fd; Reopen fd])) in
  zmem fd (s_rrec (y_sel y)) = false /\ zmem fd (s_wrec (y_sel y)) = false
  /\ aget fd (tbl (y_sel y) 0) = None /\ zmem fd (s_open (y_sel y)) = true.
Proof. exact reuse_clean. Qed.

(** what the oracle's clause says about one observed table *)
Theorem C21_oracle_sound : forall nfd rows wr ww, table_ok nfd rows wr ww = true ->
  forall fd, 0 <= fd < nfd -> row_r rows fd = zmem fd wr /\ row_w rows fd = zmem fd ww.
Proof. exact table_ok_sound. Qed.

(** any number of pollers: when (or whether) the pollers' own threads process readiness events has no
    influence on any result or on any OS-side interest table: the observations of a history with
    event deliveries interleaved anywhere are those of the history without them *)
Theorem C21_events_do_not_matter : forall pollers nfd ops,
  strip_obs ops (run_C21 pollers nfd ops) = run_C21 pollers nfd (strip ops).
Proof. exact events_do_not_matter. Qed.

Example C21_nonvacuous :
  let ops := [WaitR 0; WaitW 0; WaitW 1; DelR 0; WaitR 1; ShutWr 1; Close 0; Reopen 0; WaitR 0; DelE 1;
              WaitR 2; Close 2; WaitR 2; Deliver 1 true true; DelW 0] in
  wf_C21 1 3 ops = true /\ no_defect 1 = true
  /\ run_C21 1 3 ops =
     [O21 true [[(0, true, false)]]; O21 true [[(0, true, true)]]; O21 true [[(0, true, true); (1, false, true)]];
      O21 true [[(0, false, true); (1, false, true)]]; O21 true [[(0, false, true); (1, true, true)]];
      O21 true [[(0, false, true); (1, true, false)]]; O21 true [[(1, true, false)]];
      O21 true [[(1, true, false)]]; O21 true [[(0, true, false); (1, true, false)]];
      O21 true [[(0, true, false)]]; O21 true [[(0, true, false); (2, true, false)]];
      O21 true [[(0, true, false)]]; O21 false [[(0, true, false)]]; O21 true [[(0, true, false)]];
      O21 true [[(0, true, false)]]].
Proof. repeat split; vm_compute; reflexivity. Qed.

Print Assumptions C21_holds_outside.
Print Assumptions C21_refuted_records_shared_across_pollers.
Print Assumptions C21_one_poller_never_tagged.
Print Assumptions C21_reuse_clean.
Print Assumptions C21_oracle_sound.
Print Assumptions C21_events_do_not_matter.
