(** C04 — Queue operations and task submission always terminate (ordered queue, sequential
    histories: every reachable state, including those reached after siblings stole items). *)
From OCV Require Import Base.Prelude Queue.PMap Queue.OWS Queue.OWSOracle Queue.OWSProofs.
Open Scope Z_scope.

(** no call of the model ever exhausts its fuel, from ANY state (not only reachable ones) *)
Theorem C04_step_terminates : forall s o, snd (step s o) <> ODiverged.
Proof. exact step_never_diverges. Qed.

Theorem C04_terminates : forall s ops, ~ In ODiverged (run s ops).
Proof. exact run_never_diverges. Qed.

(** the oracle (no observed divergence) holds on every model run *)
Theorem C04_holds : forall n cap ops, o_c04 (model_judge n cap ops) = true.
Proof. exact c04_model. Qed.

(** the lockstep tracker never loses the model's own run (shape and sync) *)
Theorem C04_model_sync : forall n cap ops,
  o_sync (model_judge n cap ops) = true /\ snd (judge_all n cap ops (run (init n cap) ops)) = true.
Proof. exact model_sync. Qed.

(** non-vacuity: the history that made the unrepaired code spin (cap 4: A pushes 4, B pops 3
    by stealing, A pushes again) runs to completion in the model, overflowing to the shared queue *)
Example C04_nonvacuous :
  run (init 2 4) [NewHandle; NewHandle; LPush 0 0 1; LPush 0 0 2; LPush 0 0 3; LPush 0 0 4;
                  LPop 1 0; LPop 1 0; LPop 1 0; LLen 0; LPush 0 0 5; GLen; LPop 0 0; LPop 0 0]
  = [ONum 0; ONum 1; OUnit; OUnit; OUnit; OUnit; OItem (Some 1); OItem (Some 2); OItem (Some 3);
     ONum 4; OUnit; ONum 2; OItem (Some 4); OItem (Some 5)].
Proof. vm_compute. reflexivity. Qed.

Print Assumptions C04_step_terminates.
Print Assumptions C04_terminates.
Print Assumptions C04_holds.
Print Assumptions C04_model_sync.
