(** C12 — Pool lifecycle: stop rejects new work and settles every waiter. *)
From OCV Require Import Cases.Pool.
From OCV Require Import Sched.PoolWf Sched.PoolRun Sched.PoolProofs Sched.PoolInv Sched.PoolExample.
From OCV Require Sched.PoolMono.
Open Scope Z_scope.

(** one pool, all well-formed histories: no submission is accepted once a stop was called, a stop
    succeeds only when every accepted task has run or was cancelled, a pass is refused only once
    stopped, the observed state only moves Running -> Stopping -> Stopped and agrees with the stops made *)
Theorem C12_single_pool : forall clock cfg ops, wf_pool1 clock cfg ops = true ->
  po_c12 (fst (self_flags clock [cfg] ops)) = true.
Proof. exact c12_model1. Qed.

(** every operation gets an observation of its own kind *)
Theorem C12_shape : forall clock cfg ops, wf_pool1 clock cfg ops = true ->
  snd (self_flags clock [cfg] ops) = true.
Proof. exact pool_shape1. Qed.

(** any number of pools, any operation on any state: a pool's state never moves backwards *)
Theorem C12_state_monotone : forall x o p,
  (PoolMono.prank (p_state (get_pool x p)) <= PoolMono.prank (p_state (get_pool (fst (pstep x o)) p)))%nat.
Proof. exact pool_state_monotone. Qed.

Example C12_nonvacuous : wf_pool1 0 ex_cfg ex_ops = true.
Proof. exact ex_wf. Qed.

Print Assumptions C12_single_pool.
Print Assumptions C12_shape.
Print Assumptions C12_state_monotone.
