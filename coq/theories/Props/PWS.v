(** The plain work-steal queue ([core/src/common/work_steal.rs]: [WorkStealQueue] + [LocalQueue]),
    the part of C03, C04 and C06 that speaks about the queue without priorities. Statements only;
    the proofs are in Queue/PWSLemmas.v and Queue/PWSProofs.v. Sequential histories: one call at a
    time over any number of rings and handles; the concurrent shared-counter protocol (the same
    for both queues) is Queue/Conc.v, stated in Props/C03.v. *)
From OCV Require Import Base.Prelude Queue.PMap Queue.PWS Queue.PWSOracle Queue.PWSLemmas Queue.PWSProofs.
From OCV Require Queue.OWS Queue.OWSProofs.
From Coq Require Import Permutation.
Open Scope Z_scope.

(** C03, plain queue: for every well-formed history (handles exist, item ids distinct) a pop only
    returns a pending item and never twice, an idle local pop means nothing is pending anywhere (so
    draining returns exactly what was pending), the shared length and [is_empty] are exact *)
Theorem PWS_C03_holds : forall n cap ops,
  wf_hist n cap ops = true -> o_c03 (model_judge n cap ops) = true.
Proof. exact c03_model. Qed.

(** the premise cannot be dropped: a push to a handle that does not exist is refused by the code
    but counted by the history-level oracle *)
Theorem PWS_C03_wf_needed : ~ (forall n cap ops, o_c03 (model_judge n cap ops) = true).
Proof. exact c03_model_wf_needed. Qed.

(** C03 on states, every history (well-formed or not): what was accepted is what was popped plus
    what is still held; with distinct ids nothing is popped twice *)
Theorem PWS_C03_conservation : forall n cap ops,
  Permutation (pushed_all (init n cap) ops)
              (popped_all (init n cap) ops ++ all_items (final (init n cap) ops)).
Proof. exact conservation. Qed.

Theorem PWS_C03_at_most_once : forall n cap ops,
  NoDup (pushed_all (init n cap) ops) ->
  NoDup (popped_all (init n cap) ops ++ all_items (final (init n cap) ops)).
Proof. exact at_most_once. Qed.

Theorem PWS_C03_shared_len_exact : forall n cap s,
  reachable n cap s -> s_shlen s = Z.of_nat (length (s_shq s)).
Proof. exact shared_len_exact. Qed.

(** C04, plain queue: no call of the model ever exhausts its fuel, from ANY state (not only
    reachable ones, in particular after siblings have stolen) *)
Theorem PWS_C04_step_terminates : forall s o, snd (step s o) <> ODiverged.
Proof. exact step_never_diverges. Qed.

Theorem PWS_C04_terminates : forall s ops, ~ In ODiverged (run s ops).
Proof. exact run_never_diverges. Qed.

Theorem PWS_C04_holds : forall n cap ops, o_c04 (model_judge n cap ops) = true.
Proof. exact c04_model. Qed.

(** the lockstep tracker never loses the model's own run (shape and sync) *)
Theorem PWS_model_sync : forall n cap ops,
  o_sync (model_judge n cap ops) = true /\ snd (judge_all n cap ops (run (init n cap) ops)) = true.
Proof. exact model_sync. Qed.

(** C06, plain queue: for every well-formed history, while the shared queue is non-empty a handle
    is served from it within 61 consecutive pops, and an idle pop means nothing is pending anywhere *)
Theorem PWS_C06_holds : forall n cap ops,
  wf_hist n cap ops = true -> o_c06 (model_judge n cap ops) = true.
Proof. exact c06_model. Qed.

Theorem PWS_C06_wf_needed : ~ (forall n cap ops, o_c06 (model_judge n cap ops) = true).
Proof. exact c06_model_wf_needed. Qed.

(** C06 on states: an idle local pop on a reachable state means every container is empty; a pop
    whose tick is a multiple of 61 returns the head of a non-empty shared queue whatever the
    handle's own ring holds; and (the tick arithmetic, shared with the ordered queue, for every
    32-bit start value including the wrap) among any 61 consecutive pops one has such a tick *)
Theorem PWS_C06_idle_pop_means_empty : forall n cap s h start,
  reachable n cap s -> snd (lpop s h start) = OItem None -> all_items s = [].
Proof. exact idle_pop_means_empty. Qed.

Theorem PWS_C06_tick_pop_serves_shared : forall n cap s h start hd x q,
  reachable n cap s -> nth_error (s_handles s) h = Some hd -> s_shq s = x :: q ->
  fst (OWS.tick (h_tick hd)) mod 61 = 0 -> snd (lpop s h start) = OItem (Some x).
Proof. exact tick_pop_serves_shared. Qed.

Theorem PWS_C06_tick_window : forall t0, 0 <= t0 <= U32MAX ->
  exists j, (1 <= j <= 61)%nat /\ (snd (OWSProofs.tick_iter t0 j)) mod 61 = 0.
Proof. exact OWSProofs.tick_window. Qed.

(** everything at once *)
Theorem PWS_all : forall n cap ops,
  wf_hist n cap ops = true ->
  let st := model_judge n cap ops in
  o_sync st = true /\ o_c03 st = true /\ o_c04 st = true /\ o_c06 st = true.
Proof. exact model_all. Qed.

(** non-vacuity: capacity 4, two rings. Handle 0 fills its ring, the fifth push overflows (half of
    the ring, then the new item, go to the shared queue), handle 1 steals twice (one item each:
    half of what the victim holds), then both drain the shared queue; idle pops and exact lengths
    at the end. The history is well formed and the oracle accepts the model's run. *)
Example PWS_nonvacuous :
  let h := [NewHandle; NewHandle; LPush 0 1; LPush 0 2; LPush 0 3; LPush 0 4; LFull 0; LPush 0 5; GLen; LLen 0;
            LPop 1 0%nat; LPop 1 0%nat; LPop 1 1%nat; LPop 0 0%nat; LPop 0 0%nat; LPop 0 0%nat; GPop; GLen; GEmpty] in
  wf_hist 2 4 h = true
  /\ run (init 2 4) h
     = [ONum 0; ONum 1; OUnit; OUnit; OUnit; OUnit; OBool true; OUnit; ONum 3; ONum 2; OItem (Some 3);
        OItem (Some 4); OItem (Some 1); OItem (Some 2); OItem (Some 5); OItem None; OItem None; ONum 0; OBool true]
  /\ o_c03 (model_judge 2 4 h) = true /\ o_c06 (model_judge 2 4 h) = true.
Proof. cbv zeta. repeat split; vm_compute; reflexivity. Qed.

Print Assumptions PWS_C03_holds.
Print Assumptions PWS_C03_wf_needed.
Print Assumptions PWS_C03_conservation.
Print Assumptions PWS_C03_at_most_once.
Print Assumptions PWS_C03_shared_len_exact.
Print Assumptions PWS_C04_step_terminates.
Print Assumptions PWS_C04_terminates.
Print Assumptions PWS_C04_holds.
Print Assumptions PWS_model_sync.
Print Assumptions PWS_C06_holds.
Print Assumptions PWS_C06_wf_needed.
Print Assumptions PWS_C06_idle_pop_means_empty.
Print Assumptions PWS_C06_tick_pop_serves_shared.
Print Assumptions PWS_C06_tick_window.
Print Assumptions PWS_all.
