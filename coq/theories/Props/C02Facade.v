(** C02 at the user-facing layer: `open_coroutine::JoinHandle<R>::{join, timeout_join,
    any_timeout_join, any_join}` (open-coroutine/src/lib.rs) over the C ABI of the cdylib
    (hook/src/lib.rs `task_crate`, `task_join`, `task_timeout_join`) over the core join handle
    ([Sched/JoinHandle.v]). Statements only; the model is [Sched/Facade.v], the oracle
    [Sched/FacadeOracle.v], the proofs [Sched/FacadeProofs.v]. [FNow] is the code as it is in the
    repository (after the `fix:` commits named in known_findings.jsonl), [FOld] the code before. *)
From Coq Require Import String.
From OCV Require Import Base.Prelude Misc.Time Sched.Pool Sched.JoinHandle.
From OCV Require Import Sched.Facade Sched.FacadeOracle Sched.FacadeProofs.
Open Scope Z_scope.

(** * One handle *)

(** for every outcome of the task (any returned value; a panic with a literal message, with a
    formatted message, with a payload that is no string), every call ([join], [timeout_join] with
    any duration, zero and [Duration::MAX] included) and every clock: if the task has finished by
    the call's deadline, the call returns exactly the task's own value, or its panic message as the
    error *)
Theorem C02_facade_finished_returns_own : forall o ptr c now fin dl,
  ptr_ok ptr = true -> call_deadline FNow now c = Some dl ->
  finished_by_deadline (mkj dl now fin) = true ->
  fst (facade_step FNow true ptr o fs0 c now fin) = own_outcome o.
Proof. exact facade_finished_returns_own. Qed.

(** a task that finished before the call is never turned into a failure by the duration *)
Theorem C02_facade_expired_deadline_still_returns : forall o ptr c now f,
  ptr_ok ptr = true -> f <= now ->
  fst (facade_step FNow true ptr o fs0 c now (Some f)) = own_outcome o.
Proof. exact facade_expired_deadline_still_returns. Qed.

(** "join failed" / "timeout join failed" only if the task had not finished by the deadline *)
Theorem C02_facade_timeout_only_if_unfinished : forall o ptr c now fin dl,
  ptr_ok ptr = true -> call_deadline FNow now c = Some dl ->
  fst (facade_step FNow true ptr o fs0 c now fin) = FFailed ->
  finished_by_deadline (mkj dl now fin) = false.
Proof. exact facade_timeout_only_if_unfinished. Qed.

(** every call of every sequence of calls on the handle returns either that failure or the task's
    own outcome: no [Ok(None)], no abort in the cdylib, no panic of the facade function, no
    [Box::from_raw] of an address that [task_main] did not write or that was freed already *)
Theorem C02_facade_calls_are_safe : forall o ptr cs s,
  ptr_ok ptr = true -> fs_inv s ->
  Forall (fun r => r = FFailed \/ r = own_outcome o) (facade_run FNow true ptr o s cs).
Proof. exact facade_run_safe. Qed.

(** the outcome is handed out (and its box freed) at most once *)
Theorem C02_facade_handed_out_once : forall o ptr cs s,
  ptr_ok ptr = true -> fs_inv s ->
  (List.length (filter is_outcome (facade_run FNow true ptr o s cs)) <= 1)%nat.
Proof. exact facade_handed_out_once. Qed.

(** the oracle used on the observations of the real code accepts every run of the model *)
Theorem C02_facade_oracle_accepts_model : forall o ptr cs,
  ptr_ok ptr = true -> fprop o false (combine cs (facade_run FNow true ptr o fs0 cs)) = true.
Proof. exact facade_oracle_ok. Qed.

(** * What the ABI mapping cannot represent *)

(** an address above [i64::MAX]: [expect("overflow")] inside an [extern "C"] function (abort) *)
Theorem C02_facade_limit_address_overflow_aborts : forall ver o ptr c now fin dl,
  I64MAX < ptr -> call_deadline ver now c = Some dl ->
  finished_by_deadline (mkj dl now fin) = true ->
  fst (facade_step ver true ptr o fs0 c now fin) = FAbort.
Proof. exact facade_ptr_overflow_aborts. Qed.

(** a settled task whose core-level result is an error (cancelled before it ran, loop stopped), a wait
    that timed out and an invalid handle all cross the ABI as [-1] *)
Theorem C02_facade_limit_errors_conflated : forall (m : tmsg) j,
  finished_by_deadline j = true ->
  abi_of (fst (jh_step true (TErr m) false j)) = abi_of JHTimedOut
  /\ abi_of JHTimedOut = abi_of JHInvalid.
Proof. exact facade_error_conflation. Qed.

(** a panic payload that is not a string is reported with a fixed text, exactly as a task that
    panics with that text *)
Theorem C02_facade_limit_payload_not_injective :
  UPanic PayOther <> UPanic (PayStatic no_message)
  /\ own_outcome (UPanic PayOther) = own_outcome (UPanic (PayStatic no_message))
  /\ forall ptr s c now fin,
       facade_step FNow true ptr (UPanic PayOther) s c now fin
       = facade_step FNow true ptr (UPanic (PayStatic no_message)) s c now fin.
Proof. exact facade_payload_not_injective. Qed.

Theorem C02_facade_never_none : forall o ptr cs,
  ptr_ok ptr = true -> ~ In FNone (facade_run FNow true ptr o fs0 cs).
Proof. exact facade_never_none. Qed.

(** * The code before the repairs (each refuted with a witness; elsewhere old and new agree) *)

Theorem C02_facade_refuted_old_string_payload : exists o c now fin dl,
  call_deadline FOld now c = Some dl /\ finished_by_deadline (mkj dl now fin) = true
  /\ fst (facade_step FOld true 4096 o fs0 c now fin) <> own_outcome o.
Proof. exact facade_refuted_old_string_payload. Qed.

Theorem C02_facade_refuted_old_duration_overflow : forall o ptr now f d,
  U64MAX < d -> fst (facade_step FOld true ptr o fs0 (FCTimeout d) now (Some f)) = FPanic.
Proof. exact facade_refuted_old_duration_overflow. Qed.

Theorem C02_facade_old_agrees_elsewhere : forall o ptr s c now fin,
  (forall m, o <> UPanic (PayString m)) -> (forall d, c = FCTimeout d -> d <= U64MAX) ->
  facade_step FOld true ptr o s c now fin = facade_step FNow true ptr o s c now fin.
Proof. exact facade_old_agrees_elsewhere. Qed.

Theorem C02_facade_refuted_old_any_zero_duration : exists now hs,
  (forall h, In h hs -> exists f, ah_fin h = Some f /\ f <= now /\ is_panic (ah_out h) = false)
  /\ any_model FOld now 0 hs = AFailed /\ any_model FNow now 0 hs = AVal "7".
Proof. exact any_refuted_old_zero_duration. Qed.

(** * [any_timeout_join] / [any_join] *)

(** a value returned is the value of one of the handles, whose task finished by the deadline *)
Theorem C02_facade_any_value_is_a_members : forall ver now dur hs v,
  any_model ver now dur hs = AVal v ->
  exists h, In h hs /\ ah_out h = URet v /\ fin_by now (any_deadline now dur) h = true.
Proof. exact any_value_is_a_members. Qed.

(** and it is the earliest finisher among the handles that yield a value *)
Theorem C02_facade_any_returns_earliest : forall now dur hs v,
  any_model FNow now dur hs = AVal v ->
  exists hw, In hw hs /\ ah_out hw = URet v /\
    forall h, In h hs -> is_panic (ah_out h) = false -> fin_by now (any_deadline now dur) h = true ->
              seen_at now hw <= seen_at now h.
Proof. exact any_returns_earliest. Qed.

(** KNOWN FINDING (as the code is): the loop treats the error of a task that PANICKED like a slice
    that timed out and goes on; a single such task, finished before the call: [any_join] never
    returns, [any_timeout_join] reports a time-out after the whole duration; the message is dropped *)
Theorem C02_facade_refuted_any_join_drops_panicked_task : exists now hs,
  any_swallows now 1000000000 hs = true /\ any_swallows now (U64MAX + 1) hs = true
  /\ (forall h, In h hs -> exists f, ah_fin h = Some f /\ f <= now)
  /\ any_model FNow now (U64MAX + 1) hs = ADiverged
  /\ any_model FNow now 1000000000 hs = AFailed
  /\ any_prop (flags_of now (any_deadline now 1000000000) hs) (any_model FNow now 1000000000 hs) = false.
Proof. exact any_refuted_swallows_panic. Qed.

(** outside that branch: if any handle's task finishes by the deadline (before the call included,
    whatever the duration) a value is returned; failure or divergence only if none did; the oracle
    accepts the model's answer *)
Theorem C02_facade_any_holds_outside : forall now dur hs,
  any_swallows now dur hs = false ->
  let dl := any_deadline now dur in
  (forall h, In h hs -> fin_by now dl h = true -> exists v, any_model FNow now dur hs = AVal v)
  /\ ((any_model FNow now dur hs = AFailed \/ any_model FNow now dur hs = ADiverged) ->
      forall h, In h hs -> fin_by now dl h = false)
  /\ any_prop (flags_of now dl hs) (any_model FNow now dur hs) = true.
Proof. exact any_holds_outside. Qed.

(** a handle asked four times: too early with no time, too early with 30 ms, then the unlimited
    [join]-like wait during which the task (which panics with a formatted message) ends, then again *)
Example C02_facade_nonvacuous :
  ptr_ok 4096 = true
  /\ facade_run FNow true 4096 (UPanic (PayString "task 5 failed: code=35")) fs0
       [ {| fc_call := FCTimeout 0; fc_now := 100; fc_fin := None |};
         {| fc_call := FCTimeout 30000000; fc_now := 200; fc_fin := None |};
         {| fc_call := FCTimeout (U64MAX * 1000000000); fc_now := 40000000; fc_fin := Some 400000000 |};
         {| fc_call := FCTimeout 0; fc_now := 500000000; fc_fin := Some 400000000 |} ]
     = [FFailed; FFailed; FErr "task 5 failed: code=35"; FFailed].
Proof. split; vm_compute; reflexivity. Qed.

Print Assumptions C02_facade_finished_returns_own.
Print Assumptions C02_facade_expired_deadline_still_returns.
Print Assumptions C02_facade_timeout_only_if_unfinished.
Print Assumptions C02_facade_calls_are_safe.
Print Assumptions C02_facade_handed_out_once.
Print Assumptions C02_facade_oracle_accepts_model.
Print Assumptions C02_facade_limit_address_overflow_aborts.
Print Assumptions C02_facade_limit_errors_conflated.
Print Assumptions C02_facade_limit_payload_not_injective.
Print Assumptions C02_facade_never_none.
Print Assumptions C02_facade_refuted_old_string_payload.
Print Assumptions C02_facade_refuted_old_duration_overflow.
Print Assumptions C02_facade_old_agrees_elsewhere.
Print Assumptions C02_facade_refuted_old_any_zero_duration.
Print Assumptions C02_facade_any_value_is_a_members.
Print Assumptions C02_facade_any_returns_earliest.
Print Assumptions C02_facade_refuted_any_join_drops_panicked_task.
Print Assumptions C02_facade_any_holds_outside.
