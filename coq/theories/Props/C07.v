(** C07 — Coroutine lifecycle follows the documented state machine. *)
From OCV Require Import Base.Prelude Misc.Time Coroutine.Co Coroutine.CoOracle Coroutine.CoProofs.
Open Scope Z_scope.

(** for every set of bodies and every driver history (resumes, external running()/syscall()
    calls, clock changes), for every number of listeners: the states reported to each listener
    chain from Ready along edges of the documented graph, every change is followed by exactly
    its own specific callback, terminal states absorb, refused calls change nothing *)
Theorem C07_holds : forall clock bodies nl ops,
  wf_co clock bodies ops = true -> j_c07 (model_cojudge clock bodies nl ops) = true.
Proof. exact c07_model. Qed.

Theorem C07_shape : forall clock bodies nl ops, (1 <= nl)%nat -> j_shape (model_cojudge clock bodies nl ops) = true.
Proof. exact co_shape. Qed.

(** every state change the model reports is an edge of the graph, with the due-time condition
    of the two edges out of Suspend evaluated at the clock of the call *)
Theorem C07_change_is_edge : forall t o, let '(t', r, evs) := dstep t o in
  forall l i new old, In (EL l i (CbChanged new) old) evs -> edge_ok (t_clock t) old new = true.
Proof. exact change_is_edge_clock. Qed.

Theorem C07_terminal_absorbing : forall t i arg c, nth_error (t_cos t) i = Some c -> is_terminal (c_st c) = true ->
  let '(t', r, evs) := resume t i arg in t' = t /\ evs = [] /\
  (r = match c_st c with Cancelled => RErr | s => ROk s end).
Proof. exact resume_terminal. Qed.

Example C07_nonvacuous :
  let bodies := [[ISyscall 1 2 SExecuting; ICancel; ILog 1];
                 [IDelay 3 5; ITick (-7); IUntil 4 100; IRunning; ICancel];
                 [ISuspend 9; IPanic (POwned 3)]] in
  let ops := [Resume 0 5; Resume 1 6; Resume 0 6; Resume 0 7; Resume 1 1; SetClock 200; Resume 1 1;
              Resume 1 2; GetState 1; Resume 1 3; Resume 7 7; ExtRunning 0; ExtSyscall 1 2 3 SCallback;
              Resume 2 0; ExtRunning 2; Resume 2 1; Resume 2 2] in
  wf_co 0 bodies ops = true
  /\ model_cojudge 0 bodies 2 ops = {| j_c07 := true; j_c08 := true; j_c09 := true; j_shape := true |}.
Proof. exact wf_co_example. Qed.

Print Assumptions C07_holds.
Print Assumptions C07_shape.
Print Assumptions C07_change_is_edge.
Print Assumptions C07_terminal_absorbing.
