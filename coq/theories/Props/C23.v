(** C23 — Stack growth runs the callback with room to spare and restores bookkeeping.
    Statements only. [exec c p s]: the bookkeeping model of [maybe_grow_with] running the program
    tree [p] (positioned and nested grow calls, panics, catches, probes, deep recursion) in context
    [c] (plain thread / coroutine) from state [s]; [run_C23 c stack p]: the events of a whole run.
    [gd]: what the decision deducts for the guard page ([GUARD], one page, in the code as it is;
    [0] before the repair of finding red_zone_counts_guard_page, [old_run_C23]). *)
From OCV Require Import Base.Prelude Misc.StackGrow Misc.StackGrowOracle Misc.StackGrowProofs.
Open Scope Z_scope.

(** For every program tree and every state: after it returns or unwinds (anything but a memory
    fault), the list the code keeps, the segments in use and the stack pointer are as before. *)
Theorem C23_bookkeeping_restored : forall gd c p s o s' ev,
  exec gd c p s = (o, s', ev) -> o <> OFault ->
  m_rec s' = m_rec s /\ m_grown s' = m_grown s /\ m_sp s' = m_sp s.
Proof. exact bookkeeping_restored. Qed.

(** On well-formed trees: every call grows exactly when the stack really in use lacks the red
    zone of usable bytes (a plain thread that has not grown always grows), the coroutine reports
    exactly the segments in use and the callback runs inside the last one, every callback - moved to
    a fresh segment or run in place - has the red zone (guard page not counted), every call returns
    its callback's value, recursions end with every level having had its room, and the run ends
    without a fault. *)
Theorem C23_holds : forall c stack p,
  wf_C23 c stack p = true -> ok_C23 c (run_C23 c stack p) = true.
Proof. exact holds. Qed.

(** the same without the room clause on the path that does not grow (corollary, kept by name) *)
Theorem C23_bookkeeping_ok : forall c stack p,
  wf_C23 c stack p = true -> ok_weak_C23 c (run_C23 c stack p) = true.
Proof. exact bookkeeping_ok. Qed.

Theorem C23_no_fault : forall c stack p, wf_C23 c stack p = true -> ~ In EFault (run_C23 c stack p).
Proof. exact no_fault. Qed.

Theorem C23_value_returned : forall c stack p b,
  wf_C23 c stack p = true -> In (ERet b) (run_C23 c stack p) -> b = true.
Proof. exact value_returned. Qed.

(** every callback runs inside the last segment the coroutine reports and has the whole red zone
    (guard page not counted), on a fresh segment or in place *)
Theorem C23_room : forall c stack p d en grew len inb r,
  wf_C23 c stack p = true -> In (EGrow d en grew len inb r) (run_C23 c stack p) ->
  inb = true /\ r = true.
Proof. exact room_everywhere. Qed.

(** before the repair of finding red_zone_counts_guard_page (the decision counted the guard page) "at least the red zone
    available" failed by up to one page on the path that does not grow *)
Theorem C23_refuted_before_repair :
  exists c stack p, wf_C23 c stack p = true /\ ok_C23 c (old_run_C23 c stack p) = false.
Proof. exact refuted_before_repair. Qed.

Example C23_nonvacuous :
  let p := PCatch (PGrow 32768 131072 1 (PProbe (PPos 16384 (PGrow 32768 131072 2 (PProbe PPanic) PNil) PNil)) PNil)
             (PProbe (PPos 49152 (PGrow 32768 131072 3 PNil PNil) (PRec 50 4096 32768 131072 (PProbe PNil)))) in
  let w := PPos (32768 + 2048) (PGrow 32768 131072 1 PNil PNil) (PPos (32768 + 4096) (PGrow 32768 131072 2 PNil PNil) PNil) in
  wf_C23 CThread 262144 p = true
  /\ run_C23 CThread 262144 p =
       [EGrow 0 false true (-1) true true; EProbe 1 (-1); EGrow 1 false true (-1) true true; EProbe 2 (-1);
        ECaught; EProbe 0 (-1); EGrow 0 false true (-1) true true; ERet true; ERec true true; EProbe 0 (-1); EEnd]
  /\ run_C23 CCo 262144 p =
       [EGrow 0 true false 1 true true; EProbe 0 1; EGrow 0 false true 2 true true; EProbe 1 2;
        ECaught; EProbe 0 1; EGrow 0 true false 1 true true; ERet true; ERec true true; EProbe 0 1; EEnd]
  /\ ok_C23 CCo (run_C23 CCo 262144 p) = true
  /\ ok_C23 CThread [EGrow 0 false true (-1) true true; ECaught; EGrow 0 false false (-1) true true; ERet true; EEnd] = false
  /\ wf_C23 CCo 131072 w = true
  /\ run_C23 CCo 131072 w = [EGrow 0 false true 2 true true; ERet true; EGrow 0 true false 1 true true; ERet true; EEnd]
  /\ old_run_C23 CCo 131072 w = [EGrow 0 false false 1 true false; ERet true; EGrow 0 true false 1 true true; ERet true; EEnd]
  /\ ok_C23 CCo (old_run_C23 CCo 131072 w) = false.
Proof. repeat split; vm_compute; reflexivity. Qed.

Print Assumptions C23_bookkeeping_restored.
Print Assumptions C23_holds.
Print Assumptions C23_bookkeeping_ok.
Print Assumptions C23_no_fault.
Print Assumptions C23_value_returned.
Print Assumptions C23_room.
Print Assumptions C23_refuted_before_repair.
