(** C02 — Joining a task returns that task's own result once it finishes.
    (positive theorems for one pool are added by Sched/PoolProofs; this file holds what is
    established so far) *)
From OCV Require Import Cases.Pool Sched.Join Sched.JoinProofs Sched.JoinHandle Sched.CoWait.
From OCV Require Import Sched.PoolWf Sched.PoolRun Sched.PoolProofs Sched.PoolInv Sched.PoolExample.
Open Scope Z_scope.

Definition c02_witness : pcase :=
  {| pc_clock := 0; pc_cfgs := [(0, 1, 0); (0, 1, 0)];
     pc_ops := [PSubmit 0 [IReturn 7] None; PPass 1 U64MAX; PWait 0 0]; pc_impl := [] |}.

(** with two pools on the process-wide task queue the property is refuted: the task finishes
    (in pool 1, which stole it) and the wait on the pool it was submitted to still times out *)
Theorem C02_refuted_result_in_stealing_pool :
  exists c, po_c02 (fst (judge_pool (pc_clock c) (pc_cfgs c) (pc_ops c) (model_obs c))) = false
            /\ In defect_result_elsewhere (pw_defects (pfinal (pw0 (pc_clock c) (pc_cfgs c)) (pc_ops c)))
            /\ model_obs c = [OSubmit true;
                              OPass (PLeft U64MAX) [EL 0 0 (CbChanged Running) Ready; EB 0 (BStart 0); EB 0 (BRet 7);
                                                    EL 0 0 (CbChanged (Complete (-1))) Running];
                              OWait WTimeout].
Proof. exists c02_witness. vm_compute. repeat split; auto. Qed.

(** * The wait/notify protocol, every interleaving of waiter, completer and timeout *)

Theorem C02_no_lost_wakeup : forall sched, lost_wakeup (jrun Repaired sched) = false.
Proof. exact no_lost_wakeup. Qed.

(** prompt: once the task has completed a waiter that has not returned can proceed without its timeout *)
Theorem C02_prompt : forall sched, prompt_ok (jrun Repaired sched) = true.
Proof. exact prompt. Qed.

(** a result is handed out only after the task produced it, and only once *)
Theorem C02_own_result_protocol : forall p sched, own_result_ok (jrun p sched) = true.
Proof. exact own_result. Qed.

(** a waiter that was woken (not timed out) always finds the result *)
Theorem C02_woken_means_result : forall sched, timeout_ok (jrun Repaired sched) = true.
Proof. exact woken_means_result. Qed.

(** before the repair: the task completes between the first check and the registration *)
Theorem C02_refuted_old_protocol : exists sched, lost_wakeup (jrun Old sched) = true.
Proof. exact old_protocol_lost_wakeup. Qed.

(** a task that finished before the wait began: no schedule, and no wait time however short (the
    timeout may fire at any step), makes the wait report a timeout *)
Theorem C02_finished_task_never_times_out : forall sched,
  not_timed_out_empty (fold_left (jstep Repaired) sched j_finished) = true.
Proof. exact finished_task_never_times_out. Qed.

(** a timeout is reported only at a moment when the result is not there *)
Theorem C02_timeout_only_without_result : forall s,
  j_w s = W3 -> j_w (jstep Repaired s Timeout) = WDone false true -> j_result s = false.
Proof. exact timeout_only_without_result. Qed.

(** * The join handle (deadline arithmetic on top of the wait) *)
Theorem C02_join_finished_returns_own : forall r j,
  finished_by_deadline j = true -> fst (jh_step true r false j) = JHVal r.
Proof. exact jh_finished_returns_own. Qed.

Theorem C02_join_timeout_only_if_unfinished : forall r j,
  fst (jh_step true r false j) = JHTimedOut -> finished_by_deadline j = false.
Proof. exact jh_timeout_only_if_unfinished. Qed.

Theorem C02_join_expired_deadline_still_returns : forall r now deadline f,
  f <= now -> fst (jh_step true r false {| jj_deadline := deadline; jj_now := now; jj_fin_at := Some f |}) = JHVal r.
Proof. exact jh_expired_deadline_still_returns. Qed.

Theorem C02_join_result_handed_out_once : forall r js consumed,
  (List.length (filter (fun o => match o with JHVal _ => true | _ => false end) (jh_run true r consumed js)) <= 1)%nat.
Proof. exact jh_at_most_once. Qed.

(** * One pool, all well-formed histories: every wait/take returns the task's own outcome (or the
    cancellation error of a task cancelled before it started, or the stop error after a stop), a result
    is handed out once, and a wait reports "no result" only when there is none *)
Theorem C02_single_pool : forall clock cfg ops, wf_pool1 clock cfg ops = true ->
  po_c02 (fst (self_flags clock [cfg] ops)) = true.
Proof. exact c02_model1. Qed.

Example C02_nonvacuous : wf_pool1 0 ex_cfg ex_ops = true.
Proof. exact ex_wf. Qed.

(** * A wait made from inside a task (the caller is a coroutine): it runs queued tasks inline *)
Theorem C02_co_wait_returns_own_result : forall q target r fuel,
  cw_lookup target q = Some r -> (List.length (before target q) <= fuel)%nat ->
  exists s', co_wait fuel target {| cw_queue := q; cw_results := []; cw_ran := [] |} = (CWVal r, s')
             /\ cw_ran s' = before target q.
Proof. exact co_wait_returns_own_result. Qed.

Theorem C02_co_wait_finished_runs_nothing : forall fuel target r s,
  cw_lookup target (cw_results s) = Some r -> co_wait fuel target s = (CWVal r, s).
Proof. exact co_wait_finished_runs_nothing. Qed.

Theorem C02_co_wait_timeout_only_if_absent : forall q target fuel s',
  (List.length q <= fuel)%nat ->
  co_wait fuel target {| cw_queue := q; cw_results := []; cw_ran := [] |} = (CWTimedOut, s') ->
  cw_lookup target q = None.
Proof. exact co_wait_timeout_only_if_absent. Qed.

Print Assumptions C02_refuted_result_in_stealing_pool.
Print Assumptions C02_finished_task_never_times_out.
Print Assumptions C02_timeout_only_without_result.
Print Assumptions C02_join_finished_returns_own.
Print Assumptions C02_join_timeout_only_if_unfinished.
Print Assumptions C02_join_expired_deadline_still_returns.
Print Assumptions C02_join_result_handed_out_once.
Print Assumptions C02_no_lost_wakeup.
Print Assumptions C02_prompt.
Print Assumptions C02_own_result_protocol.
Print Assumptions C02_woken_means_result.
Print Assumptions C02_refuted_old_protocol.
Print Assumptions C02_single_pool.
Print Assumptions C02_co_wait_returns_own_result.
Print Assumptions C02_co_wait_finished_runs_nothing.
Print Assumptions C02_co_wait_timeout_only_if_absent.
