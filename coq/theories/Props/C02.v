(** C02 — Joining a task returns that task's own result once it finishes.
    (positive theorems for one pool are added by Sched/PoolProofs; this file holds what is
    established so far) *)
From OCV Require Import Cases.Pool.
Open Scope Z_scope.

Definition c02_witness : pcase :=
  {| pc_clock := 0; pc_cfgs := [(0, 1, 0); (0, 1, 0)];
     pc_ops := [PSubmit 0 [IReturn 7] None; PPass 1 U64MAX; PWait 0 0]; pc_impl := [] |}.

(** with two pools on the process-wide task queue the property is refuted: the task finishes
    (in pool 1, which stole it) and the wait on the pool it was submitted to still times out *)
Theorem C02_refuted_result_in_stealing_pool :
  exists c, po_c02 (fst (judge_pool (pc_clock c) (pc_cfgs c) (pc_ops c) (model_obs c))) = false
            /\ In defect_result_elsewhere (pw_defects (pfinal (pw0 (pc_clock c) (pc_cfgs c)) (pc_ops c)))
            /\ model_obs c = [OSubmit true;
                              OPass (PLeft U64MAX) [EL 0 0 (CbChanged Running) Ready; EB 0 (BStart 0); EB 0 (BRet 7);
                                                    EL 0 0 (CbChanged (Complete (-1))) Running];
                              OWait WTimeout].
Proof. exists c02_witness. vm_compute. repeat split; auto. Qed.

Print Assumptions C02_refuted_result_in_stealing_pool.
