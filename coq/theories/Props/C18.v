(** C18 — Non-blocking sockets keep non-blocking semantics under the hook. Statements only.
    One recorded finding: [nonblocking_fd_waits] (a would-block on a descriptor the caller made
    non-blocking still waits, up to the socket time limit). [connect_eintr_spins] is repaired (an
    interrupted connect is awaited like EINPROGRESS); the model of the code before the repair is
    [old_run_connect]. *)
From OCV Require Import Base.Prelude Syscall.SockIO Syscall.SockIOOracle Syscall.SockIOMisc Syscall.SockIOMain.
Open Scope Z_scope.

(** full: every hooked call (all ten entry points, every accepted input, every script, timeout,
    wait-failure pattern, both modes) returns and leaves the blocking mode as the caller set it *)
Theorem C18_every_call_returns : forall c, wf_input c = true -> exists o, run_obs c = RObs o.
Proof. exact every_call_returns. Qed.

Theorem C18_mode_restored : forall c o, wf_input c = true -> run_obs c = RObs o -> o_nb_after o = c_nb c.
Proof. exact mode_restored. Qed.

(** the whole oracle (mode restored, a non-blocking caller never waits, no kernel call follows one
    that would have blocked, -1 with that call's errno) outside the finding *)
Theorem C18_holds_outside : forall c, wf_input c = true -> no_defect c = true -> ok_C18 c (run_obs c) = true.
Proof. exact ok_C18_outside. Qed.

(** finding: non-blocking descriptor with SO_RCVTIMEO 300 ms, the kernel keeps answering
    would-block while 2 x 200 ms pass: the hooked recv waits twice and reports EAGAIN only after the
    timeout instead of at once *)
Theorem C18_refuted_nonblocking_fd_waits : exists c,
  wf_input c = true /\ defect_nonblocking_fd_waits c = true
  /\ ok_C18 c (run_obs c) = false.
Proof.
  exists (mkCfg (SBuf Rd) true 300000000 1000 [4]%nat [(200000000, WouldBlock); (200000000, WouldBlock)] []).
  repeat split; vm_compute; reflexivity.
Qed.

(** repaired finding [connect_eintr_spins]: before the repair a hooked connect whose inner call failed
    with EINTR never returned (the harness saw the call outlive its watchdog, the descriptor stayed
    non-blocking) *)
Theorem C18_connect_eintr_refuted_before_repair : forall c, wf_input c = true ->
  connect_interrupted c = true ->
  fst (old_run_connect (c_limit c) (c_script c) (init_st c)) = OStuck.
Proof. exact old_connect_eintr_spins. Qed.

(** now it requests one readiness wait, returns and restores the mode *)
Theorem C18_connect_eintr_returns : forall c, wf_input c = true -> c_shape c = SConnect ->
  connect_interrupted c = true ->
  exists o, run_obs c = RObs o /\ List.length (o_waits o) = 1%nat /\ o_nb_after o = c_nb c.
Proof. exact connect_eintr_returns. Qed.

(** what the oracle demands of a non-blocking caller's observation *)
Theorem C18_oracle_meaning : forall c o, ok_C18 c (RObs o) = true ->
  o_nb_after o = c_nb c /\
  (c_nb c = true ->
   o_waits o = [] /\
   forall q t, o_reqs o = q :: t -> would_block (c_shape c) (q_err q) = true ->
     t = [] /\ (q_moved q = O -> o_ret o = -1 /\ o_errno o = q_err q)).
Proof. intros c o H. split; [exact (C18_mode_of_ok c o H) | exact (C18_nonblocking_of_ok c o H)]. Qed.

Example C18_nonvacuous :
  let c := mkCfg (SBuf Rd) true 300000000 1000 [4]%nat [(0, Interrupted); (0, Moved 2)] [] in
  let c2 := mkCfg SConnect true U64MAX 1000 []%nat [(0, Fail ECONNRESET)] [] in
  let c3 := mkCfg (SBuf Wr) false 300000000 1000 [4]%nat [(200000000, WouldBlock); (200000000, WouldBlock)] [true] in
  let c4 := mkCfg (SBuf Rd) true 300000000 1000 [4]%nat [(0, WouldBlock); (0, Moved 4)] [] in
  let c5 := mkCfg SConnect false U64MAX 1000 []%nat [(0, Interrupted)] [] in
  wf_input c = true /\ no_defect c = true /\ wf_input c2 = true /\ no_defect c2 = true
  /\ wf_input c3 = true /\ no_defect c3 = true /\ wf_input c4 = true /\ no_defect c4 = false
  /\ wf_input c5 = true /\ no_defect c5 = true /\ connect_interrupted c5 = true /\
  run_obs c = RObs (mkObs 2 0 [mkReq 1 true [(0, 0, 4)]%nat EINTR 0; mkReq 1 true [(0, 0, 4)]%nat 0 2]
                          [1; 2; 0; 0] [] true false)
  /\ run_obs c2 = RObs (mkObs (-1) ECONNRESET [mkReq 0 true [] ECONNRESET 0] [] [] true false)
  /\ run_obs c3 = RObs (mkObs 0 0 [mkReq 1 true [(0, 0, 4)]%nat EAGAIN 0] [] [SLICE] false false)
  (* the code as it is: waits, then reads *)
  /\ run_obs c4 = RObs (mkObs 4 0 [mkReq 1 true [(0, 0, 4)]%nat EAGAIN 0; mkReq 1 true [(0, 0, 4)]%nat 0 4]
                           [1; 2; 3; 4] [SLICE] true false)
  /\ ok_C18 c4 (run_obs c4) = false
  (* the interrupted connect: one wait, then what getpeername/SO_ERROR say *)
  /\ run_obs c5 = RObs (mkObs 0 0 [mkReq 0 true [] EINTR 0] [] [SLICE] false false)
  /\ ok_C18 c5 (run_obs c5) = true
  (* what the property asks for instead *)
  /\ ok_C18 c4 (RObs (mkObs (-1) EAGAIN [mkReq 1 true [(0, 0, 4)]%nat EAGAIN 0] [0; 0; 0; 0] [] true false)) = true
  (* a mode that is not restored is rejected *)
  /\ ok_C18 c3 (RObs (mkObs 0 0 [mkReq 1 true [(0, 0, 4)]%nat EAGAIN 0] [] [SLICE] true false)) = false.
Proof. repeat split; vm_compute; reflexivity. Qed.

Print Assumptions C18_mode_restored.
Print Assumptions C18_holds_outside.
Print Assumptions C18_refuted_nonblocking_fd_waits.
Print Assumptions C18_connect_eintr_refuted_before_repair.
Print Assumptions C18_connect_eintr_returns.
Print Assumptions C18_every_call_returns.
Print Assumptions C18_oracle_meaning.
