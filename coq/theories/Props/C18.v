(** C18 — Non-blocking sockets keep non-blocking semantics under the hook. Statements only. *)
From OCV Require Import Base.Prelude Syscall.SockIO Syscall.SockIOOracle Syscall.SockIOMain.
Open Scope Z_scope.

(** all ten entry points (eight byte-moving ones, accept, connect), every input the entry points
    accept except the recorded finding [connect_eintr_spins] *)
Theorem C18_holds_outside : forall c, wf_input c = true -> no_connect_eintr c = true ->
  ok_C18 c (run_obs c) = true.
Proof. intros c H1 H2. apply ok_C18_run. unfold wf. now rewrite H1, H2. Qed.

(** finding: a hooked connect whose inner call fails with EINTR never returns, so the descriptor
    stays in non-blocking mode (the harness sees the call outlive its watchdog) *)
Theorem C18_refuted_connect_eintr_spins : exists c, wf_input c = true /\ ok_C18 c (run_obs c) = false.
Proof. exists (mkCfg SConnect false U64MAX 1000 []%nat [(0, Interrupted)] []). split; vm_compute; reflexivity. Qed.

(** on every exit path the blocking mode is what the caller set *)
Theorem C18_mode_restored : forall c o, ok_C18 c (RObs o) = true -> o_nb_after o = c_nb c.
Proof. exact C18_mode_of_ok. Qed.

(** non-blocking caller: no readiness wait is ever requested; if the first kernel answer is
    "would block" no further call is made and the result is -1 with that errno *)
Theorem C18_no_wait_when_nonblocking : forall c o, ok_C18 c (RObs o) = true -> c_nb c = true ->
  o_waits o = [] /\
  forall q t, o_reqs o = q :: t -> would_block (c_shape c) (q_err q) = true ->
    t = [] /\ (q_moved q = O -> o_ret o = -1 /\ o_errno o = q_err q).
Proof. exact C18_nonblocking_of_ok. Qed.

Example C18_nonvacuous :
  let c := mkCfg (SBuf Rd) true 300000000 1000 [4]%nat [(0, WouldBlock); (0, Moved 4)] [] in
  let c2 := mkCfg SConnect true U64MAX 1000 []%nat [(0, Fail EINPROGRESS)] [] in
  let c3 := mkCfg (SBuf Wr) false 300000000 1000 [4]%nat [(200000000, WouldBlock); (200000000, WouldBlock)] [true] in
  wf c = true /\ wf c2 = true /\ wf c3 = true /\
  run_obs c = RObs (mkObs (-1) EAGAIN [mkReq 1 true [(0, 0, 4)]%nat EAGAIN 0] [0; 0; 0; 0] [] true false)
  /\ run_obs c2 = RObs (mkObs (-1) EINPROGRESS [mkReq 0 true [] EINPROGRESS 0] [] [] true false)
  /\ run_obs c3 = RObs (mkObs 0 0 [mkReq 1 true [(0, 0, 4)]%nat EAGAIN 0] [] [SLICE] false false)
  /\ ok_C18 c (run_obs c) = true
  (* the unrepaired code waited and then read: rejected *)
  /\ ok_C18 c (RObs (mkObs 4 0 [mkReq 1 true [(0, 0, 4)]%nat EAGAIN 0; mkReq 1 true [(0, 0, 4)]%nat 0 4]
                           [1; 2; 3; 4] [SLICE] true false)) = false
  /\ ok_C18 c3 (RObs (mkObs 0 0 [mkReq 1 true [(0, 0, 4)]%nat EAGAIN 0] [] [SLICE] true false)) = false.
Proof. repeat split; vm_compute; reflexivity. Qed.

Print Assumptions C18_holds_outside.
Print Assumptions C18_refuted_connect_eintr_spins.
Print Assumptions C18_mode_restored.
Print Assumptions C18_no_wait_when_nonblocking.
