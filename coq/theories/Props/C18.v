(** C18 — Non-blocking sockets keep non-blocking semantics under the hook. Statements only.
    Two recorded findings: [nonblocking_fd_waits] (a would-block on a descriptor the caller made
    non-blocking still waits, up to the socket time limit) and [connect_eintr_spins]. *)
From OCV Require Import Base.Prelude Syscall.SockIO Syscall.SockIOOracle Syscall.SockIOMain.
Open Scope Z_scope.

(** full: every hooked call that returns (all ten entry points, every accepted input, every
    script, timeout, wait-failure pattern, both modes) leaves the blocking mode as the caller set it *)
Theorem C18_mode_restored : forall c o, wf_input c = true -> run_obs c = RObs o -> o_nb_after o = c_nb c.
Proof. exact mode_restored. Qed.

(** the whole oracle (mode restored, a non-blocking caller never waits, no kernel call follows one
    that would have blocked, -1 with that call's errno) outside the two findings *)
Theorem C18_holds_outside : forall c, wf_input c = true -> no_defect c = true -> ok_C18 c (run_obs c) = true.
Proof. exact ok_C18_outside. Qed.

(** finding: non-blocking descriptor with SO_RCVTIMEO 300 ms, the kernel keeps answering
    would-block while 2 x 200 ms pass: the hooked recv waits twice and reports EAGAIN only after the
    timeout instead of at once *)
Theorem C18_refuted_nonblocking_fd_waits : exists c,
  wf_input c = true /\ no_connect_eintr c = true /\ defect_nonblocking_fd_waits c = true
  /\ ok_C18 c (run_obs c) = false.
Proof.
  exists (mkCfg (SBuf Rd) true 300000000 1000 [4]%nat [(200000000, WouldBlock); (200000000, WouldBlock)] []).
  repeat split; vm_compute; reflexivity.
Qed.

(** finding: a hooked connect whose inner call fails with EINTR never returns, so the descriptor
    stays in non-blocking mode (the harness sees the call outlive its watchdog) *)
Theorem C18_refuted_connect_eintr_spins : exists c, wf_input c = true /\ ok_C18 c (run_obs c) = false.
Proof. exists (mkCfg SConnect false U64MAX 1000 []%nat [(0, Interrupted)] []). split; vm_compute; reflexivity. Qed.

(** what the oracle demands of a non-blocking caller's observation *)
Theorem C18_oracle_meaning : forall c o, ok_C18 c (RObs o) = true ->
  o_nb_after o = c_nb c /\
  (c_nb c = true ->
   o_waits o = [] /\
   forall q t, o_reqs o = q :: t -> would_block (c_shape c) (q_err q) = true ->
     t = [] /\ (q_moved q = O -> o_ret o = -1 /\ o_errno o = q_err q)).
Proof. intros c o H. split; [exact (C18_mode_of_ok c o H) | exact (C18_nonblocking_of_ok c o H)]. Qed.

Example C18_nonvacuous :
  let c := mkCfg (SBuf Rd) true 300000000 1000 [4]%nat [(0, Interrupted); (0, Moved 2)] [] in
  let c2 := mkCfg SConnect true U64MAX 1000 []%nat [(0, Fail ECONNRESET)] [] in
  let c3 := mkCfg (SBuf Wr) false 300000000 1000 [4]%nat [(200000000, WouldBlock); (200000000, WouldBlock)] [true] in
  let c4 := mkCfg (SBuf Rd) true 300000000 1000 [4]%nat [(0, WouldBlock); (0, Moved 4)] [] in
  wf_input c = true /\ no_defect c = true /\ wf_input c2 = true /\ no_defect c2 = true
  /\ wf_input c3 = true /\ no_defect c3 = true /\ wf_input c4 = true /\ no_defect c4 = false /\
  run_obs c = RObs (mkObs 2 0 [mkReq 1 true [(0, 0, 4)]%nat EINTR 0; mkReq 1 true [(0, 0, 4)]%nat 0 2]
                          [1; 2; 0; 0] [] true false)
  /\ run_obs c2 = RObs (mkObs (-1) ECONNRESET [mkReq 0 true [] ECONNRESET 0] [] [] true false)
  /\ run_obs c3 = RObs (mkObs 0 0 [mkReq 1 true [(0, 0, 4)]%nat EAGAIN 0] [] [SLICE] false false)
  (* the code as it is: waits, then reads *)
  /\ run_obs c4 = RObs (mkObs 4 0 [mkReq 1 true [(0, 0, 4)]%nat EAGAIN 0; mkReq 1 true [(0, 0, 4)]%nat 0 4]
                           [1; 2; 3; 4] [SLICE] true false)
  /\ ok_C18 c4 (run_obs c4) = false
  (* what the property asks for instead *)
  /\ ok_C18 c4 (RObs (mkObs (-1) EAGAIN [mkReq 1 true [(0, 0, 4)]%nat EAGAIN 0] [0; 0; 0; 0] [] true false)) = true
  (* a mode that is not restored is rejected *)
  /\ ok_C18 c3 (RObs (mkObs 0 0 [mkReq 1 true [(0, 0, 4)]%nat EAGAIN 0] [] [SLICE] true false)) = false.
Proof. repeat split; vm_compute; reflexivity. Qed.

Print Assumptions C18_mode_restored.
Print Assumptions C18_holds_outside.
Print Assumptions C18_refuted_nonblocking_fd_waits.
Print Assumptions C18_refuted_connect_eintr_spins.
Print Assumptions C18_oracle_meaning.
