(** C11 — Pool worker count is exact and bounded. (what is established so far) *)
From OCV Require Import Cases.Pool.
From OCV Require Import Sched.PoolWf Sched.PoolRun Sched.PoolProofs Sched.PoolInv Sched.PoolTerm Sched.PoolIdleRun Sched.PoolExample Sched.PoolExampleC.
Open Scope Z_scope.

Definition c11_witness : pcase :=
  {| pc_clock := 0; pc_cfgs := [(0, 1, 0); (0, 2, 0)];
     pc_ops := [PSubmit 1 [] None; PPass 1 0; PPass 1 0; PPass 0 U64MAX]; pc_impl := [] |}.

(** two pools: pool 0's pass steals a worker created by pool 1, counts no worker of its own, and
    the idle worker neither exits nor yields: the pass never returns (observation PDiverged) *)
Theorem C11_refuted_stolen_worker_wedges_pool :
  exists c, po_c11 (fst (judge_pool (pc_clock c) (pc_cfgs c) (pc_ops c) (model_obs c))) = false
            /\ In defect_stolen_worker (pw_defects (pfinal (pw0 (pc_clock c) (pc_cfgs c)) (pc_ops c)))
            /\ exists e, last (model_obs c) OUnitP = OPass PDiverged e.
Proof. exists c11_witness. vm_compute. repeat split; auto. eexists; reflexivity. Qed.

(** * One pool, all well-formed histories. [wf_pool1c] = [wf_pool1t] (see Props/C01) and, checked
    along the model run, every stop with a positive timeout is issued while the clock is below
    u64::MAX (at u64::MAX the deadline saturates to "now" and no stop can act). The oracle accepts the
    model's own run: the counter is within [0, max], equals the parked workers after a quiet pass, is 0
    after a successful stop, and a stop with nothing left to do, nobody asleep and time to act in does
    not wait out its timeout. *)
Theorem C11_single_pool : forall clock cfg ops, wf_pool1c clock cfg ops = true ->
  po_c11 (fst (self_flags clock [cfg] ops)) = true.
Proof. exact c11_model1c. Qed.

(** the counter equals the number of live workers and stays within [0, max], after every prefix *)
Theorem C11_count_exact : forall clock cfg ops n, wf_pool1t clock cfg ops = true ->
  let x := pfinal (pw0 clock [cfg]) (firstn n ops) in
  p_running (get_pool x 0) = live_workers x /\ 0 <= p_running (get_pool x 0) <= snd (fst cfg).
Proof. exact count_exact1. Qed.

Example C11_nonvacuous : wf_pool1c 0 ex_cfg ex_ops = true.
Proof. exact ex_wfc. Qed.

Print Assumptions C11_refuted_stolen_worker_wedges_pool.
Print Assumptions C11_single_pool.
Print Assumptions C11_count_exact.
