(** C05 — Higher-priority work is served first, FIFO among equals (ordered queue). *)
From OCV Require Import Base.Prelude Queue.PMap Queue.OWS Queue.OWSOracle Queue.OWSProofs.
Open Scope Z_scope.

(** for every well-formed history: a popped item is the (priority, arrival) minimum of the
    container it came from (shared queue, own rings, or a sibling's rings after a steal), and a
    single worker with no more than [cap] queued pops the stable minimum of everything pending *)
Theorem C05_holds : forall n cap ops,
  0 <= cap -> wf_hist n cap ops = true -> o_c05 (model_judge n cap ops) = true.
Proof. exact c05_model. Qed.

Theorem C05_wf_needed : ~ (forall n cap ops, 0 <= cap -> o_c05 (model_judge n cap ops) = true).
Proof. exact c05_model_original_false. Qed.

(** i64 extremes and ties: served MIN first, then equal priorities in push order, MAX last *)
Example C05_nonvacuous :
  wf_hist 1 8 [NewHandle; LPush 0 I64MAX 1; LPush 0 0 2; LPush 0 I64MIN 3; LPush 0 0 4; LPush 0 (-1) 5;
               LPop 0 0; LPop 0 0; LPop 0 0; LPop 0 0; LPop 0 0; LPop 0 0] = true
  /\ run (init 1 8) [NewHandle; LPush 0 I64MAX 1; LPush 0 0 2; LPush 0 I64MIN 3; LPush 0 0 4; LPush 0 (-1) 5;
               LPop 0 0; LPop 0 0; LPop 0 0; LPop 0 0; LPop 0 0; LPop 0 0]
     = [ONum 0; OUnit; OUnit; OUnit; OUnit; OUnit; OItem (Some 3); OItem (Some 5); OItem (Some 2);
        OItem (Some 4); OItem (Some 1); OItem None].
Proof. split; vm_compute; reflexivity. Qed.

Print Assumptions C05_holds.
Print Assumptions C05_wf_needed.
