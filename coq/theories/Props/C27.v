(** C27 — io_uring completions reach the call that submitted them. Statements only. *)
From OCV Require Import Base.Prelude Net.Uring Net.UringOracle Net.UringProofs.
Open Scope Z_scope.

(** a negative completion becomes -1 with errno = -value, a non-negative one is the return value and
    the call reports what its own buffer holds; in particular the completion value -1 itself (-EPERM)
    is an error completion: -1 with errno EPERM *)
Theorem C27_errno_mapping : forall v buf,
  (v < 0 -> map_result v buf = RErr (- v))
  /\ (0 <= v -> map_result v buf = RRet v (firstn (Z.to_nat v) buf))
  /\ map_result (-1) buf = RErr EPERM.
Proof. exact errno_mapping. Qed.

(** any number of thread and coroutine callers with descriptors of their own and distinct tokens, any
    script (any interleaving of starts, feeds, releases of parked threads, kernel completions in any
    order, time-limit expiries), as long as the recorded defect is not reachable (no coroutine read on
    a socket with a receive time limit): the run ends normally and every call handed back the answer of its own request *)
Theorem C27_holds_outside : forall rs cs script,
  wf_C27 rs cs script = true -> no_defect rs cs = true ->
  ok_C27 rs cs script (run_C27 rs cs script) = true.
Proof. exact holds_outside. Qed.

(** the same, spelled out *)
Theorem C27_own_completion : forall rs cs script,
  wf_C27 rs cs script = true -> no_defect rs cs = true ->
  exists lefts sinks ts,
    o_end (run_C27 rs cs script) = EndOk lefts sinks
    /\ chk_callers rs script O cs (o_calls (run_C27 rs cs script)) = Some ts
    /\ chk_end rs script ts O rs lefts sinks = true.
Proof. exact own_completion. Qed.

(** what "accepted" means for one call: the error of its own request with the matching errno; for a
    read the next bytes of its own descriptor's stream (or end of stream once everything was read, or
    ETIMEDOUT for a coroutine on a socket with a time limit); for a write its own length or EPIPE *)
Theorem C27_call_spec : forall rs co t c x t',
  chk_call rs co t c x = Some t' ->
  let r := c_res c in
  let sp := nth r rs rsdummy in
  match classify (rs_kind sp) (c_op c) with
  | CErr e => x = RErr e
  | CRead =>
      (exists n, x = RRet n (stream r (fst (tr_get t r)) n) /\ 0 <= n <= c_len c
                 /\ (n = 0 -> rs_eof sp = true /\ fst (tr_get t r) = rs_pre sp))
      \/ (x = RErr ETIMEDOUT /\ co = true /\ rs_timed sp = true)
  | CWrite => (rs_eof sp = false /\ x = RRet (c_len c) []) \/ (rs_eof sp = true /\ x = RErr EPIPE)
  end.
Proof. exact chk_call_sound. Qed.

(** known finding: a timed-out call keeps its slot and its request; the coroutine's next call aborts *)
Theorem C27_refuted_timed_out_call_keeps_slot : exists rs cs script,
  wf_C27 rs cs script = true /\ ok_C27 rs cs script (run_C27 rs cs script) = false
  /\ existsb (tag_eqb TTimeout) (tags_C27 rs cs script) = true.
Proof. exact refuted_timed_out. Qed.

(** repaired finding coroutine_bad_fd_aborts: a call on a descriptor number that is not open comes back
    with -1/EBADF whether the caller is a coroutine or a plain thread *)
Theorem C27_bad_fd_any_caller : forall co,
  let cs := [{| cs_co := co; cs_tok := 1000;
                cs_prog := [{| c_op := ORead; c_res := 0%nat; c_len := 3; c_hold := false |}] |}] in
  run_C27 b_rs cs w_script = {| o_calls := [[RErr EBADF]]; o_end := EndOk [0] [[]] |}
  /\ ok_C27 b_rs cs w_script (run_C27 b_rs cs w_script) = true.
Proof. exact bad_fd_ok. Qed.

Example C27_nonvacuous :
  let rs := [{| rs_kind := KPipeR; rs_pre := 5; rs_eof := true; rs_timed := false |};
             {| rs_kind := KSock; rs_pre := 0; rs_eof := false; rs_timed := false |};
             {| rs_kind := KClosed; rs_pre := 0; rs_eof := false; rs_timed := false |};
             {| rs_kind := KPipeW; rs_pre := 0; rs_eof := true; rs_timed := false |};
             {| rs_kind := KSock; rs_pre := 2; rs_eof := false; rs_timed := true |};
             {| rs_kind := KSealed; rs_pre := 0; rs_eof := true; rs_timed := false |};
             {| rs_kind := KSealed; rs_pre := 0; rs_eof := true; rs_timed := false |};
             {| rs_kind := KClosed; rs_pre := 0; rs_eof := false; rs_timed := false |}] in
  let cs := [{| cs_co := true; cs_tok := 1000;
                cs_prog := [{| c_op := ORead; c_res := 0%nat; c_len := 3; c_hold := false |};
                            {| c_op := ORead; c_res := 0%nat; c_len := 8; c_hold := false |};
                            {| c_op := ORead; c_res := 0%nat; c_len := 8; c_hold := false |};
                            {| c_op := ORecv; c_res := 0%nat; c_len := 1; c_hold := false |}] |};
             {| cs_co := false; cs_tok := 1001;
                cs_prog := [{| c_op := ORecv; c_res := 1%nat; c_len := 4; c_hold := true |};
                            {| c_op := ORead; c_res := 2%nat; c_len := 4; c_hold := false |};
                            {| c_op := OSend; c_res := 1%nat; c_len := 2; c_hold := false |}] |};
             {| cs_co := false; cs_tok := 1002;
                cs_prog := [{| c_op := OWrite; c_res := 3%nat; c_len := 4; c_hold := false |};
                            {| c_op := ORecv; c_res := 4%nat; c_len := 2; c_hold := false |};
                            {| c_op := OWrite; c_res := 6%nat; c_len := 5; c_hold := true |}] |};
             {| cs_co := true; cs_tok := 1003;
                cs_prog := [{| c_op := OWrite; c_res := 5%nat; c_len := 4; c_hold := false |};
                            {| c_op := ORead; c_res := 5%nat; c_len := 3; c_hold := false |};
                            {| c_op := OSend; c_res := 5%nat; c_len := 1; c_hold := false |};
                            {| c_op := OWrite; c_res := 7%nat; c_len := 2; c_hold := false |}] |}] in
  let script := [EStart 1%nat; EStart 0%nat; EComplete 0%nat; EFeed 1%nat 4 false; EStart 2%nat; EReg 1%nat;
                 EStart 3%nat; EComplete 1%nat; ETimeout 0%nat; ESleep] in
  wf_C27 rs cs script = true /\ no_defect rs cs = true
  /\ run_C27 rs cs script =
     {| o_calls := [[RRet 3 [2; 9; 16]; RRet 2 [23; 30]; RRet 0 []; RErr ENOTSOCK];
                    [RRet 4 [55; 62; 69; 76]; RErr EBADF; RRet 2 []];
                    [RErr EPIPE; RRet 2 [214; 221]; RErr EPERM];
                    [RErr EPERM; RRet 0 []; RErr ENOTSOCK; RErr EBADF]];
        o_end := EndOk [0; 0; 0; 0; 0; 0; 0; 0] [[]; [55; 62]; []; []; []; []; []; []] |}.
Proof. repeat split; vm_compute; reflexivity. Qed.

Print Assumptions C27_errno_mapping.
Print Assumptions C27_holds_outside.
Print Assumptions C27_own_completion.
Print Assumptions C27_call_spec.
Print Assumptions C27_refuted_timed_out_call_keeps_slot.
Print Assumptions C27_bad_fd_any_caller.
