(** C27 — io_uring completions reach the call that submitted them. Statements only. *)
From OCV Require Import Base.Prelude Net.Uring Net.UringOracle Net.UringProofs.
Open Scope Z_scope.

(** a negative completion becomes -1 with errno = -value, a non-negative one is the return value and
    the call reports what its own buffer holds *)
Theorem C27_errno_mapping : forall v buf,
  (v < 0 -> map_result v buf = RErr (- v))
  /\ (0 <= v -> map_result v buf = RRet v (firstn (Z.to_nat v) buf)).
Proof. exact errno_mapping. Qed.

Print Assumptions C27_errno_mapping.
