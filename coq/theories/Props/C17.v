(** C17 — Hooked vectored I/O only hands the kernel the caller's unfilled buffers. Statements only. *)
From OCV Require Import Base.Prelude Syscall.SockIO Syscall.SockIOOracle Syscall.SockIOMain.
Open Scope Z_scope.

Theorem C17_holds : forall c, wf c = true -> moves_bytes c = true -> ok_C17 c (run_obs c) = true.
Proof. exact ok_C17_run. Qed.

(** what the oracle says, request by request ([filled] = bytes moved by the earlier requests):
    [ranges_ok] and a reported count equal to the length of the array *)
Theorem C17_count : forall c o, ok_C17 c (RObs o) = true -> c17_spec (c_lens c) O (o_reqs o).
Proof. exact C17_spec_of_ok. Qed.

(** ... where [ranges_ok lens filled _ rs] gives, for every range: inside a caller segment, and a
    non-empty range starts at or after the first unfilled byte (and after the ranges before it) *)
Theorem C17_ranges : forall lens rs cur ex, ranges_ok lens cur ex rs = true ->
  Forall (fun r => let '(sg, off, len) := r in
            (sg < List.length lens)%nat /\ (off + len <= nth sg lens O)%nat
            /\ ((0 < len)%nat -> (cur <= stage lens sg + off)%nat)) rs.
Proof. exact ranges_ok_sound. Qed.

(** the first non-empty range of a request starts exactly at the first unfilled byte *)
Theorem C17_first_unfilled : forall lens rs cur, ranges_ok lens cur true rs = true ->
  match filter (fun r => (0 <? snd r)%nat) rs with
  | (sg, off, _) :: _ => (stage lens sg + off)%nat = cur
  | [] => True
  end.
Proof. exact ranges_ok_first. Qed.

(** recvmsg([4,0,4]) moving 5, retry, 3: arrays of 3 then 1 entries, counts 3 and 1 *)
Example C17_nonvacuous :
  let c := mkCfg (SVec Rd FMsg) false U64MAX 1000 [4; 0; 4]%nat
                 [(0, Moved 5); (0, WouldBlock); (0, Moved 9)] [] in
  wf c = true /\ moves_bytes c = true /\
  run_obs c = RObs (mkObs 8 0
     [mkReq 3 true [(0, 0, 4); (1, 0, 0); (2, 0, 4)]%nat 0 5; mkReq 1 true [(2, 1, 3)]%nat EAGAIN 0;
      mkReq 1 true [(2, 1, 3)]%nat 0 3]
     [1; 2; 3; 4; 5; 6; 7; 8] [SLICE] false false)
  /\ ok_C17 c (run_obs c) = true
  (* the double shift and the stale count of the unrepaired code are rejected *)
  /\ ok_C17 c (RObs (mkObs 8 0
     [mkReq 3 true [(0, 0, 4); (1, 0, 0); (2, 0, 4)]%nat 0 5; mkReq 1 true [(2, 1, 3)]%nat EAGAIN 0;
      mkReq 1 true [(2, 2, 2)]%nat 0 2] [] [] false false)) = false
  /\ ok_C17 c (RObs (mkObs 8 0
     [mkReq 3 true [(0, 0, 4); (1, 0, 0); (2, 0, 4)]%nat 0 5; mkReq 3 true [(2, 1, 3)]%nat 0 3]
     [] [] false false)) = false
  /\ ok_C17 c (RObs (mkObs 8 0
     [mkReq 3 true [(0, 0, 4); (1, 0, 0); (2, 0, 4)]%nat 0 5; mkReq 1 true [(2, 0, 4)]%nat 0 3]
     [] [] false false)) = false.
Proof. repeat split; vm_compute; reflexivity. Qed.

Print Assumptions C17_holds.
Print Assumptions C17_count.
Print Assumptions C17_ranges.
Print Assumptions C17_first_unfilled.
