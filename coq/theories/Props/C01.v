(** C01 — Every submitted task runs exactly once. (what is established so far) *)
From OCV Require Import Cases.Pool.
From OCV Require Import Sched.PoolWf Sched.PoolRun Sched.PoolProofs Sched.PoolInv Sched.PoolTerm Sched.PoolExample.
From OCV Require Queue.RingRace.
Open Scope Z_scope.

Definition c01_witness : pcase :=
  {| pc_clock := 0; pc_cfgs := [(0, 1, 0); (0, 2, 0)];
     pc_ops := [PSubmit 1 [] None; PPass 1 0; PPass 1 0; PPass 0 U64MAX]; pc_impl := [] |}.

(** two pools: pool 0's pass steals a worker created by pool 1, counts no worker of its own, and
    the idle worker neither exits nor yields: the pass never returns (observation PDiverged) *)
Theorem C01_refuted_stolen_worker_wedges_pool :
  exists c, po_c01 (fst (judge_pool (pc_clock c) (pc_cfgs c) (pc_ops c) (model_obs c))) = false
            /\ In defect_stolen_worker (pw_defects (pfinal (pw0 (pc_clock c) (pc_cfgs c)) (pc_ops c)))
            /\ exists e, last (model_obs c) OUnitP = OPass PDiverged e.
Proof. exists c01_witness. vm_compute. repeat split; auto. eexists; reflexivity. Qed.

(** * One pool: every well-formed history (any length, any task bodies, cancels, cleans, waits, stops,
    clock steps), the oracle applied to the model's own run. [wf_pool1t] = [wf_pool1] (min = 0, ANY
    keep-alive time, max >= 1, 0 <= clock, operations on pool 0, task ids submitted, acceptable bodies,
    clock monotone) and, when a keep-alive is configured, a clock that stays below u64::MAX (an idle
    worker waits its keep-alive out in 1 ms naps; at the end of time it would nap for ever). *)
Theorem C01_single_pool : forall clock cfg ops, wf_pool1t clock cfg ops = true ->
  po_c01 (fst (self_flags clock [cfg] ops)) = true.
Proof. exact c01_model1. Qed.

(** no pass and no stop of such a history diverges (the model's fuel is never exhausted: worker
    loop, scheduling pass and stop loop all terminate) *)
Theorem C01_no_call_diverges : forall clock cfg ops, wf_pool1t clock cfg ops = true ->
  nodiv (pw0 clock [cfg]) ops = true.
Proof. exact nodiv_model1. Qed.

(** a stored result is the task's own outcome, or the cancellation / stop error, after every prefix *)
Theorem C01_result_is_own : forall clock cfg ops n, wf_pool1t clock cfg ops = true ->
  let x := pfinal (pw0 clock [cfg]) (firstn n ops) in
  forall i r, In (i, r) (p_results (get_pool x 0)) ->
    r = body_outcome (nth i (pw_tbody x) []) \/ r = TErr TMCancelled \/ (r = TErr TMStopped /\ p_state (get_pool x 0) = PStopped).
Proof. exact result_own1. Qed.

(** with one pool neither of the two-pool defects can arise, for any history whatsoever *)
Theorem C01_single_pool_no_defect : forall clock cfg ops,
  ~ In defect_stolen_worker (pw_defects (pfinal (pw0 clock [cfg]) ops)) /\
  ~ In defect_result_elsewhere (pw_defects (pfinal (pw0 clock [cfg]) ops)).
Proof. exact single_pool_no_defect. Qed.

(** the premises are satisfiable: a 33-operation history with every kind of operation *)
Example C01_nonvacuous : wf_pool1t 0 ex_cfg ex_ops = true.
Proof. vm_compute. reflexivity. Qed.

(** * "From any number of threads": the producer side of a pool's local ring
    ([st3::fifo::Worker::push]: load tail, write slot, publish tail+1), which [submit_task] reaches from
    every submitting thread. For ANY number of producers and ANY schedule in which a push only starts
    while no other push is in progress (one producer, or a lock) the consumer sees exactly the
    completed pushes, in order *)
Theorem C01_ring_exclusive_pushes_are_kept : forall progs sched,
  RingRace.exclusive (RingRace.ring0 progs) sched = true ->
  RingRace.visible (RingRace.rrun (RingRace.ring0 progs) sched)
  = map Some (RingRace.r_done (RingRace.rrun (RingRace.ring0 progs) sched)).
Proof. exact RingRace.exclusive_pushes_are_kept. Qed.

Theorem C01_ring_single_producer : forall prog sched,
  RingRace.visible (RingRace.rrun (RingRace.ring0 [prog]) sched)
  = map Some (RingRace.r_done (RingRace.rrun (RingRace.ring0 [prog]) sched)).
Proof. exact RingRace.single_producer_keeps_everything. Qed.

(** two submitting threads: both load the same tail, both write slot 0, both publish tail 1: two
    pushes completed, one task visible. Reproduced on the real pool (recorded finding
    [ring_multi_producer]) *)
Theorem C01_refuted_ring_multi_producer :
  exists sched, let s := RingRace.rrun (RingRace.ring0 [[7]; [8]]) sched in
    RingRace.r_done s = [7; 8] /\ RingRace.visible s = [Some 8]
    /\ RingRace.exclusive (RingRace.ring0 [[7]; [8]]) sched = false.
Proof. exact RingRace.two_producers_lose_an_item. Qed.

Print Assumptions C01_refuted_stolen_worker_wedges_pool.
Print Assumptions C01_single_pool.
Print Assumptions C01_no_call_diverges.
Print Assumptions C01_result_is_own.
Print Assumptions C01_single_pool_no_defect.
Print Assumptions C01_ring_exclusive_pushes_are_kept.
Print Assumptions C01_ring_single_producer.
Print Assumptions C01_refuted_ring_multi_producer.
