(** C01 — Every submitted task runs exactly once. (what is established so far) *)
From OCV Require Import Cases.Pool.
Open Scope Z_scope.

Definition c01_witness : pcase :=
  {| pc_clock := 0; pc_cfgs := [(0, 1, 0); (0, 2, 0)];
     pc_ops := [PSubmit 1 [] None; PPass 1 0; PPass 1 0; PPass 0 U64MAX]; pc_impl := [] |}.

(** two pools: pool 0's pass steals a worker created by pool 1, counts no worker of its own, and
    the idle worker neither exits nor yields: the pass never returns (observation PDiverged) *)
Theorem C01_refuted_stolen_worker_wedges_pool :
  exists c, po_c01 (fst (judge_pool (pc_clock c) (pc_cfgs c) (pc_ops c) (model_obs c))) = false
            /\ In defect_stolen_worker (pw_defects (pfinal (pw0 (pc_clock c) (pc_cfgs c)) (pc_ops c)))
            /\ exists e, last (model_obs c) OUnitP = OPass PDiverged e.
Proof. exists c01_witness. vm_compute. repeat split; auto. eexists; reflexivity. Qed.

Print Assumptions C01_refuted_stolen_worker_wedges_pool.
