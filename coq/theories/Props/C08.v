(** C08 — Values and panics cross the coroutine boundary faithfully. *)
From OCV Require Import Base.Prelude Misc.Time Coroutine.Co Coroutine.CoOracle Coroutine.CoProofs.
Open Scope Z_scope.

(** for all bodies and histories: the argument of a resume is what the body sees first (at start
    or as the value of its pending suspend), the value a yield made in state Running carries is
    the value that resume reports, a return in state Running is reported as Complete with that
    value, a panic as Error with the panic's message (static or formatted), nothing unwinds *)
Theorem C08_holds : forall clock bodies nl ops,
  wf_co clock bodies ops = true -> j_c08 (model_cojudge clock bodies nl ops) = true.
Proof. exact c08_model. Qed.

(** the message the model attaches to a panic is the panic's own message for both payload kinds *)
Theorem C08_message : forall k, panic_msg (PStatic k) = MStr k /\ panic_msg (POwned k) = MStr k.
Proof. intro k; split; reflexivity. Qed.

Example C08_nonvacuous :
  drun (mk_thr 0 [[ISuspend 7; IPanic (POwned 3)]] 1) [Resume 0 11; Resume 0 12; Resume 0 13]
  = [(ROk (Suspend 7 0), [EL 0 0 (CbChanged Running) Ready; EL 0 0 CbRunning Ready; EB 0 (BStart 11);
                          EB 0 (BYield 7 RNone); EL 0 0 (CbChanged (Suspend 7 0)) Running; EL 0 0 CbSuspend Running]);
     (ROk (Error (MStr 3)), [EL 0 0 (CbChanged Running) (Suspend 7 0); EL 0 0 CbRunning (Suspend 7 0);
                             EB 0 (BGot 12); EB 0 (BPanic (POwned 3));
                             EL 0 0 (CbChanged (Error (MStr 3))) Running; EL 0 0 (CbError (MStr 3)) Running]);
     (ROk (Error (MStr 3)), [])].
Proof. vm_compute. reflexivity. Qed.

Print Assumptions C08_holds.
Print Assumptions C08_message.
