(** C24 — A memory fault in a coroutine only fails that coroutine. Statements only. *)
From OCV Require Import Base.Prelude Misc.Trap Misc.TrapOracle Misc.TrapProofs.
Open Scope Z_scope.

(** For all pointers and all segment lists: the message is "stack overflow" exactly when the
    stack pointer lies in no reported segment [bottom, top), "invalid memory reference" exactly
    when some segment contains it. *)
Theorem C24_classification : forall segs sp,
  (classify segs sp = EOverflow <-> forall g, In g segs -> ~ (t_bot g <= sp < t_top g))
  /\ (classify segs sp = EInvalid <-> exists g, In g segs /\ t_bot g <= sp < t_top g).
Proof. exact classification. Qed.

(** Any number of coroutines with any bodies (steps, suspends, grown segments, a fault of any kind
    anywhere, return or panic) on the round-robin scheduler: exactly one result per coroutine, each
    the one its own program determines; every coroutine makes exactly its own visible steps; the
    coroutine scheduled afterwards on the same scheduler completes; nothing diverges. *)
Theorem C24_isolation : forall progs, wf_C24 progs = true -> ok_C24 progs (run_C24 progs) = true.
Proof. exact isolation. Qed.

Theorem C24_own_outcome : forall progs j p,
  wf_C24 progs = true -> nth_error progs j = Some p ->
  res_of j (run_C24 progs) = [Some (fst (expected (p_body p) (p_fin p) 0))]
  /\ logs_of j (run_C24 progs) = count_up 0 (Z.to_nat (snd (expected (p_body p) (p_fin p) 0))).
Proof. exact own_outcome. Qed.

Theorem C24_no_divergence : forall progs, wf_C24 progs = true -> ~ In ODiverged (run_C24 progs).
Proof. exact no_divergence. Qed.

Example C24_nonvacuous :
  let progs := [ {| p_body := [ILog; ISuspend; ILog]; p_fin := TReturn 5 |};
                 {| p_body := [ILog; ISuspend; IGrow; IFault FOverflow; ILog]; p_fin := TReturn 6 |};
                 {| p_body := [IFault (FSpOut 4096)]; p_fin := TReturn 7 |};
                 {| p_body := [ISuspend; ILog]; p_fin := TPanic |} ] in
  wf_C24 progs = true
  /\ run_C24 progs = [OLog 0 0; OLog 1 0; OLog 0 1; OLog 3 0;
                      ORes 0 (Some (ROk 5)); ORes 1 (Some (RErr EInvalid)); ORes 2 (Some (RErr EOverflow));
                      ORes 3 (Some (RErr EPanic)); OLog 4 0; ORes 4 (Some (ROk 99)); OAlive]
  /\ ok_C24 progs (run_C24 progs) = true
  /\ ok_C24 progs [OLog 0 0; OLog 1 0; OLog 0 1; ORes 0 (Some (ROk 5)); ORes 1 (Some (RErr EInvalid));
                   ORes 2 (Some (RErr EOverflow)); ORes 3 None; OLog 4 0; ORes 4 (Some (ROk 99)); OAlive] = false
  /\ classify [{| t_bot := 100; t_top := 200 |}; {| t_bot := 50; t_top := 100 |}] 99 = EInvalid
  /\ classify [{| t_bot := 100; t_top := 200 |}; {| t_bot := 50; t_top := 100 |}] 200 = EOverflow.
Proof. repeat split; vm_compute; reflexivity. Qed.

Print Assumptions C24_classification.
Print Assumptions C24_isolation.
Print Assumptions C24_own_outcome.
Print Assumptions C24_no_divergence.
