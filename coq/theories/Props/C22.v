(** C22 — Preemption interrupts long-running coroutines, never syscalls. (provisional) *)
From OCV Require Import Cases.C22.
Open Scope Z_scope.

(** with the two-step (unsynchronised) set operations two scheduler threads lose an insert: the
    coroutine of thread 0 is Running and no node of thread 0 is in the set *)
Theorem C22_refuted_concurrent_submit :
  exists progs sched,
    let s := mrun (minit false 0 2 progs) sched in
    m_defect s = true /\ has_node s 0 = false
    /\ t_cur (get_thr s 0) = Some 0%nat /\ c_st (get_co s 0) = CRunning.
Proof. exists race_progs, race_sched. vm_compute. repeat split. Qed.
Print Assumptions C22_refuted_concurrent_submit.
