(** C22 — Preemption interrupts long-running coroutines, never syscalls.

    Model: [Misc.Monitor] — scheduler threads resuming their coroutines, the listener protocol of
    core/src/monitor.rs (node submitted on Running, removed on any other state), the monitor
    thread's scan, the SIGURG handler with its state guard; set operations either atomic or
    two-step (the real [notify_queue] is an unsynchronised HashSet). Statements are about every
    schedule of thread steps, clock ticks, scans and signal deliveries, any number of threads and
    coroutines, any bodies. *)
From OCV Require Import Cases.C22 Misc.MonitorInv Misc.MonitorProofs Misc.MonitorTrace.
Open Scope Z_scope.

(** the trace oracle (the one evaluated on the traces of the real scheduler) holds on every run of
    the model with synchronised set operations — any schedule of steps, ticks, scans and signal
    deliveries, any number of threads, any bodies whose system-call sections are well formed: the
    listener saw consistent states, a node of the thread is in the set iff the new state is
    Running, nothing is suspended in a system-call state, every result is the body's own *)
Theorem C22_holds : forall clock nthr progs sched,
  wfp nthr progs = true -> wf_bodies progs = true ->
  ok_events (bodies progs) (strip (m_log (mrun (minit true clock nthr progs) sched))) = true.
Proof. exact trace_ok. Qed.

(** with synchronised set operations a thread has a node in the monitor's set exactly while its
    current coroutine is Running *)
Theorem C22_node_iff_running : forall clock nthr progs sched t,
  wfp nthr progs = true -> (t < nthr)%nat ->
  let s := mrun (minit true clock nthr progs) sched in
  has_node s t = true <-> running_on s t.
Proof. exact node_iff_running. Qed.

(** a coroutine that stayed Running for the whole slice is signalled by the next scan; the signal
    suspends it and queues it behind every ready sibling of its thread, so those run first *)
Theorem C22_overdue_signalled : forall clock nthr progs sched t c d,
  wfp nthr progs = true -> (t < nthr)%nat ->
  let s := mrun (minit true clock nthr progs) sched in
  t_cur (get_thr s t) = Some c -> c_st (get_co s c) = CRunning -> SLICE <= d ->
  let s' := mrun s [ATick d; AScan; ASig t] in
  c_st (get_co s' c) = CSuspend /\ t_cur (get_thr s' t) = None /\ t_ready (get_thr s' t) = t_ready (get_thr s t) ++ [c].
Proof. exact overdue_signalled. Qed.

(** whatever the schedule and the granularity: every suspension starts from Running, whatever the
    signal handler changes was Running, a coroutine in a system-call state is never suspended *)
Theorem C22_syscall_never_suspended : forall atomic clock nthr progs sched c old new p f,
  wfp nthr progs = true ->
  In (MChange c old new p f) (m_log (mrun (minit atomic clock nthr progs) sched)) ->
  (new = CSuspend -> old = CRunning) /\ (p = true -> old = CRunning /\ new = CSuspend) /\ (old = CSyscall -> new <> CSuspend).
Proof. exact syscall_never_suspended. Qed.

(** a coroutine's result is its body's own whatever signals were delivered, and when *)
Theorem C22_results_unchanged : forall atomic clock nthr progs sched c r,
  wfp nthr progs = true -> (c < length progs)%nat ->
  c_st (get_co (mrun (minit atomic clock nthr progs) sched) c) = CDone r -> r = works (snd (prog_of progs c)).
Proof. exact results_unchanged. Qed.

(** the code as it is: with the two-step (unsynchronised) set operations two scheduler threads
    that make a coroutine Running at the same time lose an insert — the coroutine of thread 0 is
    Running, no node of thread 0 is in the set, it will never be preempted *)
Theorem C22_refuted_concurrent_submit :
  exists progs sched,
    wfp 2 progs = true /\
    let s := mrun (minit false 0 2 progs) sched in
    m_defect s = true /\ has_node s 0 = false
    /\ t_cur (get_thr s 0) = Some 0%nat /\ c_st (get_co s 0) = CRunning.
Proof. exists race_progs, race_sched. vm_compute. repeat split. Qed.

(** one scheduler thread is enough for a race: the monitor thread scans the set while the
    listener's insert is in flight (reader against writer) *)
Theorem C22_refuted_scan_during_update :
  exists progs sched,
    wfp 1 progs = true /\ m_defect (mrun (minit false 0 1 progs) sched) = true.
Proof. exists scan_race_progs, scan_race_sched. vm_compute. split; reflexivity. Qed.

(** ... and what still holds around that finding: at every quiescent moment of a run in which no
    write-back overwrote a concurrent operation, the node set is exact *)
Theorem C22_holds_outside : forall clock nthr progs sched t,
  wfp nthr progs = true -> (t < nthr)%nat ->
  let s := mrun (minit false clock nthr progs) sched in
  m_defect s = false -> (forall t', (t' < nthr)%nat -> t_mid (get_thr s t') = None) ->
  has_node s t = true <-> running_on s t.
Proof. exact node_iff_running_outside. Qed.

(** non-vacuity: a busy body preempted twice while its sibling runs in between, a body that spends
    its time in a system-call state (signalled, not suspended), the results unchanged; the
    lockstep replay accepts the trace and the oracle accepts it; the oracle rejects a suspension
    inside a system-call state, a missing node and a changed result *)
Definition nv_progs : list (list instr) := [[IWork 5; IWork 0; IWork 7]; [ISysEnter; IWork 3; ISysExit; IWork 1]].
Definition nv_sched : list act :=
  [AStep 0; AStep 0; ATick SLICE; AScan; ASig 0;            (* coroutine 0 runs, is overdue, is preempted *)
   AStep 0; AStep 0; ATick SLICE; AScan; ASig 0;            (* coroutine 1 enters its syscall: signalled, not suspended *)
   AStep 0; AStep 0; AStep 0; AStep 0;                      (* ... and completes *)
   AStep 0; AStep 0; ATick SLICE; AScan; ASig 0; AStep 0; AStep 0; AStep 0].
Example C22_nonvacuous :
  let s := mrun (minit true 0 1 (progs0 nv_progs)) nv_sched in
  strip (m_log s) =
    [MChange 0 CReady CRunning false true; MWork 0 5; MChange 0 CRunning CSuspend false false;
     MChange 1 CReady CRunning false true; MChange 1 CRunning CSyscall false false; MWork 1 3;
     MChange 1 CSyscall CRunning false true; MWork 1 1; MChange 1 CRunning (CDone 4) false false;
     MChange 0 CSuspend CRunning false true; MWork 0 0; MChange 0 CRunning CSuspend false false;
     MChange 0 CSuspend CRunning false true; MWork 0 7; MChange 0 CRunning (CDone 12) false false]
  /\ corr_c22 nv_progs (strip (m_log s)) = true
  /\ ok_c22 nv_progs (strip (m_log s)) [12; 4] 0 (Some (1%nat, 0%nat)) = true
  /\ o_preempts (orun nv_progs (strip (m_log s))) = 2%nat
  /\ ok_events nv_progs [MChange 0 CReady CRunning false true; MChange 0 CRunning CSyscall false false;
                         MChange 0 CSyscall CSuspend false false] = false
  /\ ok_events nv_progs [MChange 0 CReady CRunning false false] = false
  /\ ok_events nv_progs [MChange 0 CReady CRunning false true; MChange 0 CRunning (CDone 11) false false] = false.
Proof. vm_compute. repeat split. Qed.

Print Assumptions C22_holds.
Print Assumptions C22_node_iff_running.
Print Assumptions C22_overdue_signalled.
Print Assumptions C22_syscall_never_suspended.
Print Assumptions C22_results_unchanged.
Print Assumptions C22_refuted_concurrent_submit.
Print Assumptions C22_refuted_scan_during_update.
Print Assumptions C22_holds_outside.
