(** C03 — Work-steal queues neither lose nor duplicate items (ordered queue).
    Sequential part: every history of pushes and pops over any number of handles. The
    concurrent counter protocol of the shared queue is in Props/C03 via Queue/Conc (below). *)
From OCV Require Import Base.Prelude Queue.PMap Queue.OWS Queue.OWSOracle Queue.OWSProofs.
Open Scope Z_scope.

(** for every well-formed history (handles exist, item ids distinct): a pop only returns a
    pending item and never twice, an idle local pop means nothing is pending anywhere (so
    draining returns exactly what was pending), the shared and the full length are exact *)
Theorem C03_holds : forall n cap ops,
  0 <= cap -> wf_hist n cap ops = true -> o_c03 (model_judge n cap ops) = true.
Proof. exact c03_model. Qed.

(** the premise cannot be dropped: a push to a handle that does not exist is refused by the code
    but counted by the history-level oracle *)
Theorem C03_wf_needed : ~ (forall n cap ops, 0 <= cap -> o_c03 (model_judge n cap ops) = true).
Proof. exact c03_model_original_false. Qed.

Example C03_nonvacuous :
  wf_hist 2 4 [NewHandle; NewHandle; LPush 0 0 1; LPush 0 0 2; LPush 0 0 3; LPush 0 0 4; LPush 0 0 5;
               GPush 1 6; LPop 1 0; LPop 0 0; LPop 0 0; LPop 1 1; LPop 0 0; LPop 1 0; LPop 1 0; GPop; GLen] = true
  /\ run (init 2 4) [NewHandle; NewHandle; LPush 0 0 1; LPush 0 0 2; LPush 0 0 3; LPush 0 0 4; LPush 0 0 5;
               GPush 1 6; LPop 1 0; LPop 0 0; LPop 0 0; LPop 1 1; LPop 0 0; LPop 1 0; LPop 1 0; GPop; GLen]
     = [ONum 0; ONum 1; OUnit; OUnit; OUnit; OUnit; OUnit; OUnit; OItem (Some 3); OItem (Some 4);
        OItem (Some 1); OItem (Some 2); OItem (Some 5); OItem (Some 6); OItem None; OItem None; ONum 0].
Proof. split; vm_compute; reflexivity. Qed.

Print Assumptions C03_holds.
Print Assumptions C03_wf_needed.
