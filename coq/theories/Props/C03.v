(** C03 — Work-steal queues neither lose nor duplicate items (ordered queue).
    Sequential part: every history of pushes and pops over any number of handles. The
    concurrent counter protocol of the shared queue is in Props/C03 via Queue/Conc (below). *)
From Coq Require Import Permutation.
From OCV Require Import Base.Prelude Queue.PMap Queue.OWS Queue.OWSOracle Queue.OWSProofs Queue.Conc Queue.ConcProofs.
Open Scope Z_scope.

(** for every well-formed history (handles exist, item ids distinct): a pop only returns a
    pending item and never twice, an idle local pop means nothing is pending anywhere (so
    draining returns exactly what was pending), the shared and the full length are exact *)
Theorem C03_holds : forall n cap ops,
  0 <= cap -> wf_hist n cap ops = true -> o_c03 (model_judge n cap ops) = true.
Proof. exact c03_model. Qed.

(** the premise cannot be dropped: a push to a handle that does not exist is refused by the code
    but counted by the history-level oracle *)
Theorem C03_wf_needed : ~ (forall n cap ops, 0 <= cap -> o_c03 (model_judge n cap ops) = true).
Proof. exact c03_model_original_false. Qed.

Example C03_nonvacuous :
  wf_hist 2 4 [NewHandle; NewHandle; LPush 0 0 1; LPush 0 0 2; LPush 0 0 3; LPush 0 0 4; LPush 0 0 5;
               GPush 1 6; LPop 1 0; LPop 0 0; LPop 0 0; LPop 1 1; LPop 0 0; LPop 1 0; LPop 1 0; GPop; GLen] = true
  /\ run (init 2 4) [NewHandle; NewHandle; LPush 0 0 1; LPush 0 0 2; LPush 0 0 3; LPush 0 0 4; LPush 0 0 5;
               GPush 1 6; LPop 1 0; LPop 0 0; LPop 0 0; LPop 1 1; LPop 0 0; LPop 1 0; LPop 1 0; GPop; GLen]
     = [ONum 0; ONum 1; OUnit; OUnit; OUnit; OUnit; OUnit; OUnit; OItem (Some 3); OItem (Some 4);
        OItem (Some 1); OItem (Some 2); OItem (Some 5); OItem (Some 6); OItem None; OItem None; ONum 0].
Proof. split; vm_compute; reflexivity. Qed.

(** * Concurrent part: the shared queue of BOTH work-steal queues (the plain queue is the case of
    a single priority), any number of threads, any programs of pushes and pops, ANY schedule, one
    step per access to shared memory *)

(** every reachable state: what was inserted is in the queue, in a popper's hand, or returned *)
Theorem C03_conservation : forall progs sched, let s := crun (mk_cst progs) sched in
  Permutation (c_inserted s) (pm_items (c_shq s) ++ held s ++ returned s).
Proof. exact conc_conservation. Qed.

(** a pop never invents or duplicates an item *)
Theorem C03_pop_at_most_once : forall progs sched x, let s := crun (mk_cst progs) sched in
  (count_occ Z.eq_dec (returned s ++ held s) x <= count_occ Z.eq_dec (c_inserted s) x)%nat.
Proof. exact conc_pop_at_most_once. Qed.

(** the counter never under-reports: it counts the items plus the calls in flight *)
Theorem C03_len_bound : forall progs sched, let s := crun (mk_cst progs) sched in
  c_len s = pm_count (c_shq s) + inflight_push s + inflight_dec s.
Proof. exact conc_len. Qed.

(** once all threads stop the reported length is exact and every pushed item is in the queue or
    was returned exactly once; a drain then returns exactly the rest *)
Theorem C03_quiescent_exact : forall progs sched, let s := crun (mk_cst progs) sched in
  quiescent s = true ->
  c_len s = pm_count (c_shq s) /\ Permutation (pushed_of progs) (pm_items (c_shq s) ++ returned s).
Proof. exact conc_quiescent. Qed.

Theorem C03_outcome_ok : forall progs sched, let s := crun (mk_cst progs) sched in
  quiescent s = true -> outcome_ok (pushed_of progs) (observe s) = true.
Proof. exact conc_outcome_ok. Qed.

(** every outcome the exhaustive enumeration (the one compared with the real code) produces *)
Theorem C03_all_outcomes_ok : forall fuel progs o,
  In o (all_outcomes fuel (mk_cst progs)) -> outcome_ok (pushed_of progs) o = true.
Proof. exact conc_all_outcomes_ok. Qed.

(** the protocol before the repair (push; then load; then store(load+1)) loses updates *)
Theorem C03_old_protocol_refuted : exists progs sched,
  let s := crun_old (mk_ost progs) sched in
  quiescent_old s = true /\ oc_len s <> pm_count (oc_shq s).
Proof. exact old_protocol_loses_updates. Qed.

Print Assumptions C03_holds.
Print Assumptions C03_conservation.
Print Assumptions C03_pop_at_most_once.
Print Assumptions C03_len_bound.
Print Assumptions C03_quiescent_exact.
Print Assumptions C03_outcome_ok.
Print Assumptions C03_all_outcomes_ok.
Print Assumptions C03_old_protocol_refuted.
Print Assumptions C03_wf_needed.
