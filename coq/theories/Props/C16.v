(** C16 — Hooked socket I/O reports exactly the bytes it transferred. Statements only. *)
From OCV Require Import Base.Prelude Syscall.SockIO Syscall.SockIOOracle Syscall.SockIOMain.
Open Scope Z_scope.

(** for every script, shape, timeout, clock, blocking mode and wait-failure pattern the model's
    observation satisfies the oracle *)
Theorem C16_holds : forall c, wf c = true -> moves_bytes c = true -> ok_C16 c (run_obs c) = true.
Proof. exact ok_C16_run. Qed.

(** what the oracle says: the value returned is the number of bytes the kernel moved *)
Theorem C16_total : forall c o, ok_C16 c (RObs o) = true -> o_ret o <> -1 ->
  o_ret o = Z.of_nat (kernel_moved (o_reqs o)) /\ o_scribbled o = false.
Proof. exact C16_total_of_ok. Qed.

(** the bytes moved are the next stream bytes at consecutive caller positions, none twice *)
Theorem C16_in_order_once : forall c o, ok_C16 c (RObs o) = true -> o_ret o <> -1 ->
  placed_in_order c (kernel_moved (o_reqs o)) (o_data o).
Proof. exact C16_in_order_of_ok. Qed.

(** -1 only if nothing moved (and the request was not empty), with the failing call's errno *)
Theorem C16_minus_one_iff_nothing : forall c o, ok_C16 c (RObs o) = true -> o_ret o = -1 ->
  kernel_moved (o_reqs o) = O /\ placed_in_order c O (o_data o) /\ (0 < total (c_lens c))%nat
  /\ last_err (o_reqs o) = Some (o_errno o) /\ o_errno o <> 0.
Proof. exact C16_minus_one_of_ok. Qed.

Theorem C16_zero_len : forall c, wf c = true -> moves_bytes c = true -> total (c_lens c) = O ->
  exists o, run_obs c = RObs o /\ o_ret o = 0.
Proof. exact zero_len_returns_0. Qed.

(** readv([4,4]): 5 bytes, would-block (wait), 2 bytes, then a partial 0 ... : total 7 returned,
    placed in order, the retry passes buf1+1 len 3 *)
Example C16_nonvacuous :
  let c := mkCfg (SVec Rd FIov) false U64MAX 1000 [4; 4]%nat
                 [(0, Moved 5); (0, WouldBlock); (0, Interrupted); (0, Moved 2)] [] in
  wf c = true /\ moves_bytes c = true /\
  run_obs c = RObs (mkObs 7 0
     [mkReq 2 true [(0, 0, 4); (1, 0, 4)]%nat 0 5; mkReq 1 true [(1, 1, 3)]%nat EAGAIN 0;
      mkReq 1 true [(1, 1, 3)]%nat EINTR 0; mkReq 1 true [(1, 1, 3)]%nat 0 2]
     [1; 2; 3; 4; 5; 6; 7; 0] [SLICE] false false)
  /\ ok_C16 c (run_obs c) = true
  /\ ok_C16 c (RObs (mkObs 2 0 [mkReq 2 true [(0, 0, 4); (1, 0, 4)]%nat 0 5; mkReq 1 true [(1, 1, 3)]%nat 0 2]
                           [1; 2; 3; 4; 5; 6; 7; 0] [] false false)) = false.
Proof. repeat split; vm_compute; reflexivity. Qed.

Print Assumptions C16_holds.
Print Assumptions C16_total.
Print Assumptions C16_in_order_once.
Print Assumptions C16_minus_one_iff_nothing.
Print Assumptions C16_zero_len.
