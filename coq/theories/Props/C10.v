(** C10 — Scheduler completes each coroutine once and honours delays and cancels. *)
From OCV Require Import Base.Prelude Misc.Time Queue.PMap Queue.OWS Coroutine.Co Coroutine.CoOracle
     Sched.Sched Sched.SchedOracle Sched.SchedWf Sched.SchedProofs.
Open Scope Z_scope.

(** for every well-formed scheduler history (bodies that keep the coroutine API contract, clocks
    that never go backwards; any number of coroutines, priorities, deadlines, cancels and
    try_resume calls): each finished coroutine's result is in exactly the result map of the pass
    in which it finished, under its id; a coroutine that asked for a wake-up time is never resumed
    before it; a pass that is not cut by its deadline leaves nothing runnable or overdue; a
    coroutine cancelled while unfinished never runs again, and nobody else is affected *)
Theorem C10_holds : forall clock ops, wf_sched clock ops = true -> model_sjudge clock 1 ops = (true, true).
Proof. exact c10_model. Qed.

Theorem C10_holds_any_listeners : forall nl clock ops,
  (1 <= nl)%nat -> wf_gen nl clock ops = true -> model_sjudge clock nl ops = (true, true).
Proof. exact c10_model_gen. Qed.

(** a pass over well-formed input never diverges (the loop bound [pass_fuel] is sufficient) *)
Theorem C10_pass_terminates : forall nl clock ops evs,
  (1 <= nl)%nat -> wf_gen nl clock ops = true -> ~ In (SPass PassDiverged evs) (srun (sched0 clock nl) ops).
Proof. exact pass_never_diverges. Qed.

Example C10_nonvacuous : wf_sched 1000 ex_ops = true /\ model_sjudge 1000 1 ex_ops = (true, true).
Proof. split; [exact ex_wf | exact ex_verdict]. Qed.

Print Assumptions C10_holds.
Print Assumptions C10_holds_any_listeners.
Print Assumptions C10_pass_terminates.
