(** C19 — Socket timeout options are tracked per live socket without crashing. Statements only.
    Both recorded findings are repaired: a negative [tv_sec] (accepted by Linux, stored as a zero
    timeout) and a limit lookup on a closed descriptor number no longer abort. Every statement
    quantifies over all histories with representable option values, those inputs included. *)
From OCV Require Import Base.Prelude Syscall.SockOpt Syscall.SockOptOracle Syscall.SockOptProofs.
Open Scope Z_scope.

(** For every history inside the statement (representable option values, any sign of [tv_sec],
    lookups on live or dead descriptors) the oracle accepts the model's run. *)
Theorem C19_holds : forall ops, wf_C19 ops = true -> ok_C19 ops (run_C19 ops) = true.
Proof. exact ok_C19_run. Qed.

(** Setting the options any number of times, before or after I/O, closing and reusing descriptor
    numbers never aborts: every operation of the history is answered. *)
Theorem C19_no_abort : forall ops,
  wf_C19 ops = true ->
  ~ In OAbort (run_C19 ops) /\ ~ In ODiverged (run_C19 ops) /\ length (run_C19 ops) = length ops.
Proof. exact no_abort_C19. Qed.

(** The limit handed to a hooked call on a live socket is the limit of that socket's current option
    value (zero = no limit, the kernel's zero timeout = [AT_ONCE]), the current value being read off
    the history itself. *)
Theorem C19_limit_current : forall ops, wf_C19 ops = true -> C19_spec ops (run_C19 ops).
Proof. exact limit_current_C19. Qed.

Theorem C19_oracle_sound : forall ops rs, ok_C19 ops rs = true -> C19_spec ops rs.
Proof. exact ok_C19_sound. Qed.

(** A reused descriptor number inherits nothing. *)
Theorem C19_fresh_socket_unlimited : forall ops fd w,
  let h := ops ++ [Socket; Limit fd w] in
  wf_C19 h = true ->
  nth_error (run_C19 h) (length ops) = Some (OFd fd) ->
  nth_error (run_C19 h) (S (length ops)) = Some (OVal U64MAX).
Proof. exact fresh_socket_unlimited_C19. Qed.

(** Repaired finding [setsockopt_negative_sec_aborts]: the model of the code before the repair
    aborts on a negative [tv_sec]; the code as it is answers, and the socket then times out at once. *)
Theorem C19_negative_sec_refuted_before_repair :
  exists ops, wf_C19 ops = true /\ In OAbort (old_run_C19 before_negsec_repair ops)
              /\ ok_C19 ops (old_run_C19 before_negsec_repair ops) = false.
Proof. exact refuted_negative_sec_before_repair. Qed.

Theorem C19_negative_sec_times_out_at_once : forall s fd w sec usec s1 t,
  sec < 0 -> step s (SetOpt fd w sec usec) = (s1, ORet 0, t) ->
  fst (step s1 (Limit fd w)) = (s1, OVal AT_ONCE) /\ snd (fst (step s1 (KGet fd w))) = OTv 0 0.
Proof. exact negative_sec_times_out_at_once. Qed.

(** Repaired finding [limit_on_closed_fd_aborts]: recv_time_limit / send_time_limit on a descriptor
    number that is not open aborted (getsockopt: EBADF); now "no limit" ([C19_holds] covers it). *)
Theorem C19_limit_on_closed_fd_refuted_before_repair :
  exists ops, wf_C19 ops = true /\ In OAbort (old_run_C19 before_badfd_repair ops)
              /\ ok_C19 ops (old_run_C19 before_badfd_repair ops) = false.
Proof. exact refuted_limit_on_closed_fd_before_repair. Qed.

Example C19_nonvacuous :
  let h := [Socket; Limit 0 Rcv; SetOpt 0 Rcv 7 0; Limit 0 Rcv; SetOpt 0 Rcv 0 20000; Limit 0 Rcv;
            SetOpt 0 Snd 18446744074 0; Limit 0 Snd; Socket; Close 0; Socket; Limit 0 Rcv; Limit 0 Snd;
            SetOpt 0 Rcv 0 0; Limit 0 Rcv; KGet 0 Rcv; Close 1; Close 1] in
  let n := [Socket; SetOpt 0 Rcv (-1) 500000; Limit 0 Rcv; Limit 0 Snd; KGet 0 Rcv; SetOpt 0 Rcv 3 0;
            Limit 0 Rcv; SetOpt 0 Snd (-7) 0; Close 0; Limit 0 Snd; Socket; Limit 0 Snd; Limit 9 Rcv] in
  wf_C19 h = true /\
  run_C19 h = [OFd 0; OVal U64MAX; ORet 0; OVal 7000000000; ORet 0; OVal 20000000;
               ORet 0; OVal U64MAX; OFd 1; ORet 0; OFd 0; OVal U64MAX; OVal U64MAX;
               ORet 0; OVal U64MAX; OTv 0 0; ORet 0; ORet (-1)] /\
  wf_C19 n = true /\
  run_C19 n = [OFd 0; ORet 0; OVal 1; OVal U64MAX; OTv 0 0; ORet 0;
               OVal 3000000000; ORet 0; ORet 0; OVal U64MAX; OFd 0; OVal U64MAX; OVal U64MAX] /\
  old_run_C19 before_negsec_repair n = [OFd 0; OAbort] /\
  (* the oracle rejects an abort, and "no limit" on a socket whose timeout is zero *)
  ok_C19 [Socket; SetOpt 0 Rcv (-1) 0; Limit 0 Rcv] [OFd 0; ORet 0; OVal U64MAX] = false /\
  ok_C19 [Limit 9 Rcv] [OAbort] = false.
Proof. repeat split; vm_compute; reflexivity. Qed.

Print Assumptions C19_holds.
Print Assumptions C19_no_abort.
Print Assumptions C19_limit_current.
Print Assumptions C19_oracle_sound.
Print Assumptions C19_fresh_socket_unlimited.
Print Assumptions C19_negative_sec_refuted_before_repair.
Print Assumptions C19_negative_sec_times_out_at_once.
Print Assumptions C19_limit_on_closed_fd_refuted_before_repair.
