(** C19 — Socket timeout options are tracked per live socket without crashing. Statements only. *)
From OCV Require Import Base.Prelude Syscall.SockOpt Syscall.SockOptOracle Syscall.SockOptProofs.
Open Scope Z_scope.

(** For every history inside the statement (I/O on live sockets, representable option values) that
    does not use a negative [tv_sec], the oracle accepts the model's run. *)
Theorem C19_holds_outside : forall ops,
  wf_C19 ops = true -> no_defect_C19 ops = true -> ok_C19 ops (run_C19 ops) = true.
Proof. exact ok_C19_run. Qed.

(** Setting the options any number of times, before or after I/O, closing and reusing descriptor
    numbers never aborts: every operation of the history is answered. *)
Theorem C19_no_abort : forall ops,
  wf_C19 ops = true -> no_defect_C19 ops = true ->
  ~ In OAbort (run_C19 ops) /\ ~ In ODiverged (run_C19 ops) /\ length (run_C19 ops) = length ops.
Proof. exact no_abort_C19. Qed.

(** The limit handed to a hooked call on a live socket is the limit of that socket's current option
    value (zero = no limit), the current value being read off the history itself. *)
Theorem C19_limit_current : forall ops,
  wf_C19 ops = true -> no_defect_C19 ops = true -> C19_spec ops (run_C19 ops).
Proof. exact limit_current_C19. Qed.

Theorem C19_oracle_sound : forall ops rs, ok_C19 ops rs = true -> C19_spec ops rs.
Proof. exact ok_C19_sound. Qed.

(** A reused descriptor number inherits nothing. *)
Theorem C19_fresh_socket_unlimited : forall ops fd w,
  let h := ops ++ [Socket; Limit fd w] in
  wf_C19 h = true -> no_defect_C19 h = true ->
  nth_error (run_C19 h) (length ops) = Some (OFd fd) ->
  nth_error (run_C19 h) (S (length ops)) = Some (OVal U64MAX).
Proof. exact fresh_socket_unlimited_C19. Qed.

(** Recorded finding [setsockopt_negative_sec_aborts]: with a negative [tv_sec] the statement fails. *)
Theorem C19_refuted_setsockopt_negative_sec_aborts :
  exists ops, wf_C19 ops = true /\ ok_C19 ops (run_C19 ops) = false.
Proof. exact refuted_negative_sec. Qed.

Example C19_nonvacuous :
  let h := [Socket; Limit 0 Rcv; SetOpt 0 Rcv 7 0; Limit 0 Rcv; SetOpt 0 Rcv 0 20000; Limit 0 Rcv;
            SetOpt 0 Snd 18446744074 0; Limit 0 Snd; Socket; Close 0; Socket; Limit 0 Rcv; Limit 0 Snd;
            SetOpt 0 Rcv 0 0; Limit 0 Rcv; KGet 0 Rcv; Close 1; Close 1] in
  wf_C19 h = true /\ no_defect_C19 h = true /\
  run_C19 h = [OFd 0; OVal U64MAX; ORet 0; OVal 7000000000; ORet 0; OVal 20000000;
               ORet 0; OVal U64MAX; OFd 1; ORet 0; OFd 0; OVal U64MAX; OVal U64MAX;
               ORet 0; OVal U64MAX; OTv 0 0; ORet 0; ORet (-1)].
Proof. repeat split; vm_compute; reflexivity. Qed.

Print Assumptions C19_holds_outside.
Print Assumptions C19_no_abort.
Print Assumptions C19_limit_current.
Print Assumptions C19_oracle_sound.
Print Assumptions C19_fresh_socket_unlimited.
Print Assumptions C19_refuted_setsockopt_negative_sec_aborts.
