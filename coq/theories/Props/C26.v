(** C26 — Process-wide named singletons are unique under concurrent first use. Statements only.

    [run p (init progs) sched]: the small-step model of beans.rs, [progs] = one program (list of
    get_or_default / get_bean / init_bean calls) per thread, any number of threads, [sched] = any
    list of thread indices. [Racy] is the code as it is in /repo ([run_C26]); [Repaired] is the
    protocol of the repair that was written and measured but cannot land (it makes pinned tests
    fail, see known_findings.jsonl). [ok_outcome] is the property over what the calls returned. *)
From OCV Require Import Base.Prelude Misc.Beans Misc.BeansOracle Misc.BeansProofs.
Open Scope Z_scope.

(** The code as it is violates the property (finding #28), in two ways ... *)
Theorem C26_refuted_get_or_default_check_then_insert :
  exists progs finals sched,
    wf_C26 progs finals = true /\ quiescent (run Racy (init progs) sched) = true /\
    s_over (run Racy (init progs) sched) = true /\
    ok_outcome progs finals (outcome_of finals (run Racy (init progs) sched)) = false.
Proof. exact refuted_check_then_insert. Qed.

Theorem C26_refuted_factory_published_twice :
  exists progs finals sched,
    wf_C26 progs finals = true /\ quiescent (run Racy (init progs) sched) = true /\
    s_pub2 (run Racy (init progs) sched) = true /\ s_over (run Racy (init progs) sched) = false /\
    ok_outcome progs finals (outcome_of finals (run Racy (init progs) sched)) = false.
Proof. exact refuted_factory_published_twice. Qed.

(** ... and satisfies it in every execution, of any number of threads, in which no thread
    publishes a second factory and no insert replaces an existing bean. *)
Theorem C26_holds_outside : forall progs finals sched,
  wf_C26 progs finals = true -> quiescent (run_C26 progs sched) = true ->
  no_defect_C26 progs sched = true ->
  ok_outcome progs finals (outcome_of finals (run_C26 progs sched)) = true.
Proof. exact holds_outside. Qed.

(** The repaired protocol satisfies it for every number of threads, all programs, all schedules. *)
Theorem C26_same_instance_repaired : forall progs finals sched,
  wf_C26 progs finals = true ->
  let s := run Repaired (init progs) sched in
  quiescent s = true -> ok_outcome progs finals (outcome_of finals s) = true.
Proof. exact holds_repaired. Qed.

(** Readable form, at every reachable state (not only at quiescence): two completed
    get_or_default calls for one name returned one address, and it is what a lookup returns now. *)
Theorem C26_spec : forall p progs sched,
  let s := run p (init progs) sched in
  s_pub2 s = false -> s_over s = false ->
  forall t1 t2 i j x a b,
    call_at progs t1 i = Some (CGetOrDefault x) -> call_at progs t2 j = Some (CGetOrDefault x) ->
    res_at s t1 i = Some (RAddr a) -> res_at s t2 j = Some (RAddr b) ->
    a = b /\ lookup_after s x = RAddr a.
Proof. exact spec_no_defect. Qed.

Theorem C26_spec_repaired : forall progs sched,
  let s := run Repaired (init progs) sched in
  forall t1 t2 i j x a b,
    call_at progs t1 i = Some (CGetOrDefault x) -> call_at progs t2 j = Some (CGetOrDefault x) ->
    res_at s t1 i = Some (RAddr a) -> res_at s t2 j = Some (RAddr b) ->
    a = b /\ lookup_after s x = RAddr a.
Proof. exact spec_repaired. Qed.

(** Shared queues and the monitor exist once per process: n pools/schedulers created concurrently
    (each asks for the task queue, the coroutine queue and the monitor) hold the same three objects. *)
Theorem C26_one_queue_one_monitor_repaired : forall n sched,
  let progs := repeat [CGetOrDefault 0; CGetOrDefault 1; CGetOrDefault 2] n in
  let s := run Repaired (init progs) sched in
  quiescent s = true ->
  exists a0 a1 a2, forall th, In th (s_threads s) -> rev (th_done th) = [RAddr a0; RAddr a1; RAddr a2].
Proof. exact one_queue_one_monitor_repaired. Qed.

(** The outcome sets compared with the real code consist of outcomes of genuine schedules of the
    model, and the enumeration never runs out of fuel. *)
Theorem C26_all_outcomes_are_runs : forall p seq0 progs finals o d,
  In (Some (o, d)) (all_runs p seq0 progs finals) ->
  exists sched, let s := run p (init progs) sched in
    quiescent s = true /\ o = outcome_of finals s /\ d = (s_pub2 s, s_over s).
Proof. exact all_runs_are_runs. Qed.

Theorem C26_no_divergence : forall p seq0 progs finals, ~ In None (all_runs p seq0 progs finals).
Proof. exact all_runs_no_divergence. Qed.

Theorem C26_all_outcomes_repaired_ok : forall seq0 progs finals,
  wf_C26 progs finals = true -> ok_C26 progs finals (all_outcomes Repaired seq0 progs finals) = true.
Proof. exact all_outcomes_repaired_ok. Qed.

Example C26_nonvacuous :
  let progs := [[CGetBean 1]; [CGetOrDefault 0; CGetBean 0]; [CInitBean 0]; [CGetBean 0]] in
  wf_C26 progs [0; 1] = true
  /\ ok_C26 progs [0; 1] (all_outcomes Repaired true progs [0; 1]) = true
  /\ distinct_outcomes (all_outcomes Repaired true progs [0; 1]) = 2%nat
  /\ distinct_outcomes (all_outcomes Racy true progs [0; 1]) = 9%nat
  /\ ok_C26 progs [0; 1] (all_outcomes Racy true progs [0; 1]) = false
  /\ some_run snd (all_runs Racy true progs [0; 1]) = true
  /\ ok_outcome progs [0; 1] {| o_threads := [[RNone]; [RAddr 5; RAddr 6]; [RUnit]; [RAddr 5]];
                               o_final := [RAddr 5; RNone] |} = false.
Proof. repeat split; vm_compute; reflexivity. Qed.

Print Assumptions C26_refuted_get_or_default_check_then_insert.
Print Assumptions C26_refuted_factory_published_twice.
Print Assumptions C26_holds_outside.
Print Assumptions C26_same_instance_repaired.
Print Assumptions C26_spec.
Print Assumptions C26_spec_repaired.
Print Assumptions C26_one_queue_one_monitor_repaired.
Print Assumptions C26_all_outcomes_are_runs.
Print Assumptions C26_no_divergence.
Print Assumptions C26_all_outcomes_repaired_ok.
