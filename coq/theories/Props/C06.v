(** C06 — Work in the shared queue is not starved by local work (ordered queue). *)
From OCV Require Import Base.Prelude Queue.PMap Queue.OWS Queue.OWSOracle Queue.OWSProofs.
Open Scope Z_scope.

(** for every well-formed history: while the shared queue is non-empty a handle is served from
    it within 61 consecutive pops, and an idle pop means nothing is pending anywhere *)
Theorem C06_holds : forall n cap ops,
  0 <= cap -> wf_hist n cap ops = true -> o_c06 (model_judge n cap ops) = true.
Proof. exact c06_model. Qed.

Theorem C06_wf_needed : ~ (forall n cap ops, 0 <= cap -> o_c06 (model_judge n cap ops) = true).
Proof. exact c06_model_original_false. Qed.

(** the tick arithmetic alone, for every 32-bit start value including the wrap at u32::MAX:
    among any 61 consecutive pops one consults the shared queue first *)
Theorem C06_tick_window : forall t0, 0 <= t0 <= U32MAX ->
  exists j, (1 <= j <= 61)%nat /\ (snd (tick_iter t0 j)) mod 61 = 0.
Proof. exact tick_window. Qed.

(** around the wrap: from u32::MAX - 3 the values are MAX-2, MAX-1, MAX, 0, 1: the 4th pop consults *)
Example C06_nonvacuous :
  map (fun j => snd (tick_iter (U32MAX - 3) j)) [1; 2; 3; 4; 5]%nat = [U32MAX - 2; U32MAX - 1; U32MAX; 0; 1]
  /\ U32MAX mod 61 = 56.
Proof. split; vm_compute; reflexivity. Qed.

Print Assumptions C06_holds.
Print Assumptions C06_wf_needed.
Print Assumptions C06_tick_window.
