(** C28 — Time and slicing helpers never overflow or loop. Statements only. *)
From OCV Require Import Base.Prelude Misc.Time Misc.TimeOracle Misc.TimeProofs.
Open Scope Z_scope.

Theorem C28_holds : forall ops, wf_C28 ops = true -> ok_C28 ops (run_C28 ops) = true.
Proof. exact ok_C28_run. Qed.

Theorem C28_oracle_sound : forall o r, ok_op o r = true -> C28_spec_op o r.
Proof. exact ok_op_sound. Qed.

Theorem C28_deadline_saturates : forall now dur, 0 <= now <= U64MAX -> 0 <= dur ->
  now <= get_timeout_time now dur <= U64MAX /\
  (now + dur <= U64MAX -> get_timeout_time now dur = now + dur).
Proof. exact timeout_time_no_wrap. Qed.

Theorem C28_slices : forall total slice, 0 <= total -> 0 < slice ->
  exists l, get_slices total slice = Some l
            /\ Forall (piece_ok slice) l /\ sumZ l = total /\ (l = [] <-> total = 0).
Proof. exact get_slices_spec. Qed.

Theorem C28_zero_is_unlimited : forall sec usec, 0 <= sec -> 0 <= usec ->
  exists t, get_time_limit sec usec = Some t /\
    ((sec = 0 /\ usec = 0) -> t = U64MAX) /\
    (~ (sec = 0 /\ usec = 0) -> t = Z.min (sec * 1000000000 + usec * 1000) U64MAX) /\
    0 < t <= U64MAX.
Proof. exact time_limit_spec. Qed.

Example C28_nonvacuous :
  wf_C28 [TimeoutTime (U64MAX - 5) 10; Slices 25 10; Slices 0 3; TimeLimit 0 0; TimeLimit 7 5] = true
  /\ run_C28 [TimeoutTime (U64MAX - 5) 10; Slices 25 10; Slices 0 3; TimeLimit 0 0; TimeLimit 7 5]
     = [OVal U64MAX; OList [10; 10; 5]; OList []; OVal U64MAX; OVal 7000005000].
Proof. split; vm_compute; reflexivity. Qed.

Print Assumptions C28_holds.
Print Assumptions C28_oracle_sound.
Print Assumptions C28_deadline_saturates.
Print Assumptions C28_slices.
Print Assumptions C28_zero_is_unlimited.
