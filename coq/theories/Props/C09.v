(** C09 — Delay and cancel requests affect only the coroutine that made them. *)
From OCV Require Import Base.Prelude Misc.Time Coroutine.Co Coroutine.CoOracle Coroutine.CoProofs.
Open Scope Z_scope.

(** for all bodies, histories and coroutine counts, with no premise: a yield classified in state
    Running reports exactly the wake-up time and the cancellation requested in that yield
    (time 0 and not cancelled for a plain suspend), whatever other coroutines requested before,
    including requests made in a syscall state *)
Theorem C09_holds : forall clock bodies nl ops, j_c09 (model_cojudge clock bodies nl ops) = true.
Proof. exact c09_model. Qed.

(** the invariant behind it: both thread-local request deques are empty whenever control is
    back in the driver *)
Theorem C09_deques_empty : forall clock bodies nl ops, (1 <= nl)%nat ->
  t_ts (dfinal (mk_thr clock bodies nl) ops) = [] /\ t_cn (dfinal (mk_thr clock bodies nl) ops) = [].
Proof. exact deques_empty_between_ops. Qed.

(** the history that leaked before the repair: A yields until(12345) inside a syscall state, then
    B's plain suspend must report time 0 *)
Example C09_nonvacuous :
  map fst (drun (mk_thr 1000 [[ISyscall 1 0 (SSuspend 9000); IUntil 2 12345]; [ISuspend 3]] 1)
                [Resume 0 1; Resume 1 2])
  = [ROk (Syscall 1 0 (SSuspend 9000)); ROk (Suspend 3 0)].
Proof. vm_compute. reflexivity. Qed.

Print Assumptions C09_holds.
Print Assumptions C09_deques_empty.
