(** C25 — Coroutine-local storage is private, map-like, and released with the coroutine.
    Statements only. [run_C25 n ops] is the model of the code as it is (n coroutines, history
    [ops]; [old_run_C25]: the code before the repair of finding #27); [ok_maps_C25] / [ok_C25] are the property as an oracle over observed results (map
    clauses / map clauses + release on drop). *)
From OCV Require Import Base.Prelude Misc.Local Misc.LocalOracle Misc.LocalProofs Misc.LocalGhost.
From Coq Require Import Permutation.
Open Scope Z_scope.

(** every history agrees with a functional map per coroutine: store returns the previous value,
    read returns the latest, remove returns it and deletes the key *)
Theorem C25_map_refinement : forall n ops,
  wf_C25 n ops = true -> ok_maps_C25 n ops (run_C25 n ops) = true.
Proof. exact map_refinement. Qed.

(** a read returns the most recent write to that key of that coroutine, found by scanning the
    history backwards (no forward tracker involved) *)
Theorem C25_reads_latest : forall n h c k,
  wf_C25 n (h ++ [Get c k]) = true ->
  last (run_C25 n (h ++ [Get c k])) OBad = ORes (latest c k (rev h)) [].
Proof. exact reads_latest. Qed.

(** what is observed through coroutine [c] is what [c]'s own calls alone would have produced *)
Theorem C25_private : forall n ops c,
  wf_C25 n ops = true -> 0 <= c ->
  obs_of c ops (run_C25 n ops) = run_C25 n (ops_of c ops).
Proof. exact private. Qed.

(** the whole property, release on drop included: every call returns what the functional map says
    and a dropped coroutine destroys exactly the values it still stored *)
Theorem C25_holds : forall n ops,
  wf_C25 n ops = true -> ok_C25 n ops (run_C25 n ops) = true.
Proof. exact holds. Qed.

(** before the repair of finding #27 ([old_run_C25]: no [Drop for CoroutineLocal]) release on drop
    failed, and only that: the map clauses held *)
Theorem C25_refuted_before_repair :
  exists n ops, wf_C25 n ops = true /\ ok_C25 n ops (old_run_C25 n ops) = false.
Proof. exact refuted_before_repair. Qed.

Theorem C25_old_map_refinement : forall n ops,
  wf_C25 n ops = true -> ok_maps_C25 n ops (old_run_C25 n ops) = true.
Proof. exact old_map_refinement. Qed.

(** Ghost level ([st_live]: the boxes allocated and not freed): after any history the boxes still
    allocated are exactly those of the values still stored; store, overwrite, remove and drop never
    leak. Before the repair: plus those stored in a coroutine when it was dropped. *)
Theorem C25_live_cells_exact : forall n ops,
  Permutation (st_live (final_C25 n ops)) (stored (final_C25 n ops)).
Proof. exact live_cells_exact. Qed.

Theorem C25_old_live_cells_exact : forall n ops,
  Permutation (st_live (old_final_C25 n ops)) (stored (old_final_C25 n ops) ++ old_leaked_C25 n ops).
Proof. exact old_live_cells_exact. Qed.

Example C25_nonvacuous :
  let ops := [Put 0 7 1 10; Put 1 7 2 20; Put 0 7 3 30; GetMut 0 7 (-4); Get 0 7; Get 1 7;
              Put 0 5 4 40; Remove 0 7; Get 0 7; Put 0 9 6 60; Put 0 7 5 50; DropCo 0; Remove 1 7; DropCo 1] in
  wf_C25 2 ops = true /\ ok_C25 2 ops (run_C25 2 ops) = true
  /\ run_C25 2 ops = [ORes None []; ORes None []; ORes (Some (1, 10)) []; ORes (Some (3, 30)) [];
                      ORes (Some (3, -4)) []; ORes (Some (2, 20)) []; ORes None []; ORes (Some (3, -4)) [];
                      ORes None []; ORes None []; ORes None []; ODrop [4; 5; 6]; ORes (Some (2, 20)) []; ODrop []]
  /\ ok_C25 2 ops (firstn 11 (run_C25 2 ops) ++ [ODrop [4; 6]; ORes (Some (2, 20)) []; ODrop []]) = false
  /\ ok_C25 2 ops (firstn 11 (run_C25 2 ops) ++ [ODrop [4; 5; 6]; ORes (Some (2, 20)) []; ODrop [2]]) = false
  /\ ok_C25 2 ops (old_run_C25 2 ops) = false.
Proof. repeat split; vm_compute; reflexivity. Qed.

Print Assumptions C25_map_refinement.
Print Assumptions C25_reads_latest.
Print Assumptions C25_private.
Print Assumptions C25_holds.
Print Assumptions C25_refuted_before_repair.
Print Assumptions C25_old_map_refinement.
Print Assumptions C25_live_cells_exact.
Print Assumptions C25_old_live_cells_exact.
