(** C25 — Coroutine-local storage is private, map-like, and released with the coroutine.
    Statements only. [run_C25 n ops] is the model of the code as it is (n coroutines, history
    [ops]); [ok_maps_C25] / [ok_C25] are the property as an oracle over observed results (map
    clauses / map clauses + release on drop). *)
From OCV Require Import Base.Prelude Misc.Local Misc.LocalOracle Misc.LocalProofs Misc.LocalGhost.
From Coq Require Import Permutation.
Open Scope Z_scope.

(** every history agrees with a functional map per coroutine: store returns the previous value,
    read returns the latest, remove returns it and deletes the key *)
Theorem C25_map_refinement : forall n ops,
  wf_C25 n ops = true -> ok_maps_C25 n ops (run_C25 n ops) = true.
Proof. exact map_refinement. Qed.

(** a read returns the most recent write to that key of that coroutine, found by scanning the
    history backwards (no forward tracker involved) *)
Theorem C25_reads_latest : forall n h c k,
  wf_C25 n (h ++ [Get c k]) = true ->
  last (run_C25 n (h ++ [Get c k])) OBad = ORes (latest c k (rev h)) [].
Proof. exact reads_latest. Qed.

(** what is observed through coroutine [c] is what [c]'s own calls alone would have produced *)
Theorem C25_private : forall n ops c,
  wf_C25 n ops = true -> 0 <= c ->
  obs_of c ops (run_C25 n ops) = run_C25 n (ops_of c ops).
Proof. exact private. Qed.

(** release on drop fails on the current code (finding #27) ... *)
Theorem C25_refuted_values_leaked_on_drop :
  exists n ops, wf_C25 n ops = true /\ ok_C25 n ops (run_C25 n ops) = false.
Proof. exact refuted_values_leaked_on_drop. Qed.

(** ... and the whole property holds for every history that never drops a coroutine which still
    stores a value *)
Theorem C25_holds_outside : forall n ops,
  wf_C25 n ops = true -> no_defect_C25 n ops = true -> ok_C25 n ops (run_C25 n ops) = true.
Proof. exact holds_outside. Qed.

(** Ghost level ([st_live]: the boxes allocated and not freed): after any history the boxes still
    allocated are exactly those of the values still stored plus those that were stored in a
    coroutine when it was dropped; so outside the defect nothing but stored values is allocated, and
    store / overwrite / remove never leak. *)
Theorem C25_live_cells_exact : forall n ops,
  Permutation (st_live (final_C25 n ops)) (stored (final_C25 n ops) ++ leaked_C25 n ops).
Proof. exact live_cells_exact. Qed.

Theorem C25_no_leak_outside : forall n ops,
  no_defect_C25 n ops = true -> Permutation (st_live (final_C25 n ops)) (stored (final_C25 n ops)).
Proof. exact no_leak_outside. Qed.

Example C25_nonvacuous :
  let ops := [Put 0 7 1 10; Put 1 7 2 20; Put 0 7 3 30; GetMut 0 7 (-4); Get 0 7; Get 1 7;
              Remove 0 7; Get 0 7; DropCo 0; Remove 1 7; DropCo 1] in
  wf_C25 2 ops = true /\ no_defect_C25 2 ops = true /\ ok_C25 2 ops (run_C25 2 ops) = true
  /\ run_C25 2 ops = [ORes None []; ORes None []; ORes (Some (1, 10)) []; ORes (Some (3, 30)) [];
                      ORes (Some (3, -4)) []; ORes (Some (2, 20)) []; ORes (Some (3, -4)) [];
                      ORes None []; ODrop []; ORes (Some (2, 20)) []; ODrop []]
  /\ ok_C25 2 ops (firstn 8 (run_C25 2 ops) ++ [ODrop [5]; ORes (Some (2, 20)) []; ODrop []]) = false.
Proof. repeat split; vm_compute; reflexivity. Qed.

Print Assumptions C25_map_refinement.
Print Assumptions C25_reads_latest.
Print Assumptions C25_private.
Print Assumptions C25_refuted_values_leaked_on_drop.
Print Assumptions C25_holds_outside.
Print Assumptions C25_live_cells_exact.
Print Assumptions C25_no_leak_outside.
