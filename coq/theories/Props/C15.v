(** C15 — A coroutine blocked in a hooked call does not stall its event loop. (provisional) *)
From OCV Require Import Cases.C15 Sched.C15Lemmas.
Open Scope Z_scope.

(** the body grammar accepted by [wf15] is exactly [body_of] *)
Theorem C15_parse_sound : forall b sp, parse_body b = Some sp -> b = body_of sp.
Proof. exact parse_body_sound. Qed.
Print Assumptions C15_parse_sound.
