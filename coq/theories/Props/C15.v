(** C15 — A coroutine blocked in a hooked call does not stall its event loop.

    Model: the pool model [Sched.Pool] (worker loop, creator listener, scheduling pass) on virtual
    time, single pool with the crate's default [min_size = 0], [keep_alive_time = 0] and any
    [max_size]. Oracle: [Sched.C15Oracle.ok_c15] over observed histories. *)
From OCV Require Import Cases.C15 Sched.C15Lemmas Sched.C15Proofs.
Open Scope Z_scope.

(** For every pool size [mx], every start clock and every history made of submissions (each task
    = optionally one hooked sleep until any time, then any amount of computing), passes with any
    deadline and clock changes, in any order and number: at the end of every pass that was not cut
    by its deadline, either no task is pending (every task is finished or legitimately asleep), or
    all [mx] worker slots are occupied by workers blocked in a hooked wait whose time has not come.
    No pass errs or diverges. *)
Theorem C15_holds : forall mx c0 ops,
  wf15 ops = true -> ok_c15 mx c0 ops (prun (pw0 c0 [(0, mx, 0)]) ops) = true.
Proof. exact c15_model. Qed.

(** the body grammar accepted by [wf15] is exactly [body_of] *)
Theorem C15_parse_sound : forall b sp, parse_body b = Some sp -> b = body_of sp.
Proof. exact parse_body_sound. Qed.

Print Assumptions C15_holds.
Print Assumptions C15_parse_sound.
