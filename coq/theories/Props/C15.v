(** C15 — A coroutine blocked in a hooked call does not stall its event loop.

    Model: the pool model [Sched.Pool] (worker loop of [try_grow], creator listener, scheduling pass
    [do_schedule] with its syscall-suspend heap) on virtual time; one pool with the crate's default
    [min_size = 0], [keep_alive_time = 0] and any [max_size = mx]. A hooked sleep until [t] is the
    block [sleep_block n t] (Syscall Executing, Syscall Suspend(t), until(t), Syscall Executing,
    Running) that the facade and [EventLoop::wait_just] perform. Oracle: [C15Oracle.ok_c15] over
    observed histories (it reads the task bodies' own log and the recording listener's events). *)
From OCV Require Import Cases.C15 Sched.C15Lemmas Sched.C15Inv Sched.C15Proofs.
Open Scope Z_scope.

(** For every pool size, every start clock and every history made of submissions (each task =
    optionally one hooked sleep until any time, then any amount of computing), passes with any
    deadline and clock changes, in any order and number: at the end of every pass that was not cut
    by its deadline, either no task is pending (each is finished or legitimately asleep), or all
    [mx] worker slots are taken by workers blocked in a hooked wait whose time has not come; no
    pass errs or fails to return. *)
Theorem C15_holds : forall mx c0 ops,
  wf15 ops = true -> ok_c15 mx c0 ops (prun (pw0 c0 [(0, mx, 0)]) ops) = true.
Proof. exact c15_model. Qed.

(** N <= max_size tasks that each sleep (until any time <= c2), mixed with any computing tasks,
    submitted at clock c0: (1) in the first pass, still at clock c0, every sleeper has started its
    wait — the sleeps overlap; (2) after one pass at a clock c2 past the wake-up times every task
    has finished: the makespan is the longest sleep, there is no term N * d. *)
Theorem C15_overlap : forall mx c0 specs dl1 c2 dl2,
  Z.of_nat (nsleepers specs) <= mx -> 1 <= mx -> c0 < dl1 -> c2 < dl2 ->
  (forall t n T lg, spec_sleeper specs t n T lg -> T <= c2) ->
  (forall t, slp specs t = true ->
     status (track15 mx c0 (ops_pass1 specs dl1) (prun (x0 mx c0) (ops_pass1 specs dl1))) t <> NotStarted) /\
  (forall t, (t < length specs)%nat ->
     status (track15 mx c0 (ops_pass2 specs dl1 c2 dl2) (prun (x0 mx c0) (ops_pass2 specs dl1 c2 dl2))) t = Finished).
Proof. exact c15_overlap. Qed.

(** with one spare slot (N < max_size) every computing task submitted with the sleepers finishes in
    the first pass, whatever the order of submission and however long the sleeps are *)
Theorem C15_sibling_progress : forall mx c0 specs dl1,
  Z.of_nat (nsleepers specs) < mx -> c0 < dl1 ->
  forall t, (t < length specs)%nat -> slp specs t = false ->
    status (track15 mx c0 (ops_pass1 specs dl1) (prun (x0 mx c0) (ops_pass1 specs dl1))) t = Finished.
Proof. exact c15_sibling_progress. Qed.

(** the body grammar accepted by [wf15] is exactly [body_of] *)
Theorem C15_parse_sound : forall b sp, parse_body b = Some sp -> b = body_of sp.
Proof. exact parse_body_sound. Qed.

(** non-vacuity. 3 sleepers (until 1050, 1051, 1052) and 2 computing tasks, [max_size] 4, clock 1000:
    after the first pass the sleepers are asleep and the computing tasks finished; after the pass
    at 1052 all are finished; the history is in the proved family and the oracle accepts it.
    The oracle is not trivially true: a pass that returns with a task queued and no worker blocked
    is rejected, and so is a pass that does not return. *)
Definition c15_specs : list tspec :=
  [ {| ts_sleep := Some (2, 1050); ts_logs := [1] |}; {| ts_sleep := None; ts_logs := [7; 8] |};
    {| ts_sleep := Some (0, 1051); ts_logs := [] |}; {| ts_sleep := Some (1, 1052); ts_logs := [2] |};
    {| ts_sleep := None; ts_logs := [] |} ].
Example C15_nonvacuous :
  wf15 (ops_pass2 c15_specs U64MAX 1052 U64MAX) = true
  /\ k_tasks (track15 4 1000 (ops_pass1 c15_specs U64MAX) (prun (x0 4 1000) (ops_pass1 c15_specs U64MAX)))
     = [Asleep 1050; Finished; Asleep 1051; Asleep 1052; Finished]
  /\ k_tasks (track15 4 1000 (ops_pass2 c15_specs U64MAX 1052 U64MAX) (prun (x0 4 1000) (ops_pass2 c15_specs U64MAX 1052 U64MAX)))
     = [Finished; Finished; Finished; Finished; Finished]
  /\ k_judged (track15 4 1000 (ops_pass2 c15_specs U64MAX 1052 U64MAX) (prun (x0 4 1000) (ops_pass2 c15_specs U64MAX 1052 U64MAX))) = 2%nat
  /\ ok_c15 4 1000 (ops_pass2 c15_specs U64MAX 1052 U64MAX) (prun (x0 4 1000) (ops_pass2 c15_specs U64MAX 1052 U64MAX)) = true
  /\ ok_c15 2 0 [PSubmit 0 [] None; PPass 0 U64MAX] [OSubmit true; OPass (PLeft 5) []] = false
  /\ ok_c15 2 0 [PSubmit 0 [] None; PPass 0 U64MAX] [OSubmit true; OPass PDiverged []] = false.
Proof. repeat split; vm_compute; reflexivity. Qed.

Print Assumptions C15_holds.
Print Assumptions C15_overlap.
Print Assumptions C15_sibling_progress.
Print Assumptions C15_parse_sound.
