(** C20 — Readiness wakes exactly the waiting coroutine, promptly. Statements only. *)
From OCV Require Import Base.Prelude Net.Selector Net.Token Net.TokenOracle Net.TokenProofs.
Open Scope Z_scope.

Theorem C20_roundtrip : forall t, 0 <= t < 2 ^ 64 -> decode (encode t) = t.
Proof. exact roundtrip. Qed.

Print Assumptions C20_roundtrip.
