(** C20 — Readiness wakes exactly the waiting coroutine, promptly. Statements only. *)
From OCV Require Import Base.Prelude Net.Selector Net.Token Net.TokenOracle Net.TokenProofs.
Open Scope Z_scope.

(** the token handed to the OS comes back unchanged, for every 64-bit coroutine id *)
Theorem C20_roundtrip : forall t, 0 <= t < 2 ^ 64 -> decode (encode t) = t.
Proof. exact roundtrip. Qed.

(** known finding: a registration (and its token) outlives the wait that made it *)
Theorem C20_refuted_registration_outlives_wait :
  exists nfd ops, wf_C20 nfd ops = true /\ ok_C20 ops (run_C20 nfd ops) = false.
Proof. exact refuted_missed. Qed.

Theorem C20_refuted_registration_outlives_wait_cross :
  exists nfd ops, wf_C20 nfd ops = true /\ ok_C20 ops (run_C20 nfd ops) = false
  /\ run_C20 nfd ops = [ORegT true (Some (true, false, 6297203254532200539)) true;
                        OReg true (Some (true, false, 6297203254532200539));
                        OEvent 6297203254532200539 true [6297203254532200539]].
Proof. exact refuted_cross. Qed.

(** known finding: the OS holds one token per descriptor; two coroutines waiting for the two
    directions of one descriptor: write readiness resumes the reader, not the writer *)
Theorem C20_refuted_one_token_per_descriptor :
  exists nfd ops, wf_C20 nfd ops = true /\ ok_C20 ops (run_C20 nfd ops) = false
  /\ run_C20 nfd ops = [OReg true (Some (false, true, 13712591878437130464));
                        OReg true (Some (true, true, 440535360));
                        OEvent 440535360 true [440535360]]
  /\ fst (tags_C20 nfd ops) = [TagOneToken].
Proof. exact refuted_one_token. Qed.

(** what the oracle's readiness clause says: a coroutine waiting for that direction of the
    descriptor is resumed by the event ... *)
Theorem C20_wake_hits : forall t d fd tok hit woken t' c,
  ok_step t (Ready d fd) (OEvent tok hit woken) = (true, t') -> In c (waiters_on fd d t) -> In c woken.
Proof. exact wake_hits. Qed.

(** ... and nobody else is: nobody waiting for another descriptor, nobody waiting for the other
    direction of this one *)
Theorem C20_no_cross_wake : forall t d fd tok hit woken t' c,
  ok_step t (Ready d fd) (OEvent tok hit woken) = (true, t') -> In c woken ->
  exists f w, In (c, (f, w)) t /\ f = fd /\ w = d.
Proof.
  intros t d fd tok hit woken t' c H1 H2. apply waiters_on_spec. exact (no_cross_wake t d fd tok hit woken t' c H1 H2).
Qed.

(** when the OS delivers nothing for a direction of a descriptor, the oracle accepts only if nobody
    waits for it (such a waiter would be resumed by its wait timeout) *)
Theorem C20_unregistered_direction_has_no_waiter : forall t d fd t',
  ok_step t (Ready d fd) ONoEvent = (true, t') -> waiters_on fd d t = [].
Proof. exact ready_clause_noevent. Qed.

Print Assumptions C20_roundtrip.
Print Assumptions C20_refuted_registration_outlives_wait.
Print Assumptions C20_refuted_registration_outlives_wait_cross.
Print Assumptions C20_refuted_one_token_per_descriptor.
Print Assumptions C20_wake_hits.
Print Assumptions C20_no_cross_wake.
Print Assumptions C20_unregistered_direction_has_no_waiter.
